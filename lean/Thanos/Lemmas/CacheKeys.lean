import Thanos.Model.CacheKeys
/-
  Helper lemmas for C13: decimal numerals, unique splitting at a separator, prefix codes.
-/
namespace Thanos.CacheKeys

/-! ### decimal numerals -/

theorem decimalF_fuel : ∀ (f f' n : Nat), n ≤ f → n ≤ f' → decimalF f n = decimalF f' n := by
  intro f
  induction f with
  | zero =>
    intro f' n h _
    have : n = 0 := by omega
    subst this
    cases f' <;> simp [decimalF]
  | succ f ih =>
    intro f' n h h'
    cases f' with
    | zero =>
      have : n = 0 := by omega
      subst this
      simp [decimalF]
    | succ f' =>
      simp only [decimalF]
      split
      · rfl
      · rw [ih f' (n / 10) (by omega) (by omega)]

/-- the defining equation of `strconv.FormatUint(n, 10)` -/
theorem decimal_eq (n : Nat) :
    decimal n = if n < 10 then [48 + n] else decimal (n / 10) ++ [48 + n % 10] := by
  unfold decimal
  cases n with
  | zero => simp [decimalF]
  | succ n =>
    simp only [decimalF]
    split
    · rfl
    · rw [decimalF_fuel n ((n + 1) / 10) ((n + 1) / 10) (by omega) (by omega)]

theorem decimal_ne_nil (n : Nat) : decimal n ≠ [] := by
  rw [decimal_eq]; split <;> simp

/-- only the digits '0'..'9' occur -/
theorem decimal_digits (n : Nat) : ∀ c ∈ decimal n, 48 ≤ c ∧ c ≤ 57 := by
  induction n using Nat.strongRecOn with
  | _ n ih =>
    rw [decimal_eq]
    split
    · intro c hc; simp at hc; omega
    · intro c hc
      simp only [List.mem_append, List.mem_singleton] at hc
      rcases hc with hc | hc
      · exact ih (n / 10) (by omega) c hc
      · omega

theorem decimal_no_colon (n : Nat) : ∀ c ∈ decimal n, c ≠ cColon := by
  intro c hc
  have := decimal_digits n c hc
  simp only [cColon]; omega

theorem decimal_inj : ∀ (n m : Nat), decimal n = decimal m → n = m := by
  intro n
  induction n using Nat.strongRecOn with
  | _ n ih =>
    intro m h
    rw [decimal_eq n, decimal_eq m] at h
    by_cases hn : n < 10 <;> by_cases hm : m < 10
    · simp [hn, hm] at h; omega
    · simp only [hn, hm, if_true, if_false] at h
      have hl := congrArg List.length h
      have := decimal_ne_nil (m / 10)
      cases hd : decimal (m / 10) with
      | nil => exact absurd hd this
      | cons a as => rw [hd] at hl; simp at hl
    · simp only [hn, hm, if_true, if_false] at h
      have hl := congrArg List.length h
      have := decimal_ne_nil (n / 10)
      cases hd : decimal (n / 10) with
      | nil => exact absurd hd this
      | cons a as => rw [hd] at hl; simp at hl
    · simp only [hn, hm, if_false] at h
      have h2 := List.append_inj' h (by simp)
      have h3 := ih (n / 10) (by omega) (m / 10) h2.1
      have h4 : 48 + n % 10 = 48 + m % 10 := by simpa using h2.2
      omega

/-! ### unique splitting -/

/-- If `a` and `b` consist of characters satisfying `p`, and what follows them is empty or starts
    with a character not satisfying `p`, then `a ++ r = b ++ s` splits in only one way. -/
theorem span_unique (p : Nat → Prop) : ∀ (a b r s : Str),
    (∀ c ∈ a, p c) → (∀ c ∈ b, p c) →
    (∀ c, r.head? = some c → ¬ p c) → (∀ c, s.head? = some c → ¬ p c) →
    a ++ r = b ++ s → a = b ∧ r = s
  | [], [], r, s, _, _, _, _, h => ⟨rfl, by simpa using h⟩
  | [], y :: b, r, s, _, hb, hr, _, h => by
    simp only [List.nil_append, List.cons_append] at h
    subst h
    exact absurd (hb y (by simp)) (hr y (by simp))
  | x :: a, [], r, s, ha, _, _, hs, h => by
    simp only [List.nil_append, List.cons_append] at h
    subst h
    exact absurd (ha x (by simp)) (hs x (by simp))
  | x :: a, y :: b, r, s, ha, hb, hr, hs, h => by
    simp only [List.cons_append, List.cons.injEq] at h
    obtain ⟨rfl, h⟩ := h
    have := span_unique p a b r s (fun c hc => ha c (by simp [hc])) (fun c hc => hb c (by simp [hc])) hr hs h
    exact ⟨by rw [this.1], this.2⟩

/-- splitting at the first ':' -/
theorem split_colon {a b v w : Str} (ha : cColon ∉ a) (hb : cColon ∉ b)
    (h : a ++ cColon :: v = b ++ cColon :: w) : a = b ∧ v = w := by
  have := span_unique (fun c => c ≠ cColon) a b (cColon :: v) (cColon :: w)
    (fun c hc hcc => ha (hcc ▸ hc)) (fun c hc hcc => hb (hcc ▸ hc))
    (by intro c hc; simp at hc; simp [hc]) (by intro c hc; simp at hc; simp [hc]) h
  exact ⟨this.1, by simpa using this.2⟩

/-! ### quoting as a parameter -/

/-- what the theorems need of `strconv.Quote`: the result starts with '"', and it is a uniquely
    decodable prefix code (reading a quoted string from the left ends at its closing quote). -/
structure QuoteCode (quote : Str → Str) : Prop where
  starts : ∀ s, ∃ t, quote s = cQuote :: t
  prefixFree : ∀ a b r s, quote a ++ r = quote b ++ s → a = b ∧ r = s

/-- the operator is delimited by the opening quote of the value -/
theorem typeStr_unique (t1 t2 : MatchType) (x y : Str)
    (hx : x.head? = some cQuote) (hy : y.head? = some cQuote)
    (h : t1.str ++ x = t2.str ++ y) : t1 = t2 ∧ x = y := by
  cases x with
  | nil => simp at hx
  | cons x0 xs =>
    cases y with
    | nil => simp at hy
    | cons y0 ys =>
      simp only [List.head?_cons, Option.some.injEq] at hx hy
      subst hx; subst hy
      cases t1 <;> cases t2 <;> simp_all [MatchType.str, cQuote, cEq, cBang, cTilde]

theorem legacyChar_true_false {c : Nat} (h : legacyChar true c = true) : legacyChar false c = true := by
  simp only [legacyChar, Bool.or_eq_true, Bool.and_eq_true, decide_eq_true_eq, Bool.not_true,
    Bool.false_and, Bool.or_false, Bool.not_false, Bool.true_and] at h ⊢
  rcases h with (h | h) | h
  · exact Or.inl (Or.inl (Or.inl h))
  · exact Or.inl (Or.inl (Or.inr h))
  · exact Or.inl (Or.inr h)

theorem legacyTail_all : ∀ (s : Str), legacyTail s = true → ∀ c ∈ s, legacyChar false c = true
  | [], _, c, hc => by simp at hc
  | x :: xs, h, c, hc => by
    simp only [legacyTail, Bool.and_eq_true] at h
    simp only [List.mem_cons] at hc
    rcases hc with rfl | hc
    · exact h.1
    · exact legacyTail_all xs h.2 c hc

/-- an unquoted name is non-empty and made of legacy characters only -/
theorem unquoted_name {n : Str} (h : shouldQuoteName n = false) :
    (∃ c cs, n = c :: cs ∧ legacyChar true c = true) ∧ ∀ c ∈ n, legacyChar false c = true := by
  cases n with
  | nil => simp [shouldQuoteName] at h
  | cons c cs =>
    simp only [shouldQuoteName, Bool.not_eq_false', Bool.and_eq_true] at h
    refine ⟨⟨c, cs, rfl, h.1⟩, ?_⟩
    intro d hd
    simp only [List.mem_cons] at hd
    rcases hd with rfl | hd
    · exact legacyChar_true_false h.1
    · exact legacyTail_all cs h.2 d hd

theorem typeStr_head_not_legacy (t : MatchType) (x : Str) :
    ∀ c, (t.str ++ x).head? = some c → ¬ (legacyChar false c = true) := by
  intro c hc
  cases t <;> simp [MatchType.str, cEq, cBang] at hc <;> subst hc <;> decide

/-- `Matcher.String` is a prefix code on matchers: reading one matcher from the left is unique. -/
theorem matcherString_prefix {quote : Str → Str} (hq : QuoteCode quote) (m1 m2 : Matcher) (r1 r2 : Str)
    (h : matcherString quote m1 ++ r1 = matcherString quote m2 ++ r2) : m1 = m2 ∧ r1 = r2 := by
  obtain ⟨t1, n1, v1⟩ := m1
  obtain ⟨t2, n2, v2⟩ := m2
  simp only [matcherString, List.append_assoc] at h
  have hv : ∀ v r, (quote v ++ r).head? = some cQuote := by
    intro v r
    obtain ⟨t, ht⟩ := hq.starts v
    simp [ht]
  have finish : ∀ (hn : n1 = n2), t1.str ++ (quote v1 ++ r1) = t2.str ++ (quote v2 ++ r2) →
      (Matcher.mk t1 n1 v1 = Matcher.mk t2 n2 v2) ∧ r1 = r2 := by
    intro hn h'
    obtain ⟨ht, h''⟩ := typeStr_unique t1 t2 _ _ (hv v1 r1) (hv v2 r2) h'
    obtain ⟨hvv, hr⟩ := hq.prefixFree _ _ _ _ h''
    subst hn; subst ht; subst hvv
    exact ⟨rfl, hr⟩
  cases h1 : shouldQuoteName n1 <;> cases h2 : shouldQuoteName n2 <;> simp only [h1, h2, if_true, if_false, Bool.false_eq_true] at h
  · -- both names printed as they are
    obtain ⟨_, a1⟩ := unquoted_name h1
    obtain ⟨_, a2⟩ := unquoted_name h2
    have := span_unique (fun c => legacyChar false c = true) n1 n2 _ _ a1 a2
      (typeStr_head_not_legacy t1 _) (typeStr_head_not_legacy t2 _) h
    exact finish this.1 this.2
  · -- n1 unquoted, n2 quoted: first characters differ
    obtain ⟨⟨c, cs, rfl, hc⟩, _⟩ := unquoted_name h1
    obtain ⟨q, hq2⟩ := hq.starts n2
    rw [hq2] at h
    simp only [List.cons_append, List.cons.injEq] at h
    obtain ⟨rfl, _⟩ := h
    exact absurd hc (by decide)
  · obtain ⟨⟨c, cs, rfl, hc⟩, _⟩ := unquoted_name h2
    obtain ⟨q, hq1⟩ := hq.starts n1
    rw [hq1] at h
    simp only [List.cons_append, List.cons.injEq] at h
    obtain ⟨rfl, _⟩ := h
    exact absurd hc (by decide)
  · -- both quoted
    obtain ⟨hn, h'⟩ := hq.prefixFree _ _ _ _ h
    exact finish hn h'

theorem matcherString_ne_nil (quote : Str → Str) (m : Matcher) : matcherString quote m ≠ [] := by
  obtain ⟨t, n, v⟩ := m
  cases t <;> simp [matcherString, MatchType.str]

theorem lms_cons_cons (quote : Str → Str) (m m' : Matcher) (ms : List Matcher) :
    labelMatchersToString quote (m :: m' :: ms) =
      matcherString quote m ++ cSemi :: labelMatchersToString quote (m' :: ms) := by
  simp [labelMatchersToString]

/-- `LabelMatchersToString` is injective on lists of matchers. -/
theorem labelMatchersToString_inj {quote : Str → Str} (hq : QuoteCode quote) :
    ∀ (ms1 ms2 : List Matcher),
      labelMatchersToString quote ms1 = labelMatchersToString quote ms2 → ms1 = ms2
  | [], [], _ => rfl
  | [], [m], h => by
    simp only [labelMatchersToString] at h
    exact absurd h.symm (matcherString_ne_nil quote m)
  | [], m :: m' :: ms, h => by
    rw [lms_cons_cons] at h
    simp only [labelMatchersToString] at h
    have := matcherString_ne_nil quote m
    cases hm : matcherString quote m with
    | nil => exact absurd hm this
    | cons a as => rw [hm] at h; simp at h
  | [m], [], h => by
    simp only [labelMatchersToString] at h
    exact absurd h (matcherString_ne_nil quote m)
  | m :: m' :: ms, [], h => by
    rw [lms_cons_cons] at h
    simp only [labelMatchersToString] at h
    have := matcherString_ne_nil quote m
    cases hm : matcherString quote m with
    | nil => exact absurd hm this
    | cons a as => rw [hm] at h; simp at h
  | [m1], [m2], h => by
    simp only [labelMatchersToString] at h
    have := matcherString_prefix hq m1 m2 [] [] (by simpa using h)
    rw [this.1]
  | [m1], m2 :: m2' :: ms, h => by
    rw [lms_cons_cons] at h
    simp only [labelMatchersToString] at h
    have := matcherString_prefix hq m1 m2 [] _ (by simpa using h)
    simp at this
  | m1 :: m1' :: ms, [m2], h => by
    rw [lms_cons_cons] at h
    simp only [labelMatchersToString] at h
    have := matcherString_prefix hq m1 m2 _ [] (by simpa using h)
    simp at this
  | m1 :: m1' :: ms1, m2 :: m2' :: ms2, h => by
    rw [lms_cons_cons, lms_cons_cons] at h
    have := matcherString_prefix hq m1 m2 _ _ h
    obtain ⟨hm, hr⟩ := this
    simp only [List.cons.injEq, true_and] at hr
    rw [hm, labelMatchersToString_inj hq (m1' :: ms1) (m2' :: ms2) hr]

theorem compSuffix_inj {c1 c2 : Str} (h : compSuffix c1 = compSuffix c2) : c1 = c2 := by
  unfold compSuffix at h
  by_cases h1 : c1 = [] <;> by_cases h2 : c2 = [] <;> simp_all

theorem compSuffix_head (c : Str) : ∀ x, (compSuffix c).head? = some x → ¬ (x ≠ cColon) := by
  intro x hx
  unfold compSuffix at hx
  by_cases h : c = [] <;> simp_all

end Thanos.CacheKeys
