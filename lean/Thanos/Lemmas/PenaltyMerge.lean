import Thanos.Model.Iter
/-
  The penalty merge as a pure function on sample lists (`pm2`), and its properties.  The
  transliterated iterator `nodeOps` is shown to compute it in `Lemmas/ListLike.lean`.
-/
namespace Thanos.Dedup

/-- timestamps strictly increase -/
def SSorted (l : List Sample) : Prop := l.Pairwise (fun x y => x.t < y.t)

/-- what `Seek(t)` does to the remaining samples of a list-like iterator -/
def dropLt (t : Int) (l : List Sample) : List Sample := l.dropWhile (fun s => decide (s.t < t))

/-- the penalty for the side that was not picked -/
def pen (lastT t : Int) : Int := if lastT ≠ minT then 2 * (t - lastT) else initialPenalty

theorem dropLt_length_le (t : Int) (l : List Sample) : (dropLt t l).length ≤ l.length :=
  (List.dropWhile_sublist _).length_le

/-- The penalty merge of two iterators whose remaining samples are `la`, `lb`, both already sought
    to their next target (`lastT + 1 + pen`): emit the smaller head (`a` on ties), seek the side
    that was picked to `t + 1` and the other one to `t + 1 + penalty`. -/
def pm2 (lastT : Int) (la lb : List Sample) : List Sample :=
  match la, lb with
  | [], [] => []
  | x :: ta, [] => x :: pm2 x.t (dropLt (x.t + 1) ta) []
  | [], y :: tb => y :: pm2 y.t [] (dropLt (y.t + 1) tb)
  | x :: ta, y :: tb =>
    if x.t ≤ y.t then x :: pm2 x.t (dropLt (x.t + 1) ta) (dropLt (x.t + 1 + pen lastT x.t) (y :: tb))
    else y :: pm2 y.t (dropLt (y.t + 1 + pen lastT y.t) (x :: ta)) (dropLt (y.t + 1) tb)
termination_by la.length + lb.length
decreasing_by
  all_goals simp only [List.length_cons, List.length_nil]
  · have := dropLt_length_le (x.t + 1) ta; omega
  · have := dropLt_length_le (y.t + 1) tb; omega
  · have h1 := dropLt_length_le (x.t + 1) ta
    have h2 : (dropLt (x.t + 1 + pen lastT x.t) (y :: tb)).length ≤ tb.length + 1 := dropLt_length_le _ _
    omega
  · have h1 : (dropLt (y.t + 1 + pen lastT y.t) (x :: ta)).length ≤ ta.length + 1 := dropLt_length_le _ _
    have h2 := dropLt_length_le (y.t + 1) tb
    omega

/-! ### dropLt -/

theorem dropLt_sublist (t : Int) (l : List Sample) : (dropLt t l).Sublist l := List.dropWhile_sublist _

theorem dropLt_suffix (t : Int) (l : List Sample) : dropLt t l <:+ l := List.dropWhile_suffix _

theorem mem_of_mem_dropLt {t : Int} {l : List Sample} {x : Sample} (h : x ∈ dropLt t l) : x ∈ l :=
  (dropLt_sublist t l).subset h

@[simp] theorem dropLt_nil (t : Int) : dropLt t [] = [] := rfl

theorem dropLt_cons_lt {t : Int} {x : Sample} {l : List Sample} (h : x.t < t) :
    dropLt t (x :: l) = dropLt t l := by
  simp [dropLt, h]

theorem dropLt_cons_ge {t : Int} {x : Sample} {l : List Sample} (h : t ≤ x.t) :
    dropLt t (x :: l) = x :: l := by
  have : ¬ x.t < t := by omega
  simp [dropLt, this]

/-- after `Seek(t)` the current sample is at or after `t` -/
theorem head_dropLt_ge {t : Int} {l : List Sample} {x : Sample} (h : (dropLt t l).head? = some x) :
    t ≤ x.t := by
  induction l with
  | nil => simp at h
  | cons a l ih =>
    by_cases ha : a.t < t
    · rw [dropLt_cons_lt ha] at h; exact ih h
    · have hge : t ≤ a.t := by omega
      rw [dropLt_cons_ge hge] at h
      simp at h; subst h; exact hge

theorem ssorted_tail {l : List Sample} (h : SSorted l) : SSorted l.tail := by
  cases l with
  | nil => exact h
  | cons a l => exact (List.pairwise_cons.mp h).2

theorem ssorted_dropLt (t : Int) {l : List Sample} (h : SSorted l) : SSorted (dropLt t l) :=
  List.Pairwise.sublist (dropLt_sublist t l) h

/-- on a time-sorted list whose elements are all at or after `t`, `Seek(t)` does nothing -/
theorem dropLt_eq_self {t : Int} {l : List Sample} (h : ∀ x, l.head? = some x → t ≤ x.t) :
    dropLt t l = l := by
  cases l with
  | nil => rfl
  | cons a l => exact dropLt_cons_ge (h a rfl)

theorem ssorted_head_lt {x : Sample} {l : List Sample} (h : SSorted (x :: l)) :
    ∀ y, l.head? = some y → x.t + 1 ≤ y.t := by
  intro y hy
  have := (List.pairwise_cons.mp h).1 y (List.mem_of_mem_head? hy)
  omega

/-- on a time-sorted list, "the samples from `t` on" is what `Seek(t)` leaves -/
theorem filter_ge_eq_dropLt (t : Int) {l : List Sample} (h : SSorted l) :
    l.filter (fun x => decide (t ≤ x.t)) = dropLt t l := by
  induction l with
  | nil => rfl
  | cons a l ih =>
    have hl := (List.pairwise_cons.mp h).2
    by_cases ha : a.t < t
    · rw [dropLt_cons_lt ha, ← ih hl]
      have : ¬ t ≤ a.t := by omega
      simp [this]
    · have hge : t ≤ a.t := by omega
      rw [dropLt_cons_ge hge]
      simp only [List.filter_cons, hge, decide_true, if_true]
      congr 1
      apply List.filter_eq_self.mpr
      intro y hy
      have := (List.pairwise_cons.mp h).1 y hy
      simp; omega

/-! ### pm2 -/

theorem pen_nonneg {lastT t : Int} (h : lastT ≤ t) : 0 ≤ pen lastT t := by
  unfold pen initialPenalty
  split <;> omega

theorem pm2_mem {lastT : Int} {la lb : List Sample} {z : Sample} :
    z ∈ pm2 lastT la lb → z ∈ la ∨ z ∈ lb := by
  fun_induction pm2 lastT la lb with
  | case1 => simp
  | case2 lastT x ta ih =>
    intro h
    rcases List.mem_cons.mp h with rfl | h
    · simp
    · rcases ih h with h | h
      · exact Or.inl (List.mem_cons_of_mem _ (mem_of_mem_dropLt h))
      · simp at h
  | case3 lastT y tb ih =>
    intro h
    rcases List.mem_cons.mp h with rfl | h
    · simp
    · rcases ih h with h | h
      · simp at h
      · exact Or.inr (List.mem_cons_of_mem _ (mem_of_mem_dropLt h))
  | case4 lastT x ta y tb hle ih =>
    intro h
    rcases List.mem_cons.mp h with rfl | h
    · simp
    · rcases ih h with h | h
      · exact Or.inl (List.mem_cons_of_mem _ (mem_of_mem_dropLt h))
      · exact Or.inr (mem_of_mem_dropLt h)
  | case5 lastT x ta y tb hle ih =>
    intro h
    rcases List.mem_cons.mp h with rfl | h
    · simp
    · rcases ih h with h | h
      · exact Or.inl (mem_of_mem_dropLt h)
      · exact Or.inr (List.mem_cons_of_mem _ (mem_of_mem_dropLt h))

theorem pm2_length_le (lastT : Int) (la lb : List Sample) :
    (pm2 lastT la lb).length ≤ la.length + lb.length := by
  fun_induction pm2 lastT la lb with
  | case1 => simp
  | case2 lastT x ta ih =>
    have := dropLt_length_le (x.t + 1) ta
    simp only [List.length_cons, List.length_nil] at ih ⊢; omega
  | case3 lastT y tb ih =>
    have := dropLt_length_le (y.t + 1) tb
    simp only [List.length_cons, List.length_nil] at ih ⊢; omega
  | case4 lastT x ta y tb hle ih =>
    have h1 := dropLt_length_le (x.t + 1) ta
    have h2 : (dropLt (x.t + 1 + pen lastT x.t) (y :: tb)).length ≤ tb.length + 1 := dropLt_length_le _ _
    simp only [List.length_cons] at ih ⊢; omega
  | case5 lastT x ta y tb hle ih =>
    have h1 : (dropLt (y.t + 1 + pen lastT y.t) (x :: ta)).length ≤ ta.length + 1 := dropLt_length_le _ _
    have h2 := dropLt_length_le (y.t + 1) tb
    simp only [List.length_cons] at ih ⊢; omega

/-- **Output order.**  If both current samples lie after the last emitted timestamp, the merge
    is strictly increasing and stays after it — whatever the inputs look like further on. -/
theorem pm2_sorted {lastT : Int} {la lb : List Sample}
    (ha : ∀ x, la.head? = some x → lastT < x.t) (hb : ∀ x, lb.head? = some x → lastT < x.t) :
    SSorted (pm2 lastT la lb) ∧ ∀ z ∈ pm2 lastT la lb, lastT < z.t := by
  fun_induction pm2 lastT la lb with
  | case1 => simp [SSorted]
  | case2 lastT x ta ih =>
    have hx := ha x rfl
    obtain ⟨ih1, ih2⟩ := ih (fun z hz => by have := head_dropLt_ge hz; omega) (by simp)
    refine ⟨List.pairwise_cons.mpr ⟨ih2, ih1⟩, ?_⟩
    intro z hz
    rcases List.mem_cons.mp hz with rfl | hz
    · exact hx
    · have := ih2 z hz; omega
  | case3 lastT y tb ih =>
    have hy := hb y rfl
    obtain ⟨ih1, ih2⟩ := ih (by simp) (fun z hz => by have := head_dropLt_ge hz; omega)
    refine ⟨List.pairwise_cons.mpr ⟨ih2, ih1⟩, ?_⟩
    intro z hz
    rcases List.mem_cons.mp hz with rfl | hz
    · exact hy
    · have := ih2 z hz; omega
  | case4 lastT x ta y tb hle ih =>
    have hx := ha x rfl
    have hp := pen_nonneg (lastT := lastT) (t := x.t) (by omega)
    obtain ⟨ih1, ih2⟩ := ih (fun z hz => by have := head_dropLt_ge hz; omega)
      (fun z hz => by have := head_dropLt_ge hz; omega)
    refine ⟨List.pairwise_cons.mpr ⟨ih2, ih1⟩, ?_⟩
    intro z hz
    rcases List.mem_cons.mp hz with rfl | hz
    · exact hx
    · have := ih2 z hz; omega
  | case5 lastT x ta y tb hle ih =>
    have hy := hb y rfl
    have hp := pen_nonneg (lastT := lastT) (t := y.t) (by omega)
    obtain ⟨ih1, ih2⟩ := ih (fun z hz => by have := head_dropLt_ge hz; omega)
      (fun z hz => by have := head_dropLt_ge hz; omega)
    refine ⟨List.pairwise_cons.mpr ⟨ih2, ih1⟩, ?_⟩
    intro z hz
    rcases List.mem_cons.mp hz with rfl | hz
    · exact hy
    · have := ih2 z hz; omega

/-- one side exhausted: the other (time-sorted) side comes out unchanged -/
theorem pm2_nil_right (lastT : Int) {la : List Sample} (h : SSorted la) : pm2 lastT la [] = la := by
  induction la generalizing lastT with
  | nil => simp [pm2]
  | cons x ta ih =>
    rw [pm2]
    rw [dropLt_eq_self (ssorted_head_lt h)]
    rw [ih _ (List.pairwise_cons.mp h).2]

theorem pm2_nil_left (lastT : Int) {lb : List Sample} (h : SSorted lb) : pm2 lastT [] lb = lb := by
  induction lb generalizing lastT with
  | nil => simp [pm2]
  | cons y tb ih =>
    rw [pm2]
    rw [dropLt_eq_self (ssorted_head_lt h)]
    rw [ih _ (List.pairwise_cons.mp h).2]

/-- **Identical replicas.**  If side `b` is a suffix of the time-sorted side `a` (in particular
    `b = a`), side `a` always has the smaller or equal head, so the merge is `a`. -/
theorem pm2_suffix {lastT : Int} {la lb : List Sample} (hs : SSorted la) (hsuf : lb <:+ la)
    (hl : ∀ x, la.head? = some x → lastT ≤ x.t) : pm2 lastT la lb = la := by
  induction la generalizing lastT lb with
  | nil =>
    have : lb = [] := List.suffix_nil.mp hsuf
    subst this; simp [pm2]
  | cons x ta ih =>
    have hta := (List.pairwise_cons.mp hs).2
    cases lb with
    | nil => exact pm2_nil_right _ hs
    | cons y tb =>
      have hy : y ∈ x :: ta := hsuf.subset (List.mem_cons_self ..)
      have hxy : x.t ≤ y.t := by
        rcases List.mem_cons.mp hy with rfl | hy
        · exact Int.le_refl _
        · have := (List.pairwise_cons.mp hs).1 y hy; omega
      rw [pm2]
      simp only [hxy, if_true]
      rw [dropLt_eq_self (ssorted_head_lt hs)]
      congr 1
      apply ih hta
      · -- the sought side b is still a suffix of a's tail
        have hp := pen_nonneg (lastT := lastT) (t := x.t) (hl x rfl)
        rcases List.suffix_cons_iff.mp hsuf with heq | hsuf'
        · rw [heq, dropLt_cons_lt (by omega)]
          exact dropLt_suffix _ _
        · exact (dropLt_suffix _ _).trans hsuf'
      · intro z hz
        have := ssorted_head_lt hs z hz; omega

end Thanos.Dedup
