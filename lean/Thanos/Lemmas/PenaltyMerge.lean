import Thanos.Model.Iter
/-
  The penalty merge as a pure function on sample lists (`pm2`), and its properties.  The
  transliterated iterator `nodeOps` is shown to compute it in `Lemmas/ListLike.lean`.
-/
namespace Thanos.Dedup

/-- timestamps strictly increase -/
def SSorted (l : List Sample) : Prop := l.Pairwise (fun x y => x.t < y.t)

/-- what `Seek(t)` does to the remaining samples of a list-like iterator -/
def dropLt (t : Int) (l : List Sample) : List Sample := l.dropWhile (fun s => decide (s.t < t))

/-- the penalty for the side that was not picked -/
def pen (lastT t : Int) : Int := if lastT ≠ minT then 2 * (t - lastT) else initialPenalty

theorem dropLt_length_le (t : Int) (l : List Sample) : (dropLt t l).length ≤ l.length :=
  (List.dropWhile_sublist _).length_le

/-- The penalty merge of two iterators whose remaining samples are `la`, `lb`, both already sought
    to their next target (`lastT + 1 + pen`): emit the smaller head (`a` on ties), seek the side
    that was picked to `t + 1` and the other one to `t + 1 + penalty`. -/
def pm2 (lastT : Int) (la lb : List Sample) : List Sample :=
  match la, lb with
  | [], [] => []
  | x :: ta, [] => x :: pm2 x.t (dropLt (x.t + 1) ta) []
  | [], y :: tb => y :: pm2 y.t [] (dropLt (y.t + 1) tb)
  | x :: ta, y :: tb =>
    if x.t ≤ y.t then x :: pm2 x.t (dropLt (x.t + 1) ta) (dropLt (x.t + 1 + pen lastT x.t) (y :: tb))
    else y :: pm2 y.t (dropLt (y.t + 1 + pen lastT y.t) (x :: ta)) (dropLt (y.t + 1) tb)
termination_by la.length + lb.length
decreasing_by
  all_goals simp only [List.length_cons, List.length_nil]
  · have := dropLt_length_le (x.t + 1) ta; omega
  · have := dropLt_length_le (y.t + 1) tb; omega
  · have h1 := dropLt_length_le (x.t + 1) ta
    have h2 : (dropLt (x.t + 1 + pen lastT x.t) (y :: tb)).length ≤ tb.length + 1 := dropLt_length_le _ _
    omega
  · have h1 : (dropLt (y.t + 1 + pen lastT y.t) (x :: ta)).length ≤ ta.length + 1 := dropLt_length_le _ _
    have h2 := dropLt_length_le (y.t + 1) tb
    omega

/-! ### dropLt -/

theorem dropLt_sublist (t : Int) (l : List Sample) : (dropLt t l).Sublist l := List.dropWhile_sublist _

theorem dropLt_suffix (t : Int) (l : List Sample) : dropLt t l <:+ l := List.dropWhile_suffix _

theorem mem_of_mem_dropLt {t : Int} {l : List Sample} {x : Sample} (h : x ∈ dropLt t l) : x ∈ l :=
  (dropLt_sublist t l).subset h

@[simp] theorem dropLt_nil (t : Int) : dropLt t [] = [] := rfl

theorem dropLt_cons_lt {t : Int} {x : Sample} {l : List Sample} (h : x.t < t) :
    dropLt t (x :: l) = dropLt t l := by
  simp [dropLt, h]

theorem dropLt_cons_ge {t : Int} {x : Sample} {l : List Sample} (h : t ≤ x.t) :
    dropLt t (x :: l) = x :: l := by
  have : ¬ x.t < t := by omega
  simp [dropLt, this]

/-- after `Seek(t)` the current sample is at or after `t` -/
theorem head_dropLt_ge {t : Int} {l : List Sample} {x : Sample} (h : (dropLt t l).head? = some x) :
    t ≤ x.t := by
  induction l with
  | nil => simp at h
  | cons a l ih =>
    by_cases ha : a.t < t
    · rw [dropLt_cons_lt ha] at h; exact ih h
    · have hge : t ≤ a.t := by omega
      rw [dropLt_cons_ge hge] at h
      simp at h; subst h; exact hge

theorem ssorted_tail {l : List Sample} (h : SSorted l) : SSorted l.tail := by
  cases l with
  | nil => exact h
  | cons a l => exact (List.pairwise_cons.mp h).2

theorem ssorted_dropLt (t : Int) {l : List Sample} (h : SSorted l) : SSorted (dropLt t l) :=
  List.Pairwise.sublist (dropLt_sublist t l) h

/-- on a time-sorted list whose elements are all at or after `t`, `Seek(t)` does nothing -/
theorem dropLt_eq_self {t : Int} {l : List Sample} (h : ∀ x, l.head? = some x → t ≤ x.t) :
    dropLt t l = l := by
  cases l with
  | nil => rfl
  | cons a l => exact dropLt_cons_ge (h a rfl)

theorem ssorted_head_lt {x : Sample} {l : List Sample} (h : SSorted (x :: l)) :
    ∀ y, l.head? = some y → x.t + 1 ≤ y.t := by
  intro y hy
  have := (List.pairwise_cons.mp h).1 y (List.mem_of_mem_head? hy)
  omega

/-- on a time-sorted list, "the samples from `t` on" is what `Seek(t)` leaves -/
theorem filter_ge_eq_dropLt (t : Int) {l : List Sample} (h : SSorted l) :
    l.filter (fun x => decide (t ≤ x.t)) = dropLt t l := by
  induction l with
  | nil => rfl
  | cons a l ih =>
    have hl := (List.pairwise_cons.mp h).2
    by_cases ha : a.t < t
    · rw [dropLt_cons_lt ha, ← ih hl]
      have : ¬ t ≤ a.t := by omega
      simp [this]
    · have hge : t ≤ a.t := by omega
      rw [dropLt_cons_ge hge]
      simp only [List.filter_cons, hge, decide_true, if_true]
      congr 1
      apply List.filter_eq_self.mpr
      intro y hy
      have := (List.pairwise_cons.mp h).1 y hy
      simp; omega

/-! ### pm2 -/

theorem pen_nonneg {lastT t : Int} (h : lastT ≤ t) : 0 ≤ pen lastT t := by
  unfold pen initialPenalty
  split <;> omega

theorem pm2_mem {lastT : Int} {la lb : List Sample} {z : Sample} :
    z ∈ pm2 lastT la lb → z ∈ la ∨ z ∈ lb := by
  fun_induction pm2 lastT la lb with
  | case1 => simp
  | case2 lastT x ta ih =>
    intro h
    rcases List.mem_cons.mp h with rfl | h
    · simp
    · rcases ih h with h | h
      · exact Or.inl (List.mem_cons_of_mem _ (mem_of_mem_dropLt h))
      · simp at h
  | case3 lastT y tb ih =>
    intro h
    rcases List.mem_cons.mp h with rfl | h
    · simp
    · rcases ih h with h | h
      · simp at h
      · exact Or.inr (List.mem_cons_of_mem _ (mem_of_mem_dropLt h))
  | case4 lastT x ta y tb hle ih =>
    intro h
    rcases List.mem_cons.mp h with rfl | h
    · simp
    · rcases ih h with h | h
      · exact Or.inl (List.mem_cons_of_mem _ (mem_of_mem_dropLt h))
      · exact Or.inr (mem_of_mem_dropLt h)
  | case5 lastT x ta y tb hle ih =>
    intro h
    rcases List.mem_cons.mp h with rfl | h
    · simp
    · rcases ih h with h | h
      · exact Or.inl (mem_of_mem_dropLt h)
      · exact Or.inr (List.mem_cons_of_mem _ (mem_of_mem_dropLt h))

theorem pm2_length_le (lastT : Int) (la lb : List Sample) :
    (pm2 lastT la lb).length ≤ la.length + lb.length := by
  fun_induction pm2 lastT la lb with
  | case1 => simp
  | case2 lastT x ta ih =>
    have := dropLt_length_le (x.t + 1) ta
    simp only [List.length_cons, List.length_nil] at ih ⊢; omega
  | case3 lastT y tb ih =>
    have := dropLt_length_le (y.t + 1) tb
    simp only [List.length_cons, List.length_nil] at ih ⊢; omega
  | case4 lastT x ta y tb hle ih =>
    have h1 := dropLt_length_le (x.t + 1) ta
    have h2 : (dropLt (x.t + 1 + pen lastT x.t) (y :: tb)).length ≤ tb.length + 1 := dropLt_length_le _ _
    simp only [List.length_cons] at ih ⊢; omega
  | case5 lastT x ta y tb hle ih =>
    have h1 : (dropLt (y.t + 1 + pen lastT y.t) (x :: ta)).length ≤ ta.length + 1 := dropLt_length_le _ _
    have h2 := dropLt_length_le (y.t + 1) tb
    simp only [List.length_cons] at ih ⊢; omega

/-- **Output order.**  If both current samples lie after the last emitted timestamp, the merge
    is strictly increasing and stays after it — whatever the inputs look like further on. -/
theorem pm2_sorted {lastT : Int} {la lb : List Sample}
    (ha : ∀ x, la.head? = some x → lastT < x.t) (hb : ∀ x, lb.head? = some x → lastT < x.t) :
    SSorted (pm2 lastT la lb) ∧ ∀ z ∈ pm2 lastT la lb, lastT < z.t := by
  fun_induction pm2 lastT la lb with
  | case1 => simp [SSorted]
  | case2 lastT x ta ih =>
    have hx := ha x rfl
    obtain ⟨ih1, ih2⟩ := ih (fun z hz => by have := head_dropLt_ge hz; omega) (by simp)
    refine ⟨List.pairwise_cons.mpr ⟨ih2, ih1⟩, ?_⟩
    intro z hz
    rcases List.mem_cons.mp hz with rfl | hz
    · exact hx
    · have := ih2 z hz; omega
  | case3 lastT y tb ih =>
    have hy := hb y rfl
    obtain ⟨ih1, ih2⟩ := ih (by simp) (fun z hz => by have := head_dropLt_ge hz; omega)
    refine ⟨List.pairwise_cons.mpr ⟨ih2, ih1⟩, ?_⟩
    intro z hz
    rcases List.mem_cons.mp hz with rfl | hz
    · exact hy
    · have := ih2 z hz; omega
  | case4 lastT x ta y tb hle ih =>
    have hx := ha x rfl
    have hp := pen_nonneg (lastT := lastT) (t := x.t) (by omega)
    obtain ⟨ih1, ih2⟩ := ih (fun z hz => by have := head_dropLt_ge hz; omega)
      (fun z hz => by have := head_dropLt_ge hz; omega)
    refine ⟨List.pairwise_cons.mpr ⟨ih2, ih1⟩, ?_⟩
    intro z hz
    rcases List.mem_cons.mp hz with rfl | hz
    · exact hx
    · have := ih2 z hz; omega
  | case5 lastT x ta y tb hle ih =>
    have hy := hb y rfl
    have hp := pen_nonneg (lastT := lastT) (t := y.t) (by omega)
    obtain ⟨ih1, ih2⟩ := ih (fun z hz => by have := head_dropLt_ge hz; omega)
      (fun z hz => by have := head_dropLt_ge hz; omega)
    refine ⟨List.pairwise_cons.mpr ⟨ih2, ih1⟩, ?_⟩
    intro z hz
    rcases List.mem_cons.mp hz with rfl | hz
    · exact hy
    · have := ih2 z hz; omega

/-- one side exhausted: the other (time-sorted) side comes out unchanged -/
theorem pm2_nil_right (lastT : Int) {la : List Sample} (h : SSorted la) : pm2 lastT la [] = la := by
  induction la generalizing lastT with
  | nil => simp [pm2]
  | cons x ta ih =>
    rw [pm2]
    rw [dropLt_eq_self (ssorted_head_lt h)]
    rw [ih _ (List.pairwise_cons.mp h).2]

theorem pm2_nil_left (lastT : Int) {lb : List Sample} (h : SSorted lb) : pm2 lastT [] lb = lb := by
  induction lb generalizing lastT with
  | nil => simp [pm2]
  | cons y tb ih =>
    rw [pm2]
    rw [dropLt_eq_self (ssorted_head_lt h)]
    rw [ih _ (List.pairwise_cons.mp h).2]

/-- **Identical replicas.**  If side `b` is a suffix of the time-sorted side `a` (in particular
    `b = a`), side `a` always has the smaller or equal head, so the merge is `a`. -/
theorem pm2_suffix {lastT : Int} {la lb : List Sample} (hs : SSorted la) (hsuf : lb <:+ la)
    (hl : ∀ x, la.head? = some x → lastT ≤ x.t) : pm2 lastT la lb = la := by
  induction la generalizing lastT lb with
  | nil =>
    have : lb = [] := List.suffix_nil.mp hsuf
    subst this; simp [pm2]
  | cons x ta ih =>
    have hta := (List.pairwise_cons.mp hs).2
    cases lb with
    | nil => exact pm2_nil_right _ hs
    | cons y tb =>
      have hy : y ∈ x :: ta := hsuf.subset (List.mem_cons_self ..)
      have hxy : x.t ≤ y.t := by
        rcases List.mem_cons.mp hy with rfl | hy
        · exact Int.le_refl _
        · have := (List.pairwise_cons.mp hs).1 y hy; omega
      rw [pm2]
      simp only [hxy, if_true]
      rw [dropLt_eq_self (ssorted_head_lt hs)]
      congr 1
      apply ih hta
      · -- the sought side b is still a suffix of a's tail
        have hp := pen_nonneg (lastT := lastT) (t := x.t) (hl x rfl)
        rcases List.suffix_cons_iff.mp hsuf with heq | hsuf'
        · rw [heq, dropLt_cons_lt (by omega)]
          exact dropLt_suffix _ _
        · exact (dropLt_suffix _ _).trans hsuf'
      · intro z hz
        have := ssorted_head_lt hs z hz; omega

/-- **Side `b` holds a subset of side `a`'s samples** (a replica with holes, a shorter replica, a
    virtual replica cut out of the same sequence): side `a` always has the smaller or equal head,
    so the merge is `a`.  Generalises `pm2_suffix`. -/
theorem pm2_sublist {lastT : Int} {la lb : List Sample} (hs : SSorted la) (hsub : lb.Sublist la)
    (hl : ∀ x, la.head? = some x → lastT ≤ x.t) : pm2 lastT la lb = la := by
  induction la generalizing lastT lb with
  | nil =>
    have : lb = [] := List.sublist_nil.mp hsub
    subst this; simp [pm2]
  | cons x ta ih =>
    have hta := (List.pairwise_cons.mp hs).2
    cases lb with
    | nil => exact pm2_nil_right _ hs
    | cons y tb =>
      have hy : y ∈ x :: ta := hsub.subset (List.mem_cons_self ..)
      have hxy : x.t ≤ y.t := by
        rcases List.mem_cons.mp hy with rfl | hy
        · exact Int.le_refl _
        · have := (List.pairwise_cons.mp hs).1 y hy; omega
      rw [pm2]
      simp only [hxy, if_true]
      rw [dropLt_eq_self (ssorted_head_lt hs)]
      congr 1
      apply ih hta
      · -- what is left of b after the seek lies in a's tail
        have hp := pen_nonneg (lastT := lastT) (t := x.t) (hl x rfl)
        have hd := dropLt_sublist (x.t + 1 + pen lastT x.t) (y :: tb)
        -- every element left is > x.t, hence not x, hence in ta
        have hsub2 : (dropLt (x.t + 1 + pen lastT x.t) (y :: tb)).Sublist (x :: ta) := hd.trans hsub
        rcases List.sublist_cons_iff.mp hsub2 with h | ⟨r, hr, _⟩
        · exact h
        · -- it would start with x, but its head is ≥ x.t + 1
          have := head_dropLt_ge (t := x.t + 1 + pen lastT x.t) (l := y :: tb) (x := x) (by rw [hr]; rfl)
          omega
      · intro z hz
        have := ssorted_head_lt hs z hz; omega

/-! ### the timestamps of the merge depend only on what `Seek` can observe of the inputs -/

theorem dropLt_dropLt (j k : Int) (l : List Sample) :
    dropLt k (dropLt j l) = dropLt (if j ≤ k then k else j) l := by
  induction l with
  | nil => simp
  | cons a l ih =>
    by_cases hj : a.t < j
    · rw [dropLt_cons_lt hj, ih]
      have : a.t < (if j ≤ k then k else j) := by split <;> omega
      rw [dropLt_cons_lt this]
    · have hj' : j ≤ a.t := by omega
      rw [dropLt_cons_ge hj']
      by_cases hk : a.t < k
      · have : a.t < (if j ≤ k then k else j) := by split <;> omega
        rw [dropLt_cons_lt hk, dropLt_cons_lt this]
        -- below the head nothing was dropped by `j`, so dropping by `k ≥ j` is the same
        have hjk : j ≤ k := by omega
        simp only [hjk, if_true]
      · have hk' : k ≤ a.t := by omega
        have : (if j ≤ k then k else j) ≤ a.t := by split <;> omega
        rw [dropLt_cons_ge hk', dropLt_cons_ge this]

/-- the timestamp a reader finds after `Seek(k)` -/
def seekT (k : Int) (l : List Sample) : Option Int := (dropLt k l).head?.map (·.t)

/-- two sample lists that no sequence of `Seek` calls can tell apart by timestamps -/
def ObsEq (la ca : List Sample) : Prop := ∀ k, seekT k la = seekT k ca

theorem ObsEq.refl (l : List Sample) : ObsEq l l := fun _ => rfl
theorem ObsEq.symm {a b : List Sample} (h : ObsEq a b) : ObsEq b a := fun k => (h k).symm
theorem ObsEq.trans {a b c : List Sample} (h1 : ObsEq a b) (h2 : ObsEq b c) : ObsEq a c :=
  fun k => (h1 k).trans (h2 k)

theorem ObsEq.dropLt {la ca : List Sample} (h : ObsEq la ca) (j : Int) :
    ObsEq (dropLt j la) (dropLt j ca) := by
  intro k
  unfold seekT
  rw [dropLt_dropLt, dropLt_dropLt]
  exact h _

theorem ObsEq.nil_right {ca : List Sample} (h : ObsEq [] ca) : ca = [] := by
  cases ca with
  | nil => rfl
  | cons y ca =>
    have := h y.t
    simp [seekT, dropLt_cons_ge (Int.le_refl y.t)] at this

theorem ObsEq.cons_left {x : Sample} {ta ca : List Sample} (h : ObsEq (x :: ta) ca) :
    ∃ y ca', ca = y :: ca' ∧ y.t = x.t := by
  cases ca with
  | nil => exact absurd (ObsEq.nil_right h.symm) (by simp)
  | cons y ca' =>
    refine ⟨y, ca', rfl, ?_⟩
    have := h (if x.t ≤ y.t then x.t else y.t)
    have h1 : (if x.t ≤ y.t then x.t else y.t) ≤ x.t := by split <;> omega
    have h2 : (if x.t ≤ y.t then x.t else y.t) ≤ y.t := by split <;> omega
    simp only [seekT, dropLt_cons_ge h1, dropLt_cons_ge h2, List.head?_cons, Option.map_some,
      Option.some.injEq] at this
    exact this.symm

def tsOf (l : List Sample) : List Int := l.map (·.t)

/-- lists with the same timestamps are observationally equal -/
theorem obsEq_of_tsOf {la ca : List Sample} (h : tsOf la = tsOf ca) : ObsEq la ca := by
  induction la generalizing ca with
  | nil =>
    cases ca with
    | nil => exact ObsEq.refl _
    | cons y ca => simp [tsOf] at h
  | cons x ta ih =>
    cases ca with
    | nil => simp [tsOf] at h
    | cons y ca' =>
      simp only [tsOf, List.map_cons, List.cons.injEq] at h
      intro k
      unfold seekT
      by_cases hk : x.t < k
      · rw [dropLt_cons_lt hk, dropLt_cons_lt (by omega)]
        exact ih h.2 k
      · rw [dropLt_cons_ge (by omega), dropLt_cons_ge (by omega)]
        simp [h.1]

/-- an extra sample at the end that does not lie after all the others is never found -/
theorem obsEq_append_dup {l : List Sample} {d : Sample} (h : ∃ y ∈ l, d.t ≤ y.t) :
    ObsEq l (l ++ [d]) := by
  intro k
  unfold seekT
  induction l with
  | nil => obtain ⟨y, hy, _⟩ := h; simp at hy
  | cons a l ih =>
    by_cases hk : a.t < k
    · rw [List.cons_append, dropLt_cons_lt hk, dropLt_cons_lt hk]
      by_cases hex : ∃ y ∈ l, d.t ≤ y.t
      · exact ih hex
      · -- the bound is `a` itself: everything after it, and `d`, is before `k`… only `d` matters
        obtain ⟨y, hy, hdy⟩ := h
        rcases List.mem_cons.mp hy with rfl | hy
        · -- d.t ≤ a.t < k
          have hl : ∀ z ∈ l, z.t < d.t := by
            intro z hz
            have : ¬ d.t ≤ z.t := fun hc => hex ⟨z, hz, hc⟩
            omega
          have hdrop : ∀ (m : List Sample), (∀ z ∈ m, z.t < k) → dropLt k m = [] := by
            intro m hm
            induction m with
            | nil => rfl
            | cons b m ihm =>
              rw [dropLt_cons_lt (hm b (by simp))]
              exact ihm (fun z hz => hm z (by simp [hz]))
          rw [hdrop l (fun z hz => by have := hl z hz; omega),
            hdrop (l ++ [d]) (by
              intro z hz
              rcases List.mem_append.mp hz with hz | hz
              · have := hl z hz; omega
              · simp at hz; subst hz; omega)]
        · exact absurd ⟨y, hy, hdy⟩ hex
    · rw [List.cons_append, dropLt_cons_ge (by omega), dropLt_cons_ge (by omega)]
      rfl

/-- **The merge's timestamps only depend on the observable timestamps of its inputs.** -/
theorem pm2_obsEq {lastT : Int} {la lb ca cb : List Sample} (ha : ObsEq la ca) (hb : ObsEq lb cb) :
    tsOf (pm2 lastT la lb) = tsOf (pm2 lastT ca cb) := by
  fun_induction pm2 lastT la lb generalizing ca cb with
  | case1 =>
    rw [ObsEq.nil_right ha, ObsEq.nil_right hb]
    simp [pm2]
  | case2 lastT x ta ih =>
    obtain ⟨y, ca', rfl, hy⟩ := ObsEq.cons_left ha
    rw [ObsEq.nil_right hb, pm2]
    simp only [tsOf, List.map_cons, hy]
    congr 1
    have h1 := ha.dropLt (x.t + 1)
    rw [dropLt_cons_lt (show x.t < x.t + 1 by omega), dropLt_cons_lt (show y.t < x.t + 1 by omega)] at h1
    have := ih (ca := dropLt (x.t + 1) ca') (cb := []) h1 (ObsEq.refl _)
    simp only [tsOf] at this
    exact this
  | case3 lastT y tb ih =>
    obtain ⟨z, cb', rfl, hz⟩ := ObsEq.cons_left hb
    rw [ObsEq.nil_right ha, pm2]
    simp only [tsOf, List.map_cons, hz]
    congr 1
    have h1 := hb.dropLt (y.t + 1)
    rw [dropLt_cons_lt (show y.t < y.t + 1 by omega), dropLt_cons_lt (show z.t < y.t + 1 by omega)] at h1
    have := ih (ca := []) (cb := dropLt (y.t + 1) cb') (ObsEq.refl _) h1
    simp only [tsOf] at this
    exact this
  | case4 lastT x ta y tb hle ih =>
    obtain ⟨x', ca', rfl, hx'⟩ := ObsEq.cons_left ha
    obtain ⟨y', cb', rfl, hy'⟩ := ObsEq.cons_left hb
    have hle' : x'.t ≤ y'.t := by omega
    rw [pm2, if_pos hle']
    simp only [tsOf, List.map_cons, hx']
    congr 1
    have h1 := ha.dropLt (x.t + 1)
    rw [dropLt_cons_lt (show x.t < x.t + 1 by omega), dropLt_cons_lt (show x'.t < x.t + 1 by omega)] at h1
    have h2 := hb.dropLt (x.t + 1 + pen lastT x.t)
    have := ih h1 h2
    simp only [tsOf] at this
    exact this
  | case5 lastT x ta y tb hle ih =>
    obtain ⟨x', ca', rfl, hx'⟩ := ObsEq.cons_left ha
    obtain ⟨y', cb', rfl, hy'⟩ := ObsEq.cons_left hb
    have hle' : ¬ x'.t ≤ y'.t := by omega
    rw [pm2, if_neg hle']
    simp only [tsOf, List.map_cons, hy']
    congr 1
    have h1 := ha.dropLt (y.t + 1 + pen lastT y.t)
    have h2 := hb.dropLt (y.t + 1)
    rw [dropLt_cons_lt (show y.t < y.t + 1 by omega), dropLt_cons_lt (show y'.t < y.t + 1 by omega)] at h2
    have := ih h1 h2
    simp only [tsOf] at this
    exact this

end Thanos.Dedup
