import Thanos.Model.PostingsCodec
import Thanos.Lemmas.Uvarint
/-
  Helper lemmas for C12: a cut-off varint is reported as "buffer too small"; the streamed
  decoder finds a varint wherever the chunk boundaries are; a generic simulation argument
  (decoded iterator ≈ list iterator) shared by the two codecs.
-/
namespace Thanos.PostingsCodec
open Thanos.Uvarint

/-! ### varints -/

/-- Reading a proper prefix of `uvarint x` (at least one byte missing) gives `n = 0`. -/
theorem unuvarintAux_cut (x : Nat) : ∀ (i acc : Nat) (buf more : List Nat), i ≤ 9 →
    x < 2 ^ (64 - 7 * i) → uvarint x = buf ++ more → more ≠ [] →
    unuvarintAux i acc buf = (0, 0) := by
  induction x using Nat.strongRecOn with
  | _ x ih =>
    intro i acc buf more hi hx hsplit hmore
    rw [uvarint_eq] at hsplit
    cases buf with
    | nil => simp [unuvarintAux]
    | cons b buf' =>
      split at hsplit
      · -- single byte: buf = [x], more = []
        simp only [List.cons_append, List.cons.injEq] at hsplit
        have := hsplit.2
        have h2 : buf' ++ more = [] := this.symm
        simp only [List.append_eq_nil_iff] at h2
        exact absurd h2.2 hmore
      · rename_i h128
        simp only [List.cons_append, List.cons.injEq] at hsplit
        obtain ⟨hb, hrest⟩ := hsplit
        have hi8 : i ≤ 8 := by
          by_cases h9 : i = 9
          · subst h9; simp at hx; omega
          · omega
        have h10 : i ≠ 10 := by omega
        have hbb : ¬ (b < 128) := by omega
        simp only [unuvarintAux, h10, if_false, hbb]
        have hpow : 2 ^ (64 - 7 * i) = 2 ^ (64 - 7 * (i + 1)) * 128 := by
          have : 64 - 7 * i = (64 - 7 * (i + 1)) + 7 := by omega
          rw [this, Nat.pow_add]
        have hdiv : x / 128 < 2 ^ (64 - 7 * (i + 1)) := by
          rw [hpow] at hx
          exact Nat.div_lt_of_lt_mul (by rw [Nat.mul_comm]; exact hx)
        exact ih (x / 128) (by omega) (i + 1) _ buf' more (by omega) hdiv hrest hmore

theorem unuvarint_cut (x : Nat) (hx : x < 2 ^ 64) (buf more : List Nat)
    (h : uvarint x = buf ++ more) (hmore : more ≠ []) : unuvarint buf = (0, 0) :=
  unuvarintAux_cut x 0 0 buf more (by omega) (by simpa using hx) h hmore

/-- `buf ++ rest` starts with `uvarint x`: either the whole varint is in `buf`, or `buf` is a
    proper prefix of it. -/
theorem varint_in_or_cut {x : Nat} {buf rest tail : List Nat} (h : buf ++ rest = uvarint x ++ tail) :
    (∃ c, buf = uvarint x ++ c ∧ tail = c ++ rest) ∨
    (∃ more, more ≠ [] ∧ uvarint x = buf ++ more ∧ rest = more ++ tail) := by
  rcases List.append_eq_append_iff.mp h with ⟨a', h1, h2⟩ | ⟨c', h1, h2⟩
  · -- uvarint x = buf ++ a', rest = a' ++ tail
    by_cases ha : a' = []
    · subst ha
      left
      exact ⟨[], by simpa using h1.symm, by simp [h2]⟩
    · right
      exact ⟨a', ha, h1, h2⟩
  · left
    exact ⟨c', h1, h2⟩

/-! ### the encoder -/

/-- sorted from `prev` on (equal neighbours allowed), every element below 2^64 -/
def Nondec (prev : Nat) : List Nat → Prop
  | [] => True
  | v :: vs => prev ≤ v ∧ v < M64 ∧ Nondec v vs

theorem encodeFrom_some_of_nondec : ∀ (l : List Nat) (prev : Nat), Nondec prev l →
    ∃ bs, encodeFrom prev l = some bs
  | [], _, _ => ⟨[], rfl⟩
  | v :: vs, prev, h => by
    obtain ⟨h1, _, h3⟩ := h
    obtain ⟨bs, hbs⟩ := encodeFrom_some_of_nondec vs v h3
    have : ¬ (v < prev) := by omega
    exact ⟨uvarint (v - prev) ++ bs, by simp [encodeFrom, this, hbs]⟩

theorem sorted_of_encodeFrom_some : ∀ (l : List Nat) (prev : Nat) (bs : List Nat),
    encodeFrom prev l = some bs → (∀ v ∈ l, v < M64) → Nondec prev l
  | [], _, _, _, _ => trivial
  | v :: vs, prev, bs, h, hb => by
    simp only [encodeFrom] at h
    split at h
    · simp at h
    · rename_i hlt
      cases hr : encodeFrom v vs with
      | none => simp [hr] at h
      | some bs' =>
        exact ⟨by omega, hb v (by simp), sorted_of_encodeFrom_some vs v bs' hr (fun w hw => hb w (by simp [hw]))⟩

theorem encodeFrom_cons {prev v : Nat} {vs bs : List Nat} (h : encodeFrom prev (v :: vs) = some bs) :
    prev ≤ v ∧ ∃ bs', encodeFrom v vs = some bs' ∧ bs = uvarint (v - prev) ++ bs' := by
  simp only [encodeFrom] at h
  split at h
  · simp at h
  · rename_i hlt
    cases hr : encodeFrom v vs with
    | none => simp [hr] at h
    | some bs' =>
      simp only [hr, Option.some.injEq] at h
      exact ⟨by omega, bs', rfl, h.symm⟩

/-- every element takes at least one byte -/
theorem length_le_encodeFrom : ∀ (l : List Nat) (prev : Nat) (bs : List Nat),
    encodeFrom prev l = some bs → l.length ≤ bs.length
  | [], _, _, _ => by simp
  | v :: vs, prev, bs, h => by
    obtain ⟨_, bs', h1, h2⟩ := encodeFrom_cons h
    have := length_le_encodeFrom vs v bs' h1
    have hp := uvarint_length_pos (v - prev)
    subst h2
    simp only [List.length_cons, List.length_append]
    omega

/-! ### the streamed decoder finds the next varint across chunk boundaries -/

theorem streamNext_spec (cur x : Nat) (hx : x < 2 ^ 64) : ∀ (chunks : List (List Nat)) (buf tail : List Nat),
    buf ++ chunks.flatten = uvarint x ++ tail →
    ∃ buf' chunks', streamNext cur buf chunks = some ⟨(cur + x) % M64, buf', chunks'⟩ ∧
      buf' ++ chunks'.flatten = tail
  | [], buf, tail, h => by
    rcases varint_in_or_cut h with ⟨c, h1, h2⟩ | ⟨more, hm, _, h2⟩
    · subst h1
      have hd := unuvarint_uvarint x c hx
      have hpos := uvarint_length_pos x
      refine ⟨c, [], ?_, by simpa using h2.symm⟩
      simp only [streamNext, hd]
      have : ¬ (((uvarint x).length : Int) < 1) := by omega
      simp [this]
    · simp only [List.flatten_nil] at h2
      have : more = [] := by
        have := congrArg List.length h2
        simp at this
        exact List.eq_nil_of_length_eq_zero (by omega)
      exact absurd this hm
  | c0 :: cs, buf, tail, h => by
    rcases varint_in_or_cut h with ⟨c, h1, h2⟩ | ⟨more, hm, h1, _⟩
    · subst h1
      have hd := unuvarint_uvarint x c hx
      have hpos := uvarint_length_pos x
      refine ⟨c, c0 :: cs, ?_, h2.symm⟩
      simp only [streamNext, hd]
      have : ¬ (((uvarint x).length : Int) < 1) := by omega
      simp [this]
    · have hcut := unuvarint_cut x hx buf more h1 hm
      have h' : (buf ++ c0) ++ cs.flatten = uvarint x ++ tail := by
        simpa [List.append_assoc] using h
      obtain ⟨buf', chunks', hn, ht⟩ := streamNext_spec cur x hx cs (buf ++ c0) tail h'
      refine ⟨buf', chunks', ?_, ht⟩
      simp only [streamNext, hcut]
      simpa using hn

theorem streamNext_nil (cur : Nat) : ∀ (chunks : List (List Nat)) (buf : List Nat),
    buf ++ chunks.flatten = [] → streamNext cur buf chunks = none
  | [], buf, h => by
    have : buf = [] := by simpa using h
    subst this
    simp [streamNext, unuvarint, unuvarintAux]
  | c :: cs, buf, h => by
    simp only [List.flatten_cons, List.append_eq_nil_iff] at h
    obtain ⟨hb, hc, hcs⟩ := h
    subst hb; subst hc
    simp only [streamNext, unuvarint, unuvarintAux, List.append_nil]
    have := streamNext_nil cur cs [] (by simpa using hcs)
    simpa [unuvarint, unuvarintAux] using this

/-! ### generic simulation: a decoded iterator against the list iterator -/

/-- what has to be shown of `next` for the rest (Seek loop, scripts, draining) to follow -/
structure Sim {σ : Type} (I : IterOps σ) (Inv : σ → Ref → Prop) : Prop where
  cur_eq : ∀ s r, Inv s r → I.cur s = r.cur
  next_nil : ∀ s c, Inv s ⟨c, []⟩ → (I.next s).1 = false ∧ Inv (I.next s).2 ⟨c, []⟩
  next_cons : ∀ s c v rest, Inv s ⟨c, v :: rest⟩ → (I.next s).1 = true ∧ Inv (I.next s).2 ⟨v, rest⟩
  size_ok : ∀ s r, Inv s r → r.rest.length ≤ I.size s

variable {σ : Type} {I : IterOps σ} {Inv : σ → Ref → Prop}

theorem next_sim (S : Sim I Inv) (s : σ) (r : Ref) (h : Inv s r) :
    (I.next s).1 = r.next.1 ∧ Inv (I.next s).2 r.next.2 := by
  obtain ⟨c, rest⟩ := r
  cases rest with
  | nil => simpa [Ref.next] using S.next_nil s c h
  | cons v rest => simpa [Ref.next] using S.next_cons s c v rest h

theorem scan_sim (S : Sim I Inv) (x : Nat) : ∀ (rest : List Nat) (s : σ) (c fuel : Nat),
    Inv s ⟨c, rest⟩ → rest.length + 1 ≤ fuel →
    (scanG I x fuel s).1 = (Ref.scan x c rest).1 ∧ Inv (scanG I x fuel s).2 (Ref.scan x c rest).2
  | [], s, c, fuel, h, hf => by
    obtain ⟨f, rfl⟩ : ∃ f, fuel = f + 1 := ⟨fuel - 1, by simp at hf; omega⟩
    obtain ⟨h1, h2⟩ := S.next_nil s c h
    simp only [scanG, Ref.scan]
    cases hn : I.next s with
    | mk b s' =>
      rw [hn] at h1 h2
      simp only at h1 h2
      subst h1
      exact ⟨rfl, h2⟩
  | v :: rest, s, c, fuel, h, hf => by
    obtain ⟨f, rfl⟩ : ∃ f, fuel = f + 1 := ⟨fuel - 1, by simp at hf; omega⟩
    obtain ⟨h1, h2⟩ := S.next_cons s c v rest h
    simp only [scanG, Ref.scan]
    cases hn : I.next s with
    | mk b s' =>
      rw [hn] at h1 h2
      simp only at h1 h2
      subst h1
      have hc := S.cur_eq s' _ h2
      simp only at hc
      simp only [hc]
      by_cases hv : v ≥ x
      · simp only [hv, if_true]
        exact ⟨by simp, h2⟩
      · simp only [hv, if_false]
        exact scan_sim S x rest s' v f h2 (by simp at hf; omega)

theorem seek_sim (S : Sim I Inv) (x : Nat) (s : σ) (r : Ref) (h : Inv s r) :
    (seekG I x s).1 = (r.seek x).1 ∧ Inv (seekG I x s).2 (r.seek x).2 := by
  have hc := S.cur_eq s r h
  simp only [seekG, Ref.seek, hc]
  by_cases hx : r.cur ≥ x
  · simp only [hx, if_true]
    exact ⟨by simp, h⟩
  · simp only [hx, if_false]
    obtain ⟨c, rest⟩ := r
    exact scan_sim S x rest s c _ h (by have := S.size_ok s _ h; simp at this; omega)

theorem run_sim (S : Sim I Inv) : ∀ (ops : List Op) (s : σ) (r : Ref), Inv s r →
    runG I ops s = Ref.run ops r
  | [], _, _, _ => rfl
  | .next :: ops, s, r, h => by
    obtain ⟨h1, h2⟩ := next_sim S s r h
    simp only [runG, Ref.run]
    rw [h1, S.cur_eq _ _ h2, run_sim S ops _ _ h2]
  | .seek x :: ops, s, r, h => by
    obtain ⟨h1, h2⟩ := seek_sim S x s r h
    simp only [runG, Ref.run]
    rw [h1, S.cur_eq _ _ h2, run_sim S ops _ _ h2]

theorem drain_sim (S : Sim I Inv) : ∀ (rest : List Nat) (s : σ) (c fuel : Nat),
    Inv s ⟨c, rest⟩ → rest.length + 1 ≤ fuel → (drainG I fuel s).1 = rest
  | [], s, c, fuel, h, hf => by
    obtain ⟨f, rfl⟩ : ∃ f, fuel = f + 1 := ⟨fuel - 1, by simp at hf; omega⟩
    obtain ⟨h1, _⟩ := S.next_nil s c h
    simp only [drainG]
    cases hn : I.next s with
    | mk b s' =>
      rw [hn] at h1
      simp only at h1
      subst h1
      rfl
  | v :: rest, s, c, fuel, h, hf => by
    obtain ⟨f, rfl⟩ : ∃ f, fuel = f + 1 := ⟨fuel - 1, by simp at hf; omega⟩
    obtain ⟨h1, h2⟩ := S.next_cons s c v rest h
    simp only [drainG]
    cases hn : I.next s with
    | mk b s' =>
      rw [hn] at h1 h2
      simp only at h1 h2
      subst h1
      have hc := S.cur_eq s' _ h2
      simp only at hc
      have := drain_sim S rest s' v f h2 (by simp at hf; omega)
      simp only [hc, this]

/-! ### the two invariants -/

/-- codec "dss": the bytes not yet consumed (buffer, then the unread chunks) are the encoding of
    the rest of the list relative to the current value -/
def StreamInv (s : Stream) (r : Ref) : Prop :=
  s.cur = r.cur ∧ Nondec r.cur r.rest ∧ r.cur < M64 ∧
    encodeFrom r.cur r.rest = some (s.buf ++ s.chunks.flatten)

/-- codec "dvs": the same, with a single buffer and no error so far -/
def PlainInv (s : Plain) (r : Ref) : Prop :=
  s.cur = r.cur ∧ s.err = false ∧ Nondec r.cur r.rest ∧ r.cur < M64 ∧
    encodeFrom r.cur r.rest = some s.buf

theorem stream_sim : Sim streamOps StreamInv where
  cur_eq := fun s r h => h.1
  next_nil := by
    intro s c h
    obtain ⟨h1, _, h3, h4⟩ := h
    simp only [encodeFrom, Option.some.injEq] at h4
    have hn := streamNext_nil s.cur s.chunks s.buf h4.symm
    simp only [streamOps, Stream.next, hn]
    refine ⟨by simp, h1, trivial, h3, ?_⟩
    simp [Stream.exhaust, encodeFrom, ← h4]
  next_cons := by
    intro s c v rest h
    obtain ⟨h1, h2, h3, h4⟩ := h
    simp only at h1 h2 h3 h4
    obtain ⟨hcv, hv, hrest⟩ := h2
    obtain ⟨_, bs', he, hb⟩ := encodeFrom_cons h4
    have hx : v - c < 2 ^ 64 := by simp only [M64] at hv; omega
    obtain ⟨buf', chunks', hn, ht⟩ := streamNext_spec s.cur (v - c) hx s.chunks s.buf bs' hb
    simp only [streamOps, Stream.next, hn]
    have hval : (s.cur + (v - c)) % M64 = v := by
      rw [h1]
      have : c + (v - c) = v := by omega
      rw [this]
      exact Nat.mod_eq_of_lt hv
    refine ⟨by simp, hval, hrest, hv, ?_⟩
    simp only
    rw [ht]
    exact he
  size_ok := by
    intro s r h
    obtain ⟨_, _, _, h4⟩ := h
    have := length_le_encodeFrom _ _ _ h4
    simpa [streamOps, Stream.size] using this

theorem plain_sim : Sim plainOps PlainInv where
  cur_eq := fun s r h => h.1
  next_nil := by
    intro s c h
    obtain ⟨h1, h2, _, h4, h5⟩ := h
    simp only [encodeFrom, Option.some.injEq] at h5
    have : (plainOps.next s) = (false, s) := by
      simp [plainOps, Plain.next, h2, ← h5]
    rw [this]
    exact ⟨rfl, h1, h2, trivial, h4, by simp [encodeFrom, ← h5]⟩
  next_cons := by
    intro s c v rest h
    obtain ⟨h1, h2, h3, h4, h5⟩ := h
    simp only at h1 h3 h4 h5
    obtain ⟨hcv, hv, hrest⟩ := h3
    obtain ⟨_, bs', he, hb⟩ := encodeFrom_cons h5
    have hx : v - c < 2 ^ 64 := by simp only [M64] at hv; omega
    have hd := unuvarint_uvarint (v - c) bs' hx
    have hpos := uvarint_length_pos (v - c)
    have hne : s.buf.isEmpty = false := by
      rw [hb]
      cases hu : uvarint (v - c) with
      | nil => rw [hu] at hpos; simp at hpos
      | cons a as => simp
    have hn1 : ¬ (((uvarint (v - c)).length : Int) < 1) := by omega
    have hval : (s.cur + (v - c)) % M64 = v := by
      rw [h1]
      have : c + (v - c) = v := by omega
      rw [this]
      exact Nat.mod_eq_of_lt hv
    have : plainOps.next s = (true, { s with cur := v, buf := bs' }) := by
      simp only [plainOps, Plain.next, h2, hne, Bool.or_self, Bool.false_eq_true, if_false]
      rw [hb, hd]
      simp only [hn1, if_false, hval]
      simp
    rw [this]
    exact ⟨rfl, rfl, h2, hrest, hv, he⟩
  size_ok := by
    intro s r h
    obtain ⟨_, _, _, _, h5⟩ := h
    have := length_le_encodeFrom _ _ _ h5
    simpa [plainOps] using this

end Thanos.PostingsCodec
