import Thanos.Model.Pool
/-
  Helper lemmas for C17: the ownership invariant of the shard-matcher buffer pool and the
  accounting invariant of `BucketedPool`.
-/
namespace Thanos.Pool

/-! ### (a) ownership -/

/-- no buffer twice in the pool, no buffer with two live users, no live buffer in the pool, every
    id below `next` -/
structure Inv (s : PState) : Prop where
  freeNodup : s.free.Nodup
  liveNodup : (liveBufs s).Nodup
  disjoint : ∀ b ∈ liveBufs s, b ∉ s.free
  freeLt : ∀ b ∈ s.free, b < s.next
  heldLt : ∀ h ∈ s.held, h.buf < s.next

theorem inv_init : Inv PState.init := by
  constructor <;> simp [PState.init, liveBufs]

theorem liveBufs_cons (h : Held) (s : PState) :
    liveBufs { s with held := h :: s.held } = if h.closed then liveBufs s else h.buf :: liveBufs s := by
  cases hc : h.closed <;> simp [liveBufs, List.filter, hc]

theorem liveBufs_lt {s : PState} (hl : ∀ h ∈ s.held, h.buf < s.next) : ∀ b ∈ liveBufs s, b < s.next := by
  intro b hb
  simp only [liveBufs, List.mem_map, List.mem_filter] at hb
  obtain ⟨h, ⟨hh, _⟩, rfl⟩ := hb
  exact hl h hh

private theorem inv_open_fresh {s : PState} (inv : Inv s) (m : Nat) :
    Inv { s with next := s.next + 1, held := ⟨m, s.next, false⟩ :: s.held } := by
  have hlive := liveBufs_lt inv.heldLt
  constructor
  · exact inv.freeNodup
  · show (liveBufs { { s with next := s.next + 1 } with held := ⟨m, s.next, false⟩ :: s.held }).Nodup
    rw [liveBufs_cons]
    simp only [Bool.false_eq_true, if_false, List.nodup_cons]
    refine ⟨?_, inv.liveNodup⟩
    intro hmem
    exact Nat.lt_irrefl _ (hlive _ hmem)
  · intro b hb
    have hb' : b ∈ liveBufs { { s with next := s.next + 1 } with held := ⟨m, s.next, false⟩ :: s.held } := hb
    rw [liveBufs_cons] at hb'
    simp only [Bool.false_eq_true, if_false, List.mem_cons] at hb'
    rcases hb' with rfl | hb'
    · intro hf; exact Nat.lt_irrefl _ (inv.freeLt _ hf)
    · exact inv.disjoint b hb'
  · intro b hb; exact Nat.lt_succ_of_lt (inv.freeLt b hb)
  · intro h hh
    simp only [List.mem_cons] at hh
    rcases hh with rfl | hh
    · exact Nat.lt_succ_self _
    · exact Nat.lt_succ_of_lt (inv.heldLt h hh)

private theorem mem_eraseIdx_of_nodup {l : List Nat} (hn : l.Nodup) {k : Nat} {b : Nat}
    (hk : l[k]? = some b) : b ∉ l.eraseIdx k := by
  induction l generalizing k with
  | nil => simp at hk
  | cons a r ih =>
    simp only [List.nodup_cons] at hn
    cases k with
    | zero =>
      simp at hk; subst hk
      simpa using hn.1
    | succ k =>
      simp only [List.getElem?_cons_succ] at hk
      simp only [List.eraseIdx_cons_succ, List.mem_cons, not_or]
      refine ⟨?_, ih hn.2 hk⟩
      intro hab; subst hab
      exact hn.1 (List.mem_of_getElem? hk)

private theorem inv_open_reuse {s : PState} (inv : Inv s) (m k b : Nat) (hk : s.free[k]? = some b) :
    Inv { s with free := s.free.eraseIdx k, held := ⟨m, b, false⟩ :: s.held } := by
  have hbmem : b ∈ s.free := List.mem_of_getElem? hk
  have hsub : ∀ x ∈ s.free.eraseIdx k, x ∈ s.free := fun x hx => (List.eraseIdx_sublist _ _).subset hx
  constructor
  · exact inv.freeNodup.sublist (List.eraseIdx_sublist _ _)
  · show (liveBufs { { s with free := s.free.eraseIdx k } with held := ⟨m, b, false⟩ :: s.held }).Nodup
    rw [liveBufs_cons]
    simp only [Bool.false_eq_true, if_false, List.nodup_cons]
    refine ⟨?_, inv.liveNodup⟩
    intro hmem
    exact inv.disjoint b hmem hbmem
  · intro x hx
    have hx' : x ∈ liveBufs { { s with free := s.free.eraseIdx k } with held := ⟨m, b, false⟩ :: s.held } := hx
    rw [liveBufs_cons] at hx'
    simp only [Bool.false_eq_true, if_false, List.mem_cons] at hx'
    rcases hx' with rfl | hx'
    · exact mem_eraseIdx_of_nodup inv.freeNodup hk
    · intro hf; exact inv.disjoint x hx' (hsub x hf)
  · intro x hx; exact inv.freeLt x (hsub x hx)
  · intro h hh
    simp only [List.mem_cons] at hh
    rcases hh with rfl | hh
    · exact inv.freeLt _ hbmem
    · exact inv.heldLt h hh

/-- what an idempotent `Close` does to the table of matchers: either nothing is put, or exactly
    the buffer of one live entry, which stops being live -/
theorem closeHeld_idem (m : Nat) : ∀ (held : List Held),
    ((closeHeld true m held).2 = [] ∧
      ((closeHeld true m held).1.filter (fun h => !h.closed)).map (·.buf) =
        (held.filter (fun h => !h.closed)).map (·.buf)) ∨
    (∃ b, (closeHeld true m held).2 = [b] ∧
      ∃ l1 l2, (held.filter (fun h => !h.closed)).map (·.buf) = l1 ++ b :: l2 ∧
        ((closeHeld true m held).1.filter (fun h => !h.closed)).map (·.buf) = l1 ++ l2)
  | [] => by simp [closeHeld]
  | h :: r => by
    unfold closeHeld
    by_cases hm : h.matcher = m
    · simp only [hm, if_true, Bool.true_and]
      cases hc : h.closed with
      | true => left; simp
      | false =>
        right
        refine ⟨h.buf, by simp, [], (r.filter (fun h => !h.closed)).map (·.buf), ?_, ?_⟩
        · simp [List.filter, hc]
        · simp [List.filter]
    · simp only [hm, if_false]
      rcases closeHeld_idem m r with ⟨h1, h2⟩ | ⟨b, h1, l1, l2, h2, h3⟩
      · left
        refine ⟨h1, ?_⟩
        cases hc : h.closed <;> simp [List.filter, hc, h2]
      · right
        refine ⟨b, h1, ?_⟩
        cases hc : h.closed with
        | true => exact ⟨l1, l2, by simp [List.filter, hc, h2], by simp [List.filter, hc, h3]⟩
        | false => exact ⟨h.buf :: l1, l2, by simp [List.filter, hc, h2], by simp [List.filter, hc, h3]⟩

theorem closeHeld_bufs (idem : Bool) (m : Nat) : ∀ (held : List Held) (n : Nat),
    (∀ h ∈ held, h.buf < n) → ∀ h ∈ (closeHeld idem m held).1, h.buf < n
  | [], _, _ => by simp [closeHeld]
  | h :: r, n, hl => by
    unfold closeHeld
    by_cases hm : h.matcher = m
    · simp only [hm, if_true]
      split
      · exact hl
      · intro x hx
        simp only [List.mem_cons] at hx
        rcases hx with rfl | hx
        · exact hl h (by simp)
        · exact hl x (by simp [hx])
    · simp only [hm, if_false]
      intro x hx
      simp only [List.mem_cons] at hx
      rcases hx with rfl | hx
      · exact hl _ (by simp)
      · exact closeHeld_bufs idem m r n (fun y hy => hl y (by simp [hy])) x hx

private theorem inv_close {s : PState} (inv : Inv s) (m : Nat) :
    Inv (step true s (.cls m)) := by
  simp only [step]
  have hb := closeHeld_bufs true m s.held s.next inv.heldLt
  rcases closeHeld_idem m s.held with ⟨h1, h2⟩ | ⟨b, h1, l1, l2, h2, h3⟩
  · constructor
    · simpa [h1] using inv.freeNodup
    · simpa [liveBufs, h2] using inv.liveNodup
    · intro x hx
      have hx' : x ∈ liveBufs s := by simpa [liveBufs, h2] using hx
      simpa [h1] using inv.disjoint x hx'
    · simpa [h1] using inv.freeLt
    · exact hb
  · have hlive : liveBufs s = l1 ++ b :: l2 := h2
    have hnd := inv.liveNodup
    rw [hlive] at hnd
    have hbl : b ∈ liveBufs s := by rw [hlive]; simp
    have hbnot : b ∉ l1 ++ l2 := by
      have := List.nodup_append.mp hnd
      simp only [List.nodup_cons] at this
      intro hmem
      rcases List.mem_append.mp hmem with h | h
      · exact this.2.2 b h b (by simp) rfl
      · exact this.2.1.1 h
    constructor
    · simp only [h1, List.cons_append, List.nil_append, List.nodup_cons]
      exact ⟨inv.disjoint b hbl, inv.freeNodup⟩
    · show (liveBufs _).Nodup
      simp only [liveBufs, h3]
      exact hnd.sublist (by simp)
    · intro x hx
      have hx' : x ∈ l1 ++ l2 := by simpa [liveBufs, h3] using hx
      have hxl : x ∈ liveBufs s := by
        rw [hlive]
        rcases List.mem_append.mp hx' with h | h
        · exact List.mem_append_left _ h
        · exact List.mem_append_right _ (List.mem_cons_of_mem _ h)
      simp only [h1, List.cons_append, List.nil_append, List.mem_cons, not_or]
      refine ⟨?_, inv.disjoint x hxl⟩
      intro hxb; subst hxb; exact hbnot hx'
    · intro x hx
      simp only [h1, List.cons_append, List.nil_append, List.mem_cons] at hx
      rcases hx with rfl | hx
      · exact liveBufs_lt inv.heldLt _ hbl
      · exact inv.freeLt x hx
    · exact hb

theorem inv_step {s : PState} (inv : Inv s) (e : Ev) : Inv (step true s e) := by
  cases e with
  | opn m pick =>
    cases pick with
    | none => exact inv_open_fresh inv m
    | some k =>
      simp only [step]
      cases hk : s.free[k]? with
      | none => exact inv_open_fresh inv m
      | some b => exact inv_open_reuse inv m k b hk
  | cls m => exact inv_close inv m

theorem inv_run : ∀ (evs : List Ev) {s : PState}, Inv s → Inv (run true s evs)
  | [], _, inv => inv
  | e :: r, _, inv => inv_run r (inv_step inv e)

/-! ### (b) BucketedPool accounting -/

/-- every parked slice fits its bucket -/
def Parked (bs : List (Nat × List Nat)) : Prop := ∀ x ∈ bs, ∀ c ∈ x.2, c ≤ x.1

structure BInv (p : BPool) : Prop where
  budget : p.maxTotal > 0 → p.used ≤ p.maxTotal
  parked : Parked p.buckets

theorem findBucket_spec : ∀ (bs : List (Nat × List Nat)) (sz i b : Nat) (parked : List Nat),
    findBucket bs sz = some (i, b, parked) → bs[i]? = some (b, parked) ∧ sz ≤ b
  | [], _, _, _, _, h => by simp [findBucket] at h
  | (b0, p0) :: r, sz, i, b, parked, h => by
    unfold findBucket at h
    by_cases hgt : sz > b0
    · simp only [hgt, if_true, Option.map_eq_some_iff] at h
      obtain ⟨⟨i', b', p'⟩, hr, heq⟩ := h
      simp only [Prod.mk.injEq] at heq
      obtain ⟨rfl, rfl, rfl⟩ := heq
      have := findBucket_spec r sz i' b' p' hr
      exact ⟨by simpa using this.1, this.2⟩
    · simp only [hgt, if_false, Option.some.injEq, Prod.mk.injEq] at h
      obtain ⟨rfl, rfl, rfl⟩ := h
      exact ⟨by simp, by omega⟩

theorem parked_setParked : ∀ (bs : List (Nat × List Nat)) (i b : Nat) (old new : List Nat),
    Parked bs → bs[i]? = some (b, old) → (∀ c ∈ new, c ≤ b) → Parked (setParked bs i new)
  | [], _, _, _, _, _, h, _ => by simp at h
  | (b0, p0) :: r, 0, b, old, new, hp, h, hn => by
    simp at h
    obtain ⟨rfl, rfl⟩ := h
    intro x hx
    simp only [setParked, List.mem_cons] at hx
    rcases hx with rfl | hx
    · exact hn
    · exact hp x (by simp [hx])
  | x0 :: r, i + 1, b, old, new, hp, h, hn => by
    simp only [List.getElem?_cons_succ] at h
    intro x hx
    simp only [setParked, List.mem_cons] at hx
    rcases hx with rfl | hx
    · exact hp _ (by simp)
    · exact parked_setParked r i b old new (fun y hy => hp y (by simp [hy])) h hn x hx

theorem parked_mem {bs : List (Nat × List Nat)} (hp : Parked bs) {i b : Nat} {parked : List Nat}
    (h : bs[i]? = some (b, parked)) : ∀ c ∈ parked, c ≤ b :=
  hp (b, parked) (List.mem_of_getElem? h)

theorem overBudget_false {p : BPool} {n : Nat} (h : overBudget p n = false) (hm : p.maxTotal > 0) :
    p.used + n ≤ p.maxTotal := by
  simp only [overBudget, Bool.and_eq_false_iff, decide_eq_false_iff_not] at h
  omega

/-- the repaired `Get` keeps the budget -/
theorem binv_get_fixed {p : BPool} (inv : BInv p) (sz : Nat) (ch : Option Nat) :
    BInv (p.get true sz ch).1 := by
  unfold BPool.get
  simp only [Bool.not_true, Bool.false_and, Bool.false_eq_true, if_false, Bool.true_and]
  cases hf : findBucket p.buckets sz with
  | none =>
    simp only
    cases ho : overBudget p sz with
    | true => simpa using inv
    | false =>
      simp only [Bool.false_eq_true, if_false]
      exact ⟨fun hm => overBudget_false ho hm, inv.parked⟩
  | some x =>
    obtain ⟨i, bkt, parked⟩ := x
    have hs := findBucket_spec p.buckets sz i bkt parked hf
    simp only
    cases ho : overBudget p bkt with
    | true => simpa using inv
    | false =>
      simp only [Bool.false_eq_true, if_false]
      cases ch with
      | none => exact ⟨fun hm => overBudget_false ho hm, inv.parked⟩
      | some c =>
        simp only
        cases hc : parked.contains c with
        | false => simpa using inv
        | true =>
          simp only [if_true]
          have hcm : c ∈ parked := by simpa using hc
          have hcb : c ≤ bkt := parked_mem inv.parked hs.1 c hcm
          refine ⟨?_, ?_⟩
          · intro hm
            have := overBudget_false ho hm
            simp only at hm ⊢
            omega
          · exact parked_setParked p.buckets i bkt parked _ inv.parked hs.1
              (fun y hy => parked_mem inv.parked hs.1 y (List.mem_of_mem_erase hy))

theorem binv_put {p : BPool} (inv : BInv p) (c : Nat) : BInv (p.put c) := by
  unfold BPool.put
  refine ⟨?_, ?_⟩
  · intro hm
    have := inv.budget hm
    simp only
    split <;> omega
  · cases hf : findBucket p.buckets c with
    | none => simpa using inv.parked
    | some x =>
      obtain ⟨i, bkt, parked⟩ := x
      have hs := findBucket_spec p.buckets c i bkt parked hf
      simp only
      apply parked_setParked p.buckets i bkt parked _ inv.parked hs.1
      intro y hy
      simp only [List.mem_cons] at hy
      rcases hy with rfl | hy
      · exact hs.2
      · exact parked_mem inv.parked hs.1 y hy

theorem put_maxTotal (p : BPool) (c : Nat) : (p.put c).maxTotal = p.maxTotal := by
  simp [BPool.put]

theorem get_maxTotal (fixed : Bool) (p : BPool) (sz : Nat) (ch : Option Nat) :
    (p.get fixed sz ch).1.maxTotal = p.maxTotal := by
  unfold BPool.get
  split
  · rfl
  · split
    · split
      · rfl
      · split
        · rfl
        · split <;> rfl
    · split <;> rfl

end Thanos.Pool
