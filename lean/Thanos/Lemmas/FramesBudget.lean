import Thanos.Model.Frames
import Thanos.Lemmas.Frames
/-
  The byte budget of the frames of TSDBStore.Series (C08): "minor inaccuracy … max of full chunk size".
-/
namespace Thanos.Frames

/-- bytes of the chunks of a frame -/
def bytes (f : List Chunk) : Int := (f.map (·.2)).sum

theorem bytes_append (a b : List Chunk) : bytes (a ++ b) = bytes a + bytes b := by
  simp [bytes, List.sum_append_int]

theorem bytes_single (c : Chunk) : bytes [c] = c.2 := by simp [bytes]

/-- without its last chunk a frame is empty or strictly below the budget: a frame overshoots by at most its last chunk -/
theorem splitLoop_overshoot (budget : Int) : ∀ (cs : List Chunk) (left : Int) (acc : List Chunk),
    left = budget - bytes acc → (acc ≠ [] → left > 0) →
    ∀ f ∈ splitLoop budget cs left acc, ∃ init last, f = init ++ [last] ∧ (init = [] ∨ bytes init < budget)
  | [], _, _, _, _, f, hf => by simp [splitLoop] at hf
  | c :: rest, left, acc, hl, hpos, f, hf => by
    simp only [splitLoop] at hf
    split at hf
    next hcont =>
      apply splitLoop_overshoot budget rest (left - c.2) (acc ++ [c]) _ _ f hf
      · rw [bytes_append, bytes_single]; omega
      · intro _; exact hcont.1
    next hclose =>
      rcases List.mem_cons.mp hf with rfl | hf'
      · refine ⟨acc, c, rfl, ?_⟩
        by_cases ha : acc = []
        · exact Or.inl ha
        · right
          have := hpos ha
          omega
      · exact splitLoop_overshoot budget rest budget [] (by simp [bytes]) (by intro h; exact absurd rfl h) f hf'

/-- every frame but the last is full: it holds at least `budget` bytes -/
theorem splitLoop_full (budget : Int) : ∀ (cs : List Chunk) (left : Int) (acc : List Chunk),
    left = budget - bytes acc →
    ∀ f ∈ (splitLoop budget cs left acc).dropLast, bytes f ≥ budget
  | [], _, _, _, f, hf => by simp [splitLoop] at hf
  | c :: rest, left, acc, hl, f, hf => by
    simp only [splitLoop] at hf
    split at hf
    next hcont =>
      apply splitLoop_full budget rest (left - c.2) (acc ++ [c]) _ f hf
      rw [bytes_append, bytes_single]; omega
    next hclose =>
      cases rest with
      | nil => simp [splitLoop] at hf
      | cons d ds =>
        have hne : splitLoop budget (d :: ds) budget [] ≠ [] := by
          intro h
          have := (splitLoop_nil_iff budget (d :: ds) budget []).mp h
          simp at this
        rw [List.dropLast_cons_of_ne_nil hne] at hf
        rcases List.mem_cons.mp hf with rfl | hf'
        · -- closed although more chunks follow: no bytes were left
          have : ¬ (left - c.2 > 0) := by
            intro h
            apply hclose
            exact ⟨h, by simp⟩
          rw [bytes_append, bytes_single]
          omega
        · exact splitLoop_full budget (d :: ds) budget [] (by simp [bytes]) f hf'

end Thanos.Frames
