import Thanos.Model.Reloader
/-
  Helper lemmas for C47: the retry loop, the pass over the config directories (hashes, change
  flag), and what `apply` does to the reload bookkeeping.
-/
namespace Thanos.Reloader

theorem retry_pos : ∀ (script : List Bool), script ≠ [] → 0 < (retry script).1
  | [], h => absurd rfl h
  | true :: _, _ => by simp [retry]
  | false :: rest, _ => by simp [retry]

theorem retry_ok_iff : ∀ (script : List Bool), (retry script).2 = script.any id
  | [] => by simp [retry]
  | true :: _ => by simp [retry]
  | false :: rest => by simp [retry, retry_ok_iff rest]

/-! ### expandEnv -/

theorem map_error {α β ε} (f : α → β) (x : Except ε α) (e : ε) (h : x.map f = .error e) : x = .error e := by
  cases x with
  | error e' => simpa [Except.map] using h
  | ok a => simp [Except.map] at h

theorem dropWhile_length_le (p : Char → Bool) : ∀ l : List Char, (l.dropWhile p).length ≤ l.length
  | [] => by simp
  | a :: l => by
    simp only [List.dropWhile_cons]
    split
    · have := dropWhile_length_le p l; simp; omega
    · simp

theorem matchVar_length (rest name after : List Char) (h : matchVar rest = some (name, after)) :
    after.length < rest.length := by
  unfold matchVar at h
  split at h
  · rename_i n ns after' h1 h2
    simp only [Option.some.injEq, Prod.mk.injEq] at h
    have := dropWhile_length_le isVarChar rest
    rw [h2] at this
    rw [← h.2]
    simp at this
    omega
  · simp at h

theorem refAt_length (l name after : List Char) (h : refAt l = some (name, after)) : after.length + 2 < l.length := by
  unfold refAt at h
  split at h
  · rename_i rest
    have := matchVar_length rest name after h
    simp; omega
  · simp at h

/-- the scan never runs out of fuel when it starts with more fuel than characters -/
theorem expandGo_no_fuel (env : String → Option String) (tol : Bool) :
    ∀ (fuel : Nat) (l : List Char), l.length < fuel → expandGo env tol fuel l ≠ .error .fuel := by
  intro fuel
  induction fuel with
  | zero => intro l h; omega
  | succ fuel ih =>
    intro l hl he
    cases l with
    | nil => simp [expandGo] at he
    | cons c rest =>
      have hrest : rest.length < fuel := by simpa using hl
      unfold expandGo at he
      split at he
      · rename_i name after href
        have hlen : after.length < fuel := by
          have := refAt_length _ _ _ href
          simp at this
          omega
        split at he
        · exact ih after hlen (map_error _ _ _ he)
        · split at he
          · exact ih after hlen (map_error _ _ _ he)
          · cases he
      · exact ih rest hrest (map_error _ _ _ he)

theorem refAt_none_of_ne (c : Char) (rest : List Char) (h : c ≠ '$') : refAt (c :: rest) = none := by
  unfold refAt
  split
  · rename_i heq; injection heq with h1 _; exact absurd h1 h
  · rfl

/-- a text without `$` is left as it is -/
theorem expandGo_plain (env : String → Option String) (tol : Bool) :
    ∀ (l : List Char) (fuel : Nat), l.length < fuel → (∀ c ∈ l, c ≠ '$') → expandGo env tol fuel l = .ok l := by
  intro l
  induction l with
  | nil => intro fuel h _; cases fuel with | zero => omega | succ f => simp [expandGo]
  | cons c rest ih =>
    intro fuel h hc
    cases fuel with
    | zero => omega
    | succ f =>
      unfold expandGo
      rw [refAt_none_of_ne c rest (hc c (by simp))]
      simp only
      rw [ih f (by simpa using h) (fun x hx => hc x (by simp [hx]))]
      rfl

/-! ### the pass over the config directories -/

/-- when the pass completes, the hashes are those of the directories, in order -/
theorem passDirs_hashes (c : Conf) (track : Bool) (env : List (String × String)) (lastDirs : List Hash) :
    ∀ (ds : List (List File)) (i : Nat) (lastFiles : List (Option (List Key))) (o : OutFS) (hs : List Hash) (ch : Bool),
      (passDirs c track env lastDirs i ds lastFiles o hs ch).err = none →
      (passDirs c track env lastDirs i ds lastFiles o hs ch).hashes = hs ++ ds.map hashFiles := by
  intro ds
  induction ds with
  | nil => intro i lf o hs ch _; simp [passDirs]
  | cons d ds ih =>
    intro i lf o hs ch herr
    unfold passDirs at herr ⊢
    generalize hw : writeEntries c env i d o [] = w at herr ⊢
    obtain ⟨o1, written, e⟩ := w
    cases e with
    | some e => simp at herr
    | none =>
      simp only at herr ⊢
      rw [ih _ _ _ _ _ herr]
      simp

/-- … and the change flag says whether some directory hash differs from the one recorded at the
    last successful reload -/
theorem passDirs_changed (c : Conf) (track : Bool) (env : List (String × String)) (lastDirs : List Hash) :
    ∀ (ds : List (List File)) (i : Nat) (lastFiles : List (Option (List Key))) (o : OutFS) (hs : List Hash) (ch : Bool),
      (passDirs c track env lastDirs i ds lastFiles o hs ch).err = none →
      ((passDirs c track env lastDirs i ds lastFiles o hs ch).changed = true ↔
        ch = true ∨ ∃ k, k < ds.length ∧ lastDirs[i + k]? ≠ (ds.map hashFiles)[k]?) := by
  intro ds
  induction ds with
  | nil => intro i lf o hs ch _; simp [passDirs]
  | cons d ds ih =>
    intro i lf o hs ch herr
    unfold passDirs at herr ⊢
    generalize hw : writeEntries c env i d o [] = w at herr ⊢
    obtain ⟨o1, written, e⟩ := w
    cases e with
    | some e => simp at herr
    | none =>
      simp only at herr ⊢
      rw [ih _ _ _ _ _ herr]
      constructor
      · rintro (h | ⟨k, hk, hne⟩)
        · simp only [Bool.or_eq_true, bne_iff_ne, ne_eq] at h
          rcases h with h | h
          · exact Or.inl h
          · exact Or.inr ⟨0, by simp, by simpa using h⟩
        · refine Or.inr ⟨k + 1, by simp; omega, ?_⟩
          have : i + (k + 1) = i + 1 + k := by omega
          rw [this]
          simpa using hne
      · rintro (h | ⟨k, hk, hne⟩)
        · exact Or.inl (by simp [h])
        · cases k with
          | zero =>
            left
            simp only [Bool.or_eq_true, bne_iff_ne, ne_eq]
            right
            simpa using hne
          | succ k =>
            right
            refine ⟨k, by simpa using hk, ?_⟩
            have : i + (k + 1) = i + 1 + k := by omega
            rw [this] at hne
            simpa using hne

/-- the flag, for the whole pass as `apply` starts it: the recorded directory hashes differ from
    the current ones (the record is empty before the first successful reload, of the right length
    afterwards) -/
theorem changed_iff_ne (lastDirs : List Hash) (hashes : List Hash)
    (hlen : lastDirs = [] ∨ lastDirs.length = hashes.length) :
    ((lastDirs.isEmpty && !hashes.isEmpty) = true ∨ ∃ k, k < hashes.length ∧ lastDirs[0 + k]? ≠ hashes[k]?) ↔
      lastDirs ≠ hashes := by
  constructor
  · rintro (h | ⟨k, hk, hne⟩)
    · intro heq; subst heq; cases lastDirs <;> simp at h
    · intro heq; subst heq; simp at hne
  · intro hne
    rcases hlen with h | h
    · subst h
      left
      cases hashes with
      | nil => exact absurd rfl hne
      | cons _ _ => simp
    · right
      apply Classical.byContradiction
      intro hall
      apply hne
      apply List.ext_getElem?
      intro k
      by_cases hk : k < hashes.length
      · apply Classical.byContradiction
        intro hk'
        exact hall ⟨k, hk, by simpa using hk'⟩
      · rw [List.getElem?_eq_none (by omega), List.getElem?_eq_none (by omega)]

/-! ### apply and the reload bookkeeping -/

/-- what `apply` hashes: the config file, every config directory, the watched directories -/
def contentOf (c : Conf) (s : Snap) : Option Hash × List Hash × Option Hash :=
  (cfgHashOf c s, s.dirs.map hashFiles, s.watched.map hashFiles)

/-- what the reloader remembers of the last successful reload -/
def lastOf (st : St) : Option Hash × List Hash × Option Hash := (st.lastCfg, st.lastDirs, st.lastWatched)

/-- the record of directory hashes is empty (no successful reload yet) or has one entry per directory -/
def LenInv (st : St) (s : Snap) : Prop := st.lastDirs = [] ∨ st.lastDirs.length = s.dirs.length

theorem finish_out (c : Conf) (st : St) (s : Snap) (p : Pass) :
    (finish c st s p).1.out = p.out ∧ (finish c st s p).1.lastDirFiles = p.files := by
  unfold finish
  cases p.err with
  | some e => exact ⟨rfl, rfl⟩
  | none =>
    simp only
    split
    · exact ⟨rfl, rfl⟩
    · split
      · exact ⟨rfl, rfl⟩
      · split <;> exact ⟨rfl, rfl⟩

theorem finish_err (c : Conf) (st : St) (s : Snap) (p : Pass) (e : Err) (h : (finish c st s p).2 = .err e) :
    p.err = some e ∧ lastOf (finish c st s p).1 = lastOf st ∧ (finish c st s p).1.force = st.force := by
  unfold finish at h ⊢
  cases hpe : p.err with
  | some e' =>
    simp only [hpe] at h ⊢
    cases h
    simp [lastOf]
  | none =>
    simp only [hpe] at h
    split at h
    · cases h
    · split at h
      · cases h
      · split at h <;> cases h

theorem finish_ok_err (c : Conf) (st : St) (s : Snap) (p : Pass) (n : Nat) (h : (finish c st s p).2 = .ok n) :
    p.err = none := by
  unfold finish at h
  cases hpe : p.err with
  | some e' => simp [hpe] at h
  | none => rfl

theorem dirsStep_err_none (c : Conf) (track : Bool) (st : St) (s : Snap) (o0 : OutFS)
    (h : (dirsStep c track st s o0).err = none) (hlen : LenInv st s) :
    (dirsStep c track st s o0).hashes = s.dirs.map hashFiles ∧
    ((dirsStep c track st s o0).changed = true ↔ st.lastDirs ≠ s.dirs.map hashFiles) := by
  unfold dirsStep at h ⊢
  have hh := passDirs_hashes c track s.env st.lastDirs s.dirs 0 _ o0 [] _ h
  have hc := passDirs_changed c track s.env st.lastDirs s.dirs 0 _ o0 [] _ h
  simp only [List.nil_append] at hh
  refine ⟨hh, ?_⟩
  rw [hc]
  have := changed_iff_ne st.lastDirs (s.dirs.map hashFiles) (by simpa [LenInv] using hlen)
  simpa using this

theorem watchStep_fields (s : Snap) (p : Pass) :
    (watchStep s p).out = p.out ∧ (watchStep s p).files = p.files ∧ (watchStep s p).hashes = p.hashes ∧
    (watchStep s p).changed = p.changed ∧ ((watchStep s p).err = none → p.err = none) := by
  unfold watchStep
  by_cases hb : (p.err.isNone && watchedBroken s) = true
  · simp [hb]
  · simp [hb]

/-- Everything `apply` does to the reload bookkeeping, when it returns without error and the
    watch interval is not zero. -/
theorem apply_ok_cases (c : Conf) (track : Bool) (st : St) (s : Snap) (n : Nat)
    (hok : (apply c track st s).2 = .ok n) (hw : c.watchZero = false) (hlen : LenInv st s) :
    let st' := (apply c track st s).1
    let needs := st.force = true ∨ lastOf st ≠ contentOf c s
    (¬ needs → n = 0 ∧ lastOf st' = lastOf st ∧ st'.force = st.force) ∧
    (needs → n = (retry s.script).1 ∧
      ((retry s.script).2 = true → lastOf st' = contentOf c s ∧ st'.force = false) ∧
      ((retry s.script).2 = false → lastOf st' = lastOf st ∧ st'.force = true)) := by
  unfold apply at hok ⊢
  cases hcs : cfgStep c st s with
  | error e => simp [hcs] at hok
  | ok o0 =>
    simp only [hcs] at hok ⊢
    obtain ⟨_, _, wh, wc, we⟩ := watchStep_fields s (dirsStep c track st s o0)
    generalize hp : watchStep s (dirsStep c track st s o0) = p at hok wh wc we ⊢
    have hpe : p.err = none := finish_ok_err c st s p n hok
    obtain ⟨hh, hchg⟩ := dirsStep_err_none c track st s o0 (we hpe) hlen
    rw [← wh] at hh
    rw [← wc] at hchg
    unfold finish at hok ⊢
    simp only [hpe] at hok ⊢
    -- the decision
    have hdecide : ((!st.force && !p.changed && st.lastCfg == cfgHashOf c s && st.lastWatched == s.watched.map hashFiles) = true) ↔
        (st.force = false ∧ p.changed = false ∧ st.lastCfg = cfgHashOf c s ∧ st.lastWatched = s.watched.map hashFiles) := by
      simp [and_assoc]
    have hneeds : (st.force = true ∨ lastOf st ≠ contentOf c s) ↔
        ¬ ((!st.force && !p.changed && st.lastCfg == cfgHashOf c s && st.lastWatched == s.watched.map hashFiles) = true) := by
      rw [hdecide]
      simp only [lastOf, contentOf, ne_eq, Prod.mk.injEq]
      constructor
      · rintro (h | h) ⟨hf, hch, hcfg, hwd⟩
        · rw [h] at hf; exact Bool.noConfusion hf
        · apply h
          refine ⟨hcfg, ?_, hwd⟩
          apply Classical.byContradiction
          intro hne
          have := hchg.mpr hne
          rw [this] at hch; exact Bool.noConfusion hch
      · intro h
        by_cases hf : st.force = true
        · exact Or.inl hf
        · right
          rintro ⟨h1, h2, h3⟩
          have hch : p.changed = false := by
            cases hpc : p.changed with
            | false => rfl
            | true => exact absurd h2 (hchg.mp hpc)
          exact h ⟨by simpa using hf, hch, h1, h3⟩
    by_cases hdec : (!st.force && !p.changed && st.lastCfg == cfgHashOf c s && st.lastWatched == s.watched.map hashFiles) = true
    · simp only [hdec, if_true] at hok ⊢
      refine ⟨fun _ => ?_, fun hn => absurd hdec (hneeds.mp hn)⟩
      simp only [Res.ok.injEq] at hok
      simp [lastOf, hok]
    · simp only [hdec, Bool.false_eq_true, if_false, hw] at hok ⊢
      refine ⟨fun hn => absurd (hneeds.mpr hdec) hn, fun _ => ?_⟩
      cases hr : (retry s.script).2 with
      | true =>
        simp only [hr, if_true, Res.ok.injEq] at hok ⊢
        simp [lastOf, contentOf, hh, hok]
      | false =>
        simp only [hr, Bool.false_eq_true, if_false, Res.ok.injEq] at hok ⊢
        simp [lastOf, hok]

/-! ### the output files -/

theorem find_filter_ne (k k' : Key) (h : ¬ k' = k) : ∀ (o : OutFS),
    (o.filter (fun e => e.1 != k)).find? (fun e => e.1 == k') = o.find? (fun e => e.1 == k')
  | [] => rfl
  | (a, b) :: rest => by
    have ih := find_filter_ne k k' h rest
    by_cases he : a = k
    · subst he
      have hk : (a == k') = false := by simpa using fun x : a = k' => h x.symm
      simp [List.filter_cons, List.find?_cons, hk, ih]
    · by_cases he' : a = k'
      · subst he'
        simp [List.filter_cons, List.find?_cons, he]
      · have hk : (a == k') = false := by simpa using he'
        simp [List.filter_cons, List.find?_cons, he, hk, ih]

theorem get_set (o : OutFS) (k k' : Key) (v : String) :
    (o.set k v).get k' = if k' = k then some v else o.get k' := by
  unfold OutFS.set OutFS.get
  by_cases h : k' = k
  · subst h; simp
  · have h' : (k == k') = false := by simpa using fun e : k = k' => h e.symm
    simp only [h, if_false, List.find?_cons, h']
    rw [find_filter_ne k k' h]

theorem get_del (o : OutFS) (k k' : Key) :
    (o.del k).get k' = if k' = k then none else o.get k' := by
  unfold OutFS.del OutFS.get
  by_cases h : k' = k
  · subst h
    simp only [if_true, Option.map_eq_none_iff, List.find?_eq_none]
    intro e he
    simpa using (List.mem_filter.mp he).2
  · simp only [h, if_false]
    rw [find_filter_ne k k' h]

theorem get_foldl_del (ks : List Key) : ∀ (o : OutFS) (k' : Key),
    (ks.foldl OutFS.del o).get k' = if k' ∈ ks then none else o.get k' := by
  induction ks with
  | nil => intro o k'; simp
  | cons k ks ih =>
    intro o k'
    simp only [List.foldl_cons, ih, get_del, List.mem_cons]
    by_cases h1 : k' ∈ ks <;> by_cases h2 : k' = k <;> simp [h1, h2]

/-- what a file's output has to be: the text after gunzip with the variables substituted -/
def expected (c : Conf) (env : List (String × String)) (f : File) : Option String :=
  match f.plain with
  | none => none
  | some p => match expandEnv (lookupEnv env) c.tolerate p with
    | .ok v => some v
    | .error _ => none

theorem normalize_ok (c : Conf) (env : List (String × String)) (f : File) (k : Key) (o o' : OutFS)
    (h : normalize c env f k o = .ok o') : ∃ v, expected c env f = some v ∧ o' = o.set k v := by
  unfold normalize at h
  unfold expected
  cases hd : f.dangling with
  | true => simp [hd] at h
  | false =>
  simp only [hd, Bool.false_eq_true, if_false] at h
  cases hp : f.plain with
  | none => simp [hp] at h
  | some p =>
    simp only [hp] at h ⊢
    cases he : expandEnv (lookupEnv env) c.tolerate p with
    | ok v => simp only [he, Except.ok.injEq] at h; exact ⟨v, rfl, h.symm⟩
    | error e => cases e <;> simp [he] at h

/-- the loop over the entries of a directory: other keys untouched; when it completes, every file
    of the directory has its expected output, and the keys written are the directory's -/
theorem writeEntries_spec (c : Conf) (env : List (String × String)) (i : Nat) :
    ∀ (fs : List File) (o : OutFS) (w : List Key),
      (∀ key, (∀ f ∈ fs, key ≠ .dir i f.name) → (writeEntries c env i fs o w).1.get key = o.get key) ∧
      (∃ dn : List File, dn.Sublist fs ∧ (writeEntries c env i fs o w).2.1 = w ++ dn.map (fun f => Key.dir i f.name)) ∧
      ((writeEntries c env i fs o w).2.2 = none →
        (writeEntries c env i fs o w).2.1 = w ++ fs.map (fun f => Key.dir i f.name) ∧
        ((fs.map (·.name)).Nodup → ∀ f ∈ fs, ∃ v, expected c env f = some v ∧
          (writeEntries c env i fs o w).1.get (.dir i f.name) = some v)) := by
  intro fs
  induction fs with
  | nil => intro o w; simp [writeEntries]
  | cons f fs ih =>
    intro o w
    unfold writeEntries
    cases hn : normalize c env f (.dir i f.name) o with
    | error e =>
      simp only
      refine ⟨fun _ _ => trivial, ⟨[], by simp, by simp⟩, fun h => by simp at h⟩
    | ok o' =>
      simp only
      obtain ⟨v, hv, ho'⟩ := normalize_ok c env f _ o o' hn
      obtain ⟨h1, ⟨dn, hd1, hd2⟩, h3⟩ := ih o' (w ++ [.dir i f.name])
      refine ⟨?_, ⟨f :: dn, by simp [hd1], by rw [hd2]; simp⟩, ?_⟩
      · intro key hk
        rw [h1 key (fun g hg => hk g (by simp [hg])), ho', get_set]
        simp [hk f (by simp)]
      · intro herr
        obtain ⟨h3a, h3b⟩ := h3 herr
        refine ⟨by rw [h3a]; simp, ?_⟩
        intro hnd g hg
        simp only [List.map_cons, List.nodup_cons] at hnd
        rcases List.mem_cons.mp hg with rfl | hg
        · refine ⟨v, hv, ?_⟩
          rw [h1 _ (fun g' hg' => ?_), ho', get_set]
          · simp
          · intro heq
            apply hnd.1
            have : g.name = g'.name := by injection heq
            rw [this]
            exact List.mem_map_of_mem hg'
        · exact h3b hnd.2 g hg

/-- the tracked output lists, from CfgDir `i` on, only name outputs of their own directory -/
def KeysOf (i : Nat) (files : List (Option (List Key))) : Prop :=
  ∀ j l, files[j]? = some (some l) → ∀ k ∈ l, ∃ nm, k = Key.dir (i + j) nm

theorem keysOf_tail (i : Nat) (files : List (Option (List Key))) (h : KeysOf i files) : KeysOf (i + 1) files.tail := by
  intro j l hj k hk
  have : files[j + 1]? = some (some l) := by
    cases files with
    | nil => simp at hj
    | cons a rest => simpa using hj
  obtain ⟨nm, hnm⟩ := h (j + 1) l this k hk
  exact ⟨nm, by rw [hnm]; congr 1; omega⟩

theorem keysOf_head (i : Nat) (files : List (Option (List Key))) (h : KeysOf i files) (l : List Key)
    (hl : files.head?.join = some l) : ∀ k ∈ l, ∃ nm, k = Key.dir i nm := by
  intro k hk
  cases files with
  | nil => simp at hl
  | cons a rest =>
    simp only [List.head?_cons, Option.join] at hl
    have : (a :: rest)[0]? = some (some l) := by simp; exact hl
    obtain ⟨nm, hnm⟩ := h 0 l this k hk
    exact ⟨nm, by simpa using hnm⟩

theorem keysOf_cons (i : Nat) (a : Option (List Key)) (rest : List (Option (List Key)))
    (ha : ∀ l, a = some l → ∀ k ∈ l, ∃ nm, k = Key.dir i nm) (hr : KeysOf (i + 1) rest) : KeysOf i (a :: rest) := by
  intro j l hj k hk
  cases j with
  | zero => simp at hj; simpa using ha l hj k hk
  | succ j =>
    simp at hj
    obtain ⟨nm, hnm⟩ := hr j l hj k hk
    exact ⟨nm, by rw [hnm]; congr 1; omega⟩

/-- The pass over the config directories and the output files:
    * outputs of earlier directories and the config output are not touched;
    * the tracked lists keep naming outputs of their own directory;
    * when the pass completes, every file of every directory has its expected output. -/
theorem passDirs_out (c : Conf) (track : Bool) (env : List (String × String)) (lastDirs : List Hash) :
    ∀ (ds : List (List File)) (i : Nat) (lastFiles : List (Option (List Key))) (o : OutFS) (hs : List Hash) (ch : Bool),
      KeysOf i lastFiles →
      (∀ key, (∀ m nm, key = Key.dir m nm → m < i) →
          (passDirs c track env lastDirs i ds lastFiles o hs ch).out.get key = o.get key) ∧
      KeysOf i (passDirs c track env lastDirs i ds lastFiles o hs ch).files ∧
      ((passDirs c track env lastDirs i ds lastFiles o hs ch).err = none →
        ∀ m d, ds[m]? = some d → (d.map (·.name)).Nodup → ∀ f ∈ d, ∃ v, expected c env f = some v ∧
          (passDirs c track env lastDirs i ds lastFiles o hs ch).out.get (.dir (i + m) f.name) = some v) := by
  intro ds
  induction ds with
  | nil =>
    intro i lf o hs ch _
    refine ⟨fun _ _ => by simp [passDirs], ?_, fun _ m d hm => by simp at hm⟩
    intro j l hj; simp [passDirs] at hj
  | cons d ds ih =>
    intro i lf o hs ch hk
    obtain ⟨w1, ⟨dn, hdn1, hdn2⟩, w3⟩ := writeEntries_spec c env i d o []
    unfold passDirs
    generalize hw : writeEntries c env i d o [] = w at w1 hdn2 w3 ⊢
    obtain ⟨o1, written, e⟩ := w
    simp only at w1 hdn2 w3 ⊢
    have hwritten : ∀ k ∈ written, ∃ nm, k = Key.dir i nm := by
      intro k hk'
      rw [hdn2] at hk'
      simp only [List.nil_append, List.mem_map] at hk'
      obtain ⟨f, _, rfl⟩ := hk'
      exact ⟨f.name, rfl⟩
    -- keys outside directory i are not written by the entries loop
    have hframe1 : ∀ key, (∀ nm, key ≠ Key.dir i nm) → o1.get key = o.get key :=
      fun key hne => w1 key (fun f _ => hne f.name)
    cases e with
    | some e =>
      simp only
      refine ⟨?_, ?_, fun h => by simp at h⟩
      · intro key hkey
        apply hframe1
        intro nm heq
        have := hkey i nm heq
        omega
      · apply keysOf_cons
        · intro l hl k hk'
          cases track with
          | false =>
            simp only [Bool.false_eq_true, if_false] at hl
            exact keysOf_head i lf hk l hl k hk'
          | true =>
            simp only [if_true, Option.some.injEq] at hl
            subst hl
            rcases List.mem_append.mp hk' with h | h
            · cases hlh : lf.head?.join with
              | none => simp [hlh] at h
              | some l0 => simp only [hlh] at h; exact keysOf_head i lf hk l0 hlh k h
            · exact hwritten k h
        · exact keysOf_tail i lf hk
    | none =>
      simp only
      obtain ⟨hw3a, hw3b⟩ := w3 rfl
      -- the outputs after removing stale files of directory i
      generalize ho2 : removeStale lf.head?.join (d.map (fun f => Key.dir i f.name)) o1 = o2
      have hframe2 : ∀ key, (∀ nm, key ≠ Key.dir i nm) → o2.get key = o.get key := by
        intro key hne
        rw [← ho2]
        unfold removeStale
        cases hlh : lf.head?.join with
        | none => exact hframe1 key hne
        | some last =>
          simp only
          rw [get_foldl_del]
          have : key ∉ last.filter (fun p => !(d.map (fun f => Key.dir i f.name)).contains p) := by
            intro hmem
            obtain ⟨nm, hnm⟩ := keysOf_head i lf hk last hlh key (List.mem_filter.mp hmem).1
            exact hne nm hnm
          simp only [this, if_false]
          exact hframe1 key hne
      have hkeep2 : ∀ f ∈ d, o2.get (.dir i f.name) = o1.get (.dir i f.name) := by
        intro f hf
        rw [← ho2]
        unfold removeStale
        cases hlh : lf.head?.join with
        | none => rfl
        | some last =>
          simp only
          rw [get_foldl_del]
          have : Key.dir i f.name ∉ last.filter (fun p => !(d.map (fun f => Key.dir i f.name)).contains p) := by
            intro hmem
            have := (List.mem_filter.mp hmem).2
            have hin : (d.map (fun f => Key.dir i f.name)).contains (Key.dir i f.name) = true := by
              simp only [List.contains_iff_mem, List.mem_map]
              exact ⟨f, hf, rfl⟩
            rw [hin] at this
            exact Bool.noConfusion this
          rw [if_neg this]
      obtain ⟨t1, t2, t3⟩ := ih (i + 1) lf.tail o2 (hs ++ [hashFiles d]) (ch || (lastDirs[i]? != some (hashFiles d)))
        (keysOf_tail i lf hk)
      refine ⟨?_, ?_, ?_⟩
      · intro key hkey
        rw [t1 key (fun m nm heq => by have := hkey m nm heq; omega)]
        apply hframe2
        intro nm heq
        have := hkey i nm heq
        omega
      · apply keysOf_cons
        · intro l hl k hk'
          simp only [Option.some.injEq] at hl
          subst hl
          simp only [List.mem_map] at hk'
          obtain ⟨f, _, rfl⟩ := hk'
          exact ⟨f.name, rfl⟩
        · exact t2
      · intro herr m d' hm hnd f hf
        cases m with
        | zero =>
          simp at hm
          subst hm
          obtain ⟨v, hv, hget⟩ := hw3b hnd f hf
          refine ⟨v, hv, ?_⟩
          simp only [Nat.add_zero]
          rw [t1 _ (fun m nm heq => by injection heq with h1 _; omega), hkeep2 f hf]
          exact hget
        | succ m =>
          simp at hm
          obtain ⟨v, hv, hget⟩ := t3 herr m d' hm hnd f hf
          refine ⟨v, hv, ?_⟩
          have : i + (m + 1) = i + 1 + m := by omega
          rw [this]
          exact hget

/-! ### tracking: every output of a config directory is in the reloader's list for it -/

/-- from CfgDir `i` on, every output present is tracked in the list of its directory -/
def Tracked (i : Nat) (files : List (Option (List Key))) (o : OutFS) : Prop :=
  ∀ m nm, i ≤ m → o.get (.dir m nm) ≠ none → ∃ l, files[m - i]? = some (some l) ∧ Key.dir m nm ∈ l

/-- the entries loop only adds outputs it records in `written` -/
theorem writeEntries_keys (c : Conf) (env : List (String × String)) (i : Nat) :
    ∀ (fs : List File) (o : OutFS) (w : List Key) (key : Key),
      (writeEntries c env i fs o w).1.get key ≠ none →
      key ∈ (writeEntries c env i fs o w).2.1 ∨ o.get key ≠ none := by
  intro fs
  induction fs with
  | nil => intro o w key h; exact Or.inr (by simpa [writeEntries] using h)
  | cons f fs ih =>
    intro o w key h
    unfold writeEntries at h ⊢
    cases hn : normalize c env f (.dir i f.name) o with
    | error e => simp only [hn] at h ⊢; exact Or.inr h
    | ok o' =>
      simp only [hn] at h ⊢
      obtain ⟨v, _, ho'⟩ := normalize_ok c env f _ o o' hn
      rcases ih o' (w ++ [.dir i f.name]) key h with h1 | h1
      · exact Or.inl h1
      · rw [ho', get_set] at h1
        by_cases hk : key = .dir i f.name
        · left
          obtain ⟨_, ⟨dn, _, hd2⟩, _⟩ := writeEntries_spec c env i fs o' (w ++ [.dir i f.name])
          rw [hd2, hk]
          simp
        · simp only [hk, if_false] at h1
          exact Or.inr h1

/-- keys written by the entries loop that were not in `w` belong to directory `i` -/
theorem writeEntries_written (c : Conf) (env : List (String × String)) (i : Nat) (fs : List File) (o : OutFS) :
    ∀ k ∈ (writeEntries c env i fs o []).2.1, ∃ f ∈ fs, k = Key.dir i f.name := by
  intro k hk
  obtain ⟨_, ⟨dn, hd1, hd2⟩, _⟩ := writeEntries_spec c env i fs o []
  rw [hd2] at hk
  simp only [List.nil_append, List.mem_map] at hk
  obtain ⟨f, hf, rfl⟩ := hk
  exact ⟨f, hd1.subset hf, rfl⟩

theorem get_removeStale (lastHere : Option (List Key)) (cur : List Key) (o : OutFS) (key : Key) :
    (removeStale lastHere cur o).get key =
      match lastHere with
      | none => o.get key
      | some last => if key ∈ last ∧ key ∉ cur then none else o.get key := by
  unfold removeStale
  cases lastHere with
  | none => rfl
  | some last =>
    simp only
    rw [get_foldl_del]
    simp [List.mem_filter]

/-- With tracking (the repaired code) the pass keeps every directory output tracked, whether it
    completes or not; when it completes, the tracked list of each directory is exactly the
    outputs of its current files. -/
theorem passDirs_tracked (c : Conf) (env : List (String × String)) (lastDirs : List Hash) :
    ∀ (ds : List (List File)) (i : Nat) (lastFiles : List (Option (List Key))) (o : OutFS) (hs : List Hash) (ch : Bool),
      KeysOf i lastFiles → lastFiles.length = ds.length → Tracked i lastFiles o →
      Tracked i (passDirs c true env lastDirs i ds lastFiles o hs ch).files
        (passDirs c true env lastDirs i ds lastFiles o hs ch).out ∧
      (passDirs c true env lastDirs i ds lastFiles o hs ch).files.length = ds.length ∧
      ((passDirs c true env lastDirs i ds lastFiles o hs ch).err = none →
        ∀ (k : Nat) (d : List File), ds[k]? = some d →
          (passDirs c true env lastDirs i ds lastFiles o hs ch).files[k]? =
            some (some (d.map fun f => Key.dir (i + k) f.name))) := by
  intro ds
  induction ds with
  | nil =>
    intro i lf o hs ch _ hl ht
    have : lf = [] := List.eq_nil_of_length_eq_zero hl
    subst this
    refine ⟨by simpa [passDirs] using ht, by simp [passDirs], fun _ k d hk => by simp at hk⟩
  | cons d ds ih =>
    intro i lf o hs ch hk hl ht
    cases lf with
    | nil => simp at hl
    | cons a rest =>
      have hrest : rest.length = ds.length := by simpa using hl
      have hwk := writeEntries_keys c env i d o []
      have hww := writeEntries_written c env i d o
      obtain ⟨w1, _, w3⟩ := writeEntries_spec c env i d o []
      unfold passDirs
      generalize hw : writeEntries c env i d o [] = w at hwk hww w1 w3 ⊢
      obtain ⟨o1, written, e⟩ := w
      have hj : (List.head? (a :: rest)).join = a := rfl
      simp only [hj, List.tail_cons] at hwk hww w1 w3 ⊢
      have hframe1 : ∀ key, (∀ nm, key ≠ Key.dir i nm) → o1.get key = o.get key :=
        fun key hne => w1 key (fun f _ => hne f.name)
      have ha : ∀ l, a = some l → ∀ k ∈ l, ∃ nm, k = Key.dir i nm := by
        intro l hl' k hk'
        have : (a :: rest)[0]? = some (some l) := by simp [hl']
        obtain ⟨nm, hnm⟩ := hk 0 l this k hk'
        exact ⟨nm, by simpa using hnm⟩
      have hkrest : KeysOf (i + 1) rest := keysOf_tail i (a :: rest) hk
      -- what is tracked for directories after i does not depend on directory i
      have htrest : ∀ (o' : OutFS), (∀ m nm, i + 1 ≤ m → o'.get (.dir m nm) = o.get (.dir m nm)) →
          Tracked (i + 1) rest o' := by
        intro o' hsame m nm hm hne
        rw [hsame m nm hm] at hne
        obtain ⟨l, hl', hmem⟩ := ht m nm (by omega) hne
        have : m - i = (m - (i + 1)) + 1 := by omega
        rw [this] at hl'
        exact ⟨l, by simpa using hl', hmem⟩
      cases e with
      | some e =>
        simp only [if_true]
        refine ⟨?_, by simp [hrest], fun h => by simp at h⟩
        intro m nm hm hne
        by_cases hmi : m = i
        · subst hmi
          simp only [Nat.sub_self, List.getElem?_cons_zero, Option.some.injEq]
          refine ⟨_, rfl, ?_⟩
          rcases hwk (.dir m nm) hne with h1 | h1
          · exact List.mem_append_right _ h1
          · obtain ⟨l, hl', hmem⟩ := ht m nm (Nat.le_refl _) h1
            simp only [Nat.sub_self, List.getElem?_cons_zero, Option.some.injEq] at hl'
            subst hl'
            exact List.mem_append_left _ hmem
        · rw [hframe1 _ (fun nm' h => by injection h with h1 _; exact hmi h1)] at hne
          obtain ⟨l, hl', hmem⟩ := ht m nm hm hne
          have h1 : m - i = (m - i - 1) + 1 := by omega
          rw [h1] at hl' ⊢
          exact ⟨l, by simpa using hl', hmem⟩
      | none =>
        simp only
        obtain ⟨hw3a, _⟩ := w3 rfl
        simp only [List.nil_append] at hw3a
        generalize ho2 : removeStale a (d.map (fun f => Key.dir i f.name)) o1 = o2
        have hget2 := fun key => get_removeStale a (d.map (fun f => Key.dir i f.name)) o1 key
        rw [ho2] at hget2
        -- keys of later directories are untouched by the work on directory i
        have hsame2 : ∀ m nm, i + 1 ≤ m → o2.get (.dir m nm) = o.get (.dir m nm) := by
          intro m nm hm
          rw [hget2]
          have hne : ∀ nm', Key.dir m nm ≠ Key.dir i nm' := by
            intro nm' h; injection h with h1 _; omega
          cases a with
          | none => exact hframe1 _ hne
          | some last =>
            simp only
            have : Key.dir m nm ∉ last := by
              intro hmem
              obtain ⟨nm', hnm'⟩ := ha last rfl _ hmem
              exact hne nm' hnm'
            simp only [this, false_and, if_false]
            exact hframe1 _ hne
        -- an output of directory i that survives is one of the current files
        have hcur : ∀ nm, o2.get (.dir i nm) ≠ none → Key.dir i nm ∈ d.map (fun f => Key.dir i f.name) := by
          intro nm hne
          rw [hget2] at hne
          cases a with
          | none =>
            simp only at hne
            rcases hwk _ hne with h1 | h1
            · rw [hw3a] at h1; exact h1
            · obtain ⟨l, hl', _⟩ := ht i nm (Nat.le_refl _) h1
              simp at hl'
          | some last =>
            simp only at hne
            by_cases hin : Key.dir i nm ∈ d.map (fun f => Key.dir i f.name)
            · exact hin
            · by_cases hl' : Key.dir i nm ∈ last
              · simp [hl', hin] at hne
              · simp only [hl', false_and, if_false] at hne
                rcases hwk _ hne with h1 | h1
                · rw [hw3a] at h1; exact h1
                · obtain ⟨l, hl2, hmem⟩ := ht i nm (Nat.le_refl _) h1
                  simp only [Nat.sub_self, List.getElem?_cons_zero, Option.some.injEq] at hl2
                  subst hl2
                  exact absurd hmem hl'
        obtain ⟨t1, t2, t3⟩ := ih (i + 1) rest o2 (hs ++ [hashFiles d]) (ch || (lastDirs[i]? != some (hashFiles d)))
          hkrest hrest (htrest o2 hsame2)
        obtain ⟨f1, _, _⟩ := passDirs_out c true env lastDirs ds (i + 1) rest o2 (hs ++ [hashFiles d])
          (ch || (lastDirs[i]? != some (hashFiles d))) hkrest
        refine ⟨?_, by simp [t2], ?_⟩
        · intro m nm hm hne
          by_cases hmi : m = i
          · subst hmi
            simp only [Nat.sub_self, List.getElem?_cons_zero, Option.some.injEq]
            refine ⟨_, rfl, ?_⟩
            rw [f1 _ (fun m' nm' h => by injection h with h1 _; omega)] at hne
            exact hcur nm hne
          · obtain ⟨l, hl', hmem⟩ := t1 m nm (by omega) hne
            have h1 : m - i = (m - (i + 1)) + 1 := by omega
            rw [h1]
            exact ⟨l, by simpa using hl', hmem⟩
        · intro herr k d' hk'
          cases k with
          | zero =>
            simp at hk'
            subst hk'
            simp
          | succ k =>
            simp at hk'
            have := t3 herr k d' hk'
            have h1 : i + (k + 1) = i + 1 + k := by omega
            simp only [List.getElem?_cons_succ, h1]
            exact this

end Thanos.Reloader
