import Thanos.Lemmas.DownsampleAggr
import Thanos.Lemmas.DownsampleRaw
/-
  Helper lemmas for C38: genericAggregate / downsampleFloatAggrBatch / the loop of
  downsampleAggrLoop on well-formed aggregate chunks.
-/
namespace Thanos.Downsample

/-- the samples downsampleBatch emits (nothing for the empty slice, which no caller passes) -/
def bOut (r : Int) (data : List Pt) : List (Int × Agg) :=
  match downsampleBatch data r with
  | some (o, _) => o
  | none => []

/-- `data`: timestamps above MinInt64, the last one the largest -/
structure BatchOK (data : List Pt) (t0 lastT : Int) : Prop where
  head : ∃ v0, data.head? = some (t0, v0)
  last : ∃ lv, data.getLast? = some (lastT, lv)
  bounds : ∀ p ∈ data, minInt64 < p.1 ∧ p.1 ≤ lastT

theorem bOut_eq (r : Int) (t0 v0 lastT : Int) (rest : List Pt) (h : BatchOK ((t0, v0) :: rest) t0 lastT) :
    bOut r ((t0, v0) :: rest) = batchEmit r lastT rest (min (currentWindow t0 r) lastT) (Agg.zero.reset.add v0) := by
  obtain ⟨lv, hl⟩ := h.last
  have ht0 := (h.bounds (t0, v0) (by simp)).1
  have hgt : t0 > minInt64 := ht0
  simp only [bOut, downsampleBatch, hl, batchEmit, hgt, if_true, ne_eq, not_true_eq_false, if_false, List.nil_append]

private theorem ok_facts {r : Int} (hr : 0 < r) {t0 v0 lastT : Int} {rest : List Pt} (h : BatchOK ((t0, v0) :: rest) t0 lastT) :
    minInt64 < lastT ∧ minInt64 < t0 ∧ min (currentWindow t0 r) lastT ≠ minInt64 ∧ t0 ≤ min (currentWindow t0 r) lastT ∧
      min (currentWindow t0 r) lastT ≤ lastT ∧ (∀ p ∈ rest, minInt64 < p.1 ∧ p.1 ≤ lastT) := by
  have ht0 := h.bounds (t0, v0) (by simp)
  simp only at ht0
  have hcw := currentWindow_ge (t := t0) hr
  refine ⟨by omega, ht0.1, min_cw_ne r lastT t0 hr (by omega) ht0.1, ?_, ?_, fun p hp => h.bounds p (List.mem_cons_of_mem _ hp)⟩
  · simp only [Int.min_def]; split <;> omega
  · simp only [Int.min_def]; split <;> omega

theorem bOut_sum (r : Int) (hr : 0 < r) (data : List Pt) (t0 lastT : Int) (h : BatchOK data t0 lastT) :
    ((bOut r data).map (fun e => e.2.sum)).sum = (data.map (·.2)).sum := by
  obtain ⟨v0, hh⟩ := h.head
  cases data with
  | nil => simp at hh
  | cons p rest =>
    simp only [List.head?_cons, Option.some.injEq] at hh; subst hh
    obtain ⟨hl0, ht0, hne, _, _, hb'⟩ := ok_facts hr h
    rw [bOut_eq r t0 v0 lastT rest h, batchEmit_sum r lastT hr hl0 rest _ _ (by simp [Agg.add]) hne (fun p hp => (hb' p hp).1)]
    simp [Agg.add, Agg.reset]

theorem bOut_min (r : Int) (hr : 0 < r) (data : List Pt) (t0 lastT : Int) (h : BatchOK data t0 lastT)
    (hf : ∀ p ∈ data, p.2 ≤ maxFloat) (M : Int) :
    ((bOut r data).map (fun e => e.2.min)).foldl min M = (data.map (·.2)).foldl min M := by
  obtain ⟨v0, hh⟩ := h.head
  cases data with
  | nil => simp at hh
  | cons p rest =>
    simp only [List.head?_cons, Option.some.injEq] at hh; subst hh
    obtain ⟨hl0, ht0, hne, _, _, hb'⟩ := ok_facts hr h
    rw [bOut_eq r t0 v0 lastT rest h, batchEmit_min r lastT hr hl0 rest _ _ M (by simp [Agg.add]) hne
      (fun p hp => (hb' p hp).1) (fun p hp => hf p (List.mem_cons_of_mem _ hp))]
    simp only [List.map_cons, List.foldl_cons]
    congr 2
    simp only [Agg.add, Agg.reset]
    have := hf (t0, v0) (by simp)
    simp only at this
    by_cases hv : v0 < maxFloat
    · simp [hv]
    · simp only [hv, if_false]; omega

theorem bOut_max (r : Int) (hr : 0 < r) (data : List Pt) (t0 lastT : Int) (h : BatchOK data t0 lastT)
    (hf : ∀ p ∈ data, -maxFloat ≤ p.2) (M : Int) :
    ((bOut r data).map (fun e => e.2.max)).foldl max M = (data.map (·.2)).foldl max M := by
  obtain ⟨v0, hh⟩ := h.head
  cases data with
  | nil => simp at hh
  | cons p rest =>
    simp only [List.head?_cons, Option.some.injEq] at hh; subst hh
    obtain ⟨hl0, ht0, hne, _, _, hb'⟩ := ok_facts hr h
    rw [bOut_eq r t0 v0 lastT rest h, batchEmit_max r lastT hr hl0 rest _ _ M (by simp [Agg.add]) hne
      (fun p hp => (hb' p hp).1) (fun p hp => hf p (List.mem_cons_of_mem _ hp))]
    simp only [List.map_cons, List.foldl_cons]
    congr 2
    simp only [Agg.add, Agg.reset]
    have := hf (t0, v0) (by simp)
    simp only at this
    by_cases hv : v0 > -maxFloat
    · simp [hv]
    · simp only [hv, if_false]; omega

/-- emitted timestamps: non-empty, strictly increasing, inside [first, last] input timestamp,
    ending at the last input timestamp -/
theorem bOut_ts (r : Int) (hr : 0 < r) (data : List Pt) (t0 lastT : Int) (h : BatchOK data t0 lastT) :
    (bOut r data).map (·.1) ≠ [] ∧ ((bOut r data).map (·.1)).Pairwise (· < ·) ∧
      (∀ t ∈ (bOut r data).map (·.1), t0 ≤ t ∧ t ≤ lastT) := by
  obtain ⟨v0, hh⟩ := h.head
  cases data with
  | nil => simp at hh
  | cons p rest =>
    simp only [List.head?_cons, Option.some.injEq] at hh; subst hh
    obtain ⟨hl0, ht0, hne, hlo, hhi, hb'⟩ := ok_facts hr h
    rw [bOut_eq r t0 v0 lastT rest h]
    have ha : 0 < (Agg.zero.reset.add v0).total := by simp [Agg.add]
    have hts := batchEmit_ts r lastT hr rest _ _ ha (by omega) hhi hb'
    refine ⟨?_, hts.1, fun t ht => ?_⟩
    · intro hc
      exact batchEmit_ne_nil' r lastT rest _ _ ha (List.map_eq_nil_iff.mp hc)
    · have := hts.2 t ht; omega

/-- the emitted timestamps depend on the timestamps of the input only -/
theorem batchEmit_ts_congr (r lastT : Int) : ∀ (d1 d2 : List Pt) (nextT : Int) (a1 a2 : Agg),
    d1.map (·.1) = d2.map (·.1) → (0 < a1.total ↔ 0 < a2.total) →
    (batchEmit r lastT d1 nextT a1).map (·.1) = (batchEmit r lastT d2 nextT a2).map (·.1) := by
  intro d1
  induction d1 with
  | nil =>
    intro d2 nextT a1 a2 h ha
    cases d2 with
    | nil =>
      simp only [batchEmit]
      by_cases h1 : 0 < a1.total
      · simp [h1, ha.mp h1]
      · have : ¬ 0 < a2.total := fun h2 => h1 (ha.mpr h2)
        simp [h1, this]
    | cons _ _ => simp at h
  | cons p d1 ih =>
    intro d2 nextT a1 a2 h ha
    cases d2 with
    | nil => simp at h
    | cons q d2 =>
      obtain ⟨t, v⟩ := p
      obtain ⟨t', v'⟩ := q
      simp only [List.map_cons, List.cons.injEq] at h
      obtain ⟨rfl, h'⟩ := h
      simp only [batchEmit]
      split
      · simp only [List.map_append]
        rw [ih d2 _ (a1.reset.add v) (a2.reset.add v') h' (by simp [Agg.add])]
        congr 1
        split <;> simp
      · exact ih d2 _ (a1.add v) (a2.add v') h' (by simp [Agg.add])

theorem bOut_ts_congr (r : Int) (d1 d2 : List Pt) (h : d1.map (·.1) = d2.map (·.1)) :
    (bOut r d1).map (·.1) = (bOut r d2).map (·.1) := by
  cases d1 with
  | nil =>
    cases d2 with
    | nil => rfl
    | cons _ _ => simp at h
  | cons p d1 =>
    cases d2 with
    | nil => simp at h
    | cons q d2 =>
      have hl : ((p :: d1).getLast?).map (·.1) = ((q :: d2).getLast?).map (·.1) := by
        rw [← List.getLast?_map, ← List.getLast?_map, h]
      cases h1 : (p :: d1).getLast? with
      | none => simp at h1
      | some l1 =>
        cases h2 : (q :: d2).getLast? with
        | none => simp at h2
        | some l2 =>
          rw [h1, h2] at hl
          simp only [Option.map_some, Option.some.injEq] at hl
          simp only [bOut, downsampleBatch, h1, h2, hl]
          exact batchEmit_ts_congr r l2.1 _ _ _ _ _ h (by simp)

/-! ### well-formed aggregate chunks -/

theorem expandXor_id : ∀ (l : List Pt) (lastT : Int), Sorted l → (∀ p ∈ l, lastT ≤ p.1) → expandXor l lastT = l
  | [], _, _, _ => rfl
  | (t, v) :: rest, lastT, hs, hb => by
    have ht : t ≥ lastT := hb (t, v) (by simp)
    have hs' := List.pairwise_cons.mp hs
    simp only [expandXor, ht, if_true]
    rw [expandXor_id rest t hs'.2 (fun p hp => Int.le_of_lt (hs'.1 p hp))]

structure WFChunk (c : Chunk) : Prop where
  ne : c.count ≠ []
  sumT : c.sum.map (·.1) = c.count.map (·.1)
  minT : c.min.map (·.1) = c.count.map (·.1)
  maxT : c.max.map (·.1) = c.count.map (·.1)
  minFin : ∀ p ∈ c.min, p.2 ≤ maxFloat
  maxFin : ∀ p ∈ c.max, -maxFloat ≤ p.2

/-- aggregate chunks as DownsampleRaw produces them: per chunk the four aggregates share their
    timestamps; over the series the timestamps strictly increase, are ≥ 0 and below MaxInt64 -/
structure WFChunks (chks : List Chunk) : Prop where
  each : ∀ c ∈ chks, WFChunk c
  sorted : ((chks.flatMap (·.count)).map (·.1)).Pairwise (· < ·)
  range : ∀ t ∈ (chks.flatMap (·.count)).map (·.1), 0 ≤ t ∧ t < maxInt64

theorem flatMap_ts_eq (sel : Chunk → List Pt) : ∀ (part : List Chunk),
    (∀ c ∈ part, (sel c).map (·.1) = c.count.map (·.1)) →
    (part.flatMap sel).map (·.1) = (part.flatMap (·.count)).map (·.1)
  | [], _ => rfl
  | c :: cs, h => by
    simp only [List.flatMap_cons, List.map_append, h c (by simp),
      flatMap_ts_eq sel cs (fun c' hc' => h c' (List.mem_cons_of_mem _ hc'))]

theorem WFChunks.append {a b : List Chunk} (h : WFChunks (a ++ b)) : WFChunks a ∧ WFChunks b ∧
    ∀ t1 ∈ (a.flatMap (·.count)).map (·.1), ∀ t2 ∈ (b.flatMap (·.count)).map (·.1), t1 < t2 := by
  have hs := h.sorted
  simp only [List.flatMap_append, List.map_append] at hs
  have hp := List.pairwise_append.mp hs
  refine ⟨⟨fun c hc => h.each c (List.mem_append_left _ hc), hp.1, fun t ht => h.range t ?_⟩,
    ⟨fun c hc => h.each c (List.mem_append_right _ hc), hp.2.1, fun t ht => h.range t ?_⟩, hp.2.2⟩
  · simp only [List.flatMap_append, List.map_append]; exact List.mem_append_left _ ht
  · simp only [List.flatMap_append, List.map_append]; exact List.mem_append_right _ ht

/-- a sorted, non-empty buffer with timestamps ≥ 0 meets `BatchOK` -/
theorem batchOK_of_sorted (buf : List Pt) (hne : buf ≠ []) (hs : (buf.map (·.1)).Pairwise (· < ·))
    (h0 : ∀ t ∈ buf.map (·.1), 0 ≤ t) :
    ∃ t0 lastT, BatchOK buf t0 lastT ∧ buf.head?.map (·.1) = some t0 ∧ buf.getLast?.map (·.1) = some lastT := by
  cases buf with
  | nil => exact absurd rfl hne
  | cons p rest =>
    cases hl : (p :: rest).getLast? with
    | none => simp at hl
    | some l =>
      refine ⟨p.1, l.1, ⟨⟨p.2, rfl⟩, ⟨l.2, hl⟩, ?_⟩, rfl, by simp⟩
      intro q hq
      refine ⟨by have := h0 q.1 (List.mem_map.mpr ⟨q, hq, rfl⟩); have := minInt64_val; omega, ?_⟩
      obtain ⟨ys, hys⟩ := List.getLast?_eq_some_iff.mp hl
      rw [hys] at hq hs
      rw [List.map_append, List.pairwise_append] at hs
      rcases List.mem_append.mp hq with h | h
      · exact Int.le_of_lt (hs.2.2 q.1 (List.mem_map.mpr ⟨q, h, rfl⟩) l.1 (by simp))
      · simp at h; rw [h]; exact Int.le_refl _

/-! ### genericAggregate -/

theorem genericAggregate_eq (sel : Chunk → List Pt) (f : Agg → Int) (part : List Chunk) (r : Int)
    (hne : part.flatMap (fun c => expandXor (sel c) 0) ≠ []) :
    genericAggregate sel f part r =
      (foldMint ((bOut r (part.flatMap fun c => expandXor (sel c) 0)).map (·.1)) maxInt64,
       foldMaxt ((bOut r (part.flatMap fun c => expandXor (sel c) 0)).map (·.1)) minInt64,
       (bOut r (part.flatMap fun c => expandXor (sel c) 0)).map fun e => (e.1, f e.2)) := by
  generalize hbuf : (part.flatMap fun c => expandXor (sel c) 0) = buf at *
  cases hl : buf.getLast? with
  | none => exact absurd (List.getLast?_eq_none_iff.mp hl) hne
  | some l => simp only [genericAggregate, hbuf, bOut, downsampleBatch, hl]

theorem flatMap_congr' {α β : Type} (f g : α → List β) : ∀ (l : List α), (∀ a ∈ l, f a = g a) →
    l.flatMap f = l.flatMap g
  | [], _ => rfl
  | a :: l, h => by
    simp only [List.flatMap_cons, h a (by simp), flatMap_congr' f g l (fun b hb => h b (List.mem_cons_of_mem _ hb))]

/-- in a well-formed part nothing is skipped by expandXorChunkIterator -/
theorem expand_part (sel : Chunk → List Pt) (part : List Chunk)
    (hsel : ∀ c ∈ part, (sel c).map (·.1) = c.count.map (·.1)) (hwf : WFChunks part) :
    (part.flatMap fun c => expandXor (sel c) 0) = part.flatMap sel := by
  have : ∀ c ∈ part, expandXor (sel c) 0 = sel c := by
    intro c hc
    have hts : (sel c).map (·.1) = c.count.map (·.1) := hsel c hc
    -- the timestamps of c.count are a contiguous piece of the part's timestamps
    have hsub : ∀ t ∈ c.count.map (·.1), t ∈ (part.flatMap (·.count)).map (·.1) := by
      intro t ht
      obtain ⟨p, hp, rfl⟩ := List.mem_map.mp ht
      exact List.mem_map.mpr ⟨p, List.mem_flatMap.mpr ⟨c, hc, hp⟩, rfl⟩
    have hsorted : (c.count.map (·.1)).Pairwise (· < ·) := by
      have := hwf.sorted
      obtain ⟨l1, l2, hsplit⟩ := List.append_of_mem hc
      rw [hsplit] at this
      simp only [List.flatMap_append, List.flatMap_cons, List.map_append] at this
      exact (List.pairwise_append.mp (List.pairwise_append.mp this).2.1).1
    apply expandXor_id
    · unfold Sorted
      rw [← hts] at hsorted
      exact List.pairwise_map.mp hsorted
    · intro p hp
      have : p.1 ∈ (sel c).map (·.1) := List.mem_map.mpr ⟨p, hp, rfl⟩
      rw [hts] at this
      exact (hwf.range p.1 (hsub p.1 this)).1
  exact flatMap_congr' _ _ _ this

/-! ### downsampleFloatAggrBatch -/

theorem lower_le_left (a b : Int) : lower a b ≤ a := by unfold lower; split <;> omega
theorem lower_le_right (a b : Int) : lower a b ≤ b := by unfold lower; split <;> omega
theorem upper_ge_left (a b : Int) : a ≤ upper a b := by unfold upper; split <;> omega
theorem upper_ge_right (a b : Int) : b ≤ upper a b := by unfold upper; split <;> omega

theorem foldMaxt_ge_init : ∀ (ts : List Int) (m : Int), m ≤ foldMaxt ts m := by
  intro ts
  induction ts with
  | nil => intro m; simp [foldMaxt]
  | cons t ts ih =>
    intro m
    simp only [foldMaxt, List.foldl_cons] at ih ⊢
    split
    · have := ih t; omega
    · exact ih m

/-- the four plain aggregates of the output chunk are what genericAggregate returns; the range
    is at least as wide as the count aggregate's -/
theorem floatAggrBatch_fields (part : List Chunk) (r : Int) :
    (floatAggrBatch part r).count = (genericAggregate (·.count) (·.sum) part r).2.2 ∧
    (floatAggrBatch part r).sum = (genericAggregate (·.sum) (·.sum) part r).2.2 ∧
    (floatAggrBatch part r).min = (genericAggregate (·.min) (·.min) part r).2.2 ∧
    (floatAggrBatch part r).max = (genericAggregate (·.max) (·.max) part r).2.2 ∧
    (floatAggrBatch part r).mint ≤ (genericAggregate (·.count) (·.sum) part r).1 ∧
    (genericAggregate (·.count) (·.sum) part r).2.1 ≤ (floatAggrBatch part r).maxt := by
  unfold floatAggrBatch
  rcases h1 : genericAggregate (·.count) (·.sum) part r with ⟨m1, x1, cnt⟩
  rcases h2 : genericAggregate (·.sum) (·.sum) part r with ⟨m2, x2, sm⟩
  rcases h3 : genericAggregate (·.min) (·.min) part r with ⟨m3, x3, mn⟩
  rcases h4 : genericAggregate (·.max) (·.max) part r with ⟨m4, x4, mx⟩
  simp only
  have hm : lower m4 (lower m3 (lower m2 (lower m1 maxInt64))) ≤ m1 :=
    Int.le_trans (lower_le_right _ _) (Int.le_trans (lower_le_right _ _) (Int.le_trans (lower_le_right _ _) (lower_le_left _ _)))
  have hx : x1 ≤ upper x4 (upper x3 (upper x2 (upper x1 minInt64))) :=
    Int.le_trans (upper_ge_left _ _) (Int.le_trans (upper_ge_right _ _) (Int.le_trans (upper_ge_right _ _) (upper_ge_right _ _)))
  split
  · refine ⟨rfl, rfl, rfl, rfl, ?_, ?_⟩
    · exact Int.le_trans (foldMint_le_init _ _) hm
    · exact Int.le_trans hx (foldMaxt_ge_init _ _)
  · exact ⟨rfl, rfl, rfl, rfl, hm, hx⟩

/-! ### one output chunk -/

def vals (l : List Pt) : List Int := l.map (·.2)
def tss (l : List Pt) : List Int := l.map (·.1)

/-- what the re-downsampling of `inp` into `out` conserves -/
structure AggrConserves (inp out : List Chunk) : Prop where
  count : (vals (out.flatMap (·.count))).sum = (vals (inp.flatMap (·.count))).sum
  sum : (vals (out.flatMap (·.sum))).sum = (vals (inp.flatMap (·.sum))).sum
  min : ∀ M, (vals (out.flatMap (·.min))).foldl min M = (vals (inp.flatMap (·.min))).foldl min M
  max : ∀ M, (vals (out.flatMap (·.max))).foldl max M = (vals (inp.flatMap (·.max))).foldl max M
  tsEq : ∀ c ∈ out, tss c.sum = tss c.count ∧ tss c.min = tss c.count ∧ tss c.max = tss c.count ∧ c.count ≠ []
  tsSorted : (tss (out.flatMap (·.count))).Pairwise (· < ·)
  tsSpan : ∀ t ∈ tss (out.flatMap (·.count)), ∃ lo ∈ tss (inp.flatMap (·.count)), ∃ hi ∈ tss (inp.flatMap (·.count)), lo ≤ t ∧ t ≤ hi

theorem foldMint_cons_le (t : Int) (ts : List Int) (m : Int) : foldMint (t :: ts) m ≤ t := by
  have h : foldMint (t :: ts) m = foldMint ts (if t < m then t else m) := by simp [foldMint]
  rw [h]
  by_cases hc : t < m
  · simp only [hc, if_true]; exact foldMint_le_init ts t
  · simp only [hc, if_false]; have := foldMint_le_init ts m; omega

theorem foldMaxt_cons_ge (t : Int) (ts : List Int) (m : Int) : t ≤ foldMaxt (t :: ts) m := by
  have h : foldMaxt (t :: ts) m = foldMaxt ts (if t > m then t else m) := by simp [foldMaxt]
  rw [h]
  by_cases hc : t > m
  · simp only [hc, if_true]; exact foldMaxt_ge_init ts t
  · simp only [hc, if_false]; have := foldMaxt_ge_init ts m; omega

/-- **one output chunk**: downsampleFloatAggrBatch of a non-empty well-formed part conserves the
    part's totals, gives the four aggregates the same strictly increasing timestamps inside the
    part's time span, and passes the range test of the loop -/
theorem part_conserves (r : Int) (hr : 0 < r) (part : List Chunk) (hne : part ≠ []) (hwf : WFChunks part) :
    AggrConserves part [floatAggrBatch part r] ∧
    (floatAggrBatch part r).mint ≠ maxInt64 ∧ (floatAggrBatch part r).maxt ≠ minInt64 := by
  obtain ⟨f1, f2, f3, f4, f5, f6⟩ := floatAggrBatch_fields part r
  -- the four buffers
  have hsel : ∀ (sel : Chunk → List Pt), (∀ c ∈ part, (sel c).map (·.1) = c.count.map (·.1)) →
      (part.flatMap fun c => expandXor (sel c) 0) = part.flatMap sel ∧
      (part.flatMap sel).map (·.1) = (part.flatMap (·.count)).map (·.1) :=
    fun sel h => ⟨expand_part sel part h hwf, flatMap_ts_eq sel part h⟩
  obtain ⟨eC, _⟩ := hsel (·.count) (fun _ _ => rfl)
  obtain ⟨eS, tS⟩ := hsel (·.sum) (fun c hc => (hwf.each c hc).sumT)
  obtain ⟨eN, tN⟩ := hsel (·.min) (fun c hc => (hwf.each c hc).minT)
  obtain ⟨eX, tX⟩ := hsel (·.max) (fun c hc => (hwf.each c hc).maxT)
  -- the count buffer is non-empty, sorted, ≥ 0
  have hbufne : part.flatMap (·.count) ≠ [] := by
    cases part with
    | nil => exact absurd rfl hne
    | cons c cs =>
      have := (hwf.each c (by simp)).ne
      simp only [List.flatMap_cons]
      intro h
      exact this (List.append_eq_nil_iff.mp h).1
  have hne_of : ∀ (sel : Chunk → List Pt), (part.flatMap sel).map (·.1) = (part.flatMap (·.count)).map (·.1) →
      part.flatMap sel ≠ [] := by
    intro sel h hc
    rw [hc] at h
    simp only [List.map_nil] at h
    exact hbufne (List.map_eq_nil_iff.mp h.symm)
  have hok : ∀ (buf : List Pt), buf.map (·.1) = (part.flatMap (·.count)).map (·.1) → buf ≠ [] →
      ∃ t0 lastT, BatchOK buf t0 lastT ∧ (part.flatMap (·.count)).head?.map (·.1) = some t0 ∧
        (part.flatMap (·.count)).getLast?.map (·.1) = some lastT := by
    intro buf h hb
    obtain ⟨t0, lastT, ok, hh, hl⟩ := batchOK_of_sorted buf hb (h ▸ hwf.sorted) (fun t ht => (hwf.range t (h ▸ ht)).1)
    refine ⟨t0, lastT, ok, ?_, ?_⟩
    · rw [← List.head?_map, ← h, List.head?_map]; exact hh
    · rw [← List.getLast?_map, ← h, List.getLast?_map]; exact hl
  obtain ⟨t0, lastT, okC, hhC, hlC⟩ := hok _ rfl hbufne
  obtain ⟨t0S, lastTS, okS, hhS, hlS⟩ := hok _ tS (hne_of _ tS)
  obtain ⟨t0N, lastTN, okN, hhN, hlN⟩ := hok _ tN (hne_of _ tN)
  obtain ⟨t0X, lastTX, okX, hhX, hlX⟩ := hok _ tX (hne_of _ tX)
  -- genericAggregate on the four
  have gC := genericAggregate_eq (·.count) (·.sum) part r (by rw [eC]; exact hbufne)
  have gS := genericAggregate_eq (·.sum) (·.sum) part r (by rw [eS]; exact hne_of _ tS)
  have gN := genericAggregate_eq (·.min) (·.min) part r (by rw [eN]; exact hne_of _ tN)
  have gX := genericAggregate_eq (·.max) (·.max) part r (by rw [eX]; exact hne_of _ tX)
  rw [eC] at gC; rw [eS] at gS; rw [eN] at gN; rw [eX] at gX
  rw [gC] at f1 f5 f6; rw [gS] at f2; rw [gN] at f3; rw [gX] at f4
  simp only at f1 f2 f3 f4 f5 f6
  have tsC : tss (floatAggrBatch part r).count = (bOut r (part.flatMap (·.count))).map (·.1) := by
    rw [f1]; simp [tss, List.map_map, Function.comp_def]
  obtain ⟨hts1, hts2, hts3⟩ := bOut_ts r hr _ t0 lastT okC
  refine ⟨⟨?_, ?_, ?_, ?_, ?_, ?_, ?_⟩, ?_, ?_⟩
  · simp only [List.flatMap_cons, List.flatMap_nil, List.append_nil, f1, vals, List.map_map, Function.comp_def]
    exact bOut_sum r hr _ t0 lastT okC
  · simp only [List.flatMap_cons, List.flatMap_nil, List.append_nil, f2, vals, List.map_map, Function.comp_def]
    exact bOut_sum r hr _ t0S lastTS okS
  · intro M
    simp only [List.flatMap_cons, List.flatMap_nil, List.append_nil, f3, vals, List.map_map, Function.comp_def]
    refine bOut_min r hr _ t0N lastTN okN ?_ M
    intro p hp
    obtain ⟨c, hc, hpc⟩ := List.mem_flatMap.mp hp
    exact (hwf.each c hc).minFin p hpc
  · intro M
    simp only [List.flatMap_cons, List.flatMap_nil, List.append_nil, f4, vals, List.map_map, Function.comp_def]
    refine bOut_max r hr _ t0X lastTX okX ?_ M
    intro p hp
    obtain ⟨c, hc, hpc⟩ := List.mem_flatMap.mp hp
    exact (hwf.each c hc).maxFin p hpc
  · intro c hc
    simp only [List.mem_singleton] at hc
    subst hc
    refine ⟨?_, ?_, ?_, ?_⟩
    · rw [tsC, f2]; simp only [tss, List.map_map, Function.comp_def]; exact bOut_ts_congr r _ _ tS
    · rw [tsC, f3]; simp only [tss, List.map_map, Function.comp_def]; exact bOut_ts_congr r _ _ tN
    · rw [tsC, f4]; simp only [tss, List.map_map, Function.comp_def]; exact bOut_ts_congr r _ _ tX
    · intro h
      rw [h] at tsC
      exact hts1 tsC.symm
  · simp only [List.flatMap_cons, List.flatMap_nil, List.append_nil, tsC]
    exact hts2
  · intro t ht
    simp only [List.flatMap_cons, List.flatMap_nil, List.append_nil, tsC] at ht
    have hb := hts3 t ht
    refine ⟨t0, ?_, lastT, ?_, hb.1, hb.2⟩
    · have : t0 ∈ ((part.flatMap (·.count)).head?.map (·.1)) := by rw [hhC]; rfl
      rw [← List.head?_map] at this
      exact List.mem_of_mem_head? this
    · have : some lastT = ((part.flatMap (·.count)).map (·.1)).getLast? := by rw [List.getLast?_map, hlC]
      exact List.mem_of_getLast? this.symm
  · -- mint ≤ first timestamp ≤ last timestamp < MaxInt64
    cases hb : (bOut r (part.flatMap (·.count))).map (·.1) with
    | nil => exact absurd hb hts1
    | cons u us =>
      rw [hb] at f5
      have h1 := foldMint_cons_le u us maxInt64
      have h2 := (hts3 u (by rw [hb]; simp)).2
      have h3 : lastT < maxInt64 := by
        have : some lastT = ((part.flatMap (·.count)).map (·.1)).getLast? := by rw [List.getLast?_map, hlC]
        exact (hwf.range lastT (List.mem_of_getLast? this.symm)).2
      omega
  · cases hb : (bOut r (part.flatMap (·.count))).map (·.1) with
    | nil => exact absurd hb hts1
    | cons u us =>
      rw [hb] at f6
      have h1 := foldMaxt_cons_ge u us minInt64
      have h2 := (hts3 u (by rw [hb]; simp)).1
      have h3 := (okC.bounds)
      have h4 : minInt64 < t0 := by
        obtain ⟨v0, hv0⟩ := okC.head
        exact (okC.bounds _ (List.mem_of_mem_head? (by rw [hv0]; rfl))).1
      omega

/-! ### the loop -/

theorem AggrConserves.nil : AggrConserves [] [] :=
  ⟨rfl, rfl, fun _ => rfl, fun _ => rfl, fun _ h => by simp at h, List.Pairwise.nil, fun _ h => by simp [tss] at h⟩

theorem AggrConserves.append {a b : List Chunk} {c : Chunk} {out : List Chunk}
    (h1 : AggrConserves a [c]) (h2 : AggrConserves b out)
    (hlt : ∀ t1 ∈ tss (a.flatMap (·.count)), ∀ t2 ∈ tss (b.flatMap (·.count)), t1 < t2) :
    AggrConserves (a ++ b) (c :: out) := by
  have e1 := h1.count; have e2 := h1.sum; have e3 := h1.min; have e4 := h1.max
  simp only [List.flatMap_cons, List.flatMap_nil, List.append_nil] at e1 e2 e3 e4
  refine ⟨?_, ?_, ?_, ?_, ?_, ?_, ?_⟩
  · have c2 := h2.count
    simp only [List.flatMap_cons, List.flatMap_append, vals, List.map_append, List.sum_append] at e1 c2 ⊢
    rw [e1, c2]
  · have c2 := h2.sum
    simp only [List.flatMap_cons, List.flatMap_append, vals, List.map_append, List.sum_append] at e2 c2 ⊢
    rw [e2, c2]
  · intro M
    have c2 := h2.min
    simp only [List.flatMap_cons, List.flatMap_append, vals, List.map_append, List.foldl_append] at e3 c2 ⊢
    rw [e3 M, c2]
  · intro M
    have c2 := h2.max
    simp only [List.flatMap_cons, List.flatMap_append, vals, List.map_append, List.foldl_append] at e4 c2 ⊢
    rw [e4 M, c2]
  · intro c' hc'
    rcases List.mem_cons.mp hc' with h | h
    · exact h1.tsEq c' (by simp [h])
    · exact h2.tsEq c' h
  · have s1 := h1.tsSorted
    simp only [List.flatMap_cons, List.flatMap_nil, List.append_nil] at s1
    simp only [List.flatMap_cons, tss, List.map_append]
    refine List.pairwise_append.mpr ⟨s1, h2.tsSorted, ?_⟩
    intro t1 ht1 t2 ht2
    obtain ⟨_, _, hi, hhi, _, hle⟩ := h1.tsSpan t1 (by simpa [tss] using ht1)
    obtain ⟨lo, hlo, _, _, hge, _⟩ := h2.tsSpan t2 ht2
    have := hlt hi hhi lo hlo
    omega
  · intro t ht
    simp only [List.flatMap_cons, tss, List.map_append, List.mem_append] at ht
    simp only [List.flatMap_append, tss, List.map_append, List.mem_append]
    rcases ht with h | h
    · obtain ⟨lo, hlo, hi, hhi, hb⟩ := h1.tsSpan t (by simpa [tss] using h)
      exact ⟨lo, Or.inl hlo, hi, Or.inl hhi, hb⟩
    · obtain ⟨lo, hlo, hi, hhi, hb⟩ := h2.tsSpan t h
      exact ⟨lo, Or.inr hlo, hi, Or.inr hhi, hb⟩

/-- **the loop of downsampleAggrLoop conserves the totals** of well-formed chunks, for every
    batch size ≥ 1 (i.e. every numChunks once batchSize is kept positive) -/
theorem aggrLoop_conserves (r : Int) (hr : 0 < r) (bs : Nat) (hbs : 1 ≤ bs) : ∀ (fuel : Nat) (chks : List Chunk),
    chks.length ≤ fuel → WFChunks chks → ∃ out, aggrLoop r bs fuel chks = .ok out ∧ AggrConserves chks out := by
  intro fuel
  induction fuel with
  | zero =>
    intro chks h _
    cases chks with
    | nil => exact ⟨[], rfl, AggrConserves.nil⟩
    | cons _ _ => simp at h
  | succ fuel ih =>
    intro chks h hwf
    cases chks with
    | nil => exact ⟨[], rfl, AggrConserves.nil⟩
    | cons c cs =>
      have hj : 1 ≤ min bs (c :: cs).length := by simp only [List.length_cons]; omega
      simp only [aggrLoop]
      generalize min bs (c :: cs).length = j at *
      have hsplit : (c :: cs).take j ++ (c :: cs).drop j = c :: cs := List.take_append_drop j _
      have hpne : (c :: cs).take j ≠ [] := by
        intro hc
        have := congrArg List.length hc
        simp only [List.length_take, List.length_cons, List.length_nil] at this h
        omega
      rw [← hsplit] at hwf
      obtain ⟨w1, w2, hlt⟩ := hwf.append
      obtain ⟨pc, pm, px⟩ := part_conserves r hr _ hpne w1
      have hlen : ((c :: cs).drop j).length ≤ fuel := by
        simp only [List.length_drop, List.length_cons] at h ⊢; omega
      obtain ⟨out, ho, hcons⟩ := ih _ hlen w2
      have hno : ¬ ((floatAggrBatch ((c :: cs).take j) r).mint = maxInt64 ∨ (floatAggrBatch ((c :: cs).take j) r).maxt = minInt64) := by
        intro hc; rcases hc with hc | hc
        · exact pm hc
        · exact px hc
      simp only [hno, if_false, ho]
      refine ⟨_, rfl, ?_⟩
      have := AggrConserves.append pc hcons hlt
      rwa [hsplit] at this

/-! ### from `foldl min` to `min?` -/

theorem foldl_min_le_init : ∀ (l : List Int) (M : Int), l.foldl min M ≤ M
  | [], _ => Int.le_refl _
  | x :: xs, M => by
    simp only [List.foldl_cons]
    have := foldl_min_le_init xs (min M x)
    have : min M x ≤ M := by simp only [Int.min_def]; split <;> omega
    omega

theorem foldl_max_ge_init : ∀ (l : List Int) (M : Int), M ≤ l.foldl max M
  | [], _ => Int.le_refl _
  | x :: xs, M => by
    simp only [List.foldl_cons]
    have := foldl_max_ge_init xs (max M x)
    have : M ≤ max M x := by simp only [Int.max_def]; split <;> omega
    omega

theorem min?_eq_of_foldl_all (l1 l2 : List Int) (h : ∀ M, l1.foldl min M = l2.foldl min M) : l1.min? = l2.min? := by
  cases l1 with
  | nil =>
    cases l2 with
    | nil => rfl
    | cons y ys =>
      have := h (y + 1)
      simp only [List.foldl_nil, List.foldl_cons] at this
      have h1 := foldl_min_le_init ys (min (y + 1) y)
      have h2 : min (y + 1) y ≤ y := by simp only [Int.min_def]; split <;> omega
      omega
  | cons x xs =>
    cases l2 with
    | nil =>
      have := h (x + 1)
      simp only [List.foldl_nil, List.foldl_cons] at this
      have h1 := foldl_min_le_init xs (min (x + 1) x)
      have h2 : min (x + 1) x ≤ x := by simp only [Int.min_def]; split <;> omega
      omega
    | cons y ys => exact min?_eq_of_foldl _ _ (by simp) (by simp) h

theorem max?_eq_of_foldl_all (l1 l2 : List Int) (h : ∀ M, l1.foldl max M = l2.foldl max M) : l1.max? = l2.max? := by
  cases l1 with
  | nil =>
    cases l2 with
    | nil => rfl
    | cons y ys =>
      have := h (y - 1)
      simp only [List.foldl_nil, List.foldl_cons] at this
      have h1 := foldl_max_ge_init ys (max (y - 1) y)
      have h2 : y ≤ max (y - 1) y := by simp only [Int.max_def]; split <;> omega
      omega
  | cons x xs =>
    cases l2 with
    | nil =>
      have := h (x - 1)
      simp only [List.foldl_nil, List.foldl_cons] at this
      have h1 := foldl_max_ge_init xs (max (x - 1) x)
      have h2 : x ≤ max (x - 1) x := by simp only [Int.max_def]; split <;> omega
      omega
    | cons y ys => exact max?_eq_of_foldl _ _ (by simp) (by simp) h

/-- the least of the per-group minima is the minimum of the concatenation -/
theorem foldl_min_groups : ∀ (gs : List (Int × List Pt)) (l : List Int) (M : Int),
    l.map some = gs.map (fun g => (g.2.map (·.2)).min?) →
    l.foldl min M = ((gs.flatMap (·.2)).map (·.2)).foldl min M
  | [], [], _, _ => rfl
  | [], _ :: _, _, h => by simp at h
  | _ :: _, [], _, h => by simp at h
  | g :: gs, m :: l, M, h => by
    simp only [List.map_cons, List.cons.injEq] at h
    simp only [List.foldl_cons, List.flatMap_cons, List.map_append, List.foldl_append]
    rw [foldl_min_groups gs l (min M m) h.2]
    congr 1
    cases hv : g.2.map (·.2) with
    | nil => rw [hv] at h; simp at h
    | cons x xs =>
      rw [hv, List.min?_cons'] at h
      simp only [Option.some.injEq] at h
      rw [List.foldl_cons, foldl_min_out, h.1]

theorem foldl_max_groups : ∀ (gs : List (Int × List Pt)) (l : List Int) (M : Int),
    l.map some = gs.map (fun g => (g.2.map (·.2)).max?) →
    l.foldl max M = ((gs.flatMap (·.2)).map (·.2)).foldl max M
  | [], [], _, _ => rfl
  | [], _ :: _, _, h => by simp at h
  | _ :: _, [], _, h => by simp at h
  | g :: gs, m :: l, M, h => by
    simp only [List.map_cons, List.cons.injEq] at h
    simp only [List.foldl_cons, List.flatMap_cons, List.map_append, List.foldl_append]
    rw [foldl_max_groups gs l (max M m) h.2]
    congr 1
    cases hv : g.2.map (·.2) with
    | nil => rw [hv] at h; simp at h
    | cons x xs =>
      rw [hv, List.max?_cons'] at h
      simp only [Option.some.injEq] at h
      rw [List.foldl_cons, foldl_max_out, h.1]

end Thanos.Downsample
