import Thanos.Lemmas.Downsample
/-
  Helper lemmas for C38: what `downsampleBatch` conserves, for any data with timestamps ≥ 0
  (no ordering needed for the totals), and where its emitted timestamps lie.
-/
namespace Thanos.Downsample

theorem min_cw_ne (r lastT t : Int) (hr : 0 < r) (hl : minInt64 < lastT) (ht : minInt64 < t) :
    min (currentWindow t r) lastT ≠ minInt64 := by
  have := currentWindow_ge (t := t) hr
  simp only [Int.min_def]; split <;> omega

/-- Σ of the emitted window sums = the running window's sum + Σ of the remaining values -/
theorem batchEmit_sum (r lastT : Int) (hr : 0 < r) (hl : minInt64 < lastT) :
    ∀ (data : List Pt) (nextT : Int) (a : Agg), 0 < a.total → nextT ≠ minInt64 → (∀ p ∈ data, minInt64 < p.1) →
      ((batchEmit r lastT data nextT a).map (fun e => e.2.sum)).sum = a.sum + (data.map (·.2)).sum := by
  intro data
  induction data with
  | nil => intro nextT a ha _ _; simp [batchEmit, ha]
  | cons p rest ih =>
    intro nextT a ha hn h0
    obtain ⟨t, v⟩ := p
    have ht : minInt64 < t := h0 (t, v) (by simp)
    have h0' : ∀ p ∈ rest, minInt64 < p.1 := fun p hp => h0 p (List.mem_cons_of_mem _ hp)
    unfold batchEmit
    split
    · have := ih (min (currentWindow t r) lastT) (a.reset.add v) (by simp [Agg.add]) (min_cw_ne r lastT t hr hl ht) h0'
      simp only [hn, ne_eq, not_false_eq_true, if_true, List.map_append, List.map_cons, List.map_nil,
        List.sum_append, List.sum_cons, List.sum_nil, this]
      simp [Agg.add, Agg.reset] <;> omega
    · have := ih nextT (a.add v) (by simp [Agg.add]) hn h0'
      rw [this]
      simp [Agg.add] <;> omega

/-- the same for the window counts -/
theorem batchEmit_count (r lastT : Int) (hr : 0 < r) (hl : minInt64 < lastT) :
    ∀ (data : List Pt) (nextT : Int) (a : Agg), 0 < a.total → nextT ≠ minInt64 → (∀ p ∈ data, minInt64 < p.1) →
      ((batchEmit r lastT data nextT a).map (fun e => (e.2.count : Int))).sum = a.count + data.length := by
  intro data
  induction data with
  | nil => intro nextT a ha _ _; simp [batchEmit, ha]
  | cons p rest ih =>
    intro nextT a ha hn h0
    obtain ⟨t, v⟩ := p
    have ht : minInt64 < t := h0 (t, v) (by simp)
    have h0' : ∀ p ∈ rest, minInt64 < p.1 := fun p hp => h0 p (List.mem_cons_of_mem _ hp)
    unfold batchEmit
    split
    · have := ih (min (currentWindow t r) lastT) (a.reset.add v) (by simp [Agg.add]) (min_cw_ne r lastT t hr hl ht) h0'
      simp only [hn, ne_eq, not_false_eq_true, if_true, List.map_append, List.map_cons, List.map_nil,
        List.sum_append, List.sum_cons, List.sum_nil, this]
      simp [Agg.add, Agg.reset] <;> omega
    · have := ih nextT (a.add v) (by simp [Agg.add]) hn h0'
      rw [this]
      simp [Agg.add] <;> omega

theorem min_assoc3 (a b c : Int) : min (min a b) c = min a (min b c) := by
  simp only [Int.min_def]; repeat' split <;> omega

theorem max_assoc3 (a b c : Int) : max (max a b) c = max a (max b c) := by
  simp only [Int.max_def]; repeat' split <;> omega

/-- the least of the emitted window minima = the least of the running minimum and the remaining values -/
theorem batchEmit_min (r lastT : Int) (hr : 0 < r) (hl : minInt64 < lastT) :
    ∀ (data : List Pt) (nextT : Int) (a : Agg) (M : Int), 0 < a.total → nextT ≠ minInt64 → (∀ p ∈ data, minInt64 < p.1) →
      (∀ p ∈ data, p.2 ≤ maxFloat) →
      ((batchEmit r lastT data nextT a).map (fun e => e.2.min)).foldl min M = (data.map (·.2)).foldl min (min M a.min) := by
  intro data
  induction data with
  | nil => intro nextT a M ha _ _ _; simp [batchEmit, ha]
  | cons p rest ih =>
    intro nextT a M ha hn h0 hf
    obtain ⟨t, v⟩ := p
    have ht : minInt64 < t := h0 (t, v) (by simp)
    have hv : v ≤ maxFloat := hf (t, v) (by simp)
    have h0' : ∀ p ∈ rest, minInt64 < p.1 := fun p hp => h0 p (List.mem_cons_of_mem _ hp)
    have hf' : ∀ p ∈ rest, p.2 ≤ maxFloat := fun p hp => hf p (List.mem_cons_of_mem _ hp)
    unfold batchEmit
    split
    · have := ih (min (currentWindow t r) lastT) (a.reset.add v) (min M a.min) (by simp [Agg.add]) (min_cw_ne r lastT t hr hl ht) h0' hf'
      simp only [hn, ne_eq, not_false_eq_true, if_true, List.map_append, List.map_cons, List.map_nil,
        List.foldl_append, List.foldl_cons, List.foldl_nil, this]
      congr 1
      have : (a.reset.add v).min = v := by
        simp only [Agg.add, Agg.reset]
        by_cases h : v < maxFloat
        · simp [h]
        · simp only [h, if_false]; omega
      rw [this]
    · have := ih nextT (a.add v) M (by simp [Agg.add]) hn h0' hf'
      rw [this]
      simp only [List.map_cons, List.foldl_cons]
      congr 1
      rw [min_assoc3]
      congr 1
      simp only [Agg.add, Int.min_def]
      split <;> split <;> omega

theorem batchEmit_max (r lastT : Int) (hr : 0 < r) (hl : minInt64 < lastT) :
    ∀ (data : List Pt) (nextT : Int) (a : Agg) (M : Int), 0 < a.total → nextT ≠ minInt64 → (∀ p ∈ data, minInt64 < p.1) →
      (∀ p ∈ data, -maxFloat ≤ p.2) →
      ((batchEmit r lastT data nextT a).map (fun e => e.2.max)).foldl max M = (data.map (·.2)).foldl max (max M a.max) := by
  intro data
  induction data with
  | nil => intro nextT a M ha _ _ _; simp [batchEmit, ha]
  | cons p rest ih =>
    intro nextT a M ha hn h0 hf
    obtain ⟨t, v⟩ := p
    have ht : minInt64 < t := h0 (t, v) (by simp)
    have hv : -maxFloat ≤ v := hf (t, v) (by simp)
    have h0' : ∀ p ∈ rest, minInt64 < p.1 := fun p hp => h0 p (List.mem_cons_of_mem _ hp)
    have hf' : ∀ p ∈ rest, -maxFloat ≤ p.2 := fun p hp => hf p (List.mem_cons_of_mem _ hp)
    unfold batchEmit
    split
    · have := ih (min (currentWindow t r) lastT) (a.reset.add v) (max M a.max) (by simp [Agg.add]) (min_cw_ne r lastT t hr hl ht) h0' hf'
      simp only [hn, ne_eq, not_false_eq_true, if_true, List.map_append, List.map_cons, List.map_nil,
        List.foldl_append, List.foldl_cons, List.foldl_nil, this]
      congr 1
      have : (a.reset.add v).max = v := by
        simp only [Agg.add, Agg.reset]
        by_cases h : v > -maxFloat
        · simp [h]
        · simp only [h, if_false]; omega
      rw [this]
    · have := ih nextT (a.add v) M (by simp [Agg.add]) hn h0' hf'
      rw [this]
      simp only [List.map_cons, List.foldl_cons]
      congr 1
      rw [max_assoc3]
      congr 1
      simp only [Agg.add, Int.max_def]
      split <;> split <;> omega

/-- the emitted timestamps strictly increase and stay between the pending timestamp and `lastT` -/
theorem batchEmit_ts (r lastT : Int) (hr : 0 < r) :
    ∀ (data : List Pt) (nextT : Int) (a : Agg), 0 < a.total → minInt64 < nextT → nextT ≤ lastT →
      (∀ p ∈ data, minInt64 < p.1 ∧ p.1 ≤ lastT) →
      ((batchEmit r lastT data nextT a).map (·.1)).Pairwise (· < ·) ∧
      ∀ t ∈ (batchEmit r lastT data nextT a).map (·.1), nextT ≤ t ∧ t ≤ lastT := by
  intro data
  induction data with
  | nil => intro nextT a ha _ hle _; simp [batchEmit, ha, hle]
  | cons p rest ih =>
    intro nextT a ha hn hle hb
    obtain ⟨t, v⟩ := p
    have ht := hb (t, v) (by simp)
    simp only at ht
    have hb' : ∀ p ∈ rest, minInt64 < p.1 ∧ p.1 ≤ lastT := fun p hp => hb p (List.mem_cons_of_mem _ hp)
    unfold batchEmit
    split
    · rename_i hgt
      have hcw := currentWindow_ge (t := t) hr
      have hn' : t ≤ min (currentWindow t r) lastT := by simp only [Int.min_def]; split <;> omega
      have hle' : min (currentWindow t r) lastT ≤ lastT := by simp only [Int.min_def]; split <;> omega
      obtain ⟨h1, h2⟩ := ih (min (currentWindow t r) lastT) (a.reset.add v) (by simp [Agg.add]) (by omega) hle' hb'
      have hne : nextT ≠ minInt64 := by omega
      simp only [hne, ne_eq, not_false_eq_true, if_true, List.map_append, List.map_cons, List.map_nil,
        List.singleton_append]
      refine ⟨List.pairwise_cons.mpr ⟨fun x hx => ?_, h1⟩, fun x hx => ?_⟩
      · have := h2 x hx; omega
      · rcases List.mem_cons.mp hx with h | h
        · omega
        · have := h2 x h; omega
    · exact ih nextT (a.add v) (by simp [Agg.add]) hn hle hb'

theorem foldl_min_out (M x : Int) : ∀ (xs : List Int), xs.foldl min (min M x) = min M (xs.foldl min x)
  | [] => rfl
  | y :: ys => by
    simp only [List.foldl_cons]
    rw [min_assoc3, foldl_min_out M (min x y) ys]

theorem foldl_max_out (M x : Int) : ∀ (xs : List Int), xs.foldl max (max M x) = max M (xs.foldl max x)
  | [] => rfl
  | y :: ys => by
    simp only [List.foldl_cons]
    rw [max_assoc3, foldl_max_out M (max x y) ys]

/-- two non-empty lists with the same `foldl min` from every start have the same minimum -/
theorem min?_eq_of_foldl (l1 l2 : List Int) (h1 : l1 ≠ []) (h2 : l2 ≠ [])
    (h : ∀ M, l1.foldl min M = l2.foldl min M) : l1.min? = l2.min? := by
  cases l1 with
  | nil => exact absurd rfl h1
  | cons x xs =>
    cases l2 with
    | nil => exact absurd rfl h2
    | cons y ys =>
      rw [List.min?_cons', List.min?_cons']
      have ha := h (xs.foldl min x)
      have hb := h (ys.foldl min y)
      simp only [List.foldl_cons] at ha hb
      rw [foldl_min_out, foldl_min_out] at ha hb
      simp only [Int.min_def] at ha hb
      congr 1
      split at ha <;> split at ha <;> split at hb <;> split at hb <;> omega

theorem max?_eq_of_foldl (l1 l2 : List Int) (h1 : l1 ≠ []) (h2 : l2 ≠ [])
    (h : ∀ M, l1.foldl max M = l2.foldl max M) : l1.max? = l2.max? := by
  cases l1 with
  | nil => exact absurd rfl h1
  | cons x xs =>
    cases l2 with
    | nil => exact absurd rfl h2
    | cons y ys =>
      rw [List.max?_cons', List.max?_cons']
      have ha := h (xs.foldl max x)
      have hb := h (ys.foldl max y)
      simp only [List.foldl_cons] at ha hb
      rw [foldl_max_out, foldl_max_out] at ha hb
      simp only [Int.max_def] at ha hb
      congr 1
      split at ha <;> split at ha <;> split at hb <;> split at hb <;> omega

/-- something is emitted: the loop ends with a non-empty aggregator -/
theorem batchEmit_ne_nil (r lastT : Int) : ∀ (data : List Pt) (nextT : Int) (a : Agg), 0 < a.total →
    batchEmit r lastT data nextT a ≠ [] := by
  intro data
  induction data with
  | nil => intro nextT a h; simp [batchEmit, h]
  | cons q qs ih =>
    intro nextT a h
    unfold batchEmit
    split
    · intro hc
      have := List.append_eq_nil_iff.mp hc
      exact ih _ _ (by simp [Agg.add]) this.2
    · exact ih _ _ (by simp [Agg.add])

/-- **What one call of downsampleBatch conserves** (no ordering of the samples is needed for
    the totals; timestamps above MinInt64, the last sample carries the largest timestamp). -/
theorem downsampleBatch_totals (r : Int) (hr : 0 < r) (data : List Pt) (t0 v0 lastT lv : Int)
    (hhead : data.head? = some (t0, v0)) (hlast : data.getLast? = some (lastT, lv))
    (hb : ∀ p ∈ data, minInt64 < p.1 ∧ p.1 ≤ lastT) (hfin : ∀ p ∈ data, Finite p.2) :
    ∃ out nt, downsampleBatch data r = some (out, nt) ∧ out ≠ [] ∧
      (out.map (fun e => e.2.sum)).sum = (data.map (·.2)).sum ∧
      (out.map (fun e => (e.2.count : Int))).sum = data.length ∧
      (out.map (fun e => e.2.min)).min? = (data.map (·.2)).min? ∧
      (out.map (fun e => e.2.max)).max? = (data.map (·.2)).max? ∧
      (out.map (·.1)).Pairwise (· < ·) ∧ ∀ t ∈ out.map (·.1), t0 ≤ t ∧ t ≤ lastT := by
  cases data with
  | nil => simp at hhead
  | cons p rest =>
    simp only [List.head?_cons, Option.some.injEq] at hhead
    subst hhead
    have ht0 := hb (t0, v0) (by simp)
    simp only at ht0
    have hl0 : minInt64 < lastT := by omega
    have hgt : t0 > minInt64 := ht0.1
    have hb' : ∀ p ∈ rest, minInt64 < p.1 ∧ p.1 ≤ lastT := fun p hp => hb p (List.mem_cons_of_mem _ hp)
    have h0' : ∀ p ∈ rest, minInt64 < p.1 := fun p hp => (hb' p hp).1
    have hv0 := hfin (t0, v0) (by simp)
    have hcw := currentWindow_ge (t := t0) hr
    have hn0 : t0 ≤ min (currentWindow t0 r) lastT := by simp only [Int.min_def]; split <;> omega
    have hle0 : min (currentWindow t0 r) lastT ≤ lastT := by simp only [Int.min_def]; split <;> omega
    have ha : 0 < (Agg.zero.reset.add v0).total := by simp [Agg.add]
    have hne : min (currentWindow t0 r) lastT ≠ minInt64 := min_cw_ne r lastT t0 hr hl0 ht0.1
    refine ⟨batchEmit r lastT rest (min (currentWindow t0 r) lastT) (Agg.zero.reset.add v0),
      batchNextT r lastT ((t0, v0) :: rest) minInt64, ?_, ?_, ?_, ?_, ?_, ?_, ?_⟩
    · simp only [downsampleBatch, hlast, batchEmit, hgt, if_true, ne_eq, not_true_eq_false, if_false,
        List.nil_append]
    · exact batchEmit_ne_nil r lastT _ _ _ ha
    · rw [batchEmit_sum r lastT hr hl0 rest _ _ ha hne h0']
      simp [Agg.add, Agg.reset]
    · rw [batchEmit_count r lastT hr hl0 rest _ _ ha hne h0']
      simp [Agg.add, Agg.reset]; omega
    · apply min?_eq_of_foldl
      · intro hc
        exact batchEmit_ne_nil r lastT _ _ _ ha (List.map_eq_nil_iff.mp hc)
      · simp
      · intro M
        rw [batchEmit_min r lastT hr hl0 rest _ _ M ha hne h0' (fun p hp => (hfin p (List.mem_cons_of_mem _ hp)).2)]
        simp only [List.map_cons, List.foldl_cons]
        congr 2
        simp only [Agg.add, Agg.reset]
        have := hv0.2
        by_cases h : v0 < maxFloat
        · simp [h]
        · simp only [h, if_false]; omega
    · apply max?_eq_of_foldl
      · intro hc
        exact batchEmit_ne_nil r lastT _ _ _ ha (List.map_eq_nil_iff.mp hc)
      · simp
      · intro M
        rw [batchEmit_max r lastT hr hl0 rest _ _ M ha hne h0' (fun p hp => (hfin p (List.mem_cons_of_mem _ hp)).1)]
        simp only [List.map_cons, List.foldl_cons]
        congr 2
        simp only [Agg.add, Agg.reset]
        have := hv0.1
        by_cases h : v0 > -maxFloat
        · simp [h]
        · simp only [h, if_false]; omega
    · have := batchEmit_ts r lastT hr rest _ _ ha (by omega) hle0 hb'
      refine ⟨this.1, fun t ht => ?_⟩
      have := this.2 t ht
      omega

/-! ### the loop of downsampleAggrLoop -/

/-- downsampleFloatAggrBatch on no chunks: every genericAggregate returns `0, 0`, so the range
    test of the caller (`MinTime == MaxInt64 || MaxTime == MinInt64`) does not fire -/
theorem floatAggrBatch_nil (r : Int) : (floatAggrBatch [] r).mint = 0 ∧ (floatAggrBatch [] r).maxt = 0 := by
  constructor <;> rfl

/-- with `batchSize = 0` no iteration consumes a chunk and none fails: the loop spins -/
theorem aggrLoop_zero_hang (r : Int) : ∀ (fuel : Nat) (chks : List Chunk), chks ≠ [] → aggrLoop r 0 fuel chks = .hang := by
  intro fuel
  induction fuel with
  | zero => intro chks h; cases chks with
    | nil => exact absurd rfl h
    | cons c cs => rfl
  | succ fuel ih =>
    intro chks h
    cases chks with
    | nil => exact absurd rfl h
    | cons c cs =>
      have h1 := (floatAggrBatch_nil r).1
      have h2 := (floatAggrBatch_nil r).2
      simp only [aggrLoop, Nat.zero_min, List.take_zero, List.drop_zero, h1, h2]
      rw [ih (c :: cs) (by simp)]
      simp [maxInt64, minInt64]

/-- with `batchSize ≥ 1` every iteration consumes a chunk: `len(chks)` iterations suffice -/
theorem aggrLoop_progress (r : Int) (bs : Nat) (hbs : 1 ≤ bs) : ∀ (fuel : Nat) (chks : List Chunk),
    chks.length ≤ fuel → aggrLoop r bs fuel chks ≠ .hang := by
  intro fuel
  induction fuel with
  | zero =>
    intro chks h
    cases chks with
    | nil => simp [aggrLoop]
    | cons c cs => simp at h
  | succ fuel ih =>
    intro chks h
    cases chks with
    | nil => simp [aggrLoop]
    | cons c cs =>
      simp only [aggrLoop]
      split
      · simp
      · have hlen : ((c :: cs).drop (min bs (c :: cs).length)).length ≤ fuel := by
          simp only [List.length_drop, List.length_cons] at *
          omega
        have := ih _ hlen
        split <;> simp_all

end Thanos.Downsample
