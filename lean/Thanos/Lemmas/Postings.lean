import Thanos.Model.Postings
/-
  Helper lemmas for the posting-group algebra (C10): key-list operations and single groups.
-/
namespace Thanos.Postings

/-- strictly ascending keys -/
def SortedKeys (l : List Nat) : Prop := l.Pairwise (· < ·)

theorem sortedKeys_tail {x : Nat} {xs : List Nat} (h : SortedKeys (x :: xs)) : SortedKeys xs :=
  (List.pairwise_cons.mp h).2

theorem sortedKeys_head_lt {x : Nat} {xs : List Nat} (h : SortedKeys (x :: xs)) : ∀ y ∈ xs, x < y :=
  (List.pairwise_cons.mp h).1

/-! ### sortKeys -/

theorem mem_insertKey (x : Nat) : ∀ (l : List Nat) (y : Nat), y ∈ insertKey x l ↔ y = x ∨ y ∈ l
  | [], y => by simp [insertKey]
  | z :: zs, y => by
    simp only [insertKey]
    split
    · simp
    · simp only [List.mem_cons, mem_insertKey x zs y]
      constructor
      · rintro (h | h | h)
        · exact Or.inr (Or.inl h)
        · exact Or.inl h
        · exact Or.inr (Or.inr h)
      · rintro (h | h | h)
        · exact Or.inr (Or.inl h)
        · exact Or.inl h
        · exact Or.inr (Or.inr h)

theorem mem_sortKeys : ∀ (l : List Nat) (y : Nat), y ∈ sortKeys l ↔ y ∈ l
  | [], y => by simp [sortKeys]
  | x :: xs, y => by
    have ih := mem_sortKeys xs y
    simp only [sortKeys, List.foldr] at ih ⊢
    rw [mem_insertKey, ih]
    simp

theorem insertKey_sorted (x : Nat) : ∀ (l : List Nat), SortedKeys l → x ∉ l → SortedKeys (insertKey x l)
  | [], _, _ => by simp [insertKey, SortedKeys]
  | z :: zs, h, hx => by
    have hz := List.pairwise_cons.mp h
    simp only [insertKey]
    split
    next hle =>
      have hlt : x < z := by
        have : x ≠ z := fun e => hx (by simp [e])
        omega
      apply List.pairwise_cons.mpr
      refine ⟨?_, h⟩
      intro a ha
      rcases List.mem_cons.mp ha with rfl | ha'
      · exact hlt
      · have := hz.1 a ha'
        omega
    next hgt =>
      apply List.pairwise_cons.mpr
      refine ⟨?_, insertKey_sorted x zs hz.2 (fun h' => hx (List.mem_cons_of_mem _ h'))⟩
      intro a ha
      rcases (mem_insertKey x zs a).mp ha with rfl | ha'
      · omega
      · exact hz.1 a ha'

theorem sortKeys_sorted : ∀ (l : List Nat), l.Nodup → SortedKeys (sortKeys l)
  | [], _ => by simp [sortKeys, SortedKeys]
  | x :: xs, h => by
    have hx := List.nodup_cons.mp h
    have ih := sortKeys_sorted xs hx.2
    simp only [sortKeys, List.foldr] at ih ⊢
    apply insertKey_sorted x _ ih
    intro hm
    exact hx.1 ((mem_sortKeys xs x).mp hm)

/-! ### union / subtract / intersect of sorted key lists -/

theorem mem_unionKeys : ∀ (xs ys : List Nat) (a : Nat), a ∈ unionKeys xs ys ↔ a ∈ xs ∨ a ∈ ys
  | [], ys, a => by simp [unionKeys]
  | x :: xs, ys, a => by
    simp only [unionKeys]
    induction ys with
    | nil => simp [unionKeys.aux]
    | cons y ys ih =>
      simp only [unionKeys.aux]
      split
      · simp only [List.mem_cons, mem_unionKeys xs (y :: ys) a]
        constructor
        · rintro (h | h | h | h)
          · exact Or.inl (Or.inl h)
          · exact Or.inl (Or.inr h)
          · exact Or.inr (Or.inl h)
          · exact Or.inr (Or.inr h)
        · rintro ((h | h) | h | h)
          · exact Or.inl h
          · exact Or.inr (Or.inl h)
          · exact Or.inr (Or.inr (Or.inl h))
          · exact Or.inr (Or.inr (Or.inr h))
      · split
        · simp only [List.mem_cons, ih]
          constructor
          · rintro (h | (h | h) | h)
            · exact Or.inr (Or.inl h)
            · exact Or.inl (Or.inl h)
            · exact Or.inl (Or.inr h)
            · exact Or.inr (Or.inr h)
          · rintro ((h | h) | h | h)
            · exact Or.inr (Or.inl (Or.inl h))
            · exact Or.inr (Or.inl (Or.inr h))
            · exact Or.inl h
            · exact Or.inr (Or.inr h)
        · next h1 h2 =>
          have hxy : x = y := by omega
          subst hxy
          simp only [List.mem_cons, mem_unionKeys xs ys a]
          constructor
          · rintro (h | h | h)
            · exact Or.inl (Or.inl h)
            · exact Or.inl (Or.inr h)
            · exact Or.inr (Or.inr h)
          · rintro ((h | h) | h | h)
            · exact Or.inl h
            · exact Or.inr (Or.inl h)
            · exact Or.inl h
            · exact Or.inr (Or.inr h)

theorem mem_subtractKeys : ∀ (xs ys : List Nat) (a : Nat), SortedKeys xs → SortedKeys ys →
    (a ∈ subtractKeys xs ys ↔ a ∈ xs ∧ a ∉ ys)
  | [], ys, a, _, _ => by simp [subtractKeys]
  | x :: xs, ys, a, hx, hy => by
    have hxs := sortedKeys_tail hx
    have hlt := sortedKeys_head_lt hx
    simp only [subtractKeys]
    induction ys with
    | nil => simp [subtractKeys.aux]
    | cons y ys ih =>
      have hys := sortedKeys_tail hy
      have hylt := sortedKeys_head_lt hy
      simp only [subtractKeys.aux]
      split
      next h1 =>
        -- x < y: x is not removed
        simp only [List.mem_cons, mem_subtractKeys xs (y :: ys) a hxs hy]
        constructor
        · rintro (h | ⟨h, h'⟩)
          · subst h
            refine ⟨Or.inl rfl, ?_⟩
            rintro (h | h)
            · omega
            · have := hylt a h; omega
          · exact ⟨Or.inr h, by simpa using h'⟩
        · rintro ⟨h | h, h'⟩
          · exact Or.inl h
          · exact Or.inr ⟨h, by simpa using h'⟩
      next h1 =>
        split
        next h2 =>
          -- y < x: y removes nothing here
          refine Iff.trans (ih hys) ?_
          simp only [List.mem_cons]
          constructor
          · rintro ⟨h, h'⟩
            refine ⟨h, ?_⟩
            rintro (h'' | h'')
            · subst h''
              rcases h with h | h
              · omega
              · have := hlt a h; omega
            · exact h' h''
          · rintro ⟨h, h'⟩
            exact ⟨h, fun h'' => h' (Or.inr h'')⟩
        next h2 =>
          have hxy : x = y := by omega
          subst hxy
          simp only [List.mem_cons, mem_subtractKeys xs ys a hxs hys]
          constructor
          · rintro ⟨h, h'⟩
            refine ⟨Or.inr h, ?_⟩
            rintro (h'' | h'')
            · subst h''
              have := hlt a h; omega
            · exact h' h''
          · rintro ⟨h | h, h'⟩
            · exact absurd (Or.inl h) h'
            · exact ⟨h, fun h'' => h' (Or.inr h'')⟩

theorem mem_intersectKeys : ∀ (xs ys : List Nat) (a : Nat), SortedKeys xs → SortedKeys ys →
    (a ∈ intersectKeys xs ys ↔ a ∈ xs ∧ a ∈ ys)
  | [], ys, a, _, _ => by simp [intersectKeys]
  | x :: xs, ys, a, hx, hy => by
    have hxs := sortedKeys_tail hx
    have hlt := sortedKeys_head_lt hx
    simp only [intersectKeys]
    induction ys with
    | nil => simp [intersectKeys.aux]
    | cons y ys ih =>
      have hys := sortedKeys_tail hy
      have hylt := sortedKeys_head_lt hy
      simp only [intersectKeys.aux]
      split
      next h1 =>
        subst h1
        simp only [List.mem_cons, mem_intersectKeys xs ys a hxs hys]
        constructor
        · rintro (h | ⟨h, h'⟩)
          · exact ⟨Or.inl h, Or.inl h⟩
          · exact ⟨Or.inr h, Or.inr h'⟩
        · rintro ⟨h | h, h' | h'⟩
          · exact Or.inl h
          · exact Or.inl h
          · exact Or.inl h'
          · exact Or.inr ⟨h, h'⟩
      next h1 =>
        split
        next h2 =>
          -- x < y: x is in no later y
          rw [mem_intersectKeys xs (y :: ys) a hxs hy]
          simp only [List.mem_cons]
          constructor
          · rintro ⟨h, h'⟩
            exact ⟨Or.inr h, h'⟩
          · rintro ⟨h | h, h'⟩
            · subst h
              rcases h' with h' | h'
              · omega
              · have := hylt a h'; omega
            · exact ⟨h, h'⟩
        next h2 =>
          -- y < x
          refine Iff.trans (ih hys) ?_
          simp only [List.mem_cons]
          constructor
          · rintro ⟨h, h'⟩
            exact ⟨h, Or.inr h'⟩
          · rintro ⟨h, h' | h'⟩
            · subst h'
              rcases h with h | h
              · omega
              · have := hlt a h; omega
            · exact ⟨h, h'⟩

theorem unionKeys_sorted : ∀ (xs ys : List Nat), SortedKeys xs → SortedKeys ys → SortedKeys (unionKeys xs ys)
  | [], ys, _, hy => by simpa [unionKeys] using hy
  | x :: xs, ys, hx, hy => by
    have hxs := sortedKeys_tail hx
    have hlt := sortedKeys_head_lt hx
    simp only [unionKeys]
    induction ys with
    | nil => simpa [unionKeys.aux] using hx
    | cons y ys ih =>
      have hys := sortedKeys_tail hy
      have hylt := sortedKeys_head_lt hy
      simp only [unionKeys.aux]
      split
      next h1 =>
        apply List.pairwise_cons.mpr
        refine ⟨?_, unionKeys_sorted xs (y :: ys) hxs hy⟩
        intro a ha
        rcases (mem_unionKeys xs (y :: ys) a).mp ha with h | h
        · exact hlt a h
        · rcases List.mem_cons.mp h with rfl | h'
          · exact h1
          · have := hylt a h'; omega
      next h1 =>
        split
        next h2 =>
          apply List.pairwise_cons.mpr
          refine ⟨?_, ih hys⟩
          intro a ha
          -- members of aux x xs _ ys are x, members of xs, members of ys
          have : a ∈ unionKeys (x :: xs) ys := by simpa [unionKeys] using ha
          rcases (mem_unionKeys (x :: xs) ys a).mp this with h | h
          · rcases List.mem_cons.mp h with rfl | h'
            · exact h2
            · have := hlt a h'; omega
          · exact hylt a h
        next h2 =>
          have hxy : x = y := by omega
          subst hxy
          apply List.pairwise_cons.mpr
          refine ⟨?_, unionKeys_sorted xs ys hxs hys⟩
          intro a ha
          rcases (mem_unionKeys xs ys a).mp ha with h | h
          · exact hlt a h
          · exact hylt a h

theorem sorted_of_subset_sorted {l m : List Nat} (hl : l.Sublist m) (hm : SortedKeys m) : SortedKeys l :=
  List.Pairwise.sublist hl hm

theorem subtractKeys_sublist : ∀ (xs ys : List Nat), (subtractKeys xs ys).Sublist xs
  | [], ys => by simp [subtractKeys]
  | x :: xs, ys => by
    simp only [subtractKeys]
    induction ys with
    | nil => simp [subtractKeys.aux]
    | cons y ys ih =>
      simp only [subtractKeys.aux]
      split
      · exact List.Sublist.cons_cons _ (subtractKeys_sublist xs (y :: ys))
      · split
        · exact ih
        · exact List.Sublist.cons _ (subtractKeys_sublist xs ys)

theorem intersectKeys_sublist : ∀ (xs ys : List Nat), (intersectKeys xs ys).Sublist xs
  | [], ys => by simp [intersectKeys]
  | x :: xs, ys => by
    simp only [intersectKeys]
    induction ys with
    | nil => simp [intersectKeys.aux]
    | cons y ys ih =>
      simp only [intersectKeys.aux]
      split
      · exact List.Sublist.cons_cons _ (intersectKeys_sublist xs ys)
      · split
        · exact List.Sublist.cons _ (intersectKeys_sublist xs (y :: ys))
        · exact ih

end Thanos.Postings
