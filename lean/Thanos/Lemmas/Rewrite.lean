import Thanos.Model.Rewrite
/-
  Helper lemmas for C48: merging intervals keeps the set of covered timestamps; the chunk loop of
  the code computes the per-chunk filter of the specification.
-/
namespace Thanos.Rewrite

def Interval.WF (i : Interval) : Prop := i.mint ≤ i.maxt

theorem has_iff (i : Interval) (t : Int) : i.has t = true ↔ i.mint ≤ t ∧ t ≤ i.maxt := by
  simp [Interval.has]

theorem covered_iff (ivs : List Interval) (t : Int) :
    covered ivs t = true ↔ ∃ i ∈ ivs, i.mint ≤ t ∧ t ≤ i.maxt := by
  simp [covered, List.any_eq_true, has_iff]

/-- `Intervals.Add` covers exactly what the list and the new interval covered -/
theorem covered_addIv (t : Int) : ∀ (l : List Interval) (n : Interval), n.WF → (∀ r ∈ l, r.WF) →
    (covered (addIv n l) t = true ↔ (n.mint ≤ t ∧ t ≤ n.maxt) ∨ covered l t = true) := by
  intro l
  induction l with
  | nil => intro n _ _; simp [addIv, covered_iff]
  | cons r rs ih =>
    intro n hn hl
    have hr : r.WF := hl r (by simp)
    have hrs : ∀ x ∈ rs, x.WF := fun x hx => hl x (by simp [hx])
    unfold addIv
    by_cases h1 : r.maxt < n.mint - 1
    · simp only [h1, if_true]
      have := ih n hn hrs
      simp only [covered_iff, List.mem_cons, exists_eq_or_imp] at this ⊢
      rw [this]
      constructor
      · rintro (h | h | h)
        · exact Or.inr (Or.inl h)
        · exact Or.inl h
        · exact Or.inr (Or.inr h)
      · rintro (h | h | h)
        · exact Or.inr (Or.inl h)
        · exact Or.inl h
        · exact Or.inr (Or.inr h)
    · by_cases h2 : n.maxt + 1 < r.mint
      · simp only [h1, h2, if_true, if_false]
        simp only [covered_iff, List.mem_cons, exists_eq_or_imp]
      · simp only [h1, h2, if_false]
        have hm : (Interval.mk (min n.mint r.mint) (max n.maxt r.maxt)).WF := by
          unfold Interval.WF at *
          simp only
          omega
        have := ih ⟨min n.mint r.mint, max n.maxt r.maxt⟩ hm hrs
        rw [this]
        simp only [covered_iff, List.mem_cons, exists_eq_or_imp]
        unfold Interval.WF at hn hr
        constructor
        · rintro (⟨h3, h4⟩ | h)
          · by_cases hn' : n.mint ≤ t ∧ t ≤ n.maxt
            · exact Or.inl hn'
            · right; left
              omega
          · exact Or.inr (Or.inr h)
        · rintro (h | h | h)
          · left; omega
          · left; omega
          · exact Or.inr h

theorem wf_addIv : ∀ (l : List Interval) (n : Interval), n.WF → (∀ r ∈ l, r.WF) → ∀ x ∈ addIv n l, x.WF := by
  intro l
  induction l with
  | nil => intro n hn _ x hx; simp [addIv] at hx; subst hx; exact hn
  | cons r rs ih =>
    intro n hn hl x hx
    have hr : r.WF := hl r (by simp)
    have hrs : ∀ x ∈ rs, x.WF := fun x hx => hl x (by simp [hx])
    unfold addIv at hx
    by_cases h1 : r.maxt < n.mint - 1
    · simp only [h1, if_true, List.mem_cons] at hx
      rcases hx with rfl | hx
      · exact hr
      · exact ih n hn hrs x hx
    · by_cases h2 : n.maxt + 1 < r.mint
      · simp only [h1, h2, if_true, if_false, List.mem_cons] at hx
        rcases hx with rfl | rfl | hx
        · exact hn
        · exact hr
        · exact hrs x hx
      · simp only [h1, h2, if_false] at hx
        refine ih ⟨min n.mint r.mint, max n.maxt r.maxt⟩ ?_ hrs x hx
        unfold Interval.WF at *
        simp only
        omega

/-- folding `Add` over a list of well-formed intervals covers what the list covers -/
theorem covered_foldl_addIv (t : Int) : ∀ (ivs acc : List Interval), (∀ i ∈ ivs, i.WF) → (∀ i ∈ acc, i.WF) →
    (covered (ivs.foldl (fun acc i => addIv i acc) acc) t = true ↔ covered ivs t = true ∨ covered acc t = true) := by
  intro ivs
  induction ivs with
  | nil => intro acc _ _; simp [covered]
  | cons i is ih =>
    intro acc hi ha
    simp only [List.foldl_cons]
    have h1 := ih (addIv i acc) (fun x hx => hi x (by simp [hx])) (wf_addIv acc i (hi i (by simp)) ha)
    rw [h1, covered_addIv t acc i (hi i (by simp)) ha]
    simp only [covered_iff, List.mem_cons, exists_eq_or_imp]
    constructor
    · rintro (h | h | h)
      · exact Or.inl (Or.inr h)
      · exact Or.inl (Or.inl h)
      · exact Or.inr h
    · rintro ((h | h) | h)
      · exact Or.inr (Or.inl h)
      · exact Or.inl h
      · exact Or.inr (Or.inr h)

/-! ### chunks -/

/-- a chunk as blocks hold it: not empty, timestamps increasing -/
def ChunkWF (c : Chunk) : Prop := c ≠ [] ∧ c.Pairwise (fun a b => a.1 < b.1)

theorem chunk_bounds (c : Chunk) (h : ChunkWF c) :
    ∃ mn mx, chunkMin c = some mn ∧ chunkMax c = some mx ∧ ∀ x ∈ c, mn ≤ x.1 ∧ x.1 ≤ mx := by
  obtain ⟨hne, hs⟩ := h
  cases c with
  | nil => exact absurd rfl hne
  | cons a rest =>
    have hlast : ∃ z, (a :: rest).getLast? = some z ∧ ∀ x ∈ a :: rest, x.1 ≤ z.1 := by
      clear hne
      induction rest generalizing a with
      | nil => exact ⟨a, by simp, by simp⟩
      | cons b bs ih =>
        have hs' := List.pairwise_cons.mp hs
        obtain ⟨z, hz, hle⟩ := ih b hs'.2
        refine ⟨z, by simpa [List.getLast?_cons_cons] using hz, ?_⟩
        intro x hx
        rcases List.mem_cons.mp hx with rfl | hx
        · have := hs'.1 b (by simp)
          have := hle b (by simp)
          omega
        · exact hle x hx
    obtain ⟨z, hz, hle⟩ := hlast
    refine ⟨a.1, z.1, by simp [chunkMin], by simp [chunkMax, hz], ?_⟩
    intro x hx
    refine ⟨?_, hle x hx⟩
    rcases List.mem_cons.mp hx with rfl | hx
    · exact Int.le_refl _
    · exact Int.le_of_lt ((List.pairwise_cons.mp hs).1 x hx)

/-- what the specification leaves of the chunks of a series -/
def specChunks (ivs : List Interval) (cs : List Chunk) : List Chunk :=
  (cs.map fun c => c.filter fun x => !covered ivs x.1).filter (!·.isEmpty)

/-- the chunk loop of the repaired code computes the specification's chunks -/
theorem codeChunks_eq_spec (ivs : List Interval) : ∀ (cs : List Chunk), (∀ c ∈ cs, ChunkWF c) →
    codeChunks true ivs cs = specChunks ivs cs := by
  intro cs
  induction cs with
  | nil => intro _; simp [codeChunks, specChunks]
  | cons c cs ih =>
    intro hwf
    have ih' := ih (fun x hx => hwf x (by simp [hx]))
    obtain ⟨mn, mx, hmn, hmx, hb⟩ := chunk_bounds c (hwf c (by simp))
    have hne : c ≠ [] := (hwf c (by simp)).1
    unfold codeChunks
    simp only [hmn, hmx]
    have hspec : specChunks ivs (c :: cs) =
        (if (c.filter fun x => !covered ivs x.1).isEmpty then specChunks ivs cs
         else (c.filter fun x => !covered ivs x.1) :: specChunks ivs cs) := by
      simp only [specChunks, List.map_cons, List.filter_cons]
      by_cases he : (c.filter fun x => !covered ivs x.1).isEmpty <;> simp [he]
    rw [hspec, ih']
    by_cases hsub : ivs.any (fun i => i.has mn && i.has mx) = true
    · -- inside one interval: every sample is covered
      simp only [hsub, if_true]
      have : (c.filter fun x => !covered ivs x.1) = [] := by
        rw [List.filter_eq_nil_iff]
        intro x hx
        obtain ⟨i, hi, h⟩ := List.any_eq_true.mp hsub
        simp only [Bool.and_eq_true, has_iff] at h
        have hbx := hb x hx
        have : covered ivs x.1 = true := (covered_iff ivs x.1).mpr ⟨i, hi, by omega, by omega⟩
        simp [this]
      simp [this]
    · simp only [hsub, Bool.false_eq_true, if_false]
      -- samples of this chunk are covered by ivs iff they are covered by the overlapping ones
      have hov : ∀ x ∈ c, covered (ivs.filter fun i => decide (mn ≤ i.maxt) && decide (i.mint ≤ mx)) x.1 = covered ivs x.1 := by
        intro x hx
        have hbx := hb x hx
        rw [Bool.eq_iff_iff, covered_iff, covered_iff]
        constructor
        · rintro ⟨i, hi, h⟩
          exact ⟨i, (List.mem_filter.mp hi).1, h⟩
        · rintro ⟨i, hi, h⟩
          refine ⟨i, List.mem_filter.mpr ⟨hi, ?_⟩, h⟩
          simp only [Bool.and_eq_true, decide_eq_true_eq]
          omega
      have hfil : (c.filter fun x => !covered (ivs.filter fun i => decide (mn ≤ i.maxt) && decide (i.mint ≤ mx)) x.1) =
          (c.filter fun x => !covered ivs x.1) := by
        apply List.filter_congr
        intro x hx
        rw [hov x hx]
      by_cases hoe : (ivs.filter fun i => decide (mn ≤ i.maxt) && decide (i.mint ≤ mx)).isEmpty = true
      · simp only [hoe, if_true]
        -- nothing overlaps: nothing is covered, the chunk stays as it is
        have hall : (c.filter fun x => !covered ivs x.1) = c := by
          rw [List.filter_eq_self]
          intro x hx
          rw [← hov x hx]
          have : (ivs.filter fun i => decide (mn ≤ i.maxt) && decide (i.mint ≤ mx)) = [] := by
            simpa using hoe
          simp [this, covered]
        have hce : c.isEmpty = false := by cases c <;> simp_all
        simp [hall, hce]
      · simp only [hoe, Bool.false_eq_true, if_false, hfil]
        by_cases he : (c.filter fun x => !covered ivs x.1).isEmpty = true <;> simp [he]

end Thanos.Rewrite
