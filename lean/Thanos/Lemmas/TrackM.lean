import Thanos.Lemmas.ReadPath
import Thanos.Lemmas.FirstFit
/-
  C04, query ranges that cut the series.  `boundedSeriesIterator.Seek` does not enforce `maxt`
  (a sample beyond it can come out) and answers `ValNone` without moving when the target is
  beyond `maxt`; so a bounded side of the dedup node is not list-like.  It is list-like *up to
  `M = maxt`*: `TrackM` says that an iterator follows a list `L` of samples `≤ M` as long as such
  samples remain, and afterwards is "beyond" (`B`: positioned on samples `> M`) or dead.  A dedup
  node over two such iterators is again one, following `cur :: pm2 …` of the tracked lists.
-/
namespace Thanos.Dedup

/-- `T r L`: positioned on `head L`, will yield `L` (all `≤ M`, non-empty); `B r`: positioned on a
    sample `> M`; `rem`: a bound on the samples still held (for loop fuel). -/
structure TrackM {ρ : Type} (o : Ops ρ) (M : Int) (T : ρ → List Sample → Prop) (B : ρ → Prop)
    (rem : ρ → Nat) : Prop where
  tNe : ∀ r L, T r L → L ≠ []
  tLe : ∀ r L, T r L → ∀ x ∈ L, x.t ≤ M
  tLower : ∀ r L, T r L → ∀ x ∈ L, minT < x.t
  tAtS : ∀ r L, T r L → o.atS r = L.head?
  tAtT : ∀ r L, T r L → o.atT r = L.head?.map (·.t)
  tSeekT : ∀ r L t, T r L → dropLt t L ≠ [] → (o.seek t r).2 = true ∧ T (o.seek t r).1 (dropLt t L)
  tSeekB : ∀ r L t, T r L → dropLt t L = [] → (o.seek t r).2 = false ∨ B (o.seek t r).1
  tAdjust : ∀ r L v, T r L → T (o.adjust v r) L
  tBad : ∀ r L, T r L → o.bad r = false
  bAt : ∀ r, B r → ∃ x, o.atS r = some x ∧ o.atT r = some x.t ∧ M < x.t
  bSeek : ∀ r t, B r → (o.seek t r).2 = false ∨ B (o.seek t r).1
  /-- seeking to a time at or before the current (beyond) sample does not move -/
  bSeekStay : ∀ r t x, B r → o.atT r = some x → t ≤ x → (o.seek t r).2 = true → o.atT (o.seek t r).1 = some x
  bAdjust : ∀ r v, B r → B (o.adjust v r)
  bBad : ∀ r, B r → o.bad r = false
  /-- a failing `Seek` does not panic either -/
  seekBad : ∀ r t, ((∃ L, T r L) ∨ B r) → o.bad (o.seek t r).1 = false
  remFuel : ∀ r, ((∃ L, T r L) ∨ B r) → rem r ≤ o.fuel r
  remPos : ∀ r, ((∃ L, T r L) ∨ B r) → 1 ≤ rem r
  remSeekLe : ∀ r t, ((∃ L, T r L) ∨ B r) → rem (o.seek t r).1 ≤ rem r
  remSeekLt : ∀ r t x, ((∃ L, T r L) ∨ B r) → o.atT r = some x → x < t → (o.seek t r).2 = true →
    rem (o.seek t r).1 < rem r
  remAdjust : ∀ r v, rem (o.adjust v r) = rem r
  atTAdjust : ∀ r v, o.atT (o.adjust v r) = o.atT r

/-- what the first `Next` of a fresh state gives -/
structure TrackInit {ρ : Type} (o : Ops ρ) (T : ρ → List Sample → Prop) (B : ρ → Prop) (s0 : ρ)
    (L : List Sample) : Prop where
  nextT : L ≠ [] → (o.next s0).2 = true ∧ T (o.next s0).1 L
  nextB : L = [] → (o.next s0).2 = false ∨ B (o.next s0).1
  nextBad : o.bad (o.next s0).1 = false

/-! ### boundedSeriesIterator over a list-like iterator with time-sorted samples -/

section leaf
variable {σ : Type} {o : Ops σ} {V : σ → Prop} {abs : σ → List Sample} (mint M : Int)

/-- the bounded iterator follows the samples `≤ M` of the wrapped one -/
def bndT (V : σ → Prop) (abs : σ → List Sample) (mint M : Int) (b : Bnd σ) (L : List Sample) : Prop :=
  V b.inner ∧ b.bad = false ∧ SSorted (abs b.inner) ∧ (∀ x ∈ abs b.inner, mint ≤ x.t) ∧
    L = takeLe M (abs b.inner) ∧ L ≠ []

def bndB (V : σ → Prop) (abs : σ → List Sample) (mint M : Int) (b : Bnd σ) : Prop :=
  V b.inner ∧ b.bad = false ∧ SSorted (abs b.inner) ∧ (∀ x ∈ abs b.inner, mint ≤ x.t) ∧
    ∃ x, (abs b.inner).head? = some x ∧ M < x.t

def bndRem (abs : σ → List Sample) (b : Bnd σ) : Nat := (abs b.inner).length

theorem takeLe_dropLt_comm {M t : Int} : ∀ {l : List Sample}, SSorted l →
    takeLe M (dropLt t l) = dropLt t (takeLe M l)
  | [], _ => rfl
  | a :: l, h => by
    have hp := List.pairwise_cons.mp h
    by_cases ht : a.t < t
    · rw [dropLt_cons_lt ht]
      by_cases hm : a.t ≤ M
      · have : takeLe M (a :: l) = a :: takeLe M l := by simp [takeLe, hm]
        rw [this, dropLt_cons_lt ht]
        exact takeLe_dropLt_comm hp.2
      · -- a > M: everything is > M, both sides empty
        have h1 : takeLe M (a :: l) = [] := by simp [takeLe, hm]
        rw [h1]
        have hall : ∀ x ∈ dropLt t l, ¬ x.t ≤ M := by
          intro x hx
          have := hp.1 x (mem_of_mem_dropLt hx); omega
        cases hd : dropLt t l with
        | nil => rfl
        | cons d r =>
          have := hall d (by rw [hd]; simp)
          simp [takeLe, this]
    · rw [dropLt_cons_ge (by omega)]
      by_cases hm : a.t ≤ M
      · have : takeLe M (a :: l) = a :: takeLe M l := by simp [takeLe, hm]
        rw [this, dropLt_cons_ge (by omega)]
      · have h1 : takeLe M (a :: l) = [] := by simp [takeLe, hm]
        rw [h1]; rfl

theorem takeLe_nil_head {M : Int} {l : List Sample} (h : takeLe M l = []) :
    ∀ x, l.head? = some x → M < x.t := by
  intro x hx
  cases l with
  | nil => simp at hx
  | cons a l =>
    simp at hx; subst hx
    by_cases hm : a.t ≤ M
    · simp [takeLe, hm] at h
    · omega

theorem mem_takeLe_le {M : Int} : ∀ {l : List Sample} {x : Sample}, x ∈ takeLe M l → x.t ≤ M
  | [], x, h => by simp [takeLe] at h
  | a :: l, x, h => by
    by_cases hm : a.t ≤ M
    · have : takeLe M (a :: l) = a :: takeLe M l := by simp [takeLe, hm]
      rw [this] at h
      rcases List.mem_cons.mp h with rfl | h
      · exact hm
      · exact mem_takeLe_le h
    · have : takeLe M (a :: l) = [] := by simp [takeLe, hm]
      rw [this] at h; simp at h

theorem head_takeLe {M : Int} {l : List Sample} (h : takeLe M l ≠ []) :
    (takeLe M l).head? = l.head? := by
  cases l with
  | nil => simp [takeLe] at h
  | cons a l =>
    by_cases hm : a.t ≤ M
    · simp [takeLe, hm]
    · simp [takeLe, hm] at h

theorem ne_of_takeLe_ne {M : Int} {l : List Sample} (h : takeLe M l ≠ []) : l ≠ [] := by
  intro he; rw [he] at h; simp [takeLe] at h

/-- `Seek(max t mint)` on samples that are all `≥ mint` is `Seek(t)` -/
theorem dropLt_clamp {t mint : Int} {l : List Sample} (h : ∀ x ∈ l, mint ≤ x.t) :
    dropLt (if t < mint then mint else t) l = dropLt t l := by
  by_cases ht : t < mint
  · simp only [ht, if_true]
    rw [dropLt_all_ge h, dropLt_all_ge (fun x hx => by have := h x hx; omega)]
  · simp only [ht, if_false]

theorem all_gt_of_head {M : Int} {l : List Sample} (hs : SSorted l) {x : Sample}
    (hx : l.head? = some x) (hM : M < x.t) : ∀ y ∈ l, M < y.t := by
  cases l with
  | nil => simp at hx
  | cons a l =>
    simp at hx; subst hx
    intro y hy
    rcases List.mem_cons.mp hy with rfl | hy
    · exact hM
    · have := (List.pairwise_cons.mp hs).1 y hy; omega

theorem bnd_seek_inner (b : Bnd σ) (t : Int) (ht : ¬ t > M) :
    (bndOps o mint M).seek t b =
      ({ inner := (o.seek (if t < mint then mint else t) b.inner).1, bad := b.bad,
         stopped := b.stopped || decide (t > M) },
       (o.seek (if t < mint then mint else t) b.inner).2) := by
  simp [bndOps, bSeek, ht]

theorem bnd_seek_beyond (b : Bnd σ) (t : Int) (ht : t > M) :
    (bndOps o mint M).seek t b =
      ({ inner := b.inner, bad := b.bad, stopped := b.stopped || decide (t > M) }, false) := by
  simp [bndOps, bSeek, ht]

/-- **A bounded iterator over a list-like one tracks the samples `≤ maxt`.** -/
theorem bnd_trackM (h : ListLike o V abs) :
    TrackM (bndOps o mint M) M (bndT V abs mint M) (bndB V abs mint M) (bndRem abs) where
  tNe := fun r L hT => hT.2.2.2.2.2
  tLe := by
    intro r L hT x hx
    rw [hT.2.2.2.2.1] at hx
    exact mem_takeLe_le hx
  tLower := by
    intro r L hT x hx
    rw [hT.2.2.2.2.1] at hx
    exact h.lower _ hT.1 x ((takeLe_sublist M _).subset hx)
  tAtS := by
    intro r L ⟨hV, _, _, _, hL, hne⟩
    rw [hL] at hne ⊢
    rw [head_takeLe hne]
    exact h.atS _ hV (ne_of_takeLe_ne hne)
  tAtT := by
    intro r L ⟨hV, _, _, _, hL, hne⟩
    rw [hL] at hne ⊢
    rw [head_takeLe hne]
    exact h.atT _ hV (ne_of_takeLe_ne hne)
  tSeekT := by
    intro r L t ⟨hV, hb, hs, hm, hL, hne⟩ hD
    have hane : abs r.inner ≠ [] := by rw [hL] at hne; exact ne_of_takeLe_ne hne
    by_cases ht : t > M
    · exfalso; apply hD
      apply dropLt_all_lt
      intro x hx
      rw [hL] at hx
      have := mem_takeLe_le hx; omega
    · rw [bnd_seek_inner mint M r t ht]
      have habs' : abs (o.seek (if t < mint then mint else t) r.inner).1 = dropLt t (abs r.inner) := by
        rw [h.seekAbs _ _ hV hane, dropLt_clamp hm]
      have hDL : dropLt t L = takeLe M (dropLt t (abs r.inner)) := by
        rw [hL, takeLe_dropLt_comm hs]
      have hne' : dropLt t (abs r.inner) ≠ [] := by
        rw [hDL] at hD; exact ne_of_takeLe_ne hD
      refine ⟨?_, h.seekV _ _ hV hane, hb, ?_, ?_, ?_, ?_⟩
      · simp only
        rw [h.seekOk _ _ hV hane, dropLt_clamp hm]
        cases hd : dropLt t (abs r.inner) with
        | nil => exact absurd hd hne'
        | cons _ _ => rfl
      · simp only; rw [habs']; exact ssorted_dropLt t hs
      · simp only; rw [habs']; exact fun x hx => hm x (mem_of_mem_dropLt hx)
      · simp only; rw [habs']; exact hDL
      · exact hD
  tSeekB := by
    intro r L t ⟨hV, hb, hs, hm, hL, hne⟩ hD
    have hane : abs r.inner ≠ [] := by rw [hL] at hne; exact ne_of_takeLe_ne hne
    by_cases ht : t > M
    · left; rw [bnd_seek_beyond mint M r t ht]
    · rw [bnd_seek_inner mint M r t ht]
      have habs' : abs (o.seek (if t < mint then mint else t) r.inner).1 = dropLt t (abs r.inner) := by
        rw [h.seekAbs _ _ hV hane, dropLt_clamp hm]
      have hDL : takeLe M (dropLt t (abs r.inner)) = [] := by
        rw [takeLe_dropLt_comm hs, ← hL]; exact hD
      cases hd : dropLt t (abs r.inner) with
      | nil =>
        left
        simp only
        rw [h.seekOk _ _ hV hane, dropLt_clamp hm, hd]; rfl
      | cons d rest =>
        right
        refine ⟨h.seekV _ _ hV hane, hb, ?_, ?_, d, ?_, ?_⟩
        · simp only; rw [habs']; exact ssorted_dropLt t hs
        · simp only; rw [habs']; exact fun x hx => hm x (mem_of_mem_dropLt hx)
        · simp only; rw [habs', hd]; rfl
        · exact takeLe_nil_head hDL d (by rw [hd]; rfl)
  tAdjust := fun r L v hT => hT
  tBad := by
    intro r L ⟨hV, hb, _⟩
    simp [bndOps, hb, h.bad _ hV]
  bAt := by
    intro r ⟨hV, _, _, _, x, hx, hM⟩
    have hane : abs r.inner ≠ [] := by intro he; rw [he] at hx; simp at hx
    refine ⟨x, ?_, ?_, hM⟩
    · show o.atS r.inner = some x
      rw [h.atS _ hV hane, hx]
    · show o.atT r.inner = some x.t
      rw [h.atT _ hV hane, hx]; rfl
  bSeek := by
    intro r t ⟨hV, hb, hs, hm, x, hx, hM⟩
    have hane : abs r.inner ≠ [] := by intro he; rw [he] at hx; simp at hx
    by_cases ht : t > M
    · left; rw [bnd_seek_beyond mint M r t ht]
    · rw [bnd_seek_inner mint M r t ht]
      have habs' : abs (o.seek (if t < mint then mint else t) r.inner).1 = dropLt t (abs r.inner) := by
        rw [h.seekAbs _ _ hV hane, dropLt_clamp hm]
      cases hd : dropLt t (abs r.inner) with
      | nil =>
        left
        simp only
        rw [h.seekOk _ _ hV hane, dropLt_clamp hm, hd]; rfl
      | cons d rest =>
        right
        refine ⟨h.seekV _ _ hV hane, hb, ?_, ?_, d, ?_, ?_⟩
        · simp only; rw [habs']; exact ssorted_dropLt t hs
        · simp only; rw [habs']; exact fun y hy => hm y (mem_of_mem_dropLt hy)
        · simp only; rw [habs', hd]; rfl
        · exact all_gt_of_head hs hx hM d (mem_of_mem_dropLt (by rw [hd]; simp))
  bSeekStay := by
    intro r t x ⟨hV, hb, hs, hm, y, hy, hM⟩ hat hle hok
    have hane : abs r.inner ≠ [] := by intro he; rw [he] at hy; simp at hy
    have hat' : o.atT r.inner = some x := hat
    rw [h.atT _ hV hane, hy] at hat'
    simp at hat'
    by_cases ht : t > M
    · rw [bnd_seek_beyond mint M r t ht] at hok; simp at hok
    · rw [bnd_seek_inner mint M r t ht]
      show o.atT (o.seek (if t < mint then mint else t) r.inner).1 = some x
      have hV' := h.seekV _ (if t < mint then mint else t) hV hane
      have habs' : abs (o.seek (if t < mint then mint else t) r.inner).1 = abs r.inner := by
        rw [h.seekAbs _ _ hV hane, dropLt_clamp hm]
        apply dropLt_eq_self
        intro z hz; rw [hy] at hz; cases hz; omega
      rw [h.atT _ hV' (by rw [habs']; exact hane), habs', hy]
      simp [hat']
  bAdjust := fun r v hB => hB
  bBad := by
    intro r ⟨hV, hb, _⟩
    simp [bndOps, hb, h.bad _ hV]
  seekBad := by
    intro r t hv
    have hVb : V r.inner ∧ r.bad = false ∧ abs r.inner ≠ [] := by
      rcases hv with ⟨L, hV, hb, _, _, hL, hne⟩ | ⟨hV, hb, _, _, x, hx, _⟩
      · exact ⟨hV, hb, by rw [hL] at hne; exact ne_of_takeLe_ne hne⟩
      · exact ⟨hV, hb, by intro he; rw [he] at hx; simp at hx⟩
    obtain ⟨hV, hb, hane⟩ := hVb
    by_cases ht : t > M
    · rw [bnd_seek_beyond mint M r t ht]; simp [bndOps, hb, h.bad _ hV]
    · rw [bnd_seek_inner mint M r t ht]
      simp [bndOps, hb, h.bad _ (h.seekV _ _ hV hane)]
  remFuel := by
    intro r hv
    have hV : V r.inner := by
      rcases hv with ⟨L, hV, _⟩ | ⟨hV, _⟩ <;> exact hV
    exact h.fuel _ hV
  remPos := by
    intro r hv
    have hane : abs r.inner ≠ [] := by
      rcases hv with ⟨L, _, _, _, _, hL, hne⟩ | ⟨_, _, _, _, x, hx, _⟩
      · rw [hL] at hne; exact ne_of_takeLe_ne hne
      · intro he; rw [he] at hx; simp at hx
    unfold bndRem
    cases habs : abs r.inner with
    | nil => exact absurd habs hane
    | cons _ _ => simp
  remSeekLe := by
    intro r t hv
    have hVb : V r.inner ∧ abs r.inner ≠ [] ∧ ∀ x ∈ abs r.inner, mint ≤ x.t := by
      rcases hv with ⟨L, hV, _, _, hm, hL, hne⟩ | ⟨hV, _, _, hm, x, hx, _⟩
      · exact ⟨hV, by rw [hL] at hne; exact ne_of_takeLe_ne hne, hm⟩
      · exact ⟨hV, by intro he; rw [he] at hx; simp at hx, hm⟩
    obtain ⟨hV, hane, hm⟩ := hVb
    unfold bndRem
    by_cases ht : t > M
    · rw [bnd_seek_beyond mint M r t ht]; exact Nat.le_refl _
    · rw [bnd_seek_inner mint M r t ht]
      simp only
      rw [h.seekAbs _ _ hV hane, dropLt_clamp hm]
      exact dropLt_length_le _ _
  remSeekLt := by
    intro r t x hv hat hlt hok
    have hVb : V r.inner ∧ abs r.inner ≠ [] ∧ ∀ x ∈ abs r.inner, mint ≤ x.t := by
      rcases hv with ⟨L, hV, _, _, hm, hL, hne⟩ | ⟨hV, _, _, hm, x, hx, _⟩
      · exact ⟨hV, by rw [hL] at hne; exact ne_of_takeLe_ne hne, hm⟩
      · exact ⟨hV, by intro he; rw [he] at hx; simp at hx, hm⟩
    obtain ⟨hV, hane, hm⟩ := hVb
    unfold bndRem
    by_cases ht : t > M
    · rw [bnd_seek_beyond mint M r t ht] at hok; simp at hok
    · rw [bnd_seek_inner mint M r t ht]
      simp only
      rw [h.seekAbs _ _ hV hane, dropLt_clamp hm]
      have hat' : o.atT r.inner = some x := hat
      rw [h.atT _ hV hane] at hat'
      cases habs : abs r.inner with
      | nil => exact absurd habs hane
      | cons a l =>
        rw [habs] at hat'
        simp at hat'
        rw [dropLt_cons_lt (by omega)]
        have := dropLt_length_le t l
        simp only [List.length_cons]; omega
  remAdjust := fun r v => rfl
  atTAdjust := fun r v => rfl

/-- the first `Next` of a bounded iterator over a fresh list-like one -/
theorem bNext_fresh (h : ListLike o V abs) {s0 : σ} {L : List Sample} (hi : InitNext o V abs s0 L)
    (hs : SSorted L) :
    ∃ s1 ok, bNext o mint M s0 = some (s1, ok) ∧ V s1 ∧
      (ok = true → abs s1 = dropLt mint L ∧ takeLe M (dropLt mint L) ≠ []) ∧
      (ok = false → takeLe M (dropLt mint L) = []) := by
  have hempty : ∀ {D : List Sample}, (∀ x, D.head? = some x → M < x.t) → takeLe M D = [] := by
    intro D hD
    cases D with
    | nil => rfl
    | cons d r =>
      have := hD d rfl
      have hnd : ¬ d.t ≤ M := by omega
      simp [takeLe, hnd]
  cases hL : L with
  | nil =>
    refine ⟨(o.next s0).1, false, ?_, hi.nextV, fun hc => Bool.noConfusion hc, fun _ => (by simp [takeLe])⟩
    unfold bNext; simp [hi.nextOk, hL]
  | cons y rest =>
    have hne : abs (o.next s0).1 ≠ [] := by rw [hi.nextAbs, hL]; simp
    have hat : o.atT (o.next s0).1 = some y.t := by rw [h.atT _ hi.nextV hne, hi.nextAbs, hL]; rfl
    have hok : (o.next s0).2 = true := by rw [hi.nextOk, hL]; rfl
    have hsL : SSorted (y :: rest) := by rw [← hL]; exact hs
    by_cases hym : y.t < mint
    · by_cases hmm : mint > M
      · refine ⟨(o.next s0).1, false, ?_, hi.nextV, fun hc => Bool.noConfusion hc, fun _ => ?_⟩
        · unfold bNext bSeek; simp [hok, hat, hym, hmm]
        · apply hempty
          intro x hx
          have := head_dropLt_ge hx; omega
      · have hV2 := h.seekV _ mint hi.nextV hne
        have habs2 : abs (o.seek mint (o.next s0).1).1 = dropLt mint (y :: rest) := by
          rw [h.seekAbs _ mint hi.nextV hne, hi.nextAbs, hL]
        have hok2 : (o.seek mint (o.next s0).1).2 = !(dropLt mint (y :: rest)).isEmpty := by
          rw [h.seekOk _ mint hi.nextV hne, hi.nextAbs, hL]
        cases hD : dropLt mint (y :: rest) with
        | nil =>
          rw [hD] at hok2
          refine ⟨(o.seek mint (o.next s0).1).1, false, ?_, hV2, fun hc => Bool.noConfusion hc, fun _ => (by simp [takeLe])⟩
          unfold bNext bSeek; simp [hok, hat, hym, hmm, hok2]
        | cons d r =>
          rw [hD] at hok2 habs2
          have hne2 : abs (o.seek mint (o.next s0).1).1 ≠ [] := by rw [habs2]; simp
          have hat2 : o.atT (o.seek mint (o.next s0).1).1 = some d.t := by
            rw [h.atT _ hV2 hne2, habs2]; rfl
          refine ⟨(o.seek mint (o.next s0).1).1, decide (d.t ≤ M), ?_, hV2, ?_, ?_⟩
          · unfold bNext bSeek; simp [hok, hat, hym, hmm, hok2, hat2]
          · intro hc
            simp at hc
            exact ⟨habs2, by simp [takeLe, hc]⟩
          · intro hc
            simp at hc
            have hnd : ¬ d.t ≤ M := by omega
            simp [takeLe, hnd]
    · have hD : dropLt mint (y :: rest) = y :: rest := dropLt_cons_ge (by omega)
      rw [hD]
      refine ⟨(o.next s0).1, decide (y.t ≤ M), ?_, hi.nextV, ?_, ?_⟩
      · unfold bNext; simp [hok, hat, hym]
      · intro hc
        simp at hc
        exact ⟨by rw [hi.nextAbs, hL], by simp [takeLe, hc]⟩
      · intro hc
        simp at hc
        have hnd : ¬ y.t ≤ M := by omega
        simp [takeLe, hnd]

theorem bnd_trackInit (h : ListLike o V abs) {s0 : σ} {L : List Sample} (hi : InitNext o V abs s0 L)
    (hs : SSorted L) :
    TrackInit (bndOps o mint M) (bndT V abs mint M) (bndB V abs mint M)
      { inner := s0, bad := false, stopped := false } (takeLe M (dropLt mint L)) := by
  obtain ⟨s1, ok, hb, hV1, h1, h2⟩ := bNext_fresh mint M h hi hs
  have hnext : (bndOps o mint M).next { inner := s0, bad := false, stopped := false } =
      ({ inner := s1, bad := false, stopped := false }, ok) := by
    simp [bndOps, hb]
  refine ⟨?_, ?_, ?_⟩
  · intro hne
    rw [hnext]
    cases ok with
    | false => exact absurd (h2 rfl) hne
    | true =>
      obtain ⟨habs, _⟩ := h1 rfl
      refine ⟨rfl, hV1, rfl, ?_, ?_, ?_, hne⟩
      · simp only; rw [habs]; exact ssorted_dropLt mint hs
      · simp only; rw [habs]
        intro x hx
        -- sorted and the head is ≥ mint
        cases hD : dropLt mint L with
        | nil => rw [hD] at hx; simp at hx
        | cons d r =>
          have hd : mint ≤ d.t := head_dropLt_ge (by rw [hD]; rfl)
          have hsD : SSorted (d :: r) := by rw [← hD]; exact ssorted_dropLt mint hs
          rw [hD] at hx
          rcases List.mem_cons.mp hx with rfl | hx
          · exact hd
          · have := (List.pairwise_cons.mp hsD).1 x hx; omega
      · simp only; rw [habs]
  · intro he
    rw [hnext]
    cases ok with
    | false => exact Or.inl rfl
    | true => exact absurd he (h1 rfl).2
  · rw [hnext]
    simp [bndOps, h.bad _ hV1]

end leaf

/-! ### dedupSeriesIterator over two iterators that track lists up to `M` -/

/-- status of a side of the node: tracking `l`, beyond `M`, or dead (`ValNone` was returned) -/
def ChildSt {γ : Type} (o : Ops γ) (T : γ → List Sample → Prop) (B : γ → Prop) (c : γ) (av : Bool)
    (l : List Sample) : Prop :=
  (l ≠ [] ∧ av = true ∧ T c l) ∨ (l = [] ∧ av = true ∧ B c) ∨ (l = [] ∧ av = false ∧ o.bad c = false)

def remOf {γ : Type} (rem : γ → Nat) (c : γ) (av : Bool) : Nat := if av then rem c else 0

section node
variable {α β : Type} {oa : Ops α} {ob : Ops β} {M : Int}
  {Ta : α → List Sample → Prop} {Ba : α → Prop} {ra : α → Nat}
  {Tb : β → List Sample → Prop} {Bb : β → Prop} {rb : β → Nat}

theorem ChildSt.nbad {γ : Type} {o : Ops γ} {T : γ → List Sample → Prop} {B : γ → Prop} {r : γ → Nat}
    (h : TrackM o M T B r) {c : γ} {av : Bool} {l : List Sample} (hc : ChildSt o T B c av l) :
    o.bad c = false := by
  rcases hc with ⟨_, _, hT⟩ | ⟨_, _, hB⟩ | ⟨_, _, hb⟩
  · exact h.tBad _ _ hT
  · exact h.bBad _ hB
  · exact hb

theorem ChildSt.valid {γ : Type} {o : Ops γ} {T : γ → List Sample → Prop} {B : γ → Prop}
    {c : γ} {l : List Sample} (hc : ChildSt o T B c true l) : (∃ L, T c L) ∨ B c := by
  rcases hc with ⟨_, _, hT⟩ | ⟨_, _, hB⟩ | ⟨_, hf, _⟩
  · exact Or.inl ⟨_, hT⟩
  · exact Or.inr hB
  · cases hf

/-- statuses of both sides, no panic so far -/
def NodeSt (oa : Ops α) (ob : Ops β) (Ta : α → List Sample → Prop) (Ba : α → Prop)
    (Tb : β → List Sample → Prop) (Bb : β → Prop) (s : Node α β) (la lb : List Sample) : Prop :=
  s.bad = false ∧ ChildSt oa Ta Ba s.a s.aval la ∧ ChildSt ob Tb Bb s.b s.bval lb

/-- the node follows `L` -/
def nodeT (oa : Ops α) (ob : Ops β) (Ta : α → List Sample → Prop) (Ba : α → Prop)
    (Tb : β → List Sample → Prop) (Bb : β → Prop) (s : Node α β) (L : List Sample) : Prop :=
  ∃ la lb, NodeSt oa ob Ta Ba Tb Bb s la lb ∧ s.lastIsA = s.useA ∧
    (if s.lastIsA then s.penA = 0 else s.penB = 0) ∧
    ∃ cur, (if s.lastIsA then la else lb).head? = some cur ∧ cur.t = s.lastT ∧
      L = cur :: pm2 s.lastT (dropLt (s.lastT + 1 + s.penA) la) (dropLt (s.lastT + 1 + s.penB) lb)

/-- the node stands on a sample beyond `M`; no side tracks anything any more -/
def nodeB (oa : Ops α) (ob : Ops β) (Ta : α → List Sample → Prop) (Ba : α → Prop)
    (Tb : β → List Sample → Prop) (Bb : β → Prop) (s : Node α β) : Prop :=
  NodeSt oa ob Ta Ba Tb Bb s [] [] ∧ s.lastIsA = s.useA ∧
    (if s.lastIsA then s.aval = true ∧ Ba s.a ∧ oa.atT s.a = some s.lastT ∧ s.penA = 0
     else s.bval = true ∧ Bb s.b ∧ ob.atT s.b = some s.lastT ∧ s.penB = 0)

def nodeRem (ra : α → Nat) (rb : β → Nat) (s : Node α β) : Nat :=
  remOf ra s.a s.aval + remOf rb s.b s.bval

theorem pm2_eq_nil {lastT : Int} {la lb : List Sample} : pm2 lastT la lb = [] ↔ la = [] ∧ lb = [] := by
  cases la <;> cases lb
  · simp [pm2]
  · rw [pm2]; simp
  · rw [pm2]; simp
  · rw [pm2]; split <;> simp

/-- one `Seek` of a side at the start of `Next` -/
theorem stepA_track (ha : TrackM oa M Ta Ba ra) {s : Node α β} {la : List Sample}
    (hc : ChildSt oa Ta Ba s.a s.aval la) :
    ChildSt oa Ta Ba (stepA oa s).1 (stepA oa s).2 (dropLt (s.lastT + 1 + s.penA) la) := by
  unfold stepA
  cases hav : s.aval with
  | false =>
    rw [hav] at hc
    rcases hc with ⟨_, hf, _⟩ | ⟨_, hf, _⟩ | ⟨hl, _, hb⟩
    · cases hf
    · cases hf
    · simp only [Bool.false_eq_true, if_false]
      exact Or.inr (Or.inr ⟨by rw [hl]; rfl, rfl, hb⟩)
  | true =>
    rw [hav] at hc
    simp only [if_true]
    rcases hc with ⟨_, _, hT⟩ | ⟨hl, _, hB⟩ | ⟨_, hf, _⟩
    · by_cases hD : dropLt (s.lastT + 1 + s.penA) la = []
      · rw [hD]
        rcases ha.tSeekB _ _ _ hT hD with h | h
        · exact Or.inr (Or.inr ⟨rfl, h, ha.seekBad _ _ (Or.inl ⟨_, hT⟩)⟩)
        · cases hok : (oa.seek (s.lastT + 1 + s.penA) s.a).2 with
          | true => exact Or.inr (Or.inl ⟨rfl, rfl, h⟩)
          | false => exact Or.inr (Or.inr ⟨rfl, rfl, ha.seekBad _ _ (Or.inl ⟨_, hT⟩)⟩)
      · obtain ⟨h1, h2⟩ := ha.tSeekT _ _ _ hT hD
        exact Or.inl ⟨hD, h1, h2⟩
    · rw [hl]
      simp only [dropLt_nil]
      rcases ha.bSeek _ (s.lastT + 1 + s.penA) hB with h | h
      · exact Or.inr (Or.inr ⟨rfl, h, ha.seekBad _ _ (Or.inr hB)⟩)
      · cases hok : (oa.seek (s.lastT + 1 + s.penA) s.a).2 with
        | true => exact Or.inr (Or.inl ⟨rfl, rfl, h⟩)
        | false => exact Or.inr (Or.inr ⟨rfl, rfl, ha.seekBad _ _ (Or.inr hB)⟩)
    · cases hf

theorem stepB_track (hb : TrackM ob M Tb Bb rb) {s : Node α β} {lb : List Sample}
    (hc : ChildSt ob Tb Bb s.b s.bval lb) :
    ChildSt ob Tb Bb (stepB ob s).1 (stepB ob s).2 (dropLt (s.lastT + 1 + s.penB) lb) := by
  unfold stepB
  cases hbv : s.bval with
  | false =>
    rw [hbv] at hc
    rcases hc with ⟨_, hf, _⟩ | ⟨_, hf, _⟩ | ⟨hl, _, hbd⟩
    · cases hf
    · cases hf
    · simp only [Bool.false_eq_true, if_false]
      exact Or.inr (Or.inr ⟨by rw [hl]; rfl, rfl, hbd⟩)
  | true =>
    rw [hbv] at hc
    simp only [if_true]
    rcases hc with ⟨_, _, hT⟩ | ⟨hl, _, hB⟩ | ⟨_, hf, _⟩
    · by_cases hD : dropLt (s.lastT + 1 + s.penB) lb = []
      · rw [hD]
        rcases hb.tSeekB _ _ _ hT hD with h | h
        · exact Or.inr (Or.inr ⟨rfl, h, hb.seekBad _ _ (Or.inl ⟨_, hT⟩)⟩)
        · cases hok : (ob.seek (s.lastT + 1 + s.penB) s.b).2 with
          | true => exact Or.inr (Or.inl ⟨rfl, rfl, h⟩)
          | false => exact Or.inr (Or.inr ⟨rfl, rfl, hb.seekBad _ _ (Or.inl ⟨_, hT⟩)⟩)
      · obtain ⟨h1, h2⟩ := hb.tSeekT _ _ _ hT hD
        exact Or.inl ⟨hD, h1, h2⟩
    · rw [hl]
      simp only [dropLt_nil]
      rcases hb.bSeek _ (s.lastT + 1 + s.penB) hB with h | h
      · exact Or.inr (Or.inr ⟨rfl, h, hb.seekBad _ _ (Or.inr hB)⟩)
      · cases hok : (ob.seek (s.lastT + 1 + s.penB) s.b).2 with
        | true => exact Or.inr (Or.inl ⟨rfl, rfl, h⟩)
        | false => exact Or.inr (Or.inr ⟨rfl, rfl, hb.seekBad _ _ (Or.inr hB)⟩)
    · cases hf

/-- picking the side to emit, from the statuses of the two (already sought) sides -/
theorem nodeChoose_track (ha : TrackM oa M Ta Ba ra) (hb : TrackM ob M Tb Bb rb) (s : Node α β)
    {la lb : List Sample} (hst : NodeSt oa ob Ta Ba Tb Bb s la lb) :
    (pm2 s.lastT la lb ≠ [] →
      (nodeChoose oa ob s).2 = true ∧ nodeT oa ob Ta Ba Tb Bb (nodeChoose oa ob s).1 (pm2 s.lastT la lb)) ∧
    (pm2 s.lastT la lb = [] →
      ((nodeChoose oa ob s).2 = false ∧ NodeSt oa ob Ta Ba Tb Bb (nodeChoose oa ob s).1 [] []) ∨
      ((nodeChoose oa ob s).2 = true ∧ nodeB oa ob Ta Ba Tb Bb (nodeChoose oa ob s).1)) := by
  obtain ⟨hnb, hca, hcb⟩ := hst
  unfold nodeChoose
  rcases hca with ⟨hla, hav, hTa⟩ | ⟨hla, hav, hBa⟩ | ⟨hla, hav, hda⟩
  · -- a tracks x :: ta
    obtain ⟨x, ta, rfl⟩ : ∃ x ta, la = x :: ta := by
      cases la with
      | nil => exact absurd rfl hla
      | cons x ta => exact ⟨x, ta, rfl⟩
    have hatA : oa.atT s.a = some x.t := by rw [ha.tAtT _ _ hTa]; rfl
    have hxM : x.t ≤ M := ha.tLe _ _ hTa x (by simp)
    rcases hcb with ⟨hlb, hbv, hTb⟩ | ⟨hlb, hbv, hBb⟩ | ⟨hlb, hbv, hdb⟩
    · -- b tracks y :: tb
      obtain ⟨y, tb, rfl⟩ : ∃ y tb, lb = y :: tb := by
        cases lb with
        | nil => exact absurd rfl hlb
        | cons y tb => exact ⟨y, tb, rfl⟩
      have hatB : ob.atT s.b = some y.t := by rw [hb.tAtT _ _ hTb]; rfl
      simp only [hav, hbv, Bool.not_true, Bool.false_eq_true, if_false, hatA, hatB]
      refine ⟨fun _ => ?_, fun he => by rw [pm2] at he; split at he <;> simp at he⟩
      by_cases hle : x.t ≤ y.t
      · simp only [hle, if_true]
        refine ⟨(by first | rfl | trivial), x :: ta, y :: tb, ⟨hnb, Or.inl ⟨by simp, (by first | rfl | assumption), hTa⟩, Or.inl ⟨by simp, (by first | rfl | assumption), hTb⟩⟩, rfl, (by first | rfl | trivial),
          x, rfl, rfl, ?_⟩
        rw [pm2]
        simp only [hle, if_true, Int.add_zero]
        rw [dropLt_cons_lt (show x.t < x.t + 1 by omega)]
        rfl
      · simp only [hle, if_false]
        refine ⟨(by first | rfl | trivial), x :: ta, y :: tb, ⟨hnb, Or.inl ⟨by simp, (by first | rfl | assumption), hTa⟩, Or.inl ⟨by simp, (by first | rfl | assumption), hTb⟩⟩, rfl, (by first | rfl | trivial),
          y, rfl, rfl, ?_⟩
        rw [pm2]
        simp only [hle, if_false, Int.add_zero]
        rw [dropLt_cons_lt (show y.t < y.t + 1 by omega)]
        rfl
    · -- b beyond
      subst hlb
      obtain ⟨e, _, hatB, heM⟩ := hb.bAt _ hBb
      have hle : x.t ≤ e.t := by omega
      simp only [hav, hbv, Bool.not_true, Bool.false_eq_true, if_false, hatA, hatB, hle, if_true]
      refine ⟨fun _ => ?_, fun he => by rw [pm2] at he; simp at he⟩
      refine ⟨(by first | rfl | trivial), x :: ta, [], ⟨hnb, Or.inl ⟨by simp, (by first | rfl | assumption), hTa⟩, Or.inr (Or.inl ⟨rfl, (by first | rfl | assumption), hBb⟩)⟩, rfl, (by first | rfl | trivial),
        x, rfl, rfl, ?_⟩
      rw [pm2]
      simp only [Int.add_zero, dropLt_nil]
      rw [dropLt_cons_lt (show x.t < x.t + 1 by omega)]
    · -- b dead
      subst hlb
      simp only [hav, hbv, Bool.not_true, Bool.not_false, Bool.false_eq_true, if_false, if_true, hatA]
      refine ⟨fun _ => ?_, fun he => by rw [pm2] at he; simp at he⟩
      refine ⟨(by first | rfl | trivial), x :: ta, [], ⟨hnb, Or.inl ⟨by simp, (by first | rfl | assumption), hTa⟩, Or.inr (Or.inr ⟨rfl, (by first | rfl | assumption), hdb⟩)⟩, rfl, (by first | rfl | trivial),
        x, rfl, rfl, ?_⟩
      rw [pm2]
      simp only [Int.add_zero, dropLt_nil]
      rw [dropLt_cons_lt (show x.t < x.t + 1 by omega)]
  · -- a beyond
    subst hla
    obtain ⟨e, _, hatA, heM⟩ := ha.bAt _ hBa
    rcases hcb with ⟨hlb, hbv, hTb⟩ | ⟨hlb, hbv, hBb⟩ | ⟨hlb, hbv, hdb⟩
    · obtain ⟨y, tb, rfl⟩ : ∃ y tb, lb = y :: tb := by
        cases lb with
        | nil => exact absurd rfl hlb
        | cons y tb => exact ⟨y, tb, rfl⟩
      have hatB : ob.atT s.b = some y.t := by rw [hb.tAtT _ _ hTb]; rfl
      have hyM : y.t ≤ M := hb.tLe _ _ hTb y (by simp)
      have hle : ¬ e.t ≤ y.t := by omega
      simp only [hav, hbv, Bool.not_true, Bool.false_eq_true, if_false, hatA, hatB, hle]
      refine ⟨fun _ => ?_, fun he => by rw [pm2] at he; simp at he⟩
      refine ⟨(by first | rfl | trivial), [], y :: tb, ⟨hnb, Or.inr (Or.inl ⟨rfl, (by first | rfl | assumption), hBa⟩), Or.inl ⟨by simp, (by first | rfl | assumption), hTb⟩⟩, rfl, rfl,
        y, rfl, rfl, ?_⟩
      rw [pm2]
      simp only [Int.add_zero, dropLt_nil]
      rw [dropLt_cons_lt (show y.t < y.t + 1 by omega)]
    · subst hlb
      obtain ⟨e2, _, hatB, heM2⟩ := hb.bAt _ hBb
      simp only [hav, hbv, Bool.not_true, Bool.false_eq_true, if_false, hatA, hatB]
      refine ⟨fun hne => absurd (by simp [pm2]) hne, fun _ => Or.inr ?_⟩
      by_cases hle : e.t ≤ e2.t
      · simp only [hle, if_true]
        exact ⟨(by first | rfl | trivial), ⟨hnb, Or.inr (Or.inl ⟨rfl, (by first | rfl | assumption), hBa⟩), Or.inr (Or.inl ⟨rfl, (by first | rfl | assumption), hBb⟩)⟩, rfl,
          by simp [hav, hBa, hatA]⟩
      · simp only [hle, if_false]
        exact ⟨(by first | rfl | trivial), ⟨hnb, Or.inr (Or.inl ⟨rfl, (by first | rfl | assumption), hBa⟩), Or.inr (Or.inl ⟨rfl, (by first | rfl | assumption), hBb⟩)⟩, rfl,
          by simp [hbv, hBb, hatB]⟩
    · subst hlb
      simp only [hav, hbv, Bool.not_true, Bool.not_false, Bool.false_eq_true, if_false, if_true, hatA]
      refine ⟨fun hne => absurd (by simp [pm2]) hne, fun _ => Or.inr ?_⟩
      exact ⟨(by first | rfl | trivial), ⟨hnb, Or.inr (Or.inl ⟨rfl, (by first | rfl | assumption), hBa⟩), Or.inr (Or.inr ⟨rfl, (by first | rfl | assumption), hdb⟩)⟩, rfl,
        by simp [hav, hBa, hatA]⟩
  · -- a dead
    subst hla
    rcases hcb with ⟨hlb, hbv, hTb⟩ | ⟨hlb, hbv, hBb⟩ | ⟨hlb, hbv, hdb⟩
    · obtain ⟨y, tb, rfl⟩ : ∃ y tb, lb = y :: tb := by
        cases lb with
        | nil => exact absurd rfl hlb
        | cons y tb => exact ⟨y, tb, rfl⟩
      have hatB : ob.atT s.b = some y.t := by rw [hb.tAtT _ _ hTb]; rfl
      simp only [hav, hbv, Bool.not_false, if_true, hatB]
      refine ⟨fun _ => ?_, fun he => by rw [pm2] at he; simp at he⟩
      refine ⟨(by first | rfl | trivial), [], y :: tb, ⟨hnb, Or.inr (Or.inr ⟨rfl, (by first | rfl | assumption), hda⟩), Or.inl ⟨by simp, (by first | rfl | assumption), hTb⟩⟩, rfl, rfl,
        y, rfl, rfl, ?_⟩
      rw [pm2]
      simp only [Int.add_zero, dropLt_nil]
      rw [dropLt_cons_lt (show y.t < y.t + 1 by omega)]
    · subst hlb
      obtain ⟨e2, _, hatB, heM2⟩ := hb.bAt _ hBb
      simp only [hav, hbv, Bool.not_false, if_true, hatB]
      refine ⟨fun hne => absurd (by simp [pm2]) hne, fun _ => Or.inr ?_⟩
      exact ⟨(by first | rfl | trivial), ⟨hnb, Or.inr (Or.inr ⟨rfl, (by first | rfl | assumption), hda⟩), Or.inr (Or.inl ⟨rfl, (by first | rfl | assumption), hBb⟩)⟩, rfl,
        by simp [hbv, hBb, hatB]⟩
    · subst hlb
      simp only [hav, hbv, Bool.not_false, if_true, Bool.false_eq_true, if_false]
      refine ⟨fun hne => absurd (by simp [pm2]) hne, fun _ => Or.inl ?_⟩
      exact ⟨(by first | rfl | trivial), hnb, Or.inr (Or.inr ⟨rfl, (by first | rfl | assumption), hda⟩), Or.inr (Or.inr ⟨rfl, (by first | rfl | assumption), hdb⟩)⟩

/-- `nodeChoose` never touches the sides -/
theorem nodeChoose_fields (s : Node α β) :
    (nodeChoose oa ob s).1.a = s.a ∧ (nodeChoose oa ob s).1.b = s.b ∧
    (nodeChoose oa ob s).1.aval = s.aval ∧ (nodeChoose oa ob s).1.bval = s.bval := by
  unfold nodeChoose
  cases s.aval <;> cases s.bval <;> simp only [Bool.not_true, Bool.not_false, Bool.false_eq_true, if_true, if_false]
  · simp
  · split <;> simp
  · split <;> simp
  · split
    · split <;> simp
    · simp

theorem childSt_adjust {γ : Type} {o : Ops γ} {T : γ → List Sample → Prop} {B : γ → Prop} {r : γ → Nat}
    (h : TrackM o M T B r) (v : Int) {c : γ} {av : Bool} {l : List Sample} (hc : ChildSt o T B c av l) :
    ChildSt o T B (if av then o.adjust v c else c) av l := by
  rcases hc with ⟨hl, hav, hT⟩ | ⟨hl, hav, hB⟩ | ⟨hl, hav, hb⟩
  · rw [hav]; exact Or.inl ⟨hl, rfl, h.tAdjust _ _ v hT⟩
  · rw [hav]; exact Or.inr (Or.inl ⟨hl, rfl, h.bAdjust _ v hB⟩)
  · rw [hav]; exact Or.inr (Or.inr ⟨hl, rfl, hb⟩)

/-- `adjustAtValue` keeps what the node follows -/
theorem nodeAdjust_track (ha : TrackM oa M Ta Ba ra) (hb : TrackM ob M Tb Bb rb) (v : Int) (s : Node α β) :
    (∀ la lb, NodeSt oa ob Ta Ba Tb Bb s la lb → NodeSt oa ob Ta Ba Tb Bb (nodeAdjust oa ob v s) la lb) ∧
    (∀ L, nodeT oa ob Ta Ba Tb Bb s L → nodeT oa ob Ta Ba Tb Bb (nodeAdjust oa ob v s) L) ∧
    (nodeB oa ob Ta Ba Tb Bb s → nodeB oa ob Ta Ba Tb Bb (nodeAdjust oa ob v s)) ∧
    nodeRem ra rb (nodeAdjust oa ob v s) = nodeRem ra rb s := by
  obtain ⟨p1, p2, p3, p4, p5, p6⟩ := nodeAdjust_proj (oa := oa) (ob := ob) v s
  obtain ⟨q1, q2, q3, q4⟩ := nodeAdjust_fields (oa := oa) (ob := ob) v s
  have hst : ∀ la lb, NodeSt oa ob Ta Ba Tb Bb s la lb →
      NodeSt oa ob Ta Ba Tb Bb (nodeAdjust oa ob v s) la lb := by
    intro la lb ⟨hnb, hca, hcb⟩
    refine ⟨by rw [q4]; exact hnb, ?_, ?_⟩
    · rw [p5, p1]; exact childSt_adjust ha v hca
    · rw [p6, p2]; exact childSt_adjust hb v hcb
  refine ⟨hst, ?_, ?_, ?_⟩
  · rintro L ⟨la, lb, hns, hsame, hpen, cur, hcur, hct, hL⟩
    refine ⟨la, lb, hst la lb hns, by rw [p4, p3]; exact hsame, by rw [p4, q2, q3]; exact hpen,
      cur, by rw [p4]; exact hcur, by rw [q1]; exact hct, by rw [q1, q2, q3]; exact hL⟩
  · rintro ⟨hns, hsame, hch⟩
    refine ⟨hst _ _ hns, by rw [p4, p3]; exact hsame, ?_⟩
    rw [p4, p1, p2, p5, p6, q1, q2, q3]
    cases hl : s.lastIsA with
    | true =>
      rw [hl] at hch
      simp only [if_true] at hch ⊢
      obtain ⟨h1, h2, h3, h4⟩ := hch
      simp only [h1, if_true]
      exact ⟨trivial, ha.bAdjust _ v h2, by rw [ha.atTAdjust]; exact h3, h4⟩
    | false =>
      rw [hl] at hch
      simp only [Bool.false_eq_true, if_false] at hch ⊢
      obtain ⟨h1, h2, h3, h4⟩ := hch
      simp only [h1, if_true]
      exact ⟨trivial, hb.bAdjust _ v h2, by rw [hb.atTAdjust]; exact h3, h4⟩
  · unfold nodeRem remOf
    rw [p1, p2, p5, p6]
    cases s.aval <;> cases s.bval <;> simp [ha.remAdjust, hb.remAdjust]

theorem remOf_stepA_le (ha : TrackM oa M Ta Ba ra) {s : Node α β} {la : List Sample}
    (hc : ChildSt oa Ta Ba s.a s.aval la) :
    remOf ra (stepA oa s).1 (stepA oa s).2 ≤ remOf ra s.a s.aval := by
  unfold stepA remOf
  cases hav : s.aval with
  | false => simp
  | true =>
    rw [hav] at hc
    simp only [if_true]
    cases hok : (oa.seek (s.lastT + 1 + s.penA) s.a).2 with
    | false => simp
    | true => simpa using ha.remSeekLe _ _ hc.valid

theorem remOf_stepB_le (hb : TrackM ob M Tb Bb rb) {s : Node α β} {lb : List Sample}
    (hc : ChildSt ob Tb Bb s.b s.bval lb) :
    remOf rb (stepB ob s).1 (stepB ob s).2 ≤ remOf rb s.b s.bval := by
  unfold stepB remOf
  cases hbv : s.bval with
  | false => simp
  | true =>
    rw [hbv] at hc
    simp only [if_true]
    cases hok : (ob.seek (s.lastT + 1 + s.penB) s.b).2 with
    | false => simp
    | true => simpa using hb.remSeekLe _ _ hc.valid

theorem remOf_stepA_lt (ha : TrackM oa M Ta Ba ra) {s : Node α β} {la : List Sample}
    (hc : ChildSt oa Ta Ba s.a s.aval la) (hav : s.aval = true) (hat : oa.atT s.a = some s.lastT)
    (hp : s.penA = 0) : remOf ra (stepA oa s).1 (stepA oa s).2 < remOf ra s.a s.aval := by
  unfold stepA remOf
  rw [hav] at hc
  simp only [hav, if_true]
  have hpos := ha.remPos _ hc.valid
  cases hok : (oa.seek (s.lastT + 1 + s.penA) s.a).2 with
  | false => simp; omega
  | true => simpa using ha.remSeekLt _ _ _ hc.valid hat (by omega) hok

theorem remOf_stepB_lt (hb : TrackM ob M Tb Bb rb) {s : Node α β} {lb : List Sample}
    (hc : ChildSt ob Tb Bb s.b s.bval lb) (hbv : s.bval = true) (hat : ob.atT s.b = some s.lastT)
    (hp : s.penB = 0) : remOf rb (stepB ob s).1 (stepB ob s).2 < remOf rb s.b s.bval := by
  unfold stepB remOf
  rw [hbv] at hc
  simp only [hbv, if_true]
  have hpos := hb.remPos _ hc.valid
  cases hok : (ob.seek (s.lastT + 1 + s.penB) s.b).2 with
  | false => simp; omega
  | true => simpa using hb.remSeekLt _ _ _ hc.valid hat (by omega) hok

theorem nodeRem_step (s : Node α β) :
    nodeRem ra rb (nodeStep oa ob s).1 =
      remOf ra (stepA oa s).1 (stepA oa s).2 + remOf rb (stepB ob s).1 (stepB ob s).2 := by
  unfold nodeStep nodeRem
  obtain ⟨h1, h2, h3, h4⟩ := nodeChoose_fields (oa := oa) (ob := ob)
    { s with a := (stepA oa s).1, b := (stepB ob s).1, aval := (stepA oa s).2, bval := (stepB ob s).2 }
  rw [h1, h2, h3, h4]

/-- the body of `Next`, in terms of what the sides follow -/
theorem nodeStep_track (ha : TrackM oa M Ta Ba ra) (hb : TrackM ob M Tb Bb rb) (s : Node α β)
    {la lb : List Sample} (hst : NodeSt oa ob Ta Ba Tb Bb s la lb) :
    (pm2 s.lastT (dropLt (s.lastT + 1 + s.penA) la) (dropLt (s.lastT + 1 + s.penB) lb) ≠ [] →
      (nodeStep oa ob s).2 = true ∧ nodeT oa ob Ta Ba Tb Bb (nodeStep oa ob s).1
        (pm2 s.lastT (dropLt (s.lastT + 1 + s.penA) la) (dropLt (s.lastT + 1 + s.penB) lb))) ∧
    (pm2 s.lastT (dropLt (s.lastT + 1 + s.penA) la) (dropLt (s.lastT + 1 + s.penB) lb) = [] →
      ((nodeStep oa ob s).2 = false ∧ NodeSt oa ob Ta Ba Tb Bb (nodeStep oa ob s).1 [] []) ∨
      ((nodeStep oa ob s).2 = true ∧ nodeB oa ob Ta Ba Tb Bb (nodeStep oa ob s).1)) :=
  nodeChoose_track ha hb
    { s with a := (stepA oa s).1, b := (stepB ob s).1, aval := (stepA oa s).2, bval := (stepB ob s).2 }
    ⟨hst.1, stepA_track ha hst.2.1, stepB_track hb hst.2.2⟩

/-- a side in use can be read -/
theorem nodeAt_some (ha : TrackM oa M Ta Ba ra) (hb : TrackM ob M Tb Bb rb) {s : Node α β}
    {la lb : List Sample} (hst : NodeSt oa ob Ta Ba Tb Bb s la lb) (hsame : s.lastIsA = s.useA)
    (hc : ((s.useA && s.aval) || (!s.useA && s.bval)) = true) : ∃ x, nodeAt oa ob s = some x := by
  unfold nodeAt
  rw [hsame]
  cases hu : s.useA with
  | true =>
    rw [hu] at hc
    simp only [Bool.true_and, Bool.not_true, Bool.false_and, Bool.or_false] at hc
    simp only [if_true]
    have hca := hst.2.1
    rw [hc] at hca
    rcases hca.valid with ⟨L, hT⟩ | hB
    · have hne := ha.tNe _ _ hT
      rw [ha.tAtS _ _ hT]
      cases L with
      | nil => exact absurd rfl hne
      | cons x _ => exact ⟨x, rfl⟩
    · obtain ⟨x, hx, _⟩ := ha.bAt _ hB
      exact ⟨x, hx⟩
  | false =>
    rw [hu] at hc
    simp only [Bool.false_and, Bool.not_false, Bool.true_and, Bool.false_or] at hc
    simp only [Bool.false_eq_true, if_false]
    have hcb := hst.2.2
    rw [hc] at hcb
    rcases hcb.valid with ⟨L, hT⟩ | hB
    · have hne := hb.tNe _ _ hT
      rw [hb.tAtS _ _ hT]
      cases L with
      | nil => exact absurd rfl hne
      | cons x _ => exact ⟨x, rfl⟩
    · obtain ⟨x, hx, _⟩ := hb.bAt _ hB
      exact ⟨x, hx⟩

/-- `Next`, in terms of what the sides follow -/
theorem nodeNext_track (ha : TrackM oa M Ta Ba ra) (hb : TrackM ob M Tb Bb rb) (s : Node α β)
    {la lb : List Sample} (hst : NodeSt oa ob Ta Ba Tb Bb s la lb) (hsame : s.lastIsA = s.useA) :
    ((pm2 s.lastT (dropLt (s.lastT + 1 + s.penA) la) (dropLt (s.lastT + 1 + s.penB) lb) ≠ [] →
      (nodeNext oa ob s).2 = true ∧ nodeT oa ob Ta Ba Tb Bb (nodeNext oa ob s).1
        (pm2 s.lastT (dropLt (s.lastT + 1 + s.penA) la) (dropLt (s.lastT + 1 + s.penB) lb))) ∧
    (pm2 s.lastT (dropLt (s.lastT + 1 + s.penA) la) (dropLt (s.lastT + 1 + s.penB) lb) = [] →
      ((nodeNext oa ob s).2 = false ∧ NodeSt oa ob Ta Ba Tb Bb (nodeNext oa ob s).1 [] []) ∨
      ((nodeNext oa ob s).2 = true ∧ nodeB oa ob Ta Ba Tb Bb (nodeNext oa ob s).1))) ∧
    nodeRem ra rb (nodeNext oa ob s).1 = nodeRem ra rb (nodeStep oa ob s).1 := by
  obtain ⟨t1, t2⟩ := nodeStep_track ha hb s hst
  unfold nodeNext
  by_cases hc : ((s.useA && s.aval) || (!s.useA && s.bval)) = true
  · simp only [hc, if_true]
    obtain ⟨x, hx⟩ := nodeAt_some ha hb hst hsame hc
    simp only [hx]
    unfold nodeFinish
    simp only
    by_cases hsw : ((nodeStep oa ob s).1.useA != s.useA) = true
    · simp only [hsw, if_true]
      obtain ⟨a1, a2, a3, a4⟩ := nodeAdjust_track ha hb x.v (nodeStep oa ob s).1
      refine ⟨⟨fun hne => ⟨(t1 hne).1, a2 _ (t1 hne).2⟩, fun he => ?_⟩, a4⟩
      rcases t2 he with ⟨h1, h2⟩ | ⟨h1, h2⟩
      · exact Or.inl ⟨h1, a1 _ _ h2⟩
      · exact Or.inr ⟨h1, a3 h2⟩
    · simp only [hsw]
      exact ⟨⟨t1, t2⟩, rfl⟩
  · simp only [hc]
    exact ⟨⟨t1, t2⟩, rfl⟩

/-- neither the node nor its sides have panicked -/
def nodeOk (oa : Ops α) (ob : Ops β) (s : Node α β) : Prop :=
  (s.bad || oa.bad s.a || ob.bad s.b) = false

theorem nodeOk_of_st (ha : TrackM oa M Ta Ba ra) (hb : TrackM ob M Tb Bb rb) {s : Node α β}
    {la lb : List Sample} (h : NodeSt oa ob Ta Ba Tb Bb s la lb) : nodeOk oa ob s := by
  unfold nodeOk
  rw [h.1, h.2.1.nbad ha, h.2.2.nbad hb]; rfl

/-- the side in use stands on the last emitted timestamp with no penalty pending -/
def NodePos (oa : Ops α) (ob : Ops β) (s : Node α β) : Prop :=
  s.lastIsA = s.useA ∧
  (if s.lastIsA then s.aval = true ∧ oa.atT s.a = some s.lastT ∧ s.penA = 0
   else s.bval = true ∧ ob.atT s.b = some s.lastT ∧ s.penB = 0)

theorem nodePos_of_T (ha : TrackM oa M Ta Ba ra) (hb : TrackM ob M Tb Bb rb) {s : Node α β}
    {L : List Sample} (h : nodeT oa ob Ta Ba Tb Bb s L) :
    ∃ la lb, NodeSt oa ob Ta Ba Tb Bb s la lb ∧ NodePos oa ob s := by
  obtain ⟨la, lb, hst, hsame, hpen, cur, hcur, hct, _⟩ := h
  refine ⟨la, lb, hst, hsame, ?_⟩
  cases hl : s.lastIsA with
  | true =>
    rw [hl] at hcur hpen
    simp only [if_true] at hcur hpen ⊢
    have hne : la ≠ [] := by intro he; rw [he] at hcur; simp at hcur
    rcases hst.2.1 with ⟨_, hav, hT⟩ | ⟨he, _, _⟩ | ⟨he, _, _⟩
    · exact ⟨hav, by rw [ha.tAtT _ _ hT, hcur, ← hct]; rfl, hpen⟩
    · exact absurd he hne
    · exact absurd he hne
  | false =>
    rw [hl] at hcur hpen
    simp only [Bool.false_eq_true, if_false] at hcur hpen ⊢
    have hne : lb ≠ [] := by intro he; rw [he] at hcur; simp at hcur
    rcases hst.2.2 with ⟨_, hbv, hT⟩ | ⟨he, _, _⟩ | ⟨he, _, _⟩
    · exact ⟨hbv, by rw [hb.tAtT _ _ hT, hcur, ← hct]; rfl, hpen⟩
    · exact absurd he hne
    · exact absurd he hne

theorem nodePos_of_B {s : Node α β} (h : nodeB oa ob Ta Ba Tb Bb s) : NodePos oa ob s := by
  obtain ⟨_, hsame, hch⟩ := h
  refine ⟨hsame, ?_⟩
  cases hl : s.lastIsA with
  | true => rw [hl] at hch; simp only [if_true] at hch ⊢; exact ⟨hch.1, hch.2.2.1, hch.2.2.2⟩
  | false =>
    rw [hl] at hch; simp only [Bool.false_eq_true, if_false] at hch ⊢
    exact ⟨hch.1, hch.2.2.1, hch.2.2.2⟩

theorem nodePos_atT {s : Node α β} (h : NodePos oa ob s) : nodeAtT oa ob s = some s.lastT := by
  obtain ⟨hsame, hch⟩ := h
  unfold nodeAtT
  rw [← hsame]
  cases hl : s.lastIsA with
  | true => rw [hl] at hch; simp only [if_true] at hch ⊢; exact hch.2.1
  | false => rw [hl] at hch; simp only [Bool.false_eq_true, if_false] at hch ⊢; exact hch.2.1

/-- `Next` from a positioned node strictly uses up samples -/
theorem nodeRem_next_lt (ha : TrackM oa M Ta Ba ra) (hb : TrackM ob M Tb Bb rb) {s : Node α β}
    {la lb : List Sample} (hst : NodeSt oa ob Ta Ba Tb Bb s la lb) (hpos : NodePos oa ob s) :
    nodeRem ra rb (nodeNext oa ob s).1 < nodeRem ra rb s := by
  rw [(nodeNext_track ha hb s hst hpos.1).2, nodeRem_step]
  have h1 := remOf_stepA_le ha hst.2.1
  have h2 := remOf_stepB_le hb hst.2.2
  obtain ⟨_, hch⟩ := hpos
  unfold nodeRem
  cases hl : s.lastIsA with
  | true =>
    rw [hl] at hch; simp only [if_true] at hch
    have := remOf_stepA_lt ha hst.2.1 hch.1 hch.2.1 hch.2.2
    omega
  | false =>
    rw [hl] at hch; simp only [Bool.false_eq_true, if_false] at hch
    have := remOf_stepB_lt hb hst.2.2 hch.1 hch.2.1 hch.2.2
    omega

/-- the `Seek` loop from a node that stands beyond `M` -/
theorem loopB (ha : TrackM oa M Ta Ba ra) (hb : TrackM ob M Tb Bb rb) (t : Int) :
    ∀ (n : Nat) (s : Node α β), nodeB oa ob Ta Ba Tb Bb s → nodeRem ra rb s + 1 ≤ n →
      nodeOk oa ob (nodeSeekLoop oa ob t n s).1 ∧
      nodeRem ra rb (nodeSeekLoop oa ob t n s).1 ≤ nodeRem ra rb s ∧
      ((nodeSeekLoop oa ob t n s).2 = true →
        nodeB oa ob Ta Ba Tb Bb (nodeSeekLoop oa ob t n s).1 ∧
        (s.lastT < t → nodeRem ra rb (nodeSeekLoop oa ob t n s).1 < nodeRem ra rb s) ∧
        (t ≤ s.lastT → nodeAtT oa ob (nodeSeekLoop oa ob t n s).1 = some s.lastT)) := by
  intro n
  induction n with
  | zero => intro s _ hn; omega
  | succ n ih =>
    intro s hB hn
    have hpos := nodePos_of_B hB
    have hat := nodePos_atT hpos
    obtain ⟨hst, hsame, hch⟩ := hB
    unfold nodeSeekLoop
    simp only [hat]
    by_cases hge : s.lastT ≥ t
    · simp only [hge, if_true]
      cases hu : s.useA with
      | true =>
        have hl : s.lastIsA = true := by rw [hsame, hu]
        rw [hl] at hch; simp only [if_true] at hch
        obtain ⟨hav, hBa, hata, hpa⟩ := hch
        simp only [if_true]
        have hbadA := ha.seekBad s.a s.lastT (Or.inr hBa)
        refine ⟨?_, ?_, ?_⟩
        · unfold nodeOk; simp only; rw [hst.1, hbadA, hst.2.2.nbad hb]; rfl
        · unfold nodeRem remOf; simp only [hav, if_true]
          have := ha.remSeekLe s.a s.lastT (Or.inr hBa); omega
        · intro hok
          rcases ha.bSeek s.a s.lastT hBa with hf | hB'
          · rw [hf] at hok; cases hok
          · have hstay := ha.bSeekStay s.a s.lastT s.lastT hBa hata (Int.le_refl _) hok
            refine ⟨⟨⟨hst.1, Or.inr (Or.inl ⟨rfl, hav, hB'⟩), hst.2.2⟩, hl, ?_⟩,
              fun h => by omega, fun _ => ?_⟩
            · simp only [hl, if_true]; exact ⟨hav, hB', hstay, hpa⟩
            · unfold nodeAtT; simp only [hu, if_true]; exact hstay
      | false =>
        have hl : s.lastIsA = false := by rw [hsame, hu]
        rw [hl] at hch; simp only [Bool.false_eq_true, if_false] at hch
        obtain ⟨hbv, hBb, hatb, hpb⟩ := hch
        simp only [Bool.false_eq_true, if_false]
        have hbadB := hb.seekBad s.b s.lastT (Or.inr hBb)
        refine ⟨?_, ?_, ?_⟩
        · unfold nodeOk; simp only; rw [hst.1, hbadB, hst.2.1.nbad ha]; rfl
        · unfold nodeRem remOf; simp only [hbv, if_true]
          have := hb.remSeekLe s.b s.lastT (Or.inr hBb); omega
        · intro hok
          rcases hb.bSeek s.b s.lastT hBb with hf | hB'
          · rw [hf] at hok; cases hok
          · have hstay := hb.bSeekStay s.b s.lastT s.lastT hBb hatb (Int.le_refl _) hok
            refine ⟨⟨⟨hst.1, hst.2.1, Or.inr (Or.inl ⟨rfl, hbv, hB'⟩)⟩, hl, ?_⟩,
              fun h => by omega, fun _ => ?_⟩
            · simp only [hl, Bool.false_eq_true, if_false]; exact ⟨hbv, hB', hstay, hpb⟩
            · unfold nodeAtT; simp only [hu, Bool.false_eq_true, if_false]; exact hstay
    · simp only [hge, if_false]
      have hlt : s.lastT < t := by omega
      have hremlt := nodeRem_next_lt ha hb hst hpos
      obtain ⟨⟨_, t2⟩, _⟩ := nodeNext_track ha hb s hst hsame
      have hnil : pm2 s.lastT (dropLt (s.lastT + 1 + s.penA) []) (dropLt (s.lastT + 1 + s.penB) []) = [] := by
        simp [pm2]
      by_cases hok : (nodeNext oa ob s).2 = true
      · simp only [hok, if_true]
        rcases t2 hnil with ⟨hf, _⟩ | ⟨_, hB'⟩
        · rw [hf] at hok; cases hok
        · obtain ⟨i1, i2, i3⟩ := ih _ hB' (by omega)
          refine ⟨i1, by omega, fun hq => ?_⟩
          obtain ⟨j1, _, _⟩ := i3 hq
          exact ⟨j1, fun _ => (by omega), fun h => (by exfalso; omega)⟩
      · simp only [hok, Bool.false_eq_true, if_false]
        rcases t2 hnil with ⟨_, hst'⟩ | ⟨ht, _⟩
        · exact ⟨nodeOk_of_st ha hb hst', by omega, fun h => by cases h⟩
        · exact absurd ht hok

/-- the `Seek` loop from a node that follows `L` -/
theorem loopT (ha : TrackM oa M Ta Ba ra) (hb : TrackM ob M Tb Bb rb) (t : Int) :
    ∀ (n : Nat) (s : Node α β) (L : List Sample), nodeT oa ob Ta Ba Tb Bb s L →
      nodeRem ra rb s + 1 ≤ n →
      nodeOk oa ob (nodeSeekLoop oa ob t n s).1 ∧
      nodeRem ra rb (nodeSeekLoop oa ob t n s).1 ≤ nodeRem ra rb s ∧
      (s.lastT < t → (nodeSeekLoop oa ob t n s).2 = true →
        nodeRem ra rb (nodeSeekLoop oa ob t n s).1 < nodeRem ra rb s) ∧
      (dropLt t L ≠ [] → (nodeSeekLoop oa ob t n s).2 = true ∧
        nodeT oa ob Ta Ba Tb Bb (nodeSeekLoop oa ob t n s).1 (dropLt t L)) ∧
      (dropLt t L = [] → (nodeSeekLoop oa ob t n s).2 = true →
        nodeB oa ob Ta Ba Tb Bb (nodeSeekLoop oa ob t n s).1) := by
  intro n
  induction n with
  | zero => intro s L _ hn; omega
  | succ n ih =>
    intro s L hT hn
    obtain ⟨la0, lb0, hst0, hpos⟩ := nodePos_of_T ha hb hT
    have hat := nodePos_atT hpos
    obtain ⟨la, lb, hst, hsame, hpen, cur, hcur, hct, hL⟩ := hT
    unfold nodeSeekLoop
    simp only [hat]
    by_cases hge : s.lastT ≥ t
    · -- already at or after t: Seek on the side in use, which stays where it is
      simp only [hge, if_true]
      have hDL : dropLt t L = L := by rw [hL]; exact dropLt_cons_ge (by omega)
      rw [hDL]
      have hLne : L ≠ [] := by rw [hL]; simp
      cases hu : s.useA with
      | true =>
        have hl : s.lastIsA = true := by rw [hsame, hu]
        rw [hl] at hcur hpen; simp only [if_true] at hcur hpen
        have hlane : la ≠ [] := by intro he; rw [he] at hcur; simp at hcur
        simp only [if_true]
        rcases hst.2.1 with ⟨_, hav, hTa⟩ | ⟨he, _, _⟩ | ⟨he, _, _⟩
        · have hself : dropLt s.lastT la = la := by
            cases la with
            | nil => exact absurd rfl hlane
            | cons x ta => simp at hcur; subst hcur; exact dropLt_cons_ge (by omega)
          obtain ⟨hok, hT'⟩ := ha.tSeekT s.a la s.lastT hTa (by rw [hself]; exact hlane)
          rw [hself] at hT'
          refine ⟨?_, ?_, fun h => by omega, fun _ => ⟨hok, ?_⟩, fun he => absurd he hLne⟩
          · unfold nodeOk; simp only
            rw [hst.1, ha.tBad _ _ hT', hst.2.2.nbad hb]; rfl
          · unfold nodeRem remOf; simp only [hav, if_true]
            have := ha.remSeekLe s.a s.lastT (Or.inl ⟨_, hTa⟩); omega
          · exact ⟨la, lb, ⟨hst.1, Or.inl ⟨hlane, hav, hT'⟩, hst.2.2⟩, hl, by simp only [hl, if_true]; exact hpen,
              cur, by simp only [hl, if_true]; exact hcur, hct, hL⟩
        · exact absurd he hlane
        · exact absurd he hlane
      | false =>
        have hl : s.lastIsA = false := by rw [hsame, hu]
        rw [hl] at hcur hpen; simp only [Bool.false_eq_true, if_false] at hcur hpen
        have hlbne : lb ≠ [] := by intro he; rw [he] at hcur; simp at hcur
        simp only [Bool.false_eq_true, if_false]
        rcases hst.2.2 with ⟨_, hbv, hTb⟩ | ⟨he, _, _⟩ | ⟨he, _, _⟩
        · have hself : dropLt s.lastT lb = lb := by
            cases lb with
            | nil => exact absurd rfl hlbne
            | cons x tb => simp at hcur; subst hcur; exact dropLt_cons_ge (by omega)
          obtain ⟨hok, hT'⟩ := hb.tSeekT s.b lb s.lastT hTb (by rw [hself]; exact hlbne)
          rw [hself] at hT'
          refine ⟨?_, ?_, fun h => by omega, fun _ => ⟨hok, ?_⟩, fun he => absurd he hLne⟩
          · unfold nodeOk; simp only
            rw [hst.1, hb.tBad _ _ hT', hst.2.1.nbad ha]; rfl
          · unfold nodeRem remOf; simp only [hbv, if_true]
            have := hb.remSeekLe s.b s.lastT (Or.inl ⟨_, hTb⟩); omega
          · exact ⟨la, lb, ⟨hst.1, hst.2.1, Or.inl ⟨hlbne, hbv, hT'⟩⟩, hl,
              by simp only [hl, Bool.false_eq_true, if_false]; exact hpen,
              cur, by simp only [hl, Bool.false_eq_true, if_false]; exact hcur, hct, hL⟩
        · exact absurd he hlbne
        · exact absurd he hlbne
    · -- before t: Next, then go on
      simp only [hge, if_false]
      have hlt : s.lastT < t := by omega
      have hremlt := nodeRem_next_lt ha hb hst hpos
      obtain ⟨⟨t1, t2⟩, _⟩ := nodeNext_track ha hb s hst hsame
      have hDL : dropLt t L = dropLt t (pm2 s.lastT (dropLt (s.lastT + 1 + s.penA) la)
          (dropLt (s.lastT + 1 + s.penB) lb)) := by
        rw [hL, dropLt_cons_lt (by omega)]
      rw [hDL]
      by_cases hF : pm2 s.lastT (dropLt (s.lastT + 1 + s.penA) la) (dropLt (s.lastT + 1 + s.penB) lb) = []
      · -- nothing more to follow
        rw [hF]
        simp only [dropLt_nil]
        by_cases hok : (nodeNext oa ob s).2 = true
        · simp only [hok, if_true]
          rcases t2 hF with ⟨hf, _⟩ | ⟨_, hB'⟩
          · rw [hf] at hok; cases hok
          · obtain ⟨i1, i2, i3⟩ := loopB ha hb t n _ hB' (by omega)
            exact ⟨i1, by omega, fun _ _ => (by omega), fun hne => absurd rfl hne,
              fun _ hq => (i3 hq).1⟩
        · simp only [hok, Bool.false_eq_true, if_false]
          rcases t2 hF with ⟨_, hst'⟩ | ⟨ht, _⟩
          · exact ⟨nodeOk_of_st ha hb hst', by omega, fun _ h => (by cases h),
              fun hne => absurd rfl hne, fun _ h => (by cases h)⟩
          · exact absurd ht hok
      · obtain ⟨hok, hT'⟩ := t1 hF
        simp only [hok, if_true]
        obtain ⟨i1, i2, i3, i4, i5⟩ := ih _ _ hT' (by omega)
        exact ⟨i1, by omega, fun _ _ => (by omega), i4, i5⟩

theorem nodeRem_le_fuel (ha : TrackM oa M Ta Ba ra) (hb : TrackM ob M Tb Bb rb) {s : Node α β}
    {la lb : List Sample} (hst : NodeSt oa ob Ta Ba Tb Bb s la lb) :
    nodeRem ra rb s ≤ oa.fuel s.a + ob.fuel s.b := by
  unfold nodeRem remOf
  have h1 : (if s.aval = true then ra s.a else 0) ≤ oa.fuel s.a := by
    cases hav : s.aval with
    | false => simp
    | true =>
      have hc := hst.2.1; rw [hav] at hc
      simpa using ha.remFuel _ hc.valid
  have h2 : (if s.bval = true then rb s.b else 0) ≤ ob.fuel s.b := by
    cases hbv : s.bval with
    | false => simp
    | true =>
      have hc := hst.2.2; rw [hbv] at hc
      simpa using hb.remFuel _ hc.valid
  omega

theorem nodeRem_pos (ha : TrackM oa M Ta Ba ra) (hb : TrackM ob M Tb Bb rb) {s : Node α β}
    {la lb : List Sample} (hst : NodeSt oa ob Ta Ba Tb Bb s la lb) (hpos : NodePos oa ob s) :
    1 ≤ nodeRem ra rb s := by
  unfold nodeRem remOf
  obtain ⟨_, hch⟩ := hpos
  cases hl : s.lastIsA with
  | true =>
    rw [hl] at hch; simp only [if_true] at hch
    have hc := hst.2.1; rw [hch.1] at hc
    have := ha.remPos _ hc.valid
    simp only [hch.1, if_true]; omega
  | false =>
    rw [hl] at hch; simp only [Bool.false_eq_true, if_false] at hch
    have hc := hst.2.2; rw [hch.1] at hc
    have := hb.remPos _ hc.valid
    simp only [hch.1, if_true]; omega

/-- the elements of what a node follows come from what its sides follow -/
theorem nodeT_mem {s : Node α β} {L : List Sample} (h : nodeT oa ob Ta Ba Tb Bb s L) :
    ∃ la lb, NodeSt oa ob Ta Ba Tb Bb s la lb ∧ ∀ x ∈ L, x ∈ la ∨ x ∈ lb := by
  obtain ⟨la, lb, hst, _, _, cur, hcur, _, hL⟩ := h
  refine ⟨la, lb, hst, ?_⟩
  intro x hx
  rw [hL] at hx
  rcases List.mem_cons.mp hx with rfl | hx
  · have hm := List.mem_of_mem_head? hcur
    cases hl : s.lastIsA with
    | true => rw [hl] at hm; exact Or.inl hm
    | false => rw [hl] at hm; exact Or.inr hm
  · rcases pm2_mem hx with h | h
    · exact Or.inl (mem_of_mem_dropLt h)
    · exact Or.inr (mem_of_mem_dropLt h)

theorem childSt_mem_T {γ : Type} {o : Ops γ} {T : γ → List Sample → Prop} {B : γ → Prop}
    {c : γ} {av : Bool} {l : List Sample} (hc : ChildSt o T B c av l) {x : Sample} (hx : x ∈ l) : T c l := by
  rcases hc with ⟨_, _, hT⟩ | ⟨he, _, _⟩ | ⟨he, _, _⟩
  · exact hT
  · rw [he] at hx; simp at hx
  · rw [he] at hx; simp at hx

/-- **A dedup node over two iterators that track lists up to `M` tracks the penalty merge of
    those lists up to `M`.** -/
theorem node_trackM (ha : TrackM oa M Ta Ba ra) (hb : TrackM ob M Tb Bb rb) (hM : minT ≤ M) :
    TrackM (nodeOps oa ob true) M (nodeT oa ob Ta Ba Tb Bb) (nodeB oa ob Ta Ba Tb Bb) (nodeRem ra rb) := by
  -- Seek on a positioned node is the loop
  have hseekT : ∀ (s : Node α β) (L : List Sample) (t : Int), nodeT oa ob Ta Ba Tb Bb s L →
      (nodeOps oa ob true).seek t s = nodeSeekLoop oa ob t (nodeFuel oa ob s + 1) s ∧
      nodeRem ra rb s + 1 ≤ nodeFuel oa ob s + 1 := by
    intro s L t hT
    obtain ⟨la, lb, hst, hsame, hpen, cur, hcur, hct, hL⟩ := hT
    have hne : s.lastT ≠ minT := by
      -- lastT is the timestamp of a tracked sample
      have hcm := List.mem_of_mem_head? hcur
      cases hl : s.lastIsA with
      | true =>
        rw [hl] at hcm; simp only [if_true] at hcm
        have := ha.tLower _ _ (childSt_mem_T hst.2.1 hcm) cur hcm
        omega
      | false =>
        rw [hl] at hcm; simp only [Bool.false_eq_true, if_false] at hcm
        have := hb.tLower _ _ (childSt_mem_T hst.2.2 hcm) cur hcm
        omega
    refine ⟨by simp only [nodeOps_seek_fixed, nodeSeekFixed, hne, if_false], ?_⟩
    have := nodeRem_le_fuel ha hb hst
    unfold nodeFuel; omega
  have hseekB : ∀ (s : Node α β) (t : Int), nodeB oa ob Ta Ba Tb Bb s →
      (nodeOps oa ob true).seek t s = nodeSeekLoop oa ob t (nodeFuel oa ob s + 1) s ∧
      nodeRem ra rb s + 1 ≤ nodeFuel oa ob s + 1 := by
    intro s t hB
    have hpos := nodePos_of_B hB
    have hne : s.lastT ≠ minT := by
      obtain ⟨_, hsame, hch⟩ := hB
      cases hl : s.lastIsA with
      | true =>
        rw [hl] at hch; simp only [if_true] at hch
        obtain ⟨x, _, hx, hxM⟩ := ha.bAt _ hch.2.1
        have : s.lastT = x.t := by rw [hch.2.2.1] at hx; exact Option.some.inj hx
        omega
      | false =>
        rw [hl] at hch; simp only [Bool.false_eq_true, if_false] at hch
        obtain ⟨x, _, hx, hxM⟩ := hb.bAt _ hch.2.1
        have : s.lastT = x.t := by rw [hch.2.2.1] at hx; exact Option.some.inj hx
        omega
    refine ⟨by simp only [nodeOps_seek_fixed, nodeSeekFixed, hne, if_false], ?_⟩
    have := nodeRem_le_fuel ha hb hB.1
    unfold nodeFuel; omega
  exact {
    tNe := by
      rintro s L ⟨_, _, _, _, _, cur, _, _, hL⟩; rw [hL]; simp
    tLe := by
      intro s L hT x hx
      obtain ⟨la, lb, hst, hmem⟩ := nodeT_mem hT
      rcases hmem x hx with h | h
      · exact ha.tLe _ _ (childSt_mem_T hst.2.1 h) x h
      · exact hb.tLe _ _ (childSt_mem_T hst.2.2 h) x h
    tLower := by
      intro s L hT x hx
      obtain ⟨la, lb, hst, hmem⟩ := nodeT_mem hT
      rcases hmem x hx with h | h
      · exact ha.tLower _ _ (childSt_mem_T hst.2.1 h) x h
      · exact hb.tLower _ _ (childSt_mem_T hst.2.2 h) x h
    tAtS := by
      rintro s L ⟨la, lb, hst, _, _, cur, hcur, _, hL⟩
      rw [hL]
      simp only [nodeOps_atS, nodeAt, List.head?_cons]
      have hcm := List.mem_of_mem_head? hcur
      cases hl : s.lastIsA with
      | true =>
        rw [hl] at hcur hcm; simp only [if_true] at hcur hcm ⊢
        rw [ha.tAtS _ _ (childSt_mem_T hst.2.1 hcm), hcur]
      | false =>
        rw [hl] at hcur hcm; simp only [Bool.false_eq_true, if_false] at hcur hcm ⊢
        rw [hb.tAtS _ _ (childSt_mem_T hst.2.2 hcm), hcur]
    tAtT := by
      intro s L hT
      obtain ⟨_, _, _, hpos⟩ := nodePos_of_T ha hb hT
      obtain ⟨_, _, _, _, _, cur, _, hct, hL⟩ := hT
      rw [hL]
      simp only [nodeOps_atT, List.head?_cons, Option.map_some, hct]
      exact nodePos_atT hpos
    tSeekT := by
      intro s L t hT hD
      obtain ⟨he, hf⟩ := hseekT s L t hT
      rw [he]
      exact (loopT ha hb t _ s L hT hf).2.2.2.1 hD
    tSeekB := by
      intro s L t hT hD
      obtain ⟨he, hf⟩ := hseekT s L t hT
      rw [he]
      cases hok : (nodeSeekLoop oa ob t (nodeFuel oa ob s + 1) s).2 with
      | false => exact Or.inl rfl
      | true => exact Or.inr ((loopT ha hb t _ s L hT hf).2.2.2.2 hD hok)
    tAdjust := fun s L v hT => (nodeAdjust_track ha hb v s).2.1 L hT
    tBad := by
      rintro s L ⟨la, lb, hst, _⟩
      exact nodeOk_of_st ha hb hst
    bAt := by
      rintro s ⟨hst, hsame, hch⟩
      cases hl : s.lastIsA with
      | true =>
        rw [hl] at hch; simp only [if_true] at hch
        obtain ⟨x, hxs, hxt, hxM⟩ := ha.bAt _ hch.2.1
        refine ⟨x, by simp only [nodeOps_atS, nodeAt, hl, if_true]; exact hxs, ?_, hxM⟩
        simp only [nodeOps_atT, nodeAtT]
        rw [← hsame, hl]; simp only [if_true]; exact hxt
      | false =>
        rw [hl] at hch; simp only [Bool.false_eq_true, if_false] at hch
        obtain ⟨x, hxs, hxt, hxM⟩ := hb.bAt _ hch.2.1
        refine ⟨x, by simp only [nodeOps_atS, nodeAt, hl, Bool.false_eq_true, if_false]; exact hxs, ?_, hxM⟩
        simp only [nodeOps_atT, nodeAtT]
        rw [← hsame, hl]; simp only [Bool.false_eq_true, if_false]; exact hxt
    bSeek := by
      intro s t hB
      obtain ⟨he, hf⟩ := hseekB s t hB
      rw [he]
      cases hok : (nodeSeekLoop oa ob t (nodeFuel oa ob s + 1) s).2 with
      | false => exact Or.inl rfl
      | true => exact Or.inr ((loopB ha hb t _ s hB hf).2.2 hok).1
    bSeekStay := by
      intro s t x hB hat hle hok
      obtain ⟨he, hf⟩ := hseekB s t hB
      rw [he] at hok ⊢
      have hx : x = s.lastT := by
        have := nodePos_atT (nodePos_of_B hB)
        simp only [nodeOps_atT] at hat
        rw [this] at hat; cases hat; rfl
      subst hx
      exact ((loopB ha hb t _ s hB hf).2.2 hok).2.2 hle
    bAdjust := fun s v hB => (nodeAdjust_track ha hb v s).2.2.1 hB
    bBad := by
      rintro s ⟨hst, _⟩
      exact nodeOk_of_st ha hb hst
    seekBad := by
      intro s t hv
      rcases hv with ⟨L, hT⟩ | hB
      · obtain ⟨he, hf⟩ := hseekT s L t hT
        rw [he]
        exact (loopT ha hb t _ s L hT hf).1
      · obtain ⟨he, hf⟩ := hseekB s t hB
        rw [he]
        exact (loopB ha hb t _ s hB hf).1
    remFuel := by
      intro s hv
      have hst : ∃ la lb, NodeSt oa ob Ta Ba Tb Bb s la lb := by
        rcases hv with ⟨L, la, lb, hst, _⟩ | ⟨hst, _⟩
        · exact ⟨la, lb, hst⟩
        · exact ⟨_, _, hst⟩
      obtain ⟨la, lb, hst⟩ := hst
      have := nodeRem_le_fuel ha hb hst
      simp only [nodeOps_fuel, nodeFuel]; omega
    remPos := by
      intro s hv
      rcases hv with ⟨L, hT⟩ | hB
      · obtain ⟨la, lb, hst, hpos⟩ := nodePos_of_T ha hb hT
        exact nodeRem_pos ha hb hst hpos
      · exact nodeRem_pos ha hb hB.1 (nodePos_of_B hB)
    remSeekLe := by
      intro s t hv
      rcases hv with ⟨L, hT⟩ | hB
      · obtain ⟨he, hf⟩ := hseekT s L t hT
        rw [he]
        exact (loopT ha hb t _ s L hT hf).2.1
      · obtain ⟨he, hf⟩ := hseekB s t hB
        rw [he]
        exact (loopB ha hb t _ s hB hf).2.1
    remSeekLt := by
      intro s t x hv hat hlt hok
      rcases hv with ⟨L, hT⟩ | hB
      · obtain ⟨he, hf⟩ := hseekT s L t hT
        rw [he] at hok ⊢
        obtain ⟨_, _, _, hpos⟩ := nodePos_of_T ha hb hT
        have := nodePos_atT hpos
        simp only [nodeOps_atT] at hat
        rw [this] at hat; cases hat
        exact (loopT ha hb t _ s L hT hf).2.2.1 hlt hok
      · obtain ⟨he, hf⟩ := hseekB s t hB
        rw [he] at hok ⊢
        have := nodePos_atT (nodePos_of_B hB)
        simp only [nodeOps_atT] at hat
        rw [this] at hat; cases hat
        exact ((loopB ha hb t _ s hB hf).2.2 hok).2.1 hlt
    remAdjust := fun s v => (nodeAdjust_track ha hb v s).2.2.2
    atTAdjust := by
      intro s v
      obtain ⟨p1, p2, p3, p4, p5, p6⟩ := nodeAdjust_proj (oa := oa) (ob := ob) v s
      simp only [nodeOps_atT, nodeOps_adjust, nodeAtT, p3, p5, p6]
      cases s.useA <;> cases s.aval <;> cases s.bval <;> simp [ha.atTAdjust, hb.atTAdjust] }

/-- the status of a side right after the constructor's `Next` -/
theorem childSt_of_init {γ : Type} {o : Ops γ} {T : γ → List Sample → Prop} {B : γ → Prop}
    {c : γ} {L : List Sample} (hi : TrackInit o T B c L) : ChildSt o T B (o.next c).1 (o.next c).2 L := by
  by_cases hL : L = []
  · rcases hi.nextB hL with h | h
    · exact Or.inr (Or.inr ⟨hL, h, hi.nextBad⟩)
    · cases hok : (o.next c).2 with
      | true => exact Or.inr (Or.inl ⟨hL, rfl, h⟩)
      | false => exact Or.inr (Or.inr ⟨hL, rfl, hi.nextBad⟩)
  · obtain ⟨h1, h2⟩ := hi.nextT hL
    exact Or.inl ⟨hL, h1, h2⟩

/-- `newDedupSeriesIterator` over two fresh iterators that will track `La`, `Lb` up to `M` -/
theorem node_trackInit (ha : TrackM oa M Ta Ba ra) (hb : TrackM ob M Tb Bb rb) {a : α} {b : β}
    {La Lb : List Sample} (ia : TrackInit oa Ta Ba a La) (ib : TrackInit ob Tb Bb b Lb) :
    TrackInit (nodeOps oa ob true) (nodeT oa ob Ta Ba Tb Bb) (nodeB oa ob Ta Ba Tb Bb)
      (nodeNew oa ob a b) (pm2 minT La Lb) := by
  have hst : NodeSt oa ob Ta Ba Tb Bb (nodeNew oa ob a b) La Lb :=
    ⟨rfl, childSt_of_init ia, childSt_of_init ib⟩
  have hLa : dropLt (minT + 1 + 0) La = La := by
    apply dropLt_all_ge
    intro x hx
    have := ha.tLower _ _ (childSt_mem_T hst.2.1 hx) x hx
    omega
  have hLb : dropLt (minT + 1 + 0) Lb = Lb := by
    apply dropLt_all_ge
    intro x hx
    have := hb.tLower _ _ (childSt_mem_T hst.2.2 hx) x hx
    omega
  obtain ⟨⟨t1, t2⟩, _⟩ := nodeNext_track ha hb (nodeNew oa ob a b) hst rfl
  have hl : (nodeNew oa ob a b).lastT = minT := rfl
  have hpa : (nodeNew oa ob a b).penA = 0 := rfl
  have hpb : (nodeNew oa ob a b).penB = 0 := rfl
  rw [hl, hpa, hpb, hLa, hLb] at t1 t2
  refine ⟨fun hne => t1 hne, fun he => ?_, ?_⟩
  · rcases t2 he with ⟨h, _⟩ | ⟨_, h⟩
    · exact Or.inl h
    · exact Or.inr h
  · show nodeOk oa ob (nodeNext oa ob (nodeNew oa ob a b)).1
    by_cases hne : pm2 minT La Lb = []
    · rcases t2 hne with ⟨_, h⟩ | ⟨_, h⟩
      · exact nodeOk_of_st ha hb h
      · exact nodeOk_of_st ha hb h.1
    · obtain ⟨_, la, lb, h, _⟩ := t1 hne
      exact nodeOk_of_st ha hb h

/-! ### reading a node with `Next` -/

/-- `Next` until `ValNone` from a node that stands beyond `M`: only samples beyond `M` -/
theorem goB (ha : TrackM oa M Ta Ba ra) (hb : TrackM ob M Tb Bb rb) (hM : minT ≤ M) :
    ∀ (n : Nat) (s : Node α β), nodeB oa ob Ta Ba Tb Bb s → nodeRem ra rb s + 1 ≤ n →
      ∃ o, drainChecked.go (nodeOps oa ob true) n s = some o ∧ ∀ x ∈ o, M < x.t := by
  intro n
  induction n with
  | zero => intro s _ hn; omega
  | succ n ih =>
    intro s hB hn
    have hpos := nodePos_of_B hB
    obtain ⟨hst, hsame, _⟩ := hB
    have hlt := nodeRem_next_lt ha hb hst hpos
    obtain ⟨⟨_, t2⟩, _⟩ := nodeNext_track ha hb s hst hsame
    have hnil : pm2 s.lastT (dropLt (s.lastT + 1 + s.penA) []) (dropLt (s.lastT + 1 + s.penB) []) = [] := by
      simp [pm2]
    unfold drainChecked.go
    simp only [nodeOps_next]
    rcases t2 hnil with ⟨hf, hst'⟩ | ⟨ht, hB'⟩
    · have hok := nodeOk_of_st ha hb hst'
      unfold nodeOk at hok
      simp only [nodeOps_bad, hok, Bool.false_eq_true, if_false, hf]
      exact ⟨[], rfl, by simp⟩
    · have hok := nodeOk_of_st ha hb hB'.1
      unfold nodeOk at hok
      obtain ⟨x, hxs, _, hxM⟩ := (node_trackM ha hb hM).bAt _ hB'
      simp only [nodeOps_bad, hok, Bool.false_eq_true, if_false, ht, if_true]
      rw [hxs]
      obtain ⟨o, ho, hall⟩ := ih _ hB' (by omega)
      refine ⟨x :: o, by rw [ho]; rfl, ?_⟩
      intro y hy
      rcases List.mem_cons.mp hy with rfl | hy
      · exact hxM
      · exact hall y hy

theorem nodeRem_next_le (ha : TrackM oa M Ta Ba ra) (hb : TrackM ob M Tb Bb rb) {s : Node α β}
    {la lb : List Sample} (hst : NodeSt oa ob Ta Ba Tb Bb s la lb) (hsame : s.lastIsA = s.useA) :
    nodeRem ra rb (nodeNext oa ob s).1 ≤ nodeRem ra rb s := by
  rw [(nodeNext_track ha hb s hst hsame).2, nodeRem_step]
  have h1 := remOf_stepA_le ha hst.2.1
  have h2 := remOf_stepB_le hb hst.2.2
  unfold nodeRem; omega

/-- `Next` until `ValNone` from a node that follows `L`: the rest of `L`, then only samples beyond `M` -/
theorem goT (ha : TrackM oa M Ta Ba ra) (hb : TrackM ob M Tb Bb rb) (hM : minT ≤ M) :
    ∀ (n : Nat) (s : Node α β) (L : List Sample), nodeT oa ob Ta Ba Tb Bb s L →
      nodeRem ra rb s + 1 ≤ n →
      ∃ extra, drainChecked.go (nodeOps oa ob true) n s = some (L.tail ++ extra) ∧ ∀ x ∈ extra, M < x.t := by
  intro n
  induction n with
  | zero => intro s L _ hn; omega
  | succ n ih =>
    intro s L hT hn
    obtain ⟨_, _, hst0, hpos⟩ := nodePos_of_T ha hb hT
    have hlt := nodeRem_next_lt ha hb hst0 hpos
    obtain ⟨la, lb, hst, hsame, hpen, cur, hcur, hct, hL⟩ := hT
    obtain ⟨⟨t1, t2⟩, _⟩ := nodeNext_track ha hb s hst hsame
    unfold drainChecked.go
    simp only [nodeOps_next]
    rw [hL]
    simp only [List.tail_cons]
    by_cases hF : pm2 s.lastT (dropLt (s.lastT + 1 + s.penA) la) (dropLt (s.lastT + 1 + s.penB) lb) = []
    · rw [hF]
      rcases t2 hF with ⟨hf, hst'⟩ | ⟨ht, hB'⟩
      · have hok := nodeOk_of_st ha hb hst'
        unfold nodeOk at hok
        simp only [nodeOps_bad, hok, Bool.false_eq_true, if_false, hf]
        exact ⟨[], rfl, by simp⟩
      · have hok := nodeOk_of_st ha hb hB'.1
        unfold nodeOk at hok
        obtain ⟨x, hxs, _, hxM⟩ := (node_trackM ha hb hM).bAt _ hB'
        simp only [nodeOps_bad, hok, Bool.false_eq_true, if_false, ht, if_true]
        rw [hxs]
        obtain ⟨o, ho, hall⟩ := goB ha hb hM n _ hB' (by omega)
        refine ⟨x :: o, by rw [ho]; rfl, ?_⟩
        intro y hy
        rcases List.mem_cons.mp hy with rfl | hy
        · exact hxM
        · exact hall y hy
    · obtain ⟨ht, hT'⟩ := t1 hF
      have hok := (node_trackM ha hb hM).tBad _ _ hT'
      have hat := (node_trackM ha hb hM).tAtS _ _ hT'
      simp only [nodeOps_bad] at hok
      simp only [nodeOps_bad, hok, Bool.false_eq_true, if_false, ht, if_true]
      rw [hat]
      obtain ⟨extra, he, hall⟩ := ih _ _ hT' (by omega)
      cases hFl : pm2 s.lastT (dropLt (s.lastT + 1 + s.penA) la) (dropLt (s.lastT + 1 + s.penB) lb) with
      | nil => exact absurd hFl hF
      | cons f0 ft =>
        rw [hFl] at he
        simp only [List.head?_cons, List.tail_cons] at he ⊢
        refine ⟨extra, by rw [he]; rfl, hall⟩

/-- **Reading a fresh dedup node with `Next`**: the list it follows, then only samples beyond `M`. -/
theorem node_drain_track (ha : TrackM oa M Ta Ba ra) (hb : TrackM ob M Tb Bb rb) (hM : minT ≤ M)
    {a : α} {b : β} {La Lb : List Sample} (ia : TrackInit oa Ta Ba a La) (ib : TrackInit ob Tb Bb b Lb) :
    ∃ extra, drainChecked { σ := Node α β, ops := nodeOps oa ob true, st := nodeNew oa ob a b } =
        some (pm2 minT La Lb ++ extra) ∧ ∀ x ∈ extra, M < x.t := by
  have hst : NodeSt oa ob Ta Ba Tb Bb (nodeNew oa ob a b) La Lb :=
    ⟨rfl, childSt_of_init ia, childSt_of_init ib⟩
  have hi := node_trackInit ha hb ia ib
  have hremle := nodeRem_next_le ha hb hst rfl
  have hfuel := nodeRem_le_fuel ha hb hst
  unfold drainChecked
  show ∃ extra, drainChecked.go (nodeOps oa ob true) ((nodeFuel oa ob (nodeNew oa ob a b) + 1) + 1) _ = _ ∧ _
  rw [drainChecked.go]
  have hbad := hi.nextBad
  simp only [nodeOps_next] at hbad ⊢
  simp only [hbad, Bool.false_eq_true, if_false]
  have hn : nodeRem ra rb (nodeNext oa ob (nodeNew oa ob a b)).1 + 1 ≤ nodeFuel oa ob (nodeNew oa ob a b) + 1 := by
    unfold nodeFuel; omega
  by_cases hL : pm2 minT La Lb = []
  · rw [hL]
    simp only [List.nil_append]
    rcases hi.nextB hL with hf | hB
    · simp only [nodeOps_next] at hf
      simp only [hf, Bool.false_eq_true, if_false]
      exact ⟨[], rfl, by simp⟩
    · simp only [nodeOps_next] at hB
      by_cases hok : (nodeNext oa ob (nodeNew oa ob a b)).2 = true
      · simp only [hok, if_true]
        obtain ⟨x, hxs, _, hxM⟩ := (node_trackM ha hb hM).bAt _ hB
        rw [hxs]
        obtain ⟨o, ho, hall⟩ := goB ha hb hM _ _ hB hn
        refine ⟨x :: o, by rw [ho]; rfl, ?_⟩
        intro y hy
        rcases List.mem_cons.mp hy with rfl | hy
        · exact hxM
        · exact hall y hy
      · simp only [hok, Bool.false_eq_true, if_false]
        exact ⟨[], rfl, by simp⟩
  · obtain ⟨ht, hT⟩ := hi.nextT hL
    simp only [nodeOps_next] at ht hT
    simp only [ht, if_true]
    rw [(node_trackM ha hb hM).tAtS _ _ hT]
    obtain ⟨extra, he, hall⟩ := goT ha hb hM _ _ _ hT hn
    cases hLl : pm2 minT La Lb with
    | nil => exact absurd hLl hL
    | cons f0 ft =>
      rw [hLl] at he
      simp only [List.head?_cons, List.tail_cons] at he ⊢
      exact ⟨extra, by rw [he]; rfl, hall⟩

end node

/-! ### packages: rows and their fold, for any query range -/

/-- a fresh iterator that tracks `L` up to `M` and, read with `Next`, yields `L` followed only by
    samples beyond `M` -/
def GoodD (i : AnyIt) (M : Int) (L : List Sample) : Prop :=
  (∃ (T : i.σ → List Sample → Prop) (B : i.σ → Prop) (rem : i.σ → Nat),
      TrackM i.ops M T B rem ∧ TrackInit i.ops T B i.st L) ∧
  ∃ extra, drainChecked i = some (L ++ extra) ∧ ∀ x ∈ extra, M < x.t

/-- what a row contributes inside the range -/
def rowWindow (qmint qmaxt : Int) (chunks : List (List Sample)) : List Sample :=
  takeLe qmaxt (dropLt qmint (unionFrom 0 chunks))

theorem row_goodD (qmint qmaxt : Int) (c : List Sample) (cs : List (List Sample))
    (hc : ChunkOK c) (hcs : ∀ d ∈ cs, ChunkOK d) (hs : ∀ d ∈ c :: cs, SSorted d) :
    ∃ it, chunkSeriesIt qmint qmaxt (c :: cs) = some it ∧ GoodD it qmaxt (rowWindow qmint qmaxt (c :: cs)) := by
  refine ⟨_, rfl, ?_⟩
  obtain ⟨V, abs, h, hi⟩ := cs_goodN c cs hc hcs
  have hLs : SSorted (unionFrom 0 (c :: cs)) := (unionFrom_sorted hs).1
  refine ⟨⟨bndT V abs qmint qmaxt, bndB V abs qmint qmaxt, bndRem abs, bnd_trackM qmint qmaxt h,
    bnd_trackInit qmint qmaxt h hi hLs⟩, [], ?_, by simp⟩
  rw [List.append_nil]
  exact bnd_drain h qmint qmaxt hi hLs

theorem foldIts_goodD {M : Int} (hM : minT ≤ M) : ∀ (ps : List (AnyIt × List Sample)), ps ≠ [] →
    (∀ p ∈ ps, GoodD p.1 M p.2) →
    ∃ it, foldIts true (ps.map (·.1)) = some it ∧ GoodD it M (pmFoldL (ps.map (·.2))) := by
  intro ps hne hg
  cases ps with
  | nil => exact absurd rfl hne
  | cons p ps =>
    refine ⟨_, rfl, ?_⟩
    simp only [List.map_cons, pmFoldL]
    have key : ∀ (ps : List (AnyIt × List Sample)) (acc : AnyIt) (L : List Sample), GoodD acc M L →
        (∀ q ∈ ps, GoodD q.1 M q.2) →
        GoodD ((ps.map (·.1)).foldl (fun acc b =>
          { σ := Node acc.σ b.σ, ops := nodeOps acc.ops b.ops true,
            st := nodeNew acc.ops b.ops acc.st b.st }) acc) M ((ps.map (·.2)).foldl (pm2 minT) L) := by
      intro ps
      induction ps with
      | nil => intro acc L h _; exact h
      | cons q ps ih =>
        intro acc L hacc hq
        simp only [List.map_cons, List.foldl_cons]
        apply ih
        · obtain ⟨⟨Ta, Ba, ra, ha, ia⟩, _⟩ := hacc
          obtain ⟨⟨Tb, Bb, rb, hb, ib⟩, _⟩ := hq q (by simp)
          exact ⟨⟨nodeT acc.ops q.1.ops Ta Ba Tb Bb, nodeB acc.ops q.1.ops Ta Ba Tb Bb, nodeRem ra rb,
            node_trackM ha hb hM, node_trackInit ha hb ia ib⟩, node_drain_track ha hb hM ia ib⟩
        · exact fun q' hq' => hq q' (by simp [hq'])
    exact key ps p.1 p.2 (hg p (by simp)) (fun q hq => hg q (by simp [hq]))

end Thanos.Dedup
