import Thanos.Lemmas.ReadPath
/-
  C04, query ranges that cut the series.  `boundedSeriesIterator.Seek` does not enforce `maxt`
  (a sample beyond it can come out) and answers `ValNone` without moving when the target is
  beyond `maxt`; so a bounded side of the dedup node is not list-like.  It is list-like *up to
  `M = maxt`*: `TrackM` says that an iterator follows a list `L` of samples `≤ M` as long as such
  samples remain, and afterwards is "beyond" (`B`: positioned on samples `> M`) or dead.  A dedup
  node over two such iterators is again one, following `cur :: pm2 …` of the tracked lists.
-/
namespace Thanos.Dedup

/-- `T r L`: positioned on `head L`, will yield `L` (all `≤ M`, non-empty); `B r`: positioned on a
    sample `> M`; `rem`: a bound on the samples still held (for loop fuel). -/
structure TrackM {ρ : Type} (o : Ops ρ) (M : Int) (T : ρ → List Sample → Prop) (B : ρ → Prop)
    (rem : ρ → Nat) : Prop where
  tNe : ∀ r L, T r L → L ≠ []
  tLe : ∀ r L, T r L → ∀ x ∈ L, x.t ≤ M
  tAtS : ∀ r L, T r L → o.atS r = L.head?
  tAtT : ∀ r L, T r L → o.atT r = L.head?.map (·.t)
  tSeekT : ∀ r L t, T r L → dropLt t L ≠ [] → (o.seek t r).2 = true ∧ T (o.seek t r).1 (dropLt t L)
  tSeekB : ∀ r L t, T r L → dropLt t L = [] → (o.seek t r).2 = false ∨ B (o.seek t r).1
  tAdjust : ∀ r L v, T r L → T (o.adjust v r) L
  tBad : ∀ r L, T r L → o.bad r = false
  bAt : ∀ r, B r → ∃ x, o.atS r = some x ∧ o.atT r = some x.t ∧ M < x.t
  bSeek : ∀ r t, B r → (o.seek t r).2 = false ∨ B (o.seek t r).1
  bAdjust : ∀ r v, B r → B (o.adjust v r)
  bBad : ∀ r, B r → o.bad r = false
  /-- a failing `Seek` does not panic either -/
  seekBad : ∀ r t, ((∃ L, T r L) ∨ B r) → o.bad (o.seek t r).1 = false
  remFuel : ∀ r, ((∃ L, T r L) ∨ B r) → rem r ≤ o.fuel r
  remPos : ∀ r, ((∃ L, T r L) ∨ B r) → 1 ≤ rem r
  remSeekLe : ∀ r t, ((∃ L, T r L) ∨ B r) → rem (o.seek t r).1 ≤ rem r
  remSeekLt : ∀ r t x, ((∃ L, T r L) ∨ B r) → o.atT r = some x → x < t → (o.seek t r).2 = true →
    rem (o.seek t r).1 < rem r
  remAdjust : ∀ r v, rem (o.adjust v r) = rem r

/-- what the first `Next` of a fresh state gives -/
structure TrackInit {ρ : Type} (o : Ops ρ) (T : ρ → List Sample → Prop) (B : ρ → Prop) (s0 : ρ)
    (L : List Sample) : Prop where
  nextT : L ≠ [] → (o.next s0).2 = true ∧ T (o.next s0).1 L
  nextB : L = [] → (o.next s0).2 = false ∨ B (o.next s0).1
  nextBad : o.bad (o.next s0).1 = false

/-! ### boundedSeriesIterator over a list-like iterator with time-sorted samples -/

section leaf
variable {σ : Type} {o : Ops σ} {V : σ → Prop} {abs : σ → List Sample} (mint M : Int)

/-- the bounded iterator follows the samples `≤ M` of the wrapped one -/
def bndT (V : σ → Prop) (abs : σ → List Sample) (mint M : Int) (b : Bnd σ) (L : List Sample) : Prop :=
  V b.inner ∧ b.bad = false ∧ SSorted (abs b.inner) ∧ (∀ x ∈ abs b.inner, mint ≤ x.t) ∧
    L = takeLe M (abs b.inner) ∧ L ≠ []

def bndB (V : σ → Prop) (abs : σ → List Sample) (mint M : Int) (b : Bnd σ) : Prop :=
  V b.inner ∧ b.bad = false ∧ SSorted (abs b.inner) ∧ (∀ x ∈ abs b.inner, mint ≤ x.t) ∧
    ∃ x, (abs b.inner).head? = some x ∧ M < x.t

def bndRem (abs : σ → List Sample) (b : Bnd σ) : Nat := (abs b.inner).length

theorem takeLe_dropLt_comm {M t : Int} : ∀ {l : List Sample}, SSorted l →
    takeLe M (dropLt t l) = dropLt t (takeLe M l)
  | [], _ => rfl
  | a :: l, h => by
    have hp := List.pairwise_cons.mp h
    by_cases ht : a.t < t
    · rw [dropLt_cons_lt ht]
      by_cases hm : a.t ≤ M
      · have : takeLe M (a :: l) = a :: takeLe M l := by simp [takeLe, hm]
        rw [this, dropLt_cons_lt ht]
        exact takeLe_dropLt_comm hp.2
      · -- a > M: everything is > M, both sides empty
        have h1 : takeLe M (a :: l) = [] := by simp [takeLe, hm]
        rw [h1]
        have hall : ∀ x ∈ dropLt t l, ¬ x.t ≤ M := by
          intro x hx
          have := hp.1 x (mem_of_mem_dropLt hx); omega
        cases hd : dropLt t l with
        | nil => rfl
        | cons d r =>
          have := hall d (by rw [hd]; simp)
          simp [takeLe, this]
    · rw [dropLt_cons_ge (by omega)]
      by_cases hm : a.t ≤ M
      · have : takeLe M (a :: l) = a :: takeLe M l := by simp [takeLe, hm]
        rw [this, dropLt_cons_ge (by omega)]
      · have h1 : takeLe M (a :: l) = [] := by simp [takeLe, hm]
        rw [h1]; rfl

theorem takeLe_nil_head {M : Int} {l : List Sample} (h : takeLe M l = []) :
    ∀ x, l.head? = some x → M < x.t := by
  intro x hx
  cases l with
  | nil => simp at hx
  | cons a l =>
    simp at hx; subst hx
    by_cases hm : a.t ≤ M
    · simp [takeLe, hm] at h
    · omega

theorem mem_takeLe_le {M : Int} : ∀ {l : List Sample} {x : Sample}, x ∈ takeLe M l → x.t ≤ M
  | [], x, h => by simp [takeLe] at h
  | a :: l, x, h => by
    by_cases hm : a.t ≤ M
    · have : takeLe M (a :: l) = a :: takeLe M l := by simp [takeLe, hm]
      rw [this] at h
      rcases List.mem_cons.mp h with rfl | h
      · exact hm
      · exact mem_takeLe_le h
    · have : takeLe M (a :: l) = [] := by simp [takeLe, hm]
      rw [this] at h; simp at h

theorem head_takeLe {M : Int} {l : List Sample} (h : takeLe M l ≠ []) :
    (takeLe M l).head? = l.head? := by
  cases l with
  | nil => simp [takeLe] at h
  | cons a l =>
    by_cases hm : a.t ≤ M
    · simp [takeLe, hm]
    · simp [takeLe, hm] at h

theorem ne_of_takeLe_ne {M : Int} {l : List Sample} (h : takeLe M l ≠ []) : l ≠ [] := by
  intro he; rw [he] at h; simp [takeLe] at h

/-- `Seek(max t mint)` on samples that are all `≥ mint` is `Seek(t)` -/
theorem dropLt_clamp {t mint : Int} {l : List Sample} (h : ∀ x ∈ l, mint ≤ x.t) :
    dropLt (if t < mint then mint else t) l = dropLt t l := by
  by_cases ht : t < mint
  · simp only [ht, if_true]
    rw [dropLt_all_ge h, dropLt_all_ge (fun x hx => by have := h x hx; omega)]
  · simp only [ht, if_false]

theorem all_gt_of_head {M : Int} {l : List Sample} (hs : SSorted l) {x : Sample}
    (hx : l.head? = some x) (hM : M < x.t) : ∀ y ∈ l, M < y.t := by
  cases l with
  | nil => simp at hx
  | cons a l =>
    simp at hx; subst hx
    intro y hy
    rcases List.mem_cons.mp hy with rfl | hy
    · exact hM
    · have := (List.pairwise_cons.mp hs).1 y hy; omega

theorem bnd_seek_inner (b : Bnd σ) (t : Int) (ht : ¬ t > M) :
    (bndOps o mint M).seek t b =
      ({ inner := (o.seek (if t < mint then mint else t) b.inner).1, bad := b.bad,
         stopped := b.stopped || decide (t > M) },
       (o.seek (if t < mint then mint else t) b.inner).2) := by
  simp [bndOps, bSeek, ht]

theorem bnd_seek_beyond (b : Bnd σ) (t : Int) (ht : t > M) :
    (bndOps o mint M).seek t b =
      ({ inner := b.inner, bad := b.bad, stopped := b.stopped || decide (t > M) }, false) := by
  simp [bndOps, bSeek, ht]

/-- **A bounded iterator over a list-like one tracks the samples `≤ maxt`.** -/
theorem bnd_trackM (h : ListLike o V abs) :
    TrackM (bndOps o mint M) M (bndT V abs mint M) (bndB V abs mint M) (bndRem abs) where
  tNe := fun r L hT => hT.2.2.2.2.2
  tLe := by
    intro r L hT x hx
    rw [hT.2.2.2.2.1] at hx
    exact mem_takeLe_le hx
  tAtS := by
    intro r L ⟨hV, _, _, _, hL, hne⟩
    rw [hL] at hne ⊢
    rw [head_takeLe hne]
    exact h.atS _ hV (ne_of_takeLe_ne hne)
  tAtT := by
    intro r L ⟨hV, _, _, _, hL, hne⟩
    rw [hL] at hne ⊢
    rw [head_takeLe hne]
    exact h.atT _ hV (ne_of_takeLe_ne hne)
  tSeekT := by
    intro r L t ⟨hV, hb, hs, hm, hL, hne⟩ hD
    have hane : abs r.inner ≠ [] := by rw [hL] at hne; exact ne_of_takeLe_ne hne
    by_cases ht : t > M
    · exfalso; apply hD
      apply dropLt_all_lt
      intro x hx
      rw [hL] at hx
      have := mem_takeLe_le hx; omega
    · rw [bnd_seek_inner mint M r t ht]
      have habs' : abs (o.seek (if t < mint then mint else t) r.inner).1 = dropLt t (abs r.inner) := by
        rw [h.seekAbs _ _ hV hane, dropLt_clamp hm]
      have hDL : dropLt t L = takeLe M (dropLt t (abs r.inner)) := by
        rw [hL, takeLe_dropLt_comm hs]
      have hne' : dropLt t (abs r.inner) ≠ [] := by
        rw [hDL] at hD; exact ne_of_takeLe_ne hD
      refine ⟨?_, h.seekV _ _ hV hane, hb, ?_, ?_, ?_, ?_⟩
      · simp only
        rw [h.seekOk _ _ hV hane, dropLt_clamp hm]
        cases hd : dropLt t (abs r.inner) with
        | nil => exact absurd hd hne'
        | cons _ _ => rfl
      · simp only; rw [habs']; exact ssorted_dropLt t hs
      · simp only; rw [habs']; exact fun x hx => hm x (mem_of_mem_dropLt hx)
      · simp only; rw [habs']; exact hDL
      · exact hD
  tSeekB := by
    intro r L t ⟨hV, hb, hs, hm, hL, hne⟩ hD
    have hane : abs r.inner ≠ [] := by rw [hL] at hne; exact ne_of_takeLe_ne hne
    by_cases ht : t > M
    · left; rw [bnd_seek_beyond mint M r t ht]
    · rw [bnd_seek_inner mint M r t ht]
      have habs' : abs (o.seek (if t < mint then mint else t) r.inner).1 = dropLt t (abs r.inner) := by
        rw [h.seekAbs _ _ hV hane, dropLt_clamp hm]
      have hDL : takeLe M (dropLt t (abs r.inner)) = [] := by
        rw [takeLe_dropLt_comm hs, ← hL]; exact hD
      cases hd : dropLt t (abs r.inner) with
      | nil =>
        left
        simp only
        rw [h.seekOk _ _ hV hane, dropLt_clamp hm, hd]; rfl
      | cons d rest =>
        right
        refine ⟨h.seekV _ _ hV hane, hb, ?_, ?_, d, ?_, ?_⟩
        · simp only; rw [habs']; exact ssorted_dropLt t hs
        · simp only; rw [habs']; exact fun x hx => hm x (mem_of_mem_dropLt hx)
        · simp only; rw [habs', hd]; rfl
        · exact takeLe_nil_head hDL d (by rw [hd]; rfl)
  tAdjust := fun r L v hT => hT
  tBad := by
    intro r L ⟨hV, hb, _⟩
    simp [bndOps, hb, h.bad _ hV]
  bAt := by
    intro r ⟨hV, _, _, _, x, hx, hM⟩
    have hane : abs r.inner ≠ [] := by intro he; rw [he] at hx; simp at hx
    refine ⟨x, ?_, ?_, hM⟩
    · show o.atS r.inner = some x
      rw [h.atS _ hV hane, hx]
    · show o.atT r.inner = some x.t
      rw [h.atT _ hV hane, hx]; rfl
  bSeek := by
    intro r t ⟨hV, hb, hs, hm, x, hx, hM⟩
    have hane : abs r.inner ≠ [] := by intro he; rw [he] at hx; simp at hx
    by_cases ht : t > M
    · left; rw [bnd_seek_beyond mint M r t ht]
    · rw [bnd_seek_inner mint M r t ht]
      have habs' : abs (o.seek (if t < mint then mint else t) r.inner).1 = dropLt t (abs r.inner) := by
        rw [h.seekAbs _ _ hV hane, dropLt_clamp hm]
      cases hd : dropLt t (abs r.inner) with
      | nil =>
        left
        simp only
        rw [h.seekOk _ _ hV hane, dropLt_clamp hm, hd]; rfl
      | cons d rest =>
        right
        refine ⟨h.seekV _ _ hV hane, hb, ?_, ?_, d, ?_, ?_⟩
        · simp only; rw [habs']; exact ssorted_dropLt t hs
        · simp only; rw [habs']; exact fun y hy => hm y (mem_of_mem_dropLt hy)
        · simp only; rw [habs', hd]; rfl
        · exact all_gt_of_head hs hx hM d (mem_of_mem_dropLt (by rw [hd]; simp))
  bAdjust := fun r v hB => hB
  bBad := by
    intro r ⟨hV, hb, _⟩
    simp [bndOps, hb, h.bad _ hV]
  seekBad := by
    intro r t hv
    have hVb : V r.inner ∧ r.bad = false ∧ abs r.inner ≠ [] := by
      rcases hv with ⟨L, hV, hb, _, _, hL, hne⟩ | ⟨hV, hb, _, _, x, hx, _⟩
      · exact ⟨hV, hb, by rw [hL] at hne; exact ne_of_takeLe_ne hne⟩
      · exact ⟨hV, hb, by intro he; rw [he] at hx; simp at hx⟩
    obtain ⟨hV, hb, hane⟩ := hVb
    by_cases ht : t > M
    · rw [bnd_seek_beyond mint M r t ht]; simp [bndOps, hb, h.bad _ hV]
    · rw [bnd_seek_inner mint M r t ht]
      simp [bndOps, hb, h.bad _ (h.seekV _ _ hV hane)]
  remFuel := by
    intro r hv
    have hV : V r.inner := by
      rcases hv with ⟨L, hV, _⟩ | ⟨hV, _⟩ <;> exact hV
    exact h.fuel _ hV
  remPos := by
    intro r hv
    have hane : abs r.inner ≠ [] := by
      rcases hv with ⟨L, _, _, _, _, hL, hne⟩ | ⟨_, _, _, _, x, hx, _⟩
      · rw [hL] at hne; exact ne_of_takeLe_ne hne
      · intro he; rw [he] at hx; simp at hx
    unfold bndRem
    cases habs : abs r.inner with
    | nil => exact absurd habs hane
    | cons _ _ => simp
  remSeekLe := by
    intro r t hv
    have hVb : V r.inner ∧ abs r.inner ≠ [] ∧ ∀ x ∈ abs r.inner, mint ≤ x.t := by
      rcases hv with ⟨L, hV, _, _, hm, hL, hne⟩ | ⟨hV, _, _, hm, x, hx, _⟩
      · exact ⟨hV, by rw [hL] at hne; exact ne_of_takeLe_ne hne, hm⟩
      · exact ⟨hV, by intro he; rw [he] at hx; simp at hx, hm⟩
    obtain ⟨hV, hane, hm⟩ := hVb
    unfold bndRem
    by_cases ht : t > M
    · rw [bnd_seek_beyond mint M r t ht]; exact Nat.le_refl _
    · rw [bnd_seek_inner mint M r t ht]
      simp only
      rw [h.seekAbs _ _ hV hane, dropLt_clamp hm]
      exact dropLt_length_le _ _
  remSeekLt := by
    intro r t x hv hat hlt hok
    have hVb : V r.inner ∧ abs r.inner ≠ [] ∧ ∀ x ∈ abs r.inner, mint ≤ x.t := by
      rcases hv with ⟨L, hV, _, _, hm, hL, hne⟩ | ⟨hV, _, _, hm, x, hx, _⟩
      · exact ⟨hV, by rw [hL] at hne; exact ne_of_takeLe_ne hne, hm⟩
      · exact ⟨hV, by intro he; rw [he] at hx; simp at hx, hm⟩
    obtain ⟨hV, hane, hm⟩ := hVb
    unfold bndRem
    by_cases ht : t > M
    · rw [bnd_seek_beyond mint M r t ht] at hok; simp at hok
    · rw [bnd_seek_inner mint M r t ht]
      simp only
      rw [h.seekAbs _ _ hV hane, dropLt_clamp hm]
      have hat' : o.atT r.inner = some x := hat
      rw [h.atT _ hV hane] at hat'
      cases habs : abs r.inner with
      | nil => exact absurd habs hane
      | cons a l =>
        rw [habs] at hat'
        simp at hat'
        rw [dropLt_cons_lt (by omega)]
        have := dropLt_length_le t l
        simp only [List.length_cons]; omega
  remAdjust := fun r v => rfl

/-- the first `Next` of a bounded iterator over a fresh list-like one -/
theorem bNext_fresh (h : ListLike o V abs) {s0 : σ} {L : List Sample} (hi : InitNext o V abs s0 L)
    (hs : SSorted L) :
    ∃ s1 ok, bNext o mint M s0 = some (s1, ok) ∧ V s1 ∧
      (ok = true → abs s1 = dropLt mint L ∧ takeLe M (dropLt mint L) ≠ []) ∧
      (ok = false → takeLe M (dropLt mint L) = []) := by
  have hempty : ∀ {D : List Sample}, (∀ x, D.head? = some x → M < x.t) → takeLe M D = [] := by
    intro D hD
    cases D with
    | nil => rfl
    | cons d r =>
      have := hD d rfl
      have hnd : ¬ d.t ≤ M := by omega
      simp [takeLe, hnd]
  cases hL : L with
  | nil =>
    refine ⟨(o.next s0).1, false, ?_, hi.nextV, fun hc => Bool.noConfusion hc, fun _ => (by simp [takeLe])⟩
    unfold bNext; simp [hi.nextOk, hL]
  | cons y rest =>
    have hne : abs (o.next s0).1 ≠ [] := by rw [hi.nextAbs, hL]; simp
    have hat : o.atT (o.next s0).1 = some y.t := by rw [h.atT _ hi.nextV hne, hi.nextAbs, hL]; rfl
    have hok : (o.next s0).2 = true := by rw [hi.nextOk, hL]; rfl
    have hsL : SSorted (y :: rest) := by rw [← hL]; exact hs
    by_cases hym : y.t < mint
    · by_cases hmm : mint > M
      · refine ⟨(o.next s0).1, false, ?_, hi.nextV, fun hc => Bool.noConfusion hc, fun _ => ?_⟩
        · unfold bNext bSeek; simp [hok, hat, hym, hmm]
        · apply hempty
          intro x hx
          have := head_dropLt_ge hx; omega
      · have hV2 := h.seekV _ mint hi.nextV hne
        have habs2 : abs (o.seek mint (o.next s0).1).1 = dropLt mint (y :: rest) := by
          rw [h.seekAbs _ mint hi.nextV hne, hi.nextAbs, hL]
        have hok2 : (o.seek mint (o.next s0).1).2 = !(dropLt mint (y :: rest)).isEmpty := by
          rw [h.seekOk _ mint hi.nextV hne, hi.nextAbs, hL]
        cases hD : dropLt mint (y :: rest) with
        | nil =>
          rw [hD] at hok2
          refine ⟨(o.seek mint (o.next s0).1).1, false, ?_, hV2, fun hc => Bool.noConfusion hc, fun _ => (by simp [takeLe])⟩
          unfold bNext bSeek; simp [hok, hat, hym, hmm, hok2]
        | cons d r =>
          rw [hD] at hok2 habs2
          have hne2 : abs (o.seek mint (o.next s0).1).1 ≠ [] := by rw [habs2]; simp
          have hat2 : o.atT (o.seek mint (o.next s0).1).1 = some d.t := by
            rw [h.atT _ hV2 hne2, habs2]; rfl
          refine ⟨(o.seek mint (o.next s0).1).1, decide (d.t ≤ M), ?_, hV2, ?_, ?_⟩
          · unfold bNext bSeek; simp [hok, hat, hym, hmm, hok2, hat2]
          · intro hc
            simp at hc
            exact ⟨habs2, by simp [takeLe, hc]⟩
          · intro hc
            simp at hc
            have hnd : ¬ d.t ≤ M := by omega
            simp [takeLe, hnd]
    · have hD : dropLt mint (y :: rest) = y :: rest := dropLt_cons_ge (by omega)
      rw [hD]
      refine ⟨(o.next s0).1, decide (y.t ≤ M), ?_, hi.nextV, ?_, ?_⟩
      · unfold bNext; simp [hok, hat, hym]
      · intro hc
        simp at hc
        exact ⟨by rw [hi.nextAbs, hL], by simp [takeLe, hc]⟩
      · intro hc
        simp at hc
        have hnd : ¬ y.t ≤ M := by omega
        simp [takeLe, hnd]

theorem bnd_trackInit (h : ListLike o V abs) {s0 : σ} {L : List Sample} (hi : InitNext o V abs s0 L)
    (hs : SSorted L) :
    TrackInit (bndOps o mint M) (bndT V abs mint M) (bndB V abs mint M)
      { inner := s0, bad := false, stopped := false } (takeLe M (dropLt mint L)) := by
  obtain ⟨s1, ok, hb, hV1, h1, h2⟩ := bNext_fresh mint M h hi hs
  have hnext : (bndOps o mint M).next { inner := s0, bad := false, stopped := false } =
      ({ inner := s1, bad := false, stopped := false }, ok) := by
    simp [bndOps, hb]
  refine ⟨?_, ?_, ?_⟩
  · intro hne
    rw [hnext]
    cases ok with
    | false => exact absurd (h2 rfl) hne
    | true =>
      obtain ⟨habs, _⟩ := h1 rfl
      refine ⟨rfl, hV1, rfl, ?_, ?_, ?_, hne⟩
      · simp only; rw [habs]; exact ssorted_dropLt mint hs
      · simp only; rw [habs]
        intro x hx
        -- sorted and the head is ≥ mint
        cases hD : dropLt mint L with
        | nil => rw [hD] at hx; simp at hx
        | cons d r =>
          have hd : mint ≤ d.t := head_dropLt_ge (by rw [hD]; rfl)
          have hsD : SSorted (d :: r) := by rw [← hD]; exact ssorted_dropLt mint hs
          rw [hD] at hx
          rcases List.mem_cons.mp hx with rfl | hx
          · exact hd
          · have := (List.pairwise_cons.mp hsD).1 x hx; omega
      · simp only; rw [habs]
  · intro he
    rw [hnext]
    cases ok with
    | false => exact Or.inl rfl
    | true => exact absurd he (h1 rfl).2
  · rw [hnext]
    simp [bndOps, h.bad _ hV1]

end leaf

end Thanos.Dedup
