import Thanos.Lemmas.DownsampleCounterL1
import Thanos.Lemmas.DownsampleAggrLoop
/-
  Helper lemmas for C37, level 2: the counter sub-chunk downsampleFloatAggrBatch writes for a group
  of level-1 chunks is again `ctrChunk` of the group's raw samples.
-/
namespace Thanos.Downsample

/-- window ends as multiples: `currentWindow t r = r * (t / r + 1) - 1` -/
theorem currentWindow_mul {t r : Int} (hr : 0 < r) : currentWindow t r = r * (t / r + 1) - 1 := by
  rw [currentWindow_eq hr]
  have := Int.emod_add_mul_ediv t r
  rw [Int.mul_add]
  omega

/-- windows of a resolution that is a multiple nest: the `r1`-window of `t` ends no later than
    its `k * r1`-window -/
theorem currentWindow_nested {t r1 k : Int} (hr : 0 < r1) (hk : 0 < k) :
    currentWindow t r1 ≤ currentWindow t (k * r1) := by
  have hr2 : 0 < k * r1 := Int.mul_pos hk hr
  rw [currentWindow_mul hr, currentWindow_mul hr2]
  have h1 : t < k * r1 * (t / (k * r1)) + k * r1 := Int.lt_mul_ediv_self_add hr2
  have h2 : t < (k * (t / (k * r1) + 1)) * r1 := by
    have : (k * (t / (k * r1) + 1)) * r1 = k * r1 * (t / (k * r1)) + k * r1 := by
      rw [Int.mul_add, Int.mul_one, Int.add_mul, Int.mul_right_comm]
    omega
  have h3 : t / r1 < k * (t / (k * r1) + 1) := Int.ediv_lt_of_lt_mul hr h2
  have h4 : r1 * (t / r1 + 1) ≤ r1 * (k * (t / (k * r1) + 1)) := Int.mul_le_mul_of_nonneg_left (by omega) (by omega)
  have h5 : r1 * (k * (t / (k * r1) + 1)) = k * r1 * (t / (k * r1) + 1) := by
    rw [← Int.mul_assoc, Int.mul_comm r1 k]
  omega

/-- a timestamp at or before a window end lies in that window or an earlier one -/
theorem currentWindow_le_of_le {u x r : Int} (hr : 0 < r) (h : u ≤ currentWindow x r) :
    currentWindow u r ≤ currentWindow x r := by
  by_cases hux : u ≤ x
  · exact currentWindow_mono hux hr
  · have hxu : x ≤ u := by omega
    have hnot : ¬ u > currentWindow x r := by omega
    have : currentWindow u r = currentWindow x r := by
      apply Decidable.byContradiction
      intro hne
      exact hnot ((gt_currentWindow_iff hxu hr).mpr hne)
    omega

/-- a list whose values never decrease sees no reset: its adjusted value is its last value -/
theorem adjusted_of_mono : ∀ (l : List Int), l.Pairwise (· ≤ ·) → l ≠ [] → adjusted l = lastVal l := by
  intro l hp hne
  cases l with
  | nil => exact absurd rfl hne
  | cons v vs =>
    simp only [adjusted]
    have key : ∀ (ys : List Int) (a : Int), (a :: ys).Pairwise (· ≤ ·) →
        (ys.foldl adjStep (a, a)).1 = lastVal (a :: ys) := by
      intro ys
      induction ys with
      | nil => intro a _; rfl
      | cons y ys ih =>
        intro a hpa
        have h1 := List.pairwise_cons.mp hpa
        have hay : a ≤ y := h1.1 y (by simp)
        have : ¬ y < a := by omega
        simp only [List.foldl_cons, adjStep, this, if_false]
        have e : a + (y - a) = y := by omega
        rw [e, ih y h1.2]
        simp only [lastVal, List.getLast?_cons_cons]
    exact key vs v hp

/-- **re-aggregating an already adjusted series.**  `buf` carries, at strictly increasing
    timestamps, the adjusted raw counter (`p.2 = adjAt raw p.1`, hence non-decreasing values).  If
    every raw sample at or before `t` is covered by a `buf` timestamp at or before `t`, the
    adjusted counter of `buf` at `t` is the adjusted raw counter at `t`. -/
theorem adjAt_buf_eq (raw buf : List Pt) (t : Int)
    (hts : (buf.map (·.1)).Pairwise (· < ·)) (hval : ∀ p ∈ buf, p.2 = adjAt raw p.1)
    (hmono : (buf.map (·.2)).Pairwise (· ≤ ·)) (hne : ∃ p ∈ buf, p.1 ≤ t)
    (hclosed : ∀ u ∈ raw, u.1 ≤ t → ∃ e ∈ buf, u.1 ≤ e.1 ∧ e.1 ≤ t) :
    adjAt buf t = adjAt raw t := by
  -- F = the samples of buf up to t
  generalize hF : buf.filter (fun p => decide (p.1 ≤ t)) = F
  have hFsub : ∀ p ∈ F, p ∈ buf ∧ p.1 ≤ t := by
    intro p hp; rw [← hF] at hp
    have := List.mem_filter.mp hp
    exact ⟨this.1, by simpa using this.2⟩
  have hFne : F ≠ [] := by
    obtain ⟨p, hp, hpt⟩ := hne
    intro hc
    have : p ∈ F := by rw [← hF]; exact List.mem_filter.mpr ⟨hp, by simpa using hpt⟩
    rw [hc] at this; simp at this
  have hFts : (F.map (·.1)).Pairwise (· < ·) := by
    rw [← hF]; exact hts.sublist (List.Sublist.map _ List.filter_sublist)
  have hFmono : (F.map (·.2)).Pairwise (· ≤ ·) := by
    rw [← hF]; exact hmono.sublist (List.Sublist.map _ List.filter_sublist)
  obtain ⟨l, hl⟩ : ∃ l, F.getLast? = some l := by
    cases h : F.getLast? with
    | none => exact absurd (List.getLast?_eq_none_iff.mp h) hFne
    | some l => exact ⟨l, rfl⟩
  have hlF : l ∈ F := List.mem_of_getLast? hl
  have hlmax : ∀ p ∈ F, p.1 ≤ l.1 := by
    obtain ⟨ys, hys⟩ := List.getLast?_eq_some_iff.mp hl
    intro p hp
    rw [hys] at hp hFts
    rcases List.mem_append.mp hp with h | h
    · rw [List.map_append] at hFts
      exact Int.le_of_lt ((List.pairwise_append.mp hFts).2.2 p.1 (List.mem_map.mpr ⟨p, h, rfl⟩) l.1 (by simp))
    · simp at h; rw [h]; exact Int.le_refl _
  -- left side: the last value of F
  have hleft : adjAt buf t = l.2 := by
    simp only [adjAt, hF]
    rw [adjusted_of_mono _ hFmono (by intro hc; exact hFne (List.map_eq_nil_iff.mp hc))]
    simp [lastVal, List.getLast?_map, hl]
  rw [hleft, hval l (hFsub l hlF).1]
  -- right side: raw up to t = raw up to the timestamp of that value
  simp only [adjAt]
  congr 2
  apply List.filter_congr
  intro u hu
  have hlt : l.1 ≤ t := (hFsub l hlF).2
  by_cases h1 : u.1 ≤ t
  · obtain ⟨e, he, hue, het⟩ := hclosed u hu h1
    have heF : e ∈ F := by rw [← hF]; exact List.mem_filter.mpr ⟨he, by simpa using het⟩
    have := hlmax e heF
    have h2 : u.1 ≤ l.1 := by omega
    simp [h1, h2]
  · have h2 : ¬ u.1 ≤ l.1 := by omega
    simp [h1, h2]

/-! ### the series the reader hands to level 2 -/

/-- a group of consecutive segments (the level-1 chunks one level-2 chunk is made from) -/
structure GroupOK (r1 : Int) (segs : List (List Pt × List Int)) : Prop where
  ne : segs ≠ []
  segok : ∀ sg ∈ segs, SegOK sg.1 sg.2
  sorted : Sorted (segs.flatMap (·.1))
  nonnegT : ∀ p ∈ segs.flatMap (·.1), 0 ≤ p.1
  cover : ∀ sg ∈ segs, ∀ u ∈ sg.1, ∃ e ∈ segTs sg.1 sg.2, u.1 ≤ e ∧ e ≤ currentWindow u.1 r1

/-- what the reader returns for the group: its emission timestamps with the adjusted counter of
    the group's raw samples -/
def groupBuf (segs : List (List Pt × List Int)) : List Pt :=
  segs.flatMap (fun sg => (segTs sg.1 sg.2).map fun t => (t, adjAt (segs.flatMap (·.1)) t))

theorem segTs_facts (vs : List Pt) (T : List Int) (ok : SegOK vs T) (t0 v0 lt lv : Int)
    (hf : vs.head? = some (t0, v0)) (hl : vs.getLast? = some (lt, lv)) :
    (segTs vs T).Pairwise (· < ·) ∧ (∀ t ∈ segTs vs T, t0 ≤ t ∧ t ≤ lt) ∧ (segTs vs T).head? = some t0 ∧
      (segTs vs T).getLast? = some lt := by
  have hTlast := ok.tlast _ hl
  simp only at hTlast
  have hTle : ∀ u ∈ T, u ≤ lt := by
    obtain ⟨ys, hys⟩ := List.getLast?_eq_some_iff.mp hTlast
    have hT := ok.tsorted
    rw [hys] at hT
    intro u hu
    rw [hys] at hu
    rcases List.mem_append.mp hu with h | h
    · exact Int.le_of_lt ((List.pairwise_append.mp hT).2.2 u h lt (by simp))
    · simp at h; omega
  have ht0lt : t0 ≤ lt := ok.tfirst lt (List.mem_of_getLast? hTlast) _ hf
  simp only [segTs, firstT, hf]
  refine ⟨?_, ?_, rfl, ?_⟩
  · refine List.pairwise_cons.mpr ⟨fun t ht => by simpa using (List.mem_filter.mp ht).2, ok.tsorted.sublist List.filter_sublist⟩
  · intro t ht
    rcases List.mem_cons.mp ht with h | h
    · omega
    · have := List.mem_filter.mp h
      exact ⟨by have := this.2; simp at this; omega, hTle t this.1⟩
  · -- the last emission timestamp is lt
    by_cases h : t0 < lt
    · have hmem : lt ∈ T.filter (fun t => decide (t0 < t)) :=
        List.mem_filter.mpr ⟨List.mem_of_getLast? hTlast, by simpa using h⟩
      have hne : T.filter (fun t => decide (t0 < t)) ≠ [] := by intro hc; rw [hc] at hmem; simp at hmem
      rw [show (t0 :: T.filter (fun t => decide (t0 < t))) = [t0] ++ T.filter (fun t => decide (t0 < t)) from rfl,
        getLast?_append_ne' _ _ hne]
      -- last of a sorted list that contains its upper bound
      cases hg : (T.filter (fun t => decide (t0 < t))).getLast? with
      | none => exact absurd (List.getLast?_eq_none_iff.mp hg) hne
      | some z =>
        have hz := List.mem_of_getLast? hg
        have hzle := hTle z (List.mem_filter.mp hz).1
        obtain ⟨ys, hys⟩ := List.getLast?_eq_some_iff.mp hg
        have hsf : (T.filter (fun t => decide (t0 < t))).Pairwise (· < ·) := ok.tsorted.sublist List.filter_sublist
        rw [hys] at hmem hsf
        rcases List.mem_append.mp hmem with h' | h'
        · have := (List.pairwise_append.mp hsf).2.2 lt h' z (by simp); omega
        · simp at h'; rw [h']
    · have hlt : lt = t0 := by omega
      have hnil : T.filter (fun t => decide (t0 < t)) = [] :=
        List.filter_eq_nil_iff.mpr (fun u hu => by have := hTle u hu; simp; omega)
      simp [hnil, hlt]

theorem seg_ends (vs : List Pt) (T : List Int) (ok : SegOK vs T) :
    ∃ t0 v0 lt lv, vs.head? = some (t0, v0) ∧ vs.getLast? = some (lt, lv) := by
  cases hv : vs with
  | nil => exact absurd hv ok.ne
  | cons x xs =>
    cases hg : (x :: xs).getLast? with
    | none => simp at hg
    | some l => exact ⟨x.1, x.2, l.1, l.2, rfl, rfl⟩

/-- facts about `groupBuf`: strictly increasing timestamps ≥ 0 (exactly the segments' emission
    timestamps), non-decreasing values, first and last sample -/
theorem groupBuf_facts (r1 : Int) (segs : List (List Pt × List Int)) (g : GroupOK r1 segs)
    (hv : ∀ p ∈ segs.flatMap (·.1), 0 ≤ p.2) (t0 v0 lt lv : Int)
    (hf : (segs.flatMap (·.1)).head? = some (t0, v0)) (hl : (segs.flatMap (·.1)).getLast? = some (lt, lv)) :
    ((groupBuf segs).map (·.1)).Pairwise (· < ·) ∧
    (∀ p ∈ groupBuf segs, p.2 = adjAt (segs.flatMap (·.1)) p.1 ∧ t0 ≤ p.1 ∧ p.1 ≤ lt) ∧
    ((groupBuf segs).map (·.2)).Pairwise (· ≤ ·) ∧
    (groupBuf segs).head? = some (t0, v0) ∧ ((groupBuf segs).map (·.1)).getLast? = some lt ∧
    (groupBuf segs).map (·.1) = segs.flatMap (fun sg => segTs sg.1 sg.2) := by
  have hsraw0 := g.sorted
  generalize hraw : segs.flatMap (·.1) = raw at *
  have hsraw : Sorted raw := hsraw0
  have hts : (groupBuf segs).map (·.1) = segs.flatMap (fun sg => segTs sg.1 sg.2) := by
    simp only [groupBuf, hraw, List.map_flatMap, List.map_map, Function.comp_def, List.map_id']
  -- bounds of every segment's emission timestamps inside the group's raw span
  have hsegmem : ∀ sg ∈ segs, ∀ p ∈ sg.1, p ∈ raw := fun sg hsg p hp => hraw ▸ List.mem_flatMap.mpr ⟨sg, hsg, hp⟩
  have hrawle : ∀ p ∈ raw, t0 ≤ p.1 ∧ p.1 ≤ lt := by
    intro p hp
    have hs := hsraw
    constructor
    · cases hr : raw with
      | nil => rw [hr] at hp; simp at hp
      | cons x xs =>
        rw [hr] at hf hs hp
        simp only [List.head?_cons, Option.some.injEq] at hf
        rcases List.mem_cons.mp hp with h | h
        · rw [h, hf]; exact Int.le_refl _
        · have := (List.pairwise_cons.mp hs).1 p h; rw [hf] at this; simp only at this; omega
    · obtain ⟨ys, hys⟩ := List.getLast?_eq_some_iff.mp hl
      rw [hys] at hp hs
      rcases List.mem_append.mp hp with h | h
      · have := (List.pairwise_append.mp hs).2.2 p h (lt, lv) (by simp); simp only at this; omega
      · simp at h; rw [h]; exact Int.le_refl _
  have hsegb : ∀ sg ∈ segs, ∀ t ∈ segTs sg.1 sg.2, t0 ≤ t ∧ t ≤ lt := by
    intro sg hsg t ht
    obtain ⟨a, b, c, d, h1, h2⟩ := seg_ends sg.1 sg.2 (g.segok sg hsg)
    have := (segTs_facts sg.1 sg.2 (g.segok sg hsg) a b c d h1 h2).2.1 t ht
    have ha := (hrawle _ (hsegmem sg hsg _ (List.mem_of_mem_head? (by rw [h1]; rfl)))).1
    have hc := (hrawle _ (hsegmem sg hsg _ (List.mem_of_getLast? h2))).2
    simp only at ha hc
    omega
  have hsorted : (segs.flatMap (fun sg => segTs sg.1 sg.2)).Pairwise (· < ·) := by
    rw [List.flatMap_def, List.pairwise_flatten]
    constructor
    · intro l hl'
      obtain ⟨sg, hsg, rfl⟩ := List.mem_map.mp hl'
      obtain ⟨a, b, c, d, h1, h2⟩ := seg_ends sg.1 sg.2 (g.segok sg hsg)
      exact (segTs_facts sg.1 sg.2 (g.segok sg hsg) a b c d h1 h2).1
    · rw [List.pairwise_map]
      -- segments are consecutive pieces of the sorted raw series
      have hs := g.sorted
      rw [List.flatMap_def, Sorted, List.pairwise_flatten] at hs
      have hs2 := List.pairwise_map.mp hs.2
      refine hs2.imp_of_mem ?_
      intro sg1 sg2 hm1 hm2 hlt x hx y hy
      obtain ⟨a1, b1, c1, d1, h11, h12⟩ := seg_ends sg1.1 sg1.2 (g.segok sg1 hm1)
      obtain ⟨a2, b2, c2, d2, h21, h22⟩ := seg_ends sg2.1 sg2.2 (g.segok sg2 hm2)
      have hx' := (segTs_facts sg1.1 sg1.2 (g.segok sg1 hm1) a1 b1 c1 d1 h11 h12).2.1 x hx
      have hy' := (segTs_facts sg2.1 sg2.2 (g.segok sg2 hm2) a2 b2 c2 d2 h21 h22).2.1 y hy
      have := hlt (c1, d1) (List.mem_of_getLast? h12) (a2, b2) (List.mem_of_mem_head? (by rw [h21]; rfl))
      simp only at this
      omega
  have hmemts : ∀ p ∈ groupBuf segs, p.1 ∈ segs.flatMap (fun sg => segTs sg.1 sg.2) ∧ p.2 = adjAt raw p.1 := by
    intro p hp
    simp only [groupBuf, hraw] at hp
    obtain ⟨sg, hsg, hp⟩ := List.mem_flatMap.mp hp
    obtain ⟨t, ht, rfl⟩ := List.mem_map.mp hp
    exact ⟨List.mem_flatMap.mpr ⟨sg, hsg, ht⟩, rfl⟩
  have hbounds : ∀ p ∈ groupBuf segs, p.2 = adjAt raw p.1 ∧ t0 ≤ p.1 ∧ p.1 ≤ lt := by
    intro p hp
    obtain ⟨h1, h2⟩ := hmemts p hp
    obtain ⟨sg, hsg, ht⟩ := List.mem_flatMap.mp h1
    exact ⟨h2, hsegb sg hsg p.1 ht⟩
  refine ⟨hts ▸ hsorted, hbounds, ?_, ?_, ?_, hts⟩
  · -- values never decrease
    have : (groupBuf segs).map (·.2) = (segs.flatMap (fun sg => segTs sg.1 sg.2)).map (adjAt raw) := by
      simp only [groupBuf, hraw, List.map_flatMap, List.map_map, Function.comp_def]
    rw [this, List.pairwise_map]
    refine hsorted.imp_of_mem ?_
    intro a b ha _ hab
    obtain ⟨sg, hsg, hta⟩ := List.mem_flatMap.mp ha
    exact adjAt_mono raw hsraw hv _ hf a b (hsegb sg hsg a hta).1 (Int.le_of_lt hab)
  · -- first sample
    cases hsegs : segs with
    | nil => exact absurd hsegs g.ne
    | cons sg rest =>
      have hsg : sg ∈ segs := by rw [hsegs]; simp
      obtain ⟨a, b, c, d, h1, h2⟩ := seg_ends sg.1 sg.2 (g.segok sg hsg)
      have hrawhead : raw.head? = some (a, b) := by
        rw [← hraw, hsegs, List.flatMap_cons]
        cases hs1 : sg.1 with
        | nil => rw [hs1] at h1; simp at h1
        | cons x xs => rw [hs1] at h1; simpa using h1
      rw [hf] at hrawhead
      simp only [Option.some.injEq, Prod.mk.injEq] at hrawhead
      have hcat : sg.1 ++ rest.flatMap (·.1) = raw := by rw [← hraw, hsegs, List.flatMap_cons]
      simp only [groupBuf, List.flatMap_cons, segTs, firstT, h1, List.map_cons, List.cons_append, List.head?_cons]
      rw [hcat, ← hrawhead.1, adjAt_head raw hsraw t0 v0 hf]
  · -- last timestamp
    rw [hts]
    obtain ⟨init, sg, hsegs⟩ : ∃ init sg, segs = init ++ [sg] := by
      cases hgl : segs.getLast? with
      | none => exact absurd (List.getLast?_eq_none_iff.mp hgl) g.ne
      | some sg => exact ⟨_, sg, (List.getLast?_eq_some_iff.mp hgl).choose_spec⟩
    have hsg : sg ∈ segs := by rw [hsegs]; simp
    obtain ⟨a, b, c, d, h1, h2⟩ := seg_ends sg.1 sg.2 (g.segok sg hsg)
    have hst := (segTs_facts sg.1 sg.2 (g.segok sg hsg) a b c d h1 h2)
    have hne : segTs sg.1 sg.2 ≠ [] := by intro hc; rw [hc] at hst; simp at hst
    have hrawlast : raw.getLast? = some (c, d) := by
      rw [← hraw, hsegs, List.flatMap_append, List.flatMap_cons, List.flatMap_nil, List.append_nil,
        getLast?_append_ne' _ _ (g.segok sg hsg).ne, h2]
    rw [hl] at hrawlast
    simp only [Option.some.injEq, Prod.mk.injEq] at hrawlast
    rw [hsegs, List.flatMap_append, List.flatMap_cons, List.flatMap_nil, List.append_nil,
      getLast?_append_ne' _ _ hne, hst.2.2.2, hrawlast.1]

/-! ### the counter sub-chunk of downsampleFloatAggrBatch -/

/-- the counter part of downsampleFloatAggrBatch on its own -/
def aggrCounter (part : List Chunk) (r : Int) : List Pt :=
  let acs := (part.map (·.counter)).filter (fun c => !c.isEmpty)
  let buf := expandXor (applyResets acs).1 0
  match buf.head?, downsampleBatch buf r with
  | some first, some (out, lastT) => first :: (out.map fun e => (e.1, e.2.counter)) ++ [(lastT, (applyResets acs).2)]
  | _, _ => []

theorem floatAggrBatch_counter_eq (part : List Chunk) (r : Int) :
    (floatAggrBatch part r).counter = aggrCounter part r := by
  unfold floatAggrBatch aggrCounter
  rcases genericAggregate (·.count) (·.sum) part r with ⟨m1, x1, cnt⟩
  rcases genericAggregate (·.sum) (·.sum) part r with ⟨m2, x2, sm⟩
  rcases genericAggregate (·.min) (·.min) part r with ⟨m3, x3, mn⟩
  rcases genericAggregate (·.max) (·.max) part r with ⟨m4, x4, mx⟩
  rcases applyResets ((part.map (·.counter)).filter (fun c => !c.isEmpty)) with ⟨crOut, lastV⟩
  simp only
  split <;> simp_all

theorem ctrChunk_ne (vs : List Pt) (T : List Int) (ok : SegOK vs T) : ctrChunk vs T ≠ [] := by
  obtain ⟨a, b, c, d, h1, h2⟩ := seg_ends vs T ok
  rw [(seg_shape vs T ok a b c d h1 h2).1]
  simp

/-- **the level-2 counter sub-chunk.**  For a group of level-1 chunks whose counter sub-chunks are
    `ctrChunk` of consecutive segments of the raw series (every raw sample covered by an emission
    timestamp inside its `r1` window), and a resolution `k * r1`: downsampleFloatAggrBatch writes
    `ctrChunk` of the group's raw samples, with the emission timestamps of its own windows. -/
theorem aggrCounter_group (r1 k : Int) (hr1 : 0 < r1) (hk : 0 < k) (part : List Chunk)
    (segs : List (List Pt × List Int)) (hpart : part.map (·.counter) = segs.map (fun sg => ctrChunk sg.1 sg.2))
    (g : GroupOK r1 segs) (hv : ∀ p ∈ segs.flatMap (·.1), 0 ≤ p.2) (t0 v0 lt lv : Int)
    (hf : (segs.flatMap (·.1)).head? = some (t0, v0)) (hl : (segs.flatMap (·.1)).getLast? = some (lt, lv)) :
    aggrCounter part (k * r1) = ctrChunk (segs.flatMap (·.1)) (batchTs (k * r1) (groupBuf segs) lt) ∧
    SegOK (segs.flatMap (·.1)) (batchTs (k * r1) (groupBuf segs) lt) := by
  have hr2 : 0 < k * r1 := Int.mul_pos hk hr1
  obtain ⟨b1, b2, b3, b4, b5, b6⟩ := groupBuf_facts r1 segs g hv t0 v0 lt lv hf hl
  have ht0 : 0 ≤ t0 := g.nonnegT (t0, v0) (List.mem_of_mem_head? (by rw [hf]; rfl))
  -- 1. the non-empty counter sub-chunks
  have hacs : (part.map (·.counter)).filter (fun c => !c.isEmpty) = segs.map (fun sg => ctrChunk sg.1 sg.2) := by
    rw [hpart]
    apply List.filter_eq_self.mpr
    intro c hc
    obtain ⟨sg, hsg, rfl⟩ := List.mem_map.mp hc
    have := ctrChunk_ne sg.1 sg.2 (g.segok sg hsg)
    cases h : ctrChunk sg.1 sg.2 with
    | nil => exact absurd h this
    | cons _ _ => rfl
  -- 2. what the reader returns for them
  have hsorted0 : Sorted ([] ++ segs.flatMap (·.1)) := by rw [List.nil_append]; exact g.sorted
  obtain ⟨hread, fr', hstate⟩ := crChunks_segs segs [] {} [] g.segok hsorted0 (by simp [StateAfter])
  have hout : (applyResets (segs.map fun sg => ctrChunk sg.1 sg.2)).1 = groupBuf segs := by
    simp only [applyResets]
    rw [hread, readSegs_global segs [] hsorted0 g.segok]
    simp only [List.nil_append, groupBuf]
  have hlastV : (applyResets (segs.map fun sg => ctrChunk sg.1 sg.2)).2 = lv := by
    simp only [applyResets]
    unfold StateAfter at hstate
    rw [List.nil_append, hl] at hstate
    exact hstate.2.2.1
  -- 3. nothing is skipped by expandXor
  have hbsorted : Sorted (groupBuf segs) := List.pairwise_map.mp b1
  have hexp : expandXor (groupBuf segs) 0 = groupBuf segs :=
    expandXor_id _ 0 hbsorted (fun p hp => by have := (b2 p hp).2.1; omega)
  -- 4. downsampleBatch on it
  obtain ⟨lp, hlp⟩ : ∃ lp, (groupBuf segs).getLast? = some lp := by
    cases h : (groupBuf segs).getLast? with
    | none => rw [List.getLast?_eq_none_iff.mp h] at b4; simp at b4
    | some lp => exact ⟨lp, rfl⟩
  have hlp1 : lp.1 = lt := by
    rw [List.getLast?_map, hlp] at b5; simpa using b5
  have hlp' : (groupBuf segs).getLast? = some (lt, lp.2) := by rw [hlp, ← hlp1]
  have hb0 : ∀ p ∈ groupBuf segs, 0 ≤ p.1 := fun p hp => by have := (b2 p hp).2.1; omega
  have hble : ∀ p ∈ groupBuf segs, p.1 ≤ lt := fun p hp => (b2 p hp).2.2
  have hbm : ∀ p ∈ groupBuf segs, minInt64 < p.1 := fun p hp => by
    have := hb0 p hp; have := minInt64_val; omega
  have hdb := downsampleBatch_runs (k * r1) hr2 (groupBuf segs) lt lp.2 hlp' hbm (hbsorted.imp (fun h => Int.le_of_lt h))
  have hctr := specEmit_counter (k * r1) hr2 (groupBuf segs) lt hbm hbsorted hble (runs (k * r1) (groupBuf segs)) [] (by simp)
  simp only [List.flatMap_nil, List.map_nil] at hctr
  -- 5. the adjusted counter of the buffer is the adjusted raw counter at every emission timestamp
  have hkey : ∀ t ∈ batchTs (k * r1) (groupBuf segs) lt, adjAt (groupBuf segs) t = adjAt (segs.flatMap (·.1)) t := by
    intro t ht
    simp only [batchTs, List.mem_map] at ht
    obtain ⟨gr, hgr, rfl⟩ := ht
    -- some sample x of the run
    obtain ⟨x, hx⟩ : ∃ x, x ∈ gr.2 := by
      have := runs_ne_nil (k * r1) (groupBuf segs) gr hgr
      cases h : gr.2 with
      | nil => exact absurd h this
      | cons x _ => exact ⟨x, by simp⟩
    have hxw : currentWindow x.1 (k * r1) = gr.1 := runs_window (k * r1) (groupBuf segs) gr hgr x hx
    have hxb : x ∈ groupBuf segs := by
      have : x ∈ (runs (k * r1) (groupBuf segs)).flatMap (·.2) := List.mem_flatMap.mpr ⟨gr, hgr, hx⟩
      rwa [runs_flatten] at this
    have hx0 := hb0 x hxb
    have hxlt := hble x hxb
    have hxcw := currentWindow_ge (t := x.1) hr2
    apply adjAt_buf_eq _ _ _ b1 (fun p hp => (b2 p hp).1) b3
    · exact ⟨x, hxb, by simp only [Int.min_def]; split <;> omega⟩
    · intro u hu hut
      obtain ⟨sg, hsg, hus⟩ := List.mem_flatMap.mp hu
      obtain ⟨e, he, hue, hew⟩ := g.cover sg hsg u hus
      have hu0 : 0 ≤ u.1 := g.nonnegT u hu
      have heb : e ∈ (groupBuf segs).map (·.1) := by rw [b6]; exact List.mem_flatMap.mpr ⟨sg, hsg, he⟩
      obtain ⟨pe, hpe, rfl⟩ := List.mem_map.mp heb
      refine ⟨pe, hpe, hue, ?_⟩
      have h1 : u.1 ≤ currentWindow x.1 (k * r1) := by
        rw [hxw]; have : min gr.1 lt ≤ gr.1 := by simp only [Int.min_def]; split <;> omega
        omega
      have h2 := currentWindow_le_of_le hr2 h1
      have h3 := currentWindow_nested (t := u.1) hr1 hk
      have h4 := hble pe hpe
      rw [← hxw]
      simp only [Int.min_def]; split <;> omega
  -- 6. assemble
  have hmapkey : (batchTs (k * r1) (groupBuf segs) lt).map (fun t => (t, adjAt (groupBuf segs) t)) =
      (batchTs (k * r1) (groupBuf segs) lt).map (fun t => (t, adjAt (segs.flatMap (·.1)) t)) :=
    List.map_congr_left (fun t ht => by rw [hkey t ht])
  constructor
  · have hrhs : ctrChunk (segs.flatMap (·.1)) (batchTs (k * r1) (groupBuf segs) lt) =
        (t0, v0) :: (batchTs (k * r1) (groupBuf segs) lt).map (fun t => (t, adjAt (segs.flatMap (·.1)) t)) ++ [(lt, lv)] := by
      simp only [ctrChunk, hf, hl]
    have hruns : (runs (k * r1) (groupBuf segs)).map (fun g => (min g.1 lt, adjAt (groupBuf segs) (min g.1 lt))) =
        (batchTs (k * r1) (groupBuf segs) lt).map (fun t => (t, adjAt (groupBuf segs) t)) := by
      simp [batchTs, List.map_map, Function.comp_def]
    rw [hrhs]
    simp only [aggrCounter, hacs]
    rw [hout, hlastV, hexp]
    simp only [b4, hdb, hctr, hruns, hmapkey]
  · -- the emission timestamps: via the shape of downsampleFloatBatch on the buffer
    obtain ⟨c', hc'⟩ := floatBatch_isSome (k * r1) (groupBuf segs) (by intro h; rw [h] at b4; simp at b4)
    have hmax : lt < maxInt64 ∨ True := Or.inr trivial
    have hcnt := (floatBatch_counter (k * r1) hr2 (groupBuf segs) lt lp.2 hlp' hbm hbsorted c' hc').2
    -- timestamps facts from batchEmit
    have hBok : BatchOK (groupBuf segs) t0 lt := ⟨⟨v0, b4⟩, ⟨lp.2, hlp'⟩, fun p hp => ⟨hbm p hp, hble p hp⟩⟩
    obtain ⟨q1, q2, q3⟩ := bOut_ts (k * r1) hr2 (groupBuf segs) t0 lt hBok
    have hbo : (bOut (k * r1) (groupBuf segs)).map (·.1) = batchTs (k * r1) (groupBuf segs) lt := by
      simp only [bOut, hdb]
      have : ∀ (gs : List (Int × List Pt)) (hist : List Int),
          (specEmit lt gs hist).map (·.1) = gs.map (fun g => min g.1 lt) := by
        intro gs
        induction gs with
        | nil => intro _; rfl
        | cons g gs ih => intro hist; obtain ⟨w, g⟩ := g; simp [specEmit, ih]
      rw [this]; rfl
    rw [hbo] at q1 q2 q3
    have hlastT : (batchTs (k * r1) (groupBuf segs) lt).getLast? = some lt := by
      have := batchEmit_getLast (k * r1) lt
      -- the last run contains the last sample
      cases hgl : (batchTs (k * r1) (groupBuf segs) lt).getLast? with
      | none => exact absurd (List.getLast?_eq_none_iff.mp hgl) q1
      | some z =>
        -- z ≤ lt and z ≥ every emission; the run of the last sample emits lt
        have hz := (q3 z (List.mem_of_getLast? hgl)).2
        have hltmem : lt ∈ batchTs (k * r1) (groupBuf segs) lt := by
          have hlpb : lp ∈ groupBuf segs := List.mem_of_getLast? hlp
          have : lp ∈ (runs (k * r1) (groupBuf segs)).flatMap (·.2) := by rw [runs_flatten]; exact hlpb
          obtain ⟨gr, hgr, hlpg⟩ := List.mem_flatMap.mp this
          have hw := runs_window (k * r1) (groupBuf segs) gr hgr lp hlpg
          have hcw := currentWindow_ge (t := lp.1) hr2
          refine List.mem_map.mpr ⟨gr, hgr, ?_⟩
          rw [← hw, hlp1]
          rw [hlp1] at hcw
          simp only [Int.min_def]; split <;> omega
        obtain ⟨ys, hys⟩ := List.getLast?_eq_some_iff.mp hgl
        rw [hys] at hltmem q2
        rcases List.mem_append.mp hltmem with h | h
        · have := (List.pairwise_append.mp q2).2.2 lt h z (by simp); omega
        · simp at h; rw [h]
    refine ⟨g.sorted, ?_, hv, q1, q2, ?_, ?_⟩
    · intro hc; rw [hc] at hf; simp at hf
    · intro t ht f hf'
      rw [hf] at hf'; simp only [Option.some.injEq] at hf'
      rw [← hf']; exact (q3 t ht).1
    · intro l hl'
      rw [hl] at hl'; simp only [Option.some.injEq] at hl'
      rw [← hl']; exact hlastT

/-! ### the loop of downsampleAggrLoop on counter sub-chunks -/

/-- consecutive segments of a raw counter series, each covered by its emission timestamps -/
structure SegsOK (r1 : Int) (segs : List (List Pt × List Int)) : Prop where
  segok : ∀ sg ∈ segs, SegOK sg.1 sg.2
  sorted : Sorted (segs.flatMap (·.1))
  nonnegT : ∀ p ∈ segs.flatMap (·.1), 0 ≤ p.1
  nonnegV : ∀ p ∈ segs.flatMap (·.1), 0 ≤ p.2
  cover : ∀ sg ∈ segs, ∀ u ∈ sg.1, ∃ e ∈ segTs sg.1 sg.2, u.1 ≤ e ∧ e ≤ currentWindow u.1 r1

theorem SegsOK.split {r1 : Int} {a b : List (List Pt × List Int)} (h : SegsOK r1 (a ++ b)) :
    SegsOK r1 a ∧ SegsOK r1 b := by
  have hs := h.sorted
  simp only [List.flatMap_append] at hs
  have hp := List.pairwise_append.mp hs
  constructor
  · exact ⟨fun sg hsg => h.segok sg (List.mem_append_left _ hsg), hp.1,
      fun p hp' => h.nonnegT p (by simp only [List.flatMap_append]; exact List.mem_append_left _ hp'),
      fun p hp' => h.nonnegV p (by simp only [List.flatMap_append]; exact List.mem_append_left _ hp'),
      fun sg hsg => h.cover sg (List.mem_append_left _ hsg)⟩
  · exact ⟨fun sg hsg => h.segok sg (List.mem_append_right _ hsg), hp.2.1,
      fun p hp' => h.nonnegT p (by simp only [List.flatMap_append]; exact List.mem_append_right _ hp'),
      fun p hp' => h.nonnegV p (by simp only [List.flatMap_append]; exact List.mem_append_right _ hp'),
      fun sg hsg => h.cover sg (List.mem_append_right _ hsg)⟩

/-- **the level-2 chunks are again counter chunks of segments of the raw series**: if the
    level-1 counter sub-chunks are `ctrChunk` of the segments `segs`, every chunk the loop of
    downsampleAggrLoop produces at resolution `k * r1` has as counter sub-chunk `ctrChunk` of the
    concatenated raw samples of its group, and the groups partition the series -/
theorem aggrLoop_counter (r1 k : Int) (hr1 : 0 < r1) (hk : 0 < k) (bs : Nat) (hbs : 1 ≤ bs) :
    ∀ (fuel : Nat) (chks : List Chunk) (segs : List (List Pt × List Int)) (out : List Chunk),
      chks.map (·.counter) = segs.map (fun sg => ctrChunk sg.1 sg.2) → SegsOK r1 segs →
      aggrLoop (k * r1) bs fuel chks = .ok out →
      ∃ segs2 : List (List Pt × List Int), out.map (·.counter) = segs2.map (fun sg => ctrChunk sg.1 sg.2) ∧
        (∀ sg ∈ segs2, SegOK sg.1 sg.2) ∧ segs2.flatMap (·.1) = segs.flatMap (·.1) := by
  intro fuel
  induction fuel with
  | zero =>
    intro chks segs out hcs _ hloop
    cases chks with
    | nil =>
      simp only [aggrLoop, AggrRes.ok.injEq] at hloop
      cases segs with
      | nil => exact ⟨[], by rw [← hloop]; rfl, by simp, rfl⟩
      | cons _ _ => simp at hcs
    | cons _ _ => simp [aggrLoop] at hloop
  | succ fuel ih =>
    intro chks segs out hcs hok hloop
    cases chks with
    | nil =>
      simp only [aggrLoop, AggrRes.ok.injEq] at hloop
      cases segs with
      | nil => exact ⟨[], by rw [← hloop]; rfl, by simp, rfl⟩
      | cons _ _ => simp at hcs
    | cons c cs =>
      have hlen : (c :: cs).length = segs.length := by
        have := congrArg List.length hcs; simpa using this
      have hj : 1 ≤ min bs (c :: cs).length := by simp only [List.length_cons]; omega
      simp only [aggrLoop] at hloop
      generalize min bs (c :: cs).length = j at *
      split at hloop
      · simp at hloop
      · -- the rest of the loop
        cases hrest : aggrLoop (k * r1) bs fuel (List.drop j (c :: cs)) with
        | ok out' =>
          rw [hrest] at hloop
          simp only [AggrRes.ok.injEq] at hloop
          -- split the segments like the chunks
          have hsplit : segs.take j ++ segs.drop j = segs := List.take_append_drop j segs
          have hok' := hok
          rw [← hsplit] at hok'
          obtain ⟨okA, okB⟩ := hok'.split
          have hcsA : ((c :: cs).take j).map (·.counter) = (segs.take j).map (fun sg => ctrChunk sg.1 sg.2) := by
            rw [List.map_take, List.map_take, hcs]
          have hcsB : ((c :: cs).drop j).map (·.counter) = (segs.drop j).map (fun sg => ctrChunk sg.1 sg.2) := by
            rw [List.map_drop, List.map_drop, hcs]
          obtain ⟨segs2', h1, h2, h3⟩ := ih _ _ _ hcsB okB hrest
          -- the group of this iteration
          have hAne : segs.take j ≠ [] := by
            intro hc
            have := congrArg List.length hc
            simp only [List.length_take, List.length_nil] at this
            simp only [List.length_cons] at hlen
            omega
          have gA : GroupOK r1 (segs.take j) := ⟨hAne, okA.segok, okA.sorted, okA.nonnegT, okA.cover⟩
          obtain ⟨t0, v0, hf⟩ : ∃ t0 v0, ((segs.take j).flatMap (·.1)).head? = some (t0, v0) := by
            cases hA : segs.take j with
            | nil => exact absurd hA hAne
            | cons sg rest =>
              obtain ⟨a, b, _, _, hh, _⟩ := seg_ends sg.1 sg.2 (okA.segok sg (by rw [hA]; simp))
              refine ⟨a, b, ?_⟩
              simp only [List.flatMap_cons]
              cases hs1 : sg.1 with
              | nil => rw [hs1] at hh; simp at hh
              | cons x xs => rw [hs1] at hh; simpa using hh
          obtain ⟨lt, lv, hl⟩ : ∃ lt lv, ((segs.take j).flatMap (·.1)).getLast? = some (lt, lv) := by
            cases hg : ((segs.take j).flatMap (·.1)).getLast? with
            | none => rw [List.getLast?_eq_none_iff.mp hg] at hf; simp at hf
            | some l => exact ⟨l.1, l.2, rfl⟩
          obtain ⟨hc1, hc2⟩ := aggrCounter_group r1 k hr1 hk _ _ hcsA gA okA.nonnegV t0 v0 lt lv hf hl
          refine ⟨((segs.take j).flatMap (·.1), batchTs (k * r1) (groupBuf (segs.take j)) lt) :: segs2', ?_, ?_, ?_⟩
          · rw [← hloop]
            simp only [List.map_cons, floatAggrBatch_counter_eq, hc1, h1]
          · intro sg hsg
            rcases List.mem_cons.mp hsg with h | h
            · rw [h]; exact hc2
            · exact h2 sg h
          · simp only [List.flatMap_cons, h3]
            rw [← List.flatMap_append, hsplit]
        | invalidRange => rw [hrest] at hloop; simp at hloop
        | hang => rw [hrest] at hloop; simp at hloop
        | panic => rw [hrest] at hloop; simp at hloop

end Thanos.Downsample
