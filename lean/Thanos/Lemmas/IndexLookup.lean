import Thanos.Model.IndexHeader
import Thanos.Lemmas.IndexHeader
/-
  C11, the multi-value lookup: an index-free reading of the `Iter` loop (the sampled entries
  after position `i` are only used through the list of their values), its refinement by the
  model, and its correctness.
-/
namespace Thanos.IndexHeader

/-! ### the loops with the sampled entries seen as a list of values -/

/-- `inner` with `nx` = value of `offsets[i+1]`, if there is one -/
def innerA (nx : Option Nat) (value postingOffset : Nat) :
    (values : List Nat) → (rngs pending : List Rng) → (vi : Nat) → Inner
  | [], rngs, pending, vi => .done rngs pending vi
  | wanted :: rest, rngs, pending, vi =>
    if value ≥ wanted then
      let (rngs, pending) :=
        if value = wanted then (rngs, pending ++ [⟨(postingOffset : Int) + 4, 0⟩])
        else (rngs ++ [notFound], pending)
      let vi := vi + 1
      match rest with
      | [] => .done rngs pending vi
      | wanted' :: _ =>
        if pending.isEmpty && (match nx with | some x => decide (wanted' ≥ x) | none => false) then
          .breakIter rngs vi
        else innerA nx value postingOffset rest rngs pending vi
    else .done rngs pending vi

/-- `iterLoop` with `nexts` = the values of `offsets[i+1:]` -/
def iterA (lastValOffset : Int) (values : List Nat) :
    (rest : List (Nat × Nat)) → (nexts : List Nat) → (rngs pending : List Rng) → (vi : Nat) →
      Except Err (List Rng × Nat)
  | [], _, _, _, _ => .error .decode
  | (value, postingOffset) :: rest, nexts, rngs, pending, vi =>
    let rngs := rngs ++ closeAll pending ((postingOffset : Int) - 4)
    match innerA nexts.head? value postingOffset (values.drop vi) rngs [] vi with
    | .breakIter rngs vi => .ok (rngs, vi)
    | .done rngs pending vi =>
      match nexts with
      | [] => .ok (rngs ++ closeAll pending lastValOffset, vi)
      | nx :: nexts' =>
        match values[vi]? with
        | some wanted =>
          if wanted ≤ nx then
            iterA lastValOffset values rest (if wanted = nx then nexts' else nx :: nexts') rngs pending vi
          else finish rest rngs pending vi
        | none => finish rest rngs pending vi

theorem inner_eq_innerA (offsets : List Sampled) (i value po : Nat) : ∀ (ws : List Nat) (rngs pending : List Rng) (vi : Nat),
    inner offsets i value po ws rngs pending vi =
      innerA ((offsets[i + 1]?).map (·.1)) value po ws rngs pending vi
  | [], _, _, _ => rfl
  | w :: ws, rngs, pending, vi => by
    simp only [inner, innerA]
    by_cases hge : value ≥ w
    · simp only [hge, if_true]
      cases ws with
      | nil => rfl
      | cons w' ws' =>
        simp only
        have ih := fun r pe v => inner_eq_innerA offsets i value po (w' :: ws') r pe v
        cases h : offsets[i + 1]? with
        | none =>
          simp only [h, Option.map_none, Bool.and_false, Bool.false_eq_true, if_false] at ih ⊢
          by_cases heq : value = w
          · subst heq
            simp only [if_true]
            exact ih _ _ _
          · simp only [heq, if_false]
            exact ih _ _ _
        | some o =>
          have hlt : i + 1 < offsets.length := by
            rcases Nat.lt_or_ge (i + 1) offsets.length with hl | hl
            · exact hl
            · rw [List.getElem?_eq_none hl] at h; cases h
          simp only [h, Option.map_some, hlt, decide_true, Bool.and_true] at ih ⊢
          by_cases heq : value = w
          · subst heq
            simp only [if_true]
            split
            · rfl
            · exact ih _ _ _
          · simp only [heq, if_false]
            split
            · rfl
            · exact ih _ _ _
    · simp only [hge, if_false]

theorem drop_map_head (offsets : List Sampled) (i : Nat) :
    ((offsets.drop (i + 1)).map (·.1)).head? = (offsets[i + 1]?).map (·.1) := by
  simp [List.head?_drop]

theorem drop_map_head_idx (offsets : List Sampled) (i : Nat) :
    ((offsets.drop i).map (·.1)).head? = (offsets[i]?).map (·.1) := by
  simp [List.head?_drop]

/-- the model's `Iter` loop is the index-free one -/
theorem iterLoop_eq_iterA (offsets : List Sampled) (lastVal : Int) (values : List Nat) :
    ∀ (rest : List (Nat × Nat)) (i : Nat) (rngs pending : List Rng) (vi : Nat), i < offsets.length →
      iterLoop offsets lastVal values rest i rngs pending vi =
        iterA lastVal values rest ((offsets.drop (i + 1)).map (·.1)) rngs pending vi
  | [], _, _, _, _, _ => rfl
  | (value, po) :: rest, i, rngs, pending, vi, hi => by
    simp only [iterLoop, iterA, inner_eq_innerA, drop_map_head]
    cases hin : innerA ((offsets[i + 1]?).map (·.1)) value po (values.drop vi)
        (rngs ++ closeAll pending ((po : Int) - 4)) [] vi with
    | breakIter r v => rfl
    | done r pe v =>
      simp only
      by_cases hlast : i + 1 = offsets.length
      · have hd : offsets.drop (i + 1) = [] := List.drop_eq_nil_of_le (by omega)
        simp [hlast, hd]
      · have hlt : i + 1 < offsets.length := by omega
        have hget : offsets[i + 1]? = some offsets[i + 1] := List.getElem?_eq_getElem hlt
        have hd : offsets.drop (i + 1) = offsets[i + 1] :: offsets.drop (i + 2) := by
          rw [← List.getElem_cons_drop_succ_eq_drop hlt]
        simp only [hlast, if_false, hget, hd, List.map_cons]
        cases hv : values[v]? with
        | none => rfl
        | some w =>
          simp only
          by_cases hle : w ≤ offsets[i + 1].1
          · simp only [hle, if_true]
            by_cases heq : w = offsets[i + 1].1
            · simp only [heq, if_true]
              rw [iterLoop_eq_iterA offsets lastVal values rest (i + 1) r pe v hlt]
            · simp only [heq, if_false]
              rw [iterLoop_eq_iterA offsets lastVal values rest i r pe v hi, hd]
              rfl
          · simp only [hle, if_false]

/-! ### the specification, entry by entry -/

/-- where the posting list of the first entry of `rest'`'s predecessor ends -/
def endOf (lastVal : Int) : List (Nat × Nat) → Int
  | [] => lastVal
  | (_, p') :: _ => (p' : Int) - 4

theorem specOne_head (lastVal : Int) (v p : Nat) (rest' : List (Nat × Nat)) :
    specOne lastVal ((v, p) :: rest') v = ⟨(p : Int) + 4, endOf lastVal rest'⟩ := by
  cases rest' with
  | nil => simp [specOne, endOf]
  | cons e r => obtain ⟨v', p'⟩ := e; simp [specOne, endOf]

theorem specOne_skip (lastVal : Int) (v p w : Nat) (rest' : List (Nat × Nat)) (h : v ≠ w) :
    specOne lastVal ((v, p) :: rest') w = specOne lastVal rest' w := by
  cases rest' with
  | nil => simp [specOne, h]
  | cons e r => obtain ⟨v', p'⟩ := e; simp [specOne, h]

theorem specOne_lt (lastVal : Int) (w : Nat) : ∀ (rest : List (Nat × Nat)), (∀ e ∈ rest, w < e.1) →
    specOne lastVal rest w = notFound
  | [], _ => rfl
  | (v, p) :: rest', h => by
    have hv : w < v := h (v, p) (by simp)
    rw [specOne_skip lastVal v p w rest' (by omega)]
    exact specOne_lt lastVal w rest' (fun e he => h e (by simp [he]))

theorem Sorted.tail {a : Nat} {l : List Nat} (h : Sorted (a :: l)) : Sorted l := by
  cases l with
  | nil => trivial
  | cons b rest => exact h.2

theorem Sorted.head_le : ∀ {a : Nat} {l : List Nat}, Sorted (a :: l) → ∀ x ∈ l, a ≤ x
  | _, [], _, x, hx => by simp at hx
  | a, b :: rest, h, x, hx => by
    simp only [List.mem_cons] at hx
    rcases hx with rfl | hx
    · exact h.1
    · exact Nat.le_trans h.1 (Sorted.head_le h.2 x hx)

theorem sorted_drop : ∀ (l : List Nat) (n : Nat), Sorted l → Sorted (l.drop n)
  | l, 0, h => by simpa using h
  | [], n + 1, _ => by simp [Sorted]
  | a :: l, n + 1, h => by simpa using sorted_drop l n h.tail

theorem closeAll_replicate (k : Nat) (s : Int) (e0 e : Int) :
    closeAll (List.replicate k ⟨s, e0⟩) e = List.replicate k ⟨s, e⟩ := by
  simp [closeAll, List.map_replicate]

/-- What the inner loop does at the table entry `(v, p)` (followed by `rest'`), started with `k`
    pending ranges of this entry: it consumes the wanted values `< v` (not found) and `= v`
    (pending), and stops at the first one `> v` — or breaks out of `Iter` after a value `< v` when
    the next one has reached the next sampled value. -/
def InnerOK (lastVal : Int) (v p : Nat) (rest' : List (Nat × Nat)) (nx : Option Nat) (ws : List Nat)
    (r0 : List Rng) (k vi : Nat) : Inner → Prop
  | .done r pe vi' => ∃ c, vi' = vi + c ∧ c ≤ ws.length ∧
      r ++ closeAll pe (endOf lastVal rest') =
        r0 ++ List.replicate k ⟨(p : Int) + 4, endOf lastVal rest'⟩ ++ (ws.take c).map (specOne lastVal ((v, p) :: rest')) ∧
      (∀ w, ws[c]? = some w → v < w) ∧
      (∀ w0, ws.head? = some w0 → w0 ≤ v → c ≥ 1) ∧
      (∀ w0, ws.head? = some w0 → v < w0 → c = 0 ∧ pe = List.replicate k ⟨(p : Int) + 4, 0⟩) ∧
      (k = 0 → ∀ w0, ws.head? = some w0 → w0 < v → nx = some v → pe = [])
  | .breakIter r vi' => ∃ c, c ≥ 1 ∧ vi' = vi + c ∧ c < ws.length ∧ k = 0 ∧
      r = r0 ++ (ws.take c).map (specOne lastVal ((v, p) :: rest'))

theorem innerA_ok (lastVal : Int) (v p : Nat) (rest' : List (Nat × Nat)) (nx : Option Nat)
    (hinc : StrictlyIncreasing ((v, p) :: rest')) :
    ∀ (ws : List Nat) (r0 : List Rng) (k vi : Nat), Sorted ws → (k > 0 → ∀ w ∈ ws, v ≤ w) →
      InnerOK lastVal v p rest' nx ws r0 k vi
        (innerA nx v p ws r0 (List.replicate k ⟨(p : Int) + 4, 0⟩) vi)
  | [], r0, k, vi, _, _ => by
    simp only [innerA, InnerOK]
    refine ⟨0, rfl, Nat.le_refl _, ?_, by simp, by simp, by simp, by simp⟩
    simp [closeAll_replicate]
  | w :: ws1, r0, k, vi, hs, hk => by
    have hspec_lt : ∀ x, x < v → specOne lastVal ((v, p) :: rest') x = notFound := by
      intro x hx
      apply specOne_lt
      intro e he
      simp only [List.mem_cons] at he
      rcases he with rfl | he
      · exact hx
      · exact Nat.lt_trans hx (StrictlyIncreasing.head_lt hinc e he)
    simp only [innerA]
    by_cases hge : v ≥ w
    · simp only [hge, if_true]
      by_cases heq : v = w
      · -- the wanted value is this entry's value
        subst heq
        simp only [if_true]
        have hrep : List.replicate k (⟨(p : Int) + 4, 0⟩ : Rng) ++ [⟨(p : Int) + 4, 0⟩] =
            List.replicate (k + 1) ⟨(p : Int) + 4, 0⟩ := by
          rw [List.replicate_succ']
        rw [hrep]
        cases ws1 with
        | nil =>
          simp only [InnerOK]
          refine ⟨1, rfl, by simp, ?_, by simp, by simp, ?_, ?_⟩
          · simp [closeAll, List.map_replicate, specOne_head, List.replicate_succ']
          · intro w0 h0 hlt; simp at h0; omega
          · intro _ w0 h0 hlt; simp at h0; omega
        | cons w' ws2 =>
          have hne : (List.replicate (k + 1) (⟨(p : Int) + 4, 0⟩ : Rng)).isEmpty = false := by
            simp [List.replicate_succ]
          simp only [hne, Bool.false_and, Bool.false_eq_true, if_false]
          have ih := innerA_ok lastVal v p rest' nx hinc (w' :: ws2) r0 (k + 1) (vi + 1) hs.tail
            (fun _ x hx => Sorted.head_le hs x hx)
          cases hres : innerA nx v p (w' :: ws2) r0 (List.replicate (k + 1) ⟨(p : Int) + 4, 0⟩) (vi + 1) with
          | breakIter r vi' =>
            rw [hres] at ih
            simp only [InnerOK] at ih
            obtain ⟨c, _, _, _, hk0, _⟩ := ih
            omega
          | done r pe vi' =>
            rw [hres] at ih
            simp only [InnerOK] at ih ⊢
            obtain ⟨c, h1, h2, h3, h4, _, _, _⟩ := ih
            refine ⟨c + 1, by omega, by simp at h2 ⊢; omega, ?_, ?_, by intros; omega, ?_, ?_⟩
            · rw [h3]
              simp [List.replicate_succ', specOne_head]
            · intro x hx
              exact h4 x (by simpa using hx)
            · intro w0 h0 hlt; simp at h0; omega
            · intro _ w0 h0 hlt; simp at h0; omega
      · -- the wanted value is smaller: not found
        have hlt : w < v := by omega
        have hk0 : k = 0 := by
          rcases Nat.eq_zero_or_pos k with h | h
          · exact h
          · have := hk h w (by simp); omega
        subst hk0
        simp only [heq, if_false, List.replicate_zero]
        cases ws1 with
        | nil =>
          simp only [InnerOK]
          refine ⟨1, rfl, by simp, ?_, by simp, by simp, ?_, ?_⟩
          · simp [closeAll, hspec_lt w hlt]
          · intro w0 h0 hlt'; simp at h0; omega
          · intros; trivial
        | cons w' ws2 =>
          simp only [List.isEmpty_nil, Bool.true_and]
          -- what happens when the loop goes on with the next wanted value
          have goOn : (nx = some v → w' < v) →
              InnerOK lastVal v p rest' nx (w :: w' :: ws2) r0 0 vi
                (innerA nx v p (w' :: ws2) (r0 ++ [notFound]) [] (vi + 1)) := by
            intro hlag
            have ih := innerA_ok lastVal v p rest' nx hinc (w' :: ws2) (r0 ++ [notFound]) 0 (vi + 1) hs.tail
              (by intro h; omega)
            simp only [List.replicate_zero] at ih
            cases hres : innerA nx v p (w' :: ws2) (r0 ++ [notFound]) [] (vi + 1) with
            | breakIter r vi' =>
              rw [hres] at ih
              simp only [InnerOK] at ih ⊢
              obtain ⟨c, h1, h2, h3, _, h5⟩ := ih
              refine ⟨c + 1, by omega, by omega, by simp at h3 ⊢; omega, by simp, ?_⟩
              rw [h5]
              simp [hspec_lt w hlt]
            | done r pe vi' =>
              rw [hres] at ih
              simp only [InnerOK] at ih ⊢
              obtain ⟨c, h1, h2, h3, h4, _, _, h7⟩ := ih
              refine ⟨c + 1, by omega, by simp at h2 ⊢; omega, ?_, ?_, by intros; omega, ?_, ?_⟩
              · rw [h3]
                simp [hspec_lt w hlt]
              · intro x hx
                exact h4 x (by simpa using hx)
              · intro w0 h0 hlt'; simp at h0; omega
              · intro _ w0 _ _ hnx
                exact h7 trivial w' (by simp) (hlag hnx) hnx
          cases hnx : nx with
          | none =>
            simp only [Bool.false_eq_true, if_false]
            rw [← hnx]
            exact goOn (by intro h; rw [hnx] at h; cases h)
          | some x =>
            simp only [decide_eq_true_eq]
            by_cases hb : w' ≥ x
            · -- break Iter
              simp only [hb, if_true, InnerOK]
              exact ⟨1, by omega, rfl, by simp, by simp, by simp [hspec_lt w hlt]⟩
            · simp only [hb, if_false]
              rw [← hnx]
              exact goOn (by intro h; rw [hnx] at h; cases h; omega)
    · simp only [hge, if_false, InnerOK]
      refine ⟨0, rfl, by simp, by simp [closeAll, List.map_replicate], ?_, ?_, ?_, ?_⟩
      · intro x hx; simp at hx; omega
      · intro w0 h0 hle; simp at h0; omega
      · intros; simp
      · intro _ w0 h0 hlt; simp at h0; omega

/-! ### the `Iter` loop -/

/-- what ties the remaining sampled values `nexts` to the unread part `rest` of the table, at the
    top of an iteration with first wanted value `w0` -/
structure Top (rest : List (Nat × Nat)) (nexts : List Nat) (w0 : Nat) : Prop where
  /-- the sampled values are increasing … -/
  sortedN : nexts.Pairwise (· < ·)
  /-- … are values of entries still to be read … -/
  memN : ∀ x ∈ nexts, ∃ e ∈ rest, e.1 = x
  /-- … and end with the last entry of the table -/
  lastN : nexts ≠ [] → nexts.getLast? = rest.getLast?.map (·.1)
  /-- no sampled value left: this is the last entry, or `i` was advanced early because the wanted
      value is the last sampled value -/
  lastN' : nexts = [] → rest.tail = [] ∨ rest.getLast?.map (·.1) = some w0
  /-- `i` lags behind (the next sampled entry is the one under the cursor) only while the wanted
      value is smaller than it -/
  lag : ∀ nx e, nexts.head? = some nx → rest.head? = some e → nx = e.1 → w0 < nx

theorem drop_head_getElem (l : List Nat) (i : Nat) : (l.drop i).head? = l[i]? := by
  simp [List.head?_drop]

theorem getLast_gt_head {v p : Nat} {rest' : List (Nat × Nat)} (h : StrictlyIncreasing ((v, p) :: rest'))
    (hne : rest' ≠ []) : ∃ e, ((v, p) :: rest').getLast? = some e ∧ v < e.1 := by
  cases hl : rest'.getLast? with
  | none => simp [List.getLast?_eq_none_iff] at hl; exact absurd hl hne
  | some e =>
    refine ⟨e, ?_, StrictlyIncreasing.head_lt h e (List.mem_of_getLast? hl)⟩
    cases rest' with
    | nil => exact absurd rfl hne
    | cons a as => simpa [List.getLast?_cons_cons] using hl

/-- the claim about one run of the `Iter` loop started at the entry `(v, p)` -/
def IterClaim (lastVal : Int) (values : List Nat) (v p : Nat) (rest' : List (Nat × Nat)) : Prop :=
  ∀ (nexts : List Nat) (rngs pending : List Rng) (vi w0 : Nat),
    values[vi]? = some w0 → Sorted (values.drop vi) → StrictlyIncreasing ((v, p) :: rest') →
    Top ((v, p) :: rest') nexts w0 →
    ∃ c, iterA lastVal values ((v, p) :: rest') nexts rngs pending vi =
        .ok (rngs ++ closeAll pending ((p : Int) - 4) ++
          ((values.drop vi).take c).map (specOne lastVal ((v, p) :: rest')), vi + c) ∧
      vi + c ≤ values.length ∧
      ((w0 ≤ v ∨ ∃ nx, nexts.head? = some nx ∧ w0 < nx) → c ≥ 1)

theorem finish_ok (lastVal : Int) (rest' : List (Nat × Nat)) (r pe : List Rng) (vi' : Nat)
    (h : pe = [] ∨ rest' ≠ []) : finish rest' r pe vi' = .ok (r ++ closeAll pe (endOf lastVal rest'), vi') := by
  unfold finish
  cases pe with
  | nil => simp [closeAll]
  | cons a as =>
    rcases h with h | h
    · cases h
    · cases rest' with
      | nil => exact absurd rfl h
      | cons e r' => obtain ⟨v', p'⟩ := e; simp [endOf]

theorem iterA_step (lastVal : Int) (values : List Nat) (v p : Nat) (rest' : List (Nat × Nat))
    (hK : ∀ v' p' rest'', rest' = (v', p') :: rest'' → IterClaim lastVal values v' p' rest'') :
    IterClaim lastVal values v p rest' := by
  intro nexts rngs pending vi w0 hw0 hsorted hinc T
  have hws : (values.drop vi).head? = some w0 := by rw [drop_head_getElem]; exact hw0
  have hvi : vi < values.length := by
    rcases Nat.lt_or_ge vi values.length with h | h
    · exact h
    · rw [List.getElem?_eq_none h] at hw0; cases hw0
  have hI := innerA_ok lastVal v p rest' nexts.head? hinc (values.drop vi)
    (rngs ++ closeAll pending ((p : Int) - 4)) 0 vi hsorted (by intro h; omega)
  simp only [List.replicate_zero] at hI
  -- every sampled value ahead is at least v
  have hnxv : ∀ x ∈ nexts, v ≤ x := by
    intro x hx
    obtain ⟨e, he, hev⟩ := T.memN x hx
    simp only [List.mem_cons] at he
    rcases he with rfl | he
    · simp only at hev; omega
    · have := StrictlyIncreasing.head_lt hinc e he
      simp only at this; omega
  -- a sampled value above v lies in the rest of the table
  have hinrest : ∀ x ∈ nexts, v < x → ∃ e ∈ rest', e.1 = x := by
    intro x hx hlt
    obtain ⟨e, he, hev⟩ := T.memN x hx
    simp only [List.mem_cons] at he
    rcases he with rfl | he
    · simp only at hev; omega
    · exact ⟨e, he, hev⟩
  unfold iterA
  simp only
  cases hres : innerA nexts.head? v p (values.drop vi) (rngs ++ closeAll pending ((p : Int) - 4)) [] vi with
  | breakIter r vi' =>
    rw [hres] at hI
    simp only [InnerOK] at hI
    obtain ⟨c, h1, h2, h3, _, h5⟩ := hI
    refine ⟨c, by simp [h2, h5], ?_, fun _ => h1⟩
    simp only [List.length_drop] at h3; omega
  | done r pe vi' =>
    rw [hres] at hI
    simp only [InnerOK, List.replicate_zero, List.append_nil] at hI
    obtain ⟨c, h1, h2, h3, h4, h5, h6, h7⟩ := hI
    have hlen : vi + c ≤ values.length := by simp only [List.length_drop] at h2; omega
    simp only
    -- the result when the run ends here with the pending ranges closed at the right place
    have endHere : ∀ (res : Except Err (List Rng × Nat)) (Q : Prop),
        res = .ok (r ++ closeAll pe (endOf lastVal rest'), vi') →
        (Q → c ≥ 1) →
        ∃ c, res = .ok (rngs ++ closeAll pending ((p : Int) - 4) ++
            ((values.drop vi).take c).map (specOne lastVal ((v, p) :: rest')), vi + c) ∧
          vi + c ≤ values.length ∧ (Q → c ≥ 1) := by
      intro res Q hres' hp
      exact ⟨c, by rw [hres', h3, h1], hlen, hp⟩
    cases hn : nexts with
    | nil =>
      simp only
      apply endHere _ _
      · -- closing with lastValOffset is closing with the end of this entry
        cases hr : rest' with
        | nil => simp [endOf]
        | cons e2 rest'' =>
          rcases T.lastN' hn with ht | hl
          · simp [hr] at ht
          · obtain ⟨e, he, hlt⟩ := getLast_gt_head hinc (by rw [hr]; simp)
            rw [he] at hl
            simp only [Option.map_some, Option.some.injEq] at hl
            have := (h6 w0 hws (by omega)).2
            simp [this, closeAll]
      · rintro (h | ⟨nx, hnx, _⟩)
        · exact h5 w0 hws h
        · simp at hnx
    | cons nx nexts' =>
      simp only
      have hnx_mem : nx ∈ nexts := by rw [hn]; simp
      have hvnx := hnxv nx hnx_mem
      -- pending ranges can be closed with the next entry's offset
      have hfin : pe = [] ∨ rest' ≠ [] := by
        rcases Nat.lt_or_ge v nx with hlt | hge
        · right
          obtain ⟨e, he, _⟩ := hinrest nx hnx_mem hlt
          intro hnil; rw [hnil] at he; simp at he
        · left
          have hev : nx = v := by omega
          have hlag := T.lag nx (v, p) (by rw [hn]; rfl) rfl hev
          exact h7 trivial w0 hws (by omega) (by rw [hn]; simp [hev])
      have hprogEnd : (w0 ≤ v → c ≥ 1) := h5 w0 hws
      cases hv : values[vi']? with
      | none =>
        simp only
        apply endHere _ _ (finish_ok lastVal rest' r pe vi' hfin)
        rintro (h | ⟨nx', hnx', hlt⟩)
        · exact hprogEnd h
        · -- v < w0: nothing consumed, so values[vi] would be missing
          rcases Nat.lt_or_ge v w0 with hvw | hvw
          · have := (h6 w0 hws hvw).1
            rw [h1, this, Nat.add_zero, hw0] at hv; cases hv
          · exact hprogEnd hvw
      | some w =>
        simp only
        have hwv : v < w := h4 w (by rw [← hv, h1]; simp [List.getElem?_drop])
        by_cases hle : w ≤ nx
        · simp only [hle, if_true]
          -- go on with the next entry
          have hlt : v < nx := by omega
          obtain ⟨e, he, hee⟩ := hinrest nx hnx_mem hlt
          cases hr : rest' with
          | nil => rw [hr] at he; simp at he
          | cons e2 rest'' =>
            obtain ⟨v', p'⟩ := e2
            have hinc' : StrictlyIncreasing ((v', p') :: rest'') := by rw [hr] at hinc; exact hinc.tail
            have hsorted' : Sorted (values.drop vi') := by
              rw [h1, ← List.drop_drop]
              exact sorted_drop _ c hsorted
            -- the invariant at the next entry
            have hT' : Top ((v', p') :: rest'') (if w = nx then nexts' else nx :: nexts') w := by
              have hsub : ∀ x ∈ (if w = nx then nexts' else nx :: nexts'), x ∈ nexts ∧ w ≤ x := by
                intro x hx
                have hs := T.sortedN
                rw [hn] at hs
                by_cases hwn : w = nx
                · simp only [hwn, if_true] at hx
                  have := (List.pairwise_cons.mp hs).1 x hx
                  exact ⟨by rw [hn]; simp [hx], by omega⟩
                · simp only [hwn, if_false, List.mem_cons] at hx
                  rcases hx with rfl | hx
                  · exact ⟨hnx_mem, hle⟩
                  · have := (List.pairwise_cons.mp hs).1 x hx
                    exact ⟨by rw [hn]; simp [hx], by omega⟩
              refine ⟨?_, ?_, ?_, ?_, ?_⟩
              · have hs := T.sortedN
                rw [hn] at hs
                by_cases hwn : w = nx
                · simp only [hwn, if_true]; exact (List.pairwise_cons.mp hs).2
                · simp only [hwn, if_false]; exact hs
              · intro x hx
                obtain ⟨hxm, hwx⟩ := hsub x hx
                obtain ⟨e', he', hee'⟩ := hinrest x hxm (by omega)
                rw [hr] at he'
                exact ⟨e', he', hee'⟩
              · intro hne
                have hl := T.lastN (by rw [hn]; simp)
                have hlast : ((v, p) :: rest').getLast? = ((v', p') :: rest'').getLast? := by
                  rw [hr, List.getLast?_cons_cons]
                rw [← hlast, ← hl, hn]
                by_cases hwn : w = nx
                · simp only [hwn, if_true] at hne ⊢
                  cases hnn : nexts' with
                  | nil => exact absurd hnn hne
                  | cons a as => rw [List.getLast?_cons_cons]
                · simp only [hwn, if_false]
              · intro hnil
                right
                by_cases hwn : w = nx
                · simp only [hwn, if_true] at hnil
                  have hl := T.lastN (by rw [hn]; simp)
                  rw [hn, hnil] at hl
                  simp only [List.getLast?_singleton] at hl
                  have hlast : ((v, p) :: rest').getLast? = ((v', p') :: rest'').getLast? := by
                    rw [hr, List.getLast?_cons_cons]
                  rw [← hlast, ← hl, hwn]
                · simp only [hwn, if_false] at hnil; cases hnil
              · intro nx' e' hh he' heq
                simp only [List.head?_cons, Option.some.injEq] at he'
                subst he'
                have hs := T.sortedN
                rw [hn] at hs
                by_cases hwn : w = nx
                · simp only [hwn, if_true] at hh
                  have := (List.pairwise_cons.mp hs).1 nx' (List.mem_of_mem_head? hh)
                  omega
                · simp only [hwn, if_false, List.head?_cons, Option.some.injEq] at hh
                  omega
            obtain ⟨c', hc1, hc2, hc3⟩ := hK v' p' rest'' hr (if w = nx then nexts' else nx :: nexts') r pe vi' w
              hv hsorted' hinc' hT'
            refine ⟨c + c', ?_, by omega, ?_⟩
            · rw [hc1]
              have hE : endOf lastVal rest' = (p' : Int) - 4 := by rw [hr]; rfl
              rw [hE] at h3
              rw [h3, h1]
              -- the later values are beyond v: their location does not depend on this entry
              have hlater : ((values.drop (vi + c)).take c').map (specOne lastVal ((v', p') :: rest'')) =
                  ((values.drop (vi + c)).take c').map (specOne lastVal ((v, p) :: (v', p') :: rest'')) := by
                apply List.map_congr_left
                intro x hx
                have hxd : x ∈ values.drop (vi + c) := List.mem_of_mem_take hx
                have hwx : w ≤ x := by
                  have hs2 : Sorted (values.drop (vi + c)) := by rw [← h1]; exact hsorted'
                  have hhead : (values.drop (vi + c)).head? = some w := by
                    rw [drop_head_getElem, ← h1]; exact hv
                  cases hd : values.drop (vi + c) with
                  | nil => rw [hd] at hxd; simp at hxd
                  | cons a as =>
                    rw [hd] at hhead hxd hs2
                    simp only [List.head?_cons, Option.some.injEq] at hhead
                    subst hhead
                    simp only [List.mem_cons] at hxd
                    rcases hxd with rfl | hxd
                    · exact Nat.le_refl _
                    · exact Sorted.head_le hs2 x hxd
                rw [specOne_skip lastVal v p x _ (by omega)]
              rw [hlater, List.take_add, List.drop_drop, List.map_append, hr]
              simp [List.append_assoc, Nat.add_assoc]
            · rintro (h | ⟨nx', hnx', hlt'⟩)
              · have := hprogEnd h; omega
              · rcases Nat.lt_or_ge v w0 with hvw | hvw
                · -- nothing consumed here: w = w0 < nx, so the next run makes progress
                  have hc0 := (h6 w0 hws hvw).1
                  have hww : w = w0 := by
                    rw [h1, hc0, Nat.add_zero, hw0] at hv
                    exact (Option.some.inj hv).symm
                  simp only [List.head?_cons, Option.some.injEq] at hnx'
                  subst hnx'
                  have hwn : ¬ (w = nx) := by omega
                  have := hc3 (Or.inr ⟨nx, by simp [hwn], by omega⟩)
                  omega
                · have := hprogEnd hvw; omega
        · simp only [hle, if_false]
          apply endHere _ _ (finish_ok lastVal rest' r pe vi' hfin)
          rintro (h | ⟨nx', hnx', hlt⟩)
          · exact hprogEnd h
          · rcases Nat.lt_or_ge v w0 with hvw | hvw
            · have hc0 := (h6 w0 hws hvw).1
              have hww : w = w0 := by
                rw [h1, hc0, Nat.add_zero, hw0] at hv
                exact (Option.some.inj hv).symm
              simp only [List.head?_cons, Option.some.injEq] at hnx'
              omega
            · exact hprogEnd hvw

theorem iterA_ok (lastVal : Int) (values : List Nat) : ∀ (rest' : List (Nat × Nat)) (v p : Nat),
    IterClaim lastVal values v p rest'
  | [], v, p => iterA_step lastVal values v p [] (by intro v' p' r h; cases h)
  | (v', p') :: rest'', v, p =>
    iterA_step lastVal values v p ((v', p') :: rest'')
      (by intro a b r h; cases h; exact iterA_ok lastVal values rest'' v' p')

/-! ### what `init` keeps, as far as the lookup needs it -/

theorem si_index_lt : ∀ {tbl : List (Nat × Nat)}, StrictlyIncreasing tbl → ∀ (k k' : Nat) (e e' : Nat × Nat),
    k < k' → tbl[k]? = some e → tbl[k']? = some e' → e.1 < e'.1
  | [], _, k, _, e, _, _, h, _ => by simp at h
  | a :: l, hs, 0, k' + 1, e, e', _, h, h' => by
    simp only [List.getElem?_cons_zero, Option.some.injEq] at h
    subst h
    simp only [List.getElem?_cons_succ] at h'
    exact StrictlyIncreasing.head_lt hs e' (List.mem_of_getElem? h')
  | a :: l, hs, k + 1, k' + 1, e, e', hk, h, h' => by
    simp only [List.getElem?_cons_succ] at h h'
    exact si_index_lt hs.tail k k' e e' (by omega) h h'
  | a :: l, _, k + 1, 0, _, _, hk, _, _ => by omega
  | a :: l, _, 0, 0, _, _, hk, _, _ => by omega

/-- every sampled entry is the table entry at its position, and positions increase -/
theorem sampleFrom_rel (n : Nat) : ∀ (tbl : List (Nat × Nat)) (i : Nat),
    (∀ xk ∈ sampleFrom n i tbl, i ≤ xk.2 ∧ ∃ p, tbl[xk.2 - i]? = some (xk.1, p)) ∧
    (sampleFrom n i tbl).Pairwise (fun a b => a.2 < b.2)
  | [], _ => by simp [sampleFrom]
  | [(v, p)], i => by
    simp only [sampleFrom, List.mem_singleton, List.pairwise_cons, List.not_mem_nil, false_imp_iff,
      implies_true, List.Pairwise.nil, and_self, and_true]
    intro xk hxk
    subst hxk
    exact ⟨Nat.le_refl _, p, by simp⟩
  | (v, p) :: e2 :: rest, i => by
    obtain ⟨ih1, ih2⟩ := sampleFrom_rel n (e2 :: rest) (i + 1)
    have hshift : ∀ xk ∈ sampleFrom n (i + 1) (e2 :: rest),
        i ≤ xk.2 ∧ ∃ p', ((v, p) :: e2 :: rest)[xk.2 - i]? = some (xk.1, p') := by
      intro xk hxk
      obtain ⟨h1, p', h2⟩ := ih1 xk hxk
      refine ⟨by omega, p', ?_⟩
      have : xk.2 - i = (xk.2 - (i + 1)) + 1 := by omega
      rw [this, List.getElem?_cons_succ]
      exact h2
    simp only [sampleFrom]
    split
    · refine ⟨?_, ?_⟩
      · intro xk hxk
        simp only [List.mem_cons] at hxk
        rcases hxk with rfl | hxk
        · exact ⟨Nat.le_refl _, p, by simp⟩
        · exact hshift xk hxk
      · rw [List.pairwise_cons]
        refine ⟨?_, ih2⟩
        intro b hb
        have := (ih1 b hb).1
        simp only
        omega
    · exact ⟨hshift, ih2⟩

theorem drop_of_getElem? {α : Type} : ∀ (l : List α) (k : Nat) (a : α), l[k]? = some a →
    ∃ rest, l.drop k = a :: rest
  | [], k, a, h => by simp at h
  | x :: l, 0, a, h => by
    simp only [List.getElem?_cons_zero, Option.some.injEq] at h
    exact ⟨l, by simp [h]⟩
  | x :: l, k + 1, a, h => by
    simp only [List.getElem?_cons_succ] at h
    simpa using drop_of_getElem? l k a h

theorem specOne_drop (lastVal : Int) (x : Nat) : ∀ (tbl : List (Nat × Nat)) (k : Nat),
    (∀ e ∈ tbl.take k, e.1 < x) → specOne lastVal tbl x = specOne lastVal (tbl.drop k) x
  | tbl, 0, _ => by simp
  | [], k + 1, _ => by simp
  | (v, p) :: tbl, k + 1, h => by
    have hv : v < x := h (v, p) (by simp)
    rw [specOne_skip lastVal v p x tbl (by omega)]
    simpa using specOne_drop lastVal x tbl k (fun e he => h e (by simp [he]))

theorem specOne_gt_all (lastVal : Int) (x : Nat) : ∀ (tbl : List (Nat × Nat)), (∀ e ∈ tbl, e.1 < x) →
    specOne lastVal tbl x = notFound
  | [], _ => rfl
  | (v, p) :: tbl, h => by
    have hv : v < x := h (v, p) (by simp)
    rw [specOne_skip lastVal v p x tbl (by omega)]
    exact specOne_gt_all lastVal x tbl (fun e he => h e (by simp [he]))

/-- at a sampled entry, the invariant of the `Iter` loop holds -/
theorem top_of_sample (n : Nat) (tbl : List (Nat × Nat)) (hinc : StrictlyIncreasing tbl) (i : Nat) (oi : Sampled)
    (hoi : (sample n tbl)[i]? = some oi) :
    ∃ p rest', tbl.drop oi.2 = (oi.1, p) :: rest' ∧ (∀ e ∈ tbl.take oi.2, e.1 < oi.1) ∧
      ∀ w0, Top ((oi.1, p) :: rest') (((sample n tbl).drop (i + 1)).map (·.1)) w0 := by
  obtain ⟨hmem, hpos⟩ := sampleFrom_rel n tbl 0
  have hmem' : ∀ xk ∈ sample n tbl, ∃ p, tbl[xk.2]? = some (xk.1, p) := by
    intro xk hxk
    obtain ⟨_, p, hp⟩ := hmem xk hxk
    exact ⟨p, by simpa using hp⟩
  have hoi_mem : oi ∈ sample n tbl := List.mem_of_getElem? hoi
  obtain ⟨p, hp⟩ := hmem' oi hoi_mem
  obtain ⟨rest', hdrop⟩ := drop_of_getElem? tbl oi.2 (oi.1, p) hp
  have hlt : i < (sample n tbl).length := by
    rcases Nat.lt_or_ge i (sample n tbl).length with h | h
    · exact h
    · rw [List.getElem?_eq_none h] at hoi; cases hoi
  -- the sampled entries after `i` lie strictly behind position oi.2
  have hsplit : (sample n tbl).drop i = oi :: (sample n tbl).drop (i + 1) := by
    rw [← List.getElem_cons_drop_succ_eq_drop hlt]
    congr 1
    have := List.getElem?_eq_getElem hlt
    rw [this] at hoi
    exact Option.some.inj hoi
  have hpos_later : ∀ b ∈ (sample n tbl).drop (i + 1), oi.2 < b.2 := by
    have hp' : ((sample n tbl).drop i).Pairwise (fun a b => a.2 < b.2) :=
      List.Pairwise.sublist (List.drop_sublist i _) hpos
    rw [hsplit, List.pairwise_cons] at hp'
    exact hp'.1
  have hlater : ∀ b ∈ (sample n tbl).drop (i + 1), oi.1 < b.1 ∧ ∃ e ∈ rest', e.1 = b.1 := by
    intro b hb
    have hbm : b ∈ sample n tbl := List.mem_of_mem_drop hb
    obtain ⟨pb, hpb⟩ := hmem' b hbm
    have hk := hpos_later b hb
    refine ⟨si_index_lt hinc oi.2 b.2 (oi.1, p) (b.1, pb) hk hp hpb, (b.1, pb), ?_, rfl⟩
    have hidx : ((oi.1, p) :: rest')[b.2 - oi.2]? = some (b.1, pb) := by
      rw [← hdrop, List.getElem?_drop]
      have : oi.2 + (b.2 - oi.2) = b.2 := by omega
      rw [this]; exact hpb
    have hpos1 : b.2 - oi.2 = (b.2 - oi.2 - 1) + 1 := by omega
    rw [hpos1, List.getElem?_cons_succ] at hidx
    exact List.mem_of_getElem? hidx
  refine ⟨p, rest', hdrop, ?_, ?_⟩
  · intro e he
    obtain ⟨k, hk, hek⟩ := List.mem_take_iff_getElem.mp he
    have hk' : k < oi.2 := by omega
    have hget : tbl[k]? = some e := by
      rw [List.getElem?_eq_getElem (by omega)]
      exact congrArg some hek
    exact si_index_lt hinc k oi.2 e (oi.1, p) hk' hget hp
  · intro w0
    refine ⟨?_, ?_, ?_, ?_, ?_⟩
    · -- values of later sampled entries increase
      rw [List.pairwise_map]
      have hp' : ((sample n tbl).drop (i + 1)).Pairwise (fun a b => a.2 < b.2) :=
        List.Pairwise.sublist (List.drop_sublist (i + 1) _) hpos
      refine List.Pairwise.imp_of_mem ?_ hp'
      intro a b ha hb hab
      obtain ⟨pa, hpa⟩ := hmem' a (List.mem_of_mem_drop ha)
      obtain ⟨pb, hpb⟩ := hmem' b (List.mem_of_mem_drop hb)
      exact si_index_lt hinc a.2 b.2 (a.1, pa) (b.1, pb) hab hpa hpb
    · intro x hx
      simp only [List.mem_map] at hx
      obtain ⟨b, hb, rfl⟩ := hx
      obtain ⟨_, e, he, hee⟩ := hlater b hb
      exact ⟨e, List.mem_cons_of_mem _ he, hee⟩
    · intro hne
      -- the last sampled entry is the last table entry
      have hne' : (sample n tbl).drop (i + 1) ≠ [] := by
        intro h; rw [h] at hne; simp at hne
      have htl : ∃ e, tbl.getLast? = some e := by
        cases h : tbl.getLast? with
        | none =>
          rw [List.getLast?_eq_none_iff] at h
          rw [h] at hdrop; simp at hdrop
        | some e => exact ⟨e, rfl⟩
      obtain ⟨e, he⟩ := htl
      have hsl := sampleFrom_getLast n tbl 0 e he
      have h1 : (((sample n tbl).drop (i + 1)).map (·.1)).getLast? = some e.1 := by
        rw [List.getLast?_map, List.getLast?_drop]
        have : ¬ ((sample n tbl).length ≤ i + 1) := by
          intro hle; exact hne' (List.drop_eq_nil_of_le hle)
        simp only [this, if_false]
        have hsl' : (sample n tbl).getLast? = some (e.1, 0 + tbl.length - 1) := hsl
        rw [hsl']; rfl
      have h2 : ((oi.1, p) :: rest').getLast? = some e := by
        rw [← hdrop, List.getLast?_drop]
        have : ¬ (tbl.length ≤ oi.2) := by
          intro hle
          rw [List.getElem?_eq_none hle] at hp; cases hp
        simp only [this, if_false]; exact he
      rw [h1, h2]; rfl
    · intro hnil
      left
      -- no sampled entry behind: oi is the last sampled entry, i.e. the last table entry
      have hd : (sample n tbl).drop (i + 1) = [] := by
        cases h : (sample n tbl).drop (i + 1) with
        | nil => rfl
        | cons a as => rw [h] at hnil; simp at hnil
      have hlen : (sample n tbl).length = i + 1 := by
        have := List.drop_eq_nil_iff.mp hd
        omega
      have htl : ∃ e, tbl.getLast? = some e := by
        cases h : tbl.getLast? with
        | none =>
          rw [List.getLast?_eq_none_iff] at h
          rw [h] at hdrop; simp at hdrop
        | some e => exact ⟨e, rfl⟩
      obtain ⟨e, he⟩ := htl
      have hsl : (sample n tbl).getLast? = some (e.1, 0 + tbl.length - 1) := sampleFrom_getLast n tbl 0 e he
      have hoi_last : (sample n tbl).getLast? = some oi := by
        rw [List.getLast?_eq_getElem?, hlen]
        simpa using hoi
      rw [hsl] at hoi_last
      have hk : oi.2 = tbl.length - 1 := by
        have := Option.some.inj hoi_last
        rw [← this]; simp
      have hl := congrArg List.length hdrop
      simp only [List.length_drop, List.length_cons] at hl
      simp only [List.tail_cons]
      exact List.eq_nil_of_length_eq_zero (by omega)
    · intro nx e hh he heq
      exfalso
      simp only [List.head?_cons, Option.some.injEq] at he
      subst he
      have hm : nx ∈ ((sample n tbl).drop (i + 1)).map (·.1) := List.mem_of_mem_head? hh
      simp only [List.mem_map] at hm
      obtain ⟨b, hb, rfl⟩ := hm
      have := (hlater b hb).1
      simp only at heq
      omega

/-! ### the outer loop -/

theorem searchGE_spec : ∀ (offsets : List Sampled) (w : Nat),
    (∀ e ∈ offsets.take (searchGE offsets w), e.1 < w) ∧
    (∀ o, offsets[searchGE offsets w]? = some o → w ≤ o.1) ∧ searchGE offsets w ≤ offsets.length
  | [], w => by simp [searchGE]
  | o :: os, w => by
    obtain ⟨ih1, ih2, ih3⟩ := searchGE_spec os w
    unfold searchGE at ih1 ih2 ih3 ⊢
    by_cases h : o.1 < w
    · simp only [List.takeWhile_cons, h, decide_true, if_true, List.length_cons, List.take_succ_cons,
        List.mem_cons, List.getElem?_cons_succ]
      refine ⟨?_, ih2, by omega⟩
      rintro e (rfl | he)
      · exact h
      · exact ih1 e he
    · simp only [List.takeWhile_cons, h, decide_false, Bool.false_eq_true, if_false, List.length_nil,
        List.take_zero, List.not_mem_nil, false_imp_iff, implies_true, true_and,
        List.getElem?_cons_zero, Option.some.injEq, Nat.zero_le, and_true]
      intro o' ho'
      subst ho'
      omega

theorem si_drop : ∀ (tbl : List (Nat × Nat)) (k : Nat), StrictlyIncreasing tbl → StrictlyIncreasing (tbl.drop k)
  | tbl, 0, h => by simpa using h
  | [], k + 1, _ => by simp [StrictlyIncreasing]
  | a :: tbl, k + 1, h => by simpa using si_drop tbl k h.tail

theorem si_le_last : ∀ {tbl : List (Nat × Nat)} {e : Nat × Nat}, StrictlyIncreasing tbl → tbl.getLast? = some e →
    ∀ e' ∈ tbl, e'.1 ≤ e.1
  | [], _, _, h, _, _ => by simp at h
  | [a], e, _, h, e', he' => by
    simp only [List.getLast?_singleton, Option.some.injEq] at h
    simp only [List.mem_singleton] at he'
    subst h; subst he'; exact Nat.le_refl _
  | a :: b :: l, e, hs, h, e', he' => by
    have h' : (b :: l).getLast? = some e := by simpa [List.getLast?_cons_cons] using h
    simp only [List.mem_cons] at he'
    rcases he' with rfl | he'
    · have := StrictlyIncreasing.head_lt hs e (List.mem_of_getLast? h')
      omega
    · exact si_le_last hs.tail h' e' (by simpa using he')

theorem fuel_step (len vi c fuel : Nat) (hf : len - vi + 1 ≤ fuel + 1) (hc : c ≥ 1) (h2 : vi + c ≤ len) :
    len - (vi + c) + 1 ≤ fuel := by omega

theorem outer_ok (n : Nat) (hn : n ≥ 1) (v0 p0 : Nat) (rest0 : List (Nat × Nat))
    (hinc : StrictlyIncreasing ((v0, p0) :: rest0)) (lastVal : Int) (values : List Nat) (hsorted : Sorted values) :
    ∀ (fuel vi : Nat) (rngs : List Rng), vi ≤ values.length → values.length - vi + 1 ≤ fuel →
      rngs = (values.take vi).map (specOne lastVal ((v0, p0) :: rest0)) → (∀ x ∈ values.drop vi, v0 ≤ x) →
      outer (sample n ((v0, p0) :: rest0)) ((v0, p0) :: rest0) lastVal values fuel rngs vi =
        .ok (values.map (specOne lastVal ((v0, p0) :: rest0)))
  | 0, vi, rngs, _, hf, _, _ => by omega
  | fuel + 1, vi, rngs, hvi, hf, hr, hfirst => by
    generalize htbl : (v0, p0) :: rest0 = tbl at *
    unfold outer
    cases hv : values[vi]? with
    | none =>
      have : values.length ≤ vi := by
        rcases Nat.lt_or_ge vi values.length with h | h
        · rw [List.getElem?_eq_getElem h] at hv; cases hv
        · exact h
      simp only
      rw [hr, List.take_of_length_le this]
    | some w0 =>
      simp only
      have hvilt : vi < values.length := by
        rcases Nat.lt_or_ge vi values.length with h | h
        · exact h
        · rw [List.getElem?_eq_none h] at hv; cases hv
      have hhead : (values.drop vi).head? = some w0 := by rw [drop_head_getElem]; exact hv
      have hsd : Sorted (values.drop vi) := sorted_drop values vi hsorted
      -- every remaining wanted value is ≥ w0
      have hge_w0 : ∀ x ∈ values.drop vi, w0 ≤ x := by
        intro x hx
        cases hd : values.drop vi with
        | nil => rw [hd] at hx; simp at hx
        | cons a as =>
          rw [hd] at hhead hx hsd
          simp only [List.head?_cons, Option.some.injEq] at hhead
          subst hhead
          simp only [List.mem_cons] at hx
          rcases hx with rfl | hx
          · exact Nat.le_refl _
          · exact Sorted.head_le hsd x hx
      have hrlen : rngs.length = vi := by rw [hr]; simp; omega
      obtain ⟨hs1, hs2, hs3⟩ := searchGE_spec (sample n tbl) w0
      by_cases hi0 : searchGE (sample n tbl) w0 = (sample n tbl).length
      · -- past the end: nothing of what is left exists
        simp only [hi0, if_true]
        have hall : ∀ e ∈ tbl, e.1 < w0 := by
          have htl : ∃ e, tbl.getLast? = some e := by
            cases h : tbl.getLast? with
            | none => rw [List.getLast?_eq_none_iff] at h; rw [← htbl] at h; cases h
            | some e => exact ⟨e, rfl⟩
          obtain ⟨e, he⟩ := htl
          have hsl : (sample n tbl).getLast? = some (e.1, 0 + tbl.length - 1) := sampleFrom_getLast n tbl 0 e he
          have hmem : (e.1, 0 + tbl.length - 1) ∈ (sample n tbl).take (searchGE (sample n tbl) w0) := by
            rw [hi0, List.take_length]
            exact List.mem_of_getLast? hsl
          have hlast := hs1 _ hmem
          intro e' he'
          have := si_le_last hinc he e' he'
          simp only at hlast
          omega
        have hnf : (values.drop vi).map (specOne lastVal tbl) = List.replicate (values.length - vi) notFound := by
          rw [List.eq_replicate_iff]
          refine ⟨by simp, ?_⟩
          intro r hr'
          simp only [List.mem_map] at hr'
          obtain ⟨x, hx, rfl⟩ := hr'
          apply specOne_gt_all
          intro e he
          have := hall e he
          have := hge_w0 x hx
          omega
        rw [hrlen, ← hnf, hr, ← List.map_append, List.take_append_drop]
      · simp only [hi0, if_false]
        have hi0lt : searchGE (sample n tbl) w0 < (sample n tbl).length := by omega
        have hgo : (sample n tbl)[searchGE (sample n tbl) w0]? = some (sample n tbl)[searchGE (sample n tbl) w0] :=
          List.getElem?_eq_getElem hi0lt
        generalize hi0def : searchGE (sample n tbl) w0 = i0 at *
        generalize ho : (sample n tbl)[i0] = o at *
        simp only [hgo]
        have how : w0 ≤ o.1 := hs2 o hgo
        -- the sampled entry to start from
        have hstart : ∃ i oi, (if i0 > 0 ∧ o.1 ≠ w0 then i0 - 1 else i0) = i ∧ (sample n tbl)[i]? = some oi ∧
            oi.1 ≤ w0 ∧ i < (sample n tbl).length ∧
            (w0 ≤ oi.1 ∨ ∃ nx, (((sample n tbl).drop (i + 1)).map (·.1)).head? = some nx ∧ w0 < nx) := by
          by_cases heq : o.1 = w0
          · refine ⟨i0, o, by simp [heq], hgo, by omega, hi0lt, Or.inl (by omega)⟩
          · have hpos : i0 > 0 := by
              rcases Nat.eq_zero_or_pos i0 with h0 | h0
              · -- the first sampled entry is the first table entry, and w0 is not below it
                exfalso
                subst h0
                obtain ⟨more, hsm⟩ := sample_head n hn v0 p0 rest0
                rw [htbl] at hsm
                have : o = (v0, 0) := by
                  have h1 : (sample n tbl)[0]? = some (v0, 0) := by rw [hsm]; rfl
                  rw [hgo] at h1
                  exact Option.some.inj h1
                have hw := hfirst w0 (List.mem_of_mem_head? hhead)
                rw [this] at how heq
                simp only at how heq
                omega
              · exact h0
            have hprev : i0 - 1 < (sample n tbl).length := by omega
            refine ⟨i0 - 1, (sample n tbl)[i0 - 1], by simp [hpos, heq], List.getElem?_eq_getElem hprev, ?_, hprev, ?_⟩
            · have hmem : (sample n tbl)[i0 - 1] ∈ (sample n tbl).take i0 := by
                rw [List.mem_take_iff_getElem]
                exact ⟨i0 - 1, by omega, rfl⟩
              have := hs1 _ hmem
              omega
            · right
              refine ⟨o.1, ?_, by omega⟩
              have : i0 - 1 + 1 = i0 := by omega
              rw [this, drop_map_head_idx, hgo]
              rfl
        obtain ⟨i, oi, hi, hoi, hoiw, hilt, hprogress⟩ := hstart
        rw [hi]
        simp only [hoi]
        obtain ⟨p, rest', hdrop, hbefore, hTop⟩ := top_of_sample n tbl hinc i oi hoi
        rw [iterLoop_eq_iterA _ _ _ _ _ _ _ _ hilt, hdrop]
        have hinc' : StrictlyIncreasing ((oi.1, p) :: rest') := by
          rw [← hdrop]; exact si_drop tbl oi.2 hinc
        obtain ⟨c, hc1, hc2, hc3⟩ := iterA_ok lastVal values rest' oi.1 p _ rngs [] vi w0 hv hsd hinc' (hTop w0)
        have hcpos : c ≥ 1 := hc3 hprogress
        rw [hc1]
        simp only [closeAll, List.map_nil, List.append_nil]
        -- the locations found relative to the rest of the table are the locations in the table
        have hconv : ((values.drop vi).take c).map (specOne lastVal ((oi.1, p) :: rest')) =
            ((values.drop vi).take c).map (specOne lastVal tbl) := by
          apply List.map_congr_left
          intro x hx
          have hxw := hge_w0 x (List.mem_of_mem_take hx)
          rw [← hdrop]
          exact (specOne_drop lastVal x tbl oi.2 (fun e he => by have := hbefore e he; omega)).symm
        rw [hconv]
        subst htbl
        apply outer_ok n hn v0 p0 rest0 hinc lastVal values hsorted fuel (vi + c) _ hc2
          (fuel_step _ _ _ _ hf hcpos hc2)
        · rw [hr, List.take_add, List.map_append]
        · intro x hx
          apply hfirst
          rw [← List.drop_drop] at hx
          exact List.mem_of_mem_drop hx

end Thanos.IndexHeader
