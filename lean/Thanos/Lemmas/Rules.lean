import Thanos.Model.Rules
/-
  Helper lemmas for C45: the compaction loop of `dedupRules` over a sorted slice keeps exactly one
  (the best) element per class; the merge loop of `dedupGroups` keeps one group per key.
-/
namespace Thanos.Rules
open Std

section
attribute [local instance] lexOrd
instance instTransRuleCmp : TransCmp ruleCmp := by unfold ruleCmp; infer_instance
end

theorem isLE_total {α} (cmp : α → α → Ordering) [OrientedCmp cmp] (a b : α) :
    ((cmp a b).isLE || (cmp b a).isLE) = true := by
  rw [OrientedCmp.eq_swap (cmp := cmp) (a := a) (b := b)]
  cases cmp b a <;> simp [Ordering.swap, Ordering.isLE]

/-- the generic statement about the loop: `cmp` a transitive comparison, the slice sorted by it,
    `wrs` an asymmetric relation that is negatively transitive inside a class -/
theorem dedupLoop_spec {α} (cmp : α → α → Ordering) [TransCmp cmp] (wrs : α → α → Bool)
    (W1 : ∀ a b, cmp a b = .eq → wrs a b = true → wrs b a = false)
    (W2 : ∀ a b c, cmp a b = .eq → cmp b c = .eq → wrs a b = false → wrs b c = false → wrs a c = false) :
    ∀ (xs : List α) (cur : α), (cur :: xs).Pairwise (fun a b => (cmp a b).isLE = true) →
      (dedupLoop (fun a b => cmp a b == .eq) wrs cur xs).Pairwise (fun a b => cmp a b = .lt) ∧
      (∀ o ∈ dedupLoop (fun a b => cmp a b == .eq) wrs cur xs, o ∈ cur :: xs) ∧
      (∀ r ∈ cur :: xs, ∃ o ∈ dedupLoop (fun a b => cmp a b == .eq) wrs cur xs,
          cmp o r = .eq ∧ wrs o r = false) := by
  have wrefl : ∀ a, wrs a a = false := by
    intro a
    cases h : wrs a a with
    | false => rfl
    | true => have := W1 a a ReflCmp.compare_self h; simp [h] at this
  intro xs
  induction xs with
  | nil =>
    intro cur _
    refine ⟨by simp [dedupLoop], by simp [dedupLoop], ?_⟩
    intro r hr
    simp at hr
    subst hr
    exact ⟨r, by simp [dedupLoop], ReflCmp.compare_self, wrefl r⟩
  | cons x xs ih =>
    intro cur hs
    have hs' := List.pairwise_cons.mp hs
    have hcx : (cmp cur x).isLE = true := hs'.1 x (by simp)
    have hxs : (x :: xs).Pairwise (fun a b => (cmp a b).isLE = true) := hs'.2
    have hcxs : (cur :: xs).Pairwise (fun a b => (cmp a b).isLE = true) := by
      refine List.pairwise_cons.mpr ⟨fun y hy => hs'.1 y (by simp [hy]), (List.pairwise_cons.mp hxs).2⟩
    by_cases hsame : cmp cur x = .eq
    · -- same class: keep the better one
      by_cases hw : wrs cur x = true
      · have hl : dedupLoop (fun a b => cmp a b == .eq) wrs cur (x :: xs) =
            dedupLoop (fun a b => cmp a b == .eq) wrs x xs := by
          simp [dedupLoop, hsame, hw]
        rw [hl]
        obtain ⟨h1, h2, h3⟩ := ih x hxs
        refine ⟨h1, fun o ho => List.mem_cons_of_mem _ (h2 o ho), ?_⟩
        intro r hr
        rcases List.mem_cons.mp hr with rfl | hr
        · obtain ⟨o, ho, hox, hwo⟩ := h3 x (by simp)
          have hxc : cmp x r = .eq := OrientedCmp.eq_comm.mp hsame
          exact ⟨o, ho, TransCmp.eq_trans hox hxc, W2 o x r hox hxc hwo (W1 r x hsame hw)⟩
        · exact h3 r hr
      · have hw' : wrs cur x = false := by simpa using hw
        have hl : dedupLoop (fun a b => cmp a b == .eq) wrs cur (x :: xs) =
            dedupLoop (fun a b => cmp a b == .eq) wrs cur xs := by
          simp [dedupLoop, hsame, hw']
        rw [hl]
        obtain ⟨h1, h2, h3⟩ := ih cur hcxs
        refine ⟨h1, ?_, ?_⟩
        · intro o ho
          rcases List.mem_cons.mp (h2 o ho) with rfl | h
          · simp
          · simp [h]
        · intro r hr
          rcases List.mem_cons.mp hr with rfl | hr
          · exact h3 r (by simp)
          · rcases List.mem_cons.mp hr with rfl | hr
            · obtain ⟨o, ho, hoc, hwo⟩ := h3 cur (by simp)
              exact ⟨o, ho, TransCmp.eq_trans hoc hsame, W2 o cur r hoc hsame hwo hw'⟩
            · exact h3 r (by simp [hr])
    · -- a new class starts
      have hlt : cmp cur x = .lt := by
        cases h : cmp cur x with
        | lt => rfl
        | eq => exact absurd h hsame
        | gt => simp [h, Ordering.isLE] at hcx
      have hl : dedupLoop (fun a b => cmp a b == .eq) wrs cur (x :: xs) =
          cur :: dedupLoop (fun a b => cmp a b == .eq) wrs x xs := by
        simp [dedupLoop, hsame]
      rw [hl]
      obtain ⟨h1, h2, h3⟩ := ih x hxs
      refine ⟨List.pairwise_cons.mpr ⟨?_, h1⟩, ?_, ?_⟩
      · intro o ho
        rcases List.mem_cons.mp (h2 o ho) with rfl | h
        · exact hlt
        · exact TransCmp.lt_of_lt_of_isLE hlt ((List.pairwise_cons.mp hxs).1 o h)
      · intro o ho
        rcases List.mem_cons.mp ho with rfl | ho
        · simp
        · exact List.mem_cons_of_mem _ (h2 o ho)
      · intro r hr
        rcases List.mem_cons.mp hr with rfl | hr
        · exact ⟨r, by simp, ReflCmp.compare_self, wrefl r⟩
        · obtain ⟨o, ho, h⟩ := h3 r hr
          exact ⟨o, List.mem_cons_of_mem _ ho, h⟩

/-! ### the concrete instance for rules -/

section
attribute [local instance] lexOrd
theorem key_eq_of_same {a b : Rule} (h : ruleCmp a b = .eq) : a.key = b.key := by
  unfold ruleCmp compareOn at h
  exact compare_eq_iff_eq.mp h
end

theorem kind_eq_of_same {a b : Rule} (h : ruleCmp a b = .eq) : a.kind = b.kind := by
  have := congrArg (fun k => k.1) (key_eq_of_same h)
  simp only [Rule.key] at this
  cases ha : a.kind <;> cases hb : b.kind <;> simp_all

theorem worse_asymm (a b : Rule) (h : worse a b = true) (hk : a.kind = b.kind) : worse b a = false := by
  unfold worse at *
  rw [← hk]
  cases hka : a.kind <;> simp only [hka] at h <;> simp at h ⊢
  · rcases h with h | ⟨h1, h2⟩
    · constructor
      · omega
      · intro h'; omega
    · constructor
      · omega
      · intro _; omega
  · omega

theorem worse_negtrans (a b c : Rule) (hab : a.kind = b.kind)
    (h1 : worse a b = false) (h2 : worse b c = false) : worse a c = false := by
  unfold worse at *
  rw [← hab] at h2
  cases hka : a.kind <;> simp only [hka] at h1 h2 <;> simp at h1 h2 ⊢
  · obtain ⟨a1, a2⟩ := h1
    obtain ⟨b1, b2⟩ := h2
    constructor
    · omega
    · intro h
      have : a.state = b.state := by omega
      have : b.state = c.state := by omega
      have := a2 ‹_›
      have := b2 ‹_›
      omega
  · omega

theorem dedupRules_spec (repl : List String) (rs : List Rule) :
    (dedupRules repl rs).Pairwise (fun a b => ruleCmp a b = .lt) ∧
    (∀ o ∈ dedupRules repl rs, o ∈ rs.map (removeReplica repl)) ∧
    (∀ r ∈ rs, ∃ o ∈ dedupRules repl rs,
        sameRule o (removeReplica repl r) = true ∧ worse o (removeReplica repl r) = false) := by
  have hsorted : ((rs.map (removeReplica repl)).mergeSort ruleLe).Pairwise (fun a b => ruleLe a b = true) :=
    List.pairwise_mergeSort (le := ruleLe)
      (fun a b c h1 h2 => by unfold ruleLe at *; exact TransCmp.isLE_trans h1 h2)
      (fun a b => by unfold ruleLe; exact isLE_total ruleCmp a b) _
  have hperm := List.mergeSort_perm (rs.map (removeReplica repl)) ruleLe
  unfold dedupRules
  generalize hl : (rs.map (removeReplica repl)).mergeSort ruleLe = sorted at hsorted hperm
  cases sorted with
  | nil =>
    have : rs.map (removeReplica repl) = [] := List.Perm.eq_nil (hperm.symm)
    have hrs : rs = [] := by simpa using this
    subst hrs
    simp [dedupSorted]
  | cons x xs =>
    have := dedupLoop_spec ruleCmp worse
      (fun a b hc hw => worse_asymm a b hw (kind_eq_of_same hc))
      (fun a b c h1 _ w1 w2 => worse_negtrans a b c (kind_eq_of_same h1) w1 w2) xs x hsorted
    obtain ⟨h1, h2, h3⟩ := this
    refine ⟨h1, fun o ho => hperm.mem_iff.mp (h2 o ho), ?_⟩
    intro r hr
    have hm : removeReplica repl r ∈ x :: xs := hperm.mem_iff.mpr (List.mem_map_of_mem hr)
    obtain ⟨o, ho, hc, hw⟩ := h3 _ hm
    exact ⟨o, ho, by simp [sameRule, hc], hw⟩

/-! ### groups -/

theorem mergeLoop_spec : ∀ (gs : List Group) (cur : Group),
    (cur :: gs).Pairwise (fun a b => (compare a.key b.key).isLE = true) →
    (mergeLoop cur gs).Pairwise (fun a b => compare a.key b.key = .lt) ∧
    (∀ o ∈ mergeLoop cur gs, ∃ g ∈ cur :: gs, o.key = g.key) ∧
    (∀ g ∈ cur :: gs, ∃ o ∈ mergeLoop cur gs, o.key = g.key ∧ ∀ r ∈ g.rules, r ∈ o.rules) ∧
    (∀ o ∈ mergeLoop cur gs, ∀ r ∈ o.rules, ∃ g ∈ cur :: gs, g.key = o.key ∧ r ∈ g.rules) := by
  intro gs
  induction gs with
  | nil =>
    intro cur _
    simp [mergeLoop]
  | cons g gs ih =>
    intro cur hs
    have hs' := List.pairwise_cons.mp hs
    have hcg : (compare cur.key g.key).isLE = true := hs'.1 g (by simp)
    have hgs := hs'.2
    by_cases hk : g.key = cur.key
    · let cur' : Group := { cur with rules := cur.rules ++ g.rules }
      have hk' : cur'.key = cur.key := rfl
      have hl : mergeLoop cur (g :: gs) = mergeLoop cur' gs := by simp [mergeLoop, hk, cur']
      rw [hl]
      have hs2 : (cur' :: gs).Pairwise (fun a b => (compare a.key b.key).isLE = true) := by
        refine List.pairwise_cons.mpr ⟨fun y hy => ?_, (List.pairwise_cons.mp hgs).2⟩
        rw [hk']; exact hs'.1 y (by simp [hy])
      obtain ⟨h1, h2, h3, h4⟩ := ih cur' hs2
      refine ⟨h1, ?_, ?_, ?_⟩
      · intro o ho
        obtain ⟨g', hg', he⟩ := h2 o ho
        rcases List.mem_cons.mp hg' with rfl | hg'
        · exact ⟨cur, by simp, he⟩
        · exact ⟨g', by simp [hg'], he⟩
      · intro g0 hg0
        rcases List.mem_cons.mp hg0 with rfl | hg0
        · obtain ⟨o, ho, hke, hr⟩ := h3 cur' (by simp)
          exact ⟨o, ho, hke, fun r hr' => hr r (by simp [cur', hr'])⟩
        · rcases List.mem_cons.mp hg0 with rfl | hg0
          · obtain ⟨o, ho, hke, hr⟩ := h3 cur' (by simp)
            exact ⟨o, ho, by rw [hke, hk', hk], fun r hr' => hr r (by simp [cur', hr'])⟩
          · exact h3 g0 (by simp [hg0])
      · intro o ho r hr
        obtain ⟨g', hg', he, hr'⟩ := h4 o ho r hr
        rcases List.mem_cons.mp hg' with rfl | hg'
        · simp only [cur', List.mem_append] at hr'
          rcases hr' with hr' | hr'
          · exact ⟨cur, by simp, he, hr'⟩
          · exact ⟨g, by simp, by rw [hk]; exact he, hr'⟩
        · exact ⟨g', by simp [hg'], he, hr'⟩
    · have hlt : compare cur.key g.key = .lt := by
        cases h : compare cur.key g.key with
        | lt => rfl
        | eq => exact absurd (compare_eq_iff_eq.mp h).symm hk
        | gt => simp [h, Ordering.isLE] at hcg
      have hl : mergeLoop cur (g :: gs) = cur :: mergeLoop g gs := by simp [mergeLoop, hk]
      rw [hl]
      obtain ⟨h1, h2, h3, h4⟩ := ih g hgs
      refine ⟨List.pairwise_cons.mpr ⟨?_, h1⟩, ?_, ?_, ?_⟩
      · intro o ho
        obtain ⟨g', hg', he⟩ := h2 o ho
        rw [he]
        rcases List.mem_cons.mp hg' with rfl | hg'
        · exact hlt
        · exact TransCmp.lt_of_lt_of_isLE hlt ((List.pairwise_cons.mp hgs).1 g' hg')
      · intro o ho
        rcases List.mem_cons.mp ho with rfl | ho
        · exact ⟨o, by simp, rfl⟩
        · obtain ⟨g', hg', he⟩ := h2 o ho
          exact ⟨g', List.mem_cons_of_mem _ hg', he⟩
      · intro g0 hg0
        rcases List.mem_cons.mp hg0 with rfl | hg0
        · exact ⟨g0, by simp, rfl, fun r hr => hr⟩
        · obtain ⟨o, ho, h⟩ := h3 g0 hg0
          exact ⟨o, List.mem_cons_of_mem _ ho, h⟩
      · intro o ho r hr
        rcases List.mem_cons.mp ho with rfl | ho
        · exact ⟨o, by simp, rfl, hr⟩
        · obtain ⟨g', hg', h⟩ := h4 o ho r hr
          exact ⟨g', List.mem_cons_of_mem _ hg', h⟩

theorem dedupGroups_spec (gs : List Group) :
    (dedupGroups gs).Pairwise (fun a b => compare a.key b.key = .lt) ∧
    (∀ g ∈ gs, ∃ o ∈ dedupGroups gs, o.key = g.key ∧ ∀ r ∈ g.rules, r ∈ o.rules) ∧
    (∀ o ∈ dedupGroups gs, ∀ r ∈ o.rules, ∃ g ∈ gs, g.key = o.key ∧ r ∈ g.rules) := by
  have hsorted : (gs.mergeSort groupLe).Pairwise (fun a b => groupLe a b = true) :=
    List.pairwise_mergeSort (le := groupLe)
      (fun a b c h1 h2 => by
        unfold groupLe at *
        exact TransCmp.isLE_trans (cmp := (compare : String → String → Ordering)) h1 h2)
      (fun a b => by
        unfold groupLe
        exact isLE_total (compare : String → String → Ordering) a.key b.key) _
  have hperm := List.mergeSort_perm gs groupLe
  unfold dedupGroups
  generalize hl : gs.mergeSort groupLe = sorted at hsorted hperm
  cases sorted with
  | nil =>
    have hgs : gs = [] := List.Perm.eq_nil (hperm.symm)
    subst hgs
    simp
  | cons x xs =>
    obtain ⟨h1, _, h3, h4⟩ := mergeLoop_spec xs x hsorted
    refine ⟨h1, fun g hg => h3 g (hperm.mem_iff.mpr hg), ?_⟩
    intro o ho r hr
    obtain ⟨g, hg, h⟩ := h4 o ho r hr
    exact ⟨g, hperm.mem_iff.mp hg, h⟩

end Thanos.Rules
