import Thanos.Model.LazyReader
/-
  The invariant behind C16 and its preservation by every step of every thread.
-/
namespace Thanos.LazyReader

/-- what is true of the generations in every reachable state -/
structure SharedOK (s : State) : Prop where
  open_ : ∀ g, s.reader = some g → s.closed.contains g = false
  freshR : ∀ g, s.reader = some g → g < s.nextGen
  freshC : ∀ g, g ∈ s.closed → g < s.nextGen
  /-- after a failed load there is no reader (no half-initialised reader is ever installed) -/
  errNil : s.readerErr = true → s.reader = none

structure Inv (s : State) : Prop where
  bad : s.bad = false
  /-- reader/writer exclusion: a thread holding the write lock is the only lock holder -/
  excl : ∀ (i j : Nat) (ti tj : Thread), s.threads[i]? = some ti → s.threads[j]? = some tj → i ≠ j →
    holdsW ti.pc = true → holdsW tj.pc = false ∧ holdsR tj.pc = false
  shared : SharedOK s
  /-- a thread past `load()` (holding the read lock) sees a loaded reader, the one it uses -/
  known : ∀ (i : Nat) (t : Thread), s.threads[i]? = some t →
    (t.pc = .fast → s.reader.isSome = true) ∧ (∀ g, t.pc = .inUse g → s.reader = some g) ∧
    (∀ g, t.pc ≠ .consuming g)

theorem inv_init (kinds : List Kind) : Inv (init kinds) where
  bad := rfl
  excl := by
    intro i j ti tj hi _ _ hw
    simp only [init, List.getElem?_map, Option.map_eq_some_iff] at hi
    obtain ⟨k, _, rfl⟩ := hi
    simp [holdsW] at hw
  shared := ⟨by simp [init], by simp [init], by simp [init], by simp [init]⟩
  known := by
    intro i t hi
    simp only [init, List.getElem?_map, Option.map_eq_some_iff] at hi
    obtain ⟨k, _, rfl⟩ := hi
    simp

theorem inv_initF (kinds : List Kind) (failAt : List Nat) : Inv (initF kinds failAt) := by
  have h := inv_init kinds
  exact ⟨h.bad, h.excl, ⟨h.shared.open_, h.shared.freshR, h.shared.freshC, h.shared.errNil⟩, h.known⟩

theorem canW_spec {ts : List Thread} (h : canW ts = true) {j : Nat} {t : Thread} (hj : ts[j]? = some t) :
    holdsW t.pc = false ∧ holdsR t.pc = false := by
  have hm : t ∈ ts := List.mem_of_getElem? hj
  have := List.all_eq_true.mp h t hm
  simpa using this

theorem canR_spec {ts : List Thread} (h : canR ts = true) {j : Nat} {t : Thread} (hj : ts[j]? = some t) :
    holdsW t.pc = false := by
  have hm : t ∈ ts := List.mem_of_getElem? hj
  have := List.all_eq_true.mp h t hm
  simpa using this

/-- One thread moves from `t.pc` to `pc'`; the shared part either stays, or changes under the
    write lock to something that is again `SharedOK`. -/
theorem inv_update {s s' : State} {i : Nat} {t : Thread} (hI : Inv s) (ht : s.threads[i]? = some t)
    (pc' : PC)
    (hth : s'.threads = s.threads.set i { t with pc := pc' })
    (hbad : s'.bad = false)
    (hW : holdsW pc' = true → holdsW t.pc = true ∨ canW s.threads = true)
    (hR : holdsR pc' = true → holdsR t.pc = true ∨ canR s.threads = true)
    (hShared : (s'.reader = s.reader ∧ s'.closed = s.closed ∧ s'.nextGen = s.nextGen ∧
        s'.readerErr = s.readerErr) ∨
      (holdsW t.pc = true ∧ SharedOK s'))
    (hSelf : (pc' = .fast → s'.reader.isSome = true) ∧ (∀ g, pc' = .inUse g → s'.reader = some g) ∧
      (∀ g, pc' ≠ .consuming g)) : Inv s' := by
  have hlen : i < s.threads.length := by
    rcases Nat.lt_or_ge i s.threads.length with h | h
    · exact h
    · rw [List.getElem?_eq_none h] at ht; cases ht
  -- reading the updated thread list
  have hget : ∀ j tj, s'.threads[j]? = some tj →
      (j = i ∧ tj = { t with pc := pc' }) ∨ (j ≠ i ∧ s.threads[j]? = some tj) := by
    intro j tj hj
    rw [hth, List.getElem?_set] at hj
    by_cases hji : i = j
    · subst hji
      simp only [hlen, if_true] at hj
      left; exact ⟨rfl, by cases hj; rfl⟩
    · simp only [hji, if_false] at hj
      right; exact ⟨fun h => hji h.symm, hj⟩
  refine ⟨hbad, ?_, ?_, ?_⟩
  · -- exclusion
    intro a b ta tb ha hb hab hwa
    rcases hget a ta ha with ⟨rfl, rfl⟩ | ⟨hai, ha'⟩ <;> rcases hget b tb hb with ⟨hbi, rfl⟩ | ⟨hbi, hb'⟩
    · exact absurd hbi.symm hab
    · -- the mover holds W afterwards
      rcases hW hwa with h | h
      · exact hI.excl _ _ _ _ ht hb' hab h
      · exact canW_spec h hb'
    · -- the mover is the other thread: it must hold nothing
      subst hbi
      have hold := hI.excl _ _ _ _ ha' ht hai hwa
      constructor
      · cases hw : holdsW pc' with
        | false => rfl
        | true =>
          rcases hW hw with h | h
          · rw [hold.1] at h; cases h
          · have := (canW_spec h ha').1; rw [hwa] at this; cases this
      · cases hr : holdsR pc' with
        | false => rfl
        | true =>
          rcases hR hr with h | h
          · rw [hold.2] at h; cases h
          · have := canR_spec h ha'; rw [hwa] at this; cases this
    · exact hI.excl _ _ _ _ ha' hb' hab hwa
  · -- shared part
    rcases hShared with ⟨h1, h2, h3, h4⟩ | ⟨_, h⟩
    · exact ⟨by rw [h1, h2]; exact hI.shared.open_, by rw [h1, h3]; exact hI.shared.freshR,
        by rw [h2, h3]; exact hI.shared.freshC, by rw [h1, h4]; exact hI.shared.errNil⟩
    · exact h
  · -- what the threads know
    intro a ta ha
    rcases hget a ta ha with ⟨_, rfl⟩ | ⟨hai, ha'⟩
    · exact hSelf
    · have hk := hI.known a ta ha'
      rcases hShared with ⟨h1, _, _, _⟩ | ⟨hw, _⟩
      · rw [h1]; exact hk
      · -- the mover held the write lock: nobody else was holding the read lock
        have hold := hI.excl _ _ _ _ ht ha' (fun h => hai h.symm) hw
        refine ⟨?_, ?_, hk.2.2⟩
        · intro hf; rw [hf] at hold; simp [holdsR] at hold
        · intro g hu; rw [hu] at hold; simp [holdsR] at hold

/-- every step of the code as it is (`recheckNil = true`, answers are copies) keeps the invariant -/
theorem inv_step {s : State} (hI : Inv s) (i : Nat) : Inv (step true false s i) := by
  unfold step
  cases ht : s.threads[i]? with
  | none => exact hI
  | some t =>
    obtain ⟨kind, pc⟩ := t
    have hk := hI.known i _ ht
    simp only at hk
    cases kind with
    | reader =>
      cases pc with
      | idle =>
        simp only
        split
        · rename_i hc
          exact inv_update hI ht .rl1 rfl hI.bad (by simp [holdsW]) (fun _ => Or.inr hc)
            (Or.inl ⟨rfl, rfl, rfl, rfl⟩) (by simp)
        · exact hI
      | rl1 =>
        simp only
        split
        · rename_i hs
          exact inv_update hI ht .fast rfl hI.bad (by simp [holdsW]) (by simp [holdsR])
            (Or.inl ⟨rfl, rfl, rfl, rfl⟩) ⟨fun _ => hs, by simp, by simp⟩
        · split
          · exact inv_update hI ht .idle rfl hI.bad (by simp [holdsW]) (by simp [holdsR])
              (Or.inl ⟨rfl, rfl, rfl, rfl⟩) (by simp)
          · exact inv_update hI ht .wantW rfl hI.bad (by simp [holdsW]) (by simp [holdsR])
              (Or.inl ⟨rfl, rfl, rfl, rfl⟩) (by simp)
      | wantW =>
        simp only
        split
        · rename_i hc
          exact inv_update hI ht .w rfl hI.bad (fun _ => Or.inr hc) (by simp [holdsR])
            (Or.inl ⟨rfl, rfl, rfl, rfl⟩) (by simp)
        · exact hI
      | w =>
        simp only
        split
        · exact inv_update hI ht .wDone rfl hI.bad (by simp [holdsW]) (by simp [holdsR])
            (Or.inl ⟨rfl, rfl, rfl, rfl⟩) (by simp)
        · rename_i hnone
          split
          · -- an earlier load failed: return r.readerErr
            exact inv_update hI ht .wDoneE rfl hI.bad (by simp [holdsW]) (by simp [holdsR])
              (Or.inl ⟨rfl, rfl, rfl, rfl⟩) (by simp)
          rename_i hnoerr
          split
          · -- NewBinaryReader fails: r.readerErr = err, no reader is installed
            refine inv_update hI ht .wDoneE rfl hI.bad (by simp [holdsW]) (by simp [holdsR])
              (Or.inr ⟨by simp [holdsW], ?_⟩) (by simp)
            exact ⟨by simp [hnone], by simp [hnone], hI.shared.freshC, fun _ => hnone⟩
          -- NewBinaryReader: a fresh generation
          refine inv_update hI ht .wDone rfl hI.bad (by simp [holdsW]) (by simp [holdsR])
            (Or.inr ⟨by simp [holdsW], ?_⟩) (by simp)
          refine ⟨?_, ?_, ?_, by simp [hnoerr]⟩
          · intro g hg
            simp only [Option.some.injEq] at hg
            subst hg
            cases hcon : s.closed.contains s.nextGen with
            | false => rfl
            | true =>
              have := hI.shared.freshC s.nextGen (by simpa using hcon)
              omega
          · intro g hg
            simp only [Option.some.injEq] at hg
            subst hg
            simp
          · intro g hg
            have := hI.shared.freshC g hg
            simp only
            omega
      | wDone =>
        exact inv_update hI ht .wantR2 rfl hI.bad (by simp [holdsW]) (by simp [holdsR])
          (Or.inl ⟨rfl, rfl, rfl, rfl⟩) (by simp)
      | wantR2 =>
        simp only
        split
        · rename_i hc
          exact inv_update hI ht .recheck rfl hI.bad (by simp [holdsW]) (fun _ => Or.inr hc)
            (Or.inl ⟨rfl, rfl, rfl, rfl⟩) (by simp)
        · exact hI
      | wDoneE =>
        exact inv_update hI ht .wantR2E rfl hI.bad (by simp [holdsW]) (by simp [holdsR])
          (Or.inl ⟨rfl, rfl, rfl, rfl⟩) (by simp)
      | wantR2E =>
        simp only
        split
        · rename_i hc
          exact inv_update hI ht .recheckE rfl hI.bad (by simp [holdsW]) (fun _ => Or.inr hc)
            (Or.inl ⟨rfl, rfl, rfl, rfl⟩) (by simp)
        · exact hI
      | recheckE =>
        exact inv_update hI ht .idle rfl hI.bad (by simp [holdsW]) (by simp [holdsR])
          (Or.inl ⟨rfl, rfl, rfl, rfl⟩) (by simp)
      | recheck =>
        simp only [Bool.true_and]
        split
        · exact inv_update hI ht .idle rfl hI.bad (by simp [holdsW]) (by simp [holdsR])
            (Or.inl ⟨rfl, rfl, rfl, rfl⟩) (by simp)
        · rename_i hs
          exact inv_update hI ht .fast rfl hI.bad (by simp [holdsW]) (by simp [holdsR])
            (Or.inl ⟨rfl, rfl, rfl, rfl⟩)
            ⟨fun _ => by cases hr : s.reader <;> simp_all, by simp, by simp⟩
      | fast =>
        have hsome := hk.1 rfl
        simp only
        split
        · rename_i hn; rw [hn] at hsome; cases hsome
        · rename_i g hg
          have hopen := hI.shared.open_ g hg
          simp only [hopen, Bool.false_eq_true, if_false]
          exact inv_update hI ht (.inUse g) rfl hI.bad (by simp [holdsW]) (by simp [holdsR])
            (Or.inl ⟨rfl, rfl, rfl, rfl⟩) ⟨by simp, by intro g' h; cases h; exact hg, by simp⟩
      | inUse g =>
        have hg := hk.2.1 g rfl
        have hopen := hI.shared.open_ g hg
        simp only [hopen, hg, bne_self_eq_false, Bool.or_self, Bool.false_eq_true, if_false]
        exact inv_update hI ht .idle rfl hI.bad (by simp [holdsW]) (by simp [holdsR])
          (Or.inl ⟨hg.symm, rfl, rfl, rfl⟩) (by simp)
      | consuming g => exact absurd rfl (hk.2.2 g)
      | uW => exact hI
      | uDone => exact hI
      | pR => exact hI
    | unloader idle =>
      cases pc with
      | idle =>
        simp only
        split
        · rename_i hc
          exact inv_update hI ht .uW rfl hI.bad (fun _ => Or.inr hc) (by simp [holdsR])
            (Or.inl ⟨rfl, rfl, rfl, rfl⟩) (by simp)
        · exact hI
      | uW =>
        simp only
        split
        · exact inv_update hI ht .uDone rfl hI.bad (by simp [holdsW]) (by simp [holdsR])
            (Or.inl ⟨rfl, rfl, rfl, rfl⟩) (by simp)
        · rename_i g hg
          split
          · -- Close and forget the reader
            refine inv_update hI ht .uDone rfl hI.bad (by simp [holdsW]) (by simp [holdsR])
              (Or.inr ⟨by simp [holdsW], ?_⟩) (by simp)
            refine ⟨by simp, by simp, ?_, by simp⟩
            intro g' hg'
            simp only [List.mem_cons] at hg'
            rcases hg' with rfl | h
            · exact hI.shared.freshR _ hg
            · exact hI.shared.freshC _ h
          · exact inv_update hI ht .uDone rfl hI.bad (by simp [holdsW]) (by simp [holdsR])
              (Or.inl ⟨rfl, rfl, rfl, rfl⟩) (by simp)
      | uDone =>
        exact inv_update hI ht .idle rfl hI.bad (by simp [holdsW]) (by simp [holdsR])
          (Or.inl ⟨rfl, rfl, rfl, rfl⟩) (by simp)
      | rl1 => exact hI
      | fast => exact hI
      | wantW => exact hI
      | w => exact hI
      | wDone => exact hI
      | wantR2 => exact hI
      | recheck => exact hI
      | wDoneE => exact hI
      | wantR2E => exact hI
      | recheckE => exact hI
      | inUse g => exact hI
      | consuming g => exact hI
      | pR => exact hI
    | probe =>
      cases pc with
      | idle =>
        simp only
        split
        · rename_i hc
          exact inv_update hI ht .pR rfl hI.bad (by simp [holdsW]) (fun _ => Or.inr hc)
            (Or.inl ⟨rfl, rfl, rfl, rfl⟩) (by simp)
        · exact hI
      | pR =>
        exact inv_update hI ht .idle rfl hI.bad (by simp [holdsW]) (by simp [holdsR])
          (Or.inl ⟨rfl, rfl, rfl, rfl⟩) (by simp)
      | rl1 => exact hI
      | fast => exact hI
      | wantW => exact hI
      | w => exact hI
      | wDone => exact hI
      | wantR2 => exact hI
      | recheck => exact hI
      | wDoneE => exact hI
      | wantR2E => exact hI
      | recheckE => exact hI
      | inUse g => exact hI
      | consuming g => exact hI
      | uW => exact hI
      | uDone => exact hI

theorem inv_run {s : State} (hI : Inv s) : ∀ (schedule : List Nat), Inv (run true false s schedule)
  | [] => hI
  | i :: is => inv_run (inv_step hI i) is

/-! ### failed loads -/

/-- a failed load is remembered for ever, and NewBinaryReader is not called again -/
theorem err_sticky_step (b a : Bool) (s : State) (i : Nat) (h : s.readerErr = true) :
    (step b a s i).readerErr = true ∧ (step b a s i).loads = s.loads ∧
    (step b a s i).loadFails = s.loadFails := by
  unfold step
  cases ht : s.threads[i]? with
  | none => exact ⟨h, rfl, rfl⟩
  | some t =>
    obtain ⟨kind, pc⟩ := t
    cases kind <;> cases pc <;> simp only <;> (repeat' split) <;> simp_all

theorem err_sticky_run (b a : Bool) : ∀ (sched : List Nat) (s : State), s.readerErr = true →
    (run b a s sched).readerErr = true ∧ (run b a s sched).loads = s.loads ∧
    (run b a s sched).loadFails = s.loadFails
  | [], _, h => ⟨h, rfl, rfl⟩
  | i :: is, s, h => by
    have h1 := err_sticky_step b a s i h
    have h2 := err_sticky_run b a is (step b a s i) h1.1
    exact ⟨h2.1, h2.2.1.trans h1.2.1, h2.2.2.trans h1.2.2⟩

/-- the environment is not changed by the code -/
theorem failAt_step (b a : Bool) (s : State) (i : Nat) : (step b a s i).failAt = s.failAt := by
  unfold step
  cases ht : s.threads[i]? with
  | none => rfl
  | some t =>
    obtain ⟨kind, pc⟩ := t
    cases kind <;> cases pc <;> simp only <;> (repeat' split) <;> rfl

end Thanos.LazyReader
