import Thanos.Model.Hashring
import Thanos.Lemmas.Hashring
import Thanos.Lemmas.HashringBalance
import Thanos.Lemmas.HashringWalk
/-
  The ketama ring does not depend on the order of the endpoint list (C18), up to the renaming
  of endpoint indices that the reordering induces:
  * the replica loop commutes with an injective renaming of endpoint indices (`loop_ren`);
  * it depends on the zone list only up to permutation (`loop_zones_perm`);
  * without hash ties the sorted ring of the permuted list is the renamed sorted ring.
-/
namespace Thanos.Hashring

/-- rename the endpoint index of a section -/
def ren (f : Nat → Nat) (s : Sec) : Sec := { s with ep := f s.ep }

def Res.map (f : Nat → Nat) : Res → Res
  | .ok reps => .ok (reps.map f)
  | .stuck => .stuck
  | .fuelOut => .fuelOut
  | .oob => .oob

/-- `f` is injective on the endpoint indices occurring in `l` -/
def InjOn (f : Nat → Nat) (l : List Sec) : Prop := ∀ s ∈ l, ∀ t ∈ l, f s.ep = f t.ep → s.ep = t.ep

@[simp] theorem ren_az (f : Nat → Nat) (s : Sec) : (ren f s).az = s.az := rfl
@[simp] theorem ren_hash (f : Nat → Nat) (s : Sec) : (ren f s).hash = s.hash := rfl
@[simp] theorem ren_ep (f : Nat → Nat) (s : Sec) : (ren f s).ep = f s.ep := rfl

theorem cnt_ren (f : Nat → Nat) (z : Nat) (chosen : List Sec) : cnt z (chosen.map (ren f)) = cnt z chosen := by
  simp [cnt, List.countP_map, Function.comp_def]

theorem least_ren (f : Nat → Nat) (chosen : List Sec) : ∀ zones, least (chosen.map (ren f)) zones = least chosen zones
  | [] => rfl
  | z :: zs => by simp [least, cnt_ren, least_ren f chosen zs]

theorem skipAZ_ren (f : Nat → Nat) (zones : List Nat) (chosen : List Sec) (rep : Sec) :
    skipAZ zones (chosen.map (ren f)) (ren f rep) = skipAZ zones chosen rep := by
  simp [skipAZ, cnt_ren, least_ren]

theorem taken_ren {f : Nat → Nat} {ring chosen : List Sec} {rep : Sec} (hinj : InjOn f ring)
    (hc : ∀ c ∈ chosen, c ∈ ring) (hrep : rep ∈ ring) :
    taken (chosen.map (ren f)) (f rep.ep) = taken chosen rep.ep := by
  simp only [taken, List.any_map, Function.comp_def, ren_ep]
  apply Bool.eq_iff_iff.mpr
  simp only [List.any_eq_true, beq_iff_eq]
  constructor
  · rintro ⟨c, hcm, he⟩; exact ⟨c, hcm, hinj c (hc c hcm) rep hrep he⟩
  · rintro ⟨c, hcm, he⟩; exact ⟨c, hcm, by rw [he]⟩

theorem cursor_ren (f : Nat → Nat) (ring rest : List Sec) :
    cursor (ring.map (ren f)) (rest.map (ren f)) =
      (cursor ring rest).map (fun p => (ren f p.1, p.2.map (ren f))) := by
  cases rest with
  | cons a r => simp [cursor]
  | nil =>
    cases ring with
    | nil => simp [cursor]
    | cons a r => simp [cursor]

/-- the loop commutes with a renaming of the endpoint indices that is injective on the ring -/
theorem loop_ren (lc : Bool) (f : Nat → Nat) (ring : List Sec) (n : Nat) (zones : List Nat) (rf : Nat)
    (hinj : InjOn f ring) :
    ∀ (fuel : Nat) (rest : List Sec) (skipped : Nat) (chosen : List Sec),
      (∀ s ∈ rest, s ∈ ring) → (∀ c ∈ chosen, c ∈ ring) →
      loop lc (ring.map (ren f)) n zones rf fuel (rest.map (ren f)) skipped (chosen.map (ren f)) =
        (loop lc ring n zones rf fuel rest skipped chosen).map f := by
  intro fuel
  induction fuel with
  | zero => intro _ _ _ _ _; rfl
  | succ fuel ih =>
    intro rest skipped chosen hsub hc
    unfold loop
    simp only [List.length_map, cursor_ren]
    by_cases h1 : rf ≤ chosen.length
    · simp [h1, Res.map, Function.comp_def]
    · simp only [h1, if_false]
      by_cases h2 : (lc && skipped == n) = true
      · simp [h2, Res.map]
      · simp only [h2]
        cases hcur : cursor ring rest with
        | none => simp [Res.map]
        | some p =>
          obtain ⟨rep, rest'⟩ := p
          obtain ⟨hrep, hsub'⟩ := cursor_mem hsub hcur
          simp only [Option.map_some, ren_ep, taken_ren hinj hc hrep, skipAZ_ren]
          by_cases ht : taken chosen rep.ep = true
          · simp only [ht, if_true]; exact ih _ _ _ hsub' hc
          · simp only [ht]
            by_cases hs : skipAZ zones chosen rep = true
            · simp only [hs, if_true]; exact ih _ _ _ hsub' hc
            · simp only [hs]
              have := ih rest' 0 (chosen ++ [rep]) hsub' (by
                intro c hcm
                rw [List.mem_append] at hcm
                rcases hcm with h | h
                · exact hc c h
                · simp at h; subst h; exact hrep)
              simpa using this

/-! ### the zone list matters only up to permutation -/

theorem least_perm (chosen : List Sec) {zones zones' : List Nat} (h : zones.Perm zones') :
    least chosen zones = least chosen zones' := by
  induction h with
  | nil => rfl
  | cons a _ ih => simp [least, ih]
  | swap a b l => simp only [least]; omega
  | trans _ _ ih1 ih2 => rw [ih1, ih2]

theorem loop_zones_perm (lc : Bool) (ring : List Sec) (n : Nat) {zones zones' : List Nat} (h : zones.Perm zones')
    (rf : Nat) : ∀ (fuel : Nat) (rest : List Sec) (skipped : Nat) (chosen : List Sec),
      loop lc ring n zones rf fuel rest skipped chosen = loop lc ring n zones' rf fuel rest skipped chosen := by
  intro fuel
  induction fuel with
  | zero => intro _ _ _; rfl
  | succ fuel ih =>
    intro rest skipped chosen
    unfold loop
    have hs : ∀ rep, skipAZ zones chosen rep = skipAZ zones' chosen rep := by
      intro rep; simp [skipAZ, h.length_eq, least_perm chosen h]
    simp only [hs, ih]

/-! ### tables -/

def Build.map (f : Nat → Nat) : Build → Build
  | .ring secs => .ring (secs.map fun p => (ren f p.1, p.2.map f))
  | .tooFew => .tooFew
  | .stuck => .stuck
  | .hang => .hang
  | .panic => .panic

theorem table_ren (lc : Bool) (f : Nat → Nat) (ring : List Sec) (zones : List Nat) (rf : Nat) (hinj : InjOn f ring) :
    ∀ (suffix : List Sec), (∀ s ∈ suffix, s ∈ ring) →
      table lc (ring.map (ren f)) zones rf (suffix.map (ren f)) = (table lc ring zones rf suffix).map f
  | [], _ => rfl
  | s :: rest, hsub => by
    have hrest : ∀ x ∈ rest, x ∈ ring := fun x hx => hsub x (by simp [hx])
    have ih := table_ren lc f ring zones rf hinj rest hrest
    have hl := loop_ren lc f ring ring.length zones rf hinj (fuelBound ring.length rf) (s :: rest) 0 [] hsub (by simp)
    simp only [List.map_cons, List.map_nil] at hl
    simp only [List.map_cons, table, replicasFor, List.length_map, hl, ih]
    cases hr : loop lc ring ring.length zones rf (fuelBound ring.length rf) (s :: rest) 0 [] with
    | ok r =>
      simp only [Res.map]
      cases ht : table lc ring zones rf rest with
      | ring t => simp [Build.map]
      | tooFew => simp [Build.map]
      | stuck => simp [Build.map]
      | hang => simp [Build.map]
      | panic => simp [Build.map]
    | stuck => simp [Res.map, Build.map]
    | fuelOut => simp [Res.map, Build.map]
    | oob => simp [Res.map, Build.map]

theorem table_zones_perm (lc : Bool) (ring : List Sec) {zones zones' : List Nat} (h : zones.Perm zones') (rf : Nat) :
    ∀ (suffix : List Sec), table lc ring zones rf suffix = table lc ring zones' rf suffix
  | [] => rfl
  | s :: rest => by
    simp only [table, replicasFor, loop_zones_perm lc ring ring.length h rf, table_zones_perm lc ring h rf rest]

/-! ### `GetN` on a renamed table -/

def Get.map (f : Nat → Nat) : Get → Get
  | .node e => .node (f e)
  | .insufficient => .insufficient
  | .panic => .panic

theorem search_ren (f : Nat → Nat) (v : Nat) : ∀ (secs : List (Sec × List Nat)),
    search v (secs.map fun p => (ren f p.1, p.2.map f)) = (search v secs).map fun p => (ren f p.1, p.2.map f)
  | [] => rfl
  | x :: xs => by
    by_cases h : v ≤ x.1.hash
    · simp [search, h]
    · simp [search, h, search_ren f v xs]

theorem getN_ren (f : Nat → Nat) (numEps : Nat) (secs : List (Sec × List Nat)) (v n : Nat) :
    getN numEps (secs.map fun p => (ren f p.1, p.2.map f)) v n = (getN numEps secs v n).map f := by
  unfold getN
  by_cases h : numEps ≤ n
  · simp [h, Get.map]
  · simp only [h, if_false, search_ren]
    cases hs : search v secs with
    | some s =>
      simp only [Option.map_some]
      cases hn : s.2[n]? with
      | some e => simp [hn, Get.map]
      | none => simp [hn, Get.map]
    | none =>
      cases secs with
      | nil => simp [Get.map]
      | cons a r =>
        simp only [Option.map_none, List.map_cons, List.head?_cons]
        cases hn : a.2[n]? with
        | some e => simp [hn, Get.map]
        | none => simp [hn, Get.map]

/-! ### the ring of a permuted endpoint list -/

/-- no two sections of the configuration have the same hash -/
def NoTies (eps : List Ep) : Prop := ((sectionsFrom 0 eps).map (·.hash)).Nodup

theorem nodup_of_map_nodup {α β : Type} {f : α → β} {l : List α} (h : (l.map f).Nodup) : l.Nodup := by
  induction l with
  | nil => simp
  | cons a l ih =>
    simp only [List.map_cons, List.nodup_cons, List.mem_map, not_exists, not_and] at h ⊢
    exact ⟨fun ha => h.1 a ha rfl, ih h.2⟩

theorem hash_inj_of_noTies {eps : List Ep} (h : NoTies eps) {s t : Sec}
    (hs : s ∈ sectionsFrom 0 eps) (ht : t ∈ sectionsFrom 0 eps) (he : s.hash = t.hash) : s = t := by
  have key : ∀ (l : List Sec), (l.map (·.hash)).Nodup → s ∈ l → t ∈ l → s = t := by
    intro l
    induction l with
    | nil => intro _ h; simp at h
    | cons a l ih =>
      intro hn hs' ht'
      simp only [List.map_cons, List.nodup_cons, List.mem_map, not_exists, not_and] at hn
      simp only [List.mem_cons] at hs' ht'
      rcases hs' with rfl | hs' <;> rcases ht' with rfl | ht'
      · rfl
      · exact absurd he.symm (hn.1 t ht')
      · exact absurd he (hn.1 s hs')
      · exact ih hn.2 hs' ht'
  exact key _ h hs ht

/-- sorted by hash, same elements, no equal hashes among them: the same list -/
theorem sorted_eq_of_mem_iff {l₁ l₂ : List Sec} (h1 : l₁.Pairwise (fun a b => hashLe a b = true))
    (h2 : l₂.Pairwise (fun a b => hashLe a b = true)) (n1 : l₁.Nodup) (n2 : l₂.Nodup)
    (hmem : ∀ s, s ∈ l₁ ↔ s ∈ l₂) (hinj : ∀ s ∈ l₁, ∀ t ∈ l₁, s.hash = t.hash → s = t) : l₁ = l₂ := by
  have hp : l₁.Perm l₂ := (List.perm_ext_iff_of_nodup n1 n2).mpr hmem
  apply List.Perm.eq_of_pairwise (le := fun a b => hashLe a b = true) _ h1 h2 hp
  intro a b ha hb hab hba
  simp only [hashLe, decide_eq_true_eq] at hab hba
  exact hinj a ha b ((hmem b).mpr hb) (by omega)

theorem pairwise_mkRing (eps : List Ep) : (mkRing eps).Pairwise (fun a b => hashLe a b = true) := by
  unfold mkRing
  exact List.pairwise_mergeSort (le := hashLe)
    (fun a b c h1 h2 => by simp only [hashLe, decide_eq_true_eq] at *; omega)
    (fun a b => by simp only [hashLe, Bool.or_eq_true, decide_eq_true_eq]; omega) (sectionsFrom 0 eps)

theorem nodup_mkRing {eps : List Ep} (h : NoTies eps) : (mkRing eps).Nodup := by
  unfold mkRing
  exact (List.mergeSort_perm _ _).nodup_iff.mpr (nodup_of_map_nodup h)

/-- `perm` lists, for every position of the new endpoint list, the position in the old one -/
def IsPermOf (perm : List Nat) (n : Nat) : Prop := perm.Perm (List.range n)

theorem permute_getElem? {α : Type} (xs : List α) (perm : List Nat) (h : IsPermOf perm xs.length) (j : Nat) :
    (permute xs perm)[j]? = (perm[j]?).bind (xs[·]?) := by
  have hall : ∀ i ∈ perm, i < xs.length := fun i hi => List.mem_range.mp (h.mem_iff.mp hi)
  unfold permute
  clear h
  induction perm generalizing j with
  | nil => simp
  | cons a p ih =>
    have ha : a < xs.length := hall a (by simp)
    have he : xs[a]? = some xs[a] := List.getElem?_eq_getElem ha
    simp only [List.filterMap_cons, he]
    cases j with
    | zero => simp [he]
    | succ j => simpa using ih j (fun i hi => hall i (by simp [hi]))

theorem length_permute {α : Type} (xs : List α) (perm : List Nat) (h : IsPermOf perm xs.length) :
    (permute xs perm).length = xs.length := by
  have hall : ∀ i ∈ perm, i < xs.length := fun i hi => List.mem_range.mp (h.mem_iff.mp hi)
  have hl : perm.length = xs.length := by simpa using h.length_eq
  rw [← hl]
  unfold permute
  clear h hl
  induction perm with
  | nil => simp
  | cons a p ih =>
    have ha : a < xs.length := hall a (by simp)
    have he : xs[a]? = some xs[a] := List.getElem?_eq_getElem ha
    simp only [List.filterMap_cons, he, List.length_cons]
    rw [ih (fun i hi => hall i (by simp [hi]))]

/-- the renaming induced by the reordering: new position ↦ old position -/
def permFun (perm : List Nat) (j : Nat) : Nat := (perm[j]?).getD 0

theorem injOn_permFun (eps : List Ep) (perm : List Nat) (h : IsPermOf perm eps.length) :
    InjOn (permFun perm) (mkRing (permute eps perm)) := by
  intro s hs t ht he
  obtain ⟨e, hse, _, _⟩ := mem_mkRing.mp hs
  obtain ⟨e', hte, _, _⟩ := mem_mkRing.mp ht
  have hlen := length_permute eps perm h
  have hl : perm.length = eps.length := by simpa using h.length_eq
  have hs' : s.ep < perm.length := by
    rcases Nat.lt_or_ge s.ep (permute eps perm).length with h' | h'
    · omega
    · rw [List.getElem?_eq_none h'] at hse; cases hse
  have ht' : t.ep < perm.length := by
    rcases Nat.lt_or_ge t.ep (permute eps perm).length with h' | h'
    · omega
    · rw [List.getElem?_eq_none h'] at hte; cases hte
  simp only [permFun, List.getElem?_eq_getElem hs', List.getElem?_eq_getElem ht', Option.getD_some] at he
  have hnd : perm.Nodup := h.nodup_iff.mpr List.nodup_range
  exact (List.getElem_inj hnd).mp he

theorem flatMap_congr' {α β : Type} {l : List α} {f g : α → List β} (h : ∀ a ∈ l, f a = g a) :
    l.flatMap f = l.flatMap g := by
  rw [List.flatMap_def, List.flatMap_def, List.map_congr_left h]

/-- the sections of the endpoint at position `i` -/
def blockAt (eps : List Ep) (i : Nat) : List Sec :=
  match eps[i]? with
  | some e => e.hashes.map fun h => { hash := h, ep := i, az := e.az }
  | none => []

theorem sectionsFrom_eq_flatMap : ∀ (eps : List Ep) (k : Nat),
    sectionsFrom k eps = (List.range eps.length).flatMap fun i =>
      match eps[i]? with
      | some e => e.hashes.map fun h => { hash := h, ep := k + i, az := e.az }
      | none => []
  | [], _ => by simp [sectionsFrom]
  | e :: es, k => by
    rw [sectionsFrom, sectionsFrom_eq_flatMap es (k + 1)]
    simp only [List.length_cons, List.range_succ_eq_map, List.flatMap_cons, List.flatMap_map]
    simp only [List.getElem?_cons_zero, Nat.add_zero]
    congr 1
    apply flatMap_congr'
    intro i _
    simp only [Function.comp_apply, List.getElem?_cons_succ]
    cases es[i]? with
    | none => rfl
    | some e' =>
      simp only
      apply List.map_congr_left
      intro h _
      simp only [Sec.mk.injEq, true_and, and_true]
      omega

theorem sectionsFrom_zero_eq (eps : List Ep) : sectionsFrom 0 eps = (List.range eps.length).flatMap (blockAt eps) := by
  rw [sectionsFrom_eq_flatMap]
  apply flatMap_congr'
  intro i _
  simp [blockAt]

/-- the sections of a reordered list, renamed back, are the blocks in the new order -/
theorem sectionsFrom_filterMap (eps : List Ep) : ∀ (p : List Nat) (k : Nat), (∀ i ∈ p, i < eps.length) →
    (sectionsFrom k (p.filterMap (eps[·]?))).map (ren fun j => (p[j - k]?).getD 0) = p.flatMap (blockAt eps)
  | [], _, _ => by simp [sectionsFrom]
  | a :: q, k, hall => by
    have ha : a < eps.length := hall a (by simp)
    have he : eps[a]? = some eps[a] := List.getElem?_eq_getElem ha
    have ih := sectionsFrom_filterMap eps q (k + 1) (fun i hi => hall i (by simp [hi]))
    simp only [List.filterMap_cons, he, sectionsFrom, List.map_append, List.flatMap_cons]
    congr 1
    · simp [blockAt, he, ren, Function.comp_def]
    · rw [← ih]
      apply List.map_congr_left
      intro s hs
      have := (sectionsFrom_ep' _ _ _ hs)
      have e : s.ep - k = (s.ep - (k + 1)) + 1 := by omega
      simp [ren, e]
where
  sectionsFrom_ep' : ∀ (eps : List Ep) (i : Nat) (s : Sec), s ∈ sectionsFrom i eps → i ≤ s.ep
    | [], _, _, h => by simp [sectionsFrom] at h
    | e :: es, i, s, h => by
      simp only [sectionsFrom, List.mem_append, List.mem_map] at h
      rcases h with ⟨_, _, rfl⟩ | h
      · simp
      · have := sectionsFrom_ep' es (i + 1) s h
        omega

/-- **the ring of the permuted list is the ring of the list, renamed** (no hash ties) -/
theorem mkRing_permute (eps : List Ep) (perm : List Nat) (h : IsPermOf perm eps.length) (hnt : NoTies eps) :
    (mkRing (permute eps perm)).map (ren (permFun perm)) = mkRing eps := by
  have hall : ∀ i ∈ perm, i < eps.length := fun i hi => List.mem_range.mp (h.mem_iff.mp hi)
  have hsec : ((sectionsFrom 0 (permute eps perm)).map (ren (permFun perm))).Perm (sectionsFrom 0 eps) := by
    have := sectionsFrom_filterMap eps perm 0 hall
    simp only [Nat.sub_zero] at this
    rw [show (fun j => (perm[j]?).getD 0) = permFun perm from rfl] at this
    rw [permute, this, sectionsFrom_zero_eq]
    exact List.Perm.flatMap_right _ h
  have hp : ((mkRing (permute eps perm)).map (ren (permFun perm))).Perm (mkRing eps) := by
    unfold mkRing
    exact (((List.mergeSort_perm _ _).map _).trans hsec).trans (List.mergeSort_perm _ _).symm
  have hp1 : ((mkRing (permute eps perm)).map (ren (permFun perm))).Pairwise (fun a b => hashLe a b = true) := by
    rw [List.pairwise_map]
    exact (pairwise_mkRing _).imp (fun h => h)
  apply List.Perm.eq_of_pairwise (le := fun a b => hashLe a b = true) _ hp1 (pairwise_mkRing eps) hp
  intro a b ha hb hab hba
  simp only [hashLe, decide_eq_true_eq] at hab hba
  exact hash_inj_of_noTies hnt (List.mem_mergeSort.mp (hp.mem_iff.mp ha)) (List.mem_mergeSort.mp hb) (by omega)

end Thanos.Hashring

namespace Thanos.Hashring

/-! ### removing one endpoint from the endpoint list (C20) -/

theorem range_filterMap_getElem? {α : Type} : ∀ (l : List α), (List.range l.length).filterMap (l[·]?) = l
  | [] => rfl
  | a :: l => by
    simp only [List.length_cons, List.range_succ_eq_map, List.filterMap_cons, List.getElem?_cons_zero,
      List.filterMap_map]
    congr 1
    have := range_filterMap_getElem? l
    simpa [Function.comp_def] using this

/-- the positions of an endpoint list without position `pos` -/
def others (n pos : Nat) : List Nat := (List.range n).filter (· != pos)

theorem eraseIdx_eq_filterMap {α : Type} : ∀ (l : List α) (pos : Nat),
    l.eraseIdx pos = (others l.length pos).filterMap (l[·]?)
  | [], _ => by simp [others]
  | a :: l, 0 => by
    have hf : others (l.length + 1) 0 = (List.range l.length).map Nat.succ := by
      simp only [others, List.range_succ_eq_map, List.filter_cons, List.filter_map]
      have : (List.range l.length).filter ((fun x => x != 0) ∘ Nat.succ) = List.range l.length := by
        rw [List.filter_eq_self]; intro k _; simp
      simp [this]
    simp only [List.eraseIdx_cons_zero, List.length_cons, hf, List.filterMap_map]
    have h := range_filterMap_getElem? l
    simpa [Function.comp_def] using h.symm
  | a :: l, pos + 1 => by
    have ih := eraseIdx_eq_filterMap l pos
    have hf : others (l.length + 1) (pos + 1) = 0 :: (others l.length pos).map Nat.succ := by
      simp only [others, List.range_succ_eq_map, List.filter_cons, List.filter_map]
      have : (List.range l.length).filter ((fun x => x != pos + 1) ∘ Nat.succ) = (List.range l.length).filter (fun x => x != pos) := by
        apply List.filter_congr; intro k _; simp
      simp [this]
    simp only [List.eraseIdx_cons_succ, List.length_cons, hf, List.filterMap_cons, List.getElem?_cons_zero,
      List.filterMap_map, ih]
    congr 1

theorem others_lt {n pos i : Nat} (h : i ∈ others n pos) : i < n ∧ i ≠ pos := by
  simp only [others, List.mem_filter, List.mem_range, bne_iff_ne, ne_eq] at h
  exact h

/-- old position ↦ position after the insertion at `pos` -/
def up (n pos : Nat) (j : Nat) : Nat := ((others n pos)[j]?).getD 0

theorem blockAt_ep {eps : List Ep} {i : Nat} {s : Sec} (h : s ∈ blockAt eps i) : s.ep = i := by
  unfold blockAt at h
  cases he : eps[i]? with
  | none => simp [he] at h
  | some e => simp only [he, List.mem_map] at h; obtain ⟨_, _, rfl⟩ := h; rfl

theorem filter_flatMap_blockAt (eps : List Ep) (pos : Nat) : ∀ (l : List Nat),
    (l.flatMap (blockAt eps)).filter (fun s => s.ep != pos) = (l.filter (· != pos)).flatMap (blockAt eps)
  | [] => rfl
  | i :: l => by
    simp only [List.flatMap_cons, List.filter_append, List.filter_cons]
    rw [filter_flatMap_blockAt eps pos l]
    by_cases h : i = pos
    · subst h
      have : (blockAt eps i).filter (fun s => s.ep != i) = [] := by
        rw [List.filter_eq_nil_iff]; intro s hs; simp [blockAt_ep hs]
      rw [this]; simp
    · have : (blockAt eps i).filter (fun s => s.ep != pos) = blockAt eps i := by
        rw [List.filter_eq_self]; intro s hs; simp [blockAt_ep hs, h]
      simp [this, h]

/-- the sections of the list without endpoint `pos`, in the numbering of the full list, are the
    sections of the full list without those of `pos` -/
theorem sectionsFrom_eraseIdx (eps : List Ep) (pos : Nat) :
    (sectionsFrom 0 (eps.eraseIdx pos)).map (ren (up eps.length pos)) = without pos (sectionsFrom 0 eps) := by
  rw [eraseIdx_eq_filterMap, sectionsFrom_zero_eq eps, without, filter_flatMap_blockAt]
  have := sectionsFrom_filterMap eps (others eps.length pos) 0 (fun i hi => (others_lt hi).1)
  simp only [Nat.sub_zero] at this
  exact this

theorem noTies_sublist_hash {l l' : List Sec} (h : (l.map (·.hash)).Nodup) (hs : l'.Sublist l) : (l'.map (·.hash)).Nodup :=
  h.sublist (hs.map _)

/-- **the ring before the addition is the ring after it without the new endpoint's sections**
    (in the numbering of the longer list; no hash ties) -/
theorem mkRing_eraseIdx (eps : List Ep) (pos : Nat) (hnt : NoTies eps) :
    (mkRing (eps.eraseIdx pos)).map (ren (up eps.length pos)) = without pos (mkRing eps) := by
  have hsec := sectionsFrom_eraseIdx eps pos
  have hp : ((mkRing (eps.eraseIdx pos)).map (ren (up eps.length pos))).Perm (without pos (mkRing eps)) := by
    unfold mkRing without
    have h1 := ((List.mergeSort_perm (sectionsFrom 0 (eps.eraseIdx pos)) hashLe).map (ren (up eps.length pos)))
    rw [hsec] at h1
    exact h1.trans ((List.mergeSort_perm (sectionsFrom 0 eps) hashLe).filter _).symm
  have hp1 : ((mkRing (eps.eraseIdx pos)).map (ren (up eps.length pos))).Pairwise (fun a b => hashLe a b = true) := by
    rw [List.pairwise_map]
    exact (pairwise_mkRing _).imp (fun h => h)
  have hp2 : (without pos (mkRing eps)).Pairwise (fun a b => hashLe a b = true) :=
    (pairwise_mkRing eps).filter _
  apply List.Perm.eq_of_pairwise (le := fun a b => hashLe a b = true) _ hp1 hp2 hp
  intro a b ha hb hab hba
  simp only [hashLe, decide_eq_true_eq] at hab hba
  have ha' : a ∈ sectionsFrom 0 eps := List.mem_mergeSort.mp (List.mem_filter.mp (hp.mem_iff.mp ha)).1
  have hb' : b ∈ sectionsFrom 0 eps := List.mem_mergeSort.mp (List.mem_filter.mp hb).1
  exact hash_inj_of_noTies hnt ha' hb' (by omega)

theorem up_inj (n pos : Nat) {i j : Nat} (hi : i < (others n pos).length) (hj : j < (others n pos).length)
    (h : up n pos i = up n pos j) : i = j := by
  have hnd : (others n pos).Nodup := (List.nodup_range).filter _
  simp only [up, List.getElem?_eq_getElem hi, List.getElem?_eq_getElem hj, Option.getD_some] at h
  exact (List.getElem_inj hnd).mp h

theorem searchSuffix_ren (f : Nat → Nat) (v : Nat) (ring : List Sec) :
    searchSuffix v (ring.map (ren f)) = (searchSuffix v ring).map (ren f) := by
  unfold searchSuffix
  have : (ring.map (ren f)).dropWhile (fun s => decide (s.hash < v)) =
      (ring.dropWhile (fun s => decide (s.hash < v))).map (ren f) := by
    induction ring with
    | nil => rfl
    | cons a r ih =>
      simp only [List.map_cons, List.dropWhile_cons, ren_hash]
      by_cases h : a.hash < v <;> simp [h, ih]
  rw [this]
  cases ring.dropWhile (fun s => decide (s.hash < v)) with
  | nil => rfl
  | cons a l => rfl

end Thanos.Hashring
