import Thanos.Lemmas.DownsampleCounter
import Thanos.Lemmas.DownsampleRaw
import Thanos.Lemmas.DownsampleCounterSeg
/-
  Helper lemmas for C37, level 1: the counter sub-chunk of downsampleFloatBatch holds, at every
  window timestamp, the reset-adjusted counter of the batch up to that timestamp.
-/
namespace Thanos.Downsample

/-- a sorted list split where everything left is `≤ t` and everything right is `> t` -/
theorem filter_le_split (l pre suf : List Pt) (t : Int) (h : l = pre ++ suf)
    (hpre : ∀ p ∈ pre, p.1 ≤ t) (hsuf : ∀ p ∈ suf, t < p.1) :
    l.filter (fun p => p.1 ≤ t) = pre := by
  rw [h, List.filter_append]
  have h1 : pre.filter (fun p => decide (p.1 ≤ t)) = pre :=
    List.filter_eq_self.mpr (fun p hp => by simpa using hpre p hp)
  have h2 : suf.filter (fun p => decide (p.1 ≤ t)) = [] :=
    List.filter_eq_nil_iff.mpr (fun p hp => by have := hsuf p hp; simp; omega)
  rw [h1, h2, List.append_nil]

/-- the samples of a batch up to the timestamp a run is emitted at are the runs up to it -/
theorem filter_runs_prefix (r : Int) (hr : 0 < r) (b : List Pt) (lastT : Int) (h0 : ∀ p ∈ b, minInt64 < p.1)
    (hs : Sorted b) (hle : ∀ p ∈ b, p.1 ≤ lastT)
    (A B : List (Int × List Pt)) (w : Int) (g : List Pt) (hruns : runs r b = A ++ (w, g) :: B) :
    b.filter (fun p => p.1 ≤ min w lastT) = (A ++ [(w, g)]).flatMap (·.2) := by
  have hs' : b.Pairwise (fun a b => a.1 ≤ b.1) := hs.imp (fun h => Int.le_of_lt h)
  have hflat := runs_flatten r b
  have hkeys := runs_keys_sorted r hr b hs'
  have hwin := runs_window r b
  have hgne : g ≠ [] := runs_ne_nil r b (w, g) (by rw [hruns]; simp)
  rw [hruns] at hflat hkeys
  have hsplit : b = (A ++ [(w, g)]).flatMap (·.2) ++ B.flatMap (·.2) := by
    rw [← hflat]; simp [List.flatMap_append]
  apply filter_le_split b _ _ _ hsplit
  · intro p hp
    obtain ⟨g', hg', hpg'⟩ := List.mem_flatMap.mp hp
    have hpb : p ∈ b := by rw [hsplit]; exact List.mem_append_left _ hp
    have hg'r : g' ∈ runs r b := by
      rw [hruns]
      rcases List.mem_append.mp hg' with h | h
      · exact List.mem_append_left _ h
      · simp at h; rw [h]; simp
    have hcw : currentWindow p.1 r = g'.1 := hwin g' hg'r p hpg'
    have hkey : g'.1 ≤ w := by
      rcases List.mem_append.mp hg' with h | h
      · have := (List.pairwise_append.mp hkeys).2.2 g' h (w, g) (by simp)
        exact Int.le_of_lt this
      · simp at h; rw [h]; exact Int.le_refl _
    have h1 := currentWindow_ge (t := p.1) hr
    have h2 := hle p hpb
    simp only [Int.min_def]; split <;> omega
  · intro p hp
    obtain ⟨g', hg', hpg'⟩ := List.mem_flatMap.mp hp
    have hpb : p ∈ b := by rw [hsplit]; exact List.mem_append_right _ hp
    have hg'r : g' ∈ runs r b := by rw [hruns]; exact List.mem_append_right _ (List.mem_cons_of_mem _ hg')
    have hcw : currentWindow p.1 r = g'.1 := hwin g' hg'r p hpg'
    have hkey : w < g'.1 := by
      have := (List.pairwise_append.mp hkeys).2.1
      exact (List.pairwise_cons.mp this).1 g' hg'
    -- some sample s of g precedes p in b
    obtain ⟨s, hsg⟩ : ∃ s, s ∈ g := by
      cases g with
      | nil => exact absurd rfl hgne
      | cons s _ => exact ⟨s, by simp⟩
    have hsw : currentWindow s.1 r = w := hwin (w, g) (by rw [hruns]; simp) s hsg
    have hsb : s ∈ (A ++ [(w, g)]).flatMap (·.2) := List.mem_flatMap.mpr ⟨(w, g), by simp, hsg⟩
    have hsp : s.1 < p.1 := by
      rw [hsplit] at hs
      exact (List.pairwise_append.mp hs).2.2 s hsb p hp
    have hgt := (gt_currentWindow_iff (Int.le_of_lt hsp) hr).mpr (by omega)
    simp only [Int.min_def]; split <;> omega

/-- the counter values `downsampleBatch` emits for a time-ordered batch: at the timestamp of
    every run, the reset-adjusted counter of the batch up to that timestamp -/
theorem specEmit_counter (r : Int) (hr : 0 < r) (b : List Pt) (lastT : Int) (h0 : ∀ p ∈ b, minInt64 < p.1)
    (hs : Sorted b) (hle : ∀ p ∈ b, p.1 ≤ lastT) :
    ∀ (gs A : List (Int × List Pt)), runs r b = A ++ gs →
      (specEmit lastT gs ((A.flatMap (·.2)).map (·.2))).map (fun e => (e.1, e.2.counter)) =
        gs.map (fun g => (min g.1 lastT, adjAt b (min g.1 lastT))) := by
  intro gs
  induction gs with
  | nil => intro A _; rfl
  | cons wg gs ih =>
    intro A hruns
    obtain ⟨w, g⟩ := wg
    have hgne : g ≠ [] := runs_ne_nil r b (w, g) (by rw [hruns]; simp)
    have hpre := filter_runs_prefix r hr b lastT h0 hs hle A gs w g hruns
    simp only [specEmit, List.map_cons]
    have hnext := ih (A ++ [(w, g)]) (by rw [hruns]; simp)
    have hhist : ((A ++ [(w, g)]).flatMap (·.2)).map (·.2) = (A.flatMap (·.2)).map (·.2) ++ g.map (·.2) := by
      simp [List.flatMap_append]
    rw [hhist] at hnext
    rw [hnext]
    congr 1
    congr 1
    rw [snap_counter _ _ (by
      intro hc
      have := (List.append_eq_nil_iff.mp hc).2
      exact hgne (List.map_eq_nil_iff.mp this))]
    simp only [adjAt, hpre, hhist]

/-- the emission timestamps of a batch: one per window run, `min(window end, last timestamp)` -/
def batchTs (r : Int) (b : List Pt) (lastT : Int) : List Int := (runs r b).map fun g => min g.1 lastT

/-- **the counter sub-chunk of downsampleFloatBatch** is `ctrChunk` of the batch: first raw
    sample, the reset-adjusted counter of the batch at every emission timestamp, last raw sample -/
theorem floatBatch_counter (r : Int) (hr : 0 < r) (b : List Pt) (lastT lv : Int)
    (hlast : b.getLast? = some (lastT, lv)) (h0 : ∀ p ∈ b, minInt64 < p.1) (hs : Sorted b) (c : Chunk)
    (hc : floatBatch b r = some c) :
    c.counter = ctrChunk b (batchTs r b lastT) ∧ c.count.map (·.1) = batchTs r b lastT := by
  have hs' : b.Pairwise (fun a b => a.1 ≤ b.1) := hs.imp (fun h => Int.le_of_lt h)
  have hle : ∀ p ∈ b, p.1 ≤ lastT := by
    obtain ⟨ys, rfl⟩ := List.getLast?_eq_some_iff.mp hlast
    intro p hp
    rw [List.pairwise_append] at hs'
    rcases List.mem_append.mp hp with h | h
    · exact hs'.2.2 p h (lastT, lv) (by simp)
    · simp at h; rw [h]; exact Int.le_refl _
  have hb := downsampleBatch_runs r hr b lastT lv hlast h0 hs'
  cases hh : b.head? with
  | none =>
    cases b with
    | nil => simp at hlast
    | cons _ _ => simp at hh
  | some first =>
    simp only [floatBatch, hh, hlast, hb, Option.some.injEq] at hc
    subst hc
    have hctr := specEmit_counter r hr b lastT h0 hs hle (runs r b) [] (by simp)
    simp only [List.flatMap_nil, List.map_nil] at hctr
    constructor
    · simp only [ctrChunk, hh, hlast, hctr, batchTs, List.map_map, Function.comp_def]
    · have : ∀ (gs : List (Int × List Pt)) (hist : List Int),
          (specEmit lastT gs hist).map (·.1) = gs.map (fun g => min g.1 lastT) := by
        intro gs
        induction gs with
        | nil => intro _; rfl
        | cons g gs ih => intro hist; obtain ⟨w, g⟩ := g; simp [specEmit, ih]
      simp only [List.map_map, Function.comp_def, batchTs]
      exact this _ _

/-- the adjusted counter at `t` does not depend on samples after `t` -/
theorem adjAt_append_later (l suf : List Pt) (t : Int) (h : ∀ p ∈ suf, t < p.1) :
    adjAt (l ++ suf) t = adjAt l t := by
  have : suf.filter (fun p => decide (p.1 ≤ t)) = [] :=
    List.filter_eq_nil_iff.mpr (fun p hp => by have := h p hp; simp; omega)
  simp [adjAt, List.filter_append, this]

end Thanos.Downsample
