import Thanos.Model.Hashring
import Thanos.Lemmas.Hashring
/-
  The replica loop with the zone rule off (at most one configured zone) is the specification
  `pick`: scan the sections from the cursor once around the ring and keep the first `rf` with
  pairwise different endpoints.  Plus the list lemmas about `pick` that C20 needs.
-/
namespace Thanos.Hashring

/-! ### `pick` -/

theorem pick_of_le {rf : Nat} {chosen : List Sec} (h : rf ≤ chosen.length) : ∀ l, pick rf l chosen = chosen
  | [] => rfl
  | _ :: _ => by simp [pick, h]

theorem prefix_pick (rf : Nat) : ∀ (l chosen : List Sec), chosen <+: pick rf l chosen
  | [], chosen => by simp [pick]
  | s :: l, chosen => by
    simp only [pick]
    split
    · exact List.prefix_refl _
    · split
      · exact prefix_pick rf l chosen
      · exact List.IsPrefix.trans (List.prefix_append chosen [s]) (prefix_pick rf l (chosen ++ [s]))

theorem pick_append (rf : Nat) : ∀ (l m chosen : List Sec),
    pick rf (l ++ m) chosen = pick rf m (pick rf l chosen)
  | [], m, chosen => by simp [pick]
  | s :: l, m, chosen => by
    simp only [List.cons_append, pick]
    split
    · rename_i h; exact (pick_of_le h m).symm
    · split
      · exact pick_append rf l m chosen
      · exact pick_append rf l m (chosen ++ [s])

theorem taken_of_prefix {c c' : List Sec} (h : c <+: c') {e : Nat} (ht : taken c e = true) : taken c' e = true := by
  obtain ⟨t, rfl⟩ := h
  simp only [taken, List.any_append, Bool.or_eq_true] at ht ⊢
  exact Or.inl ht

theorem length_le_of_prefix {c c' : List Sec} (h : c <+: c') : c.length ≤ c'.length := h.length_le

/-- after scanning `l`, every section of `l` has its endpoint among the chosen ones — or `rf` is reached -/
theorem pick_covers (rf : Nat) : ∀ (l chosen : List Sec), ∀ s ∈ l,
    rf ≤ (pick rf l chosen).length ∨ taken (pick rf l chosen) s.ep = true
  | [], _, s, h => by simp at h
  | a :: l, chosen, s, h => by
    simp only [pick]
    by_cases h1 : rf ≤ chosen.length
    · simp [h1]
    · simp only [h1, if_false]
      by_cases h2 : taken chosen a.ep = true
      · simp only [h2, if_true]
        simp only [List.mem_cons] at h
        rcases h with rfl | h
        · exact Or.inr (taken_of_prefix (prefix_pick rf l chosen) h2)
        · exact pick_covers rf l chosen s h
      · simp only [h2]
        simp only [List.mem_cons] at h
        rcases h with rfl | h
        · refine Or.inr (taken_of_prefix (prefix_pick rf l (chosen ++ [s])) ?_)
          simp [taken]
        · exact pick_covers rf l (chosen ++ [a]) s h

/-- scanning sections that are all covered changes nothing -/
theorem pick_of_covered (rf : Nat) : ∀ (m c : List Sec),
    (∀ s ∈ m, rf ≤ c.length ∨ taken c s.ep = true) → pick rf m c = c
  | [], _, _ => rfl
  | a :: m, c, h => by
    simp only [pick]
    split
    · rfl
    · rename_i h1
      have := h a (by simp)
      rcases this with h2 | h2
      · exact absurd h2 h1
      · simp only [h2, if_true]
        exact pick_of_covered rf m c (fun s hs => h s (by simp [hs]))

/-- a second lap adds nothing -/
theorem pick_twice (rf : Nat) (l m chosen : List Sec) (hm : ∀ s ∈ m, s ∈ l) :
    pick rf (l ++ m) chosen = pick rf l chosen := by
  rw [pick_append]
  exact pick_of_covered rf m _ (fun s hs => pick_covers rf l chosen s (hm s hs))

/-! ### the loop is `pick` when the zone rule is off -/

theorem skipAZ_single {zones : List Nat} (hz : zones.length ≤ 1) (chosen : List Sec) (rep : Sec) :
    skipAZ zones chosen rep = false := by
  have : ¬ zones.length > 1 := by omega
  simp [skipAZ, this]

/-- an answer of the repaired loop is also the answer of the unrepaired one (the lap check only
    ever turns "still running" into "stuck") -/
theorem loop_ok_unrepaired (ring : List Sec) (n : Nat) (zones : List Nat) (rf : Nat) :
    ∀ (fuel : Nat) (rest : List Sec) (skipped : Nat) (chosen : List Sec) (reps : List Nat),
      loop true ring n zones rf fuel rest skipped chosen = .ok reps →
      loop false ring n zones rf fuel rest skipped chosen = .ok reps := by
  intro fuel
  induction fuel with
  | zero => intro rest skipped chosen reps h; simp [loop] at h
  | succ fuel ih =>
    intro rest skipped chosen reps h
    unfold loop at h ⊢
    by_cases h1 : rf ≤ chosen.length
    · simpa [h1] using h
    · simp only [h1, if_false, Bool.false_and, Bool.false_eq_true] at h ⊢
      by_cases h2 : (true && skipped == n) = true
      · simp [h2] at h
      · simp only [h2, if_false] at h
        cases hc : cursor ring rest with
        | none => simp [hc] at h
        | some p =>
          obtain ⟨rep, rest'⟩ := p
          simp only [hc] at h ⊢
          by_cases ht : taken chosen rep.ep = true
          · simp only [ht, if_true] at h ⊢; exact ih _ _ _ _ h
          · simp only [ht] at h ⊢
            by_cases hs : skipAZ zones chosen rep = true
            · simp only [hs, if_true] at h ⊢; exact ih _ _ _ _ h
            · simp only [hs] at h ⊢; exact ih _ _ _ _ h

/-- With at most one configured zone, an answer of the loop from cursor `rest` is what `pick`
    selects from `rest` followed by one lap of the ring. -/
theorem loop_single_zone (ring : List Sec) (n : Nat) (zones : List Nat) (rf : Nat) (hz : zones.length ≤ 1) :
    ∀ (fuel : Nat) (rest : List Sec) (skipped : Nat) (chosen : List Sec) (reps : List Nat),
      (∀ s ∈ rest, s ∈ ring) →
      loop false ring n zones rf fuel rest skipped chosen = .ok reps →
      reps = (pick rf (rest ++ ring) chosen).map (·.ep) := by
  intro fuel
  induction fuel with
  | zero => intro rest skipped chosen reps _ h; simp [loop] at h
  | succ fuel ih =>
    intro rest skipped chosen reps hsub h
    unfold loop at h
    by_cases h1 : rf ≤ chosen.length
    · simp only [h1, if_true] at h
      injection h with h
      rw [pick_of_le h1]; exact h.symm
    · simp only [h1, if_false, Bool.false_and, Bool.false_eq_true] at h
      cases rest with
      | cons rep rest' =>
        simp only [cursor, skipAZ_single hz] at h
        have hsub' : ∀ s ∈ rest', s ∈ ring := fun s hs => hsub s (by simp [hs])
        simp only [List.cons_append, pick, h1, if_false]
        by_cases ht : taken chosen rep.ep = true
        · simp only [ht, if_true] at h ⊢; exact ih _ _ _ _ hsub' h
        · simp only [ht, Bool.false_eq_true, if_false] at h ⊢; exact ih _ _ _ _ hsub' h
      | nil =>
        cases hr : ring with
        | nil => simp [cursor, hr] at h
        | cons rep r =>
          simp only [cursor, hr, skipAZ_single hz] at h
          have hsub' : ∀ s ∈ r, s ∈ rep :: r := fun s hs => by simp [hs]
          simp only [List.nil_append, pick, h1, if_false]
          by_cases ht : taken chosen rep.ep = true
          · simp only [ht, if_true] at h ⊢
            have := ih r (skipped + 1) chosen reps (by rw [hr]; exact hsub') (by rw [hr]; exact h)
            rw [this, hr]
            -- pick (r ++ rep :: r) chosen = pick r chosen : `rep` is taken and `r` has been scanned
            have e : pick rf (r ++ rep :: r) chosen = pick rf r chosen := by
              rw [pick_append]
              apply pick_of_covered
              intro s hs
              simp only [List.mem_cons] at hs
              rcases hs with rfl | hs
              · exact Or.inr (taken_of_prefix (prefix_pick rf r chosen) ht)
              · exact pick_covers rf r chosen s hs
            rw [e]
          · simp only [ht, Bool.false_eq_true, if_false] at h ⊢
            have := ih r 0 (chosen ++ [rep]) reps (by rw [hr]; exact hsub') (by rw [hr]; exact h)
            rw [this, hr]
            have e : pick rf (r ++ rep :: r) (chosen ++ [rep]) = pick rf r (chosen ++ [rep]) := by
              rw [pick_append]
              apply pick_of_covered
              intro s hs
              simp only [List.mem_cons] at hs
              rcases hs with rfl | hs
              · refine Or.inr (taken_of_prefix (prefix_pick rf r (chosen ++ [s])) ?_)
                simp [taken]
              · exact pick_covers rf r (chosen ++ [rep]) s hs
            rw [e]

/-! ### removing the sections of one endpoint -/

/-- keep the sections that do not belong to endpoint `x` -/
def without (x : Nat) (l : List Sec) : List Sec := l.filter (fun s => s.ep != x)

theorem taken_without (x : Nat) (c : List Sec) {e : Nat} (he : e ≠ x) : taken (without x c) e = taken c e := by
  induction c with
  | nil => rfl
  | cons a c ih =>
    simp only [without, taken, List.filter_cons] at ih ⊢
    by_cases ha : a.ep = x
    · have hae : (a.ep == e) = false := by
        simp only [beq_eq_false_iff_ne, ne_eq]
        intro h; exact he (h ▸ ha)
      have hax : (a.ep != x) = false := by simp [ha]
      simp only [hax, Bool.false_eq_true, if_false, List.any_cons, hae, Bool.false_or]
      exact ih
    · have hax : (a.ep != x) = true := by simp [ha]
      simp only [hax, if_true, List.any_cons, ih]

theorem without_append (x : Nat) (a b : List Sec) : without x (a ++ b) = without x a ++ without x b := by
  simp [without]

theorem length_without_le (x : Nat) (c : List Sec) : (without x c).length ≤ c.length := by
  simp only [without]; exact List.length_filter_le _ _

/-- Scanning with the sections of `x` present picks, apart from `x` itself, a prefix of what is
    picked without them. -/
theorem pick_without_prefix (rf x : Nat) : ∀ (l c : List Sec),
    without x (pick rf l c) <+: pick rf (without x l) (without x c)
  | [], c => by simp [pick, without]
  | s :: l, c => by
    simp only [pick]
    by_cases h1 : rf ≤ c.length
    · simp only [h1, if_true]; exact prefix_pick rf _ _
    · simp only [h1, if_false]
      by_cases hx : s.ep = x
      · have e : without x (s :: l) = without x l := by simp [without, hx]
        rw [e]
        by_cases ht : taken c s.ep = true
        · simp only [ht, if_true]; exact pick_without_prefix rf x l c
        · simp only [ht]
          have := pick_without_prefix rf x l (c ++ [s])
          rw [without_append] at this
          simpa [without, hx] using this
      · have e : without x (s :: l) = s :: without x l := by simp [without, hx]
        rw [e]
        have h1' : ¬ rf ≤ (without x c).length := by
          have := length_without_le x c; omega
        simp only [pick, h1', if_false, taken_without x c hx]
        by_cases ht : taken c s.ep = true
        · simp only [ht, if_true]; exact pick_without_prefix rf x l c
        · simp only [ht]
          have := pick_without_prefix rf x l (c ++ [s])
          rw [without_append] at this
          simpa [without, hx] using this

/-- … and exactly the same when `x` is not picked. -/
theorem pick_without_eq (rf x : Nat) : ∀ (l c : List Sec),
    taken (pick rf l c) x = false → pick rf l c = pick rf (without x l) c
  | [], c, _ => by simp [pick, without]
  | s :: l, c, h => by
    simp only [pick] at h ⊢
    by_cases h1 : rf ≤ c.length
    · simp only [h1, if_true]; exact (pick_of_le h1 _).symm
    · simp only [h1, if_false] at h ⊢
      by_cases hx : s.ep = x
      · have e : without x (s :: l) = without x l := by simp [without, hx]
        rw [e]
        by_cases ht : taken c s.ep = true
        · simp only [ht, if_true] at h ⊢; exact pick_without_eq rf x l c h
        · simp only [ht, Bool.false_eq_true, if_false] at h
          -- `s` (an `x` section) is picked: contradiction
          have : taken (pick rf l (c ++ [s])) x = true := by
            refine taken_of_prefix (prefix_pick rf l (c ++ [s])) ?_
            simp [taken, hx]
          rw [this] at h; cases h
      · have e : without x (s :: l) = s :: without x l := by simp [without, hx]
        rw [e]
        simp only [pick, h1, if_false]
        by_cases ht : taken c s.ep = true
        · simp only [ht, if_true] at h ⊢; exact pick_without_eq rf x l c h
        · simp only [ht] at h ⊢; exact pick_without_eq rf x l (c ++ [s]) h

/-! ### search start and removal commute on a sorted ring -/

theorem dropWhile_eq_self {α : Type} {p : α → Bool} : ∀ {l : List α}, (∀ a ∈ l, p a = false) → l.dropWhile p = l
  | [], _ => rfl
  | a :: l, h => by simp [List.dropWhile, h a (by simp)]

/-- hashes never decrease along the ring -/
def SortedRing (ring : List Sec) : Prop := ring.Pairwise (fun a b => a.hash ≤ b.hash)

theorem dropWhile_without (x v : Nat) : ∀ {ring : List Sec}, SortedRing ring →
    without x (ring.dropWhile (fun s => decide (s.hash < v))) =
      (without x ring).dropWhile (fun s => decide (s.hash < v))
  | [], _ => by simp [without]
  | a :: t, hs => by
    have hs' : SortedRing t := (List.pairwise_cons.mp hs).2
    have ha : ∀ b ∈ t, a.hash ≤ b.hash := (List.pairwise_cons.mp hs).1
    by_cases hp : a.hash < v
    · have ih := dropWhile_without x v hs'
      by_cases hq : a.ep = x
      · simp [List.dropWhile, hp, without, hq] at ih ⊢; exact ih
      · simp [List.dropWhile, hp, without, hq] at ih ⊢; exact ih
    · -- nothing is dropped, on either side
      have hall : ∀ b ∈ a :: t, decide (b.hash < v) = false := by
        intro b hb
        simp only [List.mem_cons] at hb
        rcases hb with rfl | hb
        · simp [hp]
        · have := ha b hb; simp; omega
      rw [dropWhile_eq_self hall]
      symm
      apply dropWhile_eq_self
      intro b hb
      exact hall b (List.mem_filter.mp hb).1

theorem sortedRing_without (x : Nat) {ring : List Sec} (h : SortedRing ring) : SortedRing (without x ring) :=
  List.Pairwise.filter _ h

end Thanos.Hashring
