import Thanos.Model.Ring
/-
  The ring buffer is a bounded FIFO queue: simulation against a list.
-/
namespace Thanos.Ring

variable {α : Type}

/-- the ring `r` (with `m` slots) represents the queue `q` -/
structure Rep (r : Ring α) (m : Nat) (q : List α) : Prop where
  size : r.buf.length = m
  mpos : 0 < m
  head : r.head < m
  tail : r.tail = (r.head + q.length) % m
  len : q.length < m
  slots : ∀ k, (hk : k < q.length) → r.buf[(r.head + k) % m]? = some (some q[k])

theorem mod_ne {h k l m : Nat} (hk : k < l) (hl : l < m) : (h + k) % m ≠ (h + l) % m := by
  intro he
  have h1 : (h + l - (h + k)) % m = 0 := Nat.sub_mod_eq_zero_of_mod_eq he.symm
  have h2 : h + l - (h + k) = l - k := by omega
  rw [h2, Nat.mod_eq_of_lt (by omega)] at h1
  omega

theorem rep_new (n : Nat) : Rep (Ring.new n : Ring α) (n + 1) [] := by
  refine ⟨by simp [Ring.new], by omega, by simp [Ring.new], by simp [Ring.new], by simp, ?_⟩
  intro k hk; simp at hk

theorem rep_isEmpty {r : Ring α} {m : Nat} {q : List α} (h : Rep r m q) : r.isEmpty = true ↔ q = [] := by
  simp only [Ring.isEmpty, decide_eq_true_eq]
  constructor
  · intro he
    rw [h.tail] at he
    cases q with
    | nil => rfl
    | cons a t =>
      exfalso
      have := @mod_ne r.head 0 (a :: t).length m (by simp) h.len
      simp only [Nat.add_zero, Nat.mod_eq_of_lt h.head] at this
      exact this he
  · intro hq; subst hq; rw [h.tail]; simp [Nat.mod_eq_of_lt h.head]

theorem rep_isFull {r : Ring α} {m : Nat} {q : List α} (h : Rep r m q) : r.isFull = true ↔ q.length + 1 = m := by
  simp only [Ring.isFull, Ring.size, h.size, decide_eq_true_eq]
  rw [h.tail, Nat.mod_add_mod]
  constructor
  · intro he
    by_cases hlt : q.length + 1 < m
    · exfalso
      have := @mod_ne r.head 0 (q.length + 1) m (by omega) hlt
      simp only [Nat.add_zero, Nat.mod_eq_of_lt h.head] at this
      exact this (by rw [← Nat.add_assoc]; exact he.symm)
    · have := h.len; omega
  · intro hq
    have : r.head + q.length + 1 = r.head + m := by omega
    rw [this, Nat.add_mod_right, Nat.mod_eq_of_lt h.head]

/-- `append` on a non-full ring enqueues -/
theorem rep_append {r : Ring α} {m : Nat} {q : List α} (h : Rep r m q) (x : α) (hq : q.length + 1 < m) :
    ∃ r', r.append x = some r' ∧ Rep r' m (q ++ [x]) := by
  have hnf : r.isFull = false := by
    cases hf : r.isFull with
    | false => rfl
    | true => have := (rep_isFull h).mp hf; omega
  refine ⟨{ r with buf := r.buf.set r.tail (some x), tail := (r.tail + 1) % r.size }, by simp [Ring.append, hnf], ?_⟩
  have htl : r.tail < m := by rw [h.tail]; exact Nat.mod_lt _ h.mpos
  refine ⟨by simp [h.size], h.mpos, h.head, ?_, by simp; omega, ?_⟩
  · simp only [Ring.size, h.size, List.length_append, List.length_singleton]
    rw [h.tail, Nat.mod_add_mod, Nat.add_assoc]
  · intro k hk
    simp only [List.length_append, List.length_singleton] at hk
    by_cases hkl : k < q.length
    · have hne : r.tail ≠ (r.head + k) % m := by rw [h.tail]; exact (mod_ne hkl (by omega)).symm
      rw [List.getElem?_set_ne hne, h.slots k hkl]
      simp [List.getElem_append_left hkl]
    · have hkq : k = q.length := by omega
      subst hkq
      rw [← h.tail, List.getElem?_set_self (by rw [h.size]; exact htl)]
      simp

/-- `pop` on a non-empty ring dequeues the oldest element -/
theorem rep_pop {r : Ring α} {m : Nat} {x : α} {q : List α} (h : Rep r m (x :: q)) :
    r.pop.1 = some x ∧ Rep r.pop.2 m q := by
  have h0 := h.slots 0 (by simp)
  simp only [Nat.add_zero, Nat.mod_eq_of_lt h.head, List.getElem_cons_zero] at h0
  refine ⟨by simp [Ring.pop, h0], ?_⟩
  refine ⟨h.size, h.mpos, ?_, ?_, by have := h.len; simp at this; omega, ?_⟩
  · simp only [Ring.pop, Ring.size, h.size]; exact Nat.mod_lt _ h.mpos
  · simp only [Ring.pop, Ring.size, h.size]
    rw [h.tail, Nat.mod_add_mod]
    simp only [List.length_cons]
    congr 1; omega
  · intro k hk
    simp only [Ring.pop, Ring.size, h.size]
    rw [Nat.mod_add_mod]
    have := h.slots (k + 1) (by simp; omega)
    simp only [List.getElem_cons_succ] at this
    rw [show r.head + 1 + k = r.head + (k + 1) by omega]
    exact this

/-- the specification: a FIFO queue of capacity `cap` under the same scripts -/
def runQueue (cap : Nat) : List α → List (Op α) → List (Option α) × List α
  | q, [] => ([], q)
  | q, .app x :: ops => if q.length < cap then runQueue cap (q ++ [x]) ops else runQueue cap q ops
  | [], .pop :: ops => runQueue cap [] ops
  | x :: q, .pop :: ops =>
    let (vs, qf) := runQueue cap q ops
    (some x :: vs, qf)

theorem run_refines (m : Nat) : ∀ (ops : List (Op α)) (r : Ring α) (q : List α), Rep r m q →
    (run r ops).1 = (runQueue (m - 1) q ops).1 ∧ Rep (run r ops).2 m (runQueue (m - 1) q ops).2
  | [], r, q, h => ⟨rfl, h⟩
  | .app x :: ops, r, q, h => by
    unfold run runQueue
    by_cases hq : q.length + 1 < m
    · obtain ⟨r', hr', hrep⟩ := rep_append h x hq
      have : q.length < m - 1 := by omega
      simp only [hr', this, if_true]
      exact run_refines m ops r' _ hrep
    · have hfull : r.isFull = true := (rep_isFull h).mpr (by have := h.len; omega)
      have : ¬ q.length < m - 1 := by omega
      simp only [Ring.append, hfull, if_true, this, if_false]
      exact run_refines m ops r q h
  | .pop :: ops, r, q, h => by
    cases q with
    | nil =>
      have : r.isEmpty = true := (rep_isEmpty h).mpr rfl
      simp only [run, this, if_true, runQueue]
      exact run_refines m ops r [] h
    | cons x q =>
      have hne : r.isEmpty = false := by
        cases he : r.isEmpty with
        | false => rfl
        | true => have := (rep_isEmpty h).mp he; simp at this
      obtain ⟨hv, hrep⟩ := rep_pop h
      have ih := run_refines m ops r.pop.2 q hrep
      simp only [run, hne, Bool.false_eq_true, if_false, runQueue]
      generalize run r.pop.2 ops = rr at ih
      generalize runQueue (m - 1) q ops = qq at ih
      obtain ⟨vs, rf⟩ := rr
      obtain ⟨vs', qf⟩ := qq
      simp only at ih ⊢
      exact ⟨by rw [hv, ih.1], ih.2⟩

end Thanos.Ring
