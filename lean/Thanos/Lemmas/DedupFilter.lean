import Thanos.Model.DedupFilter
/-
  Helper lemmas for C31: `contains`, the insertion sort (a permutation, sorted, unique for
  distinct ULIDs), the invariant of `childLoop`.
-/
namespace Thanos.DedupFilter

theorem contains_iff (s1 s2 : List Nat) : contains s1 s2 = true ↔ ∀ a ∈ s2, a ∈ s1 := by
  simp [contains, List.all_eq_true]

/-- blocks of a listing have distinct ULIDs (they are keys of a Go map) -/
def DistinctIds (l : List Meta) : Prop := (l.map (·.id)).Nodup

theorem id_inj : ∀ {l : List Meta}, DistinctIds l → ∀ {a b : Meta}, a ∈ l → b ∈ l → a.id = b.id → a = b
  | [], _, _, _, ha, _, _ => by simp at ha
  | x :: l, h, a, b, ha, hb, e => by
    simp only [DistinctIds, List.map_cons, List.nodup_cons, List.mem_map, not_exists, not_and] at h
    rcases List.mem_cons.mp ha with rfl | ha' <;> rcases List.mem_cons.mp hb with rfl | hb'
    · rfl
    · exact absurd e.symm (h.1 b hb')
    · exact absurd e (h.1 a ha')
    · exact id_inj (l := l) h.2 ha' hb' e

-- ---------------------------------------------------------------- the sort

theorem insertMeta_perm (a : Meta) : ∀ l : List Meta, (insertMeta a l).Perm (a :: l)
  | [] => by simp [insertMeta]
  | b :: bs => by
    unfold insertMeta
    split
    · exact List.Perm.refl _
    · exact ((insertMeta_perm a bs).cons b).trans (List.Perm.swap a b bs)

theorem sortMetas_perm : ∀ l : List Meta, (sortMetas l).Perm l
  | [] => by simp [sortMetas]
  | a :: l => by
    have ih := sortMetas_perm l
    simp only [sortMetas, List.foldr_cons] at ih ⊢
    exact (insertMeta_perm a _).trans (ih.cons a)

theorem mem_sortMetas {l : List Meta} {m : Meta} : m ∈ sortMetas l ↔ m ∈ l :=
  (sortMetas_perm l).mem_iff

theorem distinct_perm {l l' : List Meta} (p : l.Perm l') (h : DistinctIds l) : DistinctIds l' :=
  by
  unfold DistinctIds at *
  exact (p.map (fun m : Meta => m.id)).nodup h

/-- the non-strict order of the comparator: `a` may stand before `b` -/
def le (a b : Meta) : Prop := less b a = false

theorem le_iff (a b : Meta) : le a b ↔
    (a.sources.length > b.sources.length ∨ (a.sources.length = b.sources.length ∧
      (a.level > b.level ∨ (a.level = b.level ∧
        (a.utime < b.utime ∨ (a.utime = b.utime ∧ a.uent ≤ b.uent)))))) := by
  unfold le less ulidLess
  split
  · rename_i h
    split
    · rename_i h2
      simp only [decide_eq_false_iff_not]
      omega
    · rename_i h2
      simp only [decide_eq_false_iff_not]
      omega
  · rename_i h
    simp only [decide_eq_false_iff_not]
    omega

theorem le_of_less {a b : Meta} (h : less a b = true) : le a b := by
  rw [le_iff]
  unfold less ulidLess at h
  split at h
  · split at h
    · simp only [decide_eq_true_eq] at h; omega
    · simp only [decide_eq_true_eq] at h; omega
  · simp only [decide_eq_true_eq] at h; omega

theorem le_trans {a b c : Meta} (h1 : le a b) (h2 : le b c) : le a c := by
  rw [le_iff] at *; omega

theorem sorted_insertMeta (a : Meta) : ∀ l : List Meta, l.Pairwise le → (insertMeta a l).Pairwise le
  | [], _ => by simp [insertMeta]
  | b :: bs, h => by
    unfold insertMeta
    split
    · rename_i hl
      refine List.Pairwise.cons ?_ h
      intro x hx
      rcases List.mem_cons.mp hx with rfl | hx'
      · exact le_of_less hl
      · exact le_trans (le_of_less hl) (List.rel_of_pairwise_cons h hx')
    · rename_i hl
      refine List.Pairwise.cons ?_ (sorted_insertMeta a bs h.tail)
      intro x hx
      rcases ((insertMeta_perm a bs).mem_iff).mp hx |> List.mem_cons.mp with rfl | hx'
      · simpa [le] using hl
      · exact List.rel_of_pairwise_cons h hx'

theorem sorted_sortMetas : ∀ l : List Meta, (sortMetas l).Pairwise le
  | [] => by simp [sortMetas]
  | a :: l => by
    have ih := sorted_sortMetas l
    simp only [sortMetas, List.foldr_cons] at ih ⊢
    exact sorted_insertMeta a _ ih

/-- distinct ULIDs differ in time or in entropy: the protocol number of a ULID is determined by
    its (time, entropy) pair -/
def KeyInj (l : List Meta) : Prop :=
  ∀ a ∈ l, ∀ b ∈ l, a.utime = b.utime → a.uent = b.uent → a.id = b.id

/-- On blocks with distinct ULIDs — ordered by (time, entropy), as `ULID.Compare` does — the
    comparator is a total order, so the sorted order is unique: any two listings of the same blocks
    sort to the same list (`sort.Slice` not being stable, and Go's map order, cannot matter). -/
theorem sort_unique {l l' : List Meta} (p : l.Perm l') (h : DistinctIds l) (hk : KeyInj l) :
    sortMetas l = sortMetas l' := by
  apply List.Perm.eq_of_pairwise (le := le) _ (sorted_sortMetas l) (sorted_sortMetas l')
    ((sortMetas_perm l).trans (p.trans (sortMetas_perm l').symm))
  intro a b ha hb h1 h2
  have ha' : a ∈ l := mem_sortMetas.mp ha
  have hb' : b ∈ l := p.mem_iff.mpr (mem_sortMetas.mp hb)
  apply id_inj h ha' hb'
  rw [le_iff] at h1 h2
  exact hk a ha' b hb' (by omega) (by omega)

-- ---------------------------------------------------------------- childLoop

theorem childLoop_spec : ∀ (l cov : List Meta) (dups : List Nat),
    (∀ p ∈ (childLoop l cov dups).1, p ∈ cov ∨ p ∈ l) ∧
    (∀ d ∈ (childLoop l cov dups).2, d ∈ dups ∨
        ∃ c ∈ l, c.id = d ∧ ∃ p ∈ (childLoop l cov dups).1, contains p.sources c.sources = true) ∧
    (∀ p ∈ cov, p ∈ (childLoop l cov dups).1) ∧
    (∀ c ∈ l, c ∈ (childLoop l cov dups).1 ∨ c.id ∈ (childLoop l cov dups).2) ∧
    (∀ d ∈ dups, d ∈ (childLoop l cov dups).2)
  | [], cov, dups => by simp [childLoop]
  | c :: rest, cov, dups => by
    unfold childLoop
    split
    · rename_i hany
      obtain ⟨h1, h2, h3, h4, h5⟩ := childLoop_spec rest cov (dups ++ [c.id])
      refine ⟨?_, ?_, h3, ?_, ?_⟩
      · intro p hp
        rcases h1 p hp with h | h
        · exact Or.inl h
        · exact Or.inr (List.mem_cons_of_mem _ h)
      · intro d hd
        rcases h2 d hd with h | ⟨c', hc', e, hp⟩
        · rcases List.mem_append.mp h with h | h
          · exact Or.inl h
          · simp only [List.mem_singleton] at h
            subst h
            obtain ⟨p, hp, hc⟩ := List.any_eq_true.mp hany
            exact Or.inr ⟨c, by simp, rfl, p, h3 p hp, hc⟩
        · exact Or.inr ⟨c', List.mem_cons_of_mem _ hc', e, hp⟩
      · intro c' hc'
        rcases List.mem_cons.mp hc' with rfl | h
        · exact Or.inr (h5 _ (by simp))
        · exact h4 c' h
      · intro d hd
        exact h5 d (List.mem_append_left _ hd)
    · obtain ⟨h1, h2, h3, h4, h5⟩ := childLoop_spec rest (cov ++ [c]) dups
      refine ⟨?_, ?_, ?_, ?_, h5⟩
      · intro p hp
        rcases h1 p hp with h | h
        · rcases List.mem_append.mp h with h | h
          · exact Or.inl h
          · simp only [List.mem_singleton] at h
            subst h
            exact Or.inr (by simp)
        · exact Or.inr (List.mem_cons_of_mem _ h)
      · intro d hd
        rcases h2 d hd with h | ⟨c', hc', e, hp⟩
        · exact Or.inl h
        · exact Or.inr ⟨c', List.mem_cons_of_mem _ hc', e, hp⟩
      · intro p hp
        exact h3 p (List.mem_append_left _ hp)
      · intro c' hc'
        rcases List.mem_cons.mp hc' with rfl | h
        · exact Or.inl (h3 _ (by simp))
        · exact h4 c' h

/-- ids of the covering set stay distinct from the duplicate ids -/
theorem childLoop_disjoint : ∀ (l cov : List Meta) (dups : List Nat),
    (cov.map (·.id) ++ l.map (·.id)).Nodup → (∀ d ∈ dups, d ∉ cov.map (·.id) ++ l.map (·.id)) →
    ∀ p ∈ (childLoop l cov dups).1, p.id ∉ (childLoop l cov dups).2
  | [], cov, dups, _, hd => by
    intro p hp hpd
    simp only [childLoop] at hp hpd
    exact hd p.id hpd (by simp; exact ⟨p, hp, rfl⟩)
  | c :: rest, cov, dups, hn, hd => by
    have hn' : (cov.map (·.id) ++ rest.map (·.id)).Nodup := by
      simp only [List.map_cons] at hn
      exact hn.sublist (List.Sublist.append_left (List.sublist_cons_self _ _) _)
    have hc : c.id ∉ cov.map (·.id) ++ rest.map (·.id) := by
      simp only [List.map_cons] at hn
      have := List.nodup_append.mp hn
      obtain ⟨_, h2, h3⟩ := this
      intro hmem
      rcases List.mem_append.mp hmem with h | h
      · exact h3 _ h _ (by simp) rfl
      · exact (List.nodup_cons.mp h2).1 h
    unfold childLoop
    split
    · apply childLoop_disjoint rest cov (dups ++ [c.id]) hn'
      intro d hdm
      rcases List.mem_append.mp hdm with h | h
      · intro hmem
        apply hd d h
        simp only [List.map_cons, List.mem_append, List.mem_cons] at hmem ⊢
        rcases hmem with h | h
        · exact Or.inl h
        · exact Or.inr (Or.inr h)
      · simp only [List.mem_singleton] at h
        subst h; exact hc
    · apply childLoop_disjoint rest (cov ++ [c]) dups
      · simpa [List.append_assoc] using hn
      · intro d hdm
        simpa [List.append_assoc] using hd d hdm

end Thanos.DedupFilter
