import Thanos.Model.ShuffleShard
import Thanos.Lemmas.Hashring
/-
  Helper lemmas for C21: `dedup`, the selection loop of one zone, the LRU cache.
-/

namespace Thanos.ShuffleShard
open Thanos.Hashring

theorem mem_scanFrom {secs : List Sec} {i : Nat} {s : Sec} : s ∈ scanFrom secs i ↔ s ∈ secs := by
  unfold scanFrom
  rw [List.mem_append]
  constructor
  · rintro (h | h)
    · exact List.mem_of_mem_drop h
    · exact List.mem_of_mem_take h
  · intro h
    have : s ∈ secs.take i ++ secs.drop i := by rw [List.take_append_drop]; exact h
    rw [List.mem_append] at this
    exact this.symm

/-- the nodes of the zone that are not selected yet -/
def free (secs : List Sec) (selected : List Nat) : List Nat :=
  (zoneNodes secs).filter (fun e => !selected.contains e)

theorem mem_free {secs : List Sec} {selected : List Nat} {e : Nat} :
    e ∈ free secs selected ↔ (∃ s ∈ secs, s.ep = e) ∧ e ∉ selected := by
  simp [free, zoneNodes, mem_dedup]

/-- one pick: a node of the zone that was free — whenever one exists, whatever the random position -/
theorem pickOne_spec (secs : List Sec) (selected : List Nat) (pos : Nat) :
    (free secs selected = [] ∧ pickOne secs selected pos = none) ∨
      ∃ e, pickOne secs selected pos = some e ∧ e ∈ free secs selected := by
  unfold pickOne
  cases h : (scanFrom secs (searchIdx pos secs)).find? (fun s => !selected.contains s.ep) with
  | none =>
    left
    refine ⟨?_, rfl⟩
    rw [List.eq_nil_iff_forall_not_mem]
    intro e he
    obtain ⟨⟨s, hs, rfl⟩, hn⟩ := mem_free.mp he
    rw [List.find?_eq_none] at h
    have := h s (mem_scanFrom.mpr hs)
    simp at this
    exact hn this
  | some s =>
    right
    refine ⟨s.ep, rfl, ?_⟩
    have hm := List.mem_of_find?_eq_some h
    have hp := List.find?_some h
    exact mem_free.mpr ⟨⟨s, mem_scanFrom.mp hm, rfl⟩, by simpa using hp⟩

theorem length_filter_ne_of_nodup {l : List Nat} (hn : l.Nodup) {e : Nat} (he : e ∈ l) :
    (l.filter (fun x => x != e)).length + 1 = l.length := by
  induction l with
  | nil => simp at he
  | cons a l ih =>
    rw [List.nodup_cons] at hn
    simp only [List.mem_cons] at he
    by_cases hae : a = e
    · subst hae
      have : l.filter (fun x => x != a) = l := by
        rw [List.filter_eq_self]
        intro x hx
        have : x ≠ a := fun h => hn.1 (h ▸ hx)
        simpa using this
      simp [this]
    · have he' : e ∈ l := by
        rcases he with h | h
        · exact absurd h.symm hae
        · exact h
      have := ih hn.2 he'
      simp [hae]
      omega

theorem free_append (secs : List Sec) (selected : List Nat) (e : Nat) :
    free secs (selected ++ [e]) = (free secs selected).filter (fun x => x != e) := by
  simp only [free, List.filter_filter]
  congr 1
  funext x
  simp only [List.contains_append, List.contains_cons, List.contains_nil, Bool.or_false, Bool.not_or]
  by_cases h : x = e <;> simp [h, Bool.and_comm, bne]

theorem nodup_free (secs : List Sec) (selected : List Nat) : (free secs selected).Nodup :=
  (nodup_dedup _).filter _

/-- **the selection loop of one zone.**  If at most as many positions are drawn as nodes are
    free, every draw selects a new node of the zone: the result extends `selected` by exactly
    `positions.length` pairwise distinct nodes of the zone — for ALL random positions. -/
theorem pickZone_spec (secs : List Sec) : ∀ (positions : List Nat) (selected : List Nat),
    selected.Nodup → positions.length ≤ (free secs selected).length →
    (pickZone secs positions selected).Nodup ∧
    (pickZone secs positions selected).length = selected.length + positions.length ∧
    selected <+: pickZone secs positions selected ∧
    ∀ e ∈ pickZone secs positions selected, e ∈ selected ∨ ∃ s ∈ secs, s.ep = e
  | [], selected, hn, _ => by
    refine ⟨by simpa [pickZone] using hn, by simp [pickZone], by simp [pickZone], fun e he => Or.inl (by simpa [pickZone] using he)⟩
  | pos :: rest, selected, hn, hlen => by
    simp only [pickZone]
    rcases pickOne_spec secs selected pos with ⟨hnil, _⟩ | ⟨e, he, hfree⟩
    · rw [hnil] at hlen; simp at hlen
    · simp only [he]
      obtain ⟨hsec, hnot⟩ := mem_free.mp hfree
      have hn' : (selected ++ [e]).Nodup := by
        rw [List.nodup_append]
        refine ⟨hn, by simp, ?_⟩
        intro a ha b hb
        simp at hb; subst hb
        intro hab; subst hab; exact hnot ha
      have hlen' : rest.length ≤ (free secs (selected ++ [e])).length := by
        rw [free_append]
        have := length_filter_ne_of_nodup (nodup_free secs selected) hfree
        simp only [List.length_cons] at hlen
        omega
      obtain ⟨r1, r2, r3, r4⟩ := pickZone_spec secs rest (selected ++ [e]) hn' hlen'
      refine ⟨r1, ?_, ?_, ?_⟩
      · rw [r2]; simp; omega
      · exact List.IsPrefix.trans (List.prefix_append selected [e]) r3
      · intro x hx
        rcases r4 x hx with h | h
        · rw [List.mem_append] at h
          rcases h with h | h
          · exact Or.inl h
          · simp at h; subst h; exact Or.inr hsec
        · exact Or.inr h

/-! ### LRU -/

theorem Lru.get_filter_ne {α : Type} (c : Lru α) (k' k : String) (v : α)
    (h : Lru.get (c.filter (·.1 != k')) k = some v) : Lru.get c k = some v := by
  induction c with
  | nil => simp [Lru.get] at h
  | cons a c ih =>
    obtain ⟨ka, va⟩ := a
    simp only [List.filter_cons] at h
    by_cases hk : ka = k'
    · have : ((ka, va).1 != k') = false := by simp [hk]
      simp only [this, Bool.false_eq_true, if_false] at h
      have hget := ih h
      -- the removed entry has key k'; if k = k' the filtered list cannot contain it
      by_cases hkk : ka = k
      · -- then k = k', and the filtered list has no entry with key k
        exfalso
        have : ∀ (c : Lru α), Lru.get (c.filter (·.1 != k')) k' = none := by
          intro c
          induction c with
          | nil => simp [Lru.get]
          | cons b c ihc =>
            obtain ⟨kb, vb⟩ := b
            simp only [List.filter_cons]
            by_cases hb : kb = k'
            · simp [hb, ihc]
            · have : ((kb, vb).1 != k') = true := by simp [hb]
              simp only [this, if_true, Lru.get, hb, if_false]
              exact ihc
        rw [← hkk, hk] at h
        rw [this c] at h
        cases h
      · simp only [Lru.get, hkk, if_false]; exact hget
    · have : ((ka, va).1 != k') = true := by simp [hk]
      simp only [this, if_true, Lru.get] at h ⊢
      by_cases hkk : ka = k
      · simpa [hkk] using h
      · simp only [hkk, if_false] at h ⊢; exact ih h

theorem Lru.get_take {α : Type} : ∀ (c : Lru α) (n : Nat) (k : String) (v : α),
    Lru.get (c.take n) k = some v → Lru.get c k = some v
  | [], _, _, _, h => by simp [Lru.get] at h
  | _ :: _, 0, _, _, h => by simp [Lru.get] at h
  | (ka, va) :: c, n + 1, k, v, h => by
    simp only [List.take_succ_cons, Lru.get] at h ⊢
    by_cases hk : ka = k
    · simpa [hk] using h
    · simp only [hk, if_false] at h ⊢; exact Lru.get_take c n k v h

end Thanos.ShuffleShard
