import Thanos.Model.ShuffleShard
import Thanos.Lemmas.Hashring
import Thanos.Lemmas.HashringPerm
/-
  Helper lemmas for C21: `dedup`, the selection loop of one zone, the LRU cache.
-/

namespace Thanos.ShuffleShard
open Thanos.Hashring

theorem mem_scanFrom {secs : List Sec} {i : Nat} {s : Sec} : s ∈ scanFrom secs i ↔ s ∈ secs := by
  unfold scanFrom
  rw [List.mem_append]
  constructor
  · rintro (h | h)
    · exact List.mem_of_mem_drop h
    · exact List.mem_of_mem_take h
  · intro h
    have : s ∈ secs.take i ++ secs.drop i := by rw [List.take_append_drop]; exact h
    rw [List.mem_append] at this
    exact this.symm

/-- the nodes of the zone that are not selected yet -/
def free (secs : List Sec) (selected : List Nat) : List Nat :=
  (zoneNodes secs).filter (fun e => !selected.contains e)

theorem mem_free {secs : List Sec} {selected : List Nat} {e : Nat} :
    e ∈ free secs selected ↔ (∃ s ∈ secs, s.ep = e) ∧ e ∉ selected := by
  simp [free, zoneNodes, mem_dedup]

/-- one pick: a node of the zone that was free — whenever one exists, whatever the random position -/
theorem pickOne_spec (secs : List Sec) (selected : List Nat) (pos : Nat) :
    (free secs selected = [] ∧ pickOne secs selected pos = none) ∨
      ∃ e, pickOne secs selected pos = some e ∧ e ∈ free secs selected := by
  unfold pickOne
  cases h : (scanFrom secs (searchIdx pos secs)).find? (fun s => !selected.contains s.ep) with
  | none =>
    left
    refine ⟨?_, rfl⟩
    rw [List.eq_nil_iff_forall_not_mem]
    intro e he
    obtain ⟨⟨s, hs, rfl⟩, hn⟩ := mem_free.mp he
    rw [List.find?_eq_none] at h
    have := h s (mem_scanFrom.mpr hs)
    simp at this
    exact hn this
  | some s =>
    right
    refine ⟨s.ep, rfl, ?_⟩
    have hm := List.mem_of_find?_eq_some h
    have hp := List.find?_some h
    exact mem_free.mpr ⟨⟨s, mem_scanFrom.mp hm, rfl⟩, by simpa using hp⟩

theorem length_filter_ne_of_nodup {l : List Nat} (hn : l.Nodup) {e : Nat} (he : e ∈ l) :
    (l.filter (fun x => x != e)).length + 1 = l.length := by
  induction l with
  | nil => simp at he
  | cons a l ih =>
    rw [List.nodup_cons] at hn
    simp only [List.mem_cons] at he
    by_cases hae : a = e
    · subst hae
      have : l.filter (fun x => x != a) = l := by
        rw [List.filter_eq_self]
        intro x hx
        have : x ≠ a := fun h => hn.1 (h ▸ hx)
        simpa using this
      simp [this]
    · have he' : e ∈ l := by
        rcases he with h | h
        · exact absurd h.symm hae
        · exact h
      have := ih hn.2 he'
      simp [hae]
      omega

theorem free_append (secs : List Sec) (selected : List Nat) (e : Nat) :
    free secs (selected ++ [e]) = (free secs selected).filter (fun x => x != e) := by
  simp only [free, List.filter_filter]
  congr 1
  funext x
  simp only [List.contains_append, List.contains_cons, List.contains_nil, Bool.or_false, Bool.not_or]
  by_cases h : x = e <;> simp [h, Bool.and_comm, bne]

theorem nodup_free (secs : List Sec) (selected : List Nat) : (free secs selected).Nodup :=
  (nodup_dedup _).filter _

/-- **the selection loop of one zone.**  If at most as many positions are drawn as nodes are
    free, every draw selects a new node of the zone: the result extends `selected` by exactly
    `positions.length` pairwise distinct nodes of the zone — for ALL random positions. -/
theorem pickZone_spec (secs : List Sec) : ∀ (positions : List Nat) (selected : List Nat),
    selected.Nodup → positions.length ≤ (free secs selected).length →
    (pickZone secs positions selected).Nodup ∧
    (pickZone secs positions selected).length = selected.length + positions.length ∧
    selected <+: pickZone secs positions selected ∧
    ∀ e ∈ pickZone secs positions selected, e ∈ selected ∨ ∃ s ∈ secs, s.ep = e
  | [], selected, hn, _ => by
    refine ⟨by simpa [pickZone] using hn, by simp [pickZone], by simp [pickZone], fun e he => Or.inl (by simpa [pickZone] using he)⟩
  | pos :: rest, selected, hn, hlen => by
    simp only [pickZone]
    rcases pickOne_spec secs selected pos with ⟨hnil, _⟩ | ⟨e, he, hfree⟩
    · rw [hnil] at hlen; simp at hlen
    · simp only [he]
      obtain ⟨hsec, hnot⟩ := mem_free.mp hfree
      have hn' : (selected ++ [e]).Nodup := by
        rw [List.nodup_append]
        refine ⟨hn, by simp, ?_⟩
        intro a ha b hb
        simp at hb; subst hb
        intro hab; subst hab; exact hnot ha
      have hlen' : rest.length ≤ (free secs (selected ++ [e])).length := by
        rw [free_append]
        have := length_filter_ne_of_nodup (nodup_free secs selected) hfree
        simp only [List.length_cons] at hlen
        omega
      obtain ⟨r1, r2, r3, r4⟩ := pickZone_spec secs rest (selected ++ [e]) hn' hlen'
      refine ⟨r1, ?_, ?_, ?_⟩
      · rw [r2]; simp; omega
      · exact List.IsPrefix.trans (List.prefix_append selected [e]) r3
      · intro x hx
        rcases r4 x hx with h | h
        · rw [List.mem_append] at h
          rcases h with h | h
          · exact Or.inl h
          · simp at h; subst h; exact Or.inr hsec
        · exact Or.inr h

/-! ### LRU -/

theorem Lru.get_filter_ne {α : Type} (c : Lru α) (k' k : String) (v : α)
    (h : Lru.get (c.filter (·.1 != k')) k = some v) : Lru.get c k = some v := by
  induction c with
  | nil => simp [Lru.get] at h
  | cons a c ih =>
    obtain ⟨ka, va⟩ := a
    simp only [List.filter_cons] at h
    by_cases hk : ka = k'
    · have : ((ka, va).1 != k') = false := by simp [hk]
      simp only [this, Bool.false_eq_true, if_false] at h
      have hget := ih h
      -- the removed entry has key k'; if k = k' the filtered list cannot contain it
      by_cases hkk : ka = k
      · -- then k = k', and the filtered list has no entry with key k
        exfalso
        have : ∀ (c : Lru α), Lru.get (c.filter (·.1 != k')) k' = none := by
          intro c
          induction c with
          | nil => simp [Lru.get]
          | cons b c ihc =>
            obtain ⟨kb, vb⟩ := b
            simp only [List.filter_cons]
            by_cases hb : kb = k'
            · simp [hb, ihc]
            · have : ((kb, vb).1 != k') = true := by simp [hb]
              simp only [this, if_true, Lru.get, hb, if_false]
              exact ihc
        rw [← hkk, hk] at h
        rw [this c] at h
        cases h
      · simp only [Lru.get, hkk, if_false]; exact hget
    · have : ((ka, va).1 != k') = true := by simp [hk]
      simp only [this, if_true, Lru.get] at h ⊢
      by_cases hkk : ka = k
      · simpa [hkk] using h
      · simp only [hkk, if_false] at h ⊢; exact ih h

theorem Lru.get_take {α : Type} : ∀ (c : Lru α) (n : Nat) (k : String) (v : α),
    Lru.get (c.take n) k = some v → Lru.get c k = some v
  | [], _, _, _, h => by simp [Lru.get] at h
  | _ :: _, 0, _, _, h => by simp [Lru.get] at h
  | (ka, va) :: c, n + 1, k, v, h => by
    simp only [List.take_succ_cons, Lru.get] at h ⊢
    by_cases hk : ka = k
    · simpa [hk] using h
    · simp only [hk, if_false] at h ⊢; exact Lru.get_take c n k v h

end Thanos.ShuffleShard

namespace Thanos.ShuffleShard
open Thanos.Hashring

/-! ### the selection commutes with a renaming of the endpoint indices

  (the base ring built from a reordered endpoint list is the renamed base ring — `mkRing_permute` —
  so the tenant's node set does not depend on the order of the configured endpoints) -/

/-- `f` is injective on the listed indices -/
def InjOnL (f : Nat → Nat) (d : List Nat) : Prop := ∀ a ∈ d, ∀ b ∈ d, f a = f b → a = b

theorem contains_map_inj {f : Nat → Nat} {d sel : List Nat} (hinj : InjOnL f d) (hs : ∀ a ∈ sel, a ∈ d)
    {e : Nat} (he : e ∈ d) : (sel.map f).contains (f e) = sel.contains e := by
  apply Bool.eq_iff_iff.mpr
  simp only [List.contains_iff_mem, List.mem_map]
  constructor
  · rintro ⟨a, ha, hfa⟩
    have := hinj a (hs a ha) e he hfa
    rw [← this]; exact ha
  · intro h; exact ⟨e, h, rfl⟩

theorem searchIdx_ren (f : Nat → Nat) (pos : Nat) (secs : List Sec) :
    searchIdx pos (secs.map (ren f)) = searchIdx pos secs := by
  unfold searchIdx
  have : (secs.map (ren f)).findIdx? (fun s => decide (pos ≤ s.hash)) = secs.findIdx? (fun s => decide (pos ≤ s.hash)) := by
    rw [List.findIdx?_map]; rfl
  rw [this]

theorem scanFrom_ren (f : Nat → Nat) (secs : List Sec) (i : Nat) :
    scanFrom (secs.map (ren f)) i = (scanFrom secs i).map (ren f) := by
  simp [scanFrom, List.map_drop, List.map_take]

theorem pickOne_ren {f : Nat → Nat} {d : List Nat} (hinj : InjOnL f d) (secs : List Sec) (sel : List Nat) (pos : Nat)
    (hsecs : ∀ s ∈ secs, s.ep ∈ d) (hsel : ∀ a ∈ sel, a ∈ d) :
    pickOne (secs.map (ren f)) (sel.map f) pos = (pickOne secs sel pos).map f := by
  unfold pickOne
  rw [searchIdx_ren, scanFrom_ren]
  have hscan : ∀ s ∈ scanFrom secs (searchIdx pos secs), s.ep ∈ d := fun s hs => hsecs s (mem_scanFrom.mp hs)
  generalize scanFrom secs (searchIdx pos secs) = l at hscan
  have key : (l.map (ren f)).find? (fun s => !(sel.map f).contains s.ep) =
      (l.find? (fun s => !sel.contains s.ep)).map (ren f) := by
    induction l with
    | nil => rfl
    | cons a l ih =>
      have ha : a.ep ∈ d := hscan a (by simp)
      have ih' := ih (fun s hs => hscan s (by simp [hs]))
      simp only [List.map_cons, List.find?_cons, ren_ep]
      rw [contains_map_inj hinj hsel ha]
      cases hcon : sel.contains a.ep with
      | true => simp only [Bool.not_true]; exact ih'
      | false => simp only [Bool.not_false, Option.map_some]
  rw [key]
  cases l.find? (fun s => !sel.contains s.ep) with
  | none => rfl
  | some s => rfl

theorem pickOne_mem_eps {secs : List Sec} {sel : List Nat} {pos e : Nat} (h : pickOne secs sel pos = some e) :
    ∃ s ∈ secs, s.ep = e := by
  unfold pickOne at h
  cases hf : (scanFrom secs (searchIdx pos secs)).find? (fun s => !sel.contains s.ep) with
  | none => rw [hf] at h; cases h
  | some s =>
    rw [hf] at h
    simp only [Option.map_some, Option.some.injEq] at h
    exact ⟨s, mem_scanFrom.mp (List.mem_of_find?_eq_some hf), h⟩

theorem pickZone_ren {f : Nat → Nat} {d : List Nat} (hinj : InjOnL f d) (secs : List Sec)
    (hsecs : ∀ s ∈ secs, s.ep ∈ d) : ∀ (positions : List Nat) (sel : List Nat), (∀ a ∈ sel, a ∈ d) →
    pickZone (secs.map (ren f)) positions (sel.map f) = (pickZone secs positions sel).map f
  | [], _, _ => rfl
  | pos :: rest, sel, hsel => by
    simp only [pickZone, pickOne_ren hinj secs sel pos hsecs hsel]
    cases hp : pickOne secs sel pos with
    | none => simp only [Option.map_none]; exact pickZone_ren hinj secs hsecs rest sel hsel
    | some e =>
      simp only [Option.map_some]
      obtain ⟨s, hs, rfl⟩ := pickOne_mem_eps hp
      have := pickZone_ren hinj secs hsecs rest (sel ++ [s.ep]) (by
        intro a ha
        rw [List.mem_append] at ha
        rcases ha with h | h
        · exact hsel a h
        · simp at h; subst h; exact hsecs s hs)
      simpa using this

theorem dedup_map_inj {f : Nat → Nat} {d : List Nat} (hinj : InjOnL f d) : ∀ (l : List Nat), (∀ a ∈ l, a ∈ d) →
    dedup (l.map f) = (dedup l).map f
  | [], _ => rfl
  | a :: l, h => by
    have ih := dedup_map_inj hinj l (fun b hb => h b (by simp [hb]))
    have hc : (l.map f).contains (f a) = l.contains a :=
      contains_map_inj hinj (fun b hb => h b (by simp [hb])) (h a (by simp))
    simp only [List.map_cons, dedup, hc]
    cases hl : l.contains a with
    | true => simp only [if_true]; exact ih
    | false => simp only [Bool.false_eq_true, if_false, List.map_cons, ih]

theorem zoneNodes_ren {f : Nat → Nat} {d : List Nat} (hinj : InjOnL f d) (secs : List Sec)
    (hsecs : ∀ s ∈ secs, s.ep ∈ d) : zoneNodes (secs.map (ren f)) = (zoneNodes secs).map f := by
  unfold zoneNodes
  have : (secs.map (ren f)).map (·.ep) = (secs.map (·.ep)).map f := by simp [Function.comp_def]
  rw [this]
  exact dedup_map_inj hinj _ (by
    intro a ha
    obtain ⟨s, hs, rfl⟩ := List.mem_map.mp ha
    exact hsecs s hs)

def Shard.map (f : Nat → Nat) : Shard → Shard
  | .nodes eps => .nodes (eps.map f)
  | .tooBig => .tooBig

theorem selectNodes_ren {f : Nat → Nat} {d : List Nat} (hinj : InjOnL f d) (take : Nat) (secsOf : Nat → List Sec)
    (positions : Nat → List Nat) (hsecs : ∀ z, ∀ s ∈ secsOf z, s.ep ∈ d) : ∀ (zones : List Nat),
    selectNodes take (fun z => (secsOf z).map (ren f)) positions zones = (selectNodes take secsOf positions zones).map f
  | [] => rfl
  | z :: zs => by
    have ih := selectNodes_ren hinj take secsOf positions hsecs zs
    simp only [selectNodes, zoneNodes_ren hinj (secsOf z) (hsecs z), List.length_map, ih]
    by_cases h : (zoneNodes (secsOf z)).length < take
    · simp [h, Shard.map]
    · simp only [h, if_false]
      cases hr : selectNodes take secsOf positions zs with
      | tooBig => simp [Shard.map]
      | nodes rest =>
        have := pickZone_ren hinj (secsOf z) (hsecs z) ((positions z).take take) [] (by simp)
        simp only [List.map_nil] at this
        simp [Shard.map, this]

/-- **the selection of a tenant's nodes commutes with a renaming of the endpoint indices** that is
    injective on the ring: same tenant, same positions, renamed ring ⇒ renamed node list. -/
theorem tenantShard_ren (f : Nat → Nat) (zoneAware : Bool) (ring : List Sec) (dflt : Nat) (ovs : List Override)
    (tenant : String) (positions : Nat → List Nat) (hinj : InjOnL f (ring.map (·.ep))) :
    tenantShard zoneAware (ring.map (ren f)) dflt ovs tenant positions =
      (tenantShard zoneAware ring dflt ovs tenant positions).map f := by
  have haz : (ring.map (ren f)).map (·.az) = ring.map (·.az) := by simp [Function.comp_def]
  unfold tenantShard
  cases zoneAware with
  | true =>
    simp only [if_true, haz]
    have hfil : ∀ z, (ring.map (ren f)).filter (fun s => s.az == z) = (ring.filter (fun s => s.az == z)).map (ren f) := by
      intro z; rw [List.filter_map]; rfl
    simp only [hfil]
    exact selectNodes_ren hinj _ (fun z => ring.filter (fun s => s.az == z)) positions
      (fun z s hs => List.mem_map.mpr ⟨s, (List.mem_filter.mp hs).1, rfl⟩) _
  | false =>
    simp only [Bool.false_eq_true, if_false]
    exact selectNodes_ren hinj _ (fun _ => ring) positions (fun _ s hs => List.mem_map.mpr ⟨s, hs, rfl⟩) [0]

end Thanos.ShuffleShard
