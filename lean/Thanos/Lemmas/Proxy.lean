import Thanos.Model.Merge
import Thanos.Lemmas.Chain
/-
  Helper lemmas for C03 / C06: what the stages of `proxySeriesWith` preserve (membership level):
  receivers, `sortWithoutLabels`, the deduplicator loop, the response loop, the batching server,
  the fan-out loop.
-/
namespace Thanos.Merge

/-- all a theorem of C06 needs of the k-way merge: it neither loses nor invents responses -/
def MergeMem (merge : List (List Frame) → List Frame) : Prop :=
  ∀ sets x, x ∈ merge sets ↔ ∃ s ∈ sets, x ∈ s

/-! ### receivers -/

theorem recvLoop_noBatch (ap : Bool) (st : Store) : ∀ (fs : List (Frame × Bool)) (i : Nat),
    ∀ f ∈ recvLoop ap st i fs, ∀ ss, f ≠ .batch ss
  | [], i, f, hf, ss => by
    unfold recvLoop failAt at hf
    split at hf
    · simp at hf; subst hf; simp
    · split at hf
      · simp at hf; subst hf; simp
      · simp at hf
  | (g, keep) :: rest, i, f, hf, ss => by
    unfold recvLoop at hf
    have ih := recvLoop_noBatch ap st rest (i + 1)
    cases hfa : failAt st i with
    | some w =>
      simp only [hfa, List.mem_singleton] at hf
      subst hf
      unfold failAt at hfa
      split at hfa
      · simp at hfa; subst hfa; simp
      · split at hfa
        · simp at hfa; subst hfa; simp
        · simp at hfa
    | none =>
      simp only [hfa] at hf
      cases g with
      | series s =>
        simp only at hf
        split at hf
        · exact ih f hf ss
        · simp only [List.mem_cons] at hf
          rcases hf with rfl | hf
          · simp
          · exact ih f hf ss
      | batch bs =>
        simp only [List.mem_append, List.mem_map] at hf
        rcases hf with ⟨s, _, rfl⟩ | hf
        · simp
        · exact ih f hf ss
      | warning m =>
        simp only [List.mem_cons] at hf
        rcases hf with rfl | hf
        · simp
        · exact ih f hf ss
      | hints m =>
        simp only [List.mem_cons] at hf
        rcases hf with rfl | hf
        · simp
        · exact ih f hf ss

/-- a scripted Recv failure inside (or right at the end of) the stream is reached and reported -/
theorem recvLoop_recvErr (ap : Bool) (st : Store) (k : Nat) (hf : st.failure = .recvErr k) :
    ∀ (fs : List (Frame × Bool)) (i : Nat), i ≤ k → k ≤ i + fs.length →
      .warning st.recvMsg ∈ recvLoop ap st i fs
  | [], i, h1, h2 => by
    have : k = i := by simp at h2; omega
    subst this
    simp [recvLoop, failAt, hf]
  | (g, keep) :: rest, i, h1, h2 => by
    unfold recvLoop
    by_cases hk : k = i
    · subst hk
      simp [failAt, hf]
    · have hnone : failAt st i = none := by
        simp only [failAt, hf]
        have : ¬ (Failure.recvErr k = Failure.hang i) := by simp
        have h2' : ¬ (Failure.recvErr k = Failure.recvErr i) := by simp [hk]
        simp [h2']
      have ih := recvLoop_recvErr ap st k hf rest (i + 1) (by omega) (by simp at h2; omega)
      simp only [hnone]
      cases g with
      | series s => simp only; split <;> simp [ih]
      | batch bs => simp [ih]
      | warning m => simp [ih]
      | hints m => simp [ih]

theorem recvLoop_hang (ap : Bool) (st : Store) (k : Nat) (hf : st.failure = .hang k) :
    ∀ (fs : List (Frame × Bool)) (i : Nat), i ≤ k → k ≤ i + fs.length →
      .warning st.timeoutMsg ∈ recvLoop ap st i fs
  | [], i, h1, h2 => by
    have : k = i := by simp at h2; omega
    subst this
    simp [recvLoop, failAt, hf]
  | (g, keep) :: rest, i, h1, h2 => by
    unfold recvLoop
    by_cases hk : k = i
    · subst hk
      simp [failAt, hf]
    · have hnone : failAt st i = none := by
        simp only [failAt, hf]
        have h2' : ¬ (Failure.hang k = Failure.hang i) := by simp [hk]
        simp [h2']
      have ih := recvLoop_hang ap st k hf rest (i + 1) (by omega) (by simp at h2; omega)
      simp only [hnone]
      cases g with
      | series s => simp only; split <;> simp [ih]
      | batch bs => simp [ih]
      | warning m => simp [ih]
      | hints m => simp [ih]

theorem insLoop_perm (x : Frame) : ∀ (pre passed : List Frame),
    (insLoop x pre passed).Perm (pre.reverse ++ x :: passed)
  | [], passed => by simp [insLoop]
  | p :: ps, passed => by
    unfold insLoop
    split
    · refine (insLoop_perm x ps (p :: passed)).trans ?_
      simp only [List.reverse_cons, List.append_assoc, List.singleton_append]
      apply List.Perm.append_left
      exact List.Perm.swap p x passed
    · exact List.Perm.refl _

theorem goInsertionSort_perm (fs : List Frame) : (goInsertionSort fs).Perm fs := by
  unfold goInsertionSort
  suffices h : ∀ (l pre : List Frame), (l.foldl (fun pre x => insLoop x pre.reverse []) pre).Perm (pre ++ l) by
    simpa using h fs []
  intro l
  induction l with
  | nil => intro pre; simp
  | cons x r ih =>
    intro pre
    simp only [List.foldl_cons]
    refine (ih _).trans ?_
    have := insLoop_perm x pre.reverse []
    simp only [List.reverse_reverse] at this
    have h2 : (pre ++ [x] ++ r).Perm (pre ++ x :: r) := by simp
    exact (List.Perm.append_right r this).trans h2

theorem mem_sortWithoutLabels_nonSeries (fs : List Frame) (names : List Bytes) (x : Frame)
    (hx : x ∈ fs) (hn : x.isSeries = false) : x ∈ sortWithoutLabels fs names := by
  unfold sortWithoutLabels
  rw [(goInsertionSort_perm _).mem_iff]
  simp only [List.mem_map]
  refine ⟨x, hx, ?_⟩
  cases x <;> simp_all [Frame.isSeries]

/-- whatever the retrieval strategy, the non-series responses of a store reach the merge -/
theorem mem_respSet_nonSeries (lazy sharded : Bool) (without : List Bytes) (st : Store) (x : Frame)
    (hx : x ∈ recvLoop (sharded && !st.supportsSharding) st 0 st.frames) (hn : x.isSeries = false) :
    x ∈ respSet lazy sharded without st := by
  unfold respSet
  simp only
  split
  · exact hx
  · exact mem_sortWithoutLabels_nonSeries _ _ x hx hn

theorem respSet_noBatch (lazy sharded : Bool) (without : List Bytes) (st : Store) :
    ∀ f ∈ respSet lazy sharded without st, ∀ ss, f ≠ .batch ss := by
  intro f hf ss
  unfold respSet at hf
  simp only at hf
  have hb := recvLoop_noBatch (sharded && !st.supportsSharding) st st.frames 0
  split at hf
  · exact hb f hf ss
  · unfold sortWithoutLabels at hf
    rw [(goInsertionSort_perm _).mem_iff] at hf
    simp only [List.mem_map] at hf
    obtain ⟨g, hg, rfl⟩ := hf
    cases g with
    | series s => simp only; split <;> (try split) <;> simp
    | batch bs => exact absurd rfl (hb _ hg bs)
    | warning m => simp
    | hints m => simp

/-- the series frames of a list in the order a client reads them -/
theorem seriesOf_append (a b : List Frame) : seriesOf (a ++ b) = seriesOf a ++ seriesOf b := by
  simp [seriesOf]

theorem seriesOf_nonSeries : ∀ (a : List Frame), (∀ x ∈ a, x.isSeries = false) → seriesOf a = []
  | [], _ => rfl
  | x :: r, h => by
    have hx := h x (by simp)
    have ih := seriesOf_nonSeries r (fun y hy => h y (List.mem_cons_of_mem _ hy))
    cases x with
    | series s => simp [Frame.isSeries] at hx
    | warning m => simpa [seriesOf] using ih
    | hints m => simpa [seriesOf] using ih
    | batch b => simpa [seriesOf] using ih

theorem mem_seriesOf {fs : List Frame} {s : Series} : s ∈ seriesOf fs ↔ Frame.series s ∈ fs := by
  simp only [seriesOf, List.mem_filterMap]
  constructor
  · rintro ⟨f, hf, h⟩
    cases f <;> simp at h
    subst h; exact hf
  · intro h
    exact ⟨_, h, rfl⟩

/-! ### the deduplicator loop -/

/-- non-series responses pass through the deduplicator -/
theorem dedupGo_nonSeries (fixed : Bool) : ∀ (fs : List Frame) (same : Option (Series × List Series))
    (pending : List Frame) (x : Frame),
    (x ∈ pending ∨ (x ∈ fs ∧ x.isSeries = false)) → x ∈ dedupGo fixed same pending fs
  | [], same, pending, x, h => by
    unfold dedupGo
    rcases h with h | h
    · exact List.mem_append_left _ h
    · simp at h
  | .series s :: rest, same, pending, x, h => by
    unfold dedupGo
    have hx : x ∈ pending ∨ (x ∈ rest ∧ x.isSeries = false) := by
      rcases h with h | ⟨h, hn⟩
      · exact Or.inl h
      · simp only [List.mem_cons] at h
        rcases h with rfl | h
        · simp [Frame.isSeries] at hn
        · exact Or.inr ⟨h, hn⟩
    cases same with
    | none => exact dedupGo_nonSeries fixed rest _ _ x hx
    | some p =>
      obtain ⟨f, r⟩ := p
      simp only
      split
      · exact dedupGo_nonSeries fixed rest _ _ x hx
      · rcases hx with hx | hx
        · exact List.mem_append_left _ hx
        · apply List.mem_append_right
          apply List.mem_cons_of_mem
          exact dedupGo_nonSeries fixed rest _ _ x (Or.inr hx)
  | .warning m :: rest, same, pending, x, h => by
    unfold dedupGo
    apply dedupGo_nonSeries fixed rest
    rcases h with h | ⟨h, hn⟩
    · exact Or.inl (List.mem_append_left _ h)
    · simp only [List.mem_cons] at h
      rcases h with rfl | h
      · exact Or.inl (by simp)
      · exact Or.inr ⟨h, hn⟩
  | .hints m :: rest, same, pending, x, h => by
    unfold dedupGo
    apply dedupGo_nonSeries fixed rest
    rcases h with h | ⟨h, hn⟩
    · exact Or.inl (List.mem_append_left _ h)
    · simp only [List.mem_cons] at h
      rcases h with rfl | h
      · exact Or.inl (by simp)
      · exact Or.inr ⟨h, hn⟩
  | .batch b :: rest, same, pending, x, h => by
    unfold dedupGo
    apply dedupGo_nonSeries fixed rest
    rcases h with h | ⟨h, hn⟩
    · exact Or.inl (List.mem_append_left _ h)
    · simp only [List.mem_cons] at h
      rcases h with rfl | h
      · exact Or.inl (by simp)
      · exact Or.inr ⟨h, hn⟩

/-- every series response ends up in exactly one emitted group: the deduplicator's output has a
    merged series built from a run `f :: r` that contains it, all of the run comparing equal to `f` -/
theorem dedupGo_series (fixed : Bool) : ∀ (fs : List Frame) (same : Option (Series × List Series))
    (pending : List Frame) (s : Series),
    (∀ f r, same = some (f, r) → ∀ x ∈ r, cmpLabels f.lbls x.lbls = .eq) →
    (s ∈ seriesOf fs ∨ ∃ f r, same = some (f, r) ∧ s ∈ f :: r) →
    ∃ f r, .series (chain fixed f r) ∈ dedupGo fixed same pending fs ∧ s ∈ f :: r ∧
      ∀ x ∈ r, cmpLabels f.lbls x.lbls = .eq
  | [], same, pending, s, hinv, h => by
    unfold dedupGo
    rcases h with h | ⟨f, r, hs, hm⟩
    · simp [seriesOf] at h
    · subst hs
      exact ⟨f, r, by simp, hm, hinv f r rfl⟩
  | .series t :: rest, same, pending, s, hinv, h => by
    unfold dedupGo
    cases same with
    | none =>
      simp only
      apply dedupGo_series fixed rest (some (t, [])) pending s
      · intro f r hfr x hx
        simp only [Option.some.injEq, Prod.mk.injEq] at hfr
        obtain ⟨_, rfl⟩ := hfr
        simp at hx
      · rcases h with h | ⟨f, r, hs, _⟩
        · simp only [seriesOf, List.filterMap_cons, List.mem_cons] at h
          rcases h with rfl | h
          · exact Or.inr ⟨s, [], rfl, by simp⟩
          · exact Or.inl h
        · simp at hs
    | some p =>
      obtain ⟨f, r⟩ := p
      simp only
      by_cases heq : cmpLabels f.lbls t.lbls = .eq
      · simp only [heq, if_true]
        apply dedupGo_series fixed rest (some (f, r ++ [t])) pending s
        · intro f' r' hfr x hx
          simp only [Option.some.injEq, Prod.mk.injEq] at hfr
          obtain ⟨rfl, rfl⟩ := hfr
          simp only [List.mem_append, List.mem_singleton] at hx
          rcases hx with hx | rfl
          · exact hinv f r rfl x hx
          · exact heq
        · rcases h with h | ⟨f', r', hs, hm⟩
          · simp only [seriesOf, List.filterMap_cons, List.mem_cons] at h
            rcases h with rfl | h
            · exact Or.inr ⟨f, r ++ [s], rfl, by simp⟩
            · exact Or.inl h
          · simp only [Option.some.injEq, Prod.mk.injEq] at hs
            obtain ⟨rfl, rfl⟩ := hs
            refine Or.inr ⟨f, r ++ [t], rfl, ?_⟩
            simp only [List.mem_cons, List.mem_append] at hm ⊢
            rcases hm with hm | hm
            · exact Or.inl hm
            · exact Or.inr (Or.inl hm)
      · simp only [heq, if_false]
        rcases h with h | ⟨f', r', hs, hm⟩
        · simp only [seriesOf, List.filterMap_cons, List.mem_cons] at h
          have key : s = t ∨ s ∈ seriesOf rest := h
          have := dedupGo_series fixed rest (some (t, [])) [] s
            (by
              intro f' r' hfr x hx
              simp only [Option.some.injEq, Prod.mk.injEq] at hfr
              obtain ⟨_, rfl⟩ := hfr
              simp at hx)
            (by
              rcases key with rfl | h'
              · exact Or.inr ⟨s, [], rfl, by simp⟩
              · exact Or.inl h')
          obtain ⟨f2, r2, hmem, hs2, hr2⟩ := this
          exact ⟨f2, r2, List.mem_append_right _ (List.mem_cons_of_mem _ hmem), hs2, hr2⟩
        · simp only [Option.some.injEq, Prod.mk.injEq] at hs
          obtain ⟨rfl, rfl⟩ := hs
          exact ⟨f, r, List.mem_append_right _ (by simp), hm, hinv f r rfl⟩
  | .warning m :: rest, same, pending, s, hinv, h => by
    unfold dedupGo
    apply dedupGo_series fixed rest same _ s hinv
    rcases h with h | h
    · left; simpa [seriesOf] using h
    · exact Or.inr h
  | .hints m :: rest, same, pending, s, hinv, h => by
    unfold dedupGo
    apply dedupGo_series fixed rest same _ s hinv
    rcases h with h | h
    · left; simpa [seriesOf] using h
    · exact Or.inr h
  | .batch b :: rest, same, pending, s, hinv, h => by
    unfold dedupGo
    apply dedupGo_series fixed rest same _ s hinv
    rcases h with h | h
    · left; simpa [seriesOf] using h
    · exact Or.inr h

theorem dedup_noBatch (fixed : Bool) : ∀ (fs : List Frame) (same : Option (Series × List Series)) (pending : List Frame),
    (∀ f ∈ fs, ∀ ss, f ≠ .batch ss) → (∀ f ∈ pending, ∀ ss, f ≠ .batch ss) →
    ∀ f ∈ dedupGo fixed same pending fs, ∀ ss, f ≠ .batch ss
  | [], same, pending, _, hp, f, hf, ss => by
    unfold dedupGo at hf
    simp only [List.mem_append] at hf
    rcases hf with hf | hf
    · exact hp f hf ss
    · cases same with
      | none => simp at hf
      | some p => simp at hf; subst hf; simp
  | .series s :: rest, same, pending, h, hp, f, hf, ss => by
    have h' : ∀ f ∈ rest, ∀ ss, f ≠ .batch ss := fun g hg => h g (List.mem_cons_of_mem _ hg)
    unfold dedupGo at hf
    cases same with
    | none => exact dedup_noBatch fixed rest _ _ h' hp f hf ss
    | some p =>
      obtain ⟨f0, r⟩ := p
      simp only at hf
      split at hf
      · exact dedup_noBatch fixed rest _ _ h' hp f hf ss
      · simp only [List.mem_append, List.mem_cons] at hf
        rcases hf with hf | rfl | hf
        · exact hp f hf ss
        · simp
        · exact dedup_noBatch fixed rest _ _ h' (by simp) f hf ss
  | .warning m :: rest, same, pending, h, hp, f, hf, ss => by
    have h' : ∀ f ∈ rest, ∀ ss, f ≠ .batch ss := fun g hg => h g (List.mem_cons_of_mem _ hg)
    unfold dedupGo at hf
    refine dedup_noBatch fixed rest _ _ h' ?_ f hf ss
    intro g hg
    simp only [List.mem_append, List.mem_singleton] at hg
    rcases hg with hg | rfl
    · exact hp g hg
    · simp
  | .hints m :: rest, same, pending, h, hp, f, hf, ss => by
    have h' : ∀ f ∈ rest, ∀ ss, f ≠ .batch ss := fun g hg => h g (List.mem_cons_of_mem _ hg)
    unfold dedupGo at hf
    refine dedup_noBatch fixed rest _ _ h' ?_ f hf ss
    intro g hg
    simp only [List.mem_append, List.mem_singleton] at hg
    rcases hg with hg | rfl
    · exact hp g hg
    · simp
  | .batch b :: rest, _, _, h, _, _, _, _ => absurd rfl (h (.batch b) (by simp) b)

/-! ### the response loop (no limit) -/

theorem respLoop_warn : ∀ (fs : List Frame) (i : Nat), respLoop 0 false i fs = (fs, .ok)
  | [], i => by simp [respLoop]
  | f :: rest, i => by
    unfold respLoop
    have ih := respLoop_warn rest (i + 1)
    cases f <;> simp [ih]

/-- under the abort strategy a (non-empty) warning anywhere in the merged stream ends the call
    with an error -/
theorem respLoop_abort : ∀ (fs : List Frame) (i : Nat),
    (∃ m, m ≠ [] ∧ Frame.warning m ∈ fs) → (respLoop 0 true i fs).2 = .aborted
  | [], i, h => by simp at h
  | f :: rest, i, h => by
    unfold respLoop
    simp only [Nat.lt_irrefl, decide_false, Bool.false_and, Bool.false_eq_true, if_false]
    obtain ⟨m, hm, hmem⟩ := h
    cases f with
    | warning w =>
      by_cases hw : w = []
      · subst hw
        simp only [List.isEmpty_nil, Bool.not_true, Bool.and_false, Bool.false_eq_true, if_false]
        simp only [List.mem_cons] at hmem
        rcases hmem with heq | hmem
        · simp at heq; exact absurd heq hm
        · have := respLoop_abort rest (i + 1) ⟨m, hm, hmem⟩
          simp [this]
      · have : w.isEmpty = false := by cases w <;> simp_all
        simp [this]
    | series s =>
      simp only [List.mem_cons] at hmem
      rcases hmem with heq | hmem
      · simp at heq
      · have := respLoop_abort rest (i + 1) ⟨m, hm, hmem⟩
        simp [this]
    | hints p =>
      simp only [List.mem_cons] at hmem
      rcases hmem with heq | hmem
      · simp at heq
      · have := respLoop_abort rest (i + 1) ⟨m, hm, hmem⟩
        simp [this]
    | batch b =>
      simp only [List.mem_cons] at hmem
      rcases hmem with heq | hmem
      · simp at heq
      · have := respLoop_abort rest (i + 1) ⟨m, hm, hmem⟩
        simp [this]

/-- … and without any warning the abort strategy succeeds and forwards everything -/
theorem respLoop_abort_clean : ∀ (fs : List Frame) (i : Nat),
    (∀ m, Frame.warning m ∈ fs → m = []) → respLoop 0 true i fs = (fs, .ok)
  | [], i, _ => by simp [respLoop]
  | f :: rest, i, h => by
    unfold respLoop
    have ih := respLoop_abort_clean rest (i + 1) (fun m hm => h m (List.mem_cons_of_mem _ hm))
    cases f with
    | warning w =>
      have := h w (by simp)
      subst this
      simp [ih]
    | series s => simp [ih]
    | hints p => simp [ih]
    | batch b => simp [ih]

/-! ### the batching server -/

theorem mem_rebatch_nonSeries (n : Nat) (flush : Bool) : ∀ (fs : List Frame) (pend : List Series) (x : Frame),
    x ∈ fs → x.isSeries = false → x ∈ rebatch n flush pend fs
  | [], _, x, h, _ => by simp at h
  | .series s :: rest, pend, x, h, hn => by
    simp only [List.mem_cons] at h
    rcases h with rfl | h
    · simp [Frame.isSeries] at hn
    · unfold rebatch
      simp only
      split
      · exact List.mem_cons_of_mem _ (mem_rebatch_nonSeries n flush rest [] x h hn)
      · exact mem_rebatch_nonSeries n flush rest _ x h hn
  | .warning m :: rest, pend, x, h, hn => by
    unfold rebatch
    simp only [List.mem_cons] at h
    apply List.mem_append_right
    rcases h with rfl | h
    · simp
    · exact List.mem_cons_of_mem _ (mem_rebatch_nonSeries n flush rest [] x h hn)
  | .hints m :: rest, pend, x, h, hn => by
    unfold rebatch
    simp only [List.mem_cons] at h
    apply List.mem_append_right
    rcases h with rfl | h
    · simp
    · exact List.mem_cons_of_mem _ (mem_rebatch_nonSeries n flush rest [] x h hn)
  | .batch b :: rest, pend, x, h, hn => by
    unfold rebatch
    simp only [List.mem_cons] at h
    apply List.mem_append_right
    rcases h with rfl | h
    · simp
    · exact List.mem_cons_of_mem _ (mem_rebatch_nonSeries n flush rest [] x h hn)

theorem mem_serverOut_nonSeries (b : Nat) (flush : Bool) (fs : List Frame) (x : Frame)
    (h : x ∈ fs) (hn : x.isSeries = false) : x ∈ serverOut b flush fs := by
  unfold serverOut
  split
  · exact h
  · exact mem_rebatch_nonSeries b flush fs [] x h hn

/-! ### the fan-out loop -/

theorem fanOut_warn (rq : Request) (hab : rq.abort = false) : ∀ (stores : List Store),
    (fanOut rq stores).2.2 = false ∧
    (∀ st ∈ stores, st.openErr = true → .warning st.openMsg ∈ (fanOut rq stores).1) ∧
    (∀ st ∈ stores, st.openErr = false → respSet rq.lazy rq.sharded rq.without st ∈ (fanOut rq stores).2.1) ∧
    (∀ x ∈ (fanOut rq stores).1, ∃ m, x = .warning m)
  | [] => by simp [fanOut]
  | st :: rest => by
    have ih := fanOut_warn rq hab rest
    unfold fanOut
    by_cases ho : st.openErr = true
    · simp only [ho, if_true, hab, Bool.false_eq_true, if_false]
      refine ⟨ih.1, ?_, ?_, ?_⟩
      · intro s hs hso
        simp only [List.mem_cons] at hs
        rcases hs with rfl | hs
        · simp
        · exact List.mem_cons_of_mem _ (ih.2.1 s hs hso)
      · intro s hs hso
        simp only [List.mem_cons] at hs
        rcases hs with rfl | hs
        · rw [ho] at hso; simp at hso
        · exact ih.2.2.1 s hs hso
      · intro x hx
        simp only [List.mem_cons] at hx
        rcases hx with rfl | hx
        · exact ⟨_, rfl⟩
        · exact ih.2.2.2 x hx
    · have ho' : st.openErr = false := by simpa using ho
      simp only [ho', Bool.false_eq_true, if_false]
      refine ⟨ih.1, ?_, ?_, ih.2.2.2⟩
      · intro s hs hso
        simp only [List.mem_cons] at hs
        rcases hs with rfl | hs
        · rw [ho'] at hso; simp at hso
        · exact ih.2.1 s hs hso
      · intro s hs hso
        simp only [List.mem_cons] at hs
        rcases hs with rfl | hs
        · simp
        · exact List.mem_cons_of_mem _ (ih.2.2.1 s hs hso)

theorem fanOut_sets_noBatch (rq : Request) : ∀ (stores : List Store),
    ∀ set ∈ (fanOut rq stores).2.1, ∀ f ∈ set, ∀ ss, f ≠ .batch ss
  | [], set, h => by simp [fanOut] at h
  | st :: rest, set, h => by
    have ih := fanOut_sets_noBatch rq rest
    unfold fanOut at h
    by_cases ho : st.openErr = true
    · simp only [ho, if_true] at h
      split at h
      · simp at h
      · exact ih set h
    · have ho' : st.openErr = false := by simpa using ho
      simp only [ho', Bool.false_eq_true, if_false, List.mem_cons] at h
      rcases h with rfl | h
      · exact respSet_noBatch _ _ _ st
      · exact ih set h

theorem fanOut_abort (rq : Request) (hab : rq.abort = true) : ∀ (stores : List Store),
    ((fanOut rq stores).2.2 = true ↔ ∃ st ∈ stores, st.openErr = true) ∧
    ((fanOut rq stores).2.2 = false →
      ∀ st ∈ stores, respSet rq.lazy rq.sharded rq.without st ∈ (fanOut rq stores).2.1)
  | [] => by simp [fanOut]
  | st :: rest => by
    have ih := fanOut_abort rq hab rest
    unfold fanOut
    by_cases ho : st.openErr = true
    · simp only [ho, if_true, hab]
      exact ⟨⟨fun _ => ⟨st, by simp, ho⟩, fun _ => trivial⟩, by simp⟩
    · have ho' : st.openErr = false := by simpa using ho
      simp only [ho', Bool.false_eq_true, if_false]
      constructor
      · rw [ih.1]
        constructor
        · rintro ⟨s, hs, hso⟩
          exact ⟨s, List.mem_cons_of_mem _ hs, hso⟩
        · rintro ⟨s, hs, hso⟩
          simp only [List.mem_cons] at hs
          rcases hs with rfl | hs
          · rw [ho'] at hso; simp at hso
          · exact ⟨s, hs, hso⟩
      · intro hf s hs
        simp only [List.mem_cons] at hs
        rcases hs with rfl | hs
        · simp
        · exact List.mem_cons_of_mem _ (ih.2 hf s hs)

theorem fanOut_sets_from (rq : Request) : ∀ (stores : List Store),
    ∀ set ∈ (fanOut rq stores).2.1, ∃ st ∈ stores, st.openErr = false ∧ set = respSet rq.lazy rq.sharded rq.without st
  | [], set, h => by simp [fanOut] at h
  | st :: rest, set, h => by
    have ih := fanOut_sets_from rq rest
    unfold fanOut at h
    by_cases ho : st.openErr = true
    · simp only [ho, if_true] at h
      split at h
      · simp at h
      · obtain ⟨s, hs, h1, h2⟩ := ih set h
        exact ⟨s, List.mem_cons_of_mem _ hs, h1, h2⟩
    · have ho' : st.openErr = false := by simpa using ho
      simp only [ho', Bool.false_eq_true, if_false, List.mem_cons] at h
      rcases h with rfl | h
      · exact ⟨st, by simp, ho', rfl⟩
      · obtain ⟨s, hs, h1, h2⟩ := ih set h
        exact ⟨s, List.mem_cons_of_mem _ hs, h1, h2⟩

/-- what `proxySeriesWith` returns under the warn strategy without a limit, spelled out -/
theorem proxy_warn_eq (merge : List (List Frame) → List Frame) (rq : Request) (stores : List Store)
    (hab : rq.abort = false) (hlim : rq.limit = 0) :
    (proxySeriesWith merge rq stores).1 =
      serverOut rq.batchSize true ((fanOut rq stores).1 ++
        (if rq.dedup then dedup rq.fixedDedup (merge (fanOut rq stores).2.1) else merge (fanOut rq stores).2.1)) := by
  unfold proxySeriesWith
  simp only [hab, Bool.and_false, Bool.false_eq_true, if_false]
  have hfo := fanOut_warn rq hab stores
  generalize fanOut rq stores = fo at hfo
  obtain ⟨ow, sets, failed⟩ := fo
  simp only at hfo ⊢
  rw [hfo.1]
  simp only [Bool.false_eq_true, if_false, hlim, respLoop_warn]

end Thanos.Merge
