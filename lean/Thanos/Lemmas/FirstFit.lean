import Thanos.Lemmas.ReadPath
/-
  C04: the first row of `overlapSplit` ("virtual replica 0") on chunks that are cuts of one
  time-sorted sequence `S`, sorted by start time, such that after every chunk end some chunk
  starts (which is what contiguous, per-replica disjoint cuts give): row 0 is gap-free and is `S`.
-/
namespace Thanos.Dedup

/-- does the chunk go to the end of this row? (`len == 0 || last.MaxTime < currMinTime`) -/
def fits (row : List RChunk) (c : RChunk) : Bool :=
  match row.getLast? with
  | none => true
  | some l => decide (l.maxt < c.mint)

def ffStep (row : List RChunk) (c : RChunk) : List RChunk := if fits row c then row ++ [c] else row

/-- the first row that first-fit builds -/
def greedy0 (cs : List RChunk) : List RChunk := cs.foldl ffStep []

def headRow (rows : List (List RChunk)) : List RChunk := rows.head?.getD []

theorem splitInsert_ne (c : RChunk) : ∀ (rows : List (List RChunk)), (∀ r ∈ rows, r ≠ []) →
    ∀ r ∈ splitInsert c rows, r ≠ [] := by
  intro rows
  induction rows with
  | nil => intro _ r hr; simp [splitInsert] at hr; subst hr; simp
  | cons row rest ih =>
    intro h r hr
    unfold splitInsert at hr
    split at hr
    · rcases List.mem_cons.mp hr with rfl | hr
      · simp
      · exact h r (by simp [hr])
    · split at hr
      · rcases List.mem_cons.mp hr with rfl | hr
        · simp
        · exact h r (by simp [hr])
      · rcases List.mem_cons.mp hr with rfl | hr
        · exact h _ (by simp)
        · exact ih (fun r' hr' => h r' (by simp [hr'])) r hr

theorem headRow_splitInsert (c : RChunk) (rows : List (List RChunk)) (h : ∀ r ∈ rows, r ≠ []) :
    headRow (splitInsert c rows) = ffStep (headRow rows) c := by
  cases rows with
  | nil => simp [splitInsert, headRow, ffStep, fits]
  | cons row rest =>
    have hr := h row (by simp)
    obtain ⟨l, hl⟩ : ∃ l, row.getLast? = some l := by
      cases hgl : row.getLast? with
      | none => exact absurd (List.getLast?_eq_none_iff.mp hgl) hr
      | some l => exact ⟨l, rfl⟩
    simp only [splitInsert, headRow, List.head?_cons, Option.getD_some, ffStep, fits, hl]
    by_cases hlt : l.maxt < c.mint <;> simp [hlt]

theorem headRow_overlapSplit (cs : List RChunk) : headRow (overlapSplit cs) = greedy0 cs := by
  unfold overlapSplit greedy0
  have key : ∀ (cs : List RChunk) (rows : List (List RChunk)), (∀ r ∈ rows, r ≠ []) →
      headRow (cs.foldl (fun rows c => splitInsert c rows) rows) = cs.foldl ffStep (headRow rows) := by
    intro cs
    induction cs with
    | nil => intro rows _; rfl
    | cons c cs ih =>
      intro rows h
      simp only [List.foldl_cons]
      rw [ih _ (splitInsert_ne c rows h), headRow_splitInsert c rows h]
  exact key cs [] (by simp)

/-! ### helper facts about cuts of a time-sorted sequence -/

theorem mint_of_cons {c : RChunk} {x : Sample} {r : List Sample} (h : c.samples = x :: r) :
    c.mint = x.t ∧ c.maxt = lastOf x r := by
  unfold RChunk.mint RChunk.maxt lastOf
  rw [h, getLast?_cons_getD]
  simp

theorem ssorted_append_lt {A B : List Sample} (h : SSorted (A ++ B)) :
    ∀ a ∈ A, ∀ b ∈ B, a.t < b.t := (List.pairwise_append.mp h).2.2

/-- every element of a sorted non-empty list is at most its last -/
theorem le_lastOf {x : Sample} {r : List Sample} (h : SSorted (x :: r)) : ∀ a ∈ x :: r, a.t ≤ lastOf x r := by
  intro a ha
  have hl : (x :: r).getLast? = some (r.getLast?.getD x) := getLast?_cons_getD r x
  exact (ssorted_bounds h rfl hl a ha).2

/-- a cut of `P ++ Q` that starts after everything in `P` is a cut of `Q` -/
theorem infix_right {P Q c : List Sample} {x : Sample} {r : List Sample} (hc : c = x :: r)
    (hinf : c <:+: P ++ Q) (hlt : ∀ a ∈ P, a.t < x.t) : c <:+: Q := by
  obtain ⟨s, t, hst⟩ := hinf
  -- P ++ Q = s ++ c ++ t
  have := List.append_eq_append_iff.mp (show P ++ Q = s ++ (c ++ t) by rw [← hst]; simp)
  rcases this with ⟨a', h1, h2⟩ | ⟨a', h1, h2⟩
  · -- s = P ++ a', Q = a' ++ c ++ t
    exact ⟨a', t, by rw [h2]; simp⟩
  · -- P = s ++ a', c ++ t = a' ++ Q
    cases a' with
    | nil =>
      simp at h1 h2
      exact ⟨[], t, by rw [← h2]; simp⟩
    | cons y a'' =>
      -- then x = y ∈ P, contradiction
      rw [hc] at h2
      simp at h2
      have hy : y ∈ P := by rw [h1]; simp
      have := hlt y hy
      rw [h2.1] at this
      omega

/-- in a sorted list `u ++ c ++ v` with `u ≠ []` the head of `u` is before the head of `c` -/
theorem head_lt_of_infix {u v : List Sample} {y x : Sample} {u' r : List Sample}
    (h : SSorted ((y :: u') ++ (x :: r) ++ v)) : y.t < x.t := by
  have : SSorted ((y :: u') ++ ((x :: r) ++ v)) := by simpa using h
  exact ssorted_append_lt this y (by simp) x (by simp)

/-- **Row 0 of first-fit is the whole sequence.**  `cs`: cuts of the time-sorted `S`, ordered by
    start time, such that wherever a chunk ends before the end of `S` (and at the very start)
    some chunk begins.  Then the first row `greedy0 cs` is gap-free and concatenates to `S`. -/
theorem ff_main (S : List Sample) (hS : SSorted S) (cs : List RChunk)
    (hcut : ∀ c ∈ cs, c.samples ≠ [] ∧ c.samples <:+: S)
    (hsorted : cs.Pairwise (fun a b => a.mint ≤ b.mint))
    (hsucc : ∀ P Q, S = P ++ Q → Q ≠ [] → (P = [] ∨ ∃ c ∈ cs, c.samples <:+ P) →
      ∃ d ∈ cs, d.samples ≠ [] ∧ d.samples <+: Q)
    (hne : cs ≠ []) :
    ∀ (rest done row : List RChunk) (P Q : List Sample), cs = done ++ rest → S = P ++ Q →
      row.flatMap (·.samples) = P →
      ((row = [] ∧ P = [] ∧ done = []) ∨
        ∃ l, row.getLast? = some l ∧ l ∈ cs ∧ l.samples <:+ P ∧ ∀ c ∈ done, c.mint ≤ l.maxt) →
      (rest.foldl ffStep row).flatMap (·.samples) = S := by
  intro rest
  induction rest with
  | nil =>
    intro done row P Q hcs hPQ hrow hinv
    simp only [List.foldl_nil, hrow]
    rcases hinv with ⟨_, _, hd⟩ | ⟨l, hl, hlcs, hlP, hdone⟩
    · exfalso; apply hne; rw [hcs, hd]; rfl
    · by_cases hQ : Q = []
      · rw [hPQ, hQ]; simp
      · exfalso
        obtain ⟨d, hd, hdne, hdQ⟩ := hsucc P Q hPQ hQ (Or.inr ⟨l, hlcs, hlP⟩)
        obtain ⟨y, r', hy⟩ : ∃ y r', d.samples = y :: r' := by
          cases hds : d.samples with
          | nil => exact absurd hds hdne
          | cons y r' => exact ⟨y, r', rfl⟩
        have hdm := (mint_of_cons hy).1
        have hdd : d ∈ done := by rw [hcs] at hd; simpa using hd
        have h1 := hdone d hdd
        -- l.maxt is the timestamp of an element of P, y is in Q
        obtain ⟨lx, lr, hlx⟩ : ∃ lx lr, l.samples = lx :: lr := by
          cases hls : l.samples with
          | nil => exact absurd hls (hcut l hlcs).1
          | cons lx lr => exact ⟨lx, lr, rfl⟩
        have hlm := (mint_of_cons hlx).2
        have hlast : (lx :: lr).getLast? = some (lr.getLast?.getD lx) := getLast?_cons_getD lr lx
        have hinP : (lr.getLast?.getD lx) ∈ P := hlP.subset (by rw [hlx]; exact List.mem_of_getLast? hlast)
        have hyQ : y ∈ Q := hdQ.subset (by rw [hy]; simp)
        have := ssorted_append_lt (by rw [← hPQ]; exact hS) _ hinP y hyQ
        unfold lastOf at hlm
        omega
  | cons c rest ih =>
    intro done row P Q hcs hPQ hrow hinv
    have hccs : c ∈ cs := by rw [hcs]; simp
    obtain ⟨hcne, hcinf⟩ := hcut c hccs
    obtain ⟨x, r, hx⟩ : ∃ x r, c.samples = x :: r := by
      cases hcs' : c.samples with
      | nil => exact absurd hcs' hcne
      | cons x r => exact ⟨x, r, rfl⟩
    obtain ⟨hcm, hcM⟩ := mint_of_cons hx
    have hcsorted : SSorted (x :: r) := by
      rw [← hx]; exact List.Pairwise.sublist hcinf.sublist hS
    have hcs' : cs = (done ++ [c]) ++ rest := by rw [hcs]; simp
    simp only [List.foldl_cons]
    by_cases hfit : fits row c = true
    · -- c is appended to row 0
      have hstep : ffStep row c = row ++ [c] := by simp [ffStep, hfit]
      rw [hstep]
      -- everything in P is before c
      have hPlt : ∀ a ∈ P, a.t < x.t := by
        rcases hinv with ⟨_, hP, _⟩ | ⟨l, hl, hlcs, hlP, _⟩
        · intro a ha; rw [hP] at ha; simp at ha
        · intro a ha
          simp only [fits, hl, decide_eq_true_eq] at hfit
          obtain ⟨lx, lr, hlx⟩ : ∃ lx lr, l.samples = lx :: lr := by
            cases hls : l.samples with
            | nil => exact absurd hls (hcut l hlcs).1
            | cons lx lr => exact ⟨lx, lr, rfl⟩
          have hlm := (mint_of_cons hlx).2
          -- a ≤ last of P = last of l.samples
          obtain ⟨p0, hp0⟩ := hlP
          have hPs : SSorted P := List.Pairwise.sublist (List.sublist_append_left P Q) (by rw [← hPQ]; exact hS)
          have : a.t ≤ lastOf lx lr := by
            rw [← hp0, hlx] at ha hPs
            rcases List.mem_append.mp ha with ha | ha
            · have hlast : (lx :: lr).getLast? = some (lr.getLast?.getD lx) := getLast?_cons_getD lr lx
              have := ssorted_append_lt hPs a ha _ (List.mem_of_getLast? hlast)
              unfold lastOf; omega
            · exact le_lastOf (List.Pairwise.sublist (List.sublist_append_right p0 _) hPs) a ha
          omega
      have hinQ : c.samples <:+: Q := infix_right hx (by rw [← hPQ]; exact hcinf) hPlt
      obtain ⟨u, v, huv⟩ := hinQ
      -- u = []
      have hu : u = [] := by
        cases u with
        | nil => rfl
        | cons y u' =>
          exfalso
          have hQne : Q ≠ [] := by rw [← huv]; simp
          have hbd : P = [] ∨ ∃ c' ∈ cs, c'.samples <:+ P := by
            rcases hinv with ⟨_, hP, _⟩ | ⟨l, _, hlcs, hlP, _⟩
            · exact Or.inl hP
            · exact Or.inr ⟨l, hlcs, hlP⟩
          obtain ⟨d, hd, hdne, hdQ⟩ := hsucc P Q hPQ hQne hbd
          obtain ⟨z, r', hz⟩ : ∃ z r', d.samples = z :: r' := by
            cases hds : d.samples with
            | nil => exact absurd hds hdne
            | cons z r' => exact ⟨z, r', rfl⟩
          have hdm := (mint_of_cons hz).1
          -- head of d is head of Q = y
          have hzy : z = y := by
            obtain ⟨t', ht'⟩ := hdQ
            rw [hz, ← huv] at ht'
            simp at ht'
            exact ht'.1
          -- y before x
          have hyx : y.t < x.t := by
            have hQs : SSorted Q := List.Pairwise.sublist (List.sublist_append_right P Q) (by rw [← hPQ]; exact hS)
            rw [← huv, hx] at hQs
            exact head_lt_of_infix (u := u') (v := v) hQs
          -- d is not processed, hence c.mint ≤ d.mint
          have hdnot : d ∉ done := by
            intro hdd
            rcases hinv with ⟨_, _, hd0⟩ | ⟨l, hl, hlcs, hlP, hdone⟩
            · rw [hd0] at hdd; simp at hdd
            · have h1 := hdone d hdd
              obtain ⟨lx, lr, hlx⟩ : ∃ lx lr, l.samples = lx :: lr := by
                cases hls : l.samples with
                | nil => exact absurd hls (hcut l hlcs).1
                | cons lx lr => exact ⟨lx, lr, rfl⟩
              have hlm := (mint_of_cons hlx).2
              have hlast : (lx :: lr).getLast? = some (lr.getLast?.getD lx) := getLast?_cons_getD lr lx
              have hinP : (lr.getLast?.getD lx) ∈ P := hlP.subset (by rw [hlx]; exact List.mem_of_getLast? hlast)
              have hyQ : y ∈ Q := by rw [← huv]; simp
              have := ssorted_append_lt (by rw [← hPQ]; exact hS) _ hinP y hyQ
              unfold lastOf at hlm
              rw [hzy] at hdm
              omega
          have hle : c.mint ≤ d.mint := by
            rw [hcs] at hd hsorted
            rcases List.mem_append.mp hd with hd | hd
            · exact absurd hd hdnot
            · rcases List.mem_cons.mp hd with rfl | hd
              · exact Int.le_refl _
              · exact (List.pairwise_cons.mp (List.pairwise_append.mp hsorted).2.1).1 d hd
          rw [hzy] at hdm
          omega
      subst hu
      simp only [List.nil_append] at huv
      apply ih (done ++ [c]) (row ++ [c]) (P ++ c.samples) v hcs'
      · rw [hPQ, ← huv]; simp
      · simp [List.flatMap_append, hrow]
      · right
        refine ⟨c, by simp, hccs, List.suffix_append _ _, ?_⟩
        intro c' hc'
        rcases List.mem_append.mp hc' with hc' | hc'
        · rcases hinv with ⟨_, _, hd0⟩ | ⟨l, hl, hlcs, hlP, hdone⟩
          · rw [hd0] at hc'; simp at hc'
          · have h1 := hdone c' hc'
            simp only [fits, hl, decide_eq_true_eq] at hfit
            have := le_lastOf hcsorted x (by simp)
            omega
        · simp at hc'; subst hc'
          have := le_lastOf hcsorted x (by simp)
          omega
    · -- c goes to another row
      have hstep : ffStep row c = row := by simp [ffStep, hfit]
      rw [hstep]
      apply ih (done ++ [c]) row P Q hcs' hPQ hrow
      rcases hinv with ⟨hr, _, _⟩ | ⟨l, hl, hlcs, hlP, hdone⟩
      · exfalso; apply hfit; rw [hr]; rfl
      · right
        refine ⟨l, hl, hlcs, hlP, ?_⟩
        intro c' hc'
        rcases List.mem_append.mp hc' with hc' | hc'
        · exact hdone c' hc'
        · simp at hc'; subst hc'
          simp only [fits, hl, decide_eq_true_eq] at hfit
          omega

/-- **Row 0 of first-fit, with an upper bound.**  As `ff_main`, but a following chunk is only
    required where the next sample is at or before `Mx` (chunks starting after `Mx` are not sent by
    the stores): row 0 is a gap-free prefix `P` of `S` and whatever of `S` follows it lies after `Mx`. -/
theorem ff_bounded (S : List Sample) (hS : SSorted S) (cs : List RChunk) (Mx : Int)
    (hmx : ∀ c ∈ cs, c.mint ≤ Mx)
    (hcut : ∀ c ∈ cs, c.samples ≠ [] ∧ c.samples <:+: S)
    (hsorted : cs.Pairwise (fun a b => a.mint ≤ b.mint))
    (hsucc : ∀ P Q g, S = P ++ Q → Q.head? = some g → g.t ≤ Mx → (P = [] ∨ ∃ c ∈ cs, c.samples <:+ P) →
      ∃ d ∈ cs, d.samples ≠ [] ∧ d.samples <+: Q)
    (hne : cs ≠ []) :
    ∀ (rest done row : List RChunk) (P Q : List Sample), cs = done ++ rest → S = P ++ Q →
      row.flatMap (·.samples) = P →
      ((row = [] ∧ P = [] ∧ done = []) ∨
        ∃ l, row.getLast? = some l ∧ l ∈ cs ∧ l.samples <:+ P ∧ ∀ c ∈ done, c.mint ≤ l.maxt) →
      ∃ P' Q', S = P' ++ Q' ∧ (rest.foldl ffStep row).flatMap (·.samples) = P' ∧
        ∀ g, Q'.head? = some g → Mx < g.t := by
  intro rest
  induction rest with
  | nil =>
    intro done row P Q hcs hPQ hrow hinv
    simp only [List.foldl_nil]
    refine ⟨P, Q, hPQ, hrow, ?_⟩
    intro g hg
    refine Classical.byContradiction fun hcon => ?_
    have hgM : g.t ≤ Mx := by omega
    rcases hinv with ⟨_, _, hd⟩ | ⟨l, hl, hlcs, hlP, hdone⟩
    · apply hne; rw [hcs, hd]; rfl
    · obtain ⟨d, hd, hdne, hdQ⟩ := hsucc P Q g hPQ hg hgM (Or.inr ⟨l, hlcs, hlP⟩)
      obtain ⟨y, r', hy⟩ : ∃ y r', d.samples = y :: r' := by
        cases hds : d.samples with
        | nil => exact absurd hds hdne
        | cons y r' => exact ⟨y, r', rfl⟩
      have hdm := (mint_of_cons hy).1
      have hdd : d ∈ done := by rw [hcs] at hd; simpa using hd
      have h1 := hdone d hdd
      obtain ⟨lx, lr, hlx⟩ : ∃ lx lr, l.samples = lx :: lr := by
        cases hls : l.samples with
        | nil => exact absurd hls (hcut l hlcs).1
        | cons lx lr => exact ⟨lx, lr, rfl⟩
      have hlm := (mint_of_cons hlx).2
      have hlast : (lx :: lr).getLast? = some (lr.getLast?.getD lx) := getLast?_cons_getD lr lx
      have hinP : (lr.getLast?.getD lx) ∈ P := hlP.subset (by rw [hlx]; exact List.mem_of_getLast? hlast)
      have hyQ : y ∈ Q := hdQ.subset (by rw [hy]; simp)
      have := ssorted_append_lt (by rw [← hPQ]; exact hS) _ hinP y hyQ
      unfold lastOf at hlm
      omega
  | cons c rest ih =>
    intro done row P Q hcs hPQ hrow hinv
    have hccs : c ∈ cs := by rw [hcs]; simp
    obtain ⟨hcne, hcinf⟩ := hcut c hccs
    obtain ⟨x, r, hx⟩ : ∃ x r, c.samples = x :: r := by
      cases hcs' : c.samples with
      | nil => exact absurd hcs' hcne
      | cons x r => exact ⟨x, r, rfl⟩
    obtain ⟨hcm, hcM⟩ := mint_of_cons hx
    have hcsorted : SSorted (x :: r) := by
      rw [← hx]; exact List.Pairwise.sublist hcinf.sublist hS
    have hcs' : cs = (done ++ [c]) ++ rest := by rw [hcs]; simp
    simp only [List.foldl_cons]
    by_cases hfit : fits row c = true
    · -- c is appended to row 0
      have hstep : ffStep row c = row ++ [c] := by simp [ffStep, hfit]
      rw [hstep]
      -- everything in P is before c
      have hPlt : ∀ a ∈ P, a.t < x.t := by
        rcases hinv with ⟨_, hP, _⟩ | ⟨l, hl, hlcs, hlP, _⟩
        · intro a ha; rw [hP] at ha; simp at ha
        · intro a ha
          simp only [fits, hl, decide_eq_true_eq] at hfit
          obtain ⟨lx, lr, hlx⟩ : ∃ lx lr, l.samples = lx :: lr := by
            cases hls : l.samples with
            | nil => exact absurd hls (hcut l hlcs).1
            | cons lx lr => exact ⟨lx, lr, rfl⟩
          have hlm := (mint_of_cons hlx).2
          -- a ≤ last of P = last of l.samples
          obtain ⟨p0, hp0⟩ := hlP
          have hPs : SSorted P := List.Pairwise.sublist (List.sublist_append_left P Q) (by rw [← hPQ]; exact hS)
          have : a.t ≤ lastOf lx lr := by
            rw [← hp0, hlx] at ha hPs
            rcases List.mem_append.mp ha with ha | ha
            · have hlast : (lx :: lr).getLast? = some (lr.getLast?.getD lx) := getLast?_cons_getD lr lx
              have := ssorted_append_lt hPs a ha _ (List.mem_of_getLast? hlast)
              unfold lastOf; omega
            · exact le_lastOf (List.Pairwise.sublist (List.sublist_append_right p0 _) hPs) a ha
          omega
      have hinQ : c.samples <:+: Q := infix_right hx (by rw [← hPQ]; exact hcinf) hPlt
      obtain ⟨u, v, huv⟩ := hinQ
      -- u = []
      have hu : u = [] := by
        cases u with
        | nil => rfl
        | cons y u' =>
          exfalso
          have hQhead : Q.head? = some y := by rw [← huv]; rfl
          have hbd : P = [] ∨ ∃ c' ∈ cs, c'.samples <:+ P := by
            rcases hinv with ⟨_, hP, _⟩ | ⟨l, _, hlcs, hlP, _⟩
            · exact Or.inl hP
            · exact Or.inr ⟨l, hlcs, hlP⟩
          have hyx0 : y.t < x.t := by
            have hQs : SSorted Q := List.Pairwise.sublist (List.sublist_append_right P Q) (by rw [← hPQ]; exact hS)
            rw [← huv, hx] at hQs
            exact head_lt_of_infix (u := u') (v := v) hQs
          have hyM : y.t ≤ Mx := by have := hmx c hccs; omega
          obtain ⟨d, hd, hdne, hdQ⟩ := hsucc P Q y hPQ hQhead hyM hbd
          obtain ⟨z, r', hz⟩ : ∃ z r', d.samples = z :: r' := by
            cases hds : d.samples with
            | nil => exact absurd hds hdne
            | cons z r' => exact ⟨z, r', rfl⟩
          have hdm := (mint_of_cons hz).1
          -- head of d is head of Q = y
          have hzy : z = y := by
            obtain ⟨t', ht'⟩ := hdQ
            rw [hz, ← huv] at ht'
            simp at ht'
            exact ht'.1
          -- y before x
          have hyx : y.t < x.t := by
            have hQs : SSorted Q := List.Pairwise.sublist (List.sublist_append_right P Q) (by rw [← hPQ]; exact hS)
            rw [← huv, hx] at hQs
            exact head_lt_of_infix (u := u') (v := v) hQs
          -- d is not processed, hence c.mint ≤ d.mint
          have hdnot : d ∉ done := by
            intro hdd
            rcases hinv with ⟨_, _, hd0⟩ | ⟨l, hl, hlcs, hlP, hdone⟩
            · rw [hd0] at hdd; simp at hdd
            · have h1 := hdone d hdd
              obtain ⟨lx, lr, hlx⟩ : ∃ lx lr, l.samples = lx :: lr := by
                cases hls : l.samples with
                | nil => exact absurd hls (hcut l hlcs).1
                | cons lx lr => exact ⟨lx, lr, rfl⟩
              have hlm := (mint_of_cons hlx).2
              have hlast : (lx :: lr).getLast? = some (lr.getLast?.getD lx) := getLast?_cons_getD lr lx
              have hinP : (lr.getLast?.getD lx) ∈ P := hlP.subset (by rw [hlx]; exact List.mem_of_getLast? hlast)
              have hyQ : y ∈ Q := by rw [← huv]; simp
              have := ssorted_append_lt (by rw [← hPQ]; exact hS) _ hinP y hyQ
              unfold lastOf at hlm
              rw [hzy] at hdm
              omega
          have hle : c.mint ≤ d.mint := by
            rw [hcs] at hd hsorted
            rcases List.mem_append.mp hd with hd | hd
            · exact absurd hd hdnot
            · rcases List.mem_cons.mp hd with rfl | hd
              · exact Int.le_refl _
              · exact (List.pairwise_cons.mp (List.pairwise_append.mp hsorted).2.1).1 d hd
          rw [hzy] at hdm
          omega
      subst hu
      simp only [List.nil_append] at huv
      apply ih (done ++ [c]) (row ++ [c]) (P ++ c.samples) v hcs'
      · rw [hPQ, ← huv]; simp
      · simp [List.flatMap_append, hrow]
      · right
        refine ⟨c, by simp, hccs, List.suffix_append _ _, ?_⟩
        intro c' hc'
        rcases List.mem_append.mp hc' with hc' | hc'
        · rcases hinv with ⟨_, _, hd0⟩ | ⟨l, hl, hlcs, hlP, hdone⟩
          · rw [hd0] at hc'; simp at hc'
          · have h1 := hdone c' hc'
            simp only [fits, hl, decide_eq_true_eq] at hfit
            have := le_lastOf hcsorted x (by simp)
            omega
        · simp at hc'; subst hc'
          have := le_lastOf hcsorted x (by simp)
          omega
    · -- c goes to another row
      have hstep : ffStep row c = row := by simp [ffStep, hfit]
      rw [hstep]
      apply ih (done ++ [c]) row P Q hcs' hPQ hrow
      rcases hinv with ⟨hr, _, _⟩ | ⟨l, hl, hlcs, hlP, hdone⟩
      · exfalso; apply hfit; rw [hr]; rfl
      · right
        refine ⟨l, hl, hlcs, hlP, ?_⟩
        intro c' hc'
        rcases List.mem_append.mp hc' with hc' | hc'
        · exact hdone c' hc'
        · simp at hc'; subst hc'
          simp only [fits, hl, decide_eq_true_eq] at hfit
          omega

/-- the bounded statement for the first row of `overlapSplit` -/
theorem firstFit_row0_bounded (S : List Sample) (hS : SSorted S) (cs : List RChunk) (Mx : Int)
    (hmx : ∀ c ∈ cs, c.mint ≤ Mx)
    (hcut : ∀ c ∈ cs, c.samples ≠ [] ∧ c.samples <:+: S)
    (hsorted : cs.Pairwise (fun a b => a.mint ≤ b.mint))
    (hsucc : ∀ P Q g, S = P ++ Q → Q.head? = some g → g.t ≤ Mx → (P = [] ∨ ∃ c ∈ cs, c.samples <:+ P) →
      ∃ d ∈ cs, d.samples ≠ [] ∧ d.samples <+: Q)
    (hne : cs ≠ []) :
    ∃ P Q, S = P ++ Q ∧ (headRow (overlapSplit cs)).flatMap (·.samples) = P ∧
      ∀ g, Q.head? = some g → Mx < g.t := by
  rw [headRow_overlapSplit]
  exact ff_bounded S hS cs Mx hmx hcut hsorted hsucc hne cs [] [] [] S rfl rfl rfl (Or.inl ⟨rfl, rfl, rfl⟩)

/-- the statement for the first row of `overlapSplit` -/
theorem firstFit_row0 (S : List Sample) (hS : SSorted S) (cs : List RChunk)
    (hcut : ∀ c ∈ cs, c.samples ≠ [] ∧ c.samples <:+: S)
    (hsorted : cs.Pairwise (fun a b => a.mint ≤ b.mint))
    (hsucc : ∀ P Q, S = P ++ Q → Q ≠ [] → (P = [] ∨ ∃ c ∈ cs, c.samples <:+ P) →
      ∃ d ∈ cs, d.samples ≠ [] ∧ d.samples <+: Q)
    (hne : cs ≠ []) : (headRow (overlapSplit cs)).flatMap (·.samples) = S := by
  rw [headRow_overlapSplit]
  exact ff_main S hS cs hcut hsorted hsucc hne cs [] [] [] S rfl rfl rfl (Or.inl ⟨rfl, rfl, rfl⟩)

/-! ### the other rows hold sub-sequences of `S` -/

/-- the start of a cut is at most its end -/
theorem mint_le_maxt {c : RChunk} {S : List Sample} (hS : SSorted S) (hne : c.samples ≠ [])
    (hinf : c.samples <:+: S) : c.mint ≤ c.maxt := by
  obtain ⟨x, r, hx⟩ : ∃ x r, c.samples = x :: r := by
    cases hcs : c.samples with
    | nil => exact absurd hcs hne
    | cons x r => exact ⟨x, r, rfl⟩
  obtain ⟨h1, h2⟩ := mint_of_cons hx
  have hs : SSorted (x :: r) := by rw [← hx]; exact List.Pairwise.sublist hinf.sublist hS
  have := le_lastOf hs x (by simp)
  omega

/-- the samples of a cut lie between its start and its end -/
theorem mem_chunk_bounds {c : RChunk} {S : List Sample} (hS : SSorted S) (hinf : c.samples <:+: S)
    {a : Sample} (ha : a ∈ c.samples) : c.mint ≤ a.t ∧ a.t ≤ c.maxt := by
  obtain ⟨x, r, hx⟩ : ∃ x r, c.samples = x :: r := by
    cases hcs : c.samples with
    | nil => rw [hcs] at ha; simp at ha
    | cons x r => exact ⟨x, r, rfl⟩
  obtain ⟨h1, h2⟩ := mint_of_cons hx
  have hs : SSorted (x :: r) := by rw [← hx]; exact List.Pairwise.sublist hinf.sublist hS
  rw [hx] at ha
  have hl : (x :: r).getLast? = some (r.getLast?.getD x) := getLast?_cons_getD r x
  have := ssorted_bounds hs rfl hl a ha
  unfold lastOf at h2
  omega

theorem rowOK_all_gt {S : List Sample} (hS : SSorted S) : ∀ (row : List RChunk) (c : RChunk),
    RowOK (c :: row) → (∀ e ∈ row, e.samples ≠ [] ∧ e.samples <:+: S) → ∀ e ∈ row, c.maxt < e.mint := by
  intro row
  induction row with
  | nil => intro c _ _ e he; simp at he
  | cons d row ih =>
    intro c hok hcut e he
    obtain ⟨h1, h2⟩ := hok
    rcases List.mem_cons.mp he with rfl | he
    · exact h1
    · have := ih d h2 (fun e' he' => hcut e' (by simp [he'])) e he
      have hd := mint_le_maxt hS (hcut d (by simp)).1 (hcut d (by simp)).2
      omega

/-- a row of time-ordered, non-overlapping cuts of `S` concatenates to a sub-sequence of `S` -/
theorem row_sublist : ∀ (row : List RChunk) (S : List Sample), SSorted S → RowOK row →
    (∀ c ∈ row, c.samples ≠ [] ∧ c.samples <:+: S) → (row.flatMap (·.samples)).Sublist S := by
  intro row
  induction row with
  | nil => intro S _ _ _; simp
  | cons c row ih =>
    intro S hS hok hcut
    obtain ⟨hcne, hcinf⟩ := hcut c (by simp)
    obtain ⟨s, t, hst⟩ := hcinf
    have hSs : SSorted (s ++ c.samples ++ t) := by rw [hst]; exact hS
    have hts : SSorted t := List.Pairwise.sublist (List.sublist_append_right _ t) hSs
    -- every later chunk is a cut of t
    have hlater : ∀ e ∈ row, e.samples ≠ [] ∧ e.samples <:+: t := by
      intro e he
      obtain ⟨hene, heinf⟩ := hcut e (by simp [he])
      refine ⟨hene, ?_⟩
      obtain ⟨x, r, hx⟩ : ∃ x r, e.samples = x :: r := by
        cases hes : e.samples with
        | nil => exact absurd hes hene
        | cons x r => exact ⟨x, r, rfl⟩
      have hgt := rowOK_all_gt hS row c hok (fun e' he' => hcut e' (by simp [he'])) e he
      have hem := (mint_of_cons hx).1
      apply infix_right (P := s ++ c.samples) hx (by rw [hst]; exact heinf)
      intro a ha
      rcases List.mem_append.mp ha with ha | ha
      · -- a ∈ s is before everything in c, hence before c.maxt
        obtain ⟨y, r', hy⟩ : ∃ y r', c.samples = y :: r' := by
          cases hcs : c.samples with
          | nil => exact absurd hcs hcne
          | cons y r' => exact ⟨y, r', rfl⟩
        have h1 : a.t < y.t := ssorted_append_lt (List.Pairwise.sublist (List.sublist_append_left _ t) hSs)
          a ha y (by rw [hy]; simp)
        have h2 := (mem_chunk_bounds hS ⟨s, t, hst⟩ (a := y) (by rw [hy]; simp)).2
        omega
      · have := (mem_chunk_bounds hS ⟨s, t, hst⟩ ha).2
        omega
    have hrow : RowOK row := by
      cases row with
      | nil => trivial
      | cons d r => exact hok.2
    have := ih t hts hrow hlater
    rw [List.flatMap_cons, ← hst]
    exact ((List.sublist_append_right s c.samples).append this)

/-- consecutive chunks of a `RowOK` row of cuts do not overlap as sample lists -/
theorem rowDisjoint_of_rowOK {S : List Sample} (hS : SSorted S) : ∀ (row : List RChunk), RowOK row →
    (∀ c ∈ row, c.samples ≠ [] ∧ c.samples <:+: S) → RowDisjoint (row.map (·.samples)) := by
  intro row
  induction row with
  | nil => intro _ _; trivial
  | cons c row ih =>
    intro hok hcut
    cases row with
    | nil => trivial
    | cons d r =>
      refine ⟨?_, ih hok.2 (fun e he => hcut e (by simp [he]))⟩
      intro x hx y hy
      have h1 := (mem_chunk_bounds hS (hcut c (by simp)).2 hx).2
      have h2 := (mem_chunk_bounds hS (hcut d (by simp)).2 hy).1
      have := hok.1
      omega

/-- folding the penalty merge over sub-sequences of `S` leaves `S` -/
theorem foldl_pm2_sublist {S : List Sample} (hS : SSorted S) (hl : ∀ x ∈ S, minT < x.t) :
    ∀ (others : List (List Sample)), (∀ q ∈ others, q.Sublist S) → others.foldl (pm2 minT) S = S := by
  intro others
  induction others with
  | nil => intro _; rfl
  | cons q others ih =>
    intro h
    simp only [List.foldl_cons]
    rw [pm2_sublist hS (h q (by simp)) (fun x hx => by have := hl x (List.mem_of_mem_head? hx); omega)]
    exact ih (fun q' hq' => h q' (by simp [hq']))

/-! ### the proxy's specification: sort and drop identical chunks -/

theorem mem_insertSorted {c x : RChunk} : ∀ {l : List RChunk}, x ∈ insertSorted c l ↔ x = c ∨ x ∈ l
  | [] => by simp [insertSorted]
  | d :: ds => by
    unfold insertSorted
    split
    · simp
    · simp only [List.mem_cons, mem_insertSorted (l := ds)]
      constructor
      · rintro (h | h | h)
        · exact Or.inr (Or.inl h)
        · exact Or.inl h
        · exact Or.inr (Or.inr h)
      · rintro (h | h | h)
        · exact Or.inr (Or.inl h)
        · exact Or.inl h
        · exact Or.inr (Or.inr h)

theorem mem_sortChunks {x : RChunk} : ∀ {l : List RChunk}, x ∈ sortChunks l ↔ x ∈ l
  | [] => by simp [sortChunks]
  | c :: l => by
    have ih := mem_sortChunks (x := x) (l := l)
    simp only [sortChunks, List.foldr_cons] at ih ⊢
    rw [mem_insertSorted, ih]
    simp

theorem chunkLe_mint {a b : RChunk} (h : chunkLe a b = true) : a.mint ≤ b.mint := by
  unfold chunkLe at h
  split at h
  · simp at h; omega
  · rename_i hm; simp at hm; omega

theorem not_chunkLe_mint {a b : RChunk} (h : ¬ chunkLe a b = true) : b.mint ≤ a.mint := by
  unfold chunkLe at h
  split at h
  · simp at h; omega
  · rename_i hm; simp at hm; omega

theorem insertSorted_sorted {c : RChunk} : ∀ {l : List RChunk}, l.Pairwise (fun a b => a.mint ≤ b.mint) →
    (insertSorted c l).Pairwise (fun a b => a.mint ≤ b.mint)
  | [], _ => by simp [insertSorted]
  | d :: ds, h => by
    have hp := List.pairwise_cons.mp h
    unfold insertSorted
    split
    · rename_i hle
      have hcd := chunkLe_mint hle
      refine List.pairwise_cons.mpr ⟨?_, h⟩
      intro x hx
      rcases List.mem_cons.mp hx with rfl | hx
      · exact hcd
      · have := hp.1 x hx; omega
    · rename_i hle
      have hdc := not_chunkLe_mint hle
      refine List.pairwise_cons.mpr ⟨?_, insertSorted_sorted hp.2⟩
      intro x hx
      rcases mem_insertSorted.mp hx with rfl | hx
      · exact hdc
      · exact hp.1 x hx

theorem sortChunks_sorted : ∀ (l : List RChunk), (sortChunks l).Pairwise (fun a b => a.mint ≤ b.mint)
  | [] => by simp [sortChunks]
  | c :: l => by
    have ih := sortChunks_sorted l
    simp only [sortChunks, List.foldr_cons] at ih ⊢
    exact insertSorted_sorted ih

def dedupStep (acc : List RChunk) (c : RChunk) : List RChunk :=
  if acc.any (fun d => d.samples == c.samples) then acc else acc ++ [c]

theorem dedupContent_eq (l : List RChunk) : dedupContent l = l.foldl dedupStep [] := rfl

theorem dedup_fold_spec : ∀ (l acc : List RChunk),
    (∀ x ∈ l.foldl dedupStep acc, x ∈ acc ∨ x ∈ l) ∧
    (∀ c, (c ∈ acc ∨ c ∈ l) → ∃ c' ∈ l.foldl dedupStep acc, c'.samples = c.samples) := by
  intro l
  induction l with
  | nil => intro acc; exact ⟨fun x hx => Or.inl hx, fun c hc => by
      rcases hc with hc | hc
      · exact ⟨c, hc, rfl⟩
      · simp at hc⟩
  | cons d l ih =>
    intro acc
    obtain ⟨i1, i2⟩ := ih (dedupStep acc d)
    simp only [List.foldl_cons]
    constructor
    · intro x hx
      rcases i1 x hx with h | h
      · unfold dedupStep at h
        split at h
        · exact Or.inl h
        · rcases List.mem_append.mp h with h | h
          · exact Or.inl h
          · simp at h; subst h; exact Or.inr (by simp)
      · exact Or.inr (by simp [h])
    · intro c hc
      -- c is in acc, or is d, or is in l
      have hstep : ∀ c0 ∈ acc, c0 ∈ dedupStep acc d := by
        intro c0 h0
        unfold dedupStep
        split
        · exact h0
        · exact List.mem_append_left _ h0
      rcases hc with hc | hc
      · exact i2 c (Or.inl (hstep c hc))
      · rcases List.mem_cons.mp hc with rfl | hc
        · -- c = d: either already represented in acc, or appended
          by_cases hany : acc.any (fun e => e.samples == c.samples) = true
          · obtain ⟨e, he, hes⟩ := List.any_eq_true.mp hany
            obtain ⟨c', hc', hcs'⟩ := i2 e (Or.inl (hstep e he))
            exact ⟨c', hc', by rw [hcs']; simpa using hes⟩
          · apply i2 c (Or.inl ?_)
            unfold dedupStep
            simp only [hany, Bool.false_eq_true, if_false]
            simp
        · exact i2 c (Or.inr hc)

theorem mem_dedupContent_sub {l : List RChunk} {x : RChunk} (h : x ∈ dedupContent l) : x ∈ l := by
  rcases (dedup_fold_spec l []).1 x h with h | h
  · simp at h
  · exact h

theorem dedupContent_complete {l : List RChunk} {c : RChunk} (h : c ∈ l) :
    ∃ c' ∈ dedupContent l, c'.samples = c.samples :=
  (dedup_fold_spec l []).2 c (Or.inr h)

/-- a cut of a time-sorted sequence contains every sample of the sequence between two of its own -/
theorem infix_contig {S d : List Sample} (hS : SSorted S) (hinf : d <:+: S) {z y w : Sample}
    (hz : z ∈ d) (hy : y ∈ d) (hw : w ∈ S) (h1 : z.t ≤ w.t) (h2 : w.t ≤ y.t) : w ∈ d := by
  obtain ⟨s, t, hst⟩ := hinf
  rw [← hst] at hw hS
  rcases List.mem_append.mp hw with hw | hw
  · rcases List.mem_append.mp hw with hw | hw
    · have := ssorted_append_lt (List.Pairwise.sublist (List.sublist_append_left _ t) hS) w hw z hz
      omega
    · exact hw
  · have := ssorted_append_lt hS y (List.mem_append_right s hy) w hw
    omega

/-! ### one replica read without deduplication: the union of its (possibly overlapping) cuts -/

theorem mem_dropLt_sorted {c : List Sample} (hc : SSorted c) {k : Int} {a : Sample} :
    a ∈ dropLt k c ↔ a ∈ c ∧ k ≤ a.t := by
  rw [← filter_ge_eq_dropLt k hc]
  simp [List.mem_filter]

/-- **The union of sorted cuts that cover `S` is `S`** — whatever their overlaps. -/
theorem union_cover (S : List Sample) (hS : SSorted S) (cs : List RChunk)
    (hcut : ∀ c ∈ cs, c.samples ≠ [] ∧ c.samples <:+: S)
    (hsorted : cs.Pairwise (fun a b => a.mint ≤ b.mint))
    (hcover : ∀ x ∈ S, ∃ c ∈ cs, x ∈ c.samples) :
    ∀ (rest done : List RChunk) (P Q : List Sample) (last : Int), cs = done ++ rest → S = P ++ Q →
      (∀ a ∈ P, a.t ≤ last) → (∀ b ∈ Q, last < b.t) →
      (∀ c ∈ done, ∀ x ∈ c.samples, x ∈ P) →
      unionFrom last (rest.map (·.samples)) = Q := by
  intro rest
  induction rest with
  | nil =>
    intro done P Q last hcs hPQ _ hQ hdone
    simp only [List.map_nil, unionFrom]
    cases Q with
    | nil => rfl
    | cons g Q' =>
      exfalso
      obtain ⟨d, hd, hgd⟩ := hcover g (by rw [hPQ]; simp)
      have hdd : d ∈ done := by rw [hcs] at hd; simpa using hd
      have hgP := hdone d hdd g hgd
      have := ssorted_append_lt (by rw [← hPQ]; exact hS) g hgP g (by simp)
      omega
  | cons c rest ih =>
    intro done P Q last hcs hPQ hP hQ hdone
    have hccs : c ∈ cs := by rw [hcs]; simp
    obtain ⟨hcne, hcinf⟩ := hcut c hccs
    have hcsort : SSorted c.samples := List.Pairwise.sublist hcinf.sublist hS
    have hSs : SSorted (P ++ Q) := by rw [← hPQ]; exact hS
    have hcs' : cs = (done ++ [c]) ++ rest := by rw [hcs]; simp
    -- samples of S at or before `last` are in P
    have hinP : ∀ x ∈ S, x.t ≤ last → x ∈ P := by
      intro x hx hle
      rw [hPQ] at hx
      rcases List.mem_append.mp hx with hx | hx
      · exact hx
      · have := hQ x hx; omega
    simp only [List.map_cons, unionFrom]
    cases hnew : dropLt (last + 1) c.samples with
    | nil =>
      simp only
      apply ih (done ++ [c]) P Q last hcs' hPQ hP hQ
      intro c' hc' x hx
      rcases List.mem_append.mp hc' with hc' | hc'
      · exact hdone c' hc' x hx
      · simp at hc'; subst hc'
        apply hinP x (hcinf.subset hx)
        have := all_lt_of_dropLt_nil hnew x hx
        omega
    | cons x r =>
      simp only
      -- the new part is a cut of S lying after P, hence a cut of Q, in fact a prefix of Q
      have hsuf : (x :: r) <:+ c.samples := by rw [← hnew]; exact dropLt_suffix _ _
      have hinfS : (x :: r) <:+: S := hsuf.isInfix.trans hcinf
      have hx1 : last + 1 ≤ x.t := head_dropLt_ge (by rw [hnew]; rfl)
      have hinQ : (x :: r) <:+: Q := by
        apply infix_right (P := P) rfl (by rw [← hPQ]; exact hinfS)
        intro a ha; have := hP a ha; omega
      obtain ⟨u, v, huv⟩ := hinQ
      have hu : u = [] := by
        cases u with
        | nil => rfl
        | cons g u' =>
          exfalso
          have hgQ : g ∈ Q := by rw [← huv]; simp
          have hgS : g ∈ S := by rw [hPQ]; exact List.mem_append_right _ hgQ
          have hQs : SSorted Q := List.Pairwise.sublist (List.sublist_append_right P Q) hSs
          have hgx : g.t < x.t := by
            rw [← huv] at hQs
            exact head_lt_of_infix (u := u') (v := v) hQs
          have hglast := hQ g hgQ
          -- g in c would make g part of the new samples, before their head x
          have hnotc : g ∉ c.samples := by
            intro hgc
            have : g ∈ dropLt (last + 1) c.samples := (mem_dropLt_sorted hcsort).mpr ⟨hgc, by omega⟩
            rw [hnew] at this
            have hsx : SSorted (x :: r) := List.Pairwise.sublist hsuf.sublist hcsort
            rcases List.mem_cons.mp this with h | h
            · rw [h] at hgx; omega
            · have := (List.pairwise_cons.mp hsx).1 g h; omega
          obtain ⟨d, hd, hgd⟩ := hcover g hgS
          rw [hcs] at hd hsorted
          rcases List.mem_append.mp hd with hd | hd
          · have hgP := hdone d hd g hgd
            have := ssorted_append_lt hSs g hgP g hgQ
            omega
          · rcases List.mem_cons.mp hd with rfl | hd
            · exact hnotc hgd
            · -- d comes after c: c.mint ≤ d.mint ≤ g.t < x.t, so g lies inside the cut c
              have hle := (List.pairwise_cons.mp (List.pairwise_append.mp hsorted).2.1).1 d hd
              have hdb := (mem_chunk_bounds hS (hcut d (by rw [hcs]; simp [hd])).2 hgd).1
              obtain ⟨z, cr, hz⟩ : ∃ z cr, c.samples = z :: cr := by
                cases hcs2 : c.samples with
                | nil => exact absurd hcs2 hcne
                | cons z cr => exact ⟨z, cr, rfl⟩
              have hzm := (mint_of_cons hz).1
              exact hnotc (infix_contig hS hcinf (z := z) (y := x) (by rw [hz]; simp)
                (hsuf.subset (by simp)) hgS (by omega) (by omega))
      subst hu
      simp only [List.nil_append] at huv
      have hsx : SSorted (x :: r) := List.Pairwise.sublist hsuf.sublist hcsort
      rw [← huv]
      congr 1
      apply ih (done ++ [c]) (P ++ (x :: r)) v (lastOf x r) hcs'
      · rw [hPQ, ← huv]; simp
      · intro a ha
        rcases List.mem_append.mp ha with ha | ha
        · have := hP a ha
          have := le_lastOf hsx x (by simp)
          omega
        · exact le_lastOf hsx a ha
      · intro b hb
        -- b ∈ v comes after the last element of x :: r in the sorted Q
        have hQs : SSorted Q := List.Pairwise.sublist (List.sublist_append_right P Q) hSs
        rw [← huv] at hQs
        have hlast : (x :: r).getLast? = some (r.getLast?.getD x) := getLast?_cons_getD r x
        exact ssorted_append_lt hQs _ (List.mem_of_getLast? hlast) b hb
      · intro c' hc' y hy
        rcases List.mem_append.mp hc' with hc' | hc'
        · exact List.mem_append_left _ (hdone c' hc' y hy)
        · simp at hc'; subst hc'
          by_cases hyl : y.t ≤ last
          · exact List.mem_append_left _ (hinP y (hcinf.subset hy) hyl)
          · apply List.mem_append_right
            rw [← hnew]
            exact (mem_dropLt_sorted hcsort).mpr ⟨hy, by omega⟩

/-! ### arbitrary query ranges: what the union of sorted cuts contains -/

/-- two strictly time-sorted lists with the same elements are equal -/
theorem ssorted_ext : ∀ {l1 l2 : List Sample}, SSorted l1 → SSorted l2 → (∀ x, x ∈ l1 ↔ x ∈ l2) → l1 = l2
  | [], [], _, _, _ => rfl
  | [], b :: l2, _, _, h => by have := (h b).mpr (by simp); simp at this
  | a :: l1, [], _, _, h => by have := (h a).mp (by simp); simp at this
  | a :: l1, b :: l2, h1, h2, h => by
    have p1 := List.pairwise_cons.mp h1
    have p2 := List.pairwise_cons.mp h2
    have hab : a = b := by
      have ha : a ∈ b :: l2 := (h a).mp (by simp)
      have hb : b ∈ a :: l1 := (h b).mpr (by simp)
      rcases List.mem_cons.mp ha with rfl | ha
      · rfl
      · rcases List.mem_cons.mp hb with rfl | hb
        · rfl
        · have := p2.1 a ha
          have := p1.1 b hb
          omega
    subst hab
    congr 1
    apply ssorted_ext p1.2 p2.2
    intro x
    constructor
    · intro hx
      have : x ∈ a :: l2 := (h x).mp (by simp [hx])
      rcases List.mem_cons.mp this with rfl | hx2
      · have := p1.1 x hx; omega
      · exact hx2
    · intro hx
      have : x ∈ a :: l1 := (h x).mpr (by simp [hx])
      rcases List.mem_cons.mp this with rfl | hx1
      · have := p2.1 x hx; omega
      · exact hx1

/-- **What the union of sorted cuts holds**: exactly the samples of the cuts after `l` — no
    coverage assumption, any overlaps. -/
theorem mem_unionFrom_cuts (S : List Sample) (hS : SSorted S) : ∀ (cs : List RChunk) (l : Int),
    (∀ c ∈ cs, c.samples ≠ [] ∧ c.samples <:+: S) → cs.Pairwise (fun a b => a.mint ≤ b.mint) →
    ∀ x, x ∈ unionFrom l (cs.map (·.samples)) ↔ (∃ c ∈ cs, x ∈ c.samples) ∧ l < x.t := by
  intro cs
  induction cs with
  | nil => intro l _ _ x; simp [unionFrom]
  | cons c0 cs ih =>
    intro l hcut hsorted x
    obtain ⟨hc0ne, hc0inf⟩ := hcut c0 (by simp)
    have hc0s : SSorted c0.samples := List.Pairwise.sublist hc0inf.sublist hS
    have hp := List.pairwise_cons.mp hsorted
    have hcut' : ∀ c ∈ cs, c.samples ≠ [] ∧ c.samples <:+: S := fun c hc => hcut c (by simp [hc])
    simp only [List.map_cons, unionFrom]
    cases hnew : dropLt (l + 1) c0.samples with
    | nil =>
      simp only
      rw [ih l hcut' hp.2 x]
      constructor
      · rintro ⟨⟨c, hc, hxc⟩, hl⟩; exact ⟨⟨c, by simp [hc], hxc⟩, hl⟩
      · rintro ⟨⟨c, hc, hxc⟩, hl⟩
        rcases List.mem_cons.mp hc with rfl | hc
        · have := all_lt_of_dropLt_nil hnew x hxc; omega
        · exact ⟨⟨c, hc, hxc⟩, hl⟩
    | cons y r =>
      simp only
      have hsuf : (y :: r) <:+ c0.samples := by rw [← hnew]; exact dropLt_suffix _ _
      have hys : SSorted (y :: r) := List.Pairwise.sublist hsuf.sublist hc0s
      have hy1 : l + 1 ≤ y.t := head_dropLt_ge (by rw [hnew]; rfl)
      -- lastOf y r is the end of the cut c0
      obtain ⟨z, cr, hz⟩ : ∃ z cr, c0.samples = z :: cr := by
        cases hcs : c0.samples with
        | nil => exact absurd hcs hc0ne
        | cons z cr => exact ⟨z, cr, rfl⟩
      have hlast : lastOf y r = c0.maxt := by
        rw [(mint_of_cons hz).2]
        rw [hz] at hsuf
        exact lastOf_suffix hsuf
      rw [List.mem_append, ih (lastOf y r) hcut' hp.2 x]
      constructor
      · rintro (hx | ⟨⟨c, hc, hxc⟩, hl⟩)
        · have hxc0 : x ∈ c0.samples := hsuf.subset hx
          have := (mem_dropLt_sorted hc0s (k := l + 1)).mp (by rw [hnew]; exact hx)
          exact ⟨⟨c0, by simp, hxc0⟩, by omega⟩
        · have := le_lastOf hys y (by simp)
          exact ⟨⟨c, by simp [hc], hxc⟩, by omega⟩
      · rintro ⟨⟨c, hc, hxc⟩, hl⟩
        have hin0 : x ∈ c0.samples → x ∈ y :: r := by
          intro h0
          rw [← hnew]
          exact (mem_dropLt_sorted hc0s).mpr ⟨h0, by omega⟩
        rcases List.mem_cons.mp hc with rfl | hc
        · exact Or.inl (hin0 hxc)
        · by_cases hgt : lastOf y r < x.t
          · exact Or.inr ⟨⟨c, hc, hxc⟩, hgt⟩
          · -- c0.mint ≤ c.mint ≤ x.t ≤ c0.maxt: x lies inside the cut c0
            left
            apply hin0
            have hle := hp.1 c hc
            have hxb := (mem_chunk_bounds hS (hcut' c hc).2 hxc).1
            have hzm := (mint_of_cons hz).1
            have hlastmem : (z :: cr).getLast? = some (cr.getLast?.getD z) := getLast?_cons_getD cr z
            have hmax := (mint_of_cons hz).2
            unfold lastOf at hmax
            exact infix_contig hS hc0inf (z := z) (y := cr.getLast?.getD z) (by rw [hz]; simp)
              (by rw [hz]; exact List.mem_of_getLast? hlastmem) ((hcut' c hc).2.subset hxc)
              (by omega) (by omega)

theorem mem_takeLe_sorted : ∀ {l : List Sample}, SSorted l → ∀ {M : Int} {a : Sample},
    a ∈ takeLe M l ↔ a ∈ l ∧ a.t ≤ M
  | [], _, M, a => by simp [takeLe]
  | b :: l, h, M, a => by
    have hp := List.pairwise_cons.mp h
    by_cases hb : b.t ≤ M
    · have : takeLe M (b :: l) = b :: takeLe M l := by simp [takeLe, hb]
      rw [this, List.mem_cons, mem_takeLe_sorted hp.2, List.mem_cons]
      constructor
      · rintro (rfl | ⟨h1, h2⟩)
        · exact ⟨Or.inl rfl, hb⟩
        · exact ⟨Or.inr h1, h2⟩
      · rintro ⟨rfl | h1, h2⟩
        · exact Or.inl rfl
        · exact Or.inr ⟨h1, h2⟩
    · have : takeLe M (b :: l) = [] := by simp [takeLe, hb]
      rw [this]
      constructor
      · intro h'; simp at h'
      · rintro ⟨h1, h2⟩
        rcases List.mem_cons.mp h1 with rfl | h1
        · exact absurd h2 hb
        · have := hp.1 a h1; omega

theorem takeLe_sublist (M : Int) (l : List Sample) : (takeLe M l).Sublist l := List.takeWhile_sublist _

/-! ### the samples the in-range chunks cover -/

/-- is the sample held by one of the chunks? -/
def covered (cs : List RChunk) (x : Sample) : Bool := cs.any fun c => c.samples.contains x

theorem covered_iff {cs : List RChunk} {x : Sample} : covered cs x = true ↔ ∃ c ∈ cs, x ∈ c.samples := by
  simp [covered, List.any_eq_true]

/-- a cut all of whose samples pass the filter is a cut of the filtered sequence -/
theorem infix_filter {c S : List Sample} (p : Sample → Bool) (hinf : c <:+: S) (hp : ∀ x ∈ c, p x = true) :
    c <:+: S.filter p := by
  obtain ⟨s, t, hst⟩ := hinf
  refine ⟨s.filter p, t.filter p, ?_⟩
  rw [← hst, List.filter_append, List.filter_append, List.filter_eq_self.mpr hp]

theorem ssorted_eq_of_t {l : List Sample} (hs : SSorted l) {x y : Sample} (hx : x ∈ l) (hy : y ∈ l)
    (ht : x.t = y.t) : x = y := by
  induction l with
  | nil => simp at hx
  | cons a l ih =>
    have hp := List.pairwise_cons.mp hs
    rcases List.mem_cons.mp hx with hxa | hxl
    · rcases List.mem_cons.mp hy with hya | hyl
      · rw [hxa, hya]
      · have := hp.1 y hyl; rw [hxa] at ht; omega
    · rcases List.mem_cons.mp hy with hya | hyl
      · have := hp.1 x hxl; rw [hya] at ht; omega
      · exact ih hp.2 hxl hyl

theorem takeLe_append_dropLe (M : Int) (l : List Sample) : takeLe M l ++ dropLe M l = l :=
  List.takeWhile_append_dropWhile

theorem mem_takeLe_le' {M : Int} : ∀ {l : List Sample} {x : Sample}, x ∈ takeLe M l → x.t ≤ M
  | [], x, h => by simp [takeLe] at h
  | a :: l, x, h => by
    by_cases hm : a.t ≤ M
    · have : takeLe M (a :: l) = a :: takeLe M l := by simp [takeLe, hm]
      rw [this] at h
      rcases List.mem_cons.mp h with rfl | h
      · exact hm
      · exact mem_takeLe_le' h
    · have : takeLe M (a :: l) = [] := by simp [takeLe, hm]
      rw [this] at h; simp at h

theorem mem_dropLe_gt {M : Int} {l : List Sample} (hs : SSorted l) {x : Sample} (h : x ∈ dropLe M l) :
    M < x.t := by
  induction l with
  | nil => simp [dropLe] at h
  | cons a l ih =>
    have hp := List.pairwise_cons.mp hs
    by_cases hm : a.t ≤ M
    · have : dropLe M (a :: l) = dropLe M l := by simp [dropLe, hm]
      rw [this] at h; exact ih hp.2 h
    · have : dropLe M (a :: l) = a :: l := by simp [dropLe, hm]
      rw [this] at h
      rcases List.mem_cons.mp h with rfl | h
      · omega
      · have := hp.1 x h; omega

/-- on a time-sorted list the window is a filter -/
theorem window_eq_filter {m M : Int} {U : List Sample} (hs : SSorted U) :
    takeLe M (dropLt m U) = U.filter (fun x => decide (m ≤ x.t) && decide (x.t ≤ M)) := by
  apply ssorted_ext
  · exact List.Pairwise.sublist ((takeLe_sublist _ _).trans (dropLt_sublist _ _)) hs
  · exact List.Pairwise.sublist List.filter_sublist hs
  · intro x
    rw [mem_takeLe_sorted (ssorted_dropLt _ hs), mem_dropLt_sorted hs, List.mem_filter]
    simp only [Bool.and_eq_true, decide_eq_true_eq]
    constructor
    · rintro ⟨⟨h1, h2⟩, h3⟩; exact ⟨h1, h2, h3⟩
    · rintro ⟨h1, h2, h3⟩; exact ⟨⟨h1, h2⟩, h3⟩

end Thanos.Dedup
