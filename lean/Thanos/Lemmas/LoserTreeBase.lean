import Thanos.Model.LoserTree
/-
  Refinement proof of pkg/losertree (as transliterated in Model/LoserTree.lean), part 1:
  heap-layout arithmetic, node access lemmas, the tournament invariant with a ghost "winner of
  the subtree" function, and its two consequences (the root winner is minimal among the leaves;
  the root winner wins at every node of its path).
-/
namespace Thanos.LoserTree

variable {E : Type}

/-! ### heap layout -/

/-- `q` lies in the subtree rooted at `p` (positions as in the Go slice: children of `p` are `2p`, `2p+1`) -/
def IsDesc (p q : Nat) : Prop := ∃ k, q / 2 ^ k = p

theorem isDesc_refl (p : Nat) : IsDesc p p := ⟨0, by simp⟩

theorem div_pow_succ (l k : Nat) : l / 2 ^ (k + 1) = (l / 2 ^ k) / 2 := by
  rw [Nat.pow_succ, Nat.div_div_eq_div_mul]

theorem isDesc_parent {p q : Nat} (h : IsDesc p q) : IsDesc (p / 2) q := by
  obtain ⟨k, hk⟩ := h
  exact ⟨k + 1, by rw [div_pow_succ, hk]⟩

theorem isDesc_of_child_left {p q : Nat} (h : IsDesc (2 * p) q) : IsDesc p q := by
  have := isDesc_parent h
  simpa using this

theorem isDesc_of_child_right {p q : Nat} (h : IsDesc (2 * p + 1) q) : IsDesc p q := by
  have := isDesc_parent h
  have e : (2 * p + 1) / 2 = p := by omega
  rwa [e] at this

theorem isDesc_ge {p q : Nat} (h : IsDesc p q) : p ≤ q := by
  obtain ⟨k, hk⟩ := h
  rw [← hk]
  exact Nat.div_le_self _ _

theorem div_pow_add (l a b : Nat) : l / 2 ^ (a + b) = (l / 2 ^ a) / 2 ^ b := by
  rw [Nat.pow_add, Nat.div_div_eq_div_mul]

/-- a proper descendant is a descendant of one of the two children -/
theorem isDesc_cases {p q : Nat} (h : IsDesc p q) : q = p ∨ IsDesc (2 * p) q ∨ IsDesc (2 * p + 1) q := by
  obtain ⟨k, hk⟩ := h
  cases k with
  | zero => left; simpa using hk
  | succ k =>
    right
    rw [div_pow_succ] at hk
    have : q / 2 ^ k = 2 * p ∨ q / 2 ^ k = 2 * p + 1 := by omega
    rcases this with h | h
    · exact Or.inl ⟨k, h⟩
    · exact Or.inr ⟨k, h⟩

/-- the two subtrees below a node are disjoint -/
theorem isDesc_disjoint {a q : Nat} (ha : 1 ≤ a) (h1 : IsDesc (2 * a) q) (h2 : IsDesc (2 * a + 1) q) : False := by
  obtain ⟨k, hk⟩ := h1
  obtain ⟨j, hj⟩ := h2
  rcases Nat.lt_trichotomy k j with h | h | h
  · -- j = k + d, d ≥ 1
    obtain ⟨d, rfl⟩ : ∃ d, j = k + (d + 1) := ⟨j - k - 1, by omega⟩
    rw [div_pow_add, hk, div_pow_succ] at hj
    have h1 : 2 * a / 2 ^ d ≤ 2 * a := Nat.div_le_self _ _
    have h2 : 2 * a / 2 ^ d / 2 ≤ a := by omega
    omega
  · subst h; omega
  · obtain ⟨d, rfl⟩ : ∃ d, k = j + (d + 1) := ⟨k - j - 1, by omega⟩
    rw [div_pow_add, hj, div_pow_succ] at hk
    have h1 : (2 * a + 1) / 2 ^ d ≤ 2 * a + 1 := Nat.div_le_self _ _
    have h2 : (2 * a + 1) / 2 ^ d / 2 ≤ a := by omega
    omega

/-- every position ≥ 1 is below the root -/
theorem isDesc_root : ∀ (q : Nat), 1 ≤ q → IsDesc 1 q := by
  intro q
  induction q using Nat.strongRecOn with
  | _ q ih =>
    intro hq
    by_cases h1 : q = 1
    · subst h1; exact isDesc_refl 1
    · have hlt : q / 2 < q := Nat.div_lt_self (by omega) (by omega)
      obtain ⟨k, hk⟩ := ih (q / 2) hlt (by omega)
      exact ⟨k + 1, by rw [Nat.pow_succ, Nat.mul_comm, ← Nat.div_div_eq_div_mul, hk]⟩

/-! ### node access -/

def val (t : Tree E) (p : Nat) : E := (getNode t p).value
def idx (t : Tree E) (p : Nat) : Int := (getNode t p).index

theorem setNode_length (t : Tree E) (i : Nat) (x : Node E) : (setNode t i x).nodes.length = t.nodes.length := by
  simp [setNode]

theorem setNode_maxVal (t : Tree E) (i : Nat) (x : Node E) : (setNode t i x).maxVal = t.maxVal := rfl
theorem setNode_less (t : Tree E) (i : Nat) (x : Node E) : (setNode t i x).less = t.less := rfl
theorem setNode_closed (t : Tree E) (i : Nat) (x : Node E) : (setNode t i x).closed = t.closed := rfl

theorem getNode_setNode_same (t : Tree E) (i : Nat) (x : Node E) (h : i < t.nodes.length) :
    getNode (setNode t i x) i = x := by
  simp [getNode, setNode, h]

theorem getNode_setNode_ne (t : Tree E) (i j : Nat) (x : Node E) (h : i ≠ j) :
    getNode (setNode t i x) j = getNode t j := by
  simp [getNode, setNode, List.getElem?_set_ne h]

/-! ### the tournament invariant -/

/-- `win p` is the leaf that wins the subtree rooted at `p`; an internal node stores the loser of the
    match between the winners of its two subtrees together with a copy of the loser's value, and
    the winner is not greater than the loser -/
structure Tourn (le : E → E → Prop) (t : Tree E) (n : Nat) (win : Nat → Nat) : Prop where
  leaf : ∀ p, n ≤ p → win p = p
  node : ∀ p, 1 ≤ p → p < n →
    (win p = win (2 * p) ∧ idx t p = (win (2 * p + 1) : Int)) ∨
    (win p = win (2 * p + 1) ∧ idx t p = (win (2 * p) : Int))
  copy : ∀ p, 1 ≤ p → p < n → val t p = val t (idx t p).toNat
  beat : ∀ p, 1 ≤ p → p < n → le (val t (win p)) (val t p)

variable {le : E → E → Prop}

/-- the winner of a subtree is a leaf of that subtree -/
theorem Tourn.win_desc {t : Tree E} {n : Nat} {win : Nat → Nat} (h : Tourn le t n win) :
    ∀ (d p : Nat), 1 ≤ p → 1 ≤ d → p + d = 2 * n → IsDesc p (win p) ∧ n ≤ win p ∧ win p < 2 * n := by
  intro d
  induction d using Nat.strongRecOn with
  | _ d ih =>
    intro p hp hd1 hd
    by_cases hl : n ≤ p
    · rw [h.leaf p hl]; exact ⟨isDesc_refl p, hl, by omega⟩
    · have hpn : p < n := by omega
      have hdL : 2 * n - 2 * p < d := by omega
      have hdR : 2 * n - (2 * p + 1) < d := by omega
      have hL := ih (2 * n - 2 * p) hdL (2 * p) (by omega) (by omega) (by omega)
      have hR := ih (2 * n - (2 * p + 1)) hdR (2 * p + 1) (by omega) (by omega) (by omega)
      rcases h.node p hp hpn with ⟨hw, _⟩ | ⟨hw, _⟩
      · rw [hw]; exact ⟨isDesc_of_child_left hL.1, hL.2⟩
      · rw [hw]; exact ⟨isDesc_of_child_right hR.1, hR.2⟩

theorem Tourn.win_range {t : Tree E} {n : Nat} {win : Nat → Nat} (h : Tourn le t n win)
    (p : Nat) (hp : 1 ≤ p) (hp2 : p < 2 * n) : IsDesc p (win p) ∧ n ≤ win p ∧ win p < 2 * n :=
  h.win_desc (2 * n - p) p hp (by omega) (by omega)

/-- **minimality**: going up from a leaf, the winner of every subtree on the way is not greater than
    that leaf -/
theorem Tourn.le_leaf (hrefl : ∀ a, le a a) (htrans : ∀ a b c, le a b → le b c → le a c)
    {t : Tree E} {n : Nat} {win : Nat → Nat} (h : Tourn le t n win) (l : Nat) (hl : n ≤ l) (hl2 : l < 2 * n) :
    ∀ k, 1 ≤ l / 2 ^ k → le (val t (win (l / 2 ^ k))) (val t l) := by
  intro k
  induction k with
  | zero => intro _; simp only [Nat.pow_zero, Nat.div_one]; rw [h.leaf l hl]; exact hrefl _
  | succ k ih =>
    intro hk
    rw [div_pow_succ] at hk ⊢
    have hc : 1 ≤ l / 2 ^ k := by omega
    have ihc := ih hc
    have hcl : l / 2 ^ k ≤ l := Nat.div_le_self _ _
    have han : l / 2 ^ k / 2 < n := by omega
    have hcase : l / 2 ^ k = 2 * (l / 2 ^ k / 2) ∨ l / 2 ^ k = 2 * (l / 2 ^ k / 2) + 1 := by omega
    have hcopy := h.copy _ hk han
    have hbeat := h.beat _ hk han
    rcases h.node _ hk han with ⟨hw, hi⟩ | ⟨hw, hi⟩ <;> rcases hcase with hc2 | hc2
    · rw [hw, ← hc2]; exact ihc
    · -- the path child is the right one and lost here
      rw [hcopy, hi, Int.toNat_natCast, ← hc2] at hbeat
      exact htrans _ _ _ hbeat ihc
    · rw [hcopy, hi, Int.toNat_natCast, ← hc2] at hbeat
      exact htrans _ _ _ hbeat ihc
    · rw [hw, ← hc2]; exact ihc

/-- the root winner is not greater than any leaf -/
theorem Tourn.root_min (hrefl : ∀ a, le a a) (htrans : ∀ a b c, le a b → le b c → le a c)
    {t : Tree E} {n : Nat} {win : Nat → Nat} (h : Tourn le t n win) (l : Nat) (hl : n ≤ l) (hl2 : l < 2 * n)
    (hn : 1 ≤ n) : le (val t (win 1)) (val t l) := by
  obtain ⟨k, hk⟩ := isDesc_root l (by omega)
  have := h.le_leaf hrefl htrans l hl hl2 k (by omega)
  rwa [hk] at this

/-- the root winner wins at every node of its path -/
theorem Tourn.path_win {t : Tree E} {n : Nat} {win : Nat → Nat} (h : Tourn le t n win) (hn : 1 ≤ n) :
    ∀ (d k : Nat), (win 1) / 2 ^ (k + d) = 1 → win ((win 1) / 2 ^ k) = win 1 := by
  intro d
  induction d with
  | zero => intro k hk; simp only [Nat.add_zero] at hk; rw [hk]
  | succ d ih =>
    intro k hk
    have hr := h.win_range 1 (Nat.le_refl 1) (by omega)
    generalize hw1 : win 1 = w at *
    have hk' : w / 2 ^ (k + 1 + d) = 1 := by rw [← hk]; congr 2; omega
    have ihp := ih (k + 1) hk'
    have hge : 1 ≤ w / 2 ^ (k + 1) := by
      have : w / 2 ^ (k + 1 + d) = (w / 2 ^ (k + 1)) / 2 ^ d := div_pow_add _ _ _
      rw [hk'] at this
      rcases Nat.eq_zero_or_pos (w / 2 ^ (k + 1)) with h0 | h0
      · rw [h0] at this; simp at this
      · exact h0
    rw [div_pow_succ] at ihp hge
    have hdc : IsDesc (w / 2 ^ k) w := ⟨k, rfl⟩
    generalize hc : w / 2 ^ k = c at *
    have hcl : c ≤ w := by rw [← hc]; exact Nat.div_le_self _ _
    generalize ha : c / 2 = a at *
    have han : a < n := by omega
    have hcase : c = 2 * a ∨ c = 2 * a + 1 := by omega
    have hL := h.win_range (2 * a) (by omega) (by omega)
    have hR := h.win_range (2 * a + 1) (by omega) (by omega)
    rcases h.node a hge han with ⟨hw, _⟩ | ⟨hw, _⟩ <;> rcases hcase with hc2 | hc2
    · rw [hc2, ← hw]; exact ihp
    · exfalso
      rw [ihp] at hw
      rw [hc2, hw] at hdc
      exact isDesc_disjoint hge hL.1 hdc
    · exfalso
      rw [ihp] at hw
      rw [hc2, hw] at hdc
      exact isDesc_disjoint hge hdc hR.1
    · rw [hc2, ← hw]; exact ihp

end Thanos.LoserTree
