import Thanos.Model.IndexHeader
/-
  Helper lemmas for C11: what `init` keeps of a label name's table, and the LabelValues scan.
-/
namespace Thanos.IndexHeader

/-- the table of one label name: values strictly increasing -/
def StrictlyIncreasing : List (Nat × Nat) → Prop
  | [] => True
  | [_] => True
  | a :: b :: rest => a.1 < b.1 ∧ StrictlyIncreasing (b :: rest)

/-- the requested values are sorted (duplicates allowed) -/
def Sorted : List Nat → Prop
  | [] => True
  | [_] => True
  | a :: b :: rest => a ≤ b ∧ Sorted (b :: rest)

theorem StrictlyIncreasing.tail {a : Nat × Nat} {l : List (Nat × Nat)} (h : StrictlyIncreasing (a :: l)) :
    StrictlyIncreasing l := by
  cases l with
  | nil => trivial
  | cons b rest => exact h.2

theorem StrictlyIncreasing.head_lt : ∀ {a : Nat × Nat} {l : List (Nat × Nat)},
    StrictlyIncreasing (a :: l) → ∀ e ∈ l, a.1 < e.1
  | _, [], _, e, he => by simp at he
  | a, b :: rest, h, e, he => by
    simp only [List.mem_cons] at he
    rcases he with rfl | he
    · exact h.1
    · exact Nat.lt_trans h.1 (StrictlyIncreasing.head_lt h.2 e he)

/-- which table positions `init` keeps: the multiples of `n` and the last one -/
def keptAt (n len k : Nat) : Bool := k % n = 0 || k + 1 = len

theorem sampleFrom_spec (n : Nat) : ∀ (tbl : List (Nat × Nat)) (i : Nat),
    sampleFrom n i tbl =
      (tbl.zipIdx i).filterMap fun ek => if keptAt n (i + tbl.length) ek.2 then some (ek.1.1, ek.2) else none
  | [], _ => rfl
  | [(v, p)], i => by
    simp [sampleFrom, keptAt]
  | (v, p) :: e2 :: rest, i => by
    have ih := sampleFrom_spec n (e2 :: rest) (i + 1)
    have hlen : i + 1 + (e2 :: rest).length = i + ((v, p) :: e2 :: rest).length := by
      simp only [List.length_cons]; omega
    rw [hlen] at ih
    have hk : keptAt n (i + ((v, p) :: e2 :: rest).length) i = decide (i % n = 0) := by
      simp only [keptAt, List.length_cons]
      have : ¬ (i + 1 = i + (rest.length + 1 + 1)) := by omega
      simp [this]
    simp only [sampleFrom]
    rw [List.zipIdx_cons, List.filterMap_cons]
    simp only [hk, decide_eq_true_eq]
    by_cases hm : i % n = 0
    · simp only [hm, if_true]
      rw [ih]
    · simp only [hm, if_false]
      rw [ih]

theorem sampleFrom_ne_nil (n : Nat) : ∀ (tbl : List (Nat × Nat)) (i : Nat), tbl ≠ [] → sampleFrom n i tbl ≠ []
  | [], _, h => absurd rfl h
  | [(v, p)], i, _ => by simp [sampleFrom]
  | (v, p) :: e2 :: rest, i, _ => by
    simp only [sampleFrom]
    split
    · simp
    · exact sampleFrom_ne_nil n (e2 :: rest) (i + 1) (by simp)

/-- the last entry of the table is always kept, as the last sampled entry -/
theorem sampleFrom_getLast (n : Nat) : ∀ (tbl : List (Nat × Nat)) (i : Nat) (e : Nat × Nat),
    tbl.getLast? = some e → (sampleFrom n i tbl).getLast? = some (e.1, i + tbl.length - 1)
  | [], _, _, h => by simp at h
  | [(v, p)], i, e, h => by
    simp only [List.getLast?_singleton, Option.some.injEq] at h
    subst h
    simp [sampleFrom]
  | (v, p) :: e2 :: rest, i, e, h => by
    have h' : (e2 :: rest).getLast? = some e := by simpa [List.getLast?_cons_cons] using h
    have ih := sampleFrom_getLast n (e2 :: rest) (i + 1) e h'
    have hl : i + 1 + (e2 :: rest).length - 1 = i + ((v, p) :: e2 :: rest).length - 1 := by
      simp only [List.length_cons]; omega
    rw [hl] at ih
    simp only [sampleFrom]
    split
    · have hne := sampleFrom_ne_nil n (e2 :: rest) (i + 1) (by simp)
      cases hs : sampleFrom n (i + 1) (e2 :: rest) with
      | nil => exact absurd hs hne
      | cons a as =>
        rw [hs] at ih
        rw [List.getLast?_cons_cons]
        exact ih
    · exact ih

/-- the first entry of the table is always kept, as the first sampled entry (position 0) -/
theorem sample_head (n : Nat) (hn : n ≥ 1) (v p : Nat) (rest : List (Nat × Nat)) :
    ∃ more, sample n ((v, p) :: rest) = (v, 0) :: more := by
  cases rest with
  | nil => exact ⟨[], by simp [sample, sampleFrom]⟩
  | cons e2 rest =>
    have : 0 % n = 0 := Nat.zero_mod n
    exact ⟨sampleFrom n 1 (e2 :: rest), by simp only [sample, sampleFrom, this, if_true]⟩

/-- the LabelValues scan stops exactly at the last value -/
theorem labelValues_go : ∀ (tbl : List (Nat × Nat)) (e : Nat × Nat), StrictlyIncreasing tbl →
    tbl.getLast? = some e → labelValues.go e.1 tbl = .ok (tbl.map (·.1))
  | [], _, _, h => by simp at h
  | [(v, p)], e, _, h => by
    simp only [List.getLast?_singleton, Option.some.injEq] at h
    subst h
    simp [labelValues.go]
  | (v, p) :: e2 :: rest, e, hs, h => by
    have h' : (e2 :: rest).getLast? = some e := by simpa [List.getLast?_cons_cons] using h
    have hmem : e ∈ e2 :: rest := List.mem_of_getLast? h'
    have hlt := StrictlyIncreasing.head_lt hs e hmem
    have hne : ¬ (v = e.1) := by simp only at hlt; omega
    rw [labelValues.go]
    simp only [hne, if_false]
    rw [labelValues_go (e2 :: rest) e hs.2 h']
    rfl

end Thanos.IndexHeader
