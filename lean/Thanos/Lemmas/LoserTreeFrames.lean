import Thanos.Model.Merge
import Thanos.Lemmas.Order
import Thanos.Lemmas.KMerge
import Thanos.Lemmas.SortSpec
import Thanos.Lemmas.LoserTreeMerge
/-
  The loser tree with the comparator of `NewProxyResponseLoserTree` is a k-way merge of the
  response sets (`IsKMerge`): instantiation of `merge_isKMergeG`.
-/
namespace Thanos.Merge

open Thanos.LoserTree

/-- the weak order the comparator refines, with `none` (= `maxVal`) on top -/
def leO : Option Frame → Option Frame → Prop
  | _, none => True
  | none, some _ => False
  | some x, some y => frameLe x y

theorem frameLe_refl (a : Frame) : frameLe a a := by
  cases a <;> simp [frameLe, lblLe_refl]

theorem ordSpec_lessResp : OrdSpec leO lessResp := by
  refine ⟨?_, ?_, ?_, ?_⟩
  · intro a; cases a <;> simp [leO, frameLe_refl]
  · intro a b c h1 h2
    cases a <;> cases b <;> cases c <;> simp_all [leO]
    exact frameLe_trans h1 h2
  · intro a b h
    cases a <;> cases b <;> simp_all [leO, lessResp]
    rename_i x y
    cases x <;> cases y <;> simp_all [frameLe, lblLe]
  · intro a b h
    cases a <;> cases b <;> simp_all [leO, lessResp]
    rename_i x y
    cases x <;> cases y <;> simp_all [frameLe]
    rename_i s1 s2
    unfold lblLe
    intro hgt
    exact h ((cmpLabels_swap s1.lbls s2.lbls).mpr hgt)

theorem isKMerge_of_G : ∀ {ss : List (List (Option Frame))} {out : List (Option Frame)},
    IsKMergeG leO ss out → ∀ sets : List (List Frame), ss = sets.map (·.map some) →
      IsKMerge sets (out.filterMap id) := by
  intro ss out h
  induction h with
  | nil hall =>
    intro sets hs
    subst hs
    apply IsKMerge.nil
    intro s hs
    have := hall (s.map some) (List.mem_map.mpr ⟨s, hs, rfl⟩)
    simpa using this
  | @cons ss out i x rest hget hmin _ ih =>
    intro sets hs
    subst hs
    -- the head comes from the i-th response set
    rw [List.getElem?_map] at hget
    cases hsi : sets[i]? with
    | none => rw [hsi] at hget; simp at hget
    | some si =>
      rw [hsi] at hget
      simp only [Option.map_some, Option.some.injEq] at hget
      cases si with
      | nil => simp at hget
      | cons f r =>
        simp only [List.map_cons, List.cons.injEq] at hget
        obtain ⟨rfl, rfl⟩ := hget
        simp only [List.filterMap_cons, id]
        refine IsKMerge.cons i f r hsi ?_ ?_
        · intro j y r' hj
          have := hmin j (some y) (r'.map some) (by rw [List.getElem?_map, hj]; rfl)
          simpa [leO] using this
        · apply ih
          rw [List.map_set]

/-- **`losertree_refines`**: the merge the driver runs (and the real proxy uses) is a k-way merge -/
theorem treeMerge_isKMerge (sets : List (List Frame)) : IsKMerge sets (treeMerge sets) := by
  unfold treeMerge
  apply isKMerge_of_G (ss := sets.map (·.map some)) _ sets rfl
  apply merge_isKMergeG ordSpec_lessResp none
  intro s hs x hx
  simp only [List.mem_map] at hs
  obtain ⟨s0, _, rfl⟩ := hs
  simp only [List.mem_map] at hx
  obtain ⟨f, _, rfl⟩ := hx
  simp [leO]

end Thanos.Merge
