import Thanos.Model.LoserTree
import Thanos.Lemmas.LoserTreeBase
import Thanos.Lemmas.LoserTreeInit
/-
  Refinement proof of pkg/losertree, part 3: after the winner's leaf changed, `replayGames`
  restores the tournament invariant.
-/
namespace Thanos.LoserTree

open Classical

variable {E : Type} {le : E → E → Prop}

theorem Tourn.sub {t : Tree E} {n : Nat} {win : Nat → Nat} (h : Tourn le t n win) (pos : Nat) (hpos : 1 ≤ pos) :
    SubTourn le t n pos win :=
  ⟨h.leaf, fun p hd hn => h.node p (Nat.le_trans hpos (isDesc_ge hd)) hn,
   fun p hd hn => h.copy p (Nat.le_trans hpos (isDesc_ge hd)) hn,
   fun p hd hn => h.beat p (Nat.le_trans hpos (isDesc_ge hd)) hn⟩

/-- state of the `replayGames` loop when the subtree rooted at the path node `c` has been repaired:
    `t1` is the tree the loop started from, `win0` the winner function before the leaf changed -/
structure LoopInv (le : E → E → Prop) (t1 : Tree E) (n : Nat) (win0 : Nat → Nat) (c : Nat)
    (t : Tree E) (pos : Nat) (wv : E) (win : Nat → Nat) : Prop where
  len : t.nodes.length = 2 * n
  less : t.less = t1.less
  maxVal : t.maxVal = t1.maxVal
  closed : t.closed = t1.closed
  sub : SubTourn le t n c win
  top : win c = pos
  posLeaf : n ≤ pos ∧ pos < 2 * n
  wv : val t pos = wv
  frameT : ∀ q, q < 2 * n → ¬ IsDesc c q → getNode t q = getNode t1 q
  leaves : ∀ l, n ≤ l → getNode t l = getNode t1 l
  frameW : ∀ q, ¬ IsDesc c q → win q = win0 q

/-- one iteration of the loop of `replayGames` at the ancestor `a` whose path child is `c` and
    whose other child is `s` -/
theorem replay_step {less0 : E → E → Bool} (hle1 : ∀ a b, less0 a b = true → le a b)
    (hle2 : ∀ a b, less0 a b = false → le b a)
    {told t1 : Tree E} (hl1 : t1.less = less0) {n : Nat} {win0 : Nat → Nat} (h0 : Tourn le told n win0) (hn : 1 ≤ n)
    {w0 : Nat} (hw0 : win0 1 = w0)
    (hdiff : ∀ q, q ≠ w0 → getNode t1 q = getNode told q)
    (a c s : Nat) (ha1 : 1 ≤ a) (han : a < n)
    (hcs : (c = 2 * a ∧ s = 2 * a + 1) ∨ (c = 2 * a + 1 ∧ s = 2 * a))
    (hdc : IsDesc c w0) (hpatha : win0 a = w0)
    {t : Tree E} {pos : Nat} {wv : E} {win : Nat → Nat} (inv : LoopInv le t1 n win0 c t pos wv win) :
    (t.less (getNode t a).value wv = true →
      LoopInv le t1 n win0 a
        (setNode t a { getNode t a with index := (pos : Int), value := wv })
        (getNode t a).index.toNat (getNode t a).value
        (fun q => if q = a then (getNode t a).index.toNat else win q)) ∧
    (t.less (getNode t a).value wv = false →
      LoopInv le t1 n win0 a t pos wv (fun q => if q = a then pos else win q)) := by
  have hc1 : 1 ≤ c := by rcases hcs with ⟨h, _⟩ | ⟨h, _⟩ <;> omega
  have hc2 : c < 2 * n := by rcases hcs with ⟨h, _⟩ | ⟨h, _⟩ <;> omega
  have hs1 : 1 ≤ s := by rcases hcs with ⟨_, h⟩ | ⟨_, h⟩ <;> omega
  have hs2 : s < 2 * n := by rcases hcs with ⟨_, h⟩ | ⟨_, h⟩ <;> omega
  have hca : ¬ IsDesc c a := fun h => by
    have := isDesc_ge h
    rcases hcs with ⟨h, _⟩ | ⟨h, _⟩ <;> omega
  have hsa' : ¬ IsDesc s a := fun h => by
    have := isDesc_ge h
    rcases hcs with ⟨_, h⟩ | ⟨_, h⟩ <;> omega
  have hdisj : ∀ q, IsDesc c q → IsDesc s q → False := by
    intro q h1 h2
    rcases hcs with ⟨hc, hs⟩ | ⟨hc, hs⟩
    · rw [hc] at h1; rw [hs] at h2; exact isDesc_disjoint ha1 h1 h2
    · rw [hc] at h1; rw [hs] at h2; exact isDesc_disjoint ha1 h2 h1
  have hsa : IsDesc a s := by
    rcases hcs with ⟨_, h⟩ | ⟨_, h⟩ <;> rw [h]
    · exact isDesc_right a
    · exact isDesc_left a
  have hcda : IsDesc a c := by
    rcases hcs with ⟨h, _⟩ | ⟨h, _⟩ <;> rw [h]
    · exact isDesc_left a
    · exact isDesc_right a
  have hwS := h0.win_range s hs1 hs2
  have hw0r := h0.win_range 1 (Nat.le_refl 1) (by omega)
  rw [hw0] at hw0r
  -- the old loser at `a` is the winner of the sibling subtree
  have hidx_old : idx told a = (win0 s : Int) := by
    rcases h0.node a ha1 han with ⟨hw, hi⟩ | ⟨hw, hi⟩ <;> rcases hcs with ⟨hc, hs⟩ | ⟨hc, hs⟩
    · rw [hs]; exact hi
    · exfalso
      rw [hpatha, ← hs] at hw
      exact hdisj w0 hdc (hw ▸ hwS.1)
    · exfalso
      rw [hpatha, ← hs] at hw
      exact hdisj w0 hdc (hw ▸ hwS.1)
    · rw [hs]; exact hi
  have hLw0 : win0 s ≠ w0 := fun h => hdisj w0 hdc (h ▸ hwS.1)
  have haw0 : a ≠ w0 := by omega
  have hnode_a : getNode t a = getNode told a := by
    rw [inv.frameT a (by omega) hca, hdiff a haw0]
  have hLc : ¬ IsDesc c (win0 s) := fun h => hdisj _ h hwS.1
  have hnode_L : getNode t (win0 s) = getNode told (win0 s) := by
    rw [inv.frameT _ hwS.2.2 hLc, hdiff _ hLw0]
  have hidx_a : (getNode t a).index = (win0 s : Int) := by rw [hnode_a]; exact hidx_old
  have hidx_a' : (getNode t a).index.toNat = win0 s := by rw [hidx_a, Int.toNat_natCast]
  have hval_a : (getNode t a).value = val t (win0 s) := by
    have := h0.copy a ha1 han
    simp only [val] at this ⊢
    rw [hnode_a, hnode_L, this, hidx_old, Int.toNat_natCast]
  -- the sibling subtree is a correct tournament in the current tree
  have hsameS : ∀ q, q < 2 * n → IsDesc s q → getNode t q = getNode told q := by
    intro q hq2 hq
    have hqw : q ≠ w0 := fun e => hdisj w0 hdc (e ▸ hq)
    rw [inv.frameT q hq2 (fun h => hdisj q h hq), hdiff q hqw]
  have hsubS : SubTourn le t n s win0 := (h0.sub s hs1).congr hs1 hsameS
  have hwinS : ∀ q, IsDesc s q → win q = win0 q := fun q hq => inv.frameW q (fun h => hdisj q h hq)
  -- rewriting `win0` to `win` on the sibling subtree
  have hsubS' : SubTourn le t n s win := by
    refine ⟨inv.sub.leaf, ?_, hsubS.copy, ?_⟩
    · intro p hdp hpn
      rw [hwinS p hdp, hwinS _ (isDesc_trans hdp (isDesc_left p)), hwinS _ (isDesc_trans hdp (isDesc_right p))]
      exact hsubS.node p hdp hpn
    · intro p hdp hpn
      rw [hwinS p hdp]; exact hsubS.beat p hdp hpn
  have hwin_s : win s = win0 s := hwinS s (isDesc_refl s)
  have hwin_c : win c = pos := inv.top
  -- a generic assembly: given the new tree `t'` (agreeing with `t` below `a`), the new content of
  -- node `a` and the new winner, the subtree at `a` is a tournament
  have assemble : ∀ (t' : Tree E) (wa : Nat),
      (∀ q, q ≠ a → getNode t' q = getNode t q) →
      ((wa = win c ∧ idx t' a = (win s : Int)) ∨ (wa = win s ∧ idx t' a = (win c : Int))) →
      val t' a = val t' (idx t' a).toNat → le (val t' wa) (val t' a) →
      SubTourn le t' n a (fun q => if q = a then wa else win q) := by
    intro t' wa hsame hnodeA hcopyA hbeatA
    have hne_of_desc : ∀ x q, (x = c ∨ x = s) → IsDesc x q → q ≠ a := by
      intro x q hx hd e
      rcases hx with rfl | rfl
      · exact hca (e ▸ hd)
      · exact hsa' (e ▸ hd)
    have hwq : ∀ x q, (x = c ∨ x = s) → IsDesc x q → (if q = a then wa else win q) = win q := by
      intro x q hx hd; simp [hne_of_desc x q hx hd]
    have hsubC' : SubTourn le t' n c win :=
      inv.sub.congr hc1 (fun q _ hq => hsame q (hne_of_desc c q (Or.inl rfl) hq))
    have hsubS'' : SubTourn le t' n s win :=
      hsubS'.congr hs1 (fun q _ hq => hsame q (hne_of_desc s q (Or.inr rfl) hq))
    have hchild : ∀ p, IsDesc a p → p = a ∨ IsDesc c p ∨ IsDesc s p := by
      intro p hp
      rcases isDesc_cases hp with h | h | h
      · exact Or.inl h
      · rcases hcs with ⟨hc, hs⟩ | ⟨hc, hs⟩
        · exact Or.inr (Or.inl (hc ▸ h))
        · exact Or.inr (Or.inr (hs ▸ h))
      · rcases hcs with ⟨hc, hs⟩ | ⟨hc, hs⟩
        · exact Or.inr (Or.inr (hs ▸ h))
        · exact Or.inr (Or.inl (hc ▸ h))
    refine ⟨?_, ?_, ?_, ?_⟩
    · intro q hq
      have : q ≠ a := by omega
      simp only [this, if_false]
      exact inv.sub.leaf q hq
    · intro p hdp hpn
      rcases hchild p hdp with rfl | hd | hd
      · simp only [if_true]
        have h2a : (2 * p ≠ p) := by omega
        have h2a1 : (2 * p + 1 ≠ p) := by omega
        simp only [h2a, h2a1, if_false]
        rcases hcs with ⟨hc, hs⟩ | ⟨hc, hs⟩
        · rw [hc, hs] at hnodeA; exact hnodeA
        · rw [hc, hs] at hnodeA
          rcases hnodeA with h | h
          · exact Or.inr h
          · exact Or.inl h
      · rw [hwq c p (Or.inl rfl) hd, hwq c _ (Or.inl rfl) (isDesc_trans hd (isDesc_left p)),
          hwq c _ (Or.inl rfl) (isDesc_trans hd (isDesc_right p))]
        exact hsubC'.node p hd hpn
      · rw [hwq s p (Or.inr rfl) hd, hwq s _ (Or.inr rfl) (isDesc_trans hd (isDesc_left p)),
          hwq s _ (Or.inr rfl) (isDesc_trans hd (isDesc_right p))]
        exact hsubS''.node p hd hpn
    · intro p hdp hpn
      rcases hchild p hdp with rfl | hd | hd
      · exact hcopyA
      · exact hsubC'.copy p hd hpn
      · exact hsubS''.copy p hd hpn
    · intro p hdp hpn
      rcases hchild p hdp with rfl | hd | hd
      · simp only [if_true]; exact hbeatA
      · rw [hwq c p (Or.inl rfl) hd]; exact hsubC'.beat p hd hpn
      · rw [hwq s p (Or.inr rfl) hd]; exact hsubS''.beat p hd hpn
  have hframeW : ∀ (wa : Nat) q, ¬ IsDesc a q → (if q = a then wa else win q) = win0 q := by
    intro wa q hq
    have h1 : q ≠ a := fun e => hq (e ▸ isDesc_refl a)
    simp only [h1, if_false]
    exact inv.frameW q (fun h => hq (isDesc_trans hcda h))
  have hLleaf : n ≤ win0 s ∧ win0 s < 2 * n := hwS.2
  constructor
  · -- the stored loser beats the candidate: swap
    intro hless
    have hget_a : getNode (setNode t a { getNode t a with index := (pos : Int), value := wv }) a
        = { getNode t a with index := (pos : Int), value := wv } :=
      getNode_setNode_same t a _ (by rw [inv.len]; omega)
    have hget_ne : ∀ q, q ≠ a → getNode (setNode t a { getNode t a with index := (pos : Int), value := wv }) q = getNode t q :=
      fun q hq => getNode_setNode_ne t a q _ (fun e => hq e.symm)
    have hposa : pos ≠ a := by have := inv.posLeaf; omega
    have hLa : win0 s ≠ a := by omega
    refine ⟨by rw [setNode_length]; exact inv.len, by rw [setNode_less]; exact inv.less,
      by rw [setNode_maxVal]; exact inv.maxVal, by rw [setNode_closed]; exact inv.closed, ?_, by simp, ?_, ?_, ?_, ?_, ?_⟩
    · apply assemble _ _ hget_ne
      · right
        refine ⟨by rw [hidx_a', hwin_s], ?_⟩
        simp only [idx, hget_a, hwin_c]
      · simp only [val, idx, hget_a, Int.toNat_natCast]
        rw [hget_ne pos hposa]
        exact inv.wv.symm
      · simp only [val, hget_a]
        rw [hidx_a', hget_ne _ hLa]
        have : (getNode t (win0 s)).value = (getNode t a).value := by rw [hval_a]; rfl
        rw [this]
        exact hle1 _ _ (by rw [← hl1, ← inv.less]; exact hless)
    · rw [hidx_a']; exact hLleaf
    · simp only [val]
      rw [hidx_a', hget_ne _ hLa, hval_a]; rfl
    · intro q hq2 hq
      have h1 : q ≠ a := fun e => hq (e ▸ isDesc_refl a)
      rw [hget_ne q h1]
      exact inv.frameT q hq2 (fun h => hq (isDesc_trans hcda h))
    · intro l hl
      rw [hget_ne l (by omega)]
      exact inv.leaves l hl
    · exact hframeW _
  · -- the candidate stays the winner
    intro hless
    refine ⟨inv.len, inv.less, inv.maxVal, inv.closed, ?_, by simp, inv.posLeaf, inv.wv, ?_, inv.leaves, hframeW _⟩
    · apply assemble t pos (fun _ _ => rfl)
      · left
        refine ⟨hwin_c.symm, ?_⟩
        simp only [idx]; rw [hidx_a, hwin_s]
      · simp only [val, idx]
        rw [hidx_a']
        have := hval_a
        simp only [val] at this
        exact this
      · rw [inv.wv]
        exact hle2 _ _ (by rw [← hl1, ← inv.less]; exact hless)
    · intro q hq2 hq
      exact inv.frameT q hq2 (fun h => hq (isDesc_trans hcda h))

/-- the whole loop of `replayGames`, started with the subtree at the path node `w0 / 2^k` repaired -/
theorem replayLoop_spec {less0 : E → E → Bool} (hle1 : ∀ a b, less0 a b = true → le a b)
    (hle2 : ∀ a b, less0 a b = false → le b a)
    {told t1 : Tree E} (hl1 : t1.less = less0)
    {n : Nat} {win0 : Nat → Nat} (h0 : Tourn le told n win0) (hn : 1 ≤ n)
    {w0 : Nat} (hw0 : win0 1 = w0)
    (hdiff : ∀ q, q ≠ w0 → getNode t1 q = getNode told q) :
    ∀ (fuel k : Nat) (t : Tree E) (pos : Nat) (wv : E) (win : Nat → Nat),
      1 ≤ w0 / 2 ^ k → w0 / 2 ^ k / 2 < 2 ^ fuel →
      LoopInv le t1 n win0 (w0 / 2 ^ k) t pos wv win →
      ∃ win', LoopInv le t1 n win0 1 (replayLoop fuel t (w0 / 2 ^ k / 2) pos wv).1
        (replayLoop fuel t (w0 / 2 ^ k / 2) pos wv).2.1 (replayLoop fuel t (w0 / 2 ^ k / 2) pos wv).2.2 win'
  | 0, k, t, pos, wv, win, hc1, hf, inv => by
    have ha : w0 / 2 ^ k / 2 = 0 := by simpa using hf
    have hc : w0 / 2 ^ k = 1 := by omega
    simp only [replayLoop]
    exact ⟨win, hc ▸ inv⟩
  | fuel + 1, k, t, pos, wv, win, hc1, hf, inv => by
    unfold replayLoop
    by_cases ha : w0 / 2 ^ k / 2 = 0
    · have hc : w0 / 2 ^ k = 1 := by omega
      simp only [ha, if_true]
      exact ⟨win, hc ▸ inv⟩
    · simp only [ha, if_false]
      have hw0r := h0.win_range 1 (Nat.le_refl 1) (by omega)
      rw [hw0] at hw0r
      have hcle : w0 / 2 ^ k ≤ w0 := Nat.div_le_self _ _
      have ha1 : 1 ≤ w0 / 2 ^ k / 2 := by omega
      have han : w0 / 2 ^ k / 2 < n := by omega
      -- the sibling
      have hcs : ∃ s, (w0 / 2 ^ k = 2 * (w0 / 2 ^ k / 2) ∧ s = 2 * (w0 / 2 ^ k / 2) + 1) ∨
          (w0 / 2 ^ k = 2 * (w0 / 2 ^ k / 2) + 1 ∧ s = 2 * (w0 / 2 ^ k / 2)) := by
        rcases Nat.mod_two_eq_zero_or_one (w0 / 2 ^ k) with h | h
        · exact ⟨_, Or.inl ⟨by omega, rfl⟩⟩
        · exact ⟨_, Or.inr ⟨by omega, rfl⟩⟩
      obtain ⟨s, hcs⟩ := hcs
      -- the winner wins at the ancestor as well
      have hpatha : win0 (w0 / 2 ^ k / 2) = w0 := by
        obtain ⟨j, hj⟩ := isDesc_root (w0 / 2 ^ k / 2) ha1
        have h1 : w0 / 2 ^ (k + 1 + j) = 1 := by rw [div_pow_add, div_pow_succ]; exact hj
        have := h0.path_win hn j (k + 1) (by rw [hw0]; exact h1)
        rw [hw0, div_pow_succ] at this
        exact this
      have hstep := replay_step hle1 hle2 hl1 h0 hn hw0 hdiff (w0 / 2 ^ k / 2) (w0 / 2 ^ k) s ha1 han hcs
        ⟨k, rfl⟩ hpatha inv
      have hk1 : w0 / 2 ^ (k + 1) = w0 / 2 ^ k / 2 := div_pow_succ w0 k
      have hf' : w0 / 2 ^ (k + 1) / 2 < 2 ^ fuel := by
        rw [hk1]; rw [Nat.pow_succ] at hf; omega
      cases hless : t.less (getNode t (w0 / 2 ^ k / 2)).value wv with
      | true =>
        simp only [if_true]
        have inv' := hstep.1 hless
        rw [← hk1] at inv' ⊢
        exact replayLoop_spec hle1 hle2 hl1 h0 hn hw0 hdiff fuel (k + 1) _ _ _ _ (by rw [hk1]; exact ha1) hf' inv'
      | false =>
        simp only [Bool.false_eq_true, if_false]
        have inv' := hstep.2 hless
        rw [← hk1] at inv' ⊢
        exact replayLoop_spec hle1 hle2 hl1 h0 hn hw0 hdiff fuel (k + 1) _ _ _ _ (by rw [hk1]; exact ha1) hf' inv'

/-- an initialised tree: tournament invariant plus node 0 = the overall winner -/
structure Ready (le : E → E → Prop) (t : Tree E) (n : Nat) (win : Nat → Nat) : Prop where
  len : t.nodes.length = 2 * n
  npos : 1 ≤ n
  tourn : Tourn le t n win
  rootIdx : idx t 0 = (win 1 : Int)
  rootVal : val t 0 = val t (win 1)

theorem tourn_setRoot {t : Tree E} {n : Nat} {win : Nat → Nat} (h : Tourn le t n win) (hn : 1 ≤ n)
    (hlen : t.nodes.length = 2 * n) (x : Node E) : Tourn le (setNode t 0 x) n win := by
  have hg : ∀ q, 1 ≤ q → getNode (setNode t 0 x) q = getNode t q :=
    fun q hq => getNode_setNode_ne t 0 q x (by omega)
  have hv : ∀ q, 1 ≤ q → val (setNode t 0 x) q = val t q := fun q hq => by simp only [val, hg q hq]
  have hi : ∀ q, 1 ≤ q → idx (setNode t 0 x) q = idx t q := fun q hq => by simp only [idx, hg q hq]
  refine ⟨h.leaf, ?_, ?_, ?_⟩
  · intro p hp hpn; rw [hi p hp]; exact h.node p hp hpn
  · intro p hp hpn
    have hs := (h.sub 1 (Nat.le_refl 1)).idx_leaf (Nat.le_refl 1) p (isDesc_root p hp) hpn
    rw [hi p hp, hv p hp, hv _ (by omega)]
    exact h.copy p hp hpn
  · intro p hp hpn
    have hw := h.win_range p hp (by omega)
    rw [hv p hp, hv _ (by omega)]
    exact h.beat p hp hpn

/-- **`replayGames`** restores the invariant after the winner's leaf changed, and touches no leaf -/
theorem replayGames_spec {less0 : E → E → Bool} (hle1 : ∀ a b, less0 a b = true → le a b)
    (hle2 : ∀ a b, less0 a b = false → le b a)
    {told t1 : Tree E} {n : Nat} {win0 : Nat → Nat} (h0 : Ready le told n win0)
    (hl1 : t1.less = less0) (hlen1 : t1.nodes.length = 2 * n)
    (hdiff : ∀ q, q ≠ win0 1 → getNode t1 q = getNode told q) :
    ∃ win', Ready le (replayGames t1 (win0 1)) n win' ∧
      (∀ l, n ≤ l → getNode (replayGames t1 (win0 1)) l = getNode t1 l) ∧
      (replayGames t1 (win0 1)).less = t1.less ∧ (replayGames t1 (win0 1)).maxVal = t1.maxVal ∧
      (replayGames t1 (win0 1)).closed = t1.closed := by
  have hn := h0.npos
  have hw0r := h0.tourn.win_range 1 (Nat.le_refl 1) (by omega)
  generalize hw0 : win0 1 = w0 at *
  -- the loop starts with the (trivial) subtree at the leaf itself
  have inv0 : LoopInv le t1 n win0 (w0 / 2 ^ 0) t1 w0 (val t1 w0) win0 := by
    simp only [Nat.pow_zero, Nat.div_one]
    refine ⟨hlen1, rfl, rfl, rfl, ⟨h0.tourn.leaf, ?_, ?_, ?_⟩, h0.tourn.leaf w0 hw0r.2.1, hw0r.2, rfl,
      fun _ _ _ => rfl, fun _ _ => rfl, fun _ _ => rfl⟩
    all_goals
      intro p hdp hpn
      have := isDesc_ge hdp
      omega
  have hfuel : w0 / 2 ^ 0 / 2 < 2 ^ t1.nodes.length := by
    simp only [Nat.pow_zero, Nat.div_one]
    have : t1.nodes.length < 2 ^ t1.nodes.length := Nat.lt_two_pow_self
    omega
  obtain ⟨win', hinv⟩ := replayLoop_spec hle1 hle2 hl1 h0.tourn hn hw0 hdiff t1.nodes.length 0 t1 w0 (val t1 w0) win0
    (by simp only [Nat.pow_zero, Nat.div_one]; omega) hfuel inv0
  simp only [Nat.pow_zero, Nat.div_one] at hinv
  unfold replayGames
  generalize hrl : replayLoop t1.nodes.length t1 (w0 / 2) w0 (getNode t1 w0).value = rl at hinv
  have hvv : val t1 w0 = (getNode t1 w0).value := rfl
  rw [hvv] at hinv
  rw [hrl] at hinv
  obtain ⟨t2, p, w⟩ := rl
  simp only at hinv ⊢
  have hT := hinv.sub.toTourn
  have hlen2 := hinv.len
  have hroot : getNode (setNode t2 0 { getNode t2 0 with index := (p : Int), value := w }) 0
      = { getNode t2 0 with index := (p : Int), value := w } := getNode_setNode_same t2 0 _ (by omega)
  have hne : ∀ q, 1 ≤ q → getNode (setNode t2 0 { getNode t2 0 with index := (p : Int), value := w }) q = getNode t2 q :=
    fun q hq => getNode_setNode_ne t2 0 q _ (by omega)
  refine ⟨win', ⟨by rw [setNode_length]; exact hlen2, hn, tourn_setRoot hT hn hlen2 _, ?_, ?_⟩, ?_,
    by rw [setNode_less]; exact hinv.less, by rw [setNode_maxVal]; exact hinv.maxVal,
    by rw [setNode_closed]; exact hinv.closed⟩
  · simp only [idx, hroot, hinv.top]
  · simp only [val, hroot]
    rw [hinv.top, hne p (by have := hinv.posLeaf; omega)]
    exact hinv.wv.symm
  · intro l hl
    rw [hne l (by omega)]
    exact hinv.leaves l hl

/-- **`initialize`** establishes the invariant and touches no leaf -/
theorem initTree_spec {less0 : E → E → Bool} (hle1 : ∀ a b, less0 a b = true → le a b)
    (hle2 : ∀ a b, less0 a b = false → le b a)
    (t : Tree E) (n : Nat) (hl : t.less = less0) (hlen : t.nodes.length = 2 * n) (hn : 1 ≤ n) :
    ∃ win, Ready le (initTree t) n win ∧ (∀ l, n ≤ l → getNode (initTree t) l = getNode t l) ∧
      (initTree t).less = t.less ∧ (initTree t).maxVal = t.maxVal ∧ (initTree t).closed = t.closed := by
  unfold initTree
  have hfuel : n ≤ 1 * 2 ^ t.nodes.length := by
    have : t.nodes.length < 2 ^ t.nodes.length := Nat.lt_two_pow_self
    omega
  have hP := playGame_spec hle1 hle2 t.nodes.length t n 1 hl hlen (Nat.le_refl 1) (by omega) hfuel
  generalize playGame t.nodes.length t 1 = r at hP
  obtain ⟨t1, winner⟩ := r
  simp only at hP ⊢
  obtain ⟨win, hS, hw⟩ := hP.tourn
  have hT := hS.toTourn
  have hwr := hT.win_range 1 (Nat.le_refl 1) (by omega)
  have hroot : getNode (setNode t1 0 { getNode t1 0 with index := (winner : Int), value := (getNode t1 winner).value }) 0
      = { getNode t1 0 with index := (winner : Int), value := (getNode t1 winner).value } :=
    getNode_setNode_same t1 0 _ (by rw [hP.len]; omega)
  have hne : ∀ q, 1 ≤ q → getNode (setNode t1 0 { getNode t1 0 with index := (winner : Int), value := (getNode t1 winner).value }) q = getNode t1 q :=
    fun q hq => getNode_setNode_ne t1 0 q _ (by omega)
  refine ⟨win, ⟨by rw [setNode_length]; exact hP.len, hn, tourn_setRoot hT hn hP.len _, ?_, ?_⟩, ?_,
    by rw [setNode_less]; exact hP.less, by rw [setNode_maxVal]; exact hP.maxVal,
    by rw [setNode_closed]; exact hP.closed⟩
  · simp only [idx, hroot, hw]
  · simp only [val, hroot]
    rw [hw] at hwr ⊢
    rw [hne winner (by omega)]
  · intro l hl'
    rw [hne l (by omega)]
    exact hP.frame l (fun ⟨_, h⟩ => by omega)

end Thanos.LoserTree
