import Thanos.Model.Labels
/-
  Helper lemmas for C08: `lookup` through Builder operations, sortedness of Builder results.
-/
namespace Thanos.Labels

/-- strictly sorted by name: sorted and no duplicate names (what `labels.Labels` promises) -/
def StrictSorted (l : Labels) : Prop := l.Pairwise (fun a b => a.1 < b.1)

def names (l : Labels) : List Nat := l.map (·.1)

/-! ### lookup -/

theorem lookup_none_iff : ∀ (l : Labels) (n : Nat), lookup l n = none ↔ n ∉ names l
  | [], n => by simp [lookup, names]
  | (m, v) :: r, n => by
    simp only [lookup, names, List.map_cons, List.mem_cons]
    split
    next h => simp [h]
    next h =>
      rw [lookup_none_iff r n]
      simp only [names]
      constructor
      · intro h1 h2
        rcases h2 with h2 | h2
        · exact h h2.symm
        · exact h1 h2
      · intro h1 h2
        exact h1 (Or.inr h2)

theorem lookup_filter (q : Nat → Bool) : ∀ (l : Labels) (n : Nat),
    lookup (l.filter (fun x => q x.1)) n = if q n then lookup l n else none
  | [], n => by simp [lookup]
  | (m, v) :: r, n => by
    simp only [List.filter]
    cases hq : q m with
    | true =>
      simp only [lookup]
      split
      next h => subst h; simp [hq]
      next h => exact lookup_filter q r n
    | false =>
      rw [lookup_filter q r n]
      by_cases hmn : m = n
      · subst hmn; simp [hq]
      · simp [lookup, hmn]

theorem lookup_append (a b : Labels) (n : Nat) :
    lookup (a ++ b) n = match lookup a n with | some v => some v | none => lookup b n := by
  induction a with
  | nil => simp [lookup]
  | cons x xs ih =>
    obtain ⟨m, v⟩ := x
    simp only [List.cons_append, lookup]
    split
    · rfl
    · exact ih

theorem lookup_setAdd : ∀ (a : Labels) (n v m : Nat),
    lookup (setAdd a n v) m = if m = n then some v else lookup a m
  | [], n, v, m => by
    simp only [setAdd, lookup]
    split
    next h => simp [h]
    next h => have : ¬ m = n := fun h' => h h'.symm
              simp [this]
  | (k, w) :: r, n, v, m => by
    simp only [setAdd]
    split
    next h =>
      subst h
      simp only [lookup]
      split
      next h2 => simp [h2]
      next h2 => have : ¬ m = k := fun h' => h2 h'.symm
                 simp [this]
    next h =>
      simp only [lookup]
      split
      next h2 =>
        subst h2
        have : ¬ k = n := h
        simp [this]
      next h2 => exact lookup_setAdd r n v m

theorem lookup_insertByName (x : Label) : ∀ (l : Labels) (n : Nat),
    lookup (insertByName x l) n = if x.1 = n then some x.2 else lookup l n
  | [], n => by simp [insertByName, lookup]
  | (k, w) :: ys, n => by
    simp only [insertByName]
    split
    next h => simp [lookup]
    next h =>
      simp only [lookup]
      split
      next h2 =>
        subst h2
        have : ¬ x.1 = k := by omega
        simp [this]
      next h2 => exact lookup_insertByName x ys n

theorem lookup_sortByName : ∀ (l : Labels) (n : Nat), lookup (sortByName l) n = lookup l n
  | [], n => by simp [sortByName]
  | (k, w) :: r, n => by
    have ih := lookup_sortByName r n
    simp only [sortByName, List.foldr] at ih ⊢
    rw [lookup_insertByName, ih]
    simp [lookup]

/-! ### Builder.Get as a function, and how set / delete / labels act on it -/

/-- `Builder.Get` (with "absent" kept apart from "empty") -/
def bget (b : Builder) (n : Nat) : Option Nat :=
  match lookup b.add n with
  | some v => some v
  | none => if b.del.contains n then none else lookup b.base n

theorem bget_delete (b : Builder) (n m : Nat) :
    bget (b.delete n) m = if m = n then none else bget b m := by
  unfold bget Builder.delete
  simp only
  have hf : lookup (b.add.filter (fun l => l.1 != n)) m = if (m != n) then lookup b.add m else none :=
    lookup_filter (fun k => k != n) b.add m
  rw [hf]
  by_cases h : m = n
  · subst h
    simp
  · simp [h]

theorem bget_set (b : Builder) (n v m : Nat) :
    bget (b.set n v) m = if m = n then (if v = 0 then none else some v) else bget b m := by
  unfold Builder.set
  split
  next hv => rw [bget_delete]
  next hv =>
    unfold bget
    simp only [lookup_setAdd]
    by_cases h : m = n <;> simp [h]

theorem lookup_labels (b : Builder) (n : Nat) : lookup b.labels n = bget b n := by
  unfold Builder.labels bget
  split
  next h =>
    simp only [Bool.and_eq_true, List.isEmpty_iff] at h
    simp [h.1, h.2, lookup]
  next h =>
    have hres : lookup (b.base.filter (fun l => !(b.del.contains l.1) && !(hasName b.add l.1))) n
        = if (!(b.del.contains n) && !(hasName b.add n)) then lookup b.base n else none :=
      lookup_filter (fun k => !(b.del.contains k) && !(hasName b.add k)) b.base n
    simp only
    split
    next ha =>
      simp only [List.isEmpty_iff] at ha
      rw [hres]
      simp [ha, lookup, hasName]
    next ha =>
      rw [lookup_sortByName, lookup_append, hres]
      cases hadd : lookup b.add n with
      | some v => simp [hasName, hadd]
      | none =>
        simp only [hasName, hadd, Option.isSome_none, Bool.not_false, Bool.and_true]
        cases hd : b.del.contains n with
        | true => simp
        | false =>
          simp only [Bool.not_false, if_true]
          cases lookup b.base n <;> simp

/-- what the external value does to a label: present and non-empty overrides, present and empty deletes -/
def override (e : Option Nat) (old : Option Nat) : Option Nat :=
  match e with
  | some 0 => none
  | some v => some v
  | none => old

theorem bget_foldl_set : ∀ (ext : Labels) (b : Builder) (n : Nat), (names ext).Nodup →
    bget (ext.foldl (fun b l => b.set l.1 l.2) b) n = override (lookup ext n) (bget b n)
  | [], b, n, _ => by simp [lookup, override]
  | (k, w) :: r, b, n, hnd => by
    have hnd' := List.nodup_cons.mp hnd
    simp only [List.foldl_cons]
    rw [bget_foldl_set r _ n hnd'.2, bget_set]
    by_cases h : k = n
    · subst h
      have : lookup r k = none := (lookup_none_iff r k).mpr hnd'.1
      simp only [lookup, if_true, this, override]
      cases w with
      | zero => simp
      | succ w => simp
    · have h' : ¬ n = k := fun e => h e.symm
      simp [lookup, h, h']

/-- no label with an empty value: what TSDB stores and what legal external label sets are.  (A stored label
    with an empty value is dropped by `NewBuilder`, but survives when no Builder is involved; the correspondence
    covers those inputs, the theorems below are about legal label sets.) -/
def NoEmpty (l : Labels) : Prop := ∀ x ∈ l, x.2 ≠ 0

theorem emptyNames_nil (l : Labels) (h : NoEmpty l) : emptyNames l = [] := by
  unfold emptyNames
  have : l.filter (fun x => x.2 == 0) = [] := by
    rw [List.filter_eq_nil_iff]
    intro a ha
    simpa using h a ha
  rw [this]
  rfl

theorem lookup_extendSorted (lset ext : Labels) (n : Nat) (h : (names ext).Nodup) (hl : NoEmpty lset) :
    lookup (extendSorted lset ext) n = override (lookup ext n) (lookup lset n) := by
  unfold extendSorted
  split
  next he =>
    simp only [List.isEmpty_iff] at he
    subst he
    simp [lookup, override]
  next he =>
    rw [lookup_labels, bget_foldl_set ext _ n h]
    simp [bget, newBuilder, lookup, emptyNames_nil lset hl]

/-! ### rm -/

theorem foldl_delete : ∀ (R : List Nat) (l : Labels) (d : List Nat),
    R.foldl Builder.delete ⟨l, d, []⟩ = ⟨l, d ++ R, []⟩
  | [], l, d => by simp
  | r :: rs, l, d => by
    simp only [List.foldl_cons, Builder.delete, List.filter_nil]
    rw [foldl_delete rs l (d ++ [r])]
    simp

theorem rm_eq_filter (R : List Nat) (l : Labels) (hl : NoEmpty l) :
    rm R l = l.filter (fun x => !(R.contains x.1)) := by
  unfold rm newBuilder
  rw [emptyNames_nil l hl, foldl_delete]
  unfold Builder.labels
  simp only [List.nil_append, List.isEmpty_nil, Bool.and_true]
  split
  next h =>
    simp only [List.isEmpty_iff] at h
    subst h
    symm
    rw [List.filter_eq_self]
    intro a _
    rfl
  next h =>
    simp [hasName, lookup]

theorem lookup_rm (R : List Nat) (l : Labels) (n : Nat) (hl : NoEmpty l) :
    lookup (rm R l) n = if R.contains n then none else lookup l n := by
  rw [rm_eq_filter R l hl]
  have := lookup_filter (fun k => !(R.contains k)) l n
  rw [this]
  cases R.contains n <;> simp

/-! ### sortedness -/

theorem mem_insertByName (x : Label) : ∀ (l : Labels) (y : Label), y ∈ insertByName x l ↔ y = x ∨ y ∈ l
  | [], y => by simp [insertByName]
  | z :: zs, y => by
    simp only [insertByName]
    split
    · simp
    · simp only [List.mem_cons, mem_insertByName x zs y]
      constructor
      · rintro (h | h | h)
        · exact Or.inr (Or.inl h)
        · exact Or.inl h
        · exact Or.inr (Or.inr h)
      · rintro (h | h | h)
        · exact Or.inr (Or.inl h)
        · exact Or.inl h
        · exact Or.inr (Or.inr h)

theorem mem_sortByName : ∀ (l : Labels) (y : Label), y ∈ sortByName l ↔ y ∈ l
  | [], y => by simp [sortByName]
  | x :: xs, y => by
    have ih := mem_sortByName xs y
    simp only [sortByName, List.foldr] at ih ⊢
    rw [mem_insertByName, ih]
    simp

theorem insertByName_sorted (x : Label) : ∀ (l : Labels), StrictSorted l → (∀ y ∈ l, y.1 ≠ x.1) →
    StrictSorted (insertByName x l)
  | [], _, _ => by simp [insertByName, StrictSorted]
  | z :: zs, h, hne => by
    have hz := List.pairwise_cons.mp h
    simp only [insertByName]
    split
    next hle =>
      have hlt : x.1 < z.1 := by
        have := hne z (by simp)
        omega
      apply List.pairwise_cons.mpr
      refine ⟨?_, h⟩
      intro a ha
      rcases List.mem_cons.mp ha with rfl | ha'
      · exact hlt
      · have := hz.1 a ha'
        omega
    next hgt =>
      apply List.pairwise_cons.mpr
      refine ⟨?_, insertByName_sorted x zs hz.2 (fun y hy => hne y (List.mem_cons_of_mem _ hy))⟩
      intro a ha
      rcases (mem_insertByName x zs a).mp ha with rfl | ha'
      · omega
      · exact hz.1 a ha'

theorem sortByName_sorted : ∀ (l : Labels), (names l).Nodup → StrictSorted (sortByName l)
  | [], _ => by simp [sortByName, StrictSorted]
  | x :: xs, h => by
    have hx := List.nodup_cons.mp (show (x.1 :: names xs).Nodup from h)
    have ih := sortByName_sorted xs hx.2
    simp only [sortByName, List.foldr] at ih ⊢
    apply insertByName_sorted x _ ih
    intro y hy hxy
    have hy' : y ∈ xs := (mem_sortByName xs y).mp hy
    apply hx.1
    rw [← hxy]
    exact List.mem_map.mpr ⟨y, hy', rfl⟩

theorem strictSorted_names_nodup : ∀ (l : Labels), StrictSorted l → (names l).Nodup
  | [], _ => by simp [names]
  | x :: xs, h => by
    have hx := List.pairwise_cons.mp h
    simp only [names, List.map_cons]
    apply List.nodup_cons.mpr
    refine ⟨?_, strictSorted_names_nodup xs hx.2⟩
    intro hm
    obtain ⟨y, hy, hyx⟩ := List.mem_map.mp hm
    have := hx.1 y hy
    omega

theorem filter_sorted (p : Label → Bool) (l : Labels) (h : StrictSorted l) : StrictSorted (l.filter p) :=
  List.Pairwise.filter p h

theorem names_filter_nodup (p : Label → Bool) : ∀ (l : Labels), (names l).Nodup → (names (l.filter p)).Nodup
  | [], _ => by simp [names]
  | x :: xs, h => by
    have hx := List.nodup_cons.mp (show (x.1 :: names xs).Nodup from h)
    have ih := names_filter_nodup p xs hx.2
    simp only [List.filter]
    split
    · simp only [names, List.map_cons]
      apply List.nodup_cons.mpr
      refine ⟨?_, ih⟩
      intro hm
      obtain ⟨y, hy, hyx⟩ := List.mem_map.mp hm
      apply hx.1
      rw [← hyx]
      exact List.mem_map.mpr ⟨y, (List.mem_filter.mp hy).1, rfl⟩
    · exact ih

theorem names_setAdd_nodup : ∀ (a : Labels) (n v : Nat), (names a).Nodup → (names (setAdd a n v)).Nodup
  | [], n, v, _ => by simp [setAdd, names]
  | (k, w) :: r, n, v, h => by
    have hk := List.nodup_cons.mp (show (k :: names r).Nodup from h)
    simp only [setAdd]
    split
    next heq => exact h
    next hne =>
      simp only [names, List.map_cons]
      apply List.nodup_cons.mpr
      refine ⟨?_, names_setAdd_nodup r n v hk.2⟩
      intro hm
      obtain ⟨y, hy, hyk⟩ := List.mem_map.mp hm
      -- y ∈ setAdd r n v with y.1 = k: either y.1 = n (impossible, k ≠ n) or y came from r
      have : lookup (setAdd r n v) k ≠ none := by
        intro hnone
        have := (lookup_none_iff _ k).mp hnone
        apply this
        rw [← hyk]
        exact List.mem_map.mpr ⟨y, hy, rfl⟩
      rw [lookup_setAdd] at this
      simp only [hne, if_false] at this
      apply hk.1
      exact Decidable.byContradiction fun hn => this ((lookup_none_iff r k).mpr hn)

theorem add_nodup_set (b : Builder) (n v : Nat) (h : (names b.add).Nodup) : (names (b.set n v).add).Nodup := by
  unfold Builder.set
  split
  · exact names_filter_nodup _ _ h
  · exact names_setAdd_nodup _ _ _ h

theorem add_nodup_foldl : ∀ (ext : Labels) (b : Builder), (names b.add).Nodup →
    (names (ext.foldl (fun b l => b.set l.1 l.2) b).add).Nodup
  | [], b, h => by simpa using h
  | x :: xs, b, h => by
    simp only [List.foldl_cons]
    exact add_nodup_foldl xs _ (add_nodup_set b x.1 x.2 h)

theorem base_set (b : Builder) (n v : Nat) : (b.set n v).base = b.base := by
  unfold Builder.set Builder.delete
  split <;> rfl

theorem base_foldl : ∀ (ext : Labels) (b : Builder), (ext.foldl (fun b l => b.set l.1 l.2) b).base = b.base
  | [], b => rfl
  | x :: xs, b => by
    simp only [List.foldl_cons]
    rw [base_foldl xs, base_set]

theorem labels_sorted (b : Builder) (hb : StrictSorted b.base) (ha : (names b.add).Nodup) :
    StrictSorted b.labels := by
  unfold Builder.labels
  split
  · exact hb
  · simp only
    split
    · exact filter_sorted _ _ hb
    · apply sortByName_sorted
      simp only [names, List.map_append]
      rw [List.nodup_append]
      refine ⟨names_filter_nodup _ _ (strictSorted_names_nodup _ hb), ha, ?_⟩
      intro x hx y hy hxy
      subst hxy
      obtain ⟨l, hl, hlx⟩ := List.mem_map.mp hx
      have hf := (List.mem_filter.mp hl).2
      simp only [Bool.and_eq_true, Bool.not_eq_true'] at hf
      have hnone : lookup b.add l.1 = none := by
        have := hf.2
        simp only [hasName] at this
        cases hlk : lookup b.add l.1 with
        | none => rfl
        | some v => simp [hlk] at this
      have := (lookup_none_iff _ _).mp hnone
      apply this
      rw [hlx]
      exact hy

theorem extendSorted_sorted (lset ext : Labels) (h : StrictSorted lset) : StrictSorted (extendSorted lset ext) := by
  unfold extendSorted
  split
  · exact h
  · apply labels_sorted
    · rw [base_foldl]; exact h
    · exact add_nodup_foldl ext _ (by simp [newBuilder, names])

theorem rm_sorted (R : List Nat) (l : Labels) (h : StrictSorted l) (hl : NoEmpty l) : StrictSorted (rm R l) := by
  rw [rm_eq_filter R l hl]
  exact filter_sorted _ _ h

theorem names_rm_nodup (R : List Nat) (l : Labels) (h : (names l).Nodup) (hl : NoEmpty l) : (names (rm R l)).Nodup := by
  rw [rm_eq_filter R l hl]
  exact names_filter_nodup _ _ h

theorem rm_noEmpty (R : List Nat) (l : Labels) (hl : NoEmpty l) : NoEmpty (rm R l) := by
  rw [rm_eq_filter R l hl]
  intro x hx
  exact hl x (List.mem_filter.mp hx).1

/-- two strictly sorted label sets with the same `lookup` are equal -/
theorem sorted_lookup_ext : ∀ (l1 l2 : Labels), StrictSorted l1 → StrictSorted l2 →
    (∀ n, lookup l1 n = lookup l2 n) → l1 = l2
  | [], [], _, _, _ => rfl
  | [], (b, w) :: t2, _, _, h => by
    have := h b
    simp [lookup] at this
  | (a, v) :: t1, [], _, _, h => by
    have := h a
    simp [lookup] at this
  | (a, v) :: t1, (b, w) :: t2, h1, h2, h => by
    have p1 := List.pairwise_cons.mp h1
    have p2 := List.pairwise_cons.mp h2
    have hn1 : ∀ n, n ≤ a → lookup t1 n = none := by
      intro n hn
      apply (lookup_none_iff t1 n).mpr
      intro hm
      obtain ⟨y, hy, hyn⟩ := List.mem_map.mp hm
      have := p1.1 y hy
      omega
    have hn2 : ∀ n, n ≤ b → lookup t2 n = none := by
      intro n hn
      apply (lookup_none_iff t2 n).mpr
      intro hm
      obtain ⟨y, hy, hyn⟩ := List.mem_map.mp hm
      have := p2.1 y hy
      omega
    have hab : a = b := by
      rcases Nat.lt_trichotomy a b with hlt | heq | hgt
      · have := h a
        simp only [lookup, if_true] at this
        have hne : ¬ b = a := by omega
        simp only [hne, if_false] at this
        rw [hn2 a (by omega)] at this
        simp at this
      · exact heq
      · have := h b
        simp only [lookup, if_true] at this
        have hne : ¬ a = b := by omega
        simp only [hne, if_false] at this
        rw [hn1 b (by omega)] at this
        simp at this
    subst hab
    have hvw : v = w := by
      have := h a
      simpa [lookup] using this
    subst hvw
    have : t1 = t2 := by
      apply sorted_lookup_ext t1 t2 p1.2 p2.2
      intro n
      by_cases hna : a = n
      · subst hna
        rw [hn1 a (Nat.le_refl _), hn2 a (Nat.le_refl _)]
      · have := h n
        simpa [lookup, hna] using this
    rw [this]

end Thanos.Labels
