import Thanos.Model.Capnp
/-
  Helper lemmas for C25: the symbol table round trip and the "later insertions do not disturb
  earlier indices" argument.
-/
namespace Thanos.Capnp

/-- the interned strings in index order -/
def syms (b : Builder) : List Str := b.entries.map (·.str)

/-- entries carry consecutive indices from `idx` and contiguous starts from `start`, ending at `size` -/
def WFfrom : Nat → Nat → List Entry → Nat → Prop
  | _, start, [], size => start = size
  | idx, start, e :: es, size => e.index = idx ∧ e.start = start ∧ WFfrom (idx + 1) (start + e.str.length) es size

def WF (b : Builder) : Prop := WFfrom 0 0 b.entries b.size

theorem wf_empty : WF Builder.empty := by simp [WF, WFfrom, Builder.empty]

theorem wffrom_append {idx start : Nat} {es : List Entry} {size : Nat} (h : WFfrom idx start es size) (s : Str) :
    WFfrom idx start (es ++ [⟨s, idx + es.length, size⟩]) (size + s.length) := by
  induction es generalizing idx start with
  | nil => simp [WFfrom] at h ⊢; omega
  | cons e es ih =>
    obtain ⟨h1, h2, h3⟩ := h
    refine ⟨h1, h2, ?_⟩
    have := ih h3
    simpa [Nat.add_assoc, Nat.add_comm 1] using this

theorem wffrom_mem {idx start : Nat} {es : List Entry} {size : Nat} (h : WFfrom idx start es size) {e : Entry}
    (he : e ∈ es) : ∃ j, es[j]? = some e ∧ e.index = idx + j := by
  induction es generalizing idx start with
  | nil => simp at he
  | cons a es ih =>
    obtain ⟨h1, _, h3⟩ := h
    rcases List.mem_cons.mp he with rfl | he
    · exact ⟨0, by simp, by simpa using h1⟩
    · obtain ⟨j, hj, hi⟩ := ih h3 he
      exact ⟨j + 1, by simpa using hj, by omega⟩

theorem findEntry_some {s : Str} {es : List Entry} {e : Entry} (h : findEntry s es = some e) : e ∈ es ∧ e.str = s := by
  induction es with
  | nil => simp [findEntry] at h
  | cons a es ih =>
    simp only [findEntry] at h
    split at h
    · simp only [Option.some.injEq] at h; subst h; exact ⟨by simp, by assumption⟩
    · obtain ⟨h1, h2⟩ := ih h; exact ⟨by simp [h1], h2⟩

/-- `AddEntry` keeps the table well formed, only appends, and returns an index at which the
    string sits -/
theorem addEntry_spec (b : Builder) (s : Str) (h : WF b) :
    WF (addEntry b s).1 ∧ (∃ ext, syms (addEntry b s).1 = syms b ++ ext) ∧
    (syms (addEntry b s).1)[(addEntry b s).2]? = some s := by
  unfold addEntry
  cases hf : findEntry s b.entries with
  | some e =>
    obtain ⟨hm, hs⟩ := findEntry_some hf
    obtain ⟨j, hj, hi⟩ := wffrom_mem h hm
    refine ⟨h, ⟨[], by simp⟩, ?_⟩
    simp only [syms, List.getElem?_map]
    have : e.index = j := by omega
    rw [this, hj]; simp [hs]
  | none =>
    refine ⟨?_, ⟨[s], by simp [syms]⟩, ?_⟩
    · have := wffrom_append h s
      simpa [WF] using this
    · simp [syms]

/-- the symbols loop of `NewRequest` recovers the interned strings from offsets and data -/
theorem decodeSymbolsFrom_spec (pre : Str) : ∀ (idx : Nat) (es : List Entry) (size : Nat),
    WFfrom idx pre.length es size →
    decodeSymbolsFrom (pre ++ es.flatMap (·.str)) pre.length (es.map fun e => e.start + e.str.length) = es.map (·.str)
  | _, [], _, _ => by simp [decodeSymbolsFrom]
  | idx, e :: es, size, h => by
    obtain ⟨_, h2, h3⟩ := h
    simp only [List.map_cons, List.flatMap_cons, decodeSymbolsFrom, h2]
    have hlen : (pre ++ e.str).length = pre.length + e.str.length := by simp
    have ih := decodeSymbolsFrom_spec (pre ++ e.str) (idx + 1) es size (by rw [hlen]; exact h3)
    rw [hlen, List.append_assoc] at ih
    rw [ih]
    congr 1
    rw [List.drop_append_of_le_length (Nat.le_refl _)]
    simp

theorem decode_marshal_symbols (b : Builder) (h : WF b) :
    decodeSymbols (marshalSymbols b).1 (marshalSymbols b).2 = syms b := by
  have := decodeSymbolsFrom_spec [] 0 b.entries b.size (by simpa [WF] using h)
  simpa [decodeSymbols, marshalSymbols, syms] using this

/-! ### what is interned stays where it is -/

theorem getElem?_append_some {α : Type} {l : List α} {i : Nat} {a : α} (h : l[i]? = some a) (ext : List α) :
    (l ++ ext)[i]? = some a := by
  have hi : i < l.length := (List.getElem?_eq_some_iff.mp h).1
  rw [List.getElem?_append_left hi]; exact h

theorem marshalLabels_spec : ∀ (ls : List (Str × Str)) (b : Builder), WF b →
    WF (marshalLabels b ls).1 ∧ (∃ ext, syms (marshalLabels b ls).1 = syms b ++ ext) ∧
    ∀ ext2, lookupLabels (syms (marshalLabels b ls).1 ++ ext2) (marshalLabels b ls).2 = .ok ls
  | [], b, h => ⟨h, ⟨[], by simp [marshalLabels]⟩, fun _ => rfl⟩
  | (n, v) :: ls, b, h => by
    obtain ⟨w1, ⟨e1, x1⟩, g1⟩ := addEntry_spec b n h
    obtain ⟨w2, ⟨e2, x2⟩, g2⟩ := addEntry_spec (addEntry b n).1 v w1
    obtain ⟨w3, ⟨e3, x3⟩, g3⟩ := marshalLabels_spec ls (addEntry (addEntry b n).1 v).1 w2
    simp only [marshalLabels]
    refine ⟨w3, ⟨e1 ++ e2 ++ e3, by rw [x3, x2, x1]; simp⟩, ?_⟩
    intro ext2
    have hn : (syms (marshalLabels (addEntry (addEntry b n).1 v).1 ls).1 ++ ext2)[(addEntry b n).2]? = some n := by
      rw [x3, x2, List.append_assoc, List.append_assoc]
      exact getElem?_append_some g1 _
    have hv : (syms (marshalLabels (addEntry (addEntry b n).1 v).1 ls).1 ++ ext2)[(addEntry (addEntry b n).1 v).2]? = some v := by
      rw [x3, List.append_assoc]
      exact getElem?_append_some g2 _
    simp only [lookupLabels, hn, hv, g3 ext2]

theorem marshalExemplars_spec : ∀ (es : List PExemplar) (b : Builder), WF b →
    WF (marshalExemplars b es).1 ∧ (∃ ext, syms (marshalExemplars b es).1 = syms b ++ ext) ∧
    ∀ ext2, mapE (readExemplar (syms (marshalExemplars b es).1 ++ ext2)) (marshalExemplars b es).2 = .ok es
  | [], b, h => ⟨h, ⟨[], by simp [marshalExemplars]⟩, fun _ => rfl⟩
  | e :: es, b, h => by
    obtain ⟨w1, ⟨e1, x1⟩, g1⟩ := marshalLabels_spec e.labels b h
    obtain ⟨w2, ⟨e2, x2⟩, g2⟩ := marshalExemplars_spec es (marshalLabels b e.labels).1 w1
    simp only [marshalExemplars]
    refine ⟨w2, ⟨e1 ++ e2, by rw [x2, x1]; simp⟩, ?_⟩
    intro ext2
    have hl := g1 (e2 ++ ext2)
    rw [← List.append_assoc, ← x2] at hl
    simp only [mapE, readExemplar, hl, g2 ext2]

theorem mapE_map_ok {α β γ : Type} (f : α → β) (g : β → Except DErr γ) (k : α → γ) (l : List α)
    (h : ∀ a, a ∈ l → g (f a) = .ok (k a)) : mapE g (l.map f) = .ok (l.map k) := by
  induction l with
  | nil => rfl
  | cons a l ih =>
    have ha := h a (by simp)
    have := ih (fun x hx => h x (by simp [hx]))
    simp [mapE, ha, this]

end Thanos.Capnp
