import Thanos.Model.Iter
/- projections of the concrete `Ops` records, as rewrite rules (so that proofs never have to
   unfold `leafOps` / `ctrOps` / `nodeOps` inside other terms) -/
namespace Thanos.Dedup

@[simp] theorem leafOps_next : leafOps.next = leafNext := rfl
@[simp] theorem leafOps_seek : leafOps.seek = leafSeek := rfl
@[simp] theorem leafOps_atS : leafOps.atS = Leaf.cur := rfl
@[simp] theorem leafOps_atT (l : Leaf) : leafOps.atT l = l.cur.map (·.t) := rfl
@[simp] theorem leafOps_adjust (v : Int) (l : Leaf) : leafOps.adjust v l = l := rfl
@[simp] theorem leafOps_bad (l : Leaf) : leafOps.bad l = false := rfl
@[simp] theorem leafOps_fuel (l : Leaf) : leafOps.fuel l = l.rest.length := rfl

section
variable {α β : Type} (oa : Ops α) (ob : Ops β) (fixed : Bool)
@[simp] theorem nodeOps_next : (nodeOps oa ob fixed).next = nodeNext oa ob := rfl
@[simp] theorem nodeOps_seek_fixed : (nodeOps oa ob true).seek = nodeSeekFixed oa ob := rfl
@[simp] theorem nodeOps_seek_orig : (nodeOps oa ob false).seek = nodeSeekOrig oa ob := rfl
@[simp] theorem nodeOps_atS : (nodeOps oa ob fixed).atS = nodeAt oa ob := rfl
@[simp] theorem nodeOps_atT : (nodeOps oa ob fixed).atT = nodeAtT oa ob := rfl
@[simp] theorem nodeOps_adjust : (nodeOps oa ob fixed).adjust = nodeAdjust oa ob := rfl
@[simp] theorem nodeOps_bad (s : Node α β) :
    (nodeOps oa ob fixed).bad s = (s.bad || oa.bad s.a || ob.bad s.b) := rfl
@[simp] theorem nodeOps_fuel : (nodeOps oa ob fixed).fuel = nodeFuel oa ob := rfl
end

section
variable {α β : Type} {oa : Ops α} {ob : Ops β}
theorem nodeAdjust_proj (v : Int) (s : Node α β) :
    (nodeAdjust oa ob v s).aval = s.aval ∧ (nodeAdjust oa ob v s).bval = s.bval ∧
    (nodeAdjust oa ob v s).useA = s.useA ∧ (nodeAdjust oa ob v s).lastIsA = s.lastIsA ∧
    (nodeAdjust oa ob v s).a = (if s.aval then oa.adjust v s.a else s.a) ∧
    (nodeAdjust oa ob v s).b = (if s.bval then ob.adjust v s.b else s.b) := by
  unfold nodeAdjust
  cases hav : s.aval <;> cases hbv : s.bval <;> simp [hav, hbv]


theorem nodeAdjust_fields (v : Int) (s : Node α β) :
    (nodeAdjust oa ob v s).lastT = s.lastT ∧ (nodeAdjust oa ob v s).penA = s.penA ∧
    (nodeAdjust oa ob v s).penB = s.penB ∧ (nodeAdjust oa ob v s).bad = s.bad := by
  unfold nodeAdjust
  cases hav : s.aval <;> cases hbv : s.bval <;> simp [hav, hbv]
end

end Thanos.Dedup
