import Thanos.Model.CacheKey
/-
  Helper lemmas for C43: splitting a string at the first / last separator, injectivity of the
  decimal printer, of the boolean printer and of the comma join.
-/
namespace Thanos.CacheKey

/-- split at the first occurrence of `c` -/
theorem sep_first {c : Char} : ∀ {x y a b : Str}, c ∉ x → c ∉ y → x ++ c :: a = y ++ c :: b → x = y ∧ a = b
  | [], [], a, b, _, _, h => by simpa using h
  | [], d :: y, a, b, _, hy, h => by
    simp at h; exact absurd h.1 (by intro e; subst e; simp at hy)
  | d :: x, [], a, b, hx, _, h => by
    simp at h; exact absurd h.1 (by intro e; subst e; simp at hx)
  | d :: x, e :: y, a, b, hx, hy, h => by
    simp at h
    obtain ⟨h1, h2⟩ := h
    have := sep_first (x := x) (y := y) (by simp at hx; exact hx.2) (by simp at hy; exact hy.2) h2
    exact ⟨by rw [h1, this.1], this.2⟩

/-- split at the last occurrence of `c` -/
theorem sep_last {c : Char} {x y a b : Str} (hx : c ∉ x) (hy : c ∉ y) (h : a ++ c :: x = b ++ c :: y) :
    a = b ∧ x = y := by
  have h' := congrArg List.reverse h
  simp only [List.reverse_append, List.reverse_cons, List.append_assoc, List.singleton_append] at h'
  have := sep_first (c := c) (x := x.reverse) (y := y.reverse) (by simpa using hx) (by simpa using hy) h'
  exact ⟨List.reverse_inj.mp this.2, List.reverse_inj.mp this.1⟩

theorem col_inj {a b x y : Str} (hx : ':' ∉ x) (hy : ':' ∉ y) (h : col a x = col b y) : a = b ∧ x = y :=
  sep_last hx hy h

/-! ### decimal numbers -/

theorem showNat_inj {m n : Nat} (h : showNat m = showNat n) : m = n := by
  have h1 := Nat.ofDigitChars_ten_toDigits (n := m)
  have h2 := Nat.ofDigitChars_ten_toDigits (n := n)
  unfold showNat at h
  rw [h] at h1
  omega

theorem showNat_digit {n : Nat} {c : Char} (h : c ∈ showNat n) : c.isDigit :=
  Nat.isDigit_of_mem_toDigits (by decide) (by decide) h

theorem showNat_ne_nil {n : Nat} : showNat n ≠ [] := Nat.toDigits_ne_nil

theorem showInt_inj : ∀ {i j : Int}, showInt i = showInt j → i = j
  | .ofNat m, .ofNat n, h => by simp [showInt] at h; rw [showNat_inj h]
  | .negSucc m, .negSucc n, h => by
    simp [showInt] at h
    have := showNat_inj h
    have : m = n := by omega
    rw [this]
  | .ofNat m, .negSucc n, h => by
    simp only [showInt] at h
    have : '-' ∈ showNat m := by rw [h]; simp
    exact absurd (showNat_digit this) (by decide)
  | .negSucc m, .ofNat n, h => by
    simp only [showInt] at h
    have : '-' ∈ showNat n := by rw [← h]; simp
    exact absurd (showNat_digit this) (by decide)

/-- a printed integer consists of digits and possibly a leading minus sign -/
theorem showInt_chars {i : Int} {c : Char} (h : c ∈ showInt i) : c.isDigit ∨ c = '-' := by
  cases i with
  | ofNat n => exact Or.inl (showNat_digit h)
  | negSucc n =>
    simp only [showInt, List.mem_cons] at h
    rcases h with h | h
    · exact Or.inr h
    · exact Or.inl (showNat_digit h)

theorem showInt_no_colon {i : Int} : ':' ∉ showInt i := by
  intro h; rcases showInt_chars h with h | h <;> revert h <;> decide

theorem showNat_no_colon {n : Nat} : ':' ∉ showNat n := by
  intro h; exact absurd (showNat_digit h) (by decide)

theorem showInt_ne_dash {i : Int} : showInt i ≠ ['-'] := by
  cases i with
  | ofNat n =>
    intro h
    have : '-' ∈ showNat n := by simp only [showInt] at h; rw [h]; simp
    exact absurd (showNat_digit this) (by decide)
  | negSucc n =>
    intro h
    simp only [showInt, List.cons.injEq, true_and] at h
    exact showNat_ne_nil h

theorem showBool_inj : ∀ {a b : Bool}, showBool a = showBool b → a = b := by decide

theorem showBool_no_colon : ∀ {a : Bool}, ':' ∉ showBool a := by decide

/-! ### sorted, comma-joined replica labels -/

theorem mem_insertS {x z : Str} : ∀ {l : List Str}, z ∈ insertS x l → z = x ∨ z ∈ l
  | [], h => by simp [insertS] at h; exact Or.inl h
  | y :: l, h => by
    simp only [insertS] at h
    split at h
    · simp at h; rcases h with h | h | h <;> simp [h]
    · simp at h
      rcases h with h | h
      · simp [h]
      · rcases mem_insertS h with h | h <;> simp [h]

theorem mem_sortS {z : Str} : ∀ {l : List Str}, z ∈ sortS l → z ∈ l
  | [], h => by simp [sortS] at h
  | x :: l, h => by
    rcases mem_insertS (l := sortS l) h with h | h
    · simp [h]
    · exact List.mem_cons_of_mem _ (mem_sortS h)

/-- what a replica label must look like for the join to be unambiguous -/
def LabelOK (x : Str) : Prop := x ≠ [] ∧ ',' ∉ x ∧ ':' ∉ x

theorem joinComma_no_colon : ∀ {l : List Str}, (∀ x ∈ l, LabelOK x) → ':' ∉ joinComma l
  | [], _ => by simp [joinComma]
  | [x], h => by simpa [joinComma] using (h x (by simp)).2.2
  | x :: y :: l, h => by
    have h1 := (h x (by simp)).2.2
    have h2 := joinComma_no_colon (l := y :: l) (fun z hz => h z (List.mem_cons_of_mem _ hz))
    simp only [joinComma, List.mem_append, List.mem_cons, not_or]
    exact ⟨h1, by decide, h2⟩

theorem joinComma_inj : ∀ {l m : List Str}, (∀ x ∈ l, LabelOK x) → (∀ x ∈ m, LabelOK x) →
    joinComma l = joinComma m → l = m
  | [], [], _, _, _ => rfl
  | [], [y], _, hm, h => by
    simp [joinComma] at h; exact absurd h (hm y (by simp)).1
  | [], y :: y' :: m, _, hm, h => by
    simp [joinComma] at h
  | [x], [], hl, _, h => by
    simp [joinComma] at h; exact absurd h (hl x (by simp)).1
  | x :: x' :: l, [], hl, _, h => by
    simp [joinComma] at h
  | [x], [y], _, _, h => by simpa [joinComma] using h
  | [x], y :: y' :: m, hl, hm, h => by
    simp only [joinComma] at h
    have : ',' ∈ x := by rw [h]; simp
    exact absurd this (hl x (by simp)).2.1
  | x :: x' :: l, [y], hl, hm, h => by
    simp only [joinComma] at h
    have : ',' ∈ y := by rw [← h]; simp
    exact absurd this (hm y (by simp)).2.1
  | x :: x' :: l, y :: y' :: m, hl, hm, h => by
    simp only [joinComma] at h
    obtain ⟨h1, h2⟩ := sep_first (hl x (by simp)).2.1 (hm y (by simp)).2.1 h
    have := joinComma_inj (l := x' :: l) (m := y' :: m)
      (fun z hz => hl z (List.mem_cons_of_mem _ hz)) (fun z hz => hm z (List.mem_cons_of_mem _ hz)) h2
    rw [h1, this]

end Thanos.CacheKey
