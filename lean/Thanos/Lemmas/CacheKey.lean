import Thanos.Model.CacheKey
/-
  Helper lemmas for C43: splitting a string at the first / last separator, injectivity of the
  decimal printer, of the boolean printer and of the comma join.
-/
namespace Thanos.CacheKey

/-- split at the first occurrence of `c` -/
theorem sep_first {c : Char} : ∀ {x y a b : Str}, c ∉ x → c ∉ y → x ++ c :: a = y ++ c :: b → x = y ∧ a = b
  | [], [], a, b, _, _, h => by simpa using h
  | [], d :: y, a, b, _, hy, h => by
    simp at h; exact absurd h.1 (by intro e; subst e; simp at hy)
  | d :: x, [], a, b, hx, _, h => by
    simp at h; exact absurd h.1 (by intro e; subst e; simp at hx)
  | d :: x, e :: y, a, b, hx, hy, h => by
    simp at h
    obtain ⟨h1, h2⟩ := h
    have := sep_first (x := x) (y := y) (by simp at hx; exact hx.2) (by simp at hy; exact hy.2) h2
    exact ⟨by rw [h1, this.1], this.2⟩

/-- split at the last occurrence of `c` -/
theorem sep_last {c : Char} {x y a b : Str} (hx : c ∉ x) (hy : c ∉ y) (h : a ++ c :: x = b ++ c :: y) :
    a = b ∧ x = y := by
  have h' := congrArg List.reverse h
  simp only [List.reverse_append, List.reverse_cons, List.append_assoc, List.singleton_append] at h'
  have := sep_first (c := c) (x := x.reverse) (y := y.reverse) (by simpa using hx) (by simpa using hy) h'
  exact ⟨List.reverse_inj.mp this.2, List.reverse_inj.mp this.1⟩

theorem col_inj {a b x y : Str} (hx : ':' ∉ x) (hy : ':' ∉ y) (h : col a x = col b y) : a = b ∧ x = y :=
  sep_last hx hy h

/-! ### decimal numbers -/

theorem showNat_inj {m n : Nat} (h : showNat m = showNat n) : m = n := by
  have h1 := Nat.ofDigitChars_ten_toDigits (n := m)
  have h2 := Nat.ofDigitChars_ten_toDigits (n := n)
  unfold showNat at h
  rw [h] at h1
  omega

theorem showNat_digit {n : Nat} {c : Char} (h : c ∈ showNat n) : c.isDigit :=
  Nat.isDigit_of_mem_toDigits (by decide) (by decide) h

theorem showNat_ne_nil {n : Nat} : showNat n ≠ [] := Nat.toDigits_ne_nil

theorem showInt_inj : ∀ {i j : Int}, showInt i = showInt j → i = j
  | .ofNat m, .ofNat n, h => by simp [showInt] at h; rw [showNat_inj h]
  | .negSucc m, .negSucc n, h => by
    simp [showInt] at h
    have := showNat_inj h
    have : m = n := by omega
    rw [this]
  | .ofNat m, .negSucc n, h => by
    simp only [showInt] at h
    have : '-' ∈ showNat m := by rw [h]; simp
    exact absurd (showNat_digit this) (by decide)
  | .negSucc m, .ofNat n, h => by
    simp only [showInt] at h
    have : '-' ∈ showNat n := by rw [← h]; simp
    exact absurd (showNat_digit this) (by decide)

/-- a printed integer consists of digits and possibly a leading minus sign -/
theorem showInt_chars {i : Int} {c : Char} (h : c ∈ showInt i) : c.isDigit ∨ c = '-' := by
  cases i with
  | ofNat n => exact Or.inl (showNat_digit h)
  | negSucc n =>
    simp only [showInt, List.mem_cons] at h
    rcases h with h | h
    · exact Or.inr h
    · exact Or.inl (showNat_digit h)

theorem showInt_no_colon {i : Int} : ':' ∉ showInt i := by
  intro h; rcases showInt_chars h with h | h <;> revert h <;> decide

theorem showNat_no_colon {n : Nat} : ':' ∉ showNat n := by
  intro h; exact absurd (showNat_digit h) (by decide)

theorem showInt_ne_dash {i : Int} : showInt i ≠ ['-'] := by
  cases i with
  | ofNat n =>
    intro h
    have : '-' ∈ showNat n := by simp only [showInt] at h; rw [h]; simp
    exact absurd (showNat_digit this) (by decide)
  | negSucc n =>
    intro h
    simp only [showInt, List.cons.injEq, true_and] at h
    exact showNat_ne_nil h

theorem showBool_inj : ∀ {a b : Bool}, showBool a = showBool b → a = b := by decide

theorem showBool_no_colon : ∀ {a : Bool}, ':' ∉ showBool a := by decide

/-! ### sorted, comma-joined replica labels -/

theorem mem_insertS {x z : Str} : ∀ {l : List Str}, z ∈ insertS x l → z = x ∨ z ∈ l
  | [], h => by simp [insertS] at h; exact Or.inl h
  | y :: l, h => by
    simp only [insertS] at h
    split at h
    · simp at h; rcases h with h | h | h <;> simp [h]
    · simp at h
      rcases h with h | h
      · simp [h]
      · rcases mem_insertS h with h | h <;> simp [h]

theorem mem_sortS {z : Str} : ∀ {l : List Str}, z ∈ sortS l → z ∈ l
  | [], h => by simp [sortS] at h
  | x :: l, h => by
    rcases mem_insertS (l := sortS l) h with h | h
    · simp [h]
    · exact List.mem_cons_of_mem _ (mem_sortS h)

/-- what a replica label must look like for the join to be unambiguous -/
def LabelOK (x : Str) : Prop := x ≠ [] ∧ ',' ∉ x ∧ ':' ∉ x

theorem joinComma_no_colon : ∀ {l : List Str}, (∀ x ∈ l, LabelOK x) → ':' ∉ joinComma l
  | [], _ => by simp [joinComma]
  | [x], h => by simpa [joinComma] using (h x (by simp)).2.2
  | x :: y :: l, h => by
    have h1 := (h x (by simp)).2.2
    have h2 := joinComma_no_colon (l := y :: l) (fun z hz => h z (List.mem_cons_of_mem _ hz))
    simp only [joinComma, List.mem_append, List.mem_cons, not_or]
    exact ⟨h1, by decide, h2⟩

theorem joinComma_inj : ∀ {l m : List Str}, (∀ x ∈ l, LabelOK x) → (∀ x ∈ m, LabelOK x) →
    joinComma l = joinComma m → l = m
  | [], [], _, _, _ => rfl
  | [], [y], _, hm, h => by
    simp [joinComma] at h; exact absurd h (hm y (by simp)).1
  | [], y :: y' :: m, _, hm, h => by
    simp [joinComma] at h
  | [x], [], hl, _, h => by
    simp [joinComma] at h; exact absurd h (hl x (by simp)).1
  | x :: x' :: l, [], hl, _, h => by
    simp [joinComma] at h
  | [x], [y], _, _, h => by simpa [joinComma] using h
  | [x], y :: y' :: m, hl, hm, h => by
    simp only [joinComma] at h
    have : ',' ∈ x := by rw [h]; simp
    exact absurd this (hl x (by simp)).2.1
  | x :: x' :: l, [y], hl, hm, h => by
    simp only [joinComma] at h
    have : ',' ∈ y := by rw [← h]; simp
    exact absurd this (hm y (by simp)).2.1
  | x :: x' :: l, y :: y' :: m, hl, hm, h => by
    simp only [joinComma] at h
    obtain ⟨h1, h2⟩ := sep_first (hl x (by simp)).2.1 (hm y (by simp)).2.1 h
    have := joinComma_inj (l := x' :: l) (m := y' :: m)
      (fun z hz => hl z (List.mem_cons_of_mem _ hz)) (fun z hz => hm z (List.mem_cons_of_mem _ hz)) h2
    rw [h1, this]

end Thanos.CacheKey

/-! ### the matcher text reads back (`unrender`) when values are escaped -/

namespace Thanos.CacheKey

theorem unquoteBody_quoteMin : ∀ (v : Str) (fuel : Nat) (acc rest : Str), (quoteMin v).length + 1 ≤ fuel →
    unquoteBody fuel acc (quoteMin v ++ '"' :: rest) = some (acc.reverse ++ v, rest)
  | [], fuel, acc, rest, h => by
    cases fuel with
    | zero => simp at h
    | succ f => simp [quoteMin, unquoteBody]
  | c :: v, fuel, acc, rest, h => by
    cases fuel with
    | zero => simp at h
    | succ f =>
      by_cases hq : c = '"'
      · subst hq
        have hl : (quoteMin v).length + 1 ≤ f := by simp [quoteMin] at h; omega
        simp only [quoteMin, true_or, if_true, List.cons_append]
        rw [unquoteBody]
        simp only [show ('\\' = '"') = False by decide, if_false, if_true]
        simp only [show ('"' = 'a') = False by decide, show ('"' = 'b') = False by decide, show ('"' = 'f') = False by decide,
          show ('"' = 'n') = False by decide, show ('"' = 'r') = False by decide, show ('"' = 't') = False by decide,
          show ('"' = 'v') = False by decide, show ('"' = '\\') = False by decide, if_false, if_true]
        rw [unquoteBody_quoteMin v f _ rest hl]
        simp
      · by_cases hb : c = '\\'
        · subst hb
          have hl : (quoteMin v).length + 1 ≤ f := by simp [quoteMin] at h; omega
          simp only [quoteMin, or_true, if_true, List.cons_append]
          rw [unquoteBody]
          simp only [show ('\\' = '"') = False by decide, if_false, if_true]
          simp only [show ('\\' = 'a') = False by decide, show ('\\' = 'b') = False by decide, show ('\\' = 'f') = False by decide,
            show ('\\' = 'n') = False by decide, show ('\\' = 'r') = False by decide, show ('\\' = 't') = False by decide,
            show ('\\' = 'v') = False by decide, if_false, if_true]
          rw [unquoteBody_quoteMin v f _ rest hl]
          simp
        · have hl : (quoteMin v).length + 1 ≤ f := by simp [quoteMin, hq, hb] at h; omega
          simp only [quoteMin, hq, hb, or_self, if_false, List.cons_append]
          rw [unquoteBody.eq_def]
          simp only [hq, hb, if_false]
          rw [unquoteBody_quoteMin v f _ rest hl]
          simp
end Thanos.CacheKey

namespace Thanos.CacheKey

theorem span_loop_ident (rest : Str) (hr : ∀ c r, rest = c :: r → isIdentChar c = false) :
    ∀ (n acc : Str), (∀ c ∈ n, isIdentChar c = true) →
      List.span.loop isIdentChar (n ++ rest) acc = (acc.reverse ++ n, rest)
  | [], acc, _ => by
    cases rest with
    | nil => simp [List.span.loop]
    | cons c r => simp [List.span.loop, hr c r rfl]
  | c :: n, acc, hn => by
    have hc := hn c (by simp)
    simp only [List.cons_append, List.span.loop, hc, if_true]
    rw [span_loop_ident rest hr n (c :: acc) (fun x hx => hn x (List.mem_cons_of_mem _ hx))]
    simp

theorem span_ident (n rest : Str) (hn : ∀ c ∈ n, isIdentChar c = true)
    (hr : ∀ c r, rest = c :: r → isIdentChar c = false) : (n ++ rest).span isIdentChar = (n, rest) := by
  unfold List.span
  rw [span_loop_ident rest hr n [] hn]
  simp

theorem unrenderMatcher_render (m : Matcher) (hn : ∀ c ∈ m.name, isIdentChar c = true) (ho : m.op < 4) (rest : Str) :
    unrenderMatcher (m.name ++ (opText m.op ++ '"' :: (quoteMin m.value ++ '"' :: rest))) = some (m, rest) := by
  obtain ⟨name, op, value⟩ := m
  simp only at hn ho ⊢
  have hq : ∀ fuel, (quoteMin value).length + 1 ≤ fuel →
      unquoteBody fuel [] (quoteMin value ++ '"' :: rest) = some (value, rest) := by
    intro fuel h
    simpa using unquoteBody_quoteMin value fuel [] rest h
  have key : ∀ (o : Str) (c0 : Char) (o' : Str), o = c0 :: o' → isIdentChar c0 = false → c0 ≠ '"' →
      (name ++ (o ++ '"' :: (quoteMin value ++ '"' :: rest))).span isIdentChar = (name, o ++ '"' :: (quoteMin value ++ '"' :: rest)) ∧
      ∀ r, name ++ (o ++ '"' :: (quoteMin value ++ '"' :: rest)) ≠ '"' :: r := by
    intro o c0 o' ho' hc0 hne
    subst ho'
    refine ⟨span_ident name _ hn (fun c r h => by cases h; exact hc0), ?_⟩
    intro r h
    cases name with
    | nil => simp at h; exact hne h.1
    | cons c n =>
      simp at h
      have := hn c (by simp)
      rw [h.1] at this
      exact absurd this (by decide)
  unfold unrenderMatcher
  match op, ho with
  | 0, _ =>
    obtain ⟨hs, hf⟩ := key ['='] '=' [] rfl (by decide) (by decide)
    split
    · rename_i r heq; exact absurd heq (hf r)
    · simp only [opText, List.cons_append, List.nil_append] at hs ⊢
      simp [hs, bind, Option.bind]
      rw [hq _ (by omega)]
  | 1, _ =>
    obtain ⟨hs, hf⟩ := key ['!', '='] '!' ['='] rfl (by decide) (by decide)
    split
    · rename_i r heq; exact absurd heq (hf r)
    · simp only [opText, List.cons_append, List.nil_append] at hs ⊢
      simp [hs, bind, Option.bind]
      rw [hq _ (by omega)]
  | 2, _ =>
    obtain ⟨hs, hf⟩ := key ['=', '~'] '=' ['~'] rfl (by decide) (by decide)
    split
    · rename_i r heq; exact absurd heq (hf r)
    · simp only [opText, List.cons_append, List.nil_append] at hs ⊢
      simp [hs, bind, Option.bind]
      rw [hq _ (by omega)]
  | 3, _ =>
    obtain ⟨hs, hf⟩ := key ['!', '~'] '!' ['~'] rfl (by decide) (by decide)
    split
    · rename_i r heq; exact absurd heq (hf r)
    · simp only [opText, List.cons_append, List.nil_append] at hs ⊢
      simp [hs, bind, Option.bind]
      rw [hq _ (by omega)]
end Thanos.CacheKey

namespace Thanos.CacheKey

/-- a matcher whose name is written verbatim (a legacy identifier) and whose operator exists -/
def Matcher.Plain (m : Matcher) : Prop := (∀ c ∈ m.name, isIdentChar c = true) ∧ m.op < 4

def renderM (m : Matcher) : Str := m.name ++ opText m.op ++ '"' :: quoteMin m.value ++ ['"']
def renderS (ms : List Matcher) : Str := '[' :: joinSp (ms.map renderM) ++ [']']

theorem renderM_append (m : Matcher) (y : Str) :
    renderM m ++ y = m.name ++ (opText m.op ++ '"' :: (quoteMin m.value ++ '"' :: y)) := by
  simp [renderM, List.append_assoc]

theorem renderM_head (m : Matcher) (h : m.Plain) (y r : Str) : renderM m ++ y ≠ ']' :: r := by
  rw [renderM_append]
  intro e
  obtain ⟨name, op, value⟩ := m
  obtain ⟨hn, ho⟩ := h
  simp only at hn ho e
  cases name with
  | nil =>
    match op, ho with
    | 0, _ => simp [opText] at e
    | 1, _ => simp [opText] at e
    | 2, _ => simp [opText] at e
    | 3, _ => simp [opText] at e
  | cons c n =>
    simp at e
    have := hn c (by simp)
    rw [e.1] at this
    exact absurd this (by decide)

theorem unrenderSet_render : ∀ (ms : List Matcher) (fuel : Nat) (rest : Str), (∀ m ∈ ms, m.Plain) → ms.length + 1 ≤ fuel →
    unrenderSet fuel (joinSp (ms.map renderM) ++ ']' :: rest) = some (ms, rest)
  | [], fuel, rest, _, hf => by
    cases fuel with
    | zero => simp at hf
    | succ f => simp [joinSp, unrenderSet]
  | [m], fuel, rest, hp, hf => by
    cases fuel with
    | zero => simp at hf
    | succ f =>
      have hm := hp m (by simp)
      simp only [List.map, joinSp]
      rw [unrenderSet.eq_def]
      split
      · simp at *
      · rename_i r _ heq
        exact absurd heq (renderM_head m hm _ r)
      · rename_i s f' hff _
        rw [renderM_append, unrenderMatcher_render m hm.1 hm.2]
        rfl
  | m :: m' :: l, fuel, rest, hp, hf => by
    cases fuel with
    | zero => simp at hf
    | succ f =>
      have hm := hp m (by simp)
      have ih := unrenderSet_render (m' :: l) f rest (fun x hx => hp x (List.mem_cons_of_mem _ hx)) (by simp at hf ⊢; omega)
      simp only [List.map, joinSp] at ih ⊢
      rw [unrenderSet.eq_def]
      split
      · simp at *
      · rename_i r _ heq
        rw [List.append_assoc] at heq
        exact absurd heq (renderM_head m hm _ r)
      · rename_i s f' hff _
        rw [List.append_assoc, renderM_append, unrenderMatcher_render m hm.1 hm.2]
        simp only [List.cons_append]
        injection hff with hff
        subst hff
        rw [ih]
        simp
end Thanos.CacheKey

namespace Thanos.CacheKey

theorem length_le_joinSp (f : α → Str) (hf : ∀ a, 1 ≤ (f a).length) :
    ∀ l : List α, l.length ≤ (joinSp (l.map f)).length
  | [] => by simp [joinSp]
  | [a] => by simpa [joinSp] using hf a
  | a :: b :: l => by
    have := length_le_joinSp f hf (b :: l)
    have := hf a
    simp only [List.map, joinSp, List.length_append, List.length_cons] at *
    omega

theorem renderM_length (m : Matcher) : 1 ≤ (renderM m).length := by simp [renderM]; omega
theorem renderS_length (ms : List Matcher) : 1 ≤ (renderS ms).length := by simp [renderS]

theorem renderS_append (ms : List Matcher) (y : Str) :
    renderS ms ++ y = '[' :: (joinSp (ms.map renderM) ++ ']' :: y) := by
  simp [renderS, List.append_assoc]

theorem unrenderSet_renderS (ms : List Matcher) (hp : ∀ m ∈ ms, m.Plain) (y : Str) :
    unrenderSet ((joinSp (ms.map renderM) ++ ']' :: y).length + 1) (joinSp (ms.map renderM) ++ ']' :: y) = some (ms, y) := by
  apply unrenderSet_render ms _ y hp
  have := length_le_joinSp renderM renderM_length ms
  simp only [List.length_append, List.length_cons]
  omega

theorem unrenderSets_render : ∀ (sets : List (List Matcher)) (fuel : Nat) (rest : Str),
    (∀ ms ∈ sets, ∀ m ∈ ms, m.Plain) → sets.length + 1 ≤ fuel →
    unrenderSets fuel (joinSp (sets.map renderS) ++ ']' :: rest) = some (sets, rest)
  | [], fuel, rest, _, hf => by
    cases fuel with
    | zero => simp at hf
    | succ f => simp [joinSp, unrenderSets]
  | [ms], fuel, rest, hp, hf => by
    cases fuel with
    | zero => simp at hf
    | succ f =>
      simp only [List.map, joinSp]
      rw [renderS_append, unrenderSets, unrenderSet_renderS ms (hp ms (by simp))]
      rfl
  | ms :: ms' :: l, fuel, rest, hp, hf => by
    cases fuel with
    | zero => simp at hf
    | succ f =>
      have ih := unrenderSets_render (ms' :: l) f rest (fun x hx => hp x (List.mem_cons_of_mem _ hx)) (by simp at hf ⊢; omega)
      simp only [List.map, joinSp] at ih ⊢
      rw [List.append_assoc, renderS_append, unrenderSets, unrenderSet_renderS ms (hp ms (by simp))]
      simp only [List.cons_append]
      rw [ih]
      simp

/-- **the rendering hypothesis is satisfiable by every escaping renderer**: for all matcher sets
    with verbatim names, the text written with `quoteMin` (escape `"` and `\`) reads back -/
theorem rendered_quoteMin (sets : List (List Matcher)) (hp : ∀ ms ∈ sets, ∀ m ∈ ms, m.Plain) :
    Rendered (renderWith quoteMin sets) sets := by
  have hS : (fun ms : List Matcher => '[' :: joinSp (ms.map fun m => m.name ++ opText m.op ++ '"' :: quoteMin m.value ++ ['"']) ++ [']']) = renderS := by
    funext ms
    have : (fun m : Matcher => m.name ++ opText m.op ++ '"' :: quoteMin m.value ++ ['"']) = renderM := by
      funext m; rfl
    rw [this]; rfl
  have h : renderWith quoteMin sets = '[' :: (joinSp (sets.map renderS) ++ ']' :: []) := by
    unfold renderWith
    simp only [hS]
    rfl
  unfold Rendered
  rw [h, unrender]
  have := length_le_joinSp renderS renderS_length sets
  rw [unrenderSets_render sets _ [] hp (by simp only [List.length_append, List.length_cons]; omega)]
end Thanos.CacheKey
