import Thanos.Model.BucketKey
import Thanos.Lemmas.CacheKeys
/-
  BucketCacheKey.String is injective on the keys the caching bucket builds.
-/
namespace Thanos.CacheKeys

theorem Verb.str_no_colon (v : Verb) : cColon ∉ v.str := by
  cases v <;> simp [Verb.str, cColon]

theorem Verb.str_inj (v1 v2 : Verb) (h : v1.str = v2.str) : v1 = v2 := by
  cases v1 <;> cases v2 <;> simp [Verb.str] at h <;> rfl

/-- splitting at the LAST ':' when what follows it is a decimal numeral -/
theorem split_last_decimal {a b : Str} {x y : Nat}
    (h : a ++ cColon :: decimal x = b ++ cColon :: decimal y) : a = b ∧ x = y := by
  have hr := congrArg List.reverse h
  simp only [List.reverse_append, List.reverse_cons, List.append_assoc, List.singleton_append] at hr
  have nc : ∀ n, cColon ∉ (decimal n).reverse := by
    intro n hm
    exact decimal_no_colon n cColon (List.mem_reverse.mp hm) rfl
  obtain ⟨h1, h2⟩ := split_colon (nc x) (nc y) hr
  exact ⟨List.reverse_inj.mp h2, decimal_inj x y (List.reverse_inj.mp h1)⟩

/-- the keys as CachingBucket builds them: subrange keys carry a non-empty range, every other
    key has Start = End = 0; only the two iter verbs carry the configuration hash, which is the
    same (`H`) for the whole bucket -/
def WFB (H : Str) (k : BucketKey) : Prop :=
  (k.verb = .subrange → k.start < k.stop) ∧
  (k.verb ≠ .subrange → k.start = 0 ∧ k.stop = 0) ∧
  ((k.verb = .iter ∨ k.verb = .iterRecursive) → k.hash = H) ∧
  (¬ (k.verb = .iter ∨ k.verb = .iterRecursive) → k.hash = [])

theorem bucketKey_verb {k : BucketKey} : ∃ rest, bucketKeyString k = k.verb.str ++ cColon :: rest := by
  unfold bucketKeyString
  split
  · split
    · exact ⟨k.name ++ cColon :: k.hash, by simp [List.append_assoc]⟩
    · exact ⟨_, rfl⟩
  · exact ⟨k.name ++ cColon :: (decimal k.start ++ cColon :: decimal k.stop), by simp [List.append_assoc]⟩

theorem bucketKey_inj (H : Str) (k1 k2 : BucketKey) (w1 : WFB H k1) (w2 : WFB H k2)
    (h : bucketKeyString k1 = bucketKeyString k2) : k1 = k2 := by
  -- the verbs agree
  obtain ⟨r1, e1⟩ := @bucketKey_verb k1
  obtain ⟨r2, e2⟩ := @bucketKey_verb k2
  have hv : k1.verb = k2.verb := by
    rw [e1, e2] at h
    exact Verb.str_inj _ _ (split_colon (Verb.str_no_colon _) (Verb.str_no_colon _) h).1
  obtain ⟨v1, n1, s1, t1, g1⟩ := k1
  obtain ⟨v2, n2, s2, t2, g2⟩ := k2
  simp only at hv
  subst hv
  obtain ⟨a1, b1, c1, d1⟩ := w1
  obtain ⟨a2, b2, c2, d2⟩ := w2
  simp only at a1 b1 c1 d1 a2 b2 c2 d2
  by_cases hs : v1 = .subrange
  · -- subrange keys: read the two numbers from the right
    subst hs
    have p1 := a1 rfl
    have p2 := a2 rfl
    have z1 : ¬ (s1 = 0 ∧ t1 = 0) := by omega
    have z2 : ¬ (s2 = 0 ∧ t2 = 0) := by omega
    unfold bucketKeyString at h
    simp only [z1, z2, if_false] at h
    have h' : (Verb.subrange.str ++ cColon :: n1 ++ cColon :: decimal s1) ++ cColon :: decimal t1 =
        (Verb.subrange.str ++ cColon :: n2 ++ cColon :: decimal s2) ++ cColon :: decimal t2 := by
      simpa [List.append_assoc] using h
    obtain ⟨h3, ht⟩ := split_last_decimal h'
    have h3' : (Verb.subrange.str ++ cColon :: n1) ++ cColon :: decimal s1 =
        (Verb.subrange.str ++ cColon :: n2) ++ cColon :: decimal s2 := by
      simpa [List.append_assoc] using h3
    obtain ⟨h4, hs'⟩ := split_last_decimal h3'
    have hn : n1 = n2 := by
      have := List.append_cancel_left h4
      simpa using this
    have hg : g1 = g2 := by rw [d1 (by simp), d2 (by simp)]
    subst hn; subst hs'; subst ht; subst hg; rfl
  · obtain ⟨q1, q1'⟩ := b1 hs
    obtain ⟨q2, q2'⟩ := b2 hs
    subst q1; subst q1'; subst q2; subst q2'
    unfold bucketKeyString at h
    simp only [and_self, if_true] at h
    by_cases hi : v1 = .iter ∨ v1 = .iterRecursive
    · simp only [hi, if_true] at h
      have g1' := c1 hi
      have g2' := c2 hi
      rw [g1', g2'] at h ⊢
      have h' : (v1.str ++ cColon :: n1) ++ cColon :: H = (v1.str ++ cColon :: n2) ++ cColon :: H := by
        simpa [List.append_assoc] using h
      have := List.append_cancel_right h'
      have hn : n1 = n2 := by simpa using List.append_cancel_left this
      subst hn; rfl
    · simp only [hi, if_false] at h
      have hn : n1 = n2 := by simpa using List.append_cancel_left h
      have hg : g1 = g2 := by rw [d1 hi, d2 hi]
      subst hn; subst hg; rfl

end Thanos.CacheKeys
