import Thanos.Model.Quorum
/-
  Helper lemmas for C22 / C23 (fanoutForward).  Property theorems are in Props/C22.lean, Props/C23.lean.
-/
namespace Thanos.Quorum

/-! ### the events of one series -/

/-- the outcomes that concern series `i`, in arrival order (with multiplicity, should a write
    list an id twice) -/
def evs (rs : List Resp) (i : Nat) : List Outcome :=
  rs.flatMap fun r => List.replicate (r.ids.count i) r.out

/-- number of successful writes of series `i` -/
def oks (rs : List Resp) (i : Nat) : Nat := (evs rs i).countP (·.isNone)

/-- the errors of series `i` -/
def errsOf (rs : List Resp) (i : Nat) : List ErrKind := (evs rs i).filterMap id

@[simp] theorem evs_nil (i : Nat) : evs [] i = [] := rfl
@[simp] theorem evs_cons (r : Resp) (rs : List Resp) (i : Nat) :
    evs (r :: rs) i = List.replicate (r.ids.count i) r.out ++ evs rs i := by
  simp [evs]

theorem evs_append (a b : List Resp) (i : Nat) : evs (a ++ b) i = evs a i ++ evs b i := by
  simp [evs]

theorem evs_perm {a b : List Resp} (h : a.Perm b) (i : Nat) : (evs a i).Perm (evs b i) :=
  List.Perm.flatMap_right _ h

theorem oks_perm {a b : List Resp} (h : a.Perm b) (i : Nat) : oks a i = oks b i :=
  (evs_perm h i).countP_eq _

theorem errsOf_perm {a b : List Resp} (h : a.Perm b) (i : Nat) : (errsOf a i).Perm (errsOf b i) :=
  (evs_perm h i).filterMap _

/-! ### the state after a list of responses -/

theorem foldl_addOk_succ (ids : List Nat) (s : St) (i : Nat) :
    (ids.foldl St.addOk s).succ i = s.succ i + ids.count i := by
  induction ids generalizing s with
  | nil => simp
  | cons a ids ih =>
    simp only [List.foldl_cons, ih, St.addOk, List.count_cons]
    by_cases h : a = i
    · subst h; simp; omega
    · have : ¬ i = a := fun h' => h h'.symm
      simp [this, h]

theorem foldl_addOk_errs (ids : List Nat) (s : St) : (ids.foldl St.addOk s).errs = s.errs := by
  induction ids generalizing s with
  | nil => rfl
  | cons a ids ih => simp [List.foldl_cons, ih, St.addOk]

theorem foldl_addErr_errs (k : ErrKind) (ids : List Nat) (s : St) (i : Nat) :
    (ids.foldl (St.addErr k) s).errs i = s.errs i ++ List.replicate (ids.count i) k := by
  induction ids generalizing s with
  | nil => simp
  | cons a ids ih =>
    simp only [List.foldl_cons, ih, St.addErr, List.count_cons]
    by_cases h : a = i
    · subst h; simp [List.replicate_succ]
    · have : ¬ i = a := fun h' => h h'.symm
      simp [this, h]

theorem foldl_addErr_succ (k : ErrKind) (ids : List Nat) (s : St) :
    (ids.foldl (St.addErr k) s).succ = s.succ := by
  induction ids generalizing s with
  | nil => rfl
  | cons a ids ih => simp [List.foldl_cons, ih, St.addErr]

theorem step_succ (s : St) (r : Resp) (i : Nat) :
    (step s r).succ i = s.succ i + (List.replicate (r.ids.count i) r.out).countP (·.isNone) := by
  unfold step
  cases h : r.out with
  | none => simp [foldl_addOk_succ, List.countP_replicate]
  | some k => simp [foldl_addErr_succ, List.countP_replicate]

theorem step_errs (s : St) (r : Resp) (i : Nat) :
    (step s r).errs i = s.errs i ++ (List.replicate (r.ids.count i) r.out).filterMap id := by
  unfold step
  cases h : r.out with
  | none => simp [foldl_addOk_errs]
  | some k => simp [foldl_addErr_errs]

theorem foldl_step_succ (rs : List Resp) (s : St) (i : Nat) :
    (rs.foldl step s).succ i = s.succ i + oks rs i := by
  induction rs generalizing s with
  | nil => simp [oks]
  | cons r rs ih =>
    simp only [List.foldl_cons, ih, step_succ, oks, evs_cons, List.countP_append]
    omega

theorem foldl_step_errs (rs : List Resp) (s : St) (i : Nat) :
    (rs.foldl step s).errs i = s.errs i ++ errsOf rs i := by
  induction rs generalizing s with
  | nil => simp [errsOf]
  | cons r rs ih =>
    simp only [List.foldl_cons, ih, step_errs, errsOf, evs_cons, List.filterMap_append, List.append_assoc]

/-- every answer of series `i` is a success or an error -/
theorem oks_add_errs (rs : List Resp) (i : Nat) : oks rs i + (errsOf rs i).length = (evs rs i).length := by
  unfold oks errsOf
  generalize evs rs i = l
  induction l with
  | nil => simp
  | cons o l ih =>
    cases o with
    | none => simp at ih ⊢; omega
    | some k => simp at ih ⊢; omega

/-! ### replicationErrors.Cause -/

theorem sortDesc3 (a b c : Sentinel) (x y z : Nat) :
    (sortDesc [(a, x), (b, y), (c, z)]).head? =
      some (if y ≤ x ∧ z ≤ x then (a, x) else if z ≤ y then (b, y) else (c, z)) := by
  simp only [sortDesc, List.foldl_cons, List.foldl_nil, insertRev]
  by_cases h1 : x < y <;> by_cases h2 : y < z <;> by_cases h3 : x < z <;>
    simp [h1, h2, h3, insertRev] <;> (try omega)
  all_goals (split <;> simp_all <;> omega)

def topOf (es : List ErrKind) : Sentinel × Nat :=
  if countNotReady es ≤ countConflict es ∧ countUnavail es ≤ countConflict es then (.conflict, countConflict es)
  else if countUnavail es ≤ countNotReady es then (.notReady, countNotReady es)
  else (.unavailable, countUnavail es)

theorem replCause_eq (thr : Nat) (es : List ErrKind) (hne : es ≠ []) :
    replCause thr es =
      if (topOf es).2 ≥ thr then .sentinel (topOf es).1
      else if es.length ≥ thr then .sentinel .unavailable else .nil := by
  unfold replCause
  have h0 : es.isEmpty = false := by cases es <;> simp_all
  simp only [h0]
  have := sortDesc3 .conflict .notReady .unavailable (countConflict es) (countNotReady es) (countUnavail es)
  cases h : sortDesc [(Sentinel.conflict, countConflict es), (.notReady, countNotReady es), (.unavailable, countUnavail es)] with
  | nil => rw [h] at this; simp at this
  | cons top rest =>
    rw [h] at this
    simp only [List.head?_cons, Option.some.injEq] at this
    simp only [this, topOf]
    rfl

theorem replCause_perm (thr : Nat) {a b : List ErrKind} (h : a.Perm b) : replCause thr a = replCause thr b := by
  by_cases ha : a = []
  · subst ha; have := h.symm.eq_nil; subst this; rfl
  · have hb : b ≠ [] := fun hb => ha (by subst hb; exact h.eq_nil)
    have hc : countConflict a = countConflict b := h.countP_eq _
    have hn : countNotReady a = countNotReady b := h.countP_eq _
    have hu : countUnavail a = countUnavail b := h.countP_eq _
    have ht : topOf a = topOf b := by
      unfold topOf; rw [hc, hn, hu]
    rw [replCause_eq thr a ha, replCause_eq thr b hb, ht, h.length_eq]

/-- a conflict is neither "not ready" nor "unavailable" (true of every error the classifiers of
    handler.go can see: the three predicates test disjoint sentinels / status codes, except that a
    gRPC Unavailable is both not-ready and unavailable) -/
def wfKind (k : ErrKind) : Bool := !(k.conflict && (k.notReady || k.unavail))

theorem count_bounds (es : List ErrKind) (h : ∀ k, k ∈ es → wfKind k = true) :
    countConflict es + countNotReady es ≤ es.length ∧ countConflict es + countUnavail es ≤ es.length := by
  induction es with
  | nil => simp [countConflict, countNotReady, countUnavail]
  | cons k es ih =>
    have hk := h k (by simp)
    have := ih (fun k' hk' => h k' (by simp [hk']))
    simp only [countConflict, countNotReady, countUnavail, List.countP_cons, List.length_cons] at this ⊢
    simp only [wfKind] at hk
    rcases k with ⟨c, n, u⟩
    cases c <;> cases n <;> cases u <;> simp_all <;> omega

/-- thresholds of a request: `sT` successes needed out of `nrep` replicas, `fT` failures make that
    impossible; the quorum is at most a bare majority -/
structure Params (sT fT nrep : Nat) : Prop where
  sT_pos : 1 ≤ sT
  sT_le : sT ≤ nrep
  majority : 2 * sT ≤ nrep + 2
  fT_eq : fT = nrep - sT + 1

theorem replCause_conflict {sT fT nrep : Nat} (P : Params sT fT nrep) (es : List ErrKind)
    (hwf : ∀ k, k ∈ es → wfKind k = true) (hlen : es.length ≤ nrep) (hc : countConflict es ≥ fT) :
    replCause fT es = .sentinel .conflict := by
  obtain ⟨h1, h2, h3, h4⟩ := P
  have ⟨b1, b2⟩ := count_bounds es hwf
  have hne : es ≠ [] := by
    intro h; subst h; simp [countConflict] at hc; omega
  rw [replCause_eq fT es hne]
  have ht : topOf es = (.conflict, countConflict es) := by
    unfold topOf
    have : countNotReady es ≤ countConflict es ∧ countUnavail es ≤ countConflict es := by omega
    simp [this]
  simp [ht, hc]

theorem replCause_sentinel {fT : Nat} (hf : 1 ≤ fT) (es : List ErrKind) (hlen : es.length ≥ fT) :
    ∃ s, replCause fT es = .sentinel s ∧ (countConflict es < fT → s ≠ .conflict) := by
  have hne : es ≠ [] := by intro h; subst h; simp at hlen; omega
  rw [replCause_eq fT es hne]
  by_cases h : (topOf es).2 ≥ fT
  · refine ⟨(topOf es).1, by simp [h], ?_⟩
    intro hc
    unfold topOf at h ⊢
    by_cases h1 : countNotReady es ≤ countConflict es ∧ countUnavail es ≤ countConflict es
    · simp [h1] at h; omega
    · simp only [h1, if_false]
      split <;> simp
  · refine ⟨.unavailable, by simp [h, hlen], by simp⟩

/-! ### the response loop -/

theorem canReturnEarly_iff (n sT fT : Nat) (s : St) :
    canReturnEarly n sT fT s = true ↔ ∀ i, i < n → (sT ≤ s.succ i ∨ fT ≤ countConflict (s.errs i)) := by
  simp only [canReturnEarly, List.all_eq_true, List.mem_range]
  constructor
  · intro h i hi
    have := h i hi
    simp at this
    omega
  · intro h i hi
    have := h i hi
    simp
    omega

theorem filterMap_congr' {α β : Type} {f g : α → Option β} {l : List α} (h : ∀ x, x ∈ l → f x = g x) :
    l.filterMap f = l.filterMap g := by
  induction l with
  | nil => rfl
  | cons a l ih =>
    have ha := h a (by simp)
    have := ih (fun x hx => h x (by simp [hx]))
    simp [List.filterMap_cons, ha, this]

theorem collect_congr (n fT thr : Nat) (s t : St)
    (h : ∀ i, i < n →
      (if (s.errs i).length ≥ fT then some (replCause thr (s.errs i)) else none) =
      (if (t.errs i).length ≥ fT then some (replCause thr (t.errs i)) else none)) :
    collect n fT thr s = collect n fT thr t := by
  unfold collect
  apply filterMap_congr'
  intro i hi
  exact h i (List.mem_range.mp hi)

theorem countConflict_le_length (es : List ErrKind) : countConflict es ≤ es.length := List.countP_le_length

theorem countConflict_append (a b : List ErrKind) : countConflict (a ++ b) = countConflict a + countConflict b := by
  simp [countConflict, List.countP_append]

/-- Once every series is decided (enough successes, or enough conflicts), the answers that are
    still outstanding cannot change what is reported. -/
theorem early_stable {sT fT nrep : Nat} (P : Params sT fT nrep) (n : Nat) (s : St) (rs : List Resp)
    (hb : ∀ i, i < n → (rs.foldl step s).succ i + ((rs.foldl step s).errs i).length ≤ nrep)
    (hwf : ∀ i, i < n → ∀ k, k ∈ (rs.foldl step s).errs i → wfKind k = true)
    (hearly : canReturnEarly n sT fT s = true) :
    finish n fT fT s = finish n fT fT (rs.foldl step s) := by
  have hP := P
  obtain ⟨h1, h2, h3, h4⟩ := P
  unfold finish
  have : collect n fT fT s = collect n fT fT (rs.foldl step s) := by
    apply collect_congr
    intro i hi
    have hbi := hb i hi
    have hwfi := hwf i hi
    rw [foldl_step_succ, foldl_step_errs] at hbi
    rw [foldl_step_errs] at hwfi ⊢
    simp only [List.length_append] at hbi ⊢
    rcases (canReturnEarly_iff n sT fT s).mp hearly i hi with hs | hc
    · have a1 : ¬ ((s.errs i).length ≥ fT) := by omega
      have a2 : ¬ ((s.errs i).length + (errsOf rs i).length ≥ fT) := by omega
      simp [a1, a2]
    · have l1 := countConflict_le_length (s.errs i)
      have a1 : (s.errs i).length ≥ fT := by omega
      have a2 : (s.errs i).length + (errsOf rs i).length ≥ fT := by omega
      have c1 : replCause fT (s.errs i) = .sentinel .conflict :=
        replCause_conflict hP _ (fun k hk => hwfi k (List.mem_append_left _ hk)) (by omega) hc
      have c2 : replCause fT (s.errs i ++ errsOf rs i) = .sentinel .conflict :=
        replCause_conflict hP _ hwfi (by simp only [List.length_append]; omega)
          (by rw [countConflict_append]; omega)
      simp [a1, a2, c1, c2]
  rw [this]

/-- The response loop with its early return reports what the complete set of answers determines. -/
theorem loop_eq_finish {sT fT nrep : Nat} (P : Params sT fT nrep) (n : Nat) (rs : List Resp) (s : St)
    (hb : ∀ i, i < n → (rs.foldl step s).succ i + ((rs.foldl step s).errs i).length ≤ nrep)
    (hwf : ∀ i, i < n → ∀ k, k ∈ (rs.foldl step s).errs i → wfKind k = true) :
    loop n sT fT fT s rs = finish n fT fT (rs.foldl step s) := by
  induction rs generalizing s with
  | nil => rfl
  | cons r rs ih =>
    simp only [loop, List.foldl_cons] at hb hwf ⊢
    split
    · rename_i he
      exact early_stable P n (step s r) rs hb hwf he
    · exact ih (step s r) hb hwf

/-! ### what is reported -/

theorem mem_collect {n fT thr : Nat} {s : St} {c : RCause} :
    c ∈ collect n fT thr s ↔ ∃ i, i < n ∧ (s.errs i).length ≥ fT ∧ c = replCause thr (s.errs i) := by
  unfold collect
  simp only [List.mem_filterMap, List.mem_range]
  constructor
  · rintro ⟨i, hi, h⟩
    by_cases hl : (s.errs i).length ≥ fT
    · simp [hl] at h; exact ⟨i, hi, hl, h.symm⟩
    · simp [hl] at h
  · rintro ⟨i, hi, hl, rfl⟩
    exact ⟨i, hi, by simp [hl]⟩

/-- status of a failed request all of whose per-series causes are sentinels -/
theorem httpStatus_failed_sentinels (cs : List RCause) (hne : cs ≠ [])
    (hall : ∀ c, c ∈ cs → ∃ s, c = .sentinel s) :
    (httpStatus (.failed cs) = 409 ∨ httpStatus (.failed cs) = 503) ∧
    (httpStatus (.failed cs) = 409 → .sentinel .conflict ∈ cs) ∧
    ((∀ c, c ∈ cs → c ≠ .sentinel .conflict) → httpStatus (.failed cs) = 503) := by
  have h0 : cs.isEmpty = false := by cases cs <;> simp_all
  unfold httpStatus writeCause
  simp only [h0]
  by_cases hu : cs.any (· == .sentinel .unavailable) = true
  · simp [hu]
  · by_cases hn : cs.any (· == .sentinel .notReady) = true
    · simp [hu, hn]
    · by_cases hc : cs.any (· == .sentinel .conflict) = true
      · simp only [hu, hn, hc]
        refine ⟨by simp, ?_, ?_⟩
        · intro _
          simp only [List.any_eq_true, beq_iff_eq] at hc
          obtain ⟨x, hx, rfl⟩ := hc
          exact hx
        · intro h
          simp only [List.any_eq_true, beq_iff_eq] at hc
          obtain ⟨x, hx, rfl⟩ := hc
          exact absurd rfl (h _ hx)
      · exfalso
        cases cs with
        | nil => exact hne rfl
        | cons c cs =>
          obtain ⟨s, rfl⟩ := hall c (by simp)
          cases s <;> simp_all

theorem mem_errsOf {rs : List Resp} {i : Nat} {k : ErrKind} (h : k ∈ errsOf rs i) :
    ∃ r, r ∈ rs ∧ r.out = some k := by
  unfold errsOf evs at h
  simp only [List.mem_filterMap, List.mem_flatMap, id] at h
  obtain ⟨o, ⟨r, hr, ho⟩, hk⟩ := h
  have := List.eq_of_mem_replicate ho
  exact ⟨r, hr, by rw [← this, hk]⟩

/-! ### specification vocabulary and the bridge from `fanout` to `final` -/

/-- number of replicas written for a request -/
def nrepOf (rf : Nat) (replicated : Bool) : Nat := if replicated then 1 else rf

/-- the write quorum of a request: `writeQuorum rf`, or the addressed replica alone -/
def quorumOf (rf : Nat) (replicated : Bool) : Nat := if replicated then 1 else writeQuorum rf

/-- number of failed replicas after which the quorum is out of reach -/
def failThr (rf : Nat) (replicated : Bool) : Nat := nrepOf rf replicated - quorumOf rf replicated + 1

/-- The responses are those of one whole request: every series is answered once per replica. -/
def Complete (n nrep : Nat) (rs : List Resp) : Prop := ∀ i, i < n → (evs rs i).length = nrep

/-- conflicts among the answers of series `i` -/
def conflictsOf (rs : List Resp) (i : Nat) : Nat := countConflict (errsOf rs i)

/-! ### the quorum table -/

theorem quorum_table : (List.range 7).map writeQuorum = [1, 1, 1, 2, 3, 3, 4] := by decide

theorem quorum_general (rf : Nat) (h : rf ≠ 2) : writeQuorum rf = rf / 2 + 1 := by simp [writeQuorum, h]

/-- what the proofs need of `writeQuorum`: it is at least one, at most `rf`, and never more than a
    bare majority -/
theorem quorum_bounds (rf : Nat) (h : 1 ≤ rf) :
    1 ≤ writeQuorum rf ∧ writeQuorum rf ≤ rf ∧ 2 * writeQuorum rf ≤ rf + 2 := by
  unfold writeQuorum
  split <;> omega

theorem params_of (rf : Nat) (replicated : Bool) (h : 1 ≤ rf) :
    Params (quorumOf rf replicated) (failThr rf replicated) (nrepOf rf replicated) := by
  have ⟨a, b, c⟩ := quorum_bounds rf h
  cases replicated
  · exact ⟨by simpa [quorumOf] using a, by simpa [quorumOf, nrepOf] using b, by simpa [quorumOf, nrepOf] using c, by simp [failThr]⟩
  · exact ⟨by simp [quorumOf], by simp [quorumOf, nrepOf], by simp [quorumOf, nrepOf], by simp [failThr]⟩

theorem thresholds_failure (rf : Nat) (replicated : Bool) :
    thresholds .failure rf replicated = (quorumOf rf replicated, failThr rf replicated, failThr rf replicated) := by
  cases replicated <;> simp [thresholds, quorumOf, failThr, nrepOf]

/-- with the failure threshold the loop reports what the complete set of answers determines -/
theorem fanout_failure_eq_final (rf : Nat) (replicated : Bool) (n : Nat) (rs : List Resp)
    (hrf : 1 ≤ rf) (hc : Complete n (nrepOf rf replicated) rs)
    (hwf : ∀ r, r ∈ rs → ∀ k, r.out = some k → wfKind k = true) :
    fanout .failure rf replicated n rs = final n (failThr rf replicated) (failThr rf replicated) rs := by
  unfold fanout final
  rw [thresholds_failure]
  simp only
  apply loop_eq_finish (params_of rf replicated hrf)
  · intro i hi
    rw [foldl_step_succ, foldl_step_errs]
    have := oks_add_errs rs i
    have := hc i hi
    simp [St.init]; omega
  · intro i hi k hk
    rw [foldl_step_errs] at hk
    simp only [St.init, List.nil_append] at hk
    obtain ⟨r, hr, ho⟩ := mem_errsOf hk
    exact hwf r hr k ho

theorem final_errs (rs : List Resp) (i : Nat) : (rs.foldl step St.init).errs i = errsOf rs i := by
  rw [foldl_step_errs]; rfl

theorem final_succ (rs : List Resp) (i : Nat) : (rs.foldl step St.init).succ i = oks rs i := by
  rw [foldl_step_succ]; simp [St.init]

theorem final_perm (n fT thr : Nat) {a b : List Resp} (h : a.Perm b) : final n fT thr a = final n fT thr b := by
  unfold final finish
  have : collect n fT thr (a.foldl step St.init) = collect n fT thr (b.foldl step St.init) := by
    apply collect_congr
    intro i _
    have hp := errsOf_perm h i
    simp only [final_errs, replCause_perm thr hp, hp.length_eq]
  rw [this]

/-- What the complete set of answers determines, for the code passing the failure threshold. -/
theorem final_status {sT fT nrep : Nat} (P : Params sT fT nrep) (n : Nat) (rs : List Resp)
    (hc : Complete n nrep rs) :
    (httpStatus (final n fT fT rs) = 409 → ∃ i, i < n ∧ conflictsOf rs i ≥ fT) ∧
    ((∃ i, i < n ∧ oks rs i < sT) → (∀ i, i < n → conflictsOf rs i < fT) → httpStatus (final n fT fT rs) = 503) ∧
    httpStatus (final n fT fT rs) ≠ 500 ∧
    (httpStatus (final n fT fT rs) = 200 ↔ ∀ i, i < n → sT ≤ oks rs i) ∧
    (final n fT fT rs = .ok ↔ ∀ i, i < n → sT ≤ oks rs i) := by
  obtain ⟨h1, h2, h3, h4⟩ := P
  have hf1 : 1 ≤ fT := by omega
  have hlen : ∀ i, i < n → oks rs i + (errsOf rs i).length = nrep := fun i hi => by
    rw [oks_add_errs]; exact hc i hi
  -- every collected cause is a sentinel, and a conflict only with enough conflicts
  have hsent : ∀ c, c ∈ collect n fT fT (rs.foldl step St.init) →
      ∃ i s, i < n ∧ (errsOf rs i).length ≥ fT ∧ c = .sentinel s ∧ (conflictsOf rs i < fT → s ≠ .conflict) := by
    intro c hc'
    obtain ⟨i, hi, hl, rfl⟩ := mem_collect.mp hc'
    rw [final_errs] at hl ⊢
    obtain ⟨s, hs, hs'⟩ := replCause_sentinel hf1 (errsOf rs i) hl
    exact ⟨i, s, hi, hl, hs, hs'⟩
  have hmem : ∀ i, i < n → (errsOf rs i).length ≥ fT →
      replCause fT (errsOf rs i) ∈ collect n fT fT (rs.foldl step St.init) := by
    intro i hi hl
    exact mem_collect.mpr ⟨i, hi, by rw [final_errs]; exact hl, by rw [final_errs]⟩
  unfold final finish
  cases hcs : collect n fT fT (rs.foldl step St.init) with
  | nil =>
    have hall : ∀ i, i < n → sT ≤ oks rs i := by
      intro i hi
      have := hlen i hi
      by_cases hl : (errsOf rs i).length ≥ fT
      · have := hmem i hi hl; rw [hcs] at this; simp at this
      · omega
    simp only [List.isEmpty_nil, if_true, httpStatus]
    refine ⟨by simp, ?_, by simp, ⟨fun _ => hall, fun _ => trivial⟩, ⟨fun _ => hall, fun _ => trivial⟩⟩
    rintro ⟨i, hi, hlt⟩ _
    have := hall i hi; omega
  | cons c0 cs0 =>
    rw [hcs] at hsent
    have hne : (c0 :: cs0) ≠ [] := by simp
    have hall : ∀ c, c ∈ c0 :: cs0 → ∃ s, c = RCause.sentinel s := by
      intro c hc'; obtain ⟨i, s, _, _, h, _⟩ := hsent c hc'; exact ⟨s, h⟩
    obtain ⟨a1, a2, a3⟩ := httpStatus_failed_sentinels (c0 :: cs0) hne hall
    have hnot : ¬ ∀ i, i < n → sT ≤ oks rs i := by
      intro hall'
      obtain ⟨i, s, hi, hl, _, _⟩ := hsent c0 (by simp)
      have := hlen i hi; have := hall' i hi; omega
    simp only [List.isEmpty_cons, Bool.false_eq_true, if_false]
    refine ⟨?_, ?_, ?_, ?_, ?_⟩
    · intro h409
      have hm := a2 h409
      obtain ⟨i, s, hi, hl, hs, hs'⟩ := hsent _ hm
      refine ⟨i, hi, ?_⟩
      by_cases hlt : conflictsOf rs i < fT
      · have := hs' hlt
        simp only [RCause.sentinel.injEq] at hs
        exact absurd hs.symm this
      · omega
    · intro _ hconf
      apply a3
      intro c hc' heq
      obtain ⟨i, s, hi, hl, hs, hs'⟩ := hsent c hc'
      have := hs' (hconf i hi)
      rw [heq] at hs
      simp only [RCause.sentinel.injEq] at hs
      exact this hs.symm
    · rcases a1 with h | h <;> rw [h] <;> decide
    · constructor
      · intro h; rcases a1 with h' | h' <;> rw [h'] at h <;> simp at h
      · intro h; exact absurd h hnot
    · constructor
      · intro h; simp at h
      · intro h; exact absurd h hnot

/-! ### the status as a function of successes and conflicts -/

theorem httpStatus_409_iff (cs : List RCause) (hne : cs ≠ []) (hall : ∀ c, c ∈ cs → ∃ s, c = .sentinel s) :
    httpStatus (.failed cs) = 409 ↔ ∀ c, c ∈ cs → c = .sentinel .conflict := by
  have h0 : cs.isEmpty = false := by cases cs <;> simp_all
  unfold httpStatus writeCause
  simp only [h0]
  by_cases hu : cs.any (· == .sentinel .unavailable) = true
  · simp only [hu]
    constructor
    · intro h; simp at h
    · intro h
      simp only [List.any_eq_true, beq_iff_eq] at hu
      obtain ⟨x, hx, rfl⟩ := hu
      have := h _ hx; simp at this
  · by_cases hn : cs.any (· == .sentinel .notReady) = true
    · simp only [hu, hn]
      constructor
      · intro h; simp at h
      · intro h
        simp only [List.any_eq_true, beq_iff_eq] at hn
        obtain ⟨x, hx, rfl⟩ := hn
        have := h _ hx; simp at this
    · by_cases hc : cs.any (· == .sentinel .conflict) = true
      · simp only [hu, hn, hc]
        constructor
        · intro _ c hcm
          obtain ⟨s, rfl⟩ := hall c hcm
          cases s with
          | conflict => rfl
          | notReady => exact absurd (List.any_eq_true.mpr ⟨_, hcm, by simp⟩) hn
          | unavailable => exact absurd (List.any_eq_true.mpr ⟨_, hcm, by simp⟩) hu
        · intro _; simp
      · exfalso
        cases cs with
        | nil => exact hne rfl
        | cons c cs =>
          obtain ⟨s, rfl⟩ := hall c (by simp)
          cases s <;> simp_all

/-- The status as a function of the per-series counts of successes and of conflicts alone. -/
theorem final_status_char {sT fT nrep : Nat} (P : Params sT fT nrep) (n : Nat) (rs : List Resp)
    (hc : Complete n nrep rs) (hwf : ∀ r, r ∈ rs → ∀ k, r.out = some k → wfKind k = true) :
    (httpStatus (final n fT fT rs) = 200 ↔ ∀ i, i < n → sT ≤ oks rs i) ∧
    (httpStatus (final n fT fT rs) = 409 ↔
      (∃ i, i < n ∧ oks rs i < sT) ∧ ∀ i, i < n → oks rs i < sT → fT ≤ conflictsOf rs i) ∧
    (httpStatus (final n fT fT rs) = 200 ∨ httpStatus (final n fT fT rs) = 409 ∨ httpStatus (final n fT fT rs) = 503) := by
  have hP := P
  obtain ⟨s1, s2, s3, s4, s5⟩ := final_status P n rs hc
  obtain ⟨h1, h2, h3, h4⟩ := P
  have hf1 : 1 ≤ fT := by omega
  have hlen : ∀ i, i < n → oks rs i + (errsOf rs i).length = nrep := fun i hi => by
    rw [oks_add_errs]; exact hc i hi
  refine ⟨s4, ?_, ?_⟩
  · -- 409
    unfold final finish at s1 s4 ⊢
    cases hcs : collect n fT fT (rs.foldl step St.init) with
    | nil =>
      rw [hcs] at s4
      simp only [List.isEmpty_nil, if_true, httpStatus] at s4 ⊢
      constructor
      · intro h; simp at h
      · rintro ⟨⟨i, hi, hlt⟩, _⟩
        have := s4.mp trivial i hi; omega
    | cons c0 cs0 =>
      have hall : ∀ c, c ∈ c0 :: cs0 → ∃ s, c = RCause.sentinel s := by
        intro c hc'
        rw [← hcs] at hc'
        obtain ⟨i, _, hl, rfl⟩ := mem_collect.mp hc'
        obtain ⟨s, hs, _⟩ := replCause_sentinel hf1 _ hl
        exact ⟨s, hs⟩
      simp only [List.isEmpty_cons, Bool.false_eq_true, if_false]
      rw [httpStatus_409_iff _ (by simp) hall]
      constructor
      · intro hallc
        refine ⟨?_, ?_⟩
        · have : c0 ∈ collect n fT fT (rs.foldl step St.init) := by rw [hcs]; simp
          obtain ⟨i, hi, hl, _⟩ := mem_collect.mp this
          rw [final_errs] at hl
          exact ⟨i, hi, by have := hlen i hi; omega⟩
        · intro i hi hlt
          have hl : (errsOf rs i).length ≥ fT := by have := hlen i hi; omega
          have hm : replCause fT (errsOf rs i) ∈ c0 :: cs0 := by
            rw [← hcs]; exact mem_collect.mpr ⟨i, hi, by rw [final_errs]; exact hl, by rw [final_errs]⟩
          have := hallc _ hm
          obtain ⟨s, hs, hs'⟩ := replCause_sentinel hf1 (errsOf rs i) hl
          by_cases hlt' : conflictsOf rs i < fT
          · have hne := hs' hlt'
            rw [hs] at this
            simp only [RCause.sentinel.injEq] at this
            exact absurd this hne
          · unfold conflictsOf at hlt' ⊢; omega
      · rintro ⟨_, hconf⟩ c hc'
        rw [← hcs] at hc'
        obtain ⟨i, hi, hl, rfl⟩ := mem_collect.mp hc'
        rw [final_errs] at hl ⊢
        have hlt : oks rs i < sT := by have := hlen i hi; omega
        have hcf := hconf i hi hlt
        exact replCause_conflict hP _ (fun k hk => by
          obtain ⟨r, hr, ho⟩ := mem_errsOf hk
          exact hwf r hr k ho) (by have := hlen i hi; omega) hcf
  · by_cases hall : ∀ i, i < n → sT ≤ oks rs i
    · exact Or.inl (s4.mpr hall)
    · right
      unfold final finish at s3 s4 ⊢
      cases hcs : collect n fT fT (rs.foldl step St.init) with
      | nil =>
        rw [hcs] at s4
        simp only [List.isEmpty_nil, if_true, httpStatus] at s4
        exact absurd (s4.mp trivial) hall
      | cons c0 cs0 =>
        have hall' : ∀ c, c ∈ c0 :: cs0 → ∃ s, c = RCause.sentinel s := by
          intro c hc'
          rw [← hcs] at hc'
          obtain ⟨i, _, hl, rfl⟩ := mem_collect.mp hc'
          obtain ⟨s, hs, _⟩ := replCause_sentinel hf1 _ hl
          exact ⟨s, hs⟩
        simp only [List.isEmpty_cons, Bool.false_eq_true, if_false]
        exact (httpStatus_failed_sentinels _ (by simp) hall').1

/-! ### re-classified errors -/

/-- the same answers with the errors re-classified by `f` (e.g. by another transport) -/
def relabel (f : ErrKind → ErrKind) (rs : List Resp) : List Resp := rs.map fun r => ⟨r.ids, r.out.map f⟩

theorem evs_relabel (f : ErrKind → ErrKind) (rs : List Resp) (i : Nat) :
    evs (relabel f rs) i = (evs rs i).map (Option.map f) := by
  induction rs with
  | nil => rfl
  | cons r rs ih =>
    simp only [relabel, List.map_cons, evs_cons, List.map_append, List.map_replicate] at ih ⊢
    rw [ih]

theorem oks_relabel (f : ErrKind → ErrKind) (rs : List Resp) (i : Nat) : oks (relabel f rs) i = oks rs i := by
  unfold oks
  rw [evs_relabel, List.countP_map]
  congr 1
  funext o
  cases o <;> rfl

theorem errsOf_relabel (f : ErrKind → ErrKind) (rs : List Resp) (i : Nat) :
    errsOf (relabel f rs) i = (errsOf rs i).map f := by
  unfold errsOf
  rw [evs_relabel]
  generalize evs rs i = l
  induction l with
  | nil => rfl
  | cons o l ih => cases o <;> simp [ih]

theorem conflictsOf_relabel (f : ErrKind → ErrKind) (hf : ∀ k, (f k).conflict = k.conflict) (rs : List Resp) (i : Nat) :
    conflictsOf (relabel f rs) i = conflictsOf rs i := by
  unfold conflictsOf countConflict
  rw [errsOf_relabel, List.countP_map]
  congr 1
  funext k
  simp [hf]

/-! ### the acknowledgement decision (C22) -/

/-- the answers the loop has taken from the channel when it returns -/
def consumed (n sT fT : Nat) : St → List Resp → List Resp
  | _, [] => []
  | s, r :: rs => if canReturnEarly n sT fT (step s r) then [r] else r :: consumed n sT fT (step s r) rs

theorem consumed_prefix (n sT fT : Nat) (s : St) (rs : List Resp) : consumed n sT fT s rs <+: rs := by
  induction rs generalizing s with
  | nil => simp [consumed]
  | cons r rs ih =>
    simp only [consumed]
    split
    · simp
    · exact (List.prefix_cons_inj r).mpr (ih (step s r))

/-- the loop returns what `finish` says about the state reached after the consumed answers … -/
theorem loop_eq_finish_consumed (n sT fT thr : Nat) (s : St) (rs : List Resp) :
    loop n sT fT thr s rs = finish n fT thr ((consumed n sT fT s rs).foldl step s) := by
  induction rs generalizing s with
  | nil => rfl
  | cons r rs ih =>
    simp only [loop, consumed]
    split
    · simp
    · simp [ih]

/-- … and it stops early only when every series is decided -/
theorem consumed_early_or_all (n sT fT : Nat) (s : St) (rs : List Resp) :
    consumed n sT fT s rs = rs ∨ canReturnEarly n sT fT ((consumed n sT fT s rs).foldl step s) = true := by
  induction rs generalizing s with
  | nil => left; rfl
  | cons r rs ih =>
    simp only [consumed]
    split
    · rename_i h; right; simpa using h
    · rcases ih (step s r) with h | h
      · left; rw [h]
      · right; simpa using h

theorem oks_mono {a b : List Resp} (h : a <+: b) (i : Nat) : oks a i ≤ oks b i := by
  obtain ⟨t, rfl⟩ := h
  simp [oks, evs_append, List.countP_append]

theorem errsOf_len_mono {a b : List Resp} (h : a <+: b) (i : Nat) : (errsOf a i).length ≤ (errsOf b i).length := by
  obtain ⟨t, rfl⟩ := h
  simp [errsOf, evs_append, List.filterMap_append]

theorem finish_ok_iff (n fT thr : Nat) (s : St) :
    finish n fT thr s = .ok ↔ ∀ i, i < n → (s.errs i).length < fT := by
  unfold finish
  constructor
  · intro h i hi
    by_cases hl : (s.errs i).length ≥ fT
    · have : replCause thr (s.errs i) ∈ collect n fT thr s := mem_collect.mpr ⟨i, hi, hl, rfl⟩
      cases hc : collect n fT thr s with
      | nil => rw [hc] at this; simp at this
      | cons a l => rw [hc] at h; simp at h
    · omega
  · intro h
    have : collect n fT thr s = [] := by
      cases hc : collect n fT thr s with
      | nil => rfl
      | cons a l =>
        have : a ∈ collect n fT thr s := by rw [hc]; simp
        obtain ⟨i, hi, hl, _⟩ := mem_collect.mp this
        have := h i hi; omega
    simp [this]

/-- The acknowledgement decision of `fanoutForward`, whatever threshold the replication errors
    carry: the request is acknowledged iff every series has `sT` successful writes; and when it
    is acknowledged, the successes were already there among the answers consumed so far. -/
theorem loop_ok_iff {sT fT nrep : Nat} (P : Params sT fT nrep) (n thr : Nat) (rs : List Resp)
    (hc : Complete n nrep rs) :
    (loop n sT fT thr St.init rs = .ok ↔ ∀ i, i < n → sT ≤ oks rs i) ∧
    (loop n sT fT thr St.init rs = .ok → ∀ i, i < n → sT ≤ oks (consumed n sT fT St.init rs) i) := by
  obtain ⟨h1, h2, h3, h4⟩ := P
  have hlen : ∀ i, i < n → oks rs i + (errsOf rs i).length = nrep := fun i hi => by
    rw [oks_add_errs]; exact hc i hi
  have hpre := consumed_prefix n sT fT St.init rs
  have hsound : loop n sT fT thr St.init rs = .ok → ∀ i, i < n → sT ≤ oks (consumed n sT fT St.init rs) i := by
    intro hok i hi
    rw [loop_eq_finish_consumed, finish_ok_iff] at hok
    have hl := hok i hi
    rw [final_errs] at hl
    rcases consumed_early_or_all n sT fT St.init rs with hall | hearly
    · rw [hall] at hl ⊢
      have := hlen i hi; omega
    · rcases (canReturnEarly_iff _ _ _ _).mp hearly i hi with hs | hcf
      · rwa [final_succ] at hs
      · rw [final_errs] at hcf
        have := countConflict_le_length (errsOf (consumed n sT fT St.init rs) i)
        omega
  refine ⟨⟨fun hok i hi => Nat.le_trans (hsound hok i hi) (oks_mono hpre i), ?_⟩, hsound⟩
  intro hall
  rw [loop_eq_finish_consumed, finish_ok_iff]
  intro i hi
  rw [final_errs]
  have := errsOf_len_mono hpre i
  have := hlen i hi
  have := hall i hi
  omega

/-! ### distributeTimeseriesToReplicas -/

/-- how often series `j` is listed over all writes -/
def totalCount (ws : Writes) (j : Nat) : Nat := (ws.map fun w => w.2.count j).sum

theorem totalCount_addWrite (k : Nat × Nat) (id : Nat) (ws : Writes) (j : Nat) :
    totalCount (addWrite k id ws) j = totalCount ws j + (if j = id then 1 else 0) := by
  induction ws with
  | nil =>
    simp only [addWrite, totalCount, List.map_cons, List.map_nil, List.sum_cons, List.sum_nil, List.count_cons, List.count_nil]
    by_cases h : j = id
    · subst h; simp
    · have : ¬ id = j := fun h' => h h'.symm
      simp [h, this]
  | cons w ws ih =>
    obtain ⟨k', ids⟩ := w
    simp only [addWrite]
    split
    · simp only [totalCount, List.map_cons, List.sum_cons, List.count_append, List.count_cons, List.count_nil]
      by_cases h : j = id
      · subst h; simp; omega
      · have : ¬ id = j := fun h' => h h'.symm
        simp [h, this]
    · simp only [totalCount, List.map_cons, List.sum_cons] at ih ⊢
      rw [ih]; omega

theorem totalCount_placeSeries (id : Nat) (pl : List Nat) (rns : List Nat) (ws ws' : Writes) (j : Nat)
    (h : placeSeries id pl rns ws = some ws') :
    totalCount ws' j = totalCount ws j + (if j = id then rns.length else 0) := by
  induction rns generalizing ws with
  | nil => simp [placeSeries] at h; subst h; simp
  | cons rn rns ih =>
    simp only [placeSeries] at h
    split at h
    · simp at h
    · rw [ih _ h, totalCount_addWrite]
      by_cases hj : j = id <;> simp [hj]; omega

theorem totalCount_distributeFrom (replicas : List Nat) (id0 : Nat) (pls : List (List Nat)) (ws ws' : Writes) (j : Nat)
    (h : distributeFrom replicas id0 pls ws = some ws') :
    totalCount ws' j = totalCount ws j + (if id0 ≤ j ∧ j < id0 + pls.length then replicas.length else 0) := by
  induction pls generalizing id0 ws with
  | nil => simp [distributeFrom] at h; subst h; simp; intro _; omega
  | cons pl pls ih =>
    simp only [distributeFrom] at h
    split at h
    · simp at h
    · rename_i ws1 h1
      rw [ih _ _ h, totalCount_placeSeries _ _ _ _ _ _ h1]
      simp only [List.length_cons]
      by_cases a : j = id0
      · subst a
        have : ¬ (j + 1 ≤ j ∧ j < j + 1 + pls.length) := by omega
        have : (j ≤ j ∧ j < j + (pls.length + 1)) := by omega
        simp [*]
      · by_cases b : id0 + 1 ≤ j ∧ j < id0 + 1 + pls.length
        · have : id0 ≤ j ∧ j < id0 + (pls.length + 1) := by omega
          simp [a, b, this]
        · have : ¬ (id0 ≤ j ∧ j < id0 + (pls.length + 1)) := by omega
          simp [a, b, this]

theorem sum_perm {a b : List Nat} (h : a.Perm b) : a.sum = b.sum := by
  induction h with
  | nil => rfl
  | cons x _ ih => simp [ih]
  | swap x y l => simp; omega
  | trans _ _ ih1 ih2 => rw [ih1, ih2]

theorem evs_length (rs : List Resp) (i : Nat) : (evs rs i).length = (rs.map fun r => r.ids.count i).sum := by
  induction rs with
  | nil => rfl
  | cons r rs ih => simp [ih]

/-- `distributeTimeseriesToReplicas` lists every series once per replica; hence, if every write
    is answered exactly once, every series is answered once per replica. -/
theorem distribute_complete (replicas : List Nat) (placement : List (List Nat)) (ws : Writes) (rs : List Resp)
    (hd : distribute replicas placement = some ws)
    (hans : (rs.map (·.ids)).Perm (ws.map (·.2))) :
    Complete placement.length replicas.length rs := by
  intro i hi
  rw [evs_length]
  have h1 : (rs.map fun r => r.ids.count i) = (rs.map (·.ids)).map (fun ids => ids.count i) := by simp
  have h2 : (ws.map fun w => w.2.count i) = (ws.map (·.2)).map (fun ids => ids.count i) := by simp
  rw [h1, sum_perm (hans.map _), ← h2]
  have := totalCount_distributeFrom replicas 0 placement [] ws i hd
  simp only [totalCount] at this
  rw [this]
  simp [hi]

theorem replicasOf_length (rf rep : Nat) : (replicasOf rf rep).length = nrepOf rf (decide (rep ≠ 0)) := by
  unfold replicasOf nrepOf
  by_cases h0 : rep = 0 <;> simp [h0]

end Thanos.Quorum
