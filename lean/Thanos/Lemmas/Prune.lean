import Thanos.Model.Prune
/-
  Helper lemmas for C05: label-set algebra (`get`/`has`/`del`/`set`/`extend`) and the index
  bookkeeping of `matchingStores`.
-/
namespace Thanos.Prune

/-- label names are unique (an invariant of `labels.Labels`) -/
def WF (ls : Labels) : Prop := (ls.map (·.1)).Nodup

theorem has_eq_true_iff {ls : Labels} {n : String} : has ls n = true ↔ n ∈ ls.map (·.1) := by
  induction ls with
  | nil => simp [has]
  | cons p r ih =>
    obtain ⟨k, v⟩ := p
    by_cases h : k = n
    · simp [has, h]
    · simp only [has, h, if_false, ih, List.map_cons, List.mem_cons]
      constructor
      · exact Or.inr
      · rintro (h' | h')
        · exact absurd h'.symm h
        · exact h'

theorem get_of_not_has {ls : Labels} {n : String} (h : has ls n = false) : get ls n = "" := by
  induction ls with
  | nil => simp [get]
  | cons p r ih =>
    obtain ⟨k, v⟩ := p
    by_cases hk : k = n
    · simp [has, hk] at h
    · simp only [has, hk, if_false] at h
      simp [get, hk, ih h]

theorem get_del_self (ls : Labels) (n : String) : get (del ls n) n = "" := by
  induction ls with
  | nil => simp [del, get]
  | cons p r ih =>
    obtain ⟨k, v⟩ := p
    by_cases hk : k = n
    · simpa [del, List.filter, hk] using ih
    · simpa [del, List.filter, hk, get] using ih

theorem get_del_ne (ls : Labels) {n m : String} (h : m ≠ n) : get (del ls n) m = get ls m := by
  induction ls with
  | nil => simp [del, get]
  | cons p r ih =>
    obtain ⟨k, v⟩ := p
    have ih' : get (List.filter (fun p => !decide (p.fst = n)) r) m = get r m := ih
    by_cases hk : k = n
    · subst hk
      have hkm : ¬ k = m := fun e => h e.symm
      simp [del, get, hkm, ih']
    · by_cases hkm : k = m
      · subst hkm
        simp [del, hk, get]
      · simp [del, hk, get, hkm, ih']

theorem get_set_self (ls : Labels) (n v : String) : get (set ls n v) n = v := by
  unfold set
  by_cases hv : v = ""
  · simp [hv, get_del_self]
  · simp [hv, get]

theorem get_set_ne (ls : Labels) (n v : String) {m : String} (h : m ≠ n) :
    get (set ls n v) m = get ls m := by
  unfold set
  have hnm : ¬ n = m := fun e => h e.symm
  by_cases hv : v = ""
  · simp [hv, get_del_ne ls h]
  · simp [hv, get, hnm, get_del_ne ls h]

theorem extend_cons (raw : Labels) (p : String × String) (e : Labels) :
    extend raw (p :: e) = extend (set raw p.1 p.2) e := by
  simp [extend]

/-- a name the external labels do not mention keeps the series' own value -/
theorem get_extend_of_not_has : ∀ (e raw : Labels) (n : String), has e n = false →
    get (extend raw e) n = get raw n
  | [], raw, n, _ => by simp [extend]
  | (k, v) :: e, raw, n, h => by
    have hk : ¬ k = n := by
      intro hk; simp [has, hk] at h
    have h' : has e n = false := by simpa [has, hk] using h
    rw [extend_cons, get_extend_of_not_has e _ n h']
    exact get_set_ne raw k v (fun e => hk e.symm)

/-- `ExtendSortedLabels`: for a name the external label set has, the served series reads the
    external value, whatever the raw series said -/
theorem get_extend_of_has : ∀ (e raw : Labels) (n : String), WF e → has e n = true →
    get (extend raw e) n = get e n
  | [], _, n, _, h => by simp [has] at h
  | (k, v) :: e, raw, n, wf, h => by
    have wf' : WF e := by
      unfold WF at wf ⊢; simp only [List.map_cons, List.nodup_cons] at wf; exact wf.2
    rw [extend_cons]
    by_cases hk : k = n
    · have hn : has e n = false := by
        unfold WF at wf; simp only [List.map_cons, List.nodup_cons] at wf
        cases hh : has e n with
        | false => rfl
        | true => exact absurd (hk ▸ has_eq_true_iff.mp hh) wf.1
      rw [get_extend_of_not_has e _ n hn]
      subst hk
      simp [get_set_self, get]
    · have h' : has e n = true := by simpa [has, hk] using h
      rw [get_extend_of_has e _ n wf' h']
      simp [get, hk]

theorem mem_matchingStores_go (dbg : List (List Matcher)) (mint maxt : Int) (ms : List Matcher) :
    ∀ (cs : List Client) (base i : Nat),
      i ∈ matchingStores.go dbg mint maxt ms base cs ↔
        ∃ c, base ≤ i ∧ cs[i - base]? = some c ∧ storeMatches dbg c mint maxt ms = .ok
  | [], base, i => by simp [matchingStores.go]
  | c :: r, base, i => by
    unfold matchingStores.go
    have ih := mem_matchingStores_go dbg mint maxt ms r (base + 1) i
    by_cases hc : storeMatches dbg c mint maxt ms = .ok
    · simp only [hc, if_true, List.mem_cons, ih]
      constructor
      · rintro (rfl | ⟨c', hb, hget, hok⟩)
        · exact ⟨c, Nat.le_refl _, by simp, hc⟩
        · refine ⟨c', by omega, ?_, hok⟩
          have : i - base = (i - (base + 1)) + 1 := by omega
          rw [this]; simpa using hget
      · rintro ⟨c', hb, hget, hok⟩
        by_cases hi : i = base
        · exact Or.inl hi
        · right
          refine ⟨c', by omega, ?_, hok⟩
          have : i - base = (i - (base + 1)) + 1 := by omega
          rw [this] at hget; simpa using hget
    · simp only [hc, if_false, ih]
      constructor
      · rintro ⟨c', hb, hget, hok⟩
        refine ⟨c', by omega, ?_, hok⟩
        have : i - base = (i - (base + 1)) + 1 := by omega
        rw [this]; simpa using hget
      · rintro ⟨c', hb, hget, hok⟩
        by_cases hi : i = base
        · subst hi
          simp at hget; subst hget; exact absurd hok hc
        · refine ⟨c', by omega, ?_, hok⟩
          have : i - base = (i - (base + 1)) + 1 := by omega
          rw [this] at hget; simpa using hget

theorem mem_matchingStores {dbg : List (List Matcher)} {cs : List Client} {mint maxt : Int}
    {ms : List Matcher} {i : Nat} :
    i ∈ matchingStores dbg cs mint maxt ms ↔
      ∃ c, cs[i]? = some c ∧ storeMatches dbg c mint maxt ms = .ok := by
  unfold matchingStores
  rw [mem_matchingStores_go]
  simp

/-! ### TSDB selector -/

theorem selStores_spec (sel : Selector) (dbg : List (List Matcher)) (mint maxt : Int) (ms : List Matcher) :
    ∀ (cs : List Client) (base i : Nat),
      (i ∈ (selStores sel dbg mint maxt ms base cs).1 ↔
        ∃ c, base ≤ i ∧ cs[i - base]? = some c ∧ (matchLabelSets sel c.extSets).1 = true ∧
          storeMatches dbg c mint maxt ms = .ok) ∧
      (∀ c, base ≤ i → cs[i - base]? = some c → i ∈ (selStores sel dbg mint maxt ms base cs).1 →
        ∀ e ∈ (matchLabelSets sel c.extSets).2, e ∈ (selStores sel dbg mint maxt ms base cs).2) ∧
      (∀ e ∈ (selStores sel dbg mint maxt ms base cs).2, ∃ c ∈ cs, e ∈ (matchLabelSets sel c.extSets).2)
  | [], base, i => by simp [selStores]
  | c :: r, base, i => by
    have ih := selStores_spec sel dbg mint maxt ms r (base + 1) i
    unfold selStores
    generalize hml : matchLabelSets sel c.extSets = ml at *
    obtain ⟨m, kept⟩ := ml
    generalize hrec : selStores sel dbg mint maxt ms (base + 1) r = rec at ih
    obtain ⟨idx, u⟩ := rec
    simp only at ih ⊢
    have hshift : ∀ (hne : i ≠ base) (hb : base ≤ i), (c :: r)[i - base]? = r[i - (base + 1)]? := by
      intro hne hb
      have : i - base = (i - (base + 1)) + 1 := by omega
      rw [this]; simp
    by_cases hq : (m && decide (storeMatches dbg c mint maxt ms = .ok)) = true
    · simp only [hq, if_true]
      have hq' : m = true ∧ storeMatches dbg c mint maxt ms = .ok := by simpa using hq
      refine ⟨?_, ?_, ?_⟩
      · simp only [List.mem_cons]
        constructor
        · rintro (rfl | h)
          · exact ⟨c, Nat.le_refl _, by simp, by rw [hml]; exact hq'.1, hq'.2⟩
          · obtain ⟨c', hb, hget, h1, h2⟩ := ih.1.mp h
            exact ⟨c', by omega, by rw [hshift (by omega) (by omega)]; exact hget, h1, h2⟩
        · rintro ⟨c', hb, hget, h1, h2⟩
          by_cases hib : i = base
          · exact Or.inl hib
          · right
            rw [hshift hib hb] at hget
            exact ih.1.mpr ⟨c', by omega, hget, h1, h2⟩
      · intro c' hb hget hmem e he
        by_cases hib : i = base
        · subst hib
          simp at hget; subst hget
          rw [hml] at he
          exact List.mem_append_left _ he
        · rw [hshift hib hb] at hget
          simp only [List.mem_cons] at hmem
          rcases hmem with h | h
          · exact absurd h hib
          · exact List.mem_append_right _ (ih.2.1 c' (by omega) hget h e he)
      · intro e he
        simp only [List.mem_append] at he
        rcases he with he | he
        · exact ⟨c, by simp, by rw [hml]; exact he⟩
        · obtain ⟨c', hc', h⟩ := ih.2.2 e he
          exact ⟨c', List.mem_cons_of_mem _ hc', h⟩
    · simp only [hq, if_false, Bool.false_eq_true]
      refine ⟨?_, ?_, ?_⟩
      · constructor
        · intro h
          obtain ⟨c', hb, hget, h1, h2⟩ := ih.1.mp h
          exact ⟨c', by omega, by rw [hshift (by omega) (by omega)]; exact hget, h1, h2⟩
        · rintro ⟨c', hb, hget, h1, h2⟩
          by_cases hib : i = base
          · subst hib
            simp at hget; subst hget
            rw [hml] at h1
            have h1' : m = true := h1
            exact absurd (by simp [h1', h2]) hq
          · rw [hshift hib hb] at hget
            exact ih.1.mpr ⟨c', by omega, hget, h1, h2⟩
      · intro c' hb hget hmem e he
        by_cases hib : i = base
        · subst hib
          obtain ⟨c'', hb', _, _, _⟩ := ih.1.mp hmem
          omega
        · rw [hshift hib hb] at hget
          exact ih.2.1 c' (by omega) hget hmem e he
      · intro e he
        obtain ⟨c', hc', h⟩ := ih.2.2 e he
        exact ⟨c', List.mem_cons_of_mem _ hc', h⟩

theorem mem_eraseDups {α : Type} [BEq α] [LawfulBEq α] (l : List α) (x : α) : x ∈ l.eraseDups ↔ x ∈ l := by
  simp

theorem mem_labelNames {sets : List Labels} {n : String} :
    n ∈ labelNames sets ↔ ∃ ls ∈ sets, has ls n = true := by
  unfold labelNames
  rw [mem_eraseDups]
  simp only [List.mem_flatMap, List.mem_map]
  constructor
  · rintro ⟨ls, hls, p, hp, rfl⟩
    exact ⟨ls, hls, has_eq_true_iff.mpr (List.mem_map.mpr ⟨p, hp, rfl⟩)⟩
  · rintro ⟨ls, hls, h⟩
    obtain ⟨p, hp, rfl⟩ := List.mem_map.mp (has_eq_true_iff.mp h)
    exact ⟨ls, hls, p, hp, rfl⟩

/-- a series served under a label set of the union satisfies every matcher generated for the union,
    provided it has no label of its own under an external label name the set lacks -/
theorem matchAll_matchersForLabelSets (union : List Labels) (e : Labels) (he : e ∈ union) (s : Labels)
    (hext : ∀ n, has e n = true → get s n = get e n)
    (hclash : ∀ n ∈ labelNames union, has e n = false → get s n = "") :
    matchAll (matchersForLabelSets union) s = true := by
  simp only [matchAll, matchersForLabelSets, List.all_eq_true, List.mem_map]
  rintro m ⟨n, hn, rfl⟩
  simp only [selMatcher, Matcher.matches]
  cases hh : has e n with
  | true =>
    rw [hext n hh]
    have : get e n ∈ valuesOf union n := by
      simp only [valuesOf, List.mem_filterMap]
      exact ⟨e, he, by simp [hh]⟩
    simp [this]
  | false =>
    rw [hclash n hn hh]
    have : someLacks union n = true := by
      simp only [someLacks, List.any_eq_true]
      exact ⟨e, he, by simp [hh]⟩
    simp [this]

theorem matchAll_append (a b : List Matcher) (s : Labels) :
    matchAll (a ++ b) s = (matchAll a s && matchAll b s) := by
  simp [matchAll, List.all_append]

end Thanos.Prune
