import Thanos.Model.Frames
/-
  Helper lemmas for the frame splitter of TSDBStore.Series (C08).
-/
namespace Thanos.Frames

theorem splitLoop_flatten (budget : Int) : ∀ (cs : List Chunk) (left : Int) (acc : List Chunk),
    cs ≠ [] → (splitLoop budget cs left acc).flatten = acc ++ cs
  | [], _, _, h => absurd rfl h
  | c :: rest, left, acc, _ => by
    simp only [splitLoop]
    split
    next h =>
      have hr : rest ≠ [] := by
        intro h'; subst h'; simp at h
      rw [splitLoop_flatten budget rest _ _ hr]
      simp
    next h =>
      cases rest with
      | nil => simp [splitLoop]
      | cons d ds =>
        rw [List.flatten_cons, splitLoop_flatten budget (d :: ds) budget [] (by simp)]
        simp

theorem splitLoop_nonempty (budget : Int) : ∀ (cs : List Chunk) (left : Int) (acc : List Chunk),
    ∀ f ∈ splitLoop budget cs left acc, f ≠ []
  | [], _, _, f, h => by simp [splitLoop] at h
  | c :: rest, left, acc, f, h => by
    simp only [splitLoop] at h
    split at h
    · exact splitLoop_nonempty budget rest _ _ f h
    · rcases List.mem_cons.mp h with rfl | h'
      · simp
      · exact splitLoop_nonempty budget rest _ _ f h'

theorem splitLoop_nil_iff (budget : Int) (cs : List Chunk) (left : Int) (acc : List Chunk) :
    splitLoop budget cs left acc = [] ↔ cs = [] := by
  constructor
  · intro h
    cases cs with
    | nil => rfl
    | cons c rest =>
      have := splitLoop_flatten budget (c :: rest) left acc (by simp)
      rw [h] at this
      simp at this
  · intro h; subst h; simp [splitLoop]

end Thanos.Frames
