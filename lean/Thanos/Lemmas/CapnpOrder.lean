import Thanos.Lemmas.Capnp
/-
  C25: `marshalSymbols` ranges over a Go map.  Whatever order the runtime picks, the offsets and
  the data buffer come out the same (the writes are disjoint).
-/
namespace Thanos.Capnp

def Entry.stop (e : Entry) : Nat := e.start + e.str.length

/-- the byte ranges of two entries do not overlap -/
def Disj (e f : Entry) : Prop := e.stop ≤ f.start ∨ f.stop ≤ e.start

theorem disj_symm {e f : Entry} (h : Disj e f) : Disj f e := Or.symm h

theorem writeAt_length {buf : Str} {start : Nat} {s : Str} (h : start + s.length ≤ buf.length) :
    (writeAt buf start s).length = buf.length := by
  simp [writeAt]; omega

theorem writeAt_in {buf : Str} {start : Nat} {s : Str} (h : start + s.length ≤ buf.length) {k : Nat} (hk : k < s.length) :
    (writeAt buf start s)[start + k]? = s[k]? := by
  unfold writeAt
  have h1 : (buf.take start).length = start := by simp; omega
  rw [List.append_assoc, List.getElem?_append_right (by omega), h1]
  simp [List.getElem?_append_left hk]

theorem writeAt_out {buf : Str} {start : Nat} {s : Str} (h : start + s.length ≤ buf.length) {p : Nat}
    (hp : p < start ∨ start + s.length ≤ p) : (writeAt buf start s)[p]? = buf[p]? := by
  unfold writeAt
  have h1 : (buf.take start).length = start := by simp; omega
  rcases hp with hp | hp
  · rw [List.append_assoc, List.getElem?_append_left (by omega)]
    simp [hp]
  · rw [List.getElem?_append_right (by simp; omega)]
    simp only [List.length_append, h1, List.getElem?_drop]
    congr 1; omega

theorem foldl_writeAt : ∀ (l : List Entry) (buf : Str), l.Pairwise Disj → (∀ e, e ∈ l → e.stop ≤ buf.length) →
    (l.foldl (fun d e => writeAt d e.start e.str) buf).length = buf.length ∧
    (∀ e, e ∈ l → ∀ k, k < e.str.length → (l.foldl (fun d e => writeAt d e.start e.str) buf)[e.start + k]? = e.str[k]?) ∧
    (∀ p, (∀ e, e ∈ l → p < e.start ∨ e.stop ≤ p) → (l.foldl (fun d e => writeAt d e.start e.str) buf)[p]? = buf[p]?)
  | [], buf, _, _ => ⟨rfl, fun e he => by simp at he, fun _ _ => rfl⟩
  | a :: l, buf, hd, hb => by
    obtain ⟨hda, hdl⟩ := List.pairwise_cons.mp hd
    have hab : a.start + a.str.length ≤ buf.length := hb a (by simp)
    have hlen := writeAt_length hab
    obtain ⟨i1, i2, i3⟩ := foldl_writeAt l (writeAt buf a.start a.str) hdl
      (fun e he => by rw [hlen]; exact hb e (by simp [he]))
    simp only [List.foldl_cons]
    refine ⟨by rw [i1, hlen], ?_, ?_⟩
    · intro e he k hk
      rcases List.mem_cons.mp he with rfl | he
      · rw [i3 _ (fun f hf => by
          have := hda f hf
          unfold Disj Entry.stop at this
          unfold Entry.stop
          omega)]
        exact writeAt_in hab hk
      · exact i2 e he k hk
    · intro p hp
      rw [i3 p (fun e he => hp e (by simp [he]))]
      exact writeAt_out hab (by have := hp a (by simp); unfold Entry.stop at this; exact this)

theorem foldl_set : ∀ (l : List Entry) (o : List Nat), l.Pairwise (fun e f => e.index ≠ f.index) →
    (l.foldl (fun o e => o.set e.index (e.start + e.str.length)) o).length = o.length ∧
    (∀ e, e ∈ l → e.index < o.length →
      (l.foldl (fun o e => o.set e.index (e.start + e.str.length)) o)[e.index]? = some e.stop) ∧
    (∀ i, (∀ e, e ∈ l → e.index ≠ i) → (l.foldl (fun o e => o.set e.index (e.start + e.str.length)) o)[i]? = o[i]?)
  | [], o, _ => ⟨rfl, fun e he => by simp at he, fun _ _ => rfl⟩
  | a :: l, o, hd => by
    obtain ⟨hda, hdl⟩ := List.pairwise_cons.mp hd
    obtain ⟨i1, i2, i3⟩ := foldl_set l (o.set a.index (a.start + a.str.length)) hdl
    simp only [List.foldl_cons]
    refine ⟨by rw [i1]; simp, ?_, ?_⟩
    · intro e he hlt
      rcases List.mem_cons.mp he with rfl | he
      · rw [i3 _ (fun f hf => (hda f hf).symm)]
        simp [List.getElem?_set_self hlt, Entry.stop]
      · exact i2 e he (by simpa using hlt)
    · intro i hi
      rw [i3 i (fun e he => hi e (by simp [he]))]
      exact List.getElem?_set_ne (hi a (by simp))

/-- what well-formedness gives about the canonical arrays -/
theorem wffrom_facts (pre : Str) : ∀ (idx : Nat) (es : List Entry) (size : Nat), WFfrom idx pre.length es size →
    (pre ++ es.flatMap (·.str)).length = size ∧
    es.Pairwise Disj ∧ es.Pairwise (fun e f => e.index ≠ f.index) ∧
    (∀ e, e ∈ es → pre.length ≤ e.start ∧ e.stop ≤ size ∧ idx ≤ e.index ∧ e.index < idx + es.length) ∧
    (∀ e, e ∈ es → ∀ k, k < e.str.length → (pre ++ es.flatMap (·.str))[e.start + k]? = e.str[k]?) ∧
    (∀ p, pre.length ≤ p → p < size → ∃ e, e ∈ es ∧ e.start ≤ p ∧ p < e.stop)
  | _, [], size, h => by
    simp only [WFfrom] at h
    refine ⟨by simp [h], List.Pairwise.nil, List.Pairwise.nil, fun e he => by simp at he, fun e he => by simp at he, ?_⟩
    intro p h1 h2; omega
  | idx, a :: es, size, h => by
    obtain ⟨h1, h2, h3⟩ := h
    have hlen : (pre ++ a.str).length = pre.length + a.str.length := by simp
    obtain ⟨f1, f2, f3, f4, f5, f6⟩ := wffrom_facts (pre ++ a.str) (idx + 1) es size (by rw [hlen]; exact h3)
    have hstop : a.stop = pre.length + a.str.length := by simp [Entry.stop, h2]
    refine ⟨by simpa [List.append_assoc] using f1, ?_, ?_, ?_, ?_, ?_⟩
    · refine List.pairwise_cons.mpr ⟨fun e he => ?_, f2⟩
      left; rw [hstop]; have := (f4 e he).1; rw [hlen] at this; exact this
    · refine List.pairwise_cons.mpr ⟨fun e he => ?_, f3⟩
      have := (f4 e he).2.2.1; omega
    · intro e he
      rcases List.mem_cons.mp he with rfl | he
      · have : pre.length + e.str.length ≤ size := by
          have := f1; simp at this; omega
        exact ⟨by omega, by rw [hstop]; exact this, by omega, by simp; omega⟩
      · obtain ⟨g1, g2, g3, g4⟩ := f4 e he
        rw [hlen] at g1
        exact ⟨by omega, g2, by omega, by simp; omega⟩
    · intro e he k hk
      rcases List.mem_cons.mp he with rfl | he
      · simp only [List.flatMap_cons, h2]
        rw [← List.append_assoc, List.getElem?_append_left (by simp; omega),
            List.getElem?_append_right (by omega)]
        simp
      · have := f5 e he k hk
        simpa [List.append_assoc] using this
    · intro p hp1 hp2
      by_cases hin : p < pre.length + a.str.length
      · exact ⟨a, by simp, by omega, by rw [hstop]; exact hin⟩
      · obtain ⟨e, he, g1, g2⟩ := f6 p (by rw [hlen]; omega) hp2
        exact ⟨e, by simp [he], g1, g2⟩

/-- **The order in which the Go runtime ranges over the symbol map does not matter**: for every
    permutation of the entries the loop of `marshalSymbols` produces the same offsets and data. -/
theorem marshalSymbols_any_order (b : Builder) (h : WF b) (order : List Entry) (hp : order.Perm b.entries) :
    marshalSymbolsIn order b.entries.length b.size = marshalSymbols b := by
  obtain ⟨f1, f2, f3, f4, f5, f6⟩ := wffrom_facts [] 0 b.entries b.size (by simpa [WF] using h)
  simp only [List.nil_append, List.length_nil, Nat.zero_add] at f1 f4 f5 f6
  have hd : order.Pairwise Disj := hp.symm.pairwise_iff (fun h => disj_symm h) |>.mp f2
  have hi : order.Pairwise (fun e f => e.index ≠ f.index) := hp.symm.pairwise_iff (fun h => Ne.symm h) |>.mp f3
  obtain ⟨d1, d2, d3⟩ := foldl_writeAt order (List.replicate b.size 0) hd
    (fun e he => by simp; exact (f4 e (hp.mem_iff.mp he)).2.1)
  obtain ⟨o1, o2, o3⟩ := foldl_set order (List.replicate b.entries.length 0) hi
  unfold marshalSymbolsIn marshalSymbols
  congr 1
  · -- offsets
    apply List.ext_getElem?
    intro i
    by_cases hlt : i < b.entries.length
    · have hmem : b.entries[i] ∈ b.entries := List.getElem_mem hlt
      obtain ⟨j, hj, hidx⟩ := wffrom_mem (by simpa [WF] using h) hmem
      have hji : j = i := by
        have h1 := (List.getElem?_eq_some_iff.mp hj)
        obtain ⟨hjl, hje⟩ := h1
        -- entries are pairwise distinct in index, so the position is determined
        by_cases hne : j = i
        · exact hne
        · exfalso
          have hidx_i : b.entries[i].index = 0 + j := hidx
          have := wffrom_mem (by simpa [WF] using h) (List.getElem_mem hjl)
          obtain ⟨j', hj', hidx'⟩ := this
          -- use the index bounds: entry at position k has index k
          have key : ∀ (idx st : Nat) (es : List Entry) (size : Nat), WFfrom idx st es size → ∀ k (hk : k < es.length), es[k].index = idx + k := by
            intro idx st es
            induction es generalizing idx st with
            | nil => intro _ _ k hk; simp at hk
            | cons a es ih =>
              intro size hw k hk
              obtain ⟨w1, _, w3⟩ := hw
              cases k with
              | zero => simpa using w1
              | succ k => have := ih (idx + 1) _ size w3 k (by simpa using hk); simp [this]; omega
          have := key 0 0 b.entries b.size (by simpa [WF] using h) i hlt
          omega
      subst hji
      have hidx0 : b.entries[j].index = j := by omega
      have := o2 b.entries[j] (hp.mem_iff.mpr hmem) (by simp [hidx0]; exact hlt)
      rw [hidx0] at this
      rw [this]
      simp [List.getElem?_map, List.getElem?_eq_getElem hlt, Entry.stop]
    · have hl1 : ¬ i < (order.foldl (fun o e => o.set e.index (e.start + e.str.length)) (List.replicate b.entries.length 0)).length := by
        rw [o1]; simpa using hlt
      rw [List.getElem?_eq_none (by omega), List.getElem?_eq_none (by simp; omega)]
  · -- data
    apply List.ext_getElem?
    intro p
    by_cases hlt : p < b.size
    · obtain ⟨e, he, g1, g2⟩ := f6 p (Nat.zero_le _) hlt
      have hk : p - e.start < e.str.length := by unfold Entry.stop at g2; omega
      have hpe : p = e.start + (p - e.start) := by omega
      rw [hpe, d2 e (hp.mem_iff.mpr he) _ hk, f5 e he _ hk]
    · rw [List.getElem?_eq_none (by rw [d1]; simp; omega), List.getElem?_eq_none (by rw [f1]; omega)]

end Thanos.Capnp
