import Thanos.Model.LoserTree
import Thanos.Lemmas.LoserTreeBase
import Thanos.Lemmas.LoserTreeInit
import Thanos.Lemmas.LoserTreeReplay
/-
  Refinement proof of pkg/losertree, part 4: `New`, `moveNext`, `Next`, and the drained sequence
  is a k-way merge of the input sequences.
-/
namespace Thanos.LoserTree

variable {E : Type} {le : E → E → Prop}

/-- the k-way merge relation over an arbitrary element type: repeatedly remove a head that is
    `le` every other head -/
inductive IsKMergeG (le : E → E → Prop) : List (List E) → List E → Prop
  | nil {ss : List (List E)} : (∀ s ∈ ss, s = []) → IsKMergeG le ss []
  | cons {ss : List (List E)} {out : List E} (i : Nat) (x : E) (rest : List E) :
      ss[i]? = some (x :: rest) →
      (∀ (j : Nat) (y : E) (r : List E), ss[j]? = some (y :: r) → le x y) →
      IsKMergeG le (ss.set i rest) out → IsKMergeG le ss (x :: out)

/-- what a leaf still has to deliver: its current value (unless exhausted) and its remaining items -/
def stream (t : Tree E) (l : Nat) : List E :=
  if idx t l = -1 then [] else val t l :: (getNode t l).items

def streams (t : Tree E) (n : Nat) : List (List E) := (List.range n).map (fun i => stream t (n + i))

theorem streams_length (t : Tree E) (n : Nat) : (streams t n).length = n := by simp [streams]

theorem streams_get (t : Tree E) (n i : Nat) (h : i < n) : (streams t n)[i]? = some (stream t (n + i)) := by
  simp [streams, h]

theorem stream_congr {t t' : Tree E} {l : Nat} (h : getNode t' l = getNode t l) : stream t' l = stream t l := by
  have h1 : idx t' l = idx t l := by simp only [idx, h]
  have h2 : val t' l = val t l := by simp only [val, h]
  unfold stream
  rw [h1, h2, h]

theorem streams_congr {t t' : Tree E} {n : Nat} (h : ∀ l, n ≤ l → getNode t' l = getNode t l) :
    streams t' n = streams t n := by
  unfold streams
  apply List.map_congr_left
  intro i _
  exact stream_congr (h (n + i) (by omega))

/-- leaves: an exhausted leaf carries `maxVal` -/
def LeafOK (t : Tree E) (n : Nat) : Prop := ∀ l, n ≤ l → l < 2 * n → idx t l = -1 → val t l = t.maxVal

theorem leafOK_congr {t t' : Tree E} {n : Nat} (h : ∀ l, n ≤ l → getNode t' l = getNode t l)
    (hm : t'.maxVal = t.maxVal) (hok : LeafOK t n) : LeafOK t' n := by
  intro l hl hl2 hi
  have := h l hl
  simp only [idx, val, this] at hi ⊢
  rw [hm]; exact hok l hl hl2 hi

def total (ss : List (List E)) : Nat := (ss.map List.length).sum

theorem total_set_tail : ∀ (ss : List (List E)) (i : Nat) (x : E) (rest : List E),
    ss[i]? = some (x :: rest) → total (ss.set i rest) + 1 = total ss
  | [], _, _, _, h => by simp at h
  | s :: r, 0, x, rest, h => by
    simp at h; subst h
    simp [total]; omega
  | s :: r, i + 1, x, rest, h => by
    simp only [List.getElem?_cons_succ] at h
    have := total_set_tail r i x rest h
    simp only [total, List.set_cons_succ, List.map_cons, List.sum_cons] at this ⊢
    omega

/-! ### `moveNext` -/

theorem moveNext_nil (t : Tree E) (w : Nat) (h : (getNode t w).items = []) :
    (moveNext t w).1 = { setNode t w { getNode t w with value := t.maxVal, index := -1 } with closed := t.closed ++ [w] } := by
  unfold moveNext
  simp only [h]

theorem moveNext_cons (t : Tree E) (w : Nat) (x : E) (rest : List E) (h : (getNode t w).items = x :: rest) :
    (moveNext t w).1 = setNode t w { getNode t w with value := x, items := rest } := by
  unfold moveNext
  simp only [h]

theorem moveNext_spec (t : Tree E) (w : Nat) (hw : w < t.nodes.length) (hi0 : idx t w ≠ -1) :
    (moveNext t w).1.nodes.length = t.nodes.length ∧ (moveNext t w).1.less = t.less ∧
    (moveNext t w).1.maxVal = t.maxVal ∧
    (∀ q, q ≠ w → getNode (moveNext t w).1 q = getNode t q) ∧
    stream (moveNext t w).1 w = (getNode t w).items ∧
    (idx (moveNext t w).1 w = -1 → val (moveNext t w).1 w = t.maxVal) := by
  cases hitems : (getNode t w).items with
  | nil =>
    rw [moveNext_nil t w hitems]
    have hg : getNode ({ setNode t w { getNode t w with value := t.maxVal, index := -1 } with closed := t.closed ++ [w] } : Tree E) w
        = { getNode t w with value := t.maxVal, index := -1 } := by
      show getNode (setNode t w _) w = _
      exact getNode_setNode_same t w _ hw
    refine ⟨by simp [setNode], rfl, rfl, ?_, ?_, ?_⟩
    · intro q hq
      show getNode (setNode t w _) q = getNode t q
      exact getNode_setNode_ne t w q _ (fun e => hq e.symm)
    · simp [stream, idx, hg]
    · intro _; simp [val, hg]
  | cons x rest =>
    rw [moveNext_cons t w x rest hitems]
    have hg : getNode (setNode t w { getNode t w with value := x, items := rest }) w
        = { getNode t w with value := x, items := rest } := getNode_setNode_same t w _ hw
    have hidx : idx (setNode t w { getNode t w with value := x, items := rest }) w = idx t w := by
      simp [idx, hg]
    refine ⟨by simp [setNode], rfl, rfl, fun q hq => getNode_setNode_ne t w q _ (fun e => hq e.symm), ?_, ?_⟩
    · simp only [stream, hidx, hi0, if_false, val, hg]
    · intro hi
      rw [hidx] at hi
      exact absurd hi hi0

/-! ### `New` -/

/-- the loop of `New` that calls `moveNext` on the first `k` leaves -/
def primeLeaves (t : Tree E) (n k : Nat) : Tree E :=
  (List.range k).foldl (fun t i => (moveNext t (i + n)).1) t

theorem primeLeaves_spec (t : Tree E) (n : Nat) (seqs : List (List E)) (hlen : t.nodes.length = 2 * n)
    (hfresh : ∀ i, i < n → idx t (n + i) = 0 ∧ (getNode t (n + i)).items = seqs[i]?.getD []) :
    ∀ k, k ≤ n →
      (primeLeaves t n k).nodes.length = 2 * n ∧ (primeLeaves t n k).less = t.less ∧
      (primeLeaves t n k).maxVal = t.maxVal ∧
      (∀ q, (q < n ∨ n + k ≤ q) → getNode (primeLeaves t n k) q = getNode t q) ∧
      (∀ i, i < k → stream (primeLeaves t n k) (n + i) = seqs[i]?.getD [] ∧
        (idx (primeLeaves t n k) (n + i) = -1 → val (primeLeaves t n k) (n + i) = t.maxVal)) := by
  intro k
  induction k with
  | zero =>
    intro _
    have h0 : primeLeaves t n 0 = t := rfl
    rw [h0]
    exact ⟨hlen, rfl, rfl, fun _ _ => rfl, fun i hi => by omega⟩
  | succ k ih =>
    intro hk
    obtain ⟨h1, h2, h3, h4, h5⟩ := ih (by omega)
    have hstep : primeLeaves t n (k + 1) = (moveNext (primeLeaves t n k) (k + n)).1 := by
      simp only [primeLeaves, List.range_succ, List.foldl_append, List.foldl_cons, List.foldl_nil]
    have hnode : getNode (primeLeaves t n k) (k + n) = getNode t (k + n) := h4 (k + n) (Or.inr (by omega))
    have hidx0 : idx (primeLeaves t n k) (k + n) ≠ -1 := by
      have := (hfresh k (by omega)).1
      simp only [idx] at this ⊢
      rw [hnode, Nat.add_comm k n, this]; decide
    have hm := moveNext_spec (primeLeaves t n k) (k + n) (by rw [h1]; omega) hidx0
    rw [hstep]
    refine ⟨hm.1.trans h1, hm.2.1.trans h2, hm.2.2.1.trans h3, ?_, ?_⟩
    · intro q hq
      rw [hm.2.2.2.1 q (by omega)]
      exact h4 q (by omega)
    · intro i hi
      by_cases hik : i = k
      · subst hik
        rw [Nat.add_comm n i]
        refine ⟨?_, ?_⟩
        · rw [hm.2.2.2.2.1, hnode, Nat.add_comm i n]; exact (hfresh i (by omega)).2
        · intro h; rw [hm.2.2.2.2.2 h, h3]
      · have hne : n + i ≠ k + n := by omega
        have hg := hm.2.2.2.1 (n + i) hne
        have hs := stream_congr hg
        rw [hs]
        refine ⟨(h5 i (by omega)).1, ?_⟩
        intro h
        have h' : idx (primeLeaves t n k) (n + i) = -1 := by simp only [idx] at h ⊢; rw [← hg]; exact h
        have := (h5 i (by omega)).2 h'
        simp only [val] at this ⊢
        rw [hg]; exact this

/-- the tree `New` allocates before it primes the leaves -/
def freshTree (seqs : List (List E)) (maxVal : E) (less : E → E → Bool) : Tree E :=
  { maxVal := maxVal, less := less, closed := [],
    nodes := List.replicate seqs.length ({ index := 0, value := maxVal, items := [] } : Node E) ++
      seqs.map (fun s => ({ index := 0, value := maxVal, items := s } : Node E)) }

theorem new_eq (seqs : List (List E)) (maxVal : E) (less : E → E → Bool) :
    new seqs maxVal less =
      if seqs.length > 0 then
        setNode (primeLeaves (freshTree seqs maxVal less) seqs.length seqs.length) 0
          { getNode (primeLeaves (freshTree seqs maxVal less) seqs.length seqs.length) 0 with index := -1 }
      else primeLeaves (freshTree seqs maxVal less) seqs.length seqs.length := rfl

theorem new_spec (seqs : List (List E)) (maxVal : E) (less : E → E → Bool) (hn : 1 ≤ seqs.length) :
    (new seqs maxVal less).nodes.length = 2 * seqs.length ∧ (new seqs maxVal less).less = less ∧
    (new seqs maxVal less).maxVal = maxVal ∧ idx (new seqs maxVal less) 0 = -1 ∧
    streams (new seqs maxVal less) seqs.length = seqs ∧ LeafOK (new seqs maxVal less) seqs.length := by
  rw [new_eq]
  generalize ht0 : freshTree seqs maxVal less = t0
  generalize hn' : seqs.length = n at *
  have hlen0 : t0.nodes.length = 2 * n := by subst ht0; simp [freshTree, hn']; omega
  have hleaf0 : ∀ i, i < n → getNode t0 (n + i) = { index := 0, value := maxVal, items := seqs[i]?.getD [] } := by
    intro i hi
    subst ht0
    simp only [getNode, freshTree]
    rw [List.getElem?_append_right (by simp [hn'])]
    simp only [List.length_replicate, hn', Nat.add_sub_cancel_left, List.getElem?_map]
    have : seqs[i]? = some (seqs[i]'(by omega)) := List.getElem?_eq_getElem (by omega)
    simp [this]
  have hfresh : ∀ i, i < n → idx t0 (n + i) = 0 ∧ (getNode t0 (n + i)).items = seqs[i]?.getD [] := by
    intro i hi; simp [idx, hleaf0 i hi]
  have hP := primeLeaves_spec t0 n seqs hlen0 hfresh n (Nat.le_refl n)
  generalize primeLeaves t0 n n = t1 at hP
  obtain ⟨h1, h2, h3, h4, h5⟩ := hP
  have hpos : n > 0 := by omega
  simp only [hpos, if_true]
  have hroot : getNode (setNode t1 0 { getNode t1 0 with index := -1 }) 0 = { getNode t1 0 with index := -1 } :=
    getNode_setNode_same t1 0 _ (by omega)
  have hne : ∀ q, 1 ≤ q → getNode (setNode t1 0 { getNode t1 0 with index := -1 }) q = getNode t1 q :=
    fun q hq => getNode_setNode_ne t1 0 q _ (by omega)
  have hmax : t0.maxVal = maxVal := by subst ht0; rfl
  have hless : t0.less = less := by subst ht0; rfl
  refine ⟨by rw [setNode_length]; exact h1, by rw [setNode_less, h2, hless], by rw [setNode_maxVal, h3, hmax],
    by simp [idx, hroot], ?_, ?_⟩
  · rw [streams_congr (t := t1) (fun l hl => hne l (by omega))]
    apply List.ext_getElem?
    intro i
    by_cases hi : i < n
    · rw [streams_get t1 n i hi, (h5 i hi).1]
      have : seqs[i]? = some (seqs[i]'(by omega)) := List.getElem?_eq_getElem (by omega)
      simp [this]
    · rw [List.getElem?_eq_none (by rw [streams_length]; omega), List.getElem?_eq_none (by omega)]
  · intro l hl hl2 hi
    have hg := hne l (by omega)
    simp only [idx, val, hg] at hi ⊢
    rw [setNode_maxVal]
    have := (h5 (l - n) (by omega)).2
    rw [show n + (l - n) = l by omega] at this
    rw [h3, ← h3]
    have h' := this hi
    simp only [val] at h'
    rw [h', h3]

/-! ### `Next` and the drained sequence -/

/-- what the proof needs of the comparator: it refines a total preorder `le` with `maxV` on top -/
structure OrdSpec (le : E → E → Prop) (less0 : E → E → Bool) : Prop where
  refl : ∀ a, le a a
  trans : ∀ a b c, le a b → le b c → le a c
  less1 : ∀ a b, less0 a b = true → le a b
  less2 : ∀ a b, less0 a b = false → le b a

/-- an initialised tree between two calls of `Next` -/
structure Live (le : E → E → Prop) (less0 : E → E → Bool) (maxV : E) (t : Tree E) (n : Nat)
    (win : Nat → Nat) : Prop where
  ready : Ready le t n win
  less : t.less = less0
  maxVal : t.maxVal = maxV
  leafOK : LeafOK t n
  proper : ∀ l, n ≤ l → l < 2 * n → ∀ x ∈ stream t l, ¬ le maxV x

theorem Live.winner_min {less0 : E → E → Bool} {maxV : E} (ho : OrdSpec le less0) {t : Tree E} {n : Nat}
    {win : Nat → Nat} (h : Live le less0 maxV t n win) (l : Nat) (hl : n ≤ l) (hl2 : l < 2 * n) :
    le (val t (win 1)) (val t l) :=
  h.ready.tourn.root_min ho.refl ho.trans l hl hl2 h.ready.npos

/-- when the overall winner is exhausted, every leaf is -/
theorem Live.all_exhausted {less0 : E → E → Bool} {maxV : E} (ho : OrdSpec le less0) {t : Tree E} {n : Nat}
    {win : Nat → Nat} (h : Live le less0 maxV t n win) (hw : idx t (win 1) = -1) :
    ∀ s ∈ streams t n, s = [] := by
  intro s hs
  simp only [streams, List.mem_map, List.mem_range] at hs
  obtain ⟨i, hi, rfl⟩ := hs
  have hwr := h.ready.tourn.win_range 1 (Nat.le_refl 1) (by have := h.ready.npos; omega)
  have hwmax : val t (win 1) = maxV := by rw [h.leafOK _ hwr.2.1 hwr.2.2 hw, h.maxVal]
  by_cases hx : idx t (n + i) = -1
  · simp [stream, hx]
  · exfalso
    have hmem : val t (n + i) ∈ stream t (n + i) := by simp [stream, hx]
    have := h.winner_min ho (n + i) (by omega) (by omega)
    rw [hwmax] at this
    exact h.proper (n + i) (by omega) (by omega) _ hmem this

/-- one `Next()` on a live tree whose current winner is not exhausted: the winner's head is
    dropped, everything else stays, and the tree is live again -/
theorem next_live {less0 : E → E → Bool} {maxV : E} (ho : OrdSpec le less0) {t : Tree E} {n : Nat}
    {win : Nat → Nat} (h : Live le less0 maxV t n win) (hw : idx t (win 1) ≠ -1) :
    ∃ win', Live le less0 maxV (next t).1 n win' ∧
      streams (next t).1 n = (streams t n).set (win 1 - n) (getNode t (win 1)).items ∧
      ((next t).2 = true ↔ idx (next t).1 (win' 1) ≠ -1) ∧ cur (next t).1 = val (next t).1 (win' 1) := by
  have hn := h.ready.npos
  have hlen := h.ready.len
  have hwr := h.ready.tourn.win_range 1 (Nat.le_refl 1) (by omega)
  have hroot : (getNode t 0).index = (win 1 : Int) := h.ready.rootIdx
  have hw' : (getNode t (win 1)).index ≠ -1 := hw
  have hm := moveNext_spec t (win 1) (by omega) hw
  obtain ⟨win', hR, hleaves, hless, hmax, _⟩ := replayGames_spec ho.less1 ho.less2 h.ready
    (t1 := (moveNext t (win 1)).1) (hm.2.1.trans h.less) (hm.1.trans hlen) (fun q hq => hm.2.2.2.1 q hq)
  -- unfold `next`
  have hnext : next t = (replayGames (moveNext t (win 1)).1 (win 1),
      decide ((getNode (replayGames (moveNext t (win 1)).1 (win 1))
        (getNode (replayGames (moveNext t (win 1)).1 (win 1)) 0).index.toNat).index ≠ -1)) := by
    unfold next
    have h1 : ¬ t.nodes.length = 0 := by omega
    have h2 : ¬ (getNode t 0).index = -1 := by rw [hroot]; omega
    have h3 : (getNode t 0).index.toNat = win 1 := by rw [hroot, Int.toNat_natCast]
    simp only [h1, h2, if_false, h3, hw']
  rw [hnext]
  simp only
  generalize replayGames (moveNext t (win 1)).1 (win 1) = t2 at hR hleaves hless hmax ⊢
  have hroot2 : (getNode t2 0).index.toNat = win' 1 := by
    have := hR.rootIdx; simp only [idx] at this; rw [this, Int.toNat_natCast]
  -- streams
  have hstreams : streams t2 n = (streams t n).set (win 1 - n) (getNode t (win 1)).items := by
    rw [streams_congr hleaves]
    apply List.ext_getElem?
    intro i
    by_cases hi : i < n
    · rw [streams_get _ n i hi]
      by_cases hiw : i = win 1 - n
      · subst hiw
        rw [List.getElem?_set_self (by rw [streams_length]; exact hi)]
        rw [show n + (win 1 - n) = win 1 by omega, hm.2.2.2.2.1]
      · rw [List.getElem?_set_ne (fun e => hiw e.symm), streams_get _ n i hi]
        rw [stream_congr (hm.2.2.2.1 (n + i) (by omega))]
    · rw [List.getElem?_eq_none (by rw [streams_length]; omega),
        List.getElem?_eq_none (by rw [List.length_set, streams_length]; omega)]
  refine ⟨win', ⟨hR, hless.trans (hm.2.1.trans h.less), hmax.trans (hm.2.2.1.trans h.maxVal), ?_, ?_⟩, hstreams, ?_, ?_⟩
  · -- leaves stay consistent
    intro l hl hl2 hi
    have hg := hleaves l hl
    simp only [idx, val, hg] at hi ⊢
    rw [hmax, hm.2.2.1]
    by_cases hlw : l = win 1
    · subst hlw; exact hm.2.2.2.2.2 hi
    · have hg2 := hm.2.2.2.1 l hlw
      rw [hg2] at hi ⊢
      exact h.leafOK l hl hl2 hi
  · intro l hl hl2 x hx
    rw [stream_congr (hleaves l hl)] at hx
    by_cases hlw : l = win 1
    · subst hlw
      rw [hm.2.2.2.2.1] at hx
      exact h.proper _ hl hl2 x (by simp [stream, hw, hx])
    · rw [stream_congr (hm.2.2.2.1 l hlw)] at hx
      exact h.proper l hl hl2 x hx
  · simp only [decide_eq_true_eq, hroot2, idx]
  · simp only [cur]
    have := hR.rootVal
    simp only [val] at this ⊢
    exact this

theorem stream_get_of_live {t : Tree E} {l : Nat} (h : idx t l ≠ -1) :
    stream t l = val t l :: (getNode t l).items := by simp [stream, h]

/-- **the drained sequence from a live tree** (the head of the current winner has just been
    delivered) is a k-way merge of what the leaves still hold -/
theorem drain_live {less0 : E → E → Bool} {maxV : E} (ho : OrdSpec le less0) :
    ∀ (fuel : Nat) (t : Tree E) (n : Nat) (win : Nat → Nat), Live le less0 maxV t n win →
      idx t (win 1) ≠ -1 →
      total ((streams t n).set (win 1 - n) (getNode t (win 1)).items) + 1 ≤ fuel →
      IsKMergeG le ((streams t n).set (win 1 - n) (getNode t (win 1)).items) (drain fuel t).1
  | 0, _, _, _, _, _, hf => by omega
  | fuel + 1, t, n, win, h, hw, hf => by
    obtain ⟨win', hL, hstreams, hok, hcur⟩ := next_live ho h hw
    unfold drain
    generalize hnx : next t = r at hL hstreams hok hcur
    obtain ⟨t2, ok⟩ := r
    simp only at hL hstreams hok hcur ⊢
    rw [← hstreams]
    have hn := hL.ready.npos
    have hwr := hL.ready.tourn.win_range 1 (Nat.le_refl 1) (by omega)
    cases ok with
    | false =>
      simp only [Bool.false_eq_true, if_false]
      have : idx t2 (win' 1) = -1 := by
        cases hq : decide (idx t2 (win' 1) = -1) with
        | true => simpa using hq
        | false =>
          have : idx t2 (win' 1) ≠ -1 := by simpa using hq
          exact absurd (hok.mpr this) (by simp)
      exact IsKMergeG.nil (hL.all_exhausted ho this)
    | true =>
      simp only [if_true]
      have hw2 : idx t2 (win' 1) ≠ -1 := hok.mp rfl
      have hget : (streams t2 n)[win' 1 - n]? = some (val t2 (win' 1) :: (getNode t2 (win' 1)).items) := by
        rw [streams_get _ n _ (by omega), show n + (win' 1 - n) = win' 1 by omega, stream_get_of_live hw2]
      have hrec := drain_live ho fuel t2 n win' hL hw2 (by
        have := total_set_tail _ _ _ _ hget
        have h1 : total (streams t2 n) ≤ fuel := by rw [hstreams]; omega
        omega)
      generalize drain fuel t2 = d at hrec
      obtain ⟨xs, t3⟩ := d
      simp only at hrec ⊢
      rw [hcur]
      refine IsKMergeG.cons (win' 1 - n) _ _ hget ?_ hrec
      intro j y r hj
      have hjn : j < n := by
        rcases Nat.lt_or_ge j n with h' | h'
        · exact h'
        · rw [List.getElem?_eq_none (by rw [streams_length]; exact h')] at hj; simp at hj
      rw [streams_get _ n j hjn] at hj
      have hne : idx t2 (n + j) ≠ -1 := by
        intro he; simp [stream, he] at hj
      rw [stream_get_of_live hne] at hj
      simp only [Option.some.injEq, List.cons.injEq] at hj
      rw [← hj.1]
      exact hL.winner_min ho (n + j) (by omega) (by omega)

theorem total_eq (seqs : List (List E)) : (seqs.map List.length).sum = total seqs := rfl

/-- **pkg/losertree refines the k-way merge relation**: for any number of sequences of any
    length, whose elements are strictly below `maxVal`, with a comparator that refines a total
    preorder, the sequence `Next()/At()` delivers is a k-way merge of the inputs -/
theorem merge_isKMergeG {less0 : E → E → Bool} (ho : OrdSpec le less0) (maxV : E) (seqs : List (List E))
    (hproper : ∀ s ∈ seqs, ∀ x ∈ s, ¬ le maxV x) : IsKMergeG le seqs (merge seqs maxV less0) := by
  unfold merge
  rw [total_eq]
  by_cases hn : seqs.length = 0
  · have : seqs = [] := List.length_eq_zero_iff.mp hn
    subst this
    exact IsKMergeG.nil (by simp)
  · have hn1 : 1 ≤ seqs.length := by omega
    obtain ⟨hlen, hless, hmax, hroot, hstreams, hleaf⟩ := new_spec seqs maxV less0 hn1
    generalize new seqs maxV less0 = t0 at *
    obtain ⟨win, hR, hleaves, hless1, hmax1, _⟩ := initTree_spec ho.less1 ho.less2 t0 seqs.length hless hlen hn1
    have hst1 : streams (initTree t0) seqs.length = seqs := by rw [streams_congr hleaves]; exact hstreams
    have hL : Live le less0 maxV (initTree t0) seqs.length win := by
      refine ⟨hR, hless1.trans hless, hmax1.trans hmax, leafOK_congr hleaves hmax1 hleaf, ?_⟩
      intro l hl hl2 x hx
      rw [stream_congr (hleaves l hl)] at hx
      have hmem : stream t0 l ∈ streams t0 seqs.length := by
        have := streams_get t0 seqs.length (l - seqs.length) (by omega)
        rw [show seqs.length + (l - seqs.length) = l by omega] at this
        exact List.mem_of_getElem? this
      rw [hstreams] at hmem
      exact hproper _ hmem x hx
    -- the first `Next()` initialises the tree
    have hnext : next t0 = (initTree t0, decide ((getNode (initTree t0) (getNode (initTree t0) 0).index.toNat).index ≠ -1)) := by
      unfold next
      have h1 : ¬ t0.nodes.length = 0 := by omega
      have h2 : (getNode t0 0).index = -1 := hroot
      simp only [h1, h2, if_false, if_true]
    unfold drain
    rw [hnext]
    simp only
    have hroot1 : (getNode (initTree t0) 0).index.toNat = win 1 := by
      have := hR.rootIdx; simp only [idx] at this; rw [this, Int.toNat_natCast]
    rw [hroot1]
    generalize initTree t0 = t1 at *
    have hwr := hR.tourn.win_range 1 (Nat.le_refl 1) (by omega)
    by_cases hw : idx t1 (win 1) = -1
    · have : decide ((getNode t1 (win 1)).index ≠ -1) = false := by simpa [idx] using hw
      simp only [this, Bool.false_eq_true, if_false]
      rw [← hst1]
      exact IsKMergeG.nil (hL.all_exhausted ho hw)
    · have : decide ((getNode t1 (win 1)).index ≠ -1) = true := by simpa [idx] using hw
      simp only [this, if_true]
      have hget : (streams t1 seqs.length)[win 1 - seqs.length]? =
          some (val t1 (win 1) :: (getNode t1 (win 1)).items) := by
        rw [streams_get _ _ _ (by omega), show seqs.length + (win 1 - seqs.length) = win 1 by omega,
          stream_get_of_live hw]
      have hrec := drain_live ho (total seqs) t1 seqs.length win hL hw (by
        have := total_set_tail _ _ _ _ hget
        have h1 : total (streams t1 seqs.length) = total seqs := by rw [hst1]
        omega)
      generalize drain (total seqs) t1 = d at hrec
      obtain ⟨xs, t3⟩ := d
      simp only at hrec ⊢
      have hcur : cur t1 = val t1 (win 1) := by
        have := hR.rootVal; simp only [val] at this; exact this
      rw [hcur]
      rw [← hst1]
      refine IsKMergeG.cons (win 1 - seqs.length) _ _ hget ?_ hrec
      intro j y r hj
      have hjn : j < seqs.length := by
        rcases Nat.lt_or_ge j seqs.length with h' | h'
        · exact h'
        · rw [List.getElem?_eq_none (by rw [streams_length]; exact h')] at hj; simp at hj
      rw [streams_get _ _ j hjn] at hj
      have hne : idx t1 (seqs.length + j) ≠ -1 := by
        intro he; simp [stream, he] at hj
      rw [stream_get_of_live hne] at hj
      simp only [Option.some.injEq, List.cons.injEq] at hj
      rw [← hj.1]
      exact hL.winner_min ho (seqs.length + j) (by omega) (by omega)

end Thanos.LoserTree
