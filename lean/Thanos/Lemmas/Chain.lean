import Thanos.Model.Merge
/-
  Helper lemmas for C03: the chunk map of `chainSeriesAndRemIdenticalChunks` (repaired version) and
  the chunk sort.
-/
namespace Thanos.Merge

/-- the key the repaired code gives a chunk -/
def keyOf (c : Chunk) : Key := (dedupFields c).map (fun p => (p.1, p.2.hash))

/-- the key the unrepaired code gives a chunk that has exactly one populated field -/
def key1 (c : Chunk) : Key :=
  match dedupFields c with
  | [(_, f)] => [(0, f.hash)]
  | _ => []

/-- a map insert keyed by `κ`: skip chunks without key, keep the first chunk per key -/
def insertKeyed (κ : Chunk → Key) (c : Chunk) (m : List (Key × Chunk)) : List (Key × Chunk) :=
  if κ c = [] then m else if κ c ∈ m.map (·.1) then m else m ++ [(κ c, c)]

theorem any_key_iff (m : List (Key × Chunk)) (k : Key) :
    m.any (fun e => decide (e.1 = k)) = decide (k ∈ m.map (·.1)) := by
  by_cases h : k ∈ m.map (·.1)
  · simp only [h, decide_true]
    simp only [List.mem_map] at h
    obtain ⟨e, he, hk⟩ := h
    simp only [List.any_eq_true, decide_eq_true_eq]
    exact ⟨e, he, hk⟩
  · simp only [h, decide_false]
    simp only [List.any_eq_false, decide_eq_true_eq]
    intro e he hk
    exact h (List.mem_map.mpr ⟨e, he, hk⟩)

theorem insertByAllFields_eq (c : Chunk) (m : List (Key × Chunk)) :
    insertByAllFields c m = insertKeyed keyOf c m := by
  unfold insertByAllFields insertKeyed keyOf
  simp only [any_key_iff]
  by_cases h1 : (dedupFields c).map (fun p => (p.1, p.2.hash)) = []
  · simp [h1]
  · have hne : ((dedupFields c).map (fun p => (p.1, p.2.hash))).isEmpty = false := by
      cases hh : (dedupFields c).map (fun p => (p.1, p.2.hash)) with
      | nil => exact absurd hh h1
      | cons _ _ => rfl
    simp only [hne, h1, Bool.false_eq_true, if_false]
    by_cases h2 : (dedupFields c).map (fun p => (p.1, p.2.hash)) ∈ m.map (·.1)
    · simp [h2]
    · simp [h2]

/-- for a chunk with exactly one populated field the unrepaired loop is a keyed insert as well -/
theorem insertByField_single (c : Chunk) (m : List (Key × Chunk)) (i : Nat) (f : Field)
    (h : dedupFields c = [(i, f)]) : insertByField c (dedupFields c) m = insertKeyed key1 c m := by
  unfold insertKeyed key1
  rw [h]
  simp only [insertByField, any_key_iff]
  by_cases hk : [(0, f.hash)] ∈ m.map (·.1)
  · simp [hk]
  · simp [hk]

theorem nodup_of_map_nodup {α β : Type} (f : α → β) : ∀ l : List α, (l.map f).Nodup → l.Nodup
  | [], _ => List.nodup_nil
  | a :: r, h => by
    simp only [List.map_cons, List.nodup_cons] at h ⊢
    exact ⟨fun ha => h.1 (List.mem_map.mpr ⟨a, ha, rfl⟩), nodup_of_map_nodup f r h.2⟩

section keyed
variable (κ : Chunk → Key)

/-- every entry of the map is keyed by its chunk's key, keys are unique and non-empty -/
structure GoodMap (m : List (Key × Chunk)) : Prop where
  keyed : ∀ e ∈ m, e.1 = κ e.2 ∧ e.1 ≠ []
  nodup : (m.map (·.1)).Nodup

theorem goodMap_nil : GoodMap κ [] := ⟨by simp, by simp⟩

theorem goodMap_insert {m : List (Key × Chunk)} (g : GoodMap κ m) (c : Chunk) :
    GoodMap κ (insertKeyed κ c m) := by
  unfold insertKeyed
  split
  · exact g
  · rename_i hne
    split
    · exact g
    · rename_i hnot
      constructor
      · intro e he
        simp only [List.mem_append, List.mem_singleton] at he
        rcases he with he | rfl
        · exact g.keyed e he
        · exact ⟨rfl, hne⟩
      · simp only [List.map_append, List.map_cons, List.map_nil]
        rw [List.nodup_append]
        refine ⟨g.nodup, by simp, ?_⟩
        intro a ha b hb
        simp only [List.mem_singleton] at hb
        subst hb
        intro hab; subst hab
        exact hnot ha

theorem insert_sub (c : Chunk) (m : List (Key × Chunk)) : ∀ e ∈ m, e ∈ insertKeyed κ c m := by
  intro e he
  unfold insertKeyed
  split
  · exact he
  · split
    · exact he
    · exact List.mem_append_left _ he

theorem insert_has_key (c : Chunk) (m : List (Key × Chunk)) (h : κ c ≠ []) :
    κ c ∈ (insertKeyed κ c m).map (·.1) := by
  unfold insertKeyed
  simp only [h, if_false]
  split
  · assumption
  · simp

theorem insert_from (c : Chunk) (m : List (Key × Chunk)) :
    ∀ e ∈ insertKeyed κ c m, e ∈ m ∨ e.2 = c := by
  intro e he
  unfold insertKeyed at he
  split at he
  · exact Or.inl he
  · split at he
    · exact Or.inl he
    · simp only [List.mem_append, List.mem_singleton] at he
      rcases he with he | rfl
      · exact Or.inl he
      · exact Or.inr rfl

def foldKeyed (m : List (Key × Chunk)) (cs : List Chunk) : List (Key × Chunk) :=
  cs.foldl (fun m c => insertKeyed κ c m) m

theorem foldKeyed_spec : ∀ (cs : List Chunk) (m : List (Key × Chunk)), GoodMap κ m →
    GoodMap κ (foldKeyed κ m cs) ∧
    (∀ e ∈ m, e ∈ foldKeyed κ m cs) ∧
    (∀ e ∈ foldKeyed κ m cs, e ∈ m ∨ e.2 ∈ cs) ∧
    (∀ c ∈ cs, κ c ≠ [] → κ c ∈ (foldKeyed κ m cs).map (·.1))
  | [], m, g => ⟨g, fun _ h => h, fun _ h => Or.inl h, by simp⟩
  | c :: r, m, g => by
    have ih := foldKeyed_spec r (insertKeyed κ c m) (goodMap_insert κ g c)
    simp only [foldKeyed, List.foldl_cons] at ih ⊢
    refine ⟨ih.1, fun e he => ih.2.1 e (insert_sub κ c m e he), ?_, ?_⟩
    · intro e he
      rcases ih.2.2.1 e he with h | h
      · rcases insert_from κ c m e h with h' | h'
        · exact Or.inl h'
        · exact Or.inr (by simp [h'])
      · exact Or.inr (List.mem_cons_of_mem _ h)
    · intro d hd hk
      simp only [List.mem_cons] at hd
      rcases hd with rfl | hd
      · have := insert_has_key κ d m hk
        simp only [List.mem_map] at this ⊢
        obtain ⟨e, he, hek⟩ := this
        exact ⟨e, ih.2.1 e he, hek⟩
      · exact ih.2.2.2 d hd hk

/-- what a keyed fold over `cs` leaves in the map when `κ` tells the chunks of `cs` apart: each
    chunk of `cs` exactly once -/
theorem foldKeyed_values (cs : List Chunk)
    (hinj : ∀ c ∈ cs, ∀ d ∈ cs, κ c = κ d → c = d) (hpop : ∀ c ∈ cs, κ c ≠ []) :
    ((foldKeyed κ [] cs).map (·.2)).Nodup ∧ ∀ c, c ∈ (foldKeyed κ [] cs).map (·.2) ↔ c ∈ cs := by
  obtain ⟨g, _, hfrom, hkey⟩ := foldKeyed_spec κ cs [] (goodMap_nil κ)
  constructor
  · -- a repeated value would be a repeated key
    have hk : (foldKeyed κ [] cs).map (·.1) = ((foldKeyed κ [] cs).map (·.2)).map κ := by
      rw [List.map_map]
      apply List.map_congr_left
      intro e he
      exact (g.keyed e he).1
    have hn := g.nodup
    rw [hk] at hn
    exact nodup_of_map_nodup κ _ hn
  · intro c
    constructor
    · intro hc
      simp only [List.mem_map] at hc
      obtain ⟨e, he, rfl⟩ := hc
      rcases hfrom e he with h | h
      · simp at h
      · exact h
    · intro hc
      have := hkey c hc (hpop c hc)
      simp only [List.mem_map] at this ⊢
      obtain ⟨e, he, hek⟩ := this
      refine ⟨e, he, ?_⟩
      have hke := (g.keyed e he).1
      rcases hfrom e he with h | h
      · simp at h
      · exact hinj e.2 h c hc (by rw [← hke, hek])

end keyed

theorem dedupMap_fixed (cs : List Chunk) : dedupMap true cs = foldKeyed keyOf [] cs := by
  simp only [dedupMap, foldKeyed, if_true]
  congr 1
  funext m c
  exact insertByAllFields_eq c m

/-- every chunk has exactly one populated field (raw chunks, or a single requested aggregate) -/
def SingleField (cs : List Chunk) : Prop := ∀ c ∈ cs, ∃ i f, dedupFields c = [(i, f)]

theorem dedupMap_unfixed_single : ∀ (cs : List Chunk) (m : List (Key × Chunk)), SingleField cs →
    cs.foldl (fun m c => insertByField c (dedupFields c) m) m = foldKeyed key1 m cs
  | [], _, _ => rfl
  | c :: r, m, h => by
    obtain ⟨i, f, hc⟩ := h c (by simp)
    simp only [List.foldl_cons, foldKeyed]
    rw [insertByField_single c m i f hc]
    exact dedupMap_unfixed_single r _ (fun d hd => h d (List.mem_cons_of_mem _ hd))

theorem chain_lbls' (fixed : Bool) (first : Series) (rest : List Series) :
    (chain fixed first rest).lbls = first.lbls := by
  unfold chain
  simp only
  split <;> rfl

/-! ### the chunk sort -/

/-- ordered by (MinTime, MaxTime) -/
def timeLe (a b : Chunk) : Prop := a.mint < b.mint ∨ (a.mint = b.mint ∧ a.maxt ≤ b.maxt)

theorem timeLe_of_before {a b : Chunk} (h : chunkBefore a b = true) : timeLe a b := by
  unfold chunkBefore cmpChunk at h
  unfold timeLe
  by_cases h1 : a.mint < b.mint
  · exact Or.inl h1
  · by_cases h2 : a.mint > b.mint
    · simp [h1, h2] at h
    · have hm : a.mint = b.mint := by omega
      right
      refine ⟨hm, ?_⟩
      by_cases h3 : a.maxt < b.maxt
      · omega
      · by_cases h4 : a.maxt > b.maxt
        · simp [h1, h2, h3, h4] at h
        · omega

theorem timeLe_of_not_before {a b : Chunk} (h : chunkBefore a b = false) : timeLe b a := by
  unfold chunkBefore cmpChunk at h
  unfold timeLe
  by_cases h1 : a.mint < b.mint
  · simp [h1] at h
  · by_cases h2 : a.mint > b.mint
    · exact Or.inl h2
    · have hm : a.mint = b.mint := by omega
      right
      refine ⟨hm.symm, ?_⟩
      by_cases h3 : a.maxt < b.maxt
      · simp [h1, h2, h3] at h
      · omega

theorem timeLe_trans {a b c : Chunk} (h1 : timeLe a b) (h2 : timeLe b c) : timeLe a c := by
  unfold timeLe at *
  omega

theorem insertChunk_perm (c : Chunk) : ∀ l : List Chunk, (insertChunk c l).Perm (c :: l)
  | [] => by simp [insertChunk]
  | d :: r => by
    unfold insertChunk
    split
    · exact ((insertChunk_perm c r).cons d).trans (List.Perm.swap c d r)
    · exact List.Perm.refl _

theorem sortChunks_perm : ∀ l : List Chunk, (sortChunks l).Perm l
  | [] => by simp [sortChunks]
  | c :: r => by
    have ih := sortChunks_perm r
    simp only [sortChunks, List.foldr_cons] at ih ⊢
    exact (insertChunk_perm c _).trans (ih.cons c)

theorem insertChunk_sorted (c : Chunk) : ∀ l : List Chunk, l.Pairwise timeLe →
    (insertChunk c l).Pairwise timeLe
  | [], _ => by simp [insertChunk]
  | d :: r, h => by
    unfold insertChunk
    have hd := List.pairwise_cons.mp h
    cases hb : chunkBefore d c with
    | true =>
      simp only [if_true]
      refine List.pairwise_cons.mpr ⟨?_, insertChunk_sorted c r hd.2⟩
      intro x hx
      have := (insertChunk_perm c r).subset hx
      simp only [List.mem_cons] at this
      rcases this with rfl | hx'
      · exact timeLe_of_before hb
      · exact hd.1 x hx'
    | false =>
      simp only [Bool.false_eq_true, if_false]
      have hcd := timeLe_of_not_before hb
      refine List.pairwise_cons.mpr ⟨?_, h⟩
      intro x hx
      simp only [List.mem_cons] at hx
      rcases hx with rfl | hx
      · exact hcd
      · exact timeLe_trans hcd (hd.1 x hx)

theorem sortChunks_sorted : ∀ l : List Chunk, (sortChunks l).Pairwise timeLe
  | [] => by simp [sortChunks]
  | c :: r => by
    have ih := sortChunks_sorted r
    simp only [sortChunks, List.foldr_cons] at ih ⊢
    exact insertChunk_sorted c _ ih

end Thanos.Merge
