import Thanos.Model.BlockSet
/-
  Helper lemmas for C15 (bucketBlockSet.add / getFor).
-/
namespace Thanos.BlockSet

/-- the instant `t` lies in the block's half-open range -/
def covers (b : Block) (t : Int) : Prop := b.mint ≤ t ∧ t < b.maxt

instance (b : Block) (t : Int) : Decidable (covers b t) := by unfold covers; infer_instance

/-! ### appendMissing / app -/

theorem mem_appendMissing : ∀ (more acc : List Block) (x : Block),
    x ∈ appendMissing acc more ↔ x ∈ acc ∨ x ∈ more
  | [], acc, x => by simp [appendMissing]
  | m :: ms, acc, x => by
    unfold appendMissing
    split
    next h =>
      rw [mem_appendMissing ms acc x]
      constructor
      · rintro (h1 | h1)
        · exact Or.inl h1
        · exact Or.inr (List.mem_cons_of_mem _ h1)
      · rintro (h1 | h1)
        · exact Or.inl h1
        · rcases List.mem_cons.mp h1 with rfl | h2
          · exact Or.inl h
          · exact Or.inr h2
    next h =>
      rw [mem_appendMissing ms (acc ++ [m]) x]
      simp only [List.mem_append, List.mem_cons, List.not_mem_nil, or_false]
      constructor
      · rintro ((h1 | h1) | h1)
        · exact Or.inl h1
        · exact Or.inr (Or.inl h1)
        · exact Or.inr (Or.inr h1)
      · rintro (h1 | h1 | h1)
        · exact Or.inl (Or.inl h1)
        · exact Or.inl (Or.inr h1)
        · exact Or.inr h1

theorem nodup_appendMissing : ∀ (more acc : List Block), acc.Nodup → (appendMissing acc more).Nodup
  | [], acc, h => by simpa [appendMissing] using h
  | m :: ms, acc, h => by
    unfold appendMissing
    split
    next _ => exact nodup_appendMissing ms acc h
    next hm =>
      apply nodup_appendMissing ms (acc ++ [m])
      rw [List.nodup_append]
      refine ⟨h, by simp, ?_⟩
      intro a ha b hb
      simp at hb
      subst hb
      intro hab
      subst hab
      exact hm ha

theorem mem_app (dd : Bool) (acc more : List Block) (x : Block) :
    x ∈ app dd acc more ↔ x ∈ acc ∨ x ∈ more := by
  unfold app
  cases dd
  · simp
  · simpa using mem_appendMissing more acc x

theorem nodup_app_true (acc more : List Block) (h : acc.Nodup) : (app true acc more).Nodup := by
  simpa [app] using nodup_appendMissing more acc h

/-! ### what `fill` returns (soundness direction) -/

/-- Everything `fill` returns was already in `acc`, or is a kept block of this level that overlaps the
    range, or comes from a recursive call on a sub-range `[s, e] ⊆ [mint, maxt]`. -/
theorem fill_sound (dd : Bool) (rec : Int → Int → List Block) (mint maxt : Int) :
    ∀ (bs : List Block) (start : Int) (acc : List Block) (x : Block), mint ≤ start →
      x ∈ fill dd rec mint maxt bs start acc →
      x ∈ acc ∨ (x ∈ bs ∧ x.keep = true ∧ mint < x.maxt ∧ x.mint ≤ maxt) ∨
        (∃ s e, mint ≤ s ∧ e ≤ maxt ∧ x ∈ rec s e)
  | [], start, acc, x, hs, hx => by
    simp only [fill] at hx
    rcases (mem_app dd _ _ x).mp hx with h | h
    · exact Or.inl h
    · exact Or.inr (Or.inr ⟨start, maxt, hs, Int.le_refl _, h⟩)
  | b :: bs, start, acc, x, hs, hx => by
    simp only [fill] at hx
    split at hx
    next hskip =>
      rcases fill_sound dd rec mint maxt bs start acc x hs hx with h | h | h
      · exact Or.inl h
      · exact Or.inr (Or.inl ⟨List.mem_cons_of_mem _ h.1, h.2⟩)
      · exact Or.inr (Or.inr h)
    next hskip =>
      split at hx
      next hbrk =>
        rcases (mem_app dd _ _ x).mp hx with h | h
        · exact Or.inl h
        · exact Or.inr (Or.inr ⟨start, maxt, hs, Int.le_refl _, h⟩)
      next hbrk =>
        have hs' : mint ≤ b.maxt := by omega
        rcases fill_sound dd rec mint maxt bs b.maxt _ x hs' hx with h | h | h
        · -- x in acc2
          have hx1 : x ∈ app dd acc (rec start (b.mint - 1)) ∨ x = b := by
            split at h
            · simpa using h
            · exact Or.inl h
          rcases hx1 with h1 | rfl
          · rcases (mem_app dd _ _ x).mp h1 with h2 | h2
            · exact Or.inl h2
            · exact Or.inr (Or.inr ⟨start, b.mint - 1, hs, by omega, h2⟩)
          · by_cases hk : x.keep = true
            · exact Or.inr (Or.inl ⟨by simp, hk, by omega, by omega⟩)
            · -- not kept: x is not appended, so it came from acc1
              simp only [hk] at h
              rcases (mem_app dd _ _ x).mp (by simpa using h) with h2 | h2
              · exact Or.inl h2
              · exact Or.inr (Or.inr ⟨start, x.mint - 1, hs, by omega, h2⟩)
        · exact Or.inr (Or.inl ⟨List.mem_cons_of_mem _ h.1, h.2⟩)
        · exact Or.inr (Or.inr h)

/-- `acc` is never shrunk -/
theorem fill_mono (dd : Bool) (rec : Int → Int → List Block) (mint maxt : Int) :
    ∀ (bs : List Block) (start : Int) (acc : List Block) (x : Block),
      x ∈ acc → x ∈ fill dd rec mint maxt bs start acc
  | [], start, acc, x, hx => by
    simp only [fill]
    exact (mem_app dd _ _ x).mpr (Or.inl hx)
  | b :: bs, start, acc, x, hx => by
    simp only [fill]
    split
    · exact fill_mono dd rec mint maxt bs start acc x hx
    · split
      · exact (mem_app dd _ _ x).mpr (Or.inl hx)
      · apply fill_mono dd rec mint maxt bs b.maxt _ x
        have : x ∈ app dd acc (rec start (b.mint - 1)) := (mem_app dd _ _ x).mpr (Or.inl hx)
        split
        · simp [this]
        · exact this

/-! ### completeness direction -/

/-- sorted by min time, as `add` leaves every level -/
def SortedByMin (bs : List Block) : Prop := bs.Pairwise (fun a b => a.mint ≤ b.mint)

/-- every kept block of the level that overlaps the range is returned -/
theorem fill_block_in (dd : Bool) (rec : Int → Int → List Block) (mint maxt : Int) :
    ∀ (bs : List Block) (start : Int) (acc : List Block) (b : Block), SortedByMin bs →
      b ∈ bs → b.keep = true → mint < b.maxt → b.mint ≤ maxt →
      b ∈ fill dd rec mint maxt bs start acc
  | [], _, _, b, _, hb, _, _, _ => by simp at hb
  | x :: bs, start, acc, b, hsort, hb, hk, h1, h2 => by
    have hsort' : SortedByMin bs := (List.pairwise_cons.mp hsort).2
    simp only [fill]
    rcases List.mem_cons.mp hb with rfl | hb'
    · have : ¬ b.maxt ≤ mint := by omega
      simp only [this, if_false]
      have : ¬ b.mint > maxt := by omega
      simp only [this, if_false]
      apply fill_mono
      simp [hk]
    · have hxb : x.mint ≤ b.mint := (List.pairwise_cons.mp hsort).1 b hb'
      split
      · exact fill_block_in dd rec mint maxt bs start acc b hsort' hb' hk h1 h2
      · have : ¬ x.mint > maxt := by omega
        simp only [this, if_false]
        exact fill_block_in dd rec mint maxt bs x.maxt _ b hsort' hb' hk h1 h2

/-- an instant of the range that no block of this level covers falls into one of the gaps handed to the
    recursive call (also when overlapping blocks make `start` move backwards) -/
theorem fill_gap_cover (dd : Bool) (rec : Int → Int → List Block) (mint maxt t : Int)
    (hrec : ∀ s e, s ≤ t → t ≤ e → ∃ b' ∈ rec s e, covers b' t) (htM : t ≤ maxt) :
    ∀ (bs : List Block) (start : Int) (acc : List Block), start ≤ t →
      (∀ b ∈ bs, ¬ covers b t) → ∃ b' ∈ fill dd rec mint maxt bs start acc, covers b' t
  | [], start, acc, hs, _ => by
    obtain ⟨b', hb', hc⟩ := hrec start maxt hs htM
    exact ⟨b', by simp only [fill]; exact (mem_app dd _ _ b').mpr (Or.inr hb'), hc⟩
  | b :: bs, start, acc, hs, hnc => by
    have hnc' : ∀ b' ∈ bs, ¬ covers b' t := fun b' h => hnc b' (List.mem_cons_of_mem _ h)
    have hb : ¬ covers b t := hnc b (by simp)
    simp only [fill]
    split
    · exact fill_gap_cover dd rec mint maxt t hrec htM bs start acc hs hnc'
    · split
      · obtain ⟨b', hb', hc⟩ := hrec start maxt hs htM
        exact ⟨b', (mem_app dd _ _ b').mpr (Or.inr hb'), hc⟩
      · by_cases hlt : t < b.mint
        · obtain ⟨b', hb', hc⟩ := hrec start (b.mint - 1) hs (by omega)
          refine ⟨b', ?_, hc⟩
          apply fill_mono
          have : b' ∈ app dd acc (rec start (b.mint - 1)) := (mem_app dd _ _ b').mpr (Or.inr hb')
          split
          · simp [this]
          · exact this
        · have : b.maxt ≤ t := by
            unfold covers at hb
            omega
          exact fill_gap_cover dd rec mint maxt t hrec htM bs b.maxt _ this hnc'

/-! ### no duplicates (repaired code) -/

theorem fill_nodup (rec : Int → Int → List Block) (mint maxt : Int)
    (hrec : ∀ s e, (rec s e).Nodup) :
    ∀ (bs : List Block) (start : Int) (acc : List Block), acc.Nodup → bs.Nodup →
      (∀ x ∈ bs, x ∉ acc) → (∀ s e, ∀ x ∈ rec s e, x ∉ bs) →
      (fill true rec mint maxt bs start acc).Nodup
  | [], start, acc, hacc, _, _, _ => by
    simp only [fill]
    exact nodup_app_true _ _ hacc
  | b :: bs, start, acc, hacc, hbs, hdis, hrd => by
    have hbs' : bs.Nodup := (List.nodup_cons.mp hbs).2
    have hb_notin : b ∉ bs := (List.nodup_cons.mp hbs).1
    have hdis' : ∀ x ∈ bs, x ∉ acc := fun x h => hdis x (List.mem_cons_of_mem _ h)
    have hrd' : ∀ s e, ∀ x ∈ rec s e, x ∉ bs := fun s e x h h' => hrd s e x h (List.mem_cons_of_mem _ h')
    simp only [fill]
    split
    · exact fill_nodup rec mint maxt hrec bs start acc hacc hbs' hdis' hrd'
    · split
      · exact nodup_app_true _ _ hacc
      · have h1 : (app true acc (rec start (b.mint - 1))).Nodup := nodup_app_true _ _ hacc
        have hb1 : b ∉ app true acc (rec start (b.mint - 1)) := by
          intro h
          rcases (mem_app true _ _ b).mp h with h | h
          · exact hdis b (by simp) h
          · exact hrd _ _ b h (by simp)
        have hx1 : ∀ x ∈ bs, x ∉ app true acc (rec start (b.mint - 1)) := by
          intro x hx h
          rcases (mem_app true _ _ x).mp h with h | h
          · exact hdis' x hx h
          · exact hrd' _ _ x h hx
        apply fill_nodup rec mint maxt hrec bs b.maxt _ _ hbs' _ hrd'
        · split
          · rw [List.nodup_append]
            refine ⟨h1, by simp, ?_⟩
            intro a ha c hc
            simp at hc
            subst hc
            intro hac
            subst hac
            exact hb1 ha
          · exact h1
        · intro x hx h
          split at h
          · rcases List.mem_append.mp h with h | h
            · exact hx1 x hx h
            · simp at h
              subst h
              exact hb_notin hx
          · exact hx1 x hx h

/-! ### levels -/

/-- `getForL` only returns kept blocks of the given levels that overlap the range -/
theorem getForL_sound (dd : Bool) : ∀ (levels : List (List Block)) (mint maxt : Int) (x : Block),
    x ∈ getForL dd levels mint maxt →
    (∃ l ∈ levels, x ∈ l) ∧ x.keep = true ∧ mint < x.maxt ∧ x.mint ≤ maxt
  | [], _, _, x, h => by simp [getForL] at h
  | bs :: rest, mint, maxt, x, h => by
    simp only [getForL] at h
    split at h
    · simp at h
    · rcases fill_sound dd (getForL dd rest) mint maxt bs mint [] x (Int.le_refl _) h with h | h | h
      · simp at h
      · exact ⟨⟨bs, by simp, h.1⟩, h.2⟩
      · obtain ⟨s, e, hs, he, hx⟩ := h
        obtain ⟨⟨l, hl, hxl⟩, hk, h1, h2⟩ := getForL_sound dd rest s e x hx
        exact ⟨⟨l, List.mem_cons_of_mem _ hl, hxl⟩, hk, by omega, by omega⟩

/-- every instant of the range that some kept block of the levels covers is covered by a returned block -/
theorem getForL_cover (dd : Bool) : ∀ (levels : List (List Block)) (mint maxt t : Int),
    (∀ l ∈ levels, SortedByMin l) → mint ≤ t → t ≤ maxt →
    (∃ l ∈ levels, ∃ b ∈ l, b.keep = true ∧ covers b t) →
    (∀ l ∈ levels, ∀ b ∈ l, b.keep = true) →
    ∃ b' ∈ getForL dd levels mint maxt, covers b' t
  | [], _, _, _, _, _, _, h, _ => by
    obtain ⟨l, hl, _⟩ := h
    simp at hl
  | bs :: rest, mint, maxt, t, hsort, hm, hM, hex, hkeep => by
    have hgt : ¬ mint > maxt := by omega
    simp only [getForL, hgt, if_false]
    by_cases hhere : ∃ b ∈ bs, covers b t
    · obtain ⟨b, hb, hc⟩ := hhere
      refine ⟨b, ?_, hc⟩
      unfold covers at hc
      exact fill_block_in dd _ mint maxt bs mint [] b (hsort bs (by simp)) hb (hkeep bs (by simp) b hb)
        (by omega) (by omega)
    · have hnc : ∀ b ∈ bs, ¬ covers b t := fun b hb hc => hhere ⟨b, hb, hc⟩
      have hlow : ∃ l ∈ rest, ∃ b ∈ l, b.keep = true ∧ covers b t := by
        obtain ⟨l, hl, b, hb, hk, hc⟩ := hex
        rcases List.mem_cons.mp hl with rfl | hl'
        · exact absurd hc (hnc b hb)
        · exact ⟨l, hl', b, hb, hk, hc⟩
      apply fill_gap_cover dd (getForL dd rest) mint maxt t _ hM bs mint [] hm hnc
      intro s e hs he
      exact getForL_cover dd rest s e t (fun l hl => hsort l (List.mem_cons_of_mem _ hl)) hs he hlow
        (fun l hl => hkeep l (List.mem_cons_of_mem _ hl))

/-- all blocks of all levels are pairwise different (pointer identities) -/
def AllDistinct (levels : List (List Block)) : Prop := levels.flatten.Nodup

theorem flatten_drop_nodup : ∀ (i : Nat) (L : List (List Block)), L.flatten.Nodup → (L.drop i).flatten.Nodup
  | 0, L, h => by simpa using h
  | _ + 1, [], _ => by simp
  | i + 1, x :: xs, h => by
    rw [List.flatten_cons, List.nodup_append] at h
    simpa using flatten_drop_nodup i xs h.2.1

theorem getForL_nodup : ∀ (levels : List (List Block)) (mint maxt : Int),
    AllDistinct levels → (getForL true levels mint maxt).Nodup
  | [], _, _, _ => by simp [getForL]
  | bs :: rest, mint, maxt, hd => by
    simp only [getForL]
    split
    · simp
    · unfold AllDistinct at hd
      rw [List.flatten_cons, List.nodup_append] at hd
      obtain ⟨hbs, hrest, hdisj⟩ := hd
      apply fill_nodup (getForL true rest) mint maxt (fun s e => getForL_nodup rest s e hrest) bs mint []
        (by simp) hbs (by simp)
      intro s e x hx hxb
      obtain ⟨⟨l, hl, hxl⟩, _⟩ := getForL_sound true rest s e x hx
      exact hdisj x hxb x (List.mem_flatten.mpr ⟨l, hl, hxl⟩) rfl

/-! ### `add` keeps the levels sorted and typed -/

theorem mem_insert (b : Block) : ∀ (bs : List Block) (x : Block), x ∈ insert b bs ↔ x = b ∨ x ∈ bs
  | [], x => by simp [insert]
  | y :: ys, x => by
    unfold insert
    split
    · simp
    · simp only [List.mem_cons, mem_insert b ys x]
      constructor
      · rintro (h | h | h)
        · exact Or.inr (Or.inl h)
        · exact Or.inl h
        · exact Or.inr (Or.inr h)
      · rintro (h | h | h)
        · exact Or.inr (Or.inl h)
        · exact Or.inl h
        · exact Or.inr (Or.inr h)

theorem insert_sorted (b : Block) : ∀ (bs : List Block), SortedByMin bs → SortedByMin (insert b bs)
  | [], _ => by simp [insert, SortedByMin]
  | y :: ys, h => by
    unfold insert
    have hy := List.pairwise_cons.mp h
    split
    next hlt =>
      have hby : b.mint ≤ y.mint := by
        unfold lt at hlt
        split at hlt <;> simp at hlt <;> omega
      apply List.pairwise_cons.mpr
      refine ⟨?_, h⟩
      intro a ha
      rcases List.mem_cons.mp ha with rfl | ha'
      · exact hby
      · have := hy.1 a ha'
        omega
    next hlt =>
      have hyb : y.mint ≤ b.mint := by
        unfold lt at hlt
        split at hlt <;> simp at hlt <;> omega
      apply List.pairwise_cons.mpr
      refine ⟨?_, insert_sorted b ys hy.2⟩
      intro a ha
      rcases (mem_insert b ys a).mp ha with rfl | ha'
      · exact hyb
      · exact hy.1 a ha'

/-- `firstIdx` of the next resolution is the next level when the resolutions strictly descend — the
    recursive call of the Go code re-enters at level `i+1` -/
theorem firstIdx_next : ∀ (ress : List Int) (i : Nat) (r : Int),
    ress.Pairwise (fun a b => a > b) → ress[i]? = some r → firstIdx ress r = i
  | [], i, r, _, h => by simp at h
  | x :: xs, 0, r, _, h => by
    simp at h
    subst h
    simp [firstIdx]
  | x :: xs, i + 1, r, hp, h => by
    have hx := List.pairwise_cons.mp hp
    simp at h
    have hmem : r ∈ xs := List.mem_of_getElem? h
    have : x > r := hx.1 r hmem
    simp [firstIdx, this]
    exact firstIdx_next xs i r hx.2 h

/-! ### what a built set holds, and what `getFor` can return (used by the store specification) -/

theorem addAt_mem : ∀ (ress : List Int) (blocks : List (List Block)) (b : Block) (blocks' : List (List Block)),
    addAt ress blocks b = some blocks' → ∀ x ∈ blocks'.flatten, x = b ∨ x ∈ blocks.flatten
  | [], _, _, _, h => by simp [addAt] at h
  | _ :: _, [], _, _, h => by simp [addAt] at h
  | r :: rs, bs :: bss, b, blocks', h => by
    simp only [addAt] at h
    split at h
    · simp at h
      subst h
      intro x hx
      rw [List.flatten_cons, List.mem_append] at hx
      rcases hx with hx | hx
      · rcases (mem_insert b bs x).mp hx with h1 | h1
        · exact Or.inl h1
        · exact Or.inr (by rw [List.flatten_cons]; exact List.mem_append_left _ h1)
      · exact Or.inr (by rw [List.flatten_cons]; exact List.mem_append_right _ hx)
    · cases hrec : addAt rs bss b with
      | none => simp [hrec] at h
      | some bl =>
        simp [hrec] at h
        subst h
        intro x hx
        rw [List.flatten_cons, List.mem_append] at hx
        rcases hx with hx | hx
        · exact Or.inr (by rw [List.flatten_cons]; exact List.mem_append_left _ hx)
        · rcases addAt_mem rs bss b bl hrec x hx with h1 | h1
          · exact Or.inl h1
          · exact Or.inr (by rw [List.flatten_cons]; exact List.mem_append_right _ h1)

theorem addAll_mem : ∀ (bs : List Block) (s : BSet), ∀ x ∈ (addAll s bs).1.blocks.flatten, x ∈ bs ∨ x ∈ s.blocks.flatten
  | [], s, x, hx => by simp only [addAll] at hx; exact Or.inr hx
  | b :: bs, s, x, hx => by
    simp only [addAll] at hx
    cases ha : add s b with
    | none =>
      rw [ha] at hx
      rcases addAll_mem bs s x (by simpa using hx) with h | h
      · exact Or.inl (List.mem_cons_of_mem _ h)
      · exact Or.inr h
    | some s' =>
      rw [ha] at hx
      rcases addAll_mem bs s' x (by simpa using hx) with h | h
      · exact Or.inl (List.mem_cons_of_mem _ h)
      · unfold add at ha
        cases hb : addAt s.ress s.blocks b with
        | none => simp [hb] at ha
        | some bl =>
          simp [hb] at ha
          subst ha
          rcases addAt_mem _ _ _ _ hb x h with h1 | h1
          · exact Or.inl (by simp [h1])
          · exact Or.inr h1

theorem getFor_sound {dd guard : Bool} {s : BSet} {mint maxt maxRes : Int} {r : List Block} {x : Block}
    (hg : getFor dd guard s mint maxt maxRes = some r) (hx : x ∈ r) :
    x ∈ s.blocks.flatten ∧ mint < x.maxt ∧ x.mint ≤ maxt := by
  unfold getFor at hg
  split at hg
  · simp at hg; subst hg; simp at hx
  · simp only at hg
    split at hg
    · simp at hg
      subst hg
      obtain ⟨⟨l, hl, hxl⟩, _, h1, h2⟩ := getForL_sound dd _ mint maxt x hx
      exact ⟨List.mem_flatten.mpr ⟨l, List.mem_of_mem_drop hl, hxl⟩, h1, h2⟩
    · split at hg
      · simp at hg; subst hg; simp at hx
      · simp at hg

/-! ### `remove` keeps the order of what stays -/

theorem removeFirst_sublist (id : Nat) : ∀ (l l' : List Block), removeFirst id l = some l' → l'.Sublist l
  | [], _, h => by simp [removeFirst] at h
  | b :: bs, l', h => by
    simp only [removeFirst] at h
    split at h
    · simp at h; subst h; exact List.sublist_cons_self b bs
    · cases hr : removeFirst id bs with
      | none => simp [hr] at h
      | some r =>
        simp [hr] at h
        subst h
        exact List.Sublist.cons_cons b (removeFirst_sublist id bs r hr)

theorem removeLevels_length (id : Nat) : ∀ (ls : List (List Block)), (removeLevels id ls).length = ls.length
  | [] => rfl
  | l :: ls => by
    simp only [removeLevels]
    split
    · simp
    · simp [removeLevels_length id ls]

theorem removeLevels_level (id : Nat) : ∀ (ls : List (List Block)) (i : Nat) (l' : List Block),
    (removeLevels id ls)[i]? = some l' → ∃ l, ls[i]? = some l ∧ l'.Sublist l
  | [], i, l', h => by simp [removeLevels] at h
  | l :: ls, i, l', h => by
    simp only [removeLevels] at h
    split at h
    next r hr =>
      cases i with
      | zero => simp at h; subst h; exact ⟨l, by simp, removeFirst_sublist id l _ hr⟩
      | succ i => simp at h; exact ⟨l', by simpa using h, List.Sublist.refl _⟩
    next hr =>
      cases i with
      | zero => simp at h; subst h; exact ⟨l, by simp, List.Sublist.refl _⟩
      | succ i =>
        simp at h
        obtain ⟨l0, h1, h2⟩ := removeLevels_level id ls i l' h
        exact ⟨l0, by simpa using h1, h2⟩

theorem removeLevels_mem_level (id : Nat) (ls : List (List Block)) (l' : List Block) (h : l' ∈ removeLevels id ls) :
    ∃ l ∈ ls, l'.Sublist l := by
  obtain ⟨i, hi, hil⟩ := List.getElem_of_mem h
  obtain ⟨l, h1, h2⟩ := removeLevels_level id ls i l' (by rw [List.getElem?_eq_getElem hi, hil])
  exact ⟨l, List.mem_of_getElem? h1, h2⟩

theorem removeLevels_flatten_sublist (id : Nat) : ∀ (ls : List (List Block)),
    (removeLevels id ls).flatten.Sublist ls.flatten
  | [] => by simp [removeLevels]
  | l :: ls => by
    simp only [removeLevels]
    split
    next r hr =>
      simp only [List.flatten_cons]
      exact List.Sublist.append (removeFirst_sublist id l r hr) (List.Sublist.refl _)
    next hr =>
      simp only [List.flatten_cons]
      exact List.Sublist.append (List.Sublist.refl _) (removeLevels_flatten_sublist id ls)

end Thanos.BlockSet
