import Thanos.Model.Uvarint
namespace Thanos.Uvarint

theorem uvarintF_fuel : ∀ (f f' n : Nat), n ≤ f → n ≤ f' → uvarintF f n = uvarintF f' n := by
  intro f
  induction f with
  | zero => intro f' n h _; have : n = 0 := by omega
            subst this; cases f' <;> simp [uvarintF]
  | succ f ih =>
    intro f' n h h'
    cases f' with
    | zero => have : n = 0 := by omega
              subst this; simp [uvarintF]
    | succ f' =>
      simp only [uvarintF]
      split
      · rfl
      · rw [ih f' (n / 128) (by omega) (by omega)]

/-- the defining equation of `binary.PutUvarint` -/
theorem uvarint_eq (n : Nat) :
    uvarint n = if n < 128 then [n] else (n % 128 + 128) :: uvarint (n / 128) := by
  unfold uvarint
  cases n with
  | zero => simp [uvarintF]
  | succ n =>
    simp only [uvarintF]
    split
    · rfl
    · rw [uvarintF_fuel n ((n + 1) / 128) ((n + 1) / 128) (by omega) (by omega)]

theorem uvarint_ne_nil (n : Nat) : uvarint n ≠ [] := by
  rw [uvarint_eq]; split <;> simp

theorem uvarint_length_pos (n : Nat) : 0 < (uvarint n).length := by
  have := uvarint_ne_nil n
  cases h : uvarint n with
  | nil => exact absurd h this
  | cons _ _ => simp

theorem uvarint_zero : uvarint 0 = [0] := by
  decide

/-- every byte produced is a byte -/
theorem uvarint_lt_256 (n : Nat) : ∀ b ∈ uvarint n, b < 256 := by
  induction n using Nat.strongRecOn with
  | _ n ih =>
    rw [uvarint_eq]
    split
    · intro b hb; simp at hb; omega
    · intro b hb
      simp at hb
      rcases hb with rfl | hb
      · omega
      · exact ih (n / 128) (by omega) b hb

/-- Decoding what `uvarint` wrote, started in the middle of a varint (`i` bytes consumed):
    exact value and exact number of bytes, whatever follows. -/
theorem unuvarintAux_uvarint (n : Nat) : ∀ (i x : Nat) (rest : List Nat), i ≤ 9 →
    n < 2 ^ (64 - 7 * i) →
    unuvarintAux i x (uvarint n ++ rest) = (x + n * 2 ^ (7 * i), (i : Int) + (uvarint n).length) := by
  induction n using Nat.strongRecOn with
  | _ n ih =>
    intro i x rest hi hn
    rw [uvarint_eq]
    split
    · rename_i h128
      simp only [List.cons_append, List.nil_append, unuvarintAux, List.length_cons, List.length_nil]
      have h10 : i ≠ 10 := by omega
      simp only [h10, if_false, h128, if_true]
      have : ¬ (i = 9 ∧ n > 1) := by
        rintro ⟨h9, h1⟩
        subst h9
        simp at hn
        omega
      simp [this]
    · rename_i h128
      have hi8 : i ≤ 8 := by
        by_cases h9 : i = 9
        · subst h9; simp at hn; omega
        · omega
      simp only [List.cons_append, unuvarintAux, List.length_cons]
      have h10 : i ≠ 10 := by omega
      have hb : ¬ (n % 128 + 128 < 128) := by omega
      simp only [h10, if_false, hb]
      have hmod : (n % 128 + 128) % 128 = n % 128 := by omega
      rw [hmod]
      have hpow : 2 ^ (64 - 7 * i) = 2 ^ (64 - 7 * (i + 1)) * 128 := by
        have : 64 - 7 * i = (64 - 7 * (i + 1)) + 7 := by omega
        rw [this, Nat.pow_add]
      have hdiv : n / 128 < 2 ^ (64 - 7 * (i + 1)) := by
        rw [hpow] at hn
        exact Nat.div_lt_of_lt_mul (by rw [Nat.mul_comm]; exact hn)
      rw [ih (n / 128) (by omega) (i + 1) _ rest (by omega) hdiv]
      have hp2 : 2 ^ (7 * (i + 1)) = 2 ^ (7 * i) * 128 := by
        have : 7 * (i + 1) = 7 * i + 7 := by omega
        rw [this, Nat.pow_add]
      rw [hp2]
      have hsplit : n = 128 * (n / 128) + n % 128 := (Nat.div_add_mod n 128).symm
      congr 1
      · generalize 2 ^ (7 * i) = p
        generalize n / 128 = q at *
        generalize n % 128 = r at *
        subst hsplit
        rw [Nat.add_mul, Nat.add_assoc]
        congr 1
        rw [Nat.add_comm]
        congr 1
        rw [Nat.mul_comm 128 q, Nat.mul_assoc, Nat.mul_comm 128 p]
      · push_cast; omega

theorem unuvarint_uvarint (n : Nat) (rest : List Nat) (hn : n < 2 ^ 64) :
    unuvarint (uvarint n ++ rest) = (n, ((uvarint n).length : Int)) := by
  have := unuvarintAux_uvarint n 0 0 rest (by omega) (by simpa using hn)
  simpa [unuvarint] using this

end Thanos.Uvarint
