import Thanos.Model.Hashring
/-
  Helper lemmas about the replica loop of `calculateSectionReplicas` (model: `Thanos.Hashring.loop`).
-/
namespace Thanos.Hashring

/-! ### the cursor -/

theorem cursor_some_of_ne_nil {ring : List Sec} (h : ring ≠ []) (rest : List Sec) :
    ∃ rep rest', cursor ring rest = some (rep, rest') := by
  cases rest with
  | cons a r => exact ⟨a, r, rfl⟩
  | nil =>
    cases ring with
    | nil => exact absurd rfl h
    | cons a r => exact ⟨a, r, rfl⟩

/-- the cursor only ever shows sections of the ring, and stays inside it -/
theorem cursor_mem {ring rest : List Sec} {rep : Sec} {rest' : List Sec}
    (hsub : ∀ s ∈ rest, s ∈ ring) (h : cursor ring rest = some (rep, rest')) :
    rep ∈ ring ∧ ∀ s ∈ rest', s ∈ ring := by
  cases rest with
  | cons a r =>
    simp [cursor] at h
    obtain ⟨rfl, rfl⟩ := h
    exact ⟨hsub _ (by simp), fun s hs => hsub s (by simp [hs])⟩
  | nil =>
    cases ring with
    | nil => simp [cursor] at h
    | cons a r =>
      simp [cursor] at h
      obtain ⟨rfl, rfl⟩ := h
      exact ⟨by simp, fun s hs => by simp [hs]⟩

/-! ### termination of the repaired loop -/

/-- With the lap check every iteration either adds a replica or increases the number of
    consecutive skips, which is bounded by `n`: the loop ends within
    `(rf - |chosen|)·(n+1) + (n - skipped) + 1` iterations, for every ring, zone list and cursor. -/
theorem loop_repaired_terminates (ring : List Sec) (n : Nat) (zones : List Nat) (rf : Nat) :
    ∀ (fuel : Nat) (rest : List Sec) (skipped : Nat) (chosen : List Sec),
      skipped ≤ n → (rf - chosen.length) * (n + 1) + (n - skipped) < fuel →
      loop true ring n zones rf fuel rest skipped chosen ≠ .fuelOut := by
  intro fuel
  induction fuel with
  | zero => intro rest skipped chosen _ h; omega
  | succ fuel ih =>
    intro rest skipped chosen hs hf
    unfold loop
    by_cases h1 : rf ≤ chosen.length
    · simp [h1]
    · simp only [h1, if_false]
      by_cases h2 : skipped = n
      · simp [h2]
      · have h2' : (true && skipped == n) = false := by simp [h2]
        simp only [h2', Bool.false_eq_true, if_false]
        have hk : (rf - chosen.length) * (n + 1) = (rf - chosen.length - 1) * (n + 1) + (n + 1) := by
          have : rf - chosen.length = (rf - chosen.length - 1) + 1 := by omega
          conv => lhs; rw [this, Nat.succ_mul]
        cases hc : cursor ring rest with
        | none => simp
        | some p =>
          obtain ⟨rep, rest'⟩ := p
          simp only
          split
          · exact ih rest' (skipped + 1) chosen (by omega) (by omega)
          · split
            · exact ih rest' (skipped + 1) chosen (by omega) (by omega)
            · apply ih rest' 0 (chosen ++ [rep]) (by omega)
              have : (chosen ++ [rep]).length = chosen.length + 1 := by simp
              rw [this]
              have : rf - (chosen.length + 1) = rf - chosen.length - 1 := by omega
              rw [this]
              omega

/-- more fuel never changes an answer that is not "out of fuel" -/
theorem loop_fuel_mono (lc : Bool) (ring : List Sec) (n : Nat) (zones : List Nat) (rf : Nat) :
    ∀ (fuel : Nat) (rest : List Sec) (skipped : Nat) (chosen : List Sec) (k : Nat),
      loop lc ring n zones rf fuel rest skipped chosen ≠ .fuelOut →
      loop lc ring n zones rf (fuel + k) rest skipped chosen = loop lc ring n zones rf fuel rest skipped chosen := by
  intro fuel
  induction fuel with
  | zero => intro rest skipped chosen k h; simp [loop] at h
  | succ fuel ih =>
    intro rest skipped chosen k h
    have e : fuel + 1 + k = (fuel + k) + 1 := by omega
    rw [e]
    unfold loop at h ⊢
    by_cases h1 : rf ≤ chosen.length
    · simp [h1]
    · simp only [h1, if_false] at h ⊢
      by_cases h2 : (lc && skipped == n) = true
      · simp [h2]
      · simp only [h2, if_false] at h ⊢
        cases hc : cursor ring rest with
        | none => simp
        | some p =>
          obtain ⟨rep, rest'⟩ := p
          simp only [hc] at h ⊢
          by_cases ht : taken chosen rep.ep = true
          · simp only [ht, if_true] at h ⊢; exact ih _ _ _ _ h
          · simp only [ht] at h ⊢
            by_cases hz : skipAZ zones chosen rep = true
            · simp only [hz, if_true] at h ⊢; exact ih _ _ _ _ h
            · simp only [hz] at h ⊢; exact ih _ _ _ _ h

/-! ### invariants of the chosen list -/

/-- what the loop maintains about `chosen` -/
structure Inv (rf : Nat) (chosen : List Sec) : Prop where
  nodup : (chosen.map (·.ep)).Nodup
  len : chosen.length ≤ rf

theorem taken_false_iff {chosen : List Sec} {e : Nat} : taken chosen e = false ↔ e ∉ chosen.map (·.ep) := by
  simp [taken]

/-- every answer `ok reps` of the loop (repaired or not) has exactly `rf` pairwise distinct
    replicas, all of them endpoints of sections of the ring (or already chosen before) -/
theorem loop_ok (lc : Bool) (ring : List Sec) (n : Nat) (zones : List Nat) (rf : Nat) :
    ∀ (fuel : Nat) (rest : List Sec) (skipped : Nat) (chosen : List Sec) (reps : List Nat),
      (∀ s ∈ rest, s ∈ ring) → Inv rf chosen →
      loop lc ring n zones rf fuel rest skipped chosen = .ok reps →
      reps.Nodup ∧ reps.length = rf ∧
        ∀ e ∈ reps, e ∈ chosen.map (·.ep) ∨ ∃ s ∈ ring, s.ep = e := by
  intro fuel
  induction fuel with
  | zero => intro rest skipped chosen reps _ _ h; simp [loop] at h
  | succ fuel ih =>
    intro rest skipped chosen reps hsub inv h
    unfold loop at h
    by_cases h1 : rf ≤ chosen.length
    · simp only [h1, if_true] at h
      injection h with h
      subst h
      refine ⟨inv.nodup, ?_, fun e he => Or.inl he⟩
      have := inv.len
      simp; omega
    · simp only [h1, if_false] at h
      by_cases h2 : (lc && skipped == n) = true
      · simp [h2] at h
      · simp only [h2, if_false] at h
        cases hc : cursor ring rest with
        | none => simp [hc] at h
        | some p =>
          obtain ⟨rep, rest'⟩ := p
          simp only [hc] at h
          obtain ⟨hrep, hsub'⟩ := cursor_mem hsub hc
          by_cases ht : taken chosen rep.ep = true
          · simp only [ht, if_true] at h
            exact ih _ _ _ _ hsub' inv h
          · simp only [ht, if_false] at h
            by_cases hz : skipAZ zones chosen rep = true
            · simp only [hz, if_true] at h
              exact ih _ _ _ _ hsub' inv h
            · simp only [hz, if_false] at h
              have hnt : rep.ep ∉ chosen.map (·.ep) := by
                have : taken chosen rep.ep = false := by simpa using ht
                exact taken_false_iff.mp this
              have inv' : Inv rf (chosen ++ [rep]) := by
                constructor
                · rw [List.map_append, List.nodup_append]
                  refine ⟨inv.nodup, by simp, ?_⟩
                  intro a ha b hb
                  simp at hb
                  subst hb
                  intro hab
                  subst hab
                  exact hnt ha
                · simp; omega
              obtain ⟨r1, r2, r3⟩ := ih _ _ _ _ hsub' inv' h
              refine ⟨r1, r2, fun e he => ?_⟩
              rcases r3 e he with hm | hm
              · rw [List.map_append, List.mem_append] at hm
                rcases hm with hm | hm
                · exact Or.inl hm
                · simp at hm
                  exact Or.inr ⟨rep, hrep, hm.symm⟩
              · exact Or.inr hm

theorem inv_nil (rf : Nat) : Inv rf [] := ⟨by simp, by simp⟩

/-! ### the unrepaired loop spins forever in a stuck state -/

/-- every section of the ring is skipped in this state -/
def Stuck (ring : List Sec) (zones : List Nat) (chosen : List Sec) : Prop :=
  ∀ s ∈ ring, taken chosen s.ep = true ∨ skipAZ zones chosen s = true

instance (ring : List Sec) (zones : List Nat) (chosen : List Sec) : Decidable (Stuck ring zones chosen) := by
  unfold Stuck; infer_instance

/-- Once every section is skipped and replicas are still missing, the loop without lap check
    never answers, whatever the fuel and wherever the cursor is. -/
theorem stuck_forever (ring : List Sec) (n : Nat) (zones : List Nat) (rf : Nat) (chosen : List Sec)
    (hne : ring ≠ []) (hst : Stuck ring zones chosen) (hlen : chosen.length < rf) :
    ∀ (fuel : Nat) (rest : List Sec) (skipped : Nat), (∀ s ∈ rest, s ∈ ring) →
      loop false ring n zones rf fuel rest skipped chosen = .fuelOut := by
  intro fuel
  induction fuel with
  | zero => intro rest skipped _; rfl
  | succ fuel ih =>
    intro rest skipped hsub
    unfold loop
    have h1 : ¬ rf ≤ chosen.length := by omega
    simp only [h1, if_false, Bool.false_and, Bool.false_eq_true]
    obtain ⟨rep, rest', hc⟩ := cursor_some_of_ne_nil hne rest
    obtain ⟨hrep, hsub'⟩ := cursor_mem hsub hc
    simp only [hc]
    rcases hst rep hrep with ht | hz
    · simp only [ht, if_true]; exact ih _ _ hsub'
    · by_cases ht : taken chosen rep.ep = true
      · simp only [ht, if_true]; exact ih _ _ hsub'
      · simp only [ht, if_false, hz, if_true]; exact ih _ _ hsub'

/-- and the repaired loop reports it: in a stuck state the answer is `stuck` as soon as the fuel
    covers the remaining `n - skipped` skips -/
theorem stuck_detected (ring : List Sec) (n : Nat) (zones : List Nat) (rf : Nat) (chosen : List Sec)
    (hne : ring ≠ []) (hst : Stuck ring zones chosen) (hlen : chosen.length < rf) :
    ∀ (fuel : Nat) (rest : List Sec) (skipped : Nat), (∀ s ∈ rest, s ∈ ring) → skipped ≤ n →
      n - skipped < fuel →
      loop true ring n zones rf fuel rest skipped chosen = .stuck := by
  intro fuel
  induction fuel with
  | zero => intro rest skipped _ _ h; omega
  | succ fuel ih =>
    intro rest skipped hsub hs hf
    unfold loop
    have h1 : ¬ rf ≤ chosen.length := by omega
    simp only [h1, if_false]
    by_cases h2 : skipped = n
    · simp [h2]
    · have h2' : (true && skipped == n) = false := by simp [h2]
      simp only [h2', Bool.false_eq_true, if_false]
      obtain ⟨rep, rest', hc⟩ := cursor_some_of_ne_nil hne rest
      obtain ⟨hrep, hsub'⟩ := cursor_mem hsub hc
      simp only [hc]
      rcases hst rep hrep with ht | hz
      · simp only [ht, if_true]; exact ih _ _ hsub' (by omega) (by omega)
      · by_cases ht : taken chosen rep.ep = true
        · simp only [ht, if_true]; exact ih _ _ hsub' (by omega) (by omega)
        · simp only [ht, if_false, hz, if_true]; exact ih _ _ hsub' (by omega) (by omega)

/-! ### zone balance -/

theorem cnt_append (z : Nat) (chosen : List Sec) (rep : Sec) :
    cnt z (chosen ++ [rep]) = cnt z chosen + (if rep.az = z then 1 else 0) := by
  simp only [cnt, List.countP_append, List.countP_cons, List.countP_nil, beq_iff_eq]
  omega

theorem least_mono (chosen : List Sec) (rep : Sec) : ∀ zones : List Nat,
    least chosen zones ≤ least (chosen ++ [rep]) zones
  | [] => by simp [least]
  | z :: zs => by
    have ih := least_mono chosen rep zs
    have := cnt_append z chosen rep
    simp only [least]
    split at this <;> omega

theorem least_le_of_mem (chosen : List Sec) {z : Nat} : ∀ {zones : List Nat}, z ∈ zones →
    least chosen zones ≤ cnt z chosen
  | [], h => by simp at h
  | y :: ys, h => by
    simp only [List.mem_cons] at h
    simp only [least]
    rcases h with rfl | h
    · omega
    · have := least_le_of_mem chosen h
      omega

/-- no configured zone is more than one replica ahead of the least occupied one -/
def Bal (zones : List Nat) (chosen : List Sec) : Prop :=
  ∀ z ∈ zones, cnt z chosen ≤ least chosen zones + 1

theorem bal_nil (zones : List Nat) : Bal zones [] := by
  intro z _; simp [cnt]

/-- the skip rule only ever lets a replica into a zone that is currently least occupied -/
theorem bal_step {zones : List Nat} {chosen : List Sec} {rep : Sec} (hz : zones.length > 1)
    (hb : Bal zones chosen) (hs : skipAZ zones chosen rep = false) : Bal zones (chosen ++ [rep]) := by
  have hle : cnt rep.az chosen ≤ least chosen zones := by
    simp only [skipAZ, hz, decide_true, Bool.true_and, Bool.and_eq_false_iff, decide_eq_false_iff_not] at hs
    omega
  intro z hzm
  have h1 := cnt_append z chosen rep
  have h2 := least_mono chosen rep zones
  have h3 := hb z hzm
  split at h1
  · rename_i h; subst h; omega
  · omega

/-- every prefix of the chosen list is balanced -/
def AllBal (zones : List Nat) (chosen : List Sec) : Prop := ∀ k, Bal zones (chosen.take k)

theorem allBal_nil (zones : List Nat) : AllBal zones [] := by
  intro k; simpa using bal_nil zones

theorem allBal_step {zones : List Nat} {chosen : List Sec} {rep : Sec} (hz : zones.length > 1)
    (hb : AllBal zones chosen) (hs : skipAZ zones chosen rep = false) : AllBal zones (chosen ++ [rep]) := by
  intro k
  by_cases hk : k ≤ chosen.length
  · rw [List.take_append_of_le_length hk]; exact hb k
  · have : (chosen ++ [rep]).take k = chosen ++ [rep] := by
      apply List.take_of_length_le; simp; omega
    rw [this]
    have := hb chosen.length
    rw [List.take_length] at this
    exact bal_step hz this hs

/-- The answer of the loop is the endpoint list of a sequence of sections of the ring, every
    prefix of which is zone balanced (with at least two configured zones). -/
theorem loop_balanced (lc : Bool) (ring : List Sec) (n : Nat) (zones : List Nat) (rf : Nat)
    (hz : zones.length > 1) :
    ∀ (fuel : Nat) (rest : List Sec) (skipped : Nat) (chosen : List Sec) (reps : List Nat),
      (∀ s ∈ rest, s ∈ ring) → AllBal zones chosen →
      loop lc ring n zones rf fuel rest skipped chosen = .ok reps →
      ∃ final, reps = final.map (·.ep) ∧ AllBal zones final ∧ chosen <+: final ∧
        ∀ s ∈ final, s ∈ chosen ∨ s ∈ ring := by
  intro fuel
  induction fuel with
  | zero => intro rest skipped chosen reps _ _ h; simp [loop] at h
  | succ fuel ih =>
    intro rest skipped chosen reps hsub hb h
    unfold loop at h
    by_cases h1 : rf ≤ chosen.length
    · simp only [h1, if_true] at h
      injection h with h
      exact ⟨chosen, h.symm, hb, List.prefix_refl _, fun s hs => Or.inl hs⟩
    · simp only [h1, if_false] at h
      by_cases h2 : (lc && skipped == n) = true
      · simp [h2] at h
      · simp only [h2] at h
        cases hc : cursor ring rest with
        | none => simp [hc] at h
        | some p =>
          obtain ⟨rep, rest'⟩ := p
          simp only [hc] at h
          obtain ⟨hrep, hsub'⟩ := cursor_mem hsub hc
          by_cases ht : taken chosen rep.ep = true
          · simp only [ht, if_true] at h
            exact ih _ _ _ _ hsub' hb h
          · simp only [ht] at h
            by_cases hs : skipAZ zones chosen rep = true
            · simp only [hs, if_true] at h
              exact ih _ _ _ _ hsub' hb h
            · simp only [hs] at h
              have hs' : skipAZ zones chosen rep = false := by simpa using hs
              obtain ⟨final, r1, r2, r3, r4⟩ := ih _ _ _ _ hsub' (allBal_step hz hb hs') h
              refine ⟨final, r1, r2, ?_, fun s hs => ?_⟩
              · exact List.IsPrefix.trans (List.prefix_append chosen [rep]) r3
              · rcases r4 s hs with hm | hm
                · rw [List.mem_append] at hm
                  rcases hm with hm | hm
                  · exact Or.inl hm
                  · simp at hm; subst hm; exact Or.inr hrep
                · exact Or.inr hm

/-! ### a smaller replication factor gives a prefix -/

/-- an answer extends what was chosen already -/
theorem loop_ok_extends (lc : Bool) (ring : List Sec) (n : Nat) (zones : List Nat) (rf : Nat) :
    ∀ (fuel : Nat) (rest : List Sec) (skipped : Nat) (chosen : List Sec) (reps : List Nat),
      loop lc ring n zones rf fuel rest skipped chosen = .ok reps → chosen.map (·.ep) <+: reps := by
  intro fuel
  induction fuel with
  | zero => intro rest skipped chosen reps h; simp [loop] at h
  | succ fuel ih =>
    intro rest skipped chosen reps h
    unfold loop at h
    by_cases h1 : rf ≤ chosen.length
    · simp only [h1, if_true] at h
      injection h with h
      rw [h]; exact List.prefix_refl _
    · simp only [h1, if_false] at h
      by_cases h2 : (lc && skipped == n) = true
      · simp [h2] at h
      · simp only [h2] at h
        cases hc : cursor ring rest with
        | none => simp [hc] at h
        | some p =>
          obtain ⟨rep, rest'⟩ := p
          simp only [hc] at h
          by_cases ht : taken chosen rep.ep = true
          · simp only [ht, if_true] at h; exact ih _ _ _ _ h
          · simp only [ht] at h
            by_cases hs : skipAZ zones chosen rep = true
            · simp only [hs, if_true] at h; exact ih _ _ _ _ h
            · simp only [hs] at h
              have := ih _ _ _ _ h
              rw [List.map_append] at this
              exact List.IsPrefix.trans (List.prefix_append _ _) this

/-- The decisions of the loop do not depend on `rf` except for where it stops: with a smaller
    replication factor the answer is the corresponding prefix. -/
theorem loop_prefix (lc : Bool) (ring : List Sec) (n : Nat) (zones : List Nat) (rf rf' : Nat) (hle : rf' ≤ rf) :
    ∀ (fuel : Nat) (rest : List Sec) (skipped : Nat) (chosen : List Sec) (reps : List Nat),
      chosen.length ≤ rf' →
      loop lc ring n zones rf fuel rest skipped chosen = .ok reps →
      loop lc ring n zones rf' fuel rest skipped chosen = .ok (reps.take rf') := by
  intro fuel
  induction fuel with
  | zero => intro rest skipped chosen reps _ h; simp [loop] at h
  | succ fuel ih =>
    intro rest skipped chosen reps hlen h
    have hext := loop_ok_extends lc ring n zones rf (fuel + 1) rest skipped chosen reps h
    unfold loop at h ⊢
    by_cases h1' : rf' ≤ chosen.length
    · -- the smaller loop stops here: exactly the chosen ones, a prefix of the final answer
      simp only [h1', if_true]
      have hl : chosen.length = rf' := by omega
      obtain ⟨t, ht⟩ := hext
      rw [← ht, ← hl]
      simp
    · simp only [h1', if_false]
      have h1 : ¬ rf ≤ chosen.length := by omega
      simp only [h1, if_false] at h
      by_cases h2 : (lc && skipped == n) = true
      · simp [h2] at h
      · simp only [h2] at h ⊢
        cases hc : cursor ring rest with
        | none => simp [hc] at h
        | some p =>
          obtain ⟨rep, rest'⟩ := p
          simp only [hc] at h ⊢
          by_cases ht : taken chosen rep.ep = true
          · simp only [ht, if_true] at h ⊢; exact ih _ _ _ _ hlen h
          · simp only [ht] at h ⊢
            by_cases hs : skipAZ zones chosen rep = true
            · simp only [hs, if_true] at h ⊢; exact ih _ _ _ _ hlen h
            · simp only [hs] at h ⊢
              exact ih _ _ _ _ (by simp; omega) h

/-! ### `dedup` -/

theorem mem_dedup {a : Nat} : ∀ {l : List Nat}, a ∈ dedup l ↔ a ∈ l
  | [] => by simp [dedup]
  | b :: l => by
    simp only [dedup]
    by_cases h : l.contains b = true
    · simp only [h, if_true, List.mem_cons]
      rw [mem_dedup]
      constructor
      · exact Or.inr
      · rintro (rfl | h')
        · simpa using h
        · exact h'
    · simp only [h, Bool.false_eq_true, if_false, List.mem_cons]
      rw [mem_dedup]

theorem nodup_dedup : ∀ (l : List Nat), (dedup l).Nodup
  | [] => by simp [dedup]
  | b :: l => by
    simp only [dedup]
    by_cases h : l.contains b = true
    · simp only [h, if_true]; exact nodup_dedup l
    · simp only [h, Bool.false_eq_true, if_false]
      rw [List.nodup_cons]
      refine ⟨?_, nodup_dedup l⟩
      rw [mem_dedup]
      simpa using h


end Thanos.Hashring
