import Thanos.Model.Iter
import Thanos.Lemmas.IterBasic
/-
  C02 helper lemmas: the value invariant of counter deduplication.

  `Mono o I`: `I s m` says "the iterator is positioned on a sample whose (adjusted) value is
  `m`"; every successful `Seek`/`Next` leads to a state with a value `≥ m`, and
  `adjustAtValue v` leads to the value `max m v`.  The invariant is purely about values — no
  assumption on timestamps is needed, so it holds whatever the penalty logic decides.
-/
namespace Thanos.Dedup

/-- values never decrease along the list -/
def MonoVals (l : List Sample) : Prop := l.Pairwise (fun x y => x.v ≤ y.v)

structure Mono {σ : Type} (o : Ops σ) (I : σ → Int → Prop) : Prop where
  atS : ∀ s m, I s m → ∃ x, o.atS s = some x ∧ x.v = m
  seek : ∀ s m t, I s m → (o.seek t s).2 = true → ∃ m', m ≤ m' ∧ I (o.seek t s).1 m'
  next : ∀ s m, I s m → (o.next s).2 = true → ∃ m', m ≤ m' ∧ I (o.next s).1 m'
  adjust : ∀ s m v, I s m → I (o.adjust v s) (max m v)

/-- a state on which no method has been called yet: the first successful call positions it -/
structure FreshM {σ : Type} (o : Ops σ) (I : σ → Int → Prop) (s : σ) : Prop where
  next : (o.next s).2 = true → ∃ m, I (o.next s).1 m
  seek : ∀ t, (o.seek t s).2 = true → ∃ m, I (o.seek t s).1 m

theorem Mono.unique {σ : Type} {o : Ops σ} {I : σ → Int → Prop} (h : Mono o I) {s : σ} {m m2 : Int}
    (h1 : I s m) (h2 : I s m2) : m = m2 := by
  obtain ⟨x, hx, rfl⟩ := h.atS s m h1
  obtain ⟨y, hy, rfl⟩ := h.atS s m2 h2
  rw [hx] at hy
  cases hy
  rfl

/-! ### the counter-adjusting list iterator -/

def ctrI (s : Ctr Leaf) (m : Int) : Prop :=
  s.inner.started = true ∧ MonoVals s.inner.rest ∧
    ∃ x, s.inner.rest.head? = some x ∧ x.v + s.errAdjust = m

theorem monoVals_tail {l : List Sample} (h : MonoVals l) : MonoVals l.tail := by
  cases l with
  | nil => exact h
  | cons a l => exact (List.pairwise_cons.mp h).2

theorem monoVals_dropWhile {l : List Sample} (p : Sample → Bool) (h : MonoVals l) :
    MonoVals (l.dropWhile p) :=
  List.Pairwise.sublist (List.dropWhile_sublist p) h

/-- the head of a suffix obtained by `dropWhile` is not below the head of the list -/
theorem head_dropWhile_ge {l : List Sample} (p : Sample → Bool) (h : MonoVals l) {x y : Sample}
    (hx : l.head? = some x) (hy : (l.dropWhile p).head? = some y) : x.v ≤ y.v := by
  cases l with
  | nil => simp at hx
  | cons a l =>
    simp at hx; subst hx
    have hmem : y ∈ (a :: l).dropWhile p := List.mem_of_mem_head? hy
    have : y ∈ a :: l := (List.dropWhile_sublist p).subset hmem
    rcases List.mem_cons.mp this with rfl | hin
    · exact Int.le_refl _
    · exact (List.pairwise_cons.mp h).1 y hin

theorem head_tail_ge {l : List Sample} (h : MonoVals l) {x y : Sample}
    (hx : l.head? = some x) (hy : l.tail.head? = some y) : x.v ≤ y.v := by
  cases l with
  | nil => simp at hx
  | cons a l =>
    simp at hx; subst hx
    have : y ∈ l := List.mem_of_mem_head? hy
    exact (List.pairwise_cons.mp h).1 y this

theorem ctr_mono : Mono (ctrOps leafOps) ctrI where
  atS := by
    intro s m ⟨hs, _, x, hx, hm⟩
    refine ⟨⟨x.t, x.v + s.errAdjust⟩, ?_, hm⟩
    simp [ctrOps, leafOps, Leaf.cur, hs, hx]
  seek := by
    intro s m t ⟨hs, hmono, x, hx, hm⟩ hok
    simp only [ctrOps, leafOps, leafSeek] at hok ⊢
    cases hd : (s.inner.rest.dropWhile fun q => decide (q.t < t)).head? with
    | none =>
      have : (s.inner.rest.dropWhile fun q => decide (q.t < t)) = [] := List.head?_eq_none_iff.mp hd
      simp [this] at hok
    | some y =>
      refine ⟨y.v + s.errAdjust, ?_, rfl, monoVals_dropWhile _ hmono, y, hd, rfl⟩
      have := head_dropWhile_ge _ hmono hx hd
      omega
  next := by
    intro s m ⟨hs, hmono, x, hx, hm⟩ hok
    simp only [ctrOps, leafOps, leafNext, hs, if_true] at hok ⊢
    cases hd : s.inner.rest.tail.head? with
    | none =>
      have : s.inner.rest.tail = [] := List.head?_eq_none_iff.mp hd
      simp [this] at hok
    | some y =>
      refine ⟨y.v + s.errAdjust, ?_, rfl, monoVals_tail hmono, y, hd, rfl⟩
      have := head_tail_ge hmono hx hd
      omega
  adjust := by
    intro s m v ⟨hs, hmono, x, hx, hm⟩
    simp only [ctrOps, leafOps, Leaf.cur, hs, if_true, hx]
    by_cases hv : v > x.v + s.errAdjust
    · simp only [hv, if_true]
      refine ⟨hs, hmono, x, hx, ?_⟩
      simp only []
      omega
    · simp only [hv, if_false]
      refine ⟨hs, hmono, x, hx, ?_⟩
      omega

theorem ctr_fresh (r : List Sample) (h : MonoVals r) :
    FreshM (ctrOps leafOps) ctrI (Ctr.init (Leaf.init r)) where
  next := by
    intro hok
    simp only [ctrOps, leafOps, leafNext, Ctr.init, Leaf.init] at hok ⊢
    cases r with
    | nil => simp at hok
    | cons a r => exact ⟨a.v + 0, rfl, h, a, rfl, rfl⟩
  seek := by
    intro t hok
    simp only [ctrOps, leafOps, leafSeek, Ctr.init, Leaf.init] at hok ⊢
    cases hd : (r.dropWhile fun q => decide (q.t < t)).head? with
    | none =>
      have : (r.dropWhile fun q => decide (q.t < t)) = [] := List.head?_eq_none_iff.mp hd
      simp [this] at hok
    | some y => exact ⟨y.v + 0, rfl, monoVals_dropWhile _ h, y, hd, rfl⟩

/-! ### dedupSeriesIterator over two iterators that satisfy `Mono` -/

section node
variable {α β : Type} {oa : Ops α} {ob : Ops β} {Ia : α → Int → Prop} {Ib : β → Int → Prop}

/-- every side that returned a sample last time is positioned -/
def nodeW (Ia : α → Int → Prop) (Ib : β → Int → Prop) (s : Node α β) : Prop :=
  s.lastIsA = s.useA ∧ (s.aval = true → ∃ m, Ia s.a m) ∧ (s.bval = true → ∃ m, Ib s.b m)

/-- the node is positioned on the side in use, whose value is `m` -/
def nodeI (Ia : α → Int → Prop) (Ib : β → Int → Prop) (s : Node α β) (m : Int) : Prop :=
  nodeW Ia Ib s ∧ (if s.useA then s.aval = true ∧ Ia s.a m else s.bval = true ∧ Ib s.b m)

/-- what a successful `nodeChoose` leaves behind, whatever the timestamps are -/
theorem nodeChoose_shape (s : Node α β) (hok : (nodeChoose oa ob s).2 = true) :
    (nodeChoose oa ob s).1.a = s.a ∧ (nodeChoose oa ob s).1.b = s.b ∧
    (nodeChoose oa ob s).1.aval = s.aval ∧ (nodeChoose oa ob s).1.bval = s.bval ∧
    (nodeChoose oa ob s).1.lastIsA = (nodeChoose oa ob s).1.useA ∧
    (if (nodeChoose oa ob s).1.useA then s.aval = true else s.bval = true) := by
  unfold nodeChoose at hok ⊢
  cases hav : s.aval <;> cases hbv : s.bval <;> simp only [hav, hbv] at hok ⊢
  · simp at hok
  · cases htb : ob.atT s.b <;> simp [htb] at hok ⊢
  · cases hta : oa.atT s.a <;> simp [hta] at hok ⊢
  · cases hta : oa.atT s.a <;> cases htb : ob.atT s.b <;> simp [hta, htb] at hok ⊢
    rename_i ta tb
    by_cases h : ta ≤ tb <;> simp [h]

theorem nodeStep_shape (s : Node α β) (hok : (nodeStep oa ob s).2 = true) :
    (nodeStep oa ob s).1.a = (stepA oa s).1 ∧ (nodeStep oa ob s).1.b = (stepB ob s).1 ∧
    (nodeStep oa ob s).1.aval = (stepA oa s).2 ∧ (nodeStep oa ob s).1.bval = (stepB ob s).2 ∧
    (nodeStep oa ob s).1.lastIsA = (nodeStep oa ob s).1.useA ∧
    (if (nodeStep oa ob s).1.useA then (stepA oa s).2 = true else (stepB ob s).2 = true) :=
  nodeChoose_shape _ hok

theorem stepA_mono (ha : Mono oa Ia) (s : Node α β) (hW : nodeW Ia Ib s) (hok : (stepA oa s).2 = true) :
    (∃ m, Ia (stepA oa s).1 m) ∧ ∀ m, Ia s.a m → ∃ m', m ≤ m' ∧ Ia (stepA oa s).1 m' := by
  unfold stepA at hok ⊢
  by_cases hav : s.aval = true
  · simp only [hav, if_true] at hok ⊢
    obtain ⟨m0, hm0⟩ := hW.2.1 hav
    obtain ⟨m1, _, hm1⟩ := ha.seek _ _ _ hm0 hok
    exact ⟨⟨m1, hm1⟩, fun m hm => ha.seek _ _ _ hm hok⟩
  · simp [hav] at hok

theorem stepB_mono (hb : Mono ob Ib) (s : Node α β) (hW : nodeW Ia Ib s) (hok : (stepB ob s).2 = true) :
    (∃ m, Ib (stepB ob s).1 m) ∧ ∀ m, Ib s.b m → ∃ m', m ≤ m' ∧ Ib (stepB ob s).1 m' := by
  unfold stepB at hok ⊢
  by_cases hbv : s.bval = true
  · simp only [hbv, if_true] at hok ⊢
    obtain ⟨m0, hm0⟩ := hW.2.2 hbv
    obtain ⟨m1, _, hm1⟩ := hb.seek _ _ _ hm0 hok
    exact ⟨⟨m1, hm1⟩, fun m hm => hb.seek _ _ _ hm hok⟩
  · simp [hbv] at hok

/-- `nodeStep` keeps the weak invariant and ends on a positioned side -/
theorem nodeStep_W (ha : Mono oa Ia) (hb : Mono ob Ib) (s : Node α β) (hW : nodeW Ia Ib s)
    (hok : (nodeStep oa ob s).2 = true) : nodeW Ia Ib (nodeStep oa ob s).1 := by
  obtain ⟨h1, h2, h3, h4, h5, _⟩ := nodeStep_shape (oa := oa) (ob := ob) s hok
  refine ⟨h5, ?_, ?_⟩
  · intro hv; rw [h3] at hv; rw [h1]; exact (stepA_mono ha s hW hv).1
  · intro hv; rw [h4] at hv; rw [h2]; exact (stepB_mono hb s hW hv).1

theorem nodeAdjust_W (ha : Mono oa Ia) (hb : Mono ob Ib) (v : Int) (s : Node α β) (hW : nodeW Ia Ib s) :
    nodeW Ia Ib (nodeAdjust oa ob v s) := by
  obtain ⟨p1, p2, p3, p4, p5, p6⟩ := nodeAdjust_proj (oa := oa) (ob := ob) v s
  obtain ⟨h1, h2, h3⟩ := hW
  refine ⟨by rw [p3, p4]; exact h1, ?_, ?_⟩
  · intro hv
    rw [p1] at hv
    rw [p5, hv]
    obtain ⟨m, hm⟩ := h2 hv
    exact ⟨_, ha.adjust _ _ v hm⟩
  · intro hv
    rw [p2] at hv
    rw [p6, hv]
    obtain ⟨m, hm⟩ := h3 hv
    exact ⟨_, hb.adjust _ _ v hm⟩

/-- `adjustAtValue v` on a positioned node raises its value to `max m v` -/
theorem nodeAdjust_I (ha : Mono oa Ia) (hb : Mono ob Ib) (v m : Int) (s : Node α β)
    (hI : nodeI Ia Ib s m) : nodeI Ia Ib (nodeAdjust oa ob v s) (max m v) := by
  refine ⟨nodeAdjust_W ha hb v s hI.1, ?_⟩
  obtain ⟨p1, p2, p3, p4, p5, p6⟩ := nodeAdjust_proj (oa := oa) (ob := ob) v s
  have h2 := hI.2
  rw [p3]
  by_cases hu : s.useA = true
  · simp only [hu, if_true] at h2 ⊢
    rw [p1, p5, h2.1]
    exact ⟨rfl, ha.adjust _ _ v h2.2⟩
  · simp only [hu, if_false] at h2 ⊢
    rw [p2, p6, h2.1]
    exact ⟨rfl, hb.adjust _ _ v h2.2⟩

/-- on a positioned node `lastFloatVal()` reads the value `m` -/
theorem nodeI_at (ha : Mono oa Ia) (hb : Mono ob Ib) {s : Node α β} {m : Int} (hI : nodeI Ia Ib s m) :
    ((s.useA && s.aval) || (!s.useA && s.bval)) = true ∧ ∃ x, nodeAt oa ob s = some x ∧ x.v = m := by
  obtain ⟨⟨h1, _, _⟩, h2⟩ := hI
  unfold nodeAt
  rw [h1]
  by_cases hu : s.useA = true
  · simp only [hu, if_true] at h2 ⊢
    exact ⟨by simp [h2.1], ha.atS _ _ h2.2⟩
  · simp only [Bool.not_eq_true] at hu
    simp only [hu] at h2 ⊢
    exact ⟨by simp [h2.1], hb.atS _ _ h2.2⟩

/-- a successful `nodeStep` ends positioned; the value of the side it ends on is not below the
    value that side had before -/
theorem nodeStep_I (ha : Mono oa Ia) (hb : Mono ob Ib) (s : Node α β) (hW : nodeW Ia Ib s)
    (hok : (nodeStep oa ob s).2 = true) :
    ∃ m', nodeI Ia Ib (nodeStep oa ob s).1 m' ∧
      ∀ m, nodeI Ia Ib s m → (nodeStep oa ob s).1.useA = s.useA → m ≤ m' := by
  have hW' := nodeStep_W ha hb s hW hok
  obtain ⟨h1, h2, h3, h4, _, h6⟩ := nodeStep_shape (oa := oa) (ob := ob) s hok
  by_cases hu : (nodeStep oa ob s).1.useA = true
  · simp only [hu, if_true] at h6
    obtain ⟨⟨m', hm'⟩, hge⟩ := stepA_mono ha s hW h6
    refine ⟨m', ⟨hW', ?_⟩, ?_⟩
    · simp only [hu, if_true]; rw [h3, h1]; exact ⟨h6, hm'⟩
    · intro m hI hsame
      have h2' := hI.2
      rw [← hsame, hu] at h2'
      simp only [if_true] at h2'
      obtain ⟨m'', hle, hm''⟩ := hge m h2'.2
      rw [ha.unique hm' hm'']; exact hle
  · simp only [Bool.not_eq_true] at hu
    simp only [hu] at h6
    simp only [Bool.false_eq_true, if_false] at h6
    obtain ⟨⟨m', hm'⟩, hge⟩ := stepB_mono hb s hW h6
    refine ⟨m', ⟨hW', ?_⟩, ?_⟩
    · simp only [hu, Bool.false_eq_true, if_false]; rw [h4, h2]; exact ⟨h6, hm'⟩
    · intro m hI hsame
      have h2' := hI.2
      rw [← hsame, hu] at h2'
      simp only [Bool.false_eq_true, if_false] at h2'
      obtain ⟨m'', hle, hm''⟩ := hge m h2'.2
      rw [hb.unique hm' hm'']; exact hle

/-- `Next` from any state that satisfies the weak invariant -/
theorem nodeNext_I (ha : Mono oa Ia) (hb : Mono ob Ib) (s : Node α β) (hW : nodeW Ia Ib s)
    (hok : (nodeNext oa ob s).2 = true) :
    ∃ m', nodeI Ia Ib (nodeNext oa ob s).1 m' ∧ ∀ m, nodeI Ia Ib s m → m ≤ m' := by
  unfold nodeNext at hok ⊢
  by_cases hc : ((s.useA && s.aval) || (!s.useA && s.bval)) = true
  · simp only [hc, if_true] at hok ⊢
    cases hat : nodeAt oa ob s with
    | none => simp [hat] at hok
    | some x =>
      simp only [hat] at hok ⊢
      obtain ⟨m0, hI0, hge⟩ := nodeStep_I ha hb s hW hok
      unfold nodeFinish
      simp only
      by_cases hsw : ((nodeStep oa ob s).1.useA != s.useA) = true
      · simp only [hsw, if_true]
        refine ⟨max m0 x.v, nodeAdjust_I ha hb _ _ _ hI0, ?_⟩
        intro m hI
        obtain ⟨_, y, hy, hym⟩ := nodeI_at ha hb hI
        rw [hat] at hy
        cases hy
        omega
      · simp only [hsw]
        refine ⟨m0, hI0, ?_⟩
        intro m hI
        apply hge m hI
        simpa using hsw
  · simp only [hc] at hok ⊢
    obtain ⟨m0, hI0, _⟩ := nodeStep_I ha hb s hW hok
    refine ⟨m0, hI0, ?_⟩
    intro m hI
    exact absurd (nodeI_at ha hb hI).1 hc

theorem nodeSeekLoop_I (ha : Mono oa Ia) (hb : Mono ob Ib) (t : Int) :
    ∀ (n : Nat) (s : Node α β) (m : Int), nodeI Ia Ib s m → (nodeSeekLoop oa ob t n s).2 = true →
      ∃ m', m ≤ m' ∧ nodeI Ia Ib (nodeSeekLoop oa ob t n s).1 m' := by
  intro n
  induction n with
  | zero => intro s m _ hok; simp [nodeSeekLoop] at hok
  | succ n ih =>
    intro s m hI hok
    unfold nodeSeekLoop at hok ⊢
    cases hts : nodeAtT oa ob s with
    | none => simp [hts] at hok
    | some ts =>
      simp only [hts] at hok ⊢
      by_cases hge : ts ≥ t
      · simp only [hge, if_true] at hok ⊢
        obtain ⟨⟨h1, h2, h3⟩, h4⟩ := hI
        by_cases hu : s.useA = true
        · simp only [hu, if_true] at hok h4 ⊢
          obtain ⟨m', hle, hm'⟩ := ha.seek _ _ ts h4.2 hok
          exact ⟨m', hle, ⟨by simpa [hu] using h1, fun _ => ⟨m', hm'⟩, h3⟩, by simp [hu, h4.1, hm']⟩
        · simp only [Bool.not_eq_true] at hu
          simp only [hu, Bool.false_eq_true, if_false] at hok h4 ⊢
          obtain ⟨m', hle, hm'⟩ := hb.seek _ _ ts h4.2 hok
          exact ⟨m', hle, ⟨by simpa [hu] using h1, h2, fun _ => ⟨m', hm'⟩⟩, by simp [hu, h4.1, hm']⟩
      · simp only [hge, if_false] at hok ⊢
        by_cases hn : (nodeNext oa ob s).2 = true
        · simp only [hn, if_true] at hok ⊢
          obtain ⟨m1, hI1, hle1⟩ := nodeNext_I ha hb s hI.1 hn
          obtain ⟨m', hle', hI'⟩ := ih _ m1 hI1 hok
          exact ⟨m', Int.le_trans (hle1 m hI) hle', hI'⟩
        · simp [hn] at hok

theorem node_mono (ha : Mono oa Ia) (hb : Mono ob Ib) (fixed : Bool) :
    Mono (nodeOps oa ob fixed) (nodeI Ia Ib) where
  atS := fun s m hI => (nodeI_at ha hb hI).2
  next := by
    intro s m hI hok
    obtain ⟨m', hI', hle⟩ := nodeNext_I ha hb s hI.1 hok
    exact ⟨m', hle m hI, hI'⟩
  seek := by
    intro s m t hI hok
    cases fixed with
    | false => exact nodeSeekLoop_I ha hb t _ s m hI hok
    | true =>
      simp only [nodeOps, if_true] at hok ⊢
      unfold nodeSeekFixed at hok ⊢
      by_cases hl : s.lastT = minT
      · simp only [hl, if_true] at hok ⊢
        by_cases hn : (nodeNext oa ob s).2 = true
        · simp only [hn, if_true] at hok ⊢
          obtain ⟨m1, hI1, hle1⟩ := nodeNext_I ha hb s hI.1 hn
          obtain ⟨m', hle', hI'⟩ := nodeSeekLoop_I ha hb t _ _ m1 hI1 hok
          exact ⟨m', Int.le_trans (hle1 m hI) hle', hI'⟩
        · simp [hn] at hok
      · simp only [hl, if_false] at hok ⊢
        exact nodeSeekLoop_I ha hb t _ s m hI hok
  adjust := fun s m v hI => nodeAdjust_I ha hb v m s hI

/-- `newDedupSeriesIterator` over two fresh iterators is fresh (for the repaired `Seek`) -/
theorem node_fresh (ha : Mono oa Ia) (hb : Mono ob Ib) {a : α} {b : β}
    (fa : FreshM oa Ia a) (fb : FreshM ob Ib b) :
    FreshM (nodeOps oa ob true) (nodeI Ia Ib) (nodeNew oa ob a b) := by
  have hW : nodeW Ia Ib (nodeNew oa ob a b) := ⟨rfl, fa.next, fb.next⟩
  constructor
  · intro hok
    obtain ⟨m', hI', _⟩ := nodeNext_I ha hb _ hW hok
    exact ⟨m', hI'⟩
  · intro t hok
    simp only [nodeOps, if_true] at hok ⊢
    unfold nodeSeekFixed at hok ⊢
    have hl : (nodeNew oa ob a b).lastT = minT := rfl
    simp only [hl, if_true] at hok ⊢
    by_cases hn : (nodeNext oa ob (nodeNew oa ob a b)).2 = true
    · simp only [hn, if_true] at hok ⊢
      obtain ⟨m1, hI1, _⟩ := nodeNext_I ha hb _ hW hn
      obtain ⟨m', _, hI'⟩ := nodeSeekLoop_I ha hb t _ _ m1 hI1 hok
      exact ⟨m', hI'⟩
    · simp [hn] at hok

end node

end Thanos.Dedup
