import Thanos.Model.Partition
/-
  Helper lemmas for gapBasedPartitioner.Partition (C10).
-/
namespace Thanos.Partition

/-- the range `(s, e)` with index `n` lies inside a part that holds index `n` -/
def Covers (parts : List Part) (n s e : Nat) : Prop :=
  ∃ p ∈ parts, p.i ≤ n ∧ n < p.j ∧ p.start ≤ s ∧ e ≤ p.stop

theorem go_cover (g : Nat) : ∀ (rs : List (Nat × Nat)) (cur : Part) (k : Nat),
    cur.j = k → cur.i < cur.j → (∀ x ∈ rs, cur.start ≤ x.1) → rs.Pairwise (fun a b => a.1 ≤ b.1) →
    (∀ (m : Nat) (h : m < rs.length), Covers (go g cur rs k) (k + m) (rs[m]).1 (rs[m]).2) ∧
    (∃ p ∈ go g cur rs k, p.i = cur.i ∧ p.start = cur.start ∧ cur.stop ≤ p.stop ∧ cur.j ≤ p.j)
  | [], cur, k, _, _, _, _ => by
    refine ⟨fun m h => by simp at h, cur, by simp [go], rfl, rfl, Nat.le_refl _, Nat.le_refl _⟩
  | (s, e) :: rs, cur, k, hj, hij, hlo, hsort => by
    have hs := List.pairwise_cons.mp hsort
    simp only [go]
    split
    next hbrk =>
      -- a new part starts at this range
      obtain ⟨ih1, p, hp, hpi, hps, hpe, hpj⟩ := go_cover g rs ⟨s, e, k, k + 1⟩ (k + 1) rfl (by simp)
        (fun x hx => hs.1 x hx) hs.2
      refine ⟨?_, cur, by simp, rfl, rfl, Nat.le_refl _, Nat.le_refl _⟩
      intro m hm
      cases m with
      | zero =>
        refine ⟨p, List.mem_cons_of_mem _ hp, ?_, ?_, ?_, ?_⟩
        · simp at hpi; omega
        · simp at hpj; omega
        · simp at hps; simp [hps]
        · simp at hpe; simpa using hpe
      | succ m =>
        have hm' : m < rs.length := by simpa using hm
        obtain ⟨q, hq, h1, h2, h3, h4⟩ := ih1 m hm'
        refine ⟨q, List.mem_cons_of_mem _ hq, by omega, by omega, ?_, ?_⟩
        · simpa using h3
        · simpa using h4
    next hmrg =>
      obtain ⟨ih1, p, hp, hpi, hps, hpe, hpj⟩ := go_cover g rs
        { cur with stop := if cur.stop ≤ e then e else cur.stop, j := k + 1 } (k + 1) rfl (by simp; omega)
        (fun x hx => hlo x (List.mem_cons_of_mem _ hx)) hs.2
      simp only at hpi hps hpe hpj
      refine ⟨?_, p, hp, hpi, hps, ?_, by omega⟩
      · intro m hm
        cases m with
        | zero =>
          refine ⟨p, hp, by omega, by omega, ?_, ?_⟩
          · have := hlo (s, e) (by simp)
            simp at this ⊢
            omega
          · simp
            split at hpe <;> omega
        | succ m =>
          have hm' : m < rs.length := by simpa using hm
          obtain ⟨q, hq, h1, h2, h3, h4⟩ := ih1 m hm'
          refine ⟨q, hq, by omega, by omega, ?_, ?_⟩
          · simpa using h3
          · simpa using h4
      · split at hpe <;> omega

theorem go_length (g : Nat) : ∀ (rs : List (Nat × Nat)) (cur : Part) (k : Nat), (go g cur rs k).length ≤ rs.length + 1
  | [], _, _ => by simp [go]
  | (s, e) :: rs, cur, k => by
    simp only [go]
    split
    · have := go_length g rs ⟨s, e, k, k + 1⟩ (k + 1)
      simp; omega
    · have := go_length g rs { cur with stop := if cur.stop ≤ e then e else cur.stop, j := k + 1 } (k + 1)
      simp; omega

/-- ranges of one part are chained: each next start is at most `maxGap` behind the end reached so far -/
theorem go_parts_chain (g : Nat) : ∀ (rs : List (Nat × Nat)) (cur : Part) (k : Nat), cur.j = k → cur.i < cur.j →
    (go g cur rs k).Pairwise (fun p q => p.j ≤ q.i) ∧ (∀ p ∈ go g cur rs k, cur.i ≤ p.i ∧ p.i < p.j ∧ p.j ≤ k + rs.length)
  | [], cur, k, hj, hij => by
    simp [go]; omega
  | (s, e) :: rs, cur, k, hj, hij => by
    simp only [go]
    split
    · obtain ⟨h1, h2⟩ := go_parts_chain g rs ⟨s, e, k, k + 1⟩ (k + 1) rfl (by simp)
      constructor
      · apply List.pairwise_cons.mpr
        refine ⟨?_, h1⟩
        intro q hq
        have := (h2 q hq).1
        simp at this; omega
      · intro p hp
        rcases List.mem_cons.mp hp with rfl | hp'
        · simp; omega
        · have := h2 p hp'
          simp at this ⊢; omega
    · obtain ⟨h1, h2⟩ := go_parts_chain g rs { cur with stop := if cur.stop ≤ e then e else cur.stop, j := k + 1 } (k + 1) rfl (by simp; omega)
      refine ⟨h1, ?_⟩
      intro p hp
      have := h2 p hp
      simp at this ⊢; omega

end Thanos.Partition
