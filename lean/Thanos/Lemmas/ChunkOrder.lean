import Thanos.Model.Merge
import Thanos.Lemmas.Order
import Thanos.Lemmas.Chain
/-
  `AggrChunk.Compare` is a total order on the visible content of a chunk (MinTime, MaxTime and, per
  aggregate, presence / encoding / data bytes): lexicographic product of lawful comparisons.  Hence
  the sorted chunk list of a merged series is determined by the set of its chunks.
-/
namespace Thanos.Merge

/-- a comparison that is a total order: reflexive, `eq` only on equal arguments, antisymmetric
    under swap, transitive -/
structure Lawful {α : Type} (c : α → α → Ordering) : Prop where
  refl : ∀ a, c a a = .eq
  eq : ∀ a b, c a b = .eq → a = b
  swap : ∀ a b, c a b = .lt ↔ c b a = .gt
  trans : ∀ a b d, c a b = .lt → c b d = .lt → c a d = .lt

def lexCmp {α β : Type} (c1 : α → α → Ordering) (c2 : β → β → Ordering) (x y : α × β) : Ordering :=
  match c1 x.1 y.1 with
  | .eq => c2 x.2 y.2
  | o => o

theorem Lawful.gt_lt {α : Type} {c : α → α → Ordering} (h : Lawful c) (a b : α) : c a b = .gt ↔ c b a = .lt :=
  (h.swap b a).symm

theorem Lawful.eq_symm {α : Type} {c : α → α → Ordering} (h : Lawful c) {a b : α} (he : c a b = .eq) : c b a = .eq := by
  rw [h.eq a b he]; exact h.refl b

theorem lawful_lex {α β : Type} {c1 : α → α → Ordering} {c2 : β → β → Ordering}
    (h1 : Lawful c1) (h2 : Lawful c2) : Lawful (lexCmp c1 c2) := by
  refine ⟨?_, ?_, ?_, ?_⟩
  · intro a; simp [lexCmp, h1.refl, h2.refl]
  · rintro ⟨a1, a2⟩ ⟨b1, b2⟩ h
    simp only [lexCmp] at h
    cases h1c : c1 a1 b1 with
    | lt => simp [h1c] at h
    | gt => simp [h1c] at h
    | eq =>
      simp only [h1c] at h
      rw [h1.eq _ _ h1c, h2.eq _ _ h]
  · rintro ⟨a1, a2⟩ ⟨b1, b2⟩
    simp only [lexCmp]
    cases h1c : c1 a1 b1 with
    | lt => simp [(h1.swap a1 b1).mp h1c]
    | gt => simp [(h1.gt_lt a1 b1).mp h1c]
    | eq => simp only [h1.eq_symm h1c]; exact h2.swap a2 b2
  · rintro ⟨a1, a2⟩ ⟨b1, b2⟩ ⟨d1, d2⟩ hab hbd
    simp only [lexCmp] at hab hbd ⊢
    cases h1ab : c1 a1 b1 with
    | gt => simp [h1ab] at hab
    | lt =>
      cases h1bd : c1 b1 d1 with
      | gt => simp [h1bd] at hbd
      | lt => simp [h1.trans _ _ _ h1ab h1bd]
      | eq => rw [← h1.eq _ _ h1bd]; simp [h1ab]
    | eq =>
      have := h1.eq _ _ h1ab
      subst this
      simp only [h1ab] at hab
      cases h1bd : c1 a1 d1 with
      | gt => simp [h1bd] at hbd
      | lt => simp
      | eq =>
        simp only [h1bd] at hbd ⊢
        exact h2.trans _ _ _ hab hbd

def cmpIntO (a b : Int) : Ordering := if a < b then .lt else if b < a then .gt else .eq
def cmpNatO (a b : Nat) : Ordering := if a < b then .lt else if b < a then .gt else .eq

theorem lawful_int : Lawful cmpIntO := by
  refine ⟨?_, ?_, ?_, ?_⟩
  · intro a; simp [cmpIntO]
  · intro a b h
    unfold cmpIntO at h
    split at h
    · simp at h
    · split at h
      · simp at h
      · omega
  · intro a b
    unfold cmpIntO
    by_cases h1 : a < b
    · have : ¬ b < a := by omega
      simp [h1, this]
    · by_cases h2 : b < a <;> simp [h1, h2]
  · intro a b d h1 h2
    unfold cmpIntO at *
    split at h1
    · split at h2
      · have : a < d := by omega
        simp [this]
      · split at h2 <;> simp at h2
    · split at h1 <;> simp at h1

theorem lawful_nat : Lawful cmpNatO := by
  refine ⟨?_, ?_, ?_, ?_⟩
  · intro a; simp [cmpNatO]
  · intro a b h
    unfold cmpNatO at h
    split at h
    · simp at h
    · split at h
      · simp at h
      · omega
  · intro a b
    unfold cmpNatO
    by_cases h1 : a < b
    · have : ¬ b < a := by omega
      simp [h1, this]
    · by_cases h2 : b < a <;> simp [h1, h2]
  · intro a b d h1 h2
    unfold cmpNatO at *
    split at h1
    · split at h2
      · have : a < d := by omega
        simp [this]
      · split at h2 <;> simp at h2
    · split at h1 <;> simp at h1

theorem lawful_bytes : Lawful cmpBytes :=
  ⟨cmpBytes_refl, fun _ _ h => cmpBytes_eq h, cmpBytes_swap, fun _ _ _ h1 h2 => cmpBytes_lt_trans h1 h2⟩

/-- the reversed order is lawful as well (`Chunk.Compare` returns `bytes.Compare` un-negated) -/
theorem lawful_rev {α : Type} {c : α → α → Ordering} (h : Lawful c) : Lawful (fun a b => c b a) :=
  ⟨h.refl, fun a b he => (h.eq b a he).symm, fun a b => h.swap b a, fun a b d h1 h2 => h.trans d b a h2 h1⟩

/-- `some` before `none` -/
def optCmp {α : Type} (c : α → α → Ordering) : Option α → Option α → Ordering
  | none, none => .eq
  | some _, none => .lt
  | none, some _ => .gt
  | some a, some b => c a b

theorem lawful_opt {α : Type} {c : α → α → Ordering} (h : Lawful c) : Lawful (optCmp c) := by
  refine ⟨?_, ?_, ?_, ?_⟩
  · intro a; cases a <;> simp [optCmp, h.refl]
  · intro a b he
    cases a <;> cases b <;> simp_all [optCmp]
    exact h.eq _ _ he
  · intro a b
    cases a <;> cases b <;> simp [optCmp]
    exact h.swap _ _
  · intro a b d h1 h2
    cases a <;> cases b <;> cases d <;> simp_all [optCmp]
    exact h.trans _ _ _ h1 h2

/-- the visible content of a field and of a chunk -/
abbrev FKey := Option (Nat × Bytes)
def fkey (f : Option Field) : FKey := f.map (fun f => (f.ty, f.data))

abbrev CKey := Int × Int × FKey × FKey × FKey × FKey × FKey × FKey
def ckey (c : Chunk) : CKey :=
  (c.mint, c.maxt, fkey c.raw, fkey c.count, fkey c.sum, fkey c.min, fkey c.max, fkey c.counter)

/-- `Chunk.Compare` on keys: smaller type first, then data in *descending* byte order -/
def cmpFKey : FKey → FKey → Ordering := optCmp (lexCmp cmpNatO (fun a b => cmpBytes b a))

theorem lawful_fkey : Lawful cmpFKey := lawful_opt (lawful_lex lawful_nat (lawful_rev lawful_bytes))

def cmpCKey : CKey → CKey → Ordering :=
  lexCmp cmpIntO (lexCmp cmpIntO (lexCmp cmpFKey (lexCmp cmpFKey (lexCmp cmpFKey (lexCmp cmpFKey (lexCmp cmpFKey cmpFKey))))))

theorem lawful_ckey : Lawful cmpCKey :=
  lawful_lex lawful_int (lawful_lex lawful_int (lawful_lex lawful_fkey (lawful_lex lawful_fkey
    (lawful_lex lawful_fkey (lawful_lex lawful_fkey (lawful_lex lawful_fkey lawful_fkey))))))

/-- sign of a `Compare` result as an ordering: positive = "comes first" -/
def signO (x : Int) : Ordering := if x > 0 then .lt else if x = 0 then .eq else .gt

theorem signO_cmpField (f g : Option Field) : signO (cmpField f g) = cmpFKey (fkey f) (fkey g) := by
  cases f with
  | none => cases g <;> simp [cmpField, signO, cmpFKey, optCmp, fkey]
  | some a =>
    cases g with
    | none => simp [cmpField, signO, cmpFKey, optCmp, fkey]
    | some b =>
      simp only [cmpField, cmpFKey, optCmp, fkey, Option.map_some, lexCmp, cmpNatO]
      by_cases h1 : a.ty < b.ty
      · simp [h1, signO]
      · by_cases h2 : a.ty > b.ty
        · have h2' : b.ty < a.ty := h2
          simp [h1, h2, h2', signO]
        · have h2' : ¬ b.ty < a.ty := h2
          simp only [h1, h2, h2', if_false]
          have hsw := cmpBytes_swap a.data b.data
          have hgt := cmpBytes_gt_iff a.data b.data
          cases hc : cmpBytes a.data b.data with
          | lt => simp [signO, hsw.mp hc]
          | gt => simp [signO, hgt.mp hc]
          | eq => simp [signO, cmpBytes_eq_symm hc]

theorem signO_firstNonZero (x : Int) (r : List Int) :
    signO (firstNonZero (x :: r)) = (match signO x with | .eq => signO (firstNonZero r) | o => o) := by
  rw [show firstNonZero (x :: r) = (if x = 0 then firstNonZero r else x) from rfl]
  by_cases hx : x = 0
  · simp [hx, signO]
  · simp only [hx, if_false]
    unfold signO
    by_cases hp : x > 0
    · simp [hp]
    · simp [hp, hx]

theorem signO_cmpChunk (a b : Chunk) : signO (cmpChunk a b) = cmpCKey (ckey a) (ckey b) := by
  unfold cmpChunk cmpCKey ckey
  simp only [lexCmp, cmpIntO]
  by_cases h1 : a.mint < b.mint
  · simp [h1, signO]
  · by_cases h2 : a.mint > b.mint
    · have h2' : b.mint < a.mint := h2
      simp [h1, h2, h2', signO]
    · have h2' : ¬ b.mint < a.mint := h2
      simp only [h1, h2, h2', if_false]
      by_cases h3 : a.maxt < b.maxt
      · simp [h3, signO]
      · by_cases h4 : a.maxt > b.maxt
        · have h4' : b.maxt < a.maxt := h4
          simp [h3, h4, h4', signO]
        · have h4' : ¬ b.maxt < a.maxt := h4
          simp only [h3, h4, h4', if_false]
          simp only [signO_firstNonZero, signO_cmpField]
          have h0 : signO (firstNonZero []) = .eq := by simp [firstNonZero, signO]
          rw [h0]
          cases cmpFKey (fkey a.raw) (fkey b.raw) <;> simp
          cases cmpFKey (fkey a.count) (fkey b.count) <;> simp
          cases cmpFKey (fkey a.sum) (fkey b.sum) <;> simp
          cases cmpFKey (fkey a.min) (fkey b.min) <;> simp
          cases cmpFKey (fkey a.max) (fkey b.max) <;> simp
          cases cmpFKey (fkey a.counter) (fkey b.counter) <;> simp

theorem chunkBefore_iff (a b : Chunk) : chunkBefore a b = true ↔ cmpCKey (ckey a) (ckey b) = .lt := by
  rw [← signO_cmpChunk]
  unfold chunkBefore signO
  by_cases h : cmpChunk a b > 0
  · simp [h]
  · by_cases h0 : cmpChunk a b = 0 <;> simp [h, h0]

/-- `a` does not come after `b` -/
def chunkLe (a b : Chunk) : Prop := cmpCKey (ckey a) (ckey b) ≠ .gt

theorem chunkLe_of_before {a b : Chunk} (h : chunkBefore a b = true) : chunkLe a b := by
  unfold chunkLe; rw [(chunkBefore_iff a b).mp h]; simp

theorem chunkLe_of_not_before {a b : Chunk} (h : chunkBefore a b = false) : chunkLe b a := by
  unfold chunkLe
  intro hgt
  have := (lawful_ckey.gt_lt _ _).mp hgt
  rw [(chunkBefore_iff a b).mpr this] at h
  simp at h

theorem chunkLe_trans {a b c : Chunk} (h1 : chunkLe a b) (h2 : chunkLe b c) : chunkLe a c := by
  unfold chunkLe at *
  cases hab : cmpCKey (ckey a) (ckey b) with
  | gt => exact absurd hab h1
  | eq => rw [lawful_ckey.eq _ _ hab]; exact h2
  | lt =>
    cases hbc : cmpCKey (ckey b) (ckey c) with
    | gt => exact absurd hbc h2
    | eq => rw [← lawful_ckey.eq _ _ hbc, hab]; simp
    | lt => rw [lawful_ckey.trans _ _ _ hab hbc]; simp

theorem ckey_eq_of_le_le {a b : Chunk} (h1 : chunkLe a b) (h2 : chunkLe b a) : ckey a = ckey b := by
  unfold chunkLe at *
  cases hab : cmpCKey (ckey a) (ckey b) with
  | gt => exact absurd hab h1
  | eq => exact lawful_ckey.eq _ _ hab
  | lt => exact absurd ((lawful_ckey.swap _ _).mp hab) h2

theorem insertChunk_sortedFull (c : Chunk) : ∀ l : List Chunk, l.Pairwise chunkLe →
    (insertChunk c l).Pairwise chunkLe
  | [], _ => by simp [insertChunk]
  | d :: r, h => by
    unfold insertChunk
    have hd := List.pairwise_cons.mp h
    cases hb : chunkBefore d c with
    | true =>
      simp only [if_true]
      refine List.pairwise_cons.mpr ⟨?_, insertChunk_sortedFull c r hd.2⟩
      intro x hx
      have := (insertChunk_perm c r).subset hx
      simp only [List.mem_cons] at this
      rcases this with rfl | hx'
      · exact chunkLe_of_before hb
      · exact hd.1 x hx'
    | false =>
      simp only [Bool.false_eq_true, if_false]
      have hcd := chunkLe_of_not_before hb
      refine List.pairwise_cons.mpr ⟨?_, h⟩
      intro x hx
      simp only [List.mem_cons] at hx
      rcases hx with rfl | hx
      · exact hcd
      · exact chunkLe_trans hcd (hd.1 x hx)

theorem sortChunks_sortedFull : ∀ l : List Chunk, (sortChunks l).Pairwise chunkLe
  | [] => by simp [sortChunks]
  | c :: r => by
    have ih := sortChunks_sortedFull r
    simp only [sortChunks, List.foldr_cons] at ih ⊢
    exact insertChunk_sortedFull c _ ih

/-- two duplicate-free lists sorted by `chunkLe` with the same members, whose members are told apart
    by their visible content, are equal -/
theorem sorted_unique : ∀ (l1 l2 : List Chunk), l1.Pairwise chunkLe → l2.Pairwise chunkLe →
    l1.Nodup → l2.Nodup → (∀ c, c ∈ l1 ↔ c ∈ l2) →
    (∀ c ∈ l1, ∀ d ∈ l1, ckey c = ckey d → c = d) → l1 = l2
  | [], [], _, _, _, _, _, _ => rfl
  | [], b :: l2, _, _, _, _, hm, _ => by have := (hm b).mpr (by simp); simp at this
  | a :: l1, [], _, _, _, _, hm, _ => by have := (hm a).mp (by simp); simp at this
  | a :: l1, b :: l2, h1, h2, n1, n2, hm, hk => by
    have h1c := List.pairwise_cons.mp h1
    have h2c := List.pairwise_cons.mp h2
    have n1c := List.nodup_cons.mp n1
    have n2c := List.nodup_cons.mp n2
    -- the heads are both minimal, hence equal
    have hab : a = b := by
      have ha2 : a ∈ b :: l2 := (hm a).mp (by simp)
      have hb1 : b ∈ a :: l1 := (hm b).mpr (by simp)
      simp only [List.mem_cons] at ha2 hb1
      rcases ha2 with h | ha2
      · exact h
      · rcases hb1 with h | hb1
        · exact h.symm
        · have hle1 : chunkLe a b := h1c.1 b hb1
          have hle2 : chunkLe b a := h2c.1 a ha2
          exact hk a (by simp) b (by simp [hb1]) (ckey_eq_of_le_le hle1 hle2)
    subst hab
    congr 1
    apply sorted_unique l1 l2 h1c.2 h2c.2 n1c.2 n2c.2
    · intro c
      constructor
      · intro hc
        have := (hm c).mp (List.mem_cons_of_mem _ hc)
        simp only [List.mem_cons] at this
        rcases this with rfl | h
        · exact absurd hc n1c.1
        · exact h
      · intro hc
        have := (hm c).mpr (List.mem_cons_of_mem _ hc)
        simp only [List.mem_cons] at this
        rcases this with rfl | h
        · exact absurd hc n2c.1
        · exact h
    · intro c hc d hd
      exact hk c (List.mem_cons_of_mem _ hc) d (List.mem_cons_of_mem _ hd)

end Thanos.Merge
