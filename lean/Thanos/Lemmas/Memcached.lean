import Thanos.Model.Memcached
/-
  Helper lemmas for C49: the jump-hash loop for an arbitrary forward-moving step, and the
  association-list grouping of PickServerForKeys.
-/
namespace Thanos.Memcached

/-- the only thing the proofs need from the float step: the candidate moves forward -/
def Forward (step : UInt64 → Int → UInt64 × Int) : Prop := ∀ k b, 0 ≤ b → b < (step k b).2

theorem jumpGo_done (step : UInt64 → Int → UInt64 × Int) (n : Int) (fuel : Nat) (key : UInt64) (b j : Int)
    (h : ¬ j < n) : jumpGo step n fuel key b j = some b := by
  cases fuel <;> simp [jumpGo, h]

theorem jumpGo_step (step : UInt64 → Int → UInt64 × Int) (n : Int) (fuel : Nat) (key : UInt64) (b j : Int)
    (h : j < n) : jumpGo step n (fuel + 1) key b j = jumpGo step n fuel (step key j).1 j (step key j).2 := by
  simp [jumpGo, h]

/-- with enough fuel the loop ends in a bucket `r` with `b ≤ r < n`, and `j ≤ r` when it runs at all -/
theorem jumpGo_range (step : UInt64 → Int → UInt64 × Int) (hs : Forward step) (n : Int) :
    ∀ (fuel : Nat) (key : UInt64) (b j : Int), 0 ≤ j → b < j → b < n → (n - j).toNat ≤ fuel →
      ∃ r, jumpGo step n fuel key b j = some r ∧ b ≤ r ∧ r < n ∧ (j < n → j ≤ r) := by
  intro fuel
  induction fuel with
  | zero =>
    intro key b j hj hbj hb hf
    have : ¬ j < n := by omega
    exact ⟨b, jumpGo_done step n 0 key b j this, Int.le_refl _, hb, fun h => absurd h this⟩
  | succ f ih =>
    intro key b j hj hbj hb hf
    by_cases hlt : j < n
    · rw [jumpGo_step step n f key b j hlt]
      have hfwd := hs key j hj
      obtain ⟨r, hr, h1, h2, _⟩ := ih (step key j).1 j (step key j).2 (by omega) hfwd hlt (by omega)
      exact ⟨r, hr, by omega, h2, fun _ => h1⟩
    · exact ⟨b, jumpGo_done step n _ key b j hlt, Int.le_refl _, hb, fun h => absurd h hlt⟩

/-- what the longer loop does once the shorter one has stopped (`¬ j < n`) -/
theorem jumpGo_succ_tail (step : UInt64 → Int → UInt64 × Int) (hs : Forward step) (n : Int)
    (fuel' : Nat) (key : UInt64) (b j : Int) (hj : 0 ≤ j) (hge : ¬ j < n)
    (hf' : (n + 1 - j).toNat ≤ fuel') :
    ∃ r', jumpGo step (n + 1) fuel' key b j = some r' ∧ (r' = b ∨ r' = n) := by
  by_cases hjn : j < n + 1
  · -- j = n : the longer loop takes one more turn and stops in bucket n
    have hjn' : j = n := by omega
    cases fuel' with
    | zero => omega
    | succ f' =>
      have hfwd := hs key j hj
      refine ⟨j, ?_, Or.inr hjn'⟩
      rw [jumpGo_step step (n + 1) f' key b j hjn]
      exact jumpGo_done step (n + 1) f' _ j _ (by omega)
  · exact ⟨b, jumpGo_done step (n + 1) fuel' key b j hjn, Or.inl rfl⟩

/-- one more bucket: the result is unchanged or is the new bucket -/
theorem jumpGo_succ (step : UInt64 → Int → UInt64 × Int) (hs : Forward step) (n : Int) :
    ∀ (fuel fuel' : Nat) (key : UInt64) (b j : Int), 0 ≤ j → b < n →
      (n - j).toNat ≤ fuel → (n + 1 - j).toNat ≤ fuel' →
      ∃ r r', jumpGo step n fuel key b j = some r ∧ jumpGo step (n + 1) fuel' key b j = some r' ∧
        (r' = r ∨ r' = n) := by
  intro fuel
  induction fuel with
  | zero =>
    intro fuel' key b j hj hb hf hf'
    have hge : ¬ j < n := by omega
    obtain ⟨r', h1, h2⟩ := jumpGo_succ_tail step hs n fuel' key b j hj hge hf'
    exact ⟨b, r', jumpGo_done step n 0 key b j hge, h1, h2⟩
  | succ f ih =>
    intro fuel' key b j hj hb hf hf'
    by_cases hlt : j < n
    · cases fuel' with
      | zero => omega
      | succ f' =>
        have hfwd := hs key j hj
        rw [jumpGo_step step n f key b j hlt, jumpGo_step step (n + 1) f' key b j (by omega)]
        exact ih f' (step key j).1 j (step key j).2 (by omega) hlt (by omega) (by omega)
    · obtain ⟨r', h1, h2⟩ := jumpGo_succ_tail step hs n fuel' key b j hj hlt hf'
      exact ⟨b, r', jumpGo_done step n _ key b j hlt, h1, h2⟩

/-! ### grouping -/

/-- the key list stored under `s` (first entry with that name) -/
def lookup (m : List (String × List κ)) (s : String) : List κ :=
  match m with
  | [] => []
  | (s', ks) :: rest => if s' == s then ks else lookup rest s

theorem lookup_addKey (m : List (String × List κ)) (s s' : String) (k : κ) :
    lookup (addKey m s k) s' = if s = s' then lookup m s' ++ [k] else lookup m s' := by
  induction m with
  | nil =>
    by_cases h : s = s' <;> simp [addKey, lookup, h]
  | cons e rest ih =>
    obtain ⟨t, ks⟩ := e
    by_cases hts : t = s
    · subst hts
      by_cases h : t = s' <;> simp [addKey, lookup, h]
    · by_cases hts' : t = s'
      · subst hts'
        simp [addKey, lookup, hts]
        intro h; exact absurd h.symm hts
      · simp [addKey, lookup, hts, hts', ih]

theorem keys_addKey (m : List (String × List κ)) (s : String) (k : κ) :
    (addKey m s k).map (·.1) = if s ∈ m.map (·.1) then m.map (·.1) else m.map (·.1) ++ [s] := by
  induction m with
  | nil => simp [addKey]
  | cons e rest ih =>
    obtain ⟨t, ks⟩ := e
    by_cases hts : t = s
    · subst hts; simp [addKey]
    · have hst : ¬ s = t := fun h => hts h.symm
      simp only [addKey, beq_iff_eq, hts, if_false, List.map_cons, ih, List.mem_cons, hst, false_or]
      by_cases hm : s ∈ rest.map (·.1) <;> simp [hm]

theorem nodup_addKey (m : List (String × List κ)) (s : String) (k : κ) (h : (m.map (·.1)).Nodup) :
    ((addKey m s k).map (·.1)).Nodup := by
  rw [keys_addKey]
  by_cases hm : s ∈ m.map (·.1)
  · simp [hm, h]
  · simp only [hm, if_false]
    rw [List.nodup_append]
    refine ⟨h, by simp, ?_⟩
    intro a ha b hb
    simp at hb
    subst hb
    intro hab; subst hab; exact hm ha

theorem lookup_of_mem (m : List (String × List κ)) (h : (m.map (·.1)).Nodup) (s : String) (ks : List κ)
    (hm : (s, ks) ∈ m) : lookup m s = ks := by
  induction m with
  | nil => simp at hm
  | cons e rest ih =>
    obtain ⟨t, l⟩ := e
    simp only [List.map_cons, List.nodup_cons] at h
    rcases List.mem_cons.mp hm with heq | hm'
    · cases heq; simp [lookup]
    · have hts : ¬ t = s := by
        intro hts; subst hts
        exact h.1 (List.mem_map.mpr ⟨(t, ks), hm', rfl⟩)
      simp [lookup, hts, ih h.2 hm']

theorem mem_of_lookup_ne_nil (m : List (String × List κ)) (s : String) (h : lookup m s ≠ []) :
    (s, lookup m s) ∈ m := by
  induction m with
  | nil => simp [lookup] at h
  | cons e rest ih =>
    obtain ⟨t, l⟩ := e
    by_cases hts : t = s
    · subst hts; simp [lookup]
    · simp only [lookup, beq_iff_eq, hts, if_false] at h ⊢
      exact List.mem_cons_of_mem _ (ih h)

theorem groupFold_spec (pick : κ → Option String) (keys : List κ) :
    ∀ (acc : List (String × List κ)), (acc.map (·.1)).Nodup →
      let m := keys.foldl (fun m k => match pick k with | some s => addKey m s k | none => m) acc
      (m.map (·.1)).Nodup ∧ ∀ s, lookup m s = lookup acc s ++ keys.filter (fun k => pick k == some s) := by
  induction keys with
  | nil => intro acc h; simp [h]
  | cons k ks ih =>
    intro acc h
    simp only [List.foldl_cons]
    cases hp : pick k with
    | none =>
      obtain ⟨h1, h2⟩ := ih acc h
      refine ⟨h1, fun s => ?_⟩
      rw [h2 s]
      simp [List.filter_cons, hp]
    | some t =>
      obtain ⟨h1, h2⟩ := ih (addKey acc t k) (nodup_addKey acc t k h)
      refine ⟨h1, fun s => ?_⟩
      rw [h2 s, lookup_addKey]
      by_cases hts : t = s
      · subst hts; simp [List.filter_cons, hp]
      · simp [List.filter_cons, hp, hts]

end Thanos.Memcached
