import Thanos.Model.Shipper
import Thanos.Lemmas.Bucket
/-
  Helper lemmas for C35: the world of a local TSDB directory, uploads only add objects,
  a successful `block.Upload` applied all its calls.
-/
namespace Thanos.Shipper
open Thanos.Bucket

/-- the (immutable) files of the local block with number `n` -/
def worldOf (locals : List LBlock) (n : Nat) : Block :=
  match locals.find? (·.id = n) with
  | some b => b.files
  | none => ⟨[], 0⟩

/-- local blocks have distinct ULIDs and well-formed directories -/
def LocalsOK (locals : List LBlock) : Prop :=
  (locals.map (·.id)).Nodup ∧ ∀ b ∈ locals, WFBlock b.files

theorem worldOf_mem : ∀ {locals : List LBlock}, (locals.map (·.id)).Nodup → ∀ {b : LBlock}, b ∈ locals →
    worldOf locals b.id = b.files
  | [], _, _, hb => by simp at hb
  | x :: rest, hn, b, hb => by
    simp only [List.map_cons, List.nodup_cons, List.mem_map, not_exists, not_and] at hn
    unfold worldOf
    rcases List.mem_cons.mp hb with rfl | hb'
    · simp [List.find?]
    · have hne : x.id ≠ b.id := fun e => hn.1 b hb' e.symm
      simp only [List.find?, hne, decide_false]
      exact worldOf_mem (locals := rest) hn.2 hb'

theorem wf_empty_block : WFBlock ⟨[], 0⟩ := by
  refine ⟨?_, ?_⟩
  · intro f a c h1 h2
    simp [Block.files] at h1 h2
    rw [h1.2, h2.2]
  · intro f sz h
    simp [Block.files] at h
    rw [h.1]
    decide

theorem wf_worldOf {locals : List LBlock} (h : LocalsOK locals) : WF (worldOf locals) := by
  intro n
  unfold worldOf
  cases hf : locals.find? (·.id = n) with
  | none => exact wf_empty_block
  | some b => exact h.2 b (List.mem_of_find?_eq_some hf)

-- ---------------------------------------------------------------- the interpreter under faults

theorem fault_none_hit : Fault.none.hit = false := by decide
theorem fault_none_pass : Fault.none.pass = Fault.none := by decide
theorem fault_none_passMut : Fault.none.passMut = Fault.none := by decide

/-- without a fault every call of a script reaches the bucket -/
theorem execF_none : ∀ (sc : List Call) (s : Bucket),
    execF Fault.none sc s = (⟨true, muts sc, applyAll s (muts sc)⟩, Fault.none)
  | [], s => by simp [execF, muts, applyAll]
  | .rd :: cs, s => by simp [execF, muts, fault_none_hit, fault_none_pass, execF_none cs s]
  | .mu op :: cs, s => by
    simp [execF, muts, fault_none_hit, fault_none_passMut, execF_none cs (apply s op), applyAll_cons]
  | .muIgn op :: cs, s => by
    simp [execF, muts, fault_none_hit, fault_none_passMut, execF_none cs (apply s op), applyAll_cons]

/-- a script of calls whose failure is ignored: some of them reach the bucket, in order -/
theorem execF_muIgn : ∀ (ops : List Op) (f : Fault) (s : Bucket),
    (execF f (ops.map .muIgn) s).1.bkt = applyAll s (execF f (ops.map .muIgn) s).1.trace ∧
    (∀ op ∈ (execF f (ops.map .muIgn) s).1.trace, op ∈ ops) ∧
    (execF f (ops.map .muIgn) s).1.trace.length ≤ ops.length ∧
    ((execF f (ops.map .muIgn) s).1.trace.length = ops.length → (execF f (ops.map .muIgn) s).1.trace = ops)
  | [], f, s => by simp [execF, applyAll]
  | op :: ops, f, s => by
    simp only [List.map_cons, execF]
    split
    · obtain ⟨h1, h2, h3, _⟩ := execF_muIgn ops f.afterHit s
      refine ⟨h1, fun o ho => List.mem_cons_of_mem _ (h2 o ho), by simp only [List.length_cons]; omega, ?_⟩
      intro e
      simp only [List.length_cons] at e
      omega
    · obtain ⟨h1, h2, h3, h4⟩ := execF_muIgn ops f.passMut (apply s op)
      refine ⟨by simp [applyAll_cons, h1], ?_, by simp only [List.length_cons]; omega, ?_⟩
      · intro o ho
        rcases List.mem_cons.mp ho with rfl | ho'
        · simp
        · exact List.mem_cons_of_mem _ (h2 o ho')
      · intro e
        simp only [List.length_cons, Nat.add_right_cancel_iff] at e
        rw [h4 e]

/-- a script of calls whose failure aborts: a prefix reaches the bucket; all of it if ok -/
theorem execF_mu : ∀ (ops : List Op) (f : Fault) (s : Bucket),
    ∃ k, (execF f (ops.map .mu) s).1.trace = ops.take k ∧
      (execF f (ops.map .mu) s).1.bkt = applyAll s (ops.take k) ∧
      ((execF f (ops.map .mu) s).1.ok = true → (execF f (ops.map .mu) s).1.trace = ops) ∧
      ((execF f (ops.map .mu) s).1.trace.length = ops.length → (execF f (ops.map .mu) s).1.ok = true)
  | [], f, s => ⟨0, by simp [execF, applyAll]⟩
  | op :: ops, f, s => by
    simp only [List.map_cons, execF]
    split
    · exact ⟨0, by simp [applyAll]⟩
    · obtain ⟨k, h1, h2, h3, h4⟩ := execF_mu ops f.passMut (apply s op)
      refine ⟨k + 1, by simp [h1], by simp [applyAll_cons, h2], ?_, ?_⟩
      · intro hok
        simp only at hok
        rw [h3 hok]
      · intro hl
        simp only [List.length_cons, Nat.add_right_cancel_iff] at hl
        exact h4 hl

-- ---------------------------------------------------------------- block.Upload under faults

def chunkPuts (n : Nat) (b : Block) : List Op := b.chunks.map fun p => Op.put (n, p.1) (.data p.2)
def tailPuts (n : Nat) (b : Block) : List Op :=
  [.put (n, indexName) (.data b.index), .put (n, metaName) b.metaObj]

theorem chunkCalls_eq (n : Nat) (b : Block) : chunkCalls n b = (chunkPuts n b).map .muIgn := by
  simp [chunkCalls, chunkPuts, List.map_map, Function.comp_def]
theorem tailCalls_eq (n : Nat) (b : Block) : tailCalls n b = (tailPuts n b).map .mu := by
  simp [tailCalls, tailPuts]

theorem chunkPuts_data {n : Nat} {b : Block} {op : Op} (h : op ∈ chunkPuts n b) :
    ∃ f sz, op = .put (n, f) (.data sz) ∧ (f, sz) ∈ b.files := by
  obtain ⟨p, hp, rfl⟩ := List.mem_map.mp h
  exact ⟨p.1, p.2, rfl, by simp [Block.files, hp]⟩

/-- what a run of `block.Upload` under any fault amounts to: some of the chunk puts, then — only
    if ALL chunk puts went through — a prefix of [index, meta.json] -/
theorem uploadF_shape (f : Fault) (n : Nat) (b : Block) (s : Bucket) :
    ∃ t1 t2, (uploadF f n b s).1.bkt = applyAll (applyAll s t1) t2 ∧
      (uploadF f n b s).1.trace = t1 ++ t2 ∧
      (∀ op ∈ t1, op ∈ chunkPuts n b) ∧
      ((t2 = [] ∧ ((uploadF f n b s).1.ok = true → False)) ∨
       (t1 = chunkPuts n b ∧ ∃ k, t2 = (tailPuts n b).take k ∧
          ((uploadF f n b s).1.ok = true → t2 = tailPuts n b) ∧
          (t2 = tailPuts n b → (uploadF f n b s).1.ok = true))) := by
  unfold uploadF
  simp only [chunkCalls_eq, tailCalls_eq]
  obtain ⟨h1, h2, h3, h4⟩ := execF_muIgn (chunkPuts n b) f s
  split
  · refine ⟨_, [], by simpa [applyAll] using h1, by simp, h2, Or.inl ⟨rfl, by simp⟩⟩
  · rename_i hlen
    have hfull : (execF f ((chunkPuts n b).map .muIgn) s).1.trace = chunkPuts n b := by
      apply h4
      have : (chunkPuts n b).length = b.chunks.length := by simp [chunkPuts]
      omega
    obtain ⟨k, k1, k2, k3, k4⟩ := execF_mu (tailPuts n b) (execF f ((chunkPuts n b).map .muIgn) s).2
      (execF f ((chunkPuts n b).map .muIgn) s).1.bkt
    refine ⟨_, (tailPuts n b).take k, ?_, by simp [k1], h2, Or.inr ⟨hfull, k, rfl, ?_, ?_⟩⟩
    · rw [k2, h1]
    · intro hok
      simp only at hok
      rw [← k1]; exact k3 hok
    · intro hfull2
      simp only
      apply k4
      rw [k1, hfull2]

theorem uploadF_isPut (f : Fault) (n : Nat) (b : Block) (s : Bucket) :
    ∃ ops, (uploadF f n b s).1.bkt = applyAll s ops ∧ ∀ op ∈ ops, ∃ g o, op = .put (n, g) o := by
  obtain ⟨t1, t2, hb, _, h1, h2⟩ := uploadF_shape f n b s
  refine ⟨t1 ++ t2, by rw [hb, applyAll_append], ?_⟩
  intro op hop
  rcases List.mem_append.mp hop with h | h
  · obtain ⟨g, sz, e, _⟩ := chunkPuts_data (h1 op h); exact ⟨g, _, e⟩
  · have hsub : op ∈ tailPuts n b := by
      rcases h2 with ⟨e, _⟩ | ⟨_, k, e, _⟩
      · rw [e] at h; simp at h
      · rw [e] at h; exact List.mem_of_mem_take h
    simp only [tailPuts, List.mem_cons, List.mem_nil_iff, or_false] at hsub
    rcases hsub with rfl | rfl <;> exact ⟨_, _, rfl⟩

/-- an upload (whatever fails) never removes an object -/
theorem upload_keeps (f : Fault) (n : Nat) (b : Block) (s : Bucket) (key : Key)
    (h : (get s key).isSome = true) : (get (uploadF f n b s).1.bkt key).isSome = true := by
  obtain ⟨ops, hb, hp⟩ := uploadF_isPut f n b s
  rw [hb]
  exact present_applyAll_puts ops s (fun op hop => by obtain ⟨g, o, rfl⟩ := hp op hop; trivial) key h

theorem upload_ok_visible (f : Fault) (n : Nat) (b : Block) (s : Bucket)
    (h : (uploadF f n b s).1.ok = true) : Visible (uploadF f n b s).1.bkt n := by
  obtain ⟨t1, t2, hb, _, _, h2⟩ := uploadF_shape f n b s
  rcases h2 with ⟨_, hf⟩ | ⟨_, k, _, hk, _⟩
  · exact absurd h (fun h => hf h)
  · rw [hb, hk h]
    simp only [tailPuts, applyAll_cons, applyAll_nil, apply, Visible, get_put]
    simp

/-- `block.Upload` keeps the C28 invariant under any fault (crash or transient) -/
theorem good_uploadF {w : Nat → Block} (hw : WF w) (f : Fault) (n : Nat) (s : Bucket) (hs : Good w s) :
    Good w (uploadF f n (w n) s).1.bkt := by
  obtain ⟨t1, t2, hb, _, h1, h2⟩ := uploadF_shape f n (w n) s
  rw [hb]
  have hd1 : ∀ op ∈ t1, ∃ m g sz, op = .put (m, g) (.data sz) ∧ (g, sz) ∈ (w m).files := by
    intro op hop
    obtain ⟨g, sz, e, hf⟩ := chunkPuts_data (h1 op hop)
    exact ⟨n, g, sz, e, hf⟩
  have hg1 : Good w (applyAll s t1) := good_all hw t1 s hs (safeRun_dataPuts t1 s hd1)
  rcases h2 with ⟨e, _⟩ | ⟨e1, k, e2, _, _⟩
  · rw [e]; simpa [applyAll] using hg1
  · rw [e2]
    apply good_prefix hw _ _ hg1
    refine ⟨.putData n indexName (w n).index (by simp [Block.files]), ?_, trivial⟩
    refine .putMeta n false (fun g sz hg => ?_)
    simp only [Block.files, List.mem_append, List.mem_singleton] at hg
    rcases hg with hg | hg
    · apply present_apply_put (by trivial)
      rw [e1]
      exact present_after_puts _ s (fun op hop => by
        obtain ⟨g', sz', e, _⟩ := chunkPuts_data hop
        subst e; trivial) (n, g) (.data sz) (List.mem_map.mpr ⟨(g, sz), hg, rfl⟩)
    · cases hg
      simp [apply, get_put]

theorem get_applyAll_puts_ne : ∀ (ops : List Op) (s : Bucket) (key : Key),
    (∀ op ∈ ops, ∃ k o, op = .put k o ∧ k ≠ key) → get (applyAll s ops) key = get s key
  | [], s, _, _ => rfl
  | op :: ops, s, key, h => by
    obtain ⟨k, o, rfl, hne⟩ := h op (by simp)
    rw [applyAll_cons, get_applyAll_puts_ne ops _ key (fun op hop => h op (List.mem_cons_of_mem _ hop))]
    simp only [apply, get_put]
    have : ¬ key = k := fun e => hne e.symm
    simp [this]

/-- an upload of block `n` does not touch the objects of any other block -/
theorem uploadF_other (f : Fault) (n : Nat) (b : Block) (s : Bucket) (m : Nat) (g : String) (hm : m ≠ n) :
    get (uploadF f n b s).1.bkt (m, g) = get s (m, g) := by
  obtain ⟨ops, hb, hp⟩ := uploadF_isPut f n b s
  rw [hb]
  apply get_applyAll_puts_ne
  intro op hop
  obtain ⟨g', o, rfl⟩ := hp op hop
  exact ⟨_, _, rfl, fun e => hm (by cases e; rfl)⟩

/-- an upload that FAILED did not make the block visible (meta.json is the last call) -/
theorem uploadF_fail_invisible (f : Fault) (n : Nat) (b : Block) (s : Bucket)
    (hnames : ∀ p ∈ b.chunks, p.1 ≠ metaName) (hinv : ¬ Visible s n)
    (hfail : (uploadF f n b s).1.ok = false) : ¬ Visible (uploadF f n b s).1.bkt n := by
  obtain ⟨t1, t2, hb, _, h1, h2⟩ := uploadF_shape f n b s
  have hchunks : ∀ op ∈ t1, ∃ k o, op = Op.put k o ∧ k ≠ (n, metaName) := by
    intro op hop
    obtain ⟨p, hp, rfl⟩ := List.mem_map.mp (h1 op hop)
    exact ⟨_, _, rfl, fun e => hnames p hp (Prod.mk.inj e).2⟩
  have ht2 : ∀ op ∈ t2, ∃ k o, op = Op.put k o ∧ k ≠ (n, metaName) := by
    rcases h2 with ⟨e, _⟩ | ⟨_, k, e, _, hconv⟩
    · rw [e]; intro op hop; simp at hop
    · intro op hop
      have hne : t2 ≠ tailPuts n b := fun e' => by rw [hconv e'] at hfail; cases hfail
      rw [e] at hop hne
      -- a strict prefix of [index, meta] is [] or [index]
      match k, hop, hne with
      | 0, hop, _ => simp at hop
      | 1, hop, _ =>
        simp [tailPuts] at hop
        exact ⟨_, _, hop, by simp [indexName, metaName]⟩
      | k + 2, _, hne => simp [tailPuts] at hne
  unfold Visible at hinv ⊢
  rw [hb, get_applyAll_puts_ne t2 _ _ ht2, get_applyAll_puts_ne t1 _ _ hchunks]
  exact hinv

theorem uploadF_none (n : Nat) (b : Block) (s : Bucket) :
    (uploadF Fault.none n b s).1.ok = true ∧ (uploadF Fault.none n b s).2 = Fault.none := by
  unfold uploadF
  simp only [execF_none]
  have : ¬ (muts (chunkCalls n b)).length < b.chunks.length := by
    simp [chunkCalls_eq, chunkPuts]
    have : ∀ l : List Op, muts (l.map .muIgn) = l := by
      intro l; induction l with
      | nil => rfl
      | cons o l ih => simp [muts, ih]
    rw [show (List.map (Call.muIgn ∘ fun p => Op.put (n, p.1) (Obj.data p.2)) b.chunks) =
      (b.chunks.map fun p => Op.put (n, p.1) (Obj.data p.2)).map .muIgn by simp [List.map_map]]
    rw [this]; simp
  simp [this]

-- ---------------------------------------------------------------- whose objects are in the bucket

/-- every object in the bucket belongs to a local block -/
def KeysLocal (locals : List LBlock) (s : Bucket) : Prop := ∀ p ∈ s, ∃ b ∈ locals, b.id = p.1.1

theorem keysLocal_apply_put {locals : List LBlock} {s : Bucket} (h : KeysLocal locals s) (k : Key) (o : Obj)
    (hk : ∃ b ∈ locals, b.id = k.1) : KeysLocal locals (apply s (.put k o)) := by
  intro p hp
  simp only [apply, put, del, List.mem_cons, List.mem_filter] at hp
  rcases hp with rfl | ⟨hp, _⟩
  · exact hk
  · exact h p hp

theorem keysLocal_applyAll {locals : List LBlock} : ∀ (ops : List Op) (s : Bucket), KeysLocal locals s →
    (∀ op ∈ ops, ∃ k o, op = .put k o ∧ ∃ b ∈ locals, b.id = k.1) → KeysLocal locals (applyAll s ops)
  | [], s, h, _ => by simpa [applyAll] using h
  | op :: ops, s, h, hops => by
    obtain ⟨k, o, rfl, hk⟩ := hops op (by simp)
    rw [applyAll_cons]
    exact keysLocal_applyAll ops _ (keysLocal_apply_put h k o hk) (fun op hop => hops op (List.mem_cons_of_mem _ hop))

theorem keysLocal_upload {locals : List LBlock} {b : LBlock} (hb : b ∈ locals) (f : Fault) (s : Bucket)
    (h : KeysLocal locals s) : KeysLocal locals (uploadF f b.id b.files s).1.bkt := by
  obtain ⟨ops, hbk, hp⟩ := uploadF_isPut f b.id b.files s
  rw [hbk]
  apply keysLocal_applyAll ops s h
  intro op hop
  obtain ⟨g, o, rfl⟩ := hp op hop
  exact ⟨_, _, rfl, b, hb, rfl⟩

theorem mem_dirsOf : ∀ {s : Bucket} {n : Nat}, n ∈ dirsOf s → ∃ p ∈ s, p.1.1 = n
  | [], n, h => by simp [dirsOf] at h
  | ((m, f), o) :: s, n, h => by
    simp only [dirsOf, List.mem_cons, List.mem_filter] at h
    rcases h with rfl | ⟨h, _⟩
    · exact ⟨_, List.mem_cons_self, rfl⟩
    · obtain ⟨p, hp, e⟩ := mem_dirsOf h
      exact ⟨p, List.mem_cons_of_mem _ hp, e⟩

/-- ranges that all belong to local blocks -/
def LocalRanges (locals : List LBlock) (rs : List (Int × Int)) : Prop :=
  ∀ r ∈ rs, ∃ b ∈ locals, (b.minT, b.maxT) = r

/-- no two different local blocks overlap in time -/
def NoOverlap (locals : List LBlock) : Prop :=
  ∀ a ∈ locals, ∀ b ∈ locals, (a.minT, a.maxT) ≠ (b.minT, b.maxT) → ¬ (a.minT ≤ b.minT ∧ b.minT < a.maxT)

theorem not_overlapping_of_local {locals : List LBlock} (hno : NoOverlap locals) {rs : List (Int × Int)}
    (h : LocalRanges locals rs) : overlapping rs = false := by
  simp only [overlapping, List.any_eq_false, List.any_eq_true, decide_eq_true_eq, not_exists, not_and]
  intro a ha b hb hne
  obtain ⟨ba, hba, ea⟩ := h a ha
  obtain ⟨bb, hbb, eb⟩ := h b hb
  have := hno ba hba bb hbb (by rw [ea, eb]; exact hne)
  rw [← ea, ← eb]
  simpa using this

theorem rangeOf_local {locals : List LBlock} {n : Nat} (h : ∃ b ∈ locals, b.id = n) :
    ∃ r, rangeOf locals n = some r ∧ ∃ b ∈ locals, (b.minT, b.maxT) = r := by
  obtain ⟨b, hb, e⟩ := h
  unfold rangeOf
  cases hf : locals.find? (·.id = n) with
  | none =>
    have := List.find?_eq_none.mp hf b hb
    simp [e] at this
  | some b' => exact ⟨_, rfl, b', List.mem_of_find?_eq_some hf, rfl⟩

theorem collectRanges_some {locals : List LBlock} (s : Bucket) : ∀ (ns : List Nat),
    (∀ n ∈ ns, (get s (n, metaName)).isSome = true ∧ ∃ b ∈ locals, b.id = n) →
    ∃ rs, collectRanges locals s ns = some rs ∧ LocalRanges locals rs
  | [], _ => ⟨[], rfl, by intro r hr; simp at hr⟩
  | n :: ns, h => by
    obtain ⟨hm, hl⟩ := h n (by simp)
    obtain ⟨r, hr, hrl⟩ := rangeOf_local hl
    obtain ⟨rs, hrs, hrsl⟩ := collectRanges_some s ns (fun m hm' => h m (List.mem_cons_of_mem _ hm'))
    refine ⟨r :: rs, by simp [collectRanges, hm, hr, hrs], ?_⟩
    intro x hx
    rcases List.mem_cons.mp hx with rfl | hx'
    · exact hrl
    · exact hrsl x hx'

/-- the repaired lazy sync of the overlap checker always succeeds on a bucket that holds only
    objects of local blocks, and yields ranges of local blocks -/
theorem checkerSync_some {locals : List LBlock} {s : Bucket} (hk : KeysLocal locals s) :
    ∃ rs, checkerSyncWith true locals s = some rs ∧ LocalRanges locals rs := by
  unfold checkerSyncWith
  apply collectRanges_some
  intro n hn
  simp only [Bool.not_true, Bool.false_or, List.mem_filter] at hn
  refine ⟨hn.2, ?_⟩
  obtain ⟨p, hp, e⟩ := mem_dirsOf hn.1
  obtain ⟨b, hb, e'⟩ := hk p hp
  exact ⟨b, hb, by rw [e', e]⟩

theorem checkerSyncL_some {locals : List LBlock} {s : Bucket} {lbl : List (Nat × Nat)} {cur : Nat}
    (hk : KeysLocal locals s) : ∃ rs, checkerSyncL locals s lbl cur = some rs ∧ LocalRanges locals rs := by
  obtain ⟨rs0, h0, _⟩ := checkerSync_some hk
  unfold checkerSyncL
  simp only [codeSkipPartial, h0]
  apply collectRanges_some
  intro n hn
  simp only [Bool.not_true, Bool.false_or, List.mem_filter, Bool.and_eq_true] at hn
  refine ⟨hn.2.1, ?_⟩
  obtain ⟨p, hp, e⟩ := mem_dirsOf hn.1
  obtain ⟨b, hb, e'⟩ := hk p hp
  exact ⟨b, hb, by rw [e', e]⟩

end Thanos.Shipper
