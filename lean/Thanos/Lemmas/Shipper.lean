import Thanos.Model.Shipper
import Thanos.Lemmas.Bucket
/-
  Helper lemmas for C35: the world of a local TSDB directory, uploads only add objects,
  a successful `block.Upload` applied all its calls.
-/
namespace Thanos.Shipper
open Thanos.Bucket

/-- the (immutable) files of the local block with number `n` -/
def worldOf (locals : List LBlock) (n : Nat) : Block :=
  match locals.find? (·.id = n) with
  | some b => b.files
  | none => ⟨[], 0⟩

/-- local blocks have distinct ULIDs and well-formed directories -/
def LocalsOK (locals : List LBlock) : Prop :=
  (locals.map (·.id)).Nodup ∧ ∀ b ∈ locals, WFBlock b.files

theorem worldOf_mem : ∀ {locals : List LBlock}, (locals.map (·.id)).Nodup → ∀ {b : LBlock}, b ∈ locals →
    worldOf locals b.id = b.files
  | [], _, _, hb => by simp at hb
  | x :: rest, hn, b, hb => by
    simp only [List.map_cons, List.nodup_cons, List.mem_map, not_exists, not_and] at hn
    unfold worldOf
    rcases List.mem_cons.mp hb with rfl | hb'
    · simp [List.find?]
    · have hne : x.id ≠ b.id := fun e => hn.1 b hb' e.symm
      simp only [List.find?, hne, decide_false]
      exact worldOf_mem (locals := rest) hn.2 hb'

theorem wf_empty_block : WFBlock ⟨[], 0⟩ := by
  refine ⟨?_, ?_⟩
  · intro f a c h1 h2
    simp [Block.files] at h1 h2
    rw [h1.2, h2.2]
  · intro f sz h
    simp [Block.files] at h
    rw [h.1]
    decide

theorem wf_worldOf {locals : List LBlock} (h : LocalsOK locals) : WF (worldOf locals) := by
  intro n
  unfold worldOf
  cases hf : locals.find? (·.id = n) with
  | none => exact wf_empty_block
  | some b => exact h.2 b (List.mem_of_find?_eq_some hf)

theorem uploadOps_isPut (order : List String) (n : Nat) (b : Block) : ∀ op ∈ uploadOps order n b, IsPut op := by
  intro op hop
  obtain ⟨ph, _, hin⟩ := List.mem_flatMap.mp hop
  unfold phaseOps at hin
  split at hin
  · obtain ⟨p, _, rfl⟩ := List.mem_map.mp hin; trivial
  · simp at hin; subst hin; trivial
  · simp at hin; subst hin; trivial
  · simp at hin

theorem muts_uploadScript (order : List String) (n : Nat) (b : Block) :
    muts (uploadScript order n b) = uploadOps order n b := by
  unfold uploadScript
  induction uploadOps order n b with
  | nil => rfl
  | cons op ops ih => simp [muts, ih]

/-- an upload (crashed anywhere or not) never removes an object -/
theorem upload_keeps (order : List String) (n : Nat) (b : Block) (k : Option Nat) (s : Bucket) (key : Key)
    (h : (get s key).isSome = true) : (get (exec k (uploadScript order n b) s).bkt key).isSome = true := by
  obtain ⟨j, hj⟩ := exec_bkt k (uploadScript order n b) s
  rw [hj, muts_uploadScript]
  exact present_applyAll_puts _ s (fun op hop => uploadOps_isPut order n b op (List.mem_of_mem_take hop)) key h

/-- a script of `.mu` calls only that returns ok has applied all of them -/
theorem exec_ok_all : ∀ (ops : List Op) (k : Option Nat) (s : Bucket),
    (exec k (ops.map .mu) s).ok = true → (exec k (ops.map .mu) s).bkt = applyAll s ops
  | [], _, s, _ => by simp [exec, applyAll]
  | op :: ops, k, s, h => by
    simp only [List.map_cons, exec] at h ⊢
    split at h
    · simp at h
    · rename_i hc
      simp only [hc] at h ⊢
      simp only [Bool.false_eq_true, if_false, applyAll_cons]
      exact exec_ok_all ops (dec k) (apply s op) h

theorem upload_ok_visible (n : Nat) (b : Block) (k : Option Nat) (s : Bucket)
    (h : (exec k (uploadScript codeUploadOrder n b) s).ok = true) :
    Visible (exec k (uploadScript codeUploadOrder n b) s).bkt n := by
  unfold uploadScript at h ⊢
  rw [exec_ok_all _ k s h]
  exact present_after_puts _ s (uploadOps_isPut _ n b) (n, metaName) b.metaObj (by
    simp [uploadOps, codeUploadOrder, phaseOps])

end Thanos.Shipper
