import Thanos.Model.Shipper
import Thanos.Lemmas.Bucket
/-
  Helper lemmas for C35: the world of a local TSDB directory, uploads only add objects,
  a successful `block.Upload` applied all its calls.
-/
namespace Thanos.Shipper
open Thanos.Bucket

/-- the (immutable) files of the local block with number `n` -/
def worldOf (locals : List LBlock) (n : Nat) : Block :=
  match locals.find? (·.id = n) with
  | some b => b.files
  | none => ⟨[], 0⟩

/-- local blocks have distinct ULIDs and well-formed directories -/
def LocalsOK (locals : List LBlock) : Prop :=
  (locals.map (·.id)).Nodup ∧ ∀ b ∈ locals, WFBlock b.files

theorem worldOf_mem : ∀ {locals : List LBlock}, (locals.map (·.id)).Nodup → ∀ {b : LBlock}, b ∈ locals →
    worldOf locals b.id = b.files
  | [], _, _, hb => by simp at hb
  | x :: rest, hn, b, hb => by
    simp only [List.map_cons, List.nodup_cons, List.mem_map, not_exists, not_and] at hn
    unfold worldOf
    rcases List.mem_cons.mp hb with rfl | hb'
    · simp [List.find?]
    · have hne : x.id ≠ b.id := fun e => hn.1 b hb' e.symm
      simp only [List.find?, hne, decide_false]
      exact worldOf_mem (locals := rest) hn.2 hb'

theorem wf_empty_block : WFBlock ⟨[], 0⟩ := by
  refine ⟨?_, ?_⟩
  · intro f a c h1 h2
    simp [Block.files] at h1 h2
    rw [h1.2, h2.2]
  · intro f sz h
    simp [Block.files] at h
    rw [h.1]
    decide

theorem wf_worldOf {locals : List LBlock} (h : LocalsOK locals) : WF (worldOf locals) := by
  intro n
  unfold worldOf
  cases hf : locals.find? (·.id = n) with
  | none => exact wf_empty_block
  | some b => exact h.2 b (List.mem_of_find?_eq_some hf)

theorem uploadOps_isPut (order : List String) (n : Nat) (b : Block) : ∀ op ∈ uploadOps order n b, IsPut op := by
  intro op hop
  obtain ⟨ph, _, hin⟩ := List.mem_flatMap.mp hop
  unfold phaseOps at hin
  split at hin
  · obtain ⟨p, _, rfl⟩ := List.mem_map.mp hin; trivial
  · simp at hin; subst hin; trivial
  · simp at hin; subst hin; trivial
  · simp at hin

theorem muts_uploadScript (order : List String) (n : Nat) (b : Block) :
    muts (uploadScript order n b) = uploadOps order n b := by
  unfold uploadScript
  induction uploadOps order n b with
  | nil => rfl
  | cons op ops ih => simp [muts, ih]

/-- an upload (crashed anywhere or not) never removes an object -/
theorem upload_keeps (order : List String) (n : Nat) (b : Block) (k : Option Nat) (s : Bucket) (key : Key)
    (h : (get s key).isSome = true) : (get (exec k (uploadScript order n b) s).bkt key).isSome = true := by
  obtain ⟨j, hj⟩ := exec_bkt k (uploadScript order n b) s
  rw [hj, muts_uploadScript]
  exact present_applyAll_puts _ s (fun op hop => uploadOps_isPut order n b op (List.mem_of_mem_take hop)) key h

/-- a script of `.mu` calls only that returns ok has applied all of them -/
theorem exec_ok_all : ∀ (ops : List Op) (k : Option Nat) (s : Bucket),
    (exec k (ops.map .mu) s).ok = true → (exec k (ops.map .mu) s).bkt = applyAll s ops
  | [], _, s, _ => by simp [exec, applyAll]
  | op :: ops, k, s, h => by
    simp only [List.map_cons, exec] at h ⊢
    split at h
    · simp at h
    · rename_i hc
      simp only [hc] at h ⊢
      simp only [Bool.false_eq_true, if_false, applyAll_cons]
      exact exec_ok_all ops (dec k) (apply s op) h

theorem upload_ok_visible (n : Nat) (b : Block) (k : Option Nat) (s : Bucket)
    (h : (exec k (uploadScript codeUploadOrder n b) s).ok = true) :
    Visible (exec k (uploadScript codeUploadOrder n b) s).bkt n := by
  unfold uploadScript at h ⊢
  rw [exec_ok_all _ k s h]
  exact present_after_puts _ s (uploadOps_isPut _ n b) (n, metaName) b.metaObj (by
    simp [uploadOps, codeUploadOrder, phaseOps])

-- ---------------------------------------------------------------- whose objects are in the bucket

/-- every object in the bucket belongs to a local block -/
def KeysLocal (locals : List LBlock) (s : Bucket) : Prop := ∀ p ∈ s, ∃ b ∈ locals, b.id = p.1.1

theorem keysLocal_apply_put {locals : List LBlock} {s : Bucket} (h : KeysLocal locals s) (k : Key) (o : Obj)
    (hk : ∃ b ∈ locals, b.id = k.1) : KeysLocal locals (apply s (.put k o)) := by
  intro p hp
  simp only [apply, put, del, List.mem_cons, List.mem_filter] at hp
  rcases hp with rfl | ⟨hp, _⟩
  · exact hk
  · exact h p hp

theorem keysLocal_applyAll {locals : List LBlock} : ∀ (ops : List Op) (s : Bucket), KeysLocal locals s →
    (∀ op ∈ ops, ∃ k o, op = .put k o ∧ ∃ b ∈ locals, b.id = k.1) → KeysLocal locals (applyAll s ops)
  | [], s, h, _ => by simpa [applyAll] using h
  | op :: ops, s, h, hops => by
    obtain ⟨k, o, rfl, hk⟩ := hops op (by simp)
    rw [applyAll_cons]
    exact keysLocal_applyAll ops _ (keysLocal_apply_put h k o hk) (fun op hop => hops op (List.mem_cons_of_mem _ hop))

theorem uploadOps_keys (order : List String) (n : Nat) (b : Block) :
    ∀ op ∈ uploadOps order n b, ∃ f o, op = .put (n, f) o := by
  intro op hop
  obtain ⟨ph, _, hin⟩ := List.mem_flatMap.mp hop
  unfold phaseOps at hin
  split at hin
  · obtain ⟨p, _, rfl⟩ := List.mem_map.mp hin; exact ⟨_, _, rfl⟩
  · simp at hin; subst hin; exact ⟨_, _, rfl⟩
  · simp at hin; subst hin; exact ⟨_, _, rfl⟩
  · simp at hin

theorem keysLocal_upload {locals : List LBlock} {b : LBlock} (hb : b ∈ locals) (k : Option Nat) (s : Bucket)
    (h : KeysLocal locals s) : KeysLocal locals (exec k (uploadScript codeUploadOrder b.id b.files) s).bkt := by
  obtain ⟨j, hj⟩ := exec_bkt k (uploadScript codeUploadOrder b.id b.files) s
  rw [hj, muts_uploadScript]
  apply keysLocal_applyAll _ s h
  intro op hop
  obtain ⟨f, o, rfl⟩ := uploadOps_keys _ _ _ op (List.mem_of_mem_take hop)
  exact ⟨_, _, rfl, b, hb, rfl⟩

theorem mem_dirsOf : ∀ {s : Bucket} {n : Nat}, n ∈ dirsOf s → ∃ p ∈ s, p.1.1 = n
  | [], n, h => by simp [dirsOf] at h
  | ((m, f), o) :: s, n, h => by
    simp only [dirsOf, List.mem_cons, List.mem_filter] at h
    rcases h with rfl | ⟨h, _⟩
    · exact ⟨_, List.mem_cons_self, rfl⟩
    · obtain ⟨p, hp, e⟩ := mem_dirsOf h
      exact ⟨p, List.mem_cons_of_mem _ hp, e⟩

/-- ranges that all belong to local blocks -/
def LocalRanges (locals : List LBlock) (rs : List (Int × Int)) : Prop :=
  ∀ r ∈ rs, ∃ b ∈ locals, (b.minT, b.maxT) = r

/-- no two different local blocks overlap in time -/
def NoOverlap (locals : List LBlock) : Prop :=
  ∀ a ∈ locals, ∀ b ∈ locals, (a.minT, a.maxT) ≠ (b.minT, b.maxT) → ¬ (a.minT ≤ b.minT ∧ b.minT < a.maxT)

theorem not_overlapping_of_local {locals : List LBlock} (hno : NoOverlap locals) {rs : List (Int × Int)}
    (h : LocalRanges locals rs) : overlapping rs = false := by
  simp only [overlapping, List.any_eq_false, List.any_eq_true, decide_eq_true_eq, not_exists, not_and]
  intro a ha b hb hne
  obtain ⟨ba, hba, ea⟩ := h a ha
  obtain ⟨bb, hbb, eb⟩ := h b hb
  have := hno ba hba bb hbb (by rw [ea, eb]; exact hne)
  rw [← ea, ← eb]
  simpa using this

theorem rangeOf_local {locals : List LBlock} {n : Nat} (h : ∃ b ∈ locals, b.id = n) :
    ∃ r, rangeOf locals n = some r ∧ ∃ b ∈ locals, (b.minT, b.maxT) = r := by
  obtain ⟨b, hb, e⟩ := h
  unfold rangeOf
  cases hf : locals.find? (·.id = n) with
  | none =>
    have := List.find?_eq_none.mp hf b hb
    simp [e] at this
  | some b' => exact ⟨_, rfl, b', List.mem_of_find?_eq_some hf, rfl⟩

theorem collectRanges_some {locals : List LBlock} (s : Bucket) : ∀ (ns : List Nat),
    (∀ n ∈ ns, (get s (n, metaName)).isSome = true ∧ ∃ b ∈ locals, b.id = n) →
    ∃ rs, collectRanges locals s ns = some rs ∧ LocalRanges locals rs
  | [], _ => ⟨[], rfl, by intro r hr; simp at hr⟩
  | n :: ns, h => by
    obtain ⟨hm, hl⟩ := h n (by simp)
    obtain ⟨r, hr, hrl⟩ := rangeOf_local hl
    obtain ⟨rs, hrs, hrsl⟩ := collectRanges_some s ns (fun m hm' => h m (List.mem_cons_of_mem _ hm'))
    refine ⟨r :: rs, by simp [collectRanges, hm, hr, hrs], ?_⟩
    intro x hx
    rcases List.mem_cons.mp hx with rfl | hx'
    · exact hrl
    · exact hrsl x hx'

/-- the repaired lazy sync of the overlap checker always succeeds on a bucket that holds only
    objects of local blocks, and yields ranges of local blocks -/
theorem checkerSync_some {locals : List LBlock} {s : Bucket} (hk : KeysLocal locals s) :
    ∃ rs, checkerSyncWith true locals s = some rs ∧ LocalRanges locals rs := by
  unfold checkerSyncWith
  apply collectRanges_some
  intro n hn
  simp only [Bool.not_true, Bool.false_or, List.mem_filter] at hn
  refine ⟨hn.2, ?_⟩
  obtain ⟨p, hp, e⟩ := mem_dirsOf hn.1
  obtain ⟨b, hb, e'⟩ := hk p hp
  exact ⟨b, hb, by rw [e', e]⟩

end Thanos.Shipper
