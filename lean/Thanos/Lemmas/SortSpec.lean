import Thanos.Model.Merge
import Thanos.Lemmas.Order
import Thanos.Lemmas.Proxy
import Thanos.Lemmas.DedupOnce
import Thanos.Lemmas.KMerge
/-
  `sortWithoutLabels` (Go's insertion sort with the comparator `sortLess`) puts the non-series
  responses in front and sorts the series by labels, whatever the input order; the lazy receiver
  keeps the order of the store.
-/
namespace Thanos.Merge

theorem frameLe_trans {a b c : Frame} (h1 : frameLe a b) (h2 : frameLe b c) : frameLe a c := by
  cases a <;> cases b <;> cases c <;> simp_all [frameLe]
  exact lblLe_trans h1 h2

theorem frameLe_of_sortLess {x p : Frame} (h : sortLess x p = true) : frameLe x p := by
  cases x <;> cases p <;> simp_all [frameLe, sortLess, lblLe]

theorem frameLe_of_not_sortLess {x p : Frame} (h : sortLess x p = false) : frameLe p x := by
  cases x <;> cases p <;> simp_all [frameLe, sortLess]
  rename_i a b
  -- ¬ (a < b)  ⇒  b ≤ a
  unfold lblLe
  intro hgt
  exact h ((cmpLabels_swap a.lbls b.lbls).mpr hgt)

theorem insLoop_sorted (x : Frame) : ∀ (rp passed : List Frame),
    rp.reverse.Pairwise frameLe → passed.Pairwise frameLe →
    (∀ a ∈ rp, ∀ b ∈ passed, frameLe a b) → (∀ b ∈ passed, frameLe x b) →
    (insLoop x rp passed).Pairwise frameLe
  | [], passed, _, hp, _, hx => by
    unfold insLoop
    exact List.pairwise_cons.mpr ⟨hx, hp⟩
  | p :: ps, passed, hr, hp, hrp, hx => by
    unfold insLoop
    simp only [List.reverse_cons] at hr
    have hr' := List.pairwise_append.mp hr
    cases hs : sortLess x p with
    | true =>
      simp only [if_true]
      apply insLoop_sorted x ps (p :: passed) hr'.1
      · exact List.pairwise_cons.mpr ⟨fun b hb => hrp p (by simp) b hb, hp⟩
      · intro a ha b hb
        simp only [List.mem_cons] at hb
        rcases hb with rfl | hb
        · exact hr'.2.2 a (by simpa using ha) b (by simp)
        · exact hrp a (List.mem_cons_of_mem _ ha) b hb
      · intro b hb
        simp only [List.mem_cons] at hb
        rcases hb with rfl | hb
        · exact frameLe_of_sortLess hs
        · exact hx b hb
    | false =>
      simp only [Bool.false_eq_true, if_false, List.reverse_cons]
      have hpx := frameLe_of_not_sortLess hs
      rw [List.pairwise_append]
      refine ⟨hr, List.pairwise_cons.mpr ⟨hx, hp⟩, ?_⟩
      intro a ha b hb
      have hap : frameLe a x := by
        simp only [List.mem_append, List.mem_reverse, List.mem_singleton] at ha
        rcases ha with ha | rfl
        · exact frameLe_trans (hr'.2.2 a (by simpa using ha) p (by simp)) hpx
        · exact hpx
      simp only [List.mem_cons] at hb
      rcases hb with rfl | hb
      · exact hap
      · exact frameLe_trans hap (hx b hb)

theorem goInsertionSort_sorted (fs : List Frame) : (goInsertionSort fs).Pairwise frameLe := by
  unfold goInsertionSort
  suffices h : ∀ (l pre : List Frame), pre.Pairwise frameLe →
      (l.foldl (fun pre x => insLoop x pre.reverse []) pre).Pairwise frameLe from h fs [] List.Pairwise.nil
  intro l
  induction l with
  | nil => intro pre h; exact h
  | cons x r ih =>
    intro pre h
    simp only [List.foldl_cons]
    apply ih
    apply insLoop_sorted x pre.reverse []
    · simpa using h
    · exact List.Pairwise.nil
    · intro a _ b hb; simp at hb
    · intro b hb; simp at hb

theorem sortedSeries_of_frameLe : ∀ (l : List Frame), l.Pairwise frameLe → SortedSeries l
  | [], _ => by simp [SortedSeries, seriesOf]
  | x :: r, h => by
    have hc := List.pairwise_cons.mp h
    have ih := sortedSeries_of_frameLe r hc.2
    cases x with
    | series e =>
      unfold SortedSeries at ih ⊢
      rw [seriesOf_cons_series]
      refine List.pairwise_cons.mpr ⟨?_, ih⟩
      intro o ho
      have := hc.1 _ (mem_seriesOf.mp ho)
      simpa [frameLe] using this
    | warning m => simpa [SortedSeries, seriesOf] using ih
    | hints m => simpa [SortedSeries, seriesOf] using ih
    | batch b => simpa [SortedSeries, seriesOf] using ih

/-- **`sortWithoutLabels`.**  After the re-sort the series of a store are label-sorted (with the
    replica labels removed), whatever order the store sent them in. -/
theorem sortWithoutLabels_sorted (fs : List Frame) (names : List Bytes) :
    SortedSeries (sortWithoutLabels fs names) :=
  sortedSeries_of_frameLe _ (goInsertionSort_sorted _)

/-- the series a store sends, batches unpacked, in the order it sends them -/
def storeSeries (fs : List (Frame × Bool)) : List Series :=
  fs.flatMap (fun p => match p.1 with | .series s => [s] | .batch ss => ss | _ => [])

theorem seriesOf_map_series (ss : List Series) : seriesOf (ss.map Frame.series) = ss := by
  induction ss with
  | nil => rfl
  | cons a r ih => rw [List.map_cons, seriesOf_cons_series, ih]

theorem recvLoop_sublist (ap : Bool) (st : Store) : ∀ (fs : List (Frame × Bool)) (i : Nat),
    (seriesOf (recvLoop ap st i fs)).Sublist (storeSeries fs)
  | [], i => by
    unfold recvLoop failAt
    split
    · simp [seriesOf, storeSeries]
    · split <;> simp [seriesOf, storeSeries]
  | (g, keep) :: rest, i => by
    unfold recvLoop
    have ih := recvLoop_sublist ap st rest (i + 1)
    cases hfa : failAt st i with
    | some w =>
      have hw : seriesOf [w] = [] := by
        unfold failAt at hfa
        split at hfa
        · simp at hfa; subst hfa; rfl
        · split at hfa
          · simp at hfa; subst hfa; rfl
          · simp at hfa
      simp only [hw]
      exact List.nil_sublist _
    | none =>
      simp only
      cases g with
      | series s =>
        simp only [storeSeries, List.flatMap_cons, List.singleton_append]
        split
        · exact List.Sublist.cons _ ih
        · rw [seriesOf_cons_series]; exact List.Sublist.cons₂ _ ih
      | batch bs =>
        simp only [storeSeries, List.flatMap_cons]
        rw [seriesOf_append, seriesOf_map_series]
        exact List.Sublist.append (List.Sublist.refl _) ih
      | warning m =>
        have hst : storeSeries ((Frame.warning m, keep) :: rest) = storeSeries rest := by
          simp [storeSeries]
        rw [hst]
        simpa [seriesOf] using ih
      | hints m =>
        have hst : storeSeries ((Frame.hints m, keep) :: rest) = storeSeries rest := by
          simp [storeSeries]
        rw [hst]
        simpa [seriesOf] using ih

/-- a store is read in the order it sends (lazy retrieval, no re-sort needed) -/
def ReadInOrder (rq : Request) (st : Store) : Bool :=
  rq.lazy && !(!st.supportsWithout && !rq.without.isEmpty)

/-- what reaches the merge from one store has label-sorted series: for a store read in order
    because the store sends them sorted (hypothesis = the StoreAPI contract), for every other store
    because `sortWithoutLabels` sorts -/
theorem respSet_sorted (rq : Request) (st : Store)
    (h : ReadInOrder rq st = true → (storeSeries st.frames).Pairwise (fun a b => lblLe a.lbls b.lbls)) :
    StreamSorted (respSet rq.lazy rq.sharded rq.without st) := by
  unfold respSet
  simp only
  split
  · rename_i hl
    unfold StreamSorted SortedSeries
    exact (h (by simpa [ReadInOrder] using hl)).sublist (recvLoop_sublist _ st st.frames 0)
  · exact sortWithoutLabels_sorted _ _

end Thanos.Merge
