import Thanos.Model.CachingBucketOps
import Thanos.Lemmas.BucketKey
/-
  Honest caches keyed by key strings: what an entry may say, and why a lookup by the key string
  of one item can only return that item's value (key injectivity).
-/
namespace Thanos.CachingBucket
open Thanos.CacheKeys

/-- what the wrapped bucket says about the item a key stands for -/
def truth (w : World) (k : BucketKey) : Option Val :=
  match k.verb with
  | .subrange => (w.obj k.name).map fun b => .bytes (slice b k.start k.stop)
  | .content => (w.obj k.name).map .bytes
  | .exists_ => some (.flag (w.obj k.name).isSome)
  | .attrs => (w.obj k.name).map fun b => .size b.length
  | .iter => some (.names (w.list k.name false))
  | .iterRecursive => some (.names (w.list k.name true))

/-- every entry is the truth about the (well-formed) key it is stored under -/
def HonestK (w : World) (c : KCache) : Prop :=
  ∀ ks v, (ks, v) ∈ c → ∃ k, WFB w.hash k ∧ ks = bucketKeyString k ∧ truth w k = some v

/-- a Fetch returns part of what is stored -/
def SubViewK (c : KCache) (view : Str → Option Val) : Prop :=
  ∀ ks v, view ks = some v → (ks, v) ∈ c

theorem honestK_nil (w : World) : HonestK w [] := by
  intro ks v h; simp at h

theorem honestK_append {w : World} {c d : KCache} (hc : HonestK w c) (hd : HonestK w d) : HonestK w (c ++ d) := by
  intro ks v h
  rcases List.mem_append.mp h with h | h
  · exact hc ks v h
  · exact hd ks v h

/-- what comes back for the key of an item is the truth about THAT item -/
theorem view_truth {w : World} {c : KCache} {view : Str → Option Val} (hc : HonestK w c)
    (hv : SubViewK c view) (k : BucketKey) (wk : WFB w.hash k) (v : Val)
    (h : view (bucketKeyString k) = some v) : truth w k = some v := by
  obtain ⟨k', wk', hks, ht⟩ := hc _ _ (hv _ _ h)
  have := bucketKey_inj w.hash k k' wk wk' hks
  rw [this]; exact ht

theorem asBytes_some {o : Option Val} {b : Bytes} (h : asBytes o = some b) : o = some (.bytes b) := by
  cases o with
  | none => simp [asBytes] at h
  | some v => cases v <;> simp_all [asBytes]

theorem asFlag_some {o : Option Val} {b : Bool} (h : asFlag o = some b) : o = some (.flag b) := by
  cases o with
  | none => simp [asFlag] at h
  | some v => cases v <;> simp_all [asFlag]

theorem asSize_some {o : Option Val} {n : Nat} (h : asSize o = some n) : o = some (.size n) := by
  cases o with
  | none => simp [asSize] at h
  | some v => cases v <;> simp_all [asSize]

theorem asNames_some {o : Option Val} {l : List Str} (h : asNames o = some l) : o = some (.names l) := by
  cases o with
  | none => simp [asNames] at h
  | some v => cases v <;> simp_all [asNames]

theorem wfb_plain (H : Str) (verb : Verb) (name : Str) (h1 : verb ≠ .subrange) (h2 : verb ≠ .iter)
    (h3 : verb ≠ .iterRecursive) : WFB H ⟨verb, name, 0, 0, []⟩ :=
  ⟨fun h => absurd h h1, fun _ => ⟨rfl, rfl⟩, ⟨fun h => by rcases h with h | h <;> simp_all, fun _ => rfl⟩⟩

theorem wfb_subrange (H : Str) (name : Str) (a e : Nat) (h : a < e) : WFB H ⟨.subrange, name, a, e, []⟩ := by
  refine ⟨fun _ => h, fun h' => absurd rfl h', ?_, fun _ => rfl⟩
  intro h'
  rcases h' with h' | h' <;> simp at h'

theorem wfb_iter (H : Str) (dir : Str) (recursive : Bool) :
    WFB H ⟨if recursive then .iterRecursive else .iter, dir, 0, 0, H⟩ := by
  cases recursive <;> exact ⟨by simp, fun _ => ⟨rfl, rfl⟩, ⟨fun _ => rfl, by simp⟩⟩

end Thanos.CachingBucket
