import Thanos.Model.CompactProto
/-
  Helper lemmas about the compactor / store-gateway protocol model (C34, C29):
  the order of the duplicate filter, coverage of the filter chain, list plumbing.
-/
namespace Thanos.CompactProto

/-! ### `covers` and `beats` -/

theorem covers_iff (u c : Blk) : covers u c = true ↔ ∀ x ∈ c.sources, x ∈ u.sources := by
  simp [covers, List.all_eq_true]

theorem covers_refl (b : Blk) : covers b b = true := (covers_iff b b).mpr (fun _ h => h)

theorem covers_trans {a b c : Blk} (h1 : covers a b = true) (h2 : covers b c = true) : covers a c = true := by
  rw [covers_iff] at *
  exact fun x hx => h1 x (h2 x hx)

theorem beats_irrefl (lt : Bool) (b : Blk) : beats lt b b = false := by
  cases lt <;> simp [beats]

theorem beats_trans (lt : Bool) {a b c : Blk} (h1 : beats lt a b = true) (h2 : beats lt b c = true) :
    beats lt a c = true := by
  cases lt <;>
    simp only [beats, Bool.or_eq_true, Bool.and_eq_true, decide_eq_true_eq, beq_iff_eq, if_true,
      Bool.false_eq_true, if_false] at * <;> omega

theorem length_le_of_nodup_subset : ∀ {l₁ l₂ : List Nat}, l₁.Nodup → l₁ ⊆ l₂ → l₁.length ≤ l₂.length
  | [], _, _, _ => by simp
  | a :: l₁, l₂, hnd, hsub => by
    have hnd' := List.nodup_cons.mp hnd
    have ha : a ∈ l₂ := hsub (by simp)
    have hsub' : l₁ ⊆ l₂.erase a := by
      intro x hx
      have hxa : x ≠ a := fun h => hnd'.1 (h ▸ hx)
      exact (List.mem_erase_of_ne hxa).mpr (hsub (List.mem_cons_of_mem _ hx))
    have ih := length_le_of_nodup_subset hnd'.2 hsub'
    have hl := List.length_erase_of_mem ha
    have hpos : 0 < l₂.length := List.length_pos_of_mem ha
    simp only [List.length_cons]
    omega

/-- a compaction result beats each of its sources in the repaired order: it has all their sources
    (so at least as many, sources being duplicate-free) and a higher level -/
theorem beats_of_covers_level {r b : Blk} (hnd : b.sources.Nodup) (hc : covers r b = true)
    (hl : r.level > b.level) : beats true r b = true := by
  have hsub : b.sources ⊆ r.sources := fun x hx => (covers_iff r b).mp hc x hx
  have hlen : b.sources.length ≤ r.sources.length := length_le_of_nodup_subset hnd hsub
  simp only [beats, Bool.or_eq_true, Bool.and_eq_true, decide_eq_true_eq, beq_iff_eq, if_true]
  omega

/-! ### marks do not matter for `covers` / `beats` -/

@[simp] theorem covers_mark_left (u c : Blk) (m : Option Nat) : covers { u with mark := m } c = covers u c := rfl
@[simp] theorem covers_mark_right (u c : Blk) (m : Option Nat) : covers u { c with mark := m } = covers u c := rfl
@[simp] theorem beats_mark_left (lt : Bool) (u c : Blk) (m : Option Nat) :
    beats lt { u with mark := m } c = beats lt u c := rfl
@[simp] theorem beats_mark_right (lt : Bool) (u c : Blk) (m : Option Nat) :
    beats lt u { c with mark := m } = beats lt u c := rfl

/-! ### the duplicate filter keeps a cover of everything it is given -/

theorem countP_lt_of_imp {α : Type} (p q : α → Bool) : ∀ (l : List α) (u : α),
    (∀ w ∈ l, p w = true → q w = true) → u ∈ l → q u = true → p u = false → l.countP p < l.countP q
  | [], u, _, hu, _, _ => by simp at hu
  | a :: l, u, himp, hu, hq, hp => by
    have hmono : l.countP p ≤ l.countP q :=
      List.countP_mono_left (fun w hw h => himp w (List.mem_cons_of_mem _ hw) h)
    rcases List.mem_cons.mp hu with rfl | hu'
    · simp [hq, hp]; omega
    · have ih := countP_lt_of_imp p q l u (fun w hw => himp w (List.mem_cons_of_mem _ hw)) hu' hq hp
      have ha := himp a (by simp)
      simp only [List.countP_cons]
      cases hpa : p a <;> cases hqa : q a <;> simp <;> first | omega | (simp [hpa, hqa] at ha)

theorem hiddenIn_iff (lt : Bool) (V : List Blk) (c : Blk) :
    hiddenIn lt V c = true ↔ ∃ u ∈ V, beats lt u c = true ∧ covers u c = true := by
  simp [hiddenIn, List.any_eq_true]

/-- every block of a view is covered by a block of the view that the duplicate filter keeps -/
theorem exists_unhidden (lt : Bool) (V : List Blk) : ∀ (n : Nat) (c : Blk), c ∈ V →
    V.countP (fun w => beats lt w c) ≤ n →
    ∃ k ∈ V, hiddenIn lt V k = false ∧ covers k c = true
  | n, c, hc, hn => by
    by_cases hh : hiddenIn lt V c = true
    · obtain ⟨u, hu, hb, hcv⟩ := (hiddenIn_iff lt V c).mp hh
      have hlt : V.countP (fun w => beats lt w u) < V.countP (fun w => beats lt w c) :=
        countP_lt_of_imp _ _ V u (fun w _ hw => beats_trans lt hw hb) hu hb (beats_irrefl lt u)
      match n with
      | 0 => omega
      | n + 1 =>
        obtain ⟨k, hk, hkh, hkc⟩ := exists_unhidden lt V n u hu (by omega)
        exact ⟨k, hk, hkh, covers_trans hkc hcv⟩
    · exact ⟨c, hc, by simpa using hh, covers_refl c⟩

theorem mem_filterChain (lt : Bool) (delay now : Nat) (blocks : List Blk) (k : Blk) :
    k ∈ filterChain lt delay now blocks ↔
      (k ∈ blocks ∧ markOk delay now k = true) ∧ hiddenIn lt (markView delay now blocks) k = false := by
  simp only [filterChain, markView, List.mem_filter, Bool.not_eq_true']

theorem mem_duplicates (lt : Bool) (delay now : Nat) (blocks : List Blk) (k : Blk) :
    k ∈ duplicates lt delay now blocks ↔
      (k ∈ blocks ∧ markOk delay now k = true) ∧ hiddenIn lt (markView delay now blocks) k = true := by
  simp only [duplicates, markView, List.mem_filter]

/-- the filter chain covers every block that passes the mark filter -/
theorem filterChain_covers (lt : Bool) (delay now : Nat) (blocks : List Blk) (c : Blk)
    (hc : c ∈ blocks) (hm : markOk delay now c = true) :
    ∃ k ∈ filterChain lt delay now blocks, covers k c = true := by
  have hcV : c ∈ markView delay now blocks := by simp [markView, List.mem_filter, hc, hm]
  obtain ⟨k, hk, hkh, hkc⟩ := exists_unhidden lt (markView delay now blocks) _ c hcV (Nat.le_refl _)
  refine ⟨k, ?_, hkc⟩
  have : k ∈ blocks ∧ markOk delay now k = true := by simpa [markView, List.mem_filter] using hk
  exact (mem_filterChain lt delay now blocks k).mpr ⟨this, hkh⟩

/-! ### list plumbing -/

theorem eq_of_id_eq : ∀ {bs : List Blk}, bs.Pairwise (fun a b => a.id ≠ b.id) →
    ∀ {a b : Blk}, a ∈ bs → b ∈ bs → a.id = b.id → a = b
  | [], _, _, _, ha, _, _ => by simp at ha
  | c :: bs, hp, a, b, ha, hb, hid => by
    have hp' := List.pairwise_cons.mp hp
    rcases List.mem_cons.mp ha with rfl | ha' <;> rcases List.mem_cons.mp hb with rfl | hb'
    · rfl
    · exact absurd hid (hp'.1 b hb')
    · exact absurd hid.symm (hp'.1 a ha')
    · exact eq_of_id_eq hp'.2 ha' hb' hid

theorem findBlk_some {bs : List Blk} {i : Nat} {b : Blk} (h : findBlk bs i = some b) : b ∈ bs ∧ b.id = i := by
  unfold findBlk at h
  exact ⟨List.mem_of_find?_eq_some h, by simpa using List.find?_some h⟩

theorem mem_setMark {i t : Nat} {bs : List Blk} {c' : Blk} :
    c' ∈ setMark i t bs ↔ ∃ c ∈ bs, c' = (if c.id = i then { c with mark := some t } else c) := by
  simp [setMark, List.mem_map, eq_comm]

theorem setMark_id_pairwise {i t : Nat} {bs : List Blk} (h : bs.Pairwise (fun a b => a.id ≠ b.id)) :
    (setMark i t bs).Pairwise (fun a b => a.id ≠ b.id) := by
  unfold setMark
  rw [List.pairwise_map]
  refine h.imp ?_
  intro a b hab
  by_cases ha : a.id = i <;> by_cases hb : b.id = i <;> simp [ha, hb] <;> first | exact hab | omega

/-! ### sources -/

theorem mem_insertSrc {x y : Nat} : ∀ {l : List Nat}, y ∈ insertSrc x l ↔ y = x ∨ y ∈ l
  | [] => by simp [insertSrc]
  | z :: l => by
    unfold insertSrc
    by_cases h1 : x < z
    · simp [h1]
    · by_cases h2 : x = z
      · subst h2; simp
      · simp only [h1, h2, if_false, List.mem_cons, mem_insertSrc (l := l)]
        constructor
        · rintro (h | h | h) <;> simp [h]
        · rintro (h | h | h) <;> simp [h]

theorem mem_unionSrc {y : Nat} : ∀ {a b : List Nat}, y ∈ unionSrc a b ↔ y ∈ a ∨ y ∈ b
  | [], b => by simp [unionSrc]
  | x :: a, b => by
    have ih := mem_unionSrc (y := y) (a := a) (b := insertSrc x b)
    simp only [unionSrc, List.foldl_cons] at ih ⊢
    rw [ih, mem_insertSrc]
    simp only [List.mem_cons]
    constructor
    · rintro (h | h | h) <;> simp [h]
    · rintro ((h | h) | h) <;> simp [h]

theorem mem_foldl_union {y : Nat} : ∀ {bs : List Blk} {acc : List Nat},
    y ∈ bs.foldl (fun acc b => unionSrc b.sources acc) acc ↔ y ∈ acc ∨ ∃ b ∈ bs, y ∈ b.sources
  | [], acc => by simp
  | b :: bs, acc => by
    simp only [List.foldl_cons]
    rw [mem_foldl_union (bs := bs), mem_unionSrc]
    simp only [List.mem_cons, exists_eq_or_imp]
    constructor
    · rintro ((h | h) | h) <;> simp [h]
    · rintro (h | h | h) <;> simp [h]

theorem mem_allSources {y : Nat} {bs : List Blk} : y ∈ allSources bs ↔ ∃ b ∈ bs, y ∈ b.sources := by
  simp [allSources, mem_foldl_union]

end Thanos.CompactProto

namespace Thanos.CompactProto

/-! ### equal-size containment, totality of the duplicate filter's order -/

theorem subset_of_nodup_length_le {l₁ l₂ : List Nat} (h1 : l₁.Nodup) (hsub : l₁ ⊆ l₂) (hlen : l₂.length ≤ l₁.length) :
    l₂ ⊆ l₁ := by
  intro z hz
  by_cases hz1 : z ∈ l₁
  · exact hz1
  · exfalso
    have hnd : (z :: l₁).Nodup := List.nodup_cons.mpr ⟨hz1, h1⟩
    have hs : (z :: l₁) ⊆ l₂ := by
      intro y hy
      rcases List.mem_cons.mp hy with rfl | hy
      · exact hz
      · exact hsub hy
    have := length_le_of_nodup_subset hnd hs
    simp only [List.length_cons] at this
    omega

theorem beats_length_le {lt : Bool} {u m : Blk} (h : beats lt u m = false) : u.sources.length ≤ m.sources.length := by
  cases lt <;>
    simp only [beats, Bool.or_eq_false_iff, Bool.and_eq_false_iff, decide_eq_false_iff_not, beq_eq_false_iff_ne,
      if_true, Bool.false_eq_true, if_false] at h <;> omega

theorem beats_total {a b : Blk} (hid : a.id ≠ b.id) (hlen : a.sources.length = b.sources.length) :
    beats true a b = true ∨ beats true b a = true := by
  simp only [beats, Bool.or_eq_true, Bool.and_eq_true, decide_eq_true_eq, beq_iff_eq, if_true]
  omega

/-- a block that covers an unhidden block of a view, without being beaten … has exactly its sources -/
theorem covers_back_of_unbeaten {lt : Bool} {u m : Blk} (hu : u.sources.Nodup) (hm : m.sources.Nodup)
    (hc : covers u m = true) (hb : beats lt u m = false) : covers m u = true := by
  have hsub : m.sources ⊆ u.sources := fun x hx => (covers_iff u m).mp hc x hx
  have hlen := beats_length_le hb
  have := subset_of_nodup_length_le hm hsub hlen
  exact (covers_iff m u).mpr (fun x hx => this hx)

end Thanos.CompactProto
