import Thanos.Model.LoserTree
import Thanos.Lemmas.LoserTreeBase
/-
  Refinement proof of pkg/losertree, part 2: `playGame` / `initialize` establish the tournament
  invariant.
-/
namespace Thanos.LoserTree

open Classical

variable {E : Type} {le : E → E → Prop}

/-- the conditions of `Tourn` for the internal nodes of the subtree rooted at `pos` -/
structure SubTourn (le : E → E → Prop) (t : Tree E) (n pos : Nat) (win : Nat → Nat) : Prop where
  leaf : ∀ p, n ≤ p → win p = p
  node : ∀ p, IsDesc pos p → p < n →
    (win p = win (2 * p) ∧ idx t p = (win (2 * p + 1) : Int)) ∨
    (win p = win (2 * p + 1) ∧ idx t p = (win (2 * p) : Int))
  copy : ∀ p, IsDesc pos p → p < n → val t p = val t (idx t p).toNat
  beat : ∀ p, IsDesc pos p → p < n → le (val t (win p)) (val t p)

theorem SubTourn.toTourn {t : Tree E} {n : Nat} {win : Nat → Nat} (h : SubTourn le t n 1 win) : Tourn le t n win :=
  ⟨h.leaf, fun p hp hn => h.node p (isDesc_root p hp) hn, fun p hp hn => h.copy p (isDesc_root p hp) hn,
   fun p hp hn => h.beat p (isDesc_root p hp) hn⟩

theorem isDesc_trans {a b c : Nat} (h1 : IsDesc a b) (h2 : IsDesc b c) : IsDesc a c := by
  obtain ⟨k, hk⟩ := h1
  obtain ⟨j, hj⟩ := h2
  exact ⟨j + k, by rw [div_pow_add, hj, hk]⟩

theorem isDesc_left (p : Nat) : IsDesc p (2 * p) := ⟨1, by simp⟩
theorem isDesc_right (p : Nat) : IsDesc p (2 * p + 1) := ⟨1, by simp; omega⟩

theorem SubTourn.win_desc {t : Tree E} {n pos : Nat} {win : Nat → Nat} (h : SubTourn le t n pos win)
    (hpos : 1 ≤ pos) :
    ∀ (d p : Nat), IsDesc pos p → 1 ≤ d → p + d = 2 * n → IsDesc p (win p) ∧ n ≤ win p ∧ win p < 2 * n := by
  intro d
  induction d using Nat.strongRecOn with
  | _ d ih =>
    intro p hdp hd1 hd
    have hp : 1 ≤ p := Nat.le_trans hpos (isDesc_ge hdp)
    by_cases hl : n ≤ p
    · rw [h.leaf p hl]; exact ⟨isDesc_refl p, hl, by omega⟩
    · have hpn : p < n := by omega
      have hdL : 2 * n - 2 * p < d := by omega
      have hdR : 2 * n - (2 * p + 1) < d := by omega
      have hL := ih (2 * n - 2 * p) hdL (2 * p) (isDesc_trans hdp (isDesc_left p)) (by omega) (by omega)
      have hR := ih (2 * n - (2 * p + 1)) hdR (2 * p + 1) (isDesc_trans hdp (isDesc_right p)) (by omega) (by omega)
      rcases h.node p hdp hpn with ⟨hw, _⟩ | ⟨hw, _⟩
      · rw [hw]; exact ⟨isDesc_of_child_left hL.1, hL.2⟩
      · rw [hw]; exact ⟨isDesc_of_child_right hR.1, hR.2⟩

theorem SubTourn.win_range {t : Tree E} {n pos : Nat} {win : Nat → Nat} (h : SubTourn le t n pos win)
    (hpos : 1 ≤ pos) (p : Nat) (hdp : IsDesc pos p) (hp2 : p < 2 * n) :
    IsDesc p (win p) ∧ n ≤ win p ∧ win p < 2 * n :=
  h.win_desc hpos (2 * n - p) p hdp (by omega) (by omega)

/-- the index stored at an internal node of the subtree is a leaf position of the subtree -/
theorem SubTourn.idx_leaf {t : Tree E} {n pos : Nat} {win : Nat → Nat} (h : SubTourn le t n pos win)
    (hpos : 1 ≤ pos) (p : Nat) (hdp : IsDesc pos p) (hpn : p < n) :
    n ≤ (idx t p).toNat ∧ (idx t p).toNat < 2 * n ∧ IsDesc pos (idx t p).toNat := by
  have hdL := isDesc_trans hdp (isDesc_left p)
  have hdR := isDesc_trans hdp (isDesc_right p)
  have hL := h.win_range hpos (2 * p) hdL (by omega)
  have hR := h.win_range hpos (2 * p + 1) hdR (by omega)
  rcases h.node p hdp hpn with ⟨_, hi⟩ | ⟨_, hi⟩
  · rw [hi, Int.toNat_natCast]; exact ⟨hR.2.1, hR.2.2, isDesc_trans hdR hR.1⟩
  · rw [hi, Int.toNat_natCast]; exact ⟨hL.2.1, hL.2.2, isDesc_trans hdL hL.1⟩

/-- the invariant of a subtree only looks at the positions of that subtree -/
theorem SubTourn.congr {t t' : Tree E} {n pos : Nat} {win : Nat → Nat} (h : SubTourn le t n pos win)
    (hpos : 1 ≤ pos)
    (hsame : ∀ q, q < 2 * n → IsDesc pos q → getNode t' q = getNode t q) : SubTourn le t' n pos win := by
  have hidx : ∀ p, p < 2 * n → IsDesc pos p → idx t' p = idx t p := by
    intro p hp hdp; simp only [idx, hsame p hp hdp]
  have hval : ∀ p, p < 2 * n → IsDesc pos p → val t' p = val t p := by
    intro p hp hdp; simp only [val, hsame p hp hdp]
  refine ⟨h.leaf, ?_, ?_, ?_⟩
  · intro p hdp hpn; rw [hidx p (by omega) hdp]; exact h.node p hdp hpn
  · intro p hdp hpn
    have hi := h.idx_leaf hpos p hdp hpn
    rw [hidx p (by omega) hdp, hval p (by omega) hdp, hval _ hi.2.1 hi.2.2]
    exact h.copy p hdp hpn
  · intro p hdp hpn
    have hw := h.win_range hpos p hdp (by omega)
    rw [hval p (by omega) hdp, hval _ hw.2.2 (isDesc_trans hdp hw.1)]
    exact h.beat p hdp hpn

/-- what `playGame` guarantees -/
structure PlaySpec (le : E → E → Prop) (t : Tree E) (n pos : Nat) (r : Tree E × Nat) : Prop where
  len : r.1.nodes.length = 2 * n
  maxVal : r.1.maxVal = t.maxVal
  less : r.1.less = t.less
  closed : r.1.closed = t.closed
  frame : ∀ q, ¬ (IsDesc pos q ∧ q < n) → getNode r.1 q = getNode t q
  tourn : ∃ win, SubTourn le r.1 n pos win ∧ win pos = r.2

theorem playGame_leaf (t : Tree E) (n pos : Nat) (hlen : t.nodes.length = 2 * n) (hpos : n ≤ pos) :
    PlaySpec le t n pos (t, pos) := by
  refine ⟨hlen, rfl, rfl, rfl, fun _ _ => rfl, fun p => p, ⟨fun _ _ => rfl, ?_, ?_, ?_⟩, rfl⟩
  all_goals
    intro p hdp hpn
    have := isDesc_ge hdp
    omega

theorem playGame_spec {less0 : E → E → Bool} (hle1 : ∀ a b, less0 a b = true → le a b)
    (hle2 : ∀ a b, less0 a b = false → le b a) :
    ∀ (fuel : Nat) (t : Tree E) (n pos : Nat), t.less = less0 → t.nodes.length = 2 * n → 1 ≤ pos → pos < 2 * n →
      n ≤ pos * 2 ^ fuel → PlaySpec le t n pos (playGame fuel t pos)
  | 0, t, n, pos, _, hlen, _, _, hf => by
    unfold playGame
    exact playGame_leaf t n pos hlen (by simpa using hf)
  | fuel + 1, t, n, pos, hl0, hlen, hpos, hpos2, hf => by
    unfold playGame
    have hhalf : t.nodes.length / 2 = n := by omega
    by_cases hleaf : pos ≥ t.nodes.length / 2
    · simp only [hleaf, if_true]
      exact playGame_leaf t n pos hlen (by omega)
    · simp only [hleaf, if_false]
      have hpn : pos < n := by omega
      have hfL : n ≤ pos * 2 * 2 ^ fuel := by rw [Nat.pow_succ] at hf; rw [Nat.mul_assoc, Nat.mul_comm 2]; exact hf
      have hfR : n ≤ (pos * 2 + 1) * 2 ^ fuel := Nat.le_trans hfL (Nat.mul_le_mul_right _ (by omega))
      have hL := playGame_spec hle1 hle2 fuel t n (pos * 2) hl0 hlen (by omega) (by omega) hfL
      generalize hrL : playGame fuel t (pos * 2) = rL at hL
      obtain ⟨t1, left⟩ := rL
      have hR := playGame_spec hle1 hle2 fuel t1 n (pos * 2 + 1) (hL.less.trans hl0) hL.len (by omega) (by omega) hfR
      generalize hrR : playGame fuel t1 (pos * 2 + 1) = rR at hR
      obtain ⟨t2, right⟩ := rR
      simp only at hL hR ⊢
      obtain ⟨winL, hSL, hwinL⟩ := hL.tourn
      obtain ⟨winR, hSR, hwinR⟩ := hR.tourn
      have hp2 : pos * 2 = 2 * pos := by omega
      rw [hp2] at hSL hwinL hL hSR hwinR hR
      -- subtree facts
      have hLr := hSL.win_range (by omega) (2 * pos) (isDesc_refl _) (by omega)
      have hRr := hSR.win_range (by omega) (2 * pos + 1) (isDesc_refl _) (by omega)
      rw [hwinL] at hLr
      rw [hwinR] at hRr
      -- the left subtree is untouched by the right game
      have hSL2 : SubTourn le t2 n (2 * pos) winL := by
        apply hSL.congr (by omega)
        intro q _ hq
        apply hR.frame
        rintro ⟨hd, _⟩
        exact isDesc_disjoint hpos hq hd
      -- the decision
      generalize hdec : (if t2.less (getNode t2 left).value (getNode t2 right).value = true then (right, left) else (left, right)) = lw
      obtain ⟨loser, winner⟩ := lw
      simp only
      have hl2 : t2.less = less0 := hR.less.trans (hL.less.trans hl0)
      have hlw : (loser = right ∧ winner = left ∧ le (val t2 left) (val t2 right)) ∨
                 (loser = left ∧ winner = right ∧ le (val t2 right) (val t2 left)) := by
        by_cases hc : t2.less (getNode t2 left).value (getNode t2 right).value = true
        · rw [if_pos hc] at hdec
          simp only [Prod.mk.injEq] at hdec
          exact Or.inl ⟨hdec.1.symm, hdec.2.symm, hle1 _ _ (by rw [← hl2]; exact hc)⟩
        · rw [if_neg hc] at hdec
          simp only [Prod.mk.injEq] at hdec
          have hc' : t2.less (getNode t2 left).value (getNode t2 right).value = false := by simpa using hc
          exact Or.inr ⟨hdec.1.symm, hdec.2.symm, hle2 _ _ (by rw [← hl2]; exact hc')⟩
      have hloser : n ≤ loser ∧ loser < 2 * n := by
        rcases hlw with ⟨h1, _, _⟩ | ⟨h1, _, _⟩ <;> rw [h1]
        · exact hRr.2
        · exact hLr.2
      have hwinner : n ≤ winner ∧ winner < 2 * n := by
        rcases hlw with ⟨_, h1, _⟩ | ⟨_, h1, _⟩ <;> rw [h1]
        · exact hLr.2
        · exact hRr.2
      have hlen2 : t2.nodes.length = 2 * n := hR.len
      -- the new node
      let nd : Node E := { getNode t2 pos with index := (loser : Int), value := (getNode t2 loser).value }
      have hget_pos : getNode (setNode t2 pos nd) pos = nd := getNode_setNode_same t2 pos nd (by omega)
      have hget_ne : ∀ q, q ≠ pos → getNode (setNode t2 pos nd) q = getNode t2 q :=
        fun q hq => getNode_setNode_ne t2 pos q nd (fun e => hq e.symm)
      refine ⟨by rw [setNode_length]; exact hlen2, by rw [setNode_maxVal, hR.maxVal, hL.maxVal],
        by rw [setNode_less, hR.less, hL.less], by rw [setNode_closed, hR.closed, hL.closed], ?_, ?_⟩
      · intro q hq
        have hqpos : q ≠ pos := fun e => hq ⟨e ▸ isDesc_refl pos, e ▸ hpn⟩
        rw [hget_ne q hqpos]
        rw [hR.frame q (fun ⟨hd, hqn⟩ => hq ⟨isDesc_of_child_right hd, hqn⟩)]
        exact hL.frame q (fun ⟨hd, hqn⟩ => hq ⟨isDesc_of_child_left hd, hqn⟩)
      · -- the ghost winner function of the combined subtree
        refine ⟨fun q => if q = pos then winner else if IsDesc (2 * pos + 1) q then winR q else winL q, ?_, by simp⟩
        have hwl : ∀ q, IsDesc (2 * pos) q →
            (if q = pos then winner else if IsDesc (2 * pos + 1) q then winR q else winL q) = winL q := by
          intro q hd
          have h1 : q ≠ pos := by have := isDesc_ge hd; omega
          have h2 : ¬ IsDesc (2 * pos + 1) q := fun h => isDesc_disjoint hpos hd h
          simp [h1, h2]
        have hwr : ∀ q, IsDesc (2 * pos + 1) q →
            (if q = pos then winner else if IsDesc (2 * pos + 1) q then winR q else winL q) = winR q := by
          intro q hd
          have h1 : q ≠ pos := by have := isDesc_ge hd; omega
          simp [h1, hd]
        have hvleaf : ∀ q, n ≤ q → val (setNode t2 pos nd) q = val t2 q := by
          intro q hq; simp only [val]; rw [hget_ne q (by omega)]
        refine ⟨?_, ?_, ?_, ?_⟩
        · intro q hq
          have h1 : q ≠ pos := by omega
          simp only [h1, if_false]
          split
          · exact hSR.leaf q hq
          · exact hSL.leaf q hq
        · intro p hdp hp
          rcases isDesc_cases hdp with rfl | hd | hd
          · -- the root of this subtree
            simp only [if_true]
            rw [hwl (2 * p) (isDesc_refl _), hwr (2 * p + 1) (isDesc_refl _), hwinL, hwinR]
            simp only [idx, hget_pos, nd]
            rcases hlw with ⟨h1, h2, _⟩ | ⟨h1, h2, _⟩
            · left; exact ⟨h2, by rw [h1]⟩
            · right; exact ⟨h2, by rw [h1]⟩
          · rw [hwl p hd, hwl (2 * p) (isDesc_trans hd (isDesc_left p)), hwl (2 * p + 1) (isDesc_trans hd (isDesc_right p))]
            have : idx (setNode t2 pos nd) p = idx t2 p := by
              simp only [idx]; rw [hget_ne p (by have := isDesc_ge hd; omega)]
            rw [this]
            exact hSL2.node p hd hp
          · rw [hwr p hd, hwr (2 * p) (isDesc_trans hd (isDesc_left p)), hwr (2 * p + 1) (isDesc_trans hd (isDesc_right p))]
            have : idx (setNode t2 pos nd) p = idx t2 p := by
              simp only [idx]; rw [hget_ne p (by have := isDesc_ge hd; omega)]
            rw [this]
            exact hSR.node p hd hp
        · intro p hdp hp
          rcases isDesc_cases hdp with rfl | hd | hd
          · simp only [val, idx, hget_pos, nd, Int.toNat_natCast]
            rw [hget_ne loser (by omega)]
          · have hne : p ≠ pos := by have := isDesc_ge hd; omega
            have h1 : idx (setNode t2 pos nd) p = idx t2 p := by simp only [idx]; rw [hget_ne p hne]
            have h2 : val (setNode t2 pos nd) p = val t2 p := by simp only [val]; rw [hget_ne p hne]
            rw [h1, h2, hvleaf _ (hSL2.idx_leaf (by omega) p hd hp).1]
            exact hSL2.copy p hd hp
          · have hne : p ≠ pos := by have := isDesc_ge hd; omega
            have h1 : idx (setNode t2 pos nd) p = idx t2 p := by simp only [idx]; rw [hget_ne p hne]
            have h2 : val (setNode t2 pos nd) p = val t2 p := by simp only [val]; rw [hget_ne p hne]
            rw [h1, h2, hvleaf _ (hSR.idx_leaf (by omega) p hd hp).1]
            exact hSR.copy p hd hp
        · intro p hdp hp
          rcases isDesc_cases hdp with rfl | hd | hd
          · simp only [if_true]
            rw [hvleaf winner hwinner.1]
            simp only [val, hget_pos, nd]
            rcases hlw with ⟨h1, h2, h3⟩ | ⟨h1, h2, h3⟩
            · rw [h1, h2]; exact h3
            · rw [h1, h2]; exact h3
          · have hne : p ≠ pos := by have := isDesc_ge hd; omega
            have h2 : val (setNode t2 pos nd) p = val t2 p := by simp only [val]; rw [hget_ne p hne]
            rw [hwl p hd, h2, hvleaf _ (hSL2.win_range (by omega) p hd (by omega)).2.1]
            exact hSL2.beat p hd hp
          · have hne : p ≠ pos := by have := isDesc_ge hd; omega
            have h2 : val (setNode t2 pos nd) p = val t2 p := by simp only [val]; rw [hget_ne p hne]
            rw [hwr p hd, h2, hvleaf _ (hSR.win_range (by omega) p hd (by omega)).2.1]
            exact hSR.beat p hd hp

end Thanos.LoserTree
