import Thanos.Model.Iter
import Thanos.Lemmas.IterBasic
import Thanos.Lemmas.PenaltyMerge
/-
  "Behaves like a list iterator": an abstraction function `abs` from iterator states to the list
  of remaining samples (head = current sample), under which `Next` is `tail` and `Seek t` is
  `dropLt t`.  The list iterator satisfies it, and `dedupSeriesIterator` over two iterators that
  satisfy it satisfies it again, with `abs = current :: pm2 …` (`node_listLike`,
  DESIGN's `node_refines_list`).  This is what makes the N-replica fold compositional.
-/
namespace Thanos.Dedup

/-- laws of a started (positioned or exhausted) iterator state -/
structure ListLike {σ : Type} (o : Ops σ) (V : σ → Prop) (abs : σ → List Sample) : Prop where
  lower : ∀ s, V s → ∀ x ∈ abs s, minT < x.t
  atS : ∀ s, V s → abs s ≠ [] → o.atS s = (abs s).head?
  atT : ∀ s, V s → abs s ≠ [] → o.atT s = (abs s).head?.map (·.t)
  seekV : ∀ s t, V s → abs s ≠ [] → V (o.seek t s).1
  seekAbs : ∀ s t, V s → abs s ≠ [] → abs (o.seek t s).1 = dropLt t (abs s)
  seekOk : ∀ s t, V s → abs s ≠ [] → (o.seek t s).2 = !(dropLt t (abs s)).isEmpty
  nextV : ∀ s, V s → abs s ≠ [] → V (o.next s).1
  nextAbs : ∀ s, V s → abs s ≠ [] → abs (o.next s).1 = (abs s).tail
  nextOk : ∀ s, V s → abs s ≠ [] → (o.next s).2 = !(abs s).tail.isEmpty
  adjustV : ∀ s v, V s → abs s ≠ [] → V (o.adjust v s)
  adjustAbs : ∀ s v, V s → abs s ≠ [] → abs (o.adjust v s) = abs s
  bad : ∀ s, V s → o.bad s = false
  fuel : ∀ s, V s → (abs s).length ≤ o.fuel s

/-- laws of a state on which no method has been called yet; `L` = the samples it will yield -/
structure InitLike {σ : Type} (o : Ops σ) (V : σ → Prop) (abs : σ → List Sample) (s0 : σ)
    (L : List Sample) : Prop where
  lower : ∀ x ∈ L, minT < x.t
  nextV : V (o.next s0).1
  nextAbs : abs (o.next s0).1 = L
  nextOk : (o.next s0).2 = !L.isEmpty
  seekV : ∀ t, V (o.seek t s0).1
  seekAbs : ∀ t, abs (o.seek t s0).1 = dropLt t L
  seekOk : ∀ t, (o.seek t s0).2 = !(dropLt t L).isEmpty
  fuel : L.length ≤ o.fuel s0 + 1

/-- the part of `InitLike` that concerns `Next` only (enough for reading with `Next`, and for
    being a side of a `dedupSeriesIterator`, whose constructor calls `Next`) -/
structure InitNext {σ : Type} (o : Ops σ) (V : σ → Prop) (abs : σ → List Sample) (s0 : σ)
    (L : List Sample) : Prop where
  lower : ∀ x ∈ L, minT < x.t
  nextV : V (o.next s0).1
  nextAbs : abs (o.next s0).1 = L
  nextOk : (o.next s0).2 = !L.isEmpty
  fuel : L.length ≤ o.fuel s0 + 1

theorem InitLike.toNext {σ : Type} {o : Ops σ} {V : σ → Prop} {abs : σ → List Sample} {s0 : σ}
    {L : List Sample} (h : InitLike o V abs s0 L) : InitNext o V abs s0 L :=
  ⟨h.lower, h.nextV, h.nextAbs, h.nextOk, h.fuel⟩

/-! ### the list iterator -/

def leafV (l : Leaf) : Prop := l.started = true ∧ ∀ x ∈ l.rest, minT < x.t

theorem leaf_listLike : ListLike leafOps leafV Leaf.rest where
  lower := fun s h => h.2
  atS := by intro s h _; simp [Leaf.cur, h.1]
  atT := by intro s h _; simp [Leaf.cur, h.1]
  seekV := by
    intro s t h _
    exact ⟨rfl, fun x hx => h.2 x (mem_of_mem_dropLt hx)⟩
  seekAbs := by intro s t _ _; rfl
  seekOk := by intro s t _ _; rfl
  nextV := by
    intro s h _
    refine ⟨rfl, fun x hx => ?_⟩
    simp only [leafOps_next, leafNext, h.1, if_true] at hx
    exact h.2 x (List.mem_of_mem_tail hx)
  nextAbs := by intro s h _; simp [leafNext, h.1]
  nextOk := by intro s h _; simp [leafNext, h.1]
  adjustV := by intro s v h _; exact h
  adjustAbs := by intro s v _ _; rfl
  bad := by intro s _; rfl
  fuel := by intro s _; exact Nat.le_refl _

theorem leaf_initLike (r : List Sample) (h : ∀ x ∈ r, minT < x.t) :
    InitLike leafOps leafV Leaf.rest (Leaf.init r) r where
  lower := h
  nextV := ⟨rfl, by simpa [leafNext, Leaf.init] using h⟩
  nextAbs := by simp [leafNext, Leaf.init]
  nextOk := by simp [leafNext, Leaf.init]
  seekV := fun t => ⟨rfl, fun x hx => h x (mem_of_mem_dropLt hx)⟩
  seekAbs := fun t => rfl
  seekOk := fun t => rfl
  fuel := by simp [Leaf.init]

/-! ### dedupSeriesIterator over two list-like iterators -/

section node
variable {α β : Type} {oa : Ops α} {ob : Ops β} {Va : α → Prop} {Vb : β → Prop}
  {absA : α → List Sample} {absB : β → List Sample}

/-- invariant of a node, fresh or started -/
structure NodeW (Va : α → Prop) (Vb : β → Prop) (absA : α → List Sample) (absB : β → List Sample)
    (s : Node α β) : Prop where
  va : Va s.a
  vb : Vb s.b
  aval : s.aval = !(absA s.a).isEmpty
  bval : s.bval = !(absB s.b).isEmpty
  same : s.lastIsA = s.useA ∨ (absA s.a = [] ∧ absB s.b = [])
  penA : 0 ≤ s.penA
  penB : 0 ≤ s.penB
  nbad : s.bad = false

/-- the remaining samples of the two sides after the `Seek` calls of the next `Next` -/
def seekA (absA : α → List Sample) (s : Node α β) : List Sample :=
  dropLt (s.lastT + 1 + s.penA) (absA s.a)
def seekB (absB : β → List Sample) (s : Node α β) : List Sample :=
  dropLt (s.lastT + 1 + s.penB) (absB s.b)

/-- what further `Next` calls will emit -/
def nodeFuture (absA : α → List Sample) (absB : β → List Sample) (s : Node α β) : List Sample :=
  pm2 s.lastT (seekA absA s) (seekB absB s)

/-- remaining samples of a started node: the current one (on the side `lastIter`) and the future -/
def nodeAbs (absA : α → List Sample) (absB : β → List Sample) (s : Node α β) : List Sample :=
  match (if s.lastIsA then absA s.a else absB s.b).head? with
  | some cur => cur :: nodeFuture absA absB s
  | none => []

/-- a started node: if nothing has been emitted, nothing will be -/
def nodeV (Va : α → Prop) (Vb : β → Prop) (absA : α → List Sample) (absB : β → List Sample)
    (s : Node α β) : Prop :=
  NodeW Va Vb absA absB s ∧ (s.lastT = minT → absA s.a = [] ∧ absB s.b = [])

theorem stepA_spec (ha : ListLike oa Va absA) {s : Node α β} (hW : NodeW Va Vb absA absB s) :
    Va (stepA oa s).1 ∧ absA (stepA oa s).1 = seekA absA s ∧ (stepA oa s).2 = !(seekA absA s).isEmpty := by
  unfold stepA seekA
  cases hav : s.aval with
  | true =>
    have hne : absA s.a ≠ [] := by
      have := hW.aval; rw [hav] at this
      intro h; rw [h] at this; simp at this
    simp only [if_true]
    exact ⟨ha.seekV _ _ hW.va hne, ha.seekAbs _ _ hW.va hne, ha.seekOk _ _ hW.va hne⟩
  | false =>
    have he : absA s.a = [] := by
      have := hW.aval; rw [hav] at this
      cases h : absA s.a with
      | nil => rfl
      | cons x l => rw [h] at this; simp at this
    simp [he, hW.va]

theorem stepB_spec (hb : ListLike ob Vb absB) {s : Node α β} (hW : NodeW Va Vb absA absB s) :
    Vb (stepB ob s).1 ∧ absB (stepB ob s).1 = seekB absB s ∧ (stepB ob s).2 = !(seekB absB s).isEmpty := by
  unfold stepB seekB
  cases hbv : s.bval with
  | true =>
    have hne : absB s.b ≠ [] := by
      have := hW.bval; rw [hbv] at this
      intro h; rw [h] at this; simp at this
    simp only [if_true]
    exact ⟨hb.seekV _ _ hW.vb hne, hb.seekAbs _ _ hW.vb hne, hb.seekOk _ _ hW.vb hne⟩
  | false =>
    have he : absB s.b = [] := by
      have := hW.bval; rw [hbv] at this
      cases h : absB s.b with
      | nil => rfl
      | cons x l => rw [h] at this; simp at this
    simp [he, hW.vb]

theorem isEmpty_false_of_cons {x : Sample} {l : List Sample} : (!(x :: l).isEmpty) = true := rfl

/-- picking the side to emit, given the two sought sides `la`, `lb` -/
theorem nodeChoose_spec (ha : ListLike oa Va absA) (hb : ListLike ob Vb absB) (s : Node α β)
    (hva : Va s.a) (hvb : Vb s.b)
    (hav : s.aval = !(absA s.a).isEmpty) (hbv : s.bval = !(absB s.b).isEmpty)
    (hpa : 0 ≤ s.penA) (hpb : 0 ≤ s.penB) (hnb : s.bad = false)
    (hla : ∀ x, (absA s.a).head? = some x → s.lastT + 1 ≤ x.t)
    (hlb : ∀ x, (absB s.b).head? = some x → s.lastT + 1 ≤ x.t) :
    nodeV Va Vb absA absB (nodeChoose oa ob s).1 ∧
    nodeAbs absA absB (nodeChoose oa ob s).1 = pm2 s.lastT (absA s.a) (absB s.b) ∧
    (nodeChoose oa ob s).2 = !(pm2 s.lastT (absA s.a) (absB s.b)).isEmpty := by
  unfold nodeChoose
  cases hA : absA s.a with
  | nil =>
    cases hB : absB s.b with
    | nil =>
      rw [hA] at hav; rw [hB] at hbv
      simp only [List.isEmpty_nil, Bool.not_true] at hav hbv
      simp only [hav, hbv, Bool.not_false, if_true, Bool.false_eq_true, if_false]
      refine ⟨⟨⟨hva, hvb, by simp [hA], by simp [hB], Or.inr ⟨hA, hB⟩, hpa, hpb, hnb⟩,
        fun _ => ⟨hA, hB⟩⟩, ?_, by simp [pm2]⟩
      simp [nodeAbs, hA, hB, pm2]
    | cons y tb =>
      rw [hA] at hav; rw [hB] at hbv
      simp only [List.isEmpty_nil, Bool.not_true, List.isEmpty_cons, Bool.not_false] at hav hbv
      have hat : ob.atT s.b = some y.t := by
        rw [hb.atT _ hvb (by rw [hB]; simp), hB]; rfl
      have hylow : minT < y.t := hb.lower _ hvb y (by rw [hB]; simp)
      simp only [hav, hbv, Bool.not_false, if_true, hat]
      refine ⟨⟨⟨hva, hvb, by simp [hA], by simp [hB], Or.inl rfl, hpa, Int.le_refl 0, hnb⟩,
        fun h => ?_⟩, ?_, by simp [pm2]⟩
      · simp only at h; omega
      · simp only [nodeAbs, nodeFuture, seekA, seekB, Bool.false_eq_true, if_false, hA, hB,
          List.head?_cons, dropLt_nil]
        rw [pm2, Int.add_zero, dropLt_cons_lt (by omega)]
  | cons x ta =>
    have hxlow : minT < x.t := ha.lower _ hva x (by rw [hA]; simp)
    have hatA : oa.atT s.a = some x.t := by
      rw [ha.atT _ hva (by rw [hA]; simp), hA]; rfl
    have hx1 : s.lastT + 1 ≤ x.t := hla x (by rw [hA]; rfl)
    cases hB : absB s.b with
    | nil =>
      rw [hA] at hav; rw [hB] at hbv
      simp only [List.isEmpty_nil, Bool.not_true, List.isEmpty_cons, Bool.not_false] at hav hbv
      simp only [hav, hbv, Bool.not_true, Bool.false_eq_true, if_false, Bool.not_false, if_true, hatA]
      refine ⟨⟨⟨hva, hvb, by simp [hA], by simp [hB], Or.inl rfl, Int.le_refl 0, hpb, hnb⟩,
        fun h => ?_⟩, ?_, by simp [pm2]⟩
      · simp only at h; omega
      · simp only [nodeAbs, nodeFuture, seekA, seekB, if_true, hA, hB, List.head?_cons, dropLt_nil]
        rw [pm2, Int.add_zero, dropLt_cons_lt (by omega)]
    | cons y tb =>
      have hylow : minT < y.t := hb.lower _ hvb y (by rw [hB]; simp)
      have hatB : ob.atT s.b = some y.t := by
        rw [hb.atT _ hvb (by rw [hB]; simp), hB]; rfl
      have hy1 : s.lastT + 1 ≤ y.t := hlb y (by rw [hB]; rfl)
      rw [hA] at hav; rw [hB] at hbv
      simp only [List.isEmpty_cons, Bool.not_false] at hav hbv
      simp only [hav, hbv, Bool.not_true, Bool.false_eq_true, if_false, hatA, hatB]
      by_cases hle : x.t ≤ y.t
      · simp only [hle, if_true]
        have hpen : 0 ≤ pen s.lastT x.t := pen_nonneg (by omega)
        refine ⟨⟨⟨hva, hvb, by simp [hA], by simp [hB], Or.inl rfl, Int.le_refl 0, ?_, hnb⟩,
          fun h => ?_⟩, ?_, by rw [pm2]; simp [hle]⟩
        · simpa [pen] using hpen
        · simp only at h; omega
        · simp only [nodeAbs, nodeFuture, seekA, seekB, if_true, hA, hB, List.head?_cons]
          rw [pm2]
          simp only [hle, if_true, Int.add_zero]
          rw [dropLt_cons_lt (show x.t < x.t + 1 by omega)]
          rfl
      · simp only [hle, if_false]
        have hpen : 0 ≤ pen s.lastT y.t := pen_nonneg (by omega)
        refine ⟨⟨⟨hva, hvb, by simp [hA], by simp [hB], Or.inl rfl, ?_, Int.le_refl 0, hnb⟩,
          fun h => ?_⟩, ?_, by rw [pm2]; simp [hle]⟩
        · simpa [pen] using hpen
        · simp only at h; omega
        · simp only [nodeAbs, nodeFuture, seekA, seekB, Bool.false_eq_true, if_false, hA, hB, List.head?_cons]
          rw [pm2]
          simp only [hle, if_false, Int.add_zero]
          rw [dropLt_cons_lt (show y.t < y.t + 1 by omega)]
          rfl

theorem seekA_head (s : Node α β) (hp : 0 ≤ s.penA) :
    ∀ x, (seekA absA s).head? = some x → s.lastT + 1 ≤ x.t := by
  intro x hx
  have := head_dropLt_ge hx
  omega

theorem seekB_head (s : Node α β) (hp : 0 ≤ s.penB) :
    ∀ x, (seekB absB s).head? = some x → s.lastT + 1 ≤ x.t := by
  intro x hx
  have := head_dropLt_ge hx
  omega

/-- the body of `Next` -/
theorem nodeStep_spec (ha : ListLike oa Va absA) (hb : ListLike ob Vb absB) {s : Node α β}
    (hW : NodeW Va Vb absA absB s) :
    nodeV Va Vb absA absB (nodeStep oa ob s).1 ∧
    nodeAbs absA absB (nodeStep oa ob s).1 = nodeFuture absA absB s ∧
    (nodeStep oa ob s).2 = !(nodeFuture absA absB s).isEmpty := by
  obtain ⟨a1, a2, a3⟩ := stepA_spec ha hW
  obtain ⟨b1, b2, b3⟩ := stepB_spec hb hW
  have := nodeChoose_spec ha hb
    { s with a := (stepA oa s).1, b := (stepB ob s).1, aval := (stepA oa s).2, bval := (stepB ob s).2 }
    a1 b1 (by simp only [a3, a2]) (by simp only [b3, b2]) hW.penA hW.penB hW.nbad
    (by simp only [a2]; exact seekA_head s hW.penA) (by simp only [b2]; exact seekB_head s hW.penB)
  simp only [a2, b2] at this
  exact this

theorem nodeW_of_V {s : Node α β} (h : nodeV Va Vb absA absB s) : NodeW Va Vb absA absB s := h.1

theorem nodeAdjust_spec (ha : ListLike oa Va absA) (hb : ListLike ob Vb absB) (v : Int) {s : Node α β}
    (hV : nodeV Va Vb absA absB s) :
    nodeV Va Vb absA absB (nodeAdjust oa ob v s) ∧
    nodeAbs absA absB (nodeAdjust oa ob v s) = nodeAbs absA absB s := by
  obtain ⟨p1, p2, p3, p4, p5, p6⟩ := nodeAdjust_proj (oa := oa) (ob := ob) v s
  obtain ⟨hW, hph⟩ := hV
  have hfields := nodeAdjust_fields (oa := oa) (ob := ob) v s
  obtain ⟨q1, q2, q3, q4⟩ := hfields
  -- the two sides keep their remaining samples
  have hA : Va (nodeAdjust oa ob v s).a ∧ absA (nodeAdjust oa ob v s).a = absA s.a := by
    rw [p5]
    cases hav : s.aval with
    | true =>
      have hne : absA s.a ≠ [] := by
        have := hW.aval; rw [hav] at this
        intro h; rw [h] at this; simp at this
      simp only [if_true]
      exact ⟨ha.adjustV _ v hW.va hne, ha.adjustAbs _ v hW.va hne⟩
    | false => simp [hW.va]
  have hB : Vb (nodeAdjust oa ob v s).b ∧ absB (nodeAdjust oa ob v s).b = absB s.b := by
    rw [p6]
    cases hbv : s.bval with
    | true =>
      have hne : absB s.b ≠ [] := by
        have := hW.bval; rw [hbv] at this
        intro h; rw [h] at this; simp at this
      simp only [if_true]
      exact ⟨hb.adjustV _ v hW.vb hne, hb.adjustAbs _ v hW.vb hne⟩
    | false => simp [hW.vb]
  refine ⟨⟨⟨hA.1, hB.1, by rw [p1, hA.2]; exact hW.aval, by rw [p2, hB.2]; exact hW.bval,
      by rw [p3, p4, hA.2, hB.2]; exact hW.same, by rw [q2]; exact hW.penA, by rw [q3]; exact hW.penB,
      by rw [q4]; exact hW.nbad⟩, by rw [q1, hA.2, hB.2]; exact hph⟩, ?_⟩
  simp only [nodeAbs, nodeFuture, seekA, seekB, p4, hA.2, hB.2, q1, q2, q3]

/-- `Next` from any state that satisfies the node invariant (fresh or started) -/
theorem nodeNext_spec (ha : ListLike oa Va absA) (hb : ListLike ob Vb absB) {s : Node α β}
    (hW : NodeW Va Vb absA absB s) :
    nodeV Va Vb absA absB (nodeNext oa ob s).1 ∧
    nodeAbs absA absB (nodeNext oa ob s).1 = nodeFuture absA absB s ∧
    (nodeNext oa ob s).2 = !(nodeFuture absA absB s).isEmpty := by
  obtain ⟨s1, s2, s3⟩ := nodeStep_spec ha hb hW
  unfold nodeNext
  by_cases hc : ((s.useA && s.aval) || (!s.useA && s.bval)) = true
  · simp only [hc, if_true]
    -- `lastIter.At()` does not panic
    have hat : ∃ x, nodeAt oa ob s = some x := by
      unfold nodeAt
      have hav := hW.aval
      have hbv := hW.bval
      rcases hW.same with hsame | ⟨hA, hB⟩
      · rw [hsame]
        cases hu : s.useA with
        | true =>
          simp only [hu, Bool.true_and, Bool.not_true, Bool.false_and, Bool.or_false] at hc
          rw [hc] at hav
          simp only [if_true]
          cases hl : absA s.a with
          | nil => rw [hl] at hav; simp at hav
          | cons x l =>
            exact ⟨x, by rw [ha.atS _ hW.va (by rw [hl]; simp), hl]; rfl⟩
        | false =>
          simp only [hu, Bool.false_and, Bool.not_false, Bool.true_and, Bool.false_or] at hc
          rw [hc] at hbv
          simp only [Bool.false_eq_true, if_false]
          cases hl : absB s.b with
          | nil => rw [hl] at hbv; simp at hbv
          | cons x l =>
            exact ⟨x, by rw [hb.atS _ hW.vb (by rw [hl]; simp), hl]; rfl⟩
      · rw [hA] at hav; rw [hB] at hbv
        simp only [List.isEmpty_nil, Bool.not_true] at hav hbv
        rw [hav, hbv] at hc
        simp at hc
    obtain ⟨x, hx⟩ := hat
    simp only [hx]
    unfold nodeFinish
    simp only
    by_cases hsw : ((nodeStep oa ob s).1.useA != s.useA) = true
    · simp only [hsw, if_true]
      obtain ⟨v1, v2⟩ := nodeAdjust_spec ha hb x.v s1
      exact ⟨v1, by rw [v2]; exact s2, s3⟩
    · simp only [hsw]
      exact ⟨s1, s2, s3⟩
  · simp only [hc]
    exact ⟨s1, s2, s3⟩

/-- for a positioned node, `nodeAbs` is the current sample followed by the future -/
theorem nodeAbs_cons {s : Node α β} (h : nodeAbs absA absB s ≠ []) :
    ∃ cur, (if s.lastIsA then absA s.a else absB s.b).head? = some cur ∧
      nodeAbs absA absB s = cur :: nodeFuture absA absB s := by
  unfold nodeAbs at h ⊢
  cases hh : (if s.lastIsA then absA s.a else absB s.b).head? with
  | none => rw [hh] at h; simp at h
  | some cur => exact ⟨cur, rfl, rfl⟩

/-- on a positioned node `lastIter` is the side in use -/
theorem nodeV_same {s : Node α β} (hV : nodeV Va Vb absA absB s) (h : nodeAbs absA absB s ≠ []) :
    s.lastIsA = s.useA := by
  rcases hV.1.same with hs | ⟨hA, hB⟩
  · exact hs
  · exfalso; apply h
    unfold nodeAbs
    cases s.lastIsA <;> simp [hA, hB]

/-- the loop of `Seek` on a positioned node: `dropLt t` -/
theorem nodeSeekLoop_spec (ha : ListLike oa Va absA) (hb : ListLike ob Vb absB) (t : Int) :
    ∀ (n : Nat) (s : Node α β), nodeV Va Vb absA absB s → nodeAbs absA absB s ≠ [] →
      (nodeAbs absA absB s).length ≤ n →
      nodeV Va Vb absA absB (nodeSeekLoop oa ob t n s).1 ∧
      nodeAbs absA absB (nodeSeekLoop oa ob t n s).1 = dropLt t (nodeAbs absA absB s) ∧
      (nodeSeekLoop oa ob t n s).2 = !(dropLt t (nodeAbs absA absB s)).isEmpty := by
  intro n
  induction n with
  | zero =>
    intro s _ hne hlen
    exfalso; apply hne
    exact List.length_eq_zero_iff.mp (Nat.le_zero.mp hlen)
  | succ n ih =>
    intro s hV hne hlen
    obtain ⟨cur, hcur, habs⟩ := nodeAbs_cons hne
    have hsame := nodeV_same hV hne
    have hW := hV.1
    -- AtT() is the current sample's timestamp
    have hatT : nodeAtT oa ob s = some cur.t := by
      unfold nodeAtT
      rw [← hsame]
      cases hl : s.lastIsA with
      | true =>
        simp only [hl, if_true] at hcur ⊢
        have hne' : absA s.a ≠ [] := by intro h; rw [h] at hcur; simp at hcur
        rw [ha.atT _ hW.va hne', hcur]; rfl
      | false =>
        simp only [hl, Bool.false_eq_true, if_false] at hcur ⊢
        have hne' : absB s.b ≠ [] := by intro h; rw [h] at hcur; simp at hcur
        rw [hb.atT _ hW.vb hne', hcur]; rfl
    unfold nodeSeekLoop
    simp only [hatT]
    by_cases hge : cur.t ≥ t
    · simp only [hge, if_true]
      rw [habs, dropLt_cons_ge hge]
      cases hu : s.useA with
      | true =>
        have hl : s.lastIsA = true := by rw [hsame, hu]
        simp only [hl, if_true] at hcur
        have hne' : absA s.a ≠ [] := by intro h; rw [h] at hcur; simp at hcur
        have hkeep : absA (oa.seek cur.t s.a).1 = absA s.a := by
          rw [ha.seekAbs _ _ hW.va hne']
          cases hla : absA s.a with
          | nil => exact absurd hla hne'
          | cons x l =>
            rw [hla] at hcur; simp at hcur; subst hcur
            exact dropLt_cons_ge (Int.le_refl _)
        have hok : (oa.seek cur.t s.a).2 = true := by
          rw [ha.seekOk _ _ hW.va hne', ← ha.seekAbs _ _ hW.va hne', hkeep]
          cases hla : absA s.a with
          | nil => exact absurd hla hne'
          | cons x l => rfl
        simp only [if_true, hok]
        refine ⟨⟨⟨ha.seekV _ _ hW.va hne', hW.vb, by simp only [hkeep]; exact hW.aval, hW.bval,
          by simp only [hkeep]; have := hW.same; rwa [hu] at this, hW.penA, hW.penB, hW.nbad⟩,
          by simp only [hkeep]; exact hV.2⟩, ?_, rfl⟩
        rw [← habs]
        simp only [nodeAbs, nodeFuture, seekA, seekB, hkeep]
      | false =>
        have hl : s.lastIsA = false := by rw [hsame, hu]
        simp only [hl, Bool.false_eq_true, if_false] at hcur
        have hne' : absB s.b ≠ [] := by intro h; rw [h] at hcur; simp at hcur
        have hkeep : absB (ob.seek cur.t s.b).1 = absB s.b := by
          rw [hb.seekAbs _ _ hW.vb hne']
          cases hlb : absB s.b with
          | nil => exact absurd hlb hne'
          | cons x l =>
            rw [hlb] at hcur; simp at hcur; subst hcur
            exact dropLt_cons_ge (Int.le_refl _)
        have hok : (ob.seek cur.t s.b).2 = true := by
          rw [hb.seekOk _ _ hW.vb hne', ← hb.seekAbs _ _ hW.vb hne', hkeep]
          cases hlb : absB s.b with
          | nil => exact absurd hlb hne'
          | cons x l => rfl
        simp only [Bool.false_eq_true, if_false, hok]
        refine ⟨⟨⟨hW.va, hb.seekV _ _ hW.vb hne', hW.aval, by simp only [hkeep]; exact hW.bval,
          by simp only [hkeep]; have := hW.same; rwa [hu] at this, hW.penA, hW.penB, hW.nbad⟩,
          by simp only [hkeep]; exact hV.2⟩, ?_, rfl⟩
        rw [← habs]
        simp only [nodeAbs, nodeFuture, seekA, seekB, hkeep]
    · simp only [hge, if_false]
      have hlt : cur.t < t := by omega
      obtain ⟨n1, n2, n3⟩ := nodeNext_spec ha hb hW
      rw [habs, dropLt_cons_lt hlt]
      by_cases hok : (nodeNext oa ob s).2 = true
      · simp only [hok, if_true]
        rw [n3] at hok
        have hfne : nodeFuture absA absB s ≠ [] := by
          intro h; rw [h] at hok; simp at hok
        have hlen' : (nodeAbs absA absB (nodeNext oa ob s).1).length ≤ n := by
          rw [n2]; rw [habs] at hlen; simp only [List.length_cons] at hlen; omega
        have := ih _ n1 (by rw [n2]; exact hfne) hlen'
        rw [n2] at this
        exact this
      · simp only [hok, Bool.false_eq_true, if_false]
        rw [n3] at hok
        have hfe : nodeFuture absA absB s = [] := by
          cases h : nodeFuture absA absB s with
          | nil => rfl
          | cons x l => rw [h] at hok; simp at hok
        refine ⟨n1, ?_, by simp [hfe]⟩
        rw [n2, hfe]; rfl

theorem nodeAbs_length_le (ha : ListLike oa Va absA) (hb : ListLike ob Vb absB) {s : Node α β}
    (hV : nodeV Va Vb absA absB s) : (nodeAbs absA absB s).length ≤ nodeFuel oa ob s := by
  have h1 := ha.fuel _ hV.1.va
  have h2 := hb.fuel _ hV.1.vb
  unfold nodeAbs nodeFuel
  split
  · have := pm2_length_le s.lastT (seekA absA s) (seekB absB s)
    have h3 := dropLt_length_le (s.lastT + 1 + s.penA) (absA s.a)
    have h4 := dropLt_length_le (s.lastT + 1 + s.penB) (absB s.b)
    simp only [List.length_cons, nodeFuture, seekA, seekB] at *
    omega
  · simp

/-- a positioned node has emitted something -/
theorem nodeV_started {s : Node α β} (hV : nodeV Va Vb absA absB s) (h : nodeAbs absA absB s ≠ []) :
    s.lastT ≠ minT := by
  intro hl
  obtain ⟨hA, hB⟩ := hV.2 hl
  apply h
  unfold nodeAbs
  cases s.lastIsA <;> simp [hA, hB]

/-- **`node_refines_list`.**  `dedupSeriesIterator` over two list-like iterators is list-like:
    its remaining samples are the current one followed by the penalty merge (`pm2`) of the two
    sides' remaining samples. -/
theorem node_listLike (ha : ListLike oa Va absA) (hb : ListLike ob Vb absB) (fixed : Bool) :
    ListLike (nodeOps oa ob fixed) (nodeV Va Vb absA absB) (nodeAbs absA absB) where
  lower := by
    intro s hV x hx
    unfold nodeAbs at hx
    split at hx
    · rename_i cur hcur
      rcases List.mem_cons.mp hx with rfl | hx
      · have hm := List.mem_of_mem_head? hcur
        cases hl : s.lastIsA with
        | true => rw [hl] at hm; exact ha.lower _ hV.1.va _ hm
        | false => rw [hl] at hm; exact hb.lower _ hV.1.vb _ hm
      · rcases pm2_mem hx with h | h
        · exact ha.lower _ hV.1.va _ (mem_of_mem_dropLt h)
        · exact hb.lower _ hV.1.vb _ (mem_of_mem_dropLt h)
    · simp at hx
  atS := by
    intro s hV hne
    obtain ⟨cur, hcur, habs⟩ := nodeAbs_cons hne
    rw [habs]
    simp only [nodeOps_atS, nodeAt, List.head?_cons]
    cases hl : s.lastIsA with
    | true =>
      simp only [hl, if_true] at hcur ⊢
      rw [ha.atS _ hV.1.va (by intro h; rw [h] at hcur; simp at hcur), hcur]
    | false =>
      simp only [hl, Bool.false_eq_true, if_false] at hcur ⊢
      rw [hb.atS _ hV.1.vb (by intro h; rw [h] at hcur; simp at hcur), hcur]
  atT := by
    intro s hV hne
    obtain ⟨cur, hcur, habs⟩ := nodeAbs_cons hne
    have hsame := nodeV_same hV hne
    rw [habs]
    simp only [nodeOps_atT, nodeAtT, List.head?_cons, Option.map_some]
    rw [← hsame]
    cases hl : s.lastIsA with
    | true =>
      simp only [hl, if_true] at hcur ⊢
      rw [ha.atT _ hV.1.va (by intro h; rw [h] at hcur; simp at hcur), hcur]; rfl
    | false =>
      simp only [hl, Bool.false_eq_true, if_false] at hcur ⊢
      rw [hb.atT _ hV.1.vb (by intro h; rw [h] at hcur; simp at hcur), hcur]; rfl
  seekV := by
    intro s t hV hne
    have hl := nodeV_started hV hne
    have hlen := nodeAbs_length_le ha hb hV
    cases fixed with
    | true =>
      simp only [nodeOps_seek_fixed, nodeSeekFixed, hl, if_false]
      exact (nodeSeekLoop_spec ha hb t _ s hV hne (by omega)).1
    | false =>
      simp only [nodeOps_seek_orig, nodeSeekOrig]
      exact (nodeSeekLoop_spec ha hb t _ s hV hne (by omega)).1
  seekAbs := by
    intro s t hV hne
    have hl := nodeV_started hV hne
    have hlen := nodeAbs_length_le ha hb hV
    cases fixed with
    | true =>
      simp only [nodeOps_seek_fixed, nodeSeekFixed, hl, if_false]
      exact (nodeSeekLoop_spec ha hb t _ s hV hne (by omega)).2.1
    | false =>
      simp only [nodeOps_seek_orig, nodeSeekOrig]
      exact (nodeSeekLoop_spec ha hb t _ s hV hne (by omega)).2.1
  seekOk := by
    intro s t hV hne
    have hl := nodeV_started hV hne
    have hlen := nodeAbs_length_le ha hb hV
    cases fixed with
    | true =>
      simp only [nodeOps_seek_fixed, nodeSeekFixed, hl, if_false]
      exact (nodeSeekLoop_spec ha hb t _ s hV hne (by omega)).2.2
    | false =>
      simp only [nodeOps_seek_orig, nodeSeekOrig]
      exact (nodeSeekLoop_spec ha hb t _ s hV hne (by omega)).2.2
  nextV := by
    intro s hV _
    exact (nodeNext_spec ha hb hV.1).1
  nextAbs := by
    intro s hV hne
    obtain ⟨cur, _, habs⟩ := nodeAbs_cons hne
    rw [habs]
    exact (nodeNext_spec ha hb hV.1).2.1
  nextOk := by
    intro s hV hne
    obtain ⟨cur, _, habs⟩ := nodeAbs_cons hne
    rw [habs]
    exact (nodeNext_spec ha hb hV.1).2.2
  adjustV := fun s v hV _ => (nodeAdjust_spec ha hb v hV).1
  adjustAbs := fun s v hV _ => (nodeAdjust_spec ha hb v hV).2
  bad := by
    intro s hV
    simp [hV.1.nbad, ha.bad _ hV.1.va, hb.bad _ hV.1.vb]
  fuel := fun s hV => nodeAbs_length_le ha hb hV

/-- `newDedupSeriesIterator(a, b)` over two fresh list-like iterators that will yield `La`, `Lb`
    is a fresh list-like iterator (with the repaired `Seek`) that will yield `pm2 minT La Lb` -/
theorem node_initLike (ha : ListLike oa Va absA) (hb : ListLike ob Vb absB) {a : α} {b : β}
    {La Lb : List Sample} (ia : InitNext oa Va absA a La) (ib : InitNext ob Vb absB b Lb) :
    InitLike (nodeOps oa ob true) (nodeV Va Vb absA absB) (nodeAbs absA absB) (nodeNew oa ob a b)
      (pm2 minT La Lb) := by
  have hW : NodeW Va Vb absA absB (nodeNew oa ob a b) :=
    ⟨ia.nextV, ib.nextV, by simp only [nodeNew, ia.nextAbs]; exact ia.nextOk,
      by simp only [nodeNew, ib.nextAbs]; exact ib.nextOk, Or.inl rfl, Int.le_refl 0, Int.le_refl 0, rfl⟩
  have hfut : nodeFuture absA absB (nodeNew oa ob a b) = pm2 minT La Lb := by
    simp only [nodeFuture, seekA, seekB, nodeNew, ia.nextAbs, ib.nextAbs, Int.add_zero]
    rw [dropLt_eq_self (fun x hx => by have := ia.lower x (List.mem_of_mem_head? hx); omega),
      dropLt_eq_self (fun x hx => by have := ib.lower x (List.mem_of_mem_head? hx); omega)]
  obtain ⟨n1, n2, n3⟩ := nodeNext_spec ha hb hW
  rw [hfut] at n2 n3
  have hlow : ∀ x ∈ pm2 minT La Lb, minT < x.t := by
    intro x hx
    rcases pm2_mem hx with h | h
    · exact ia.lower x h
    · exact ib.lower x h
  have hseek : ∀ t, nodeV Va Vb absA absB (nodeSeekFixed oa ob t (nodeNew oa ob a b)).1 ∧
      nodeAbs absA absB (nodeSeekFixed oa ob t (nodeNew oa ob a b)).1 = dropLt t (pm2 minT La Lb) ∧
      (nodeSeekFixed oa ob t (nodeNew oa ob a b)).2 = !(dropLt t (pm2 minT La Lb)).isEmpty := by
    intro t
    have hl : (nodeNew oa ob a b).lastT = minT := rfl
    simp only [nodeSeekFixed, hl, if_true]
    by_cases hok : (nodeNext oa ob (nodeNew oa ob a b)).2 = true
    · simp only [hok, if_true]
      have hne : nodeAbs absA absB (nodeNext oa ob (nodeNew oa ob a b)).1 ≠ [] := by
        rw [n2]; intro h; rw [n3, h] at hok; simp at hok
      have hlen := nodeAbs_length_le ha hb n1
      have := nodeSeekLoop_spec ha hb t _ _ n1 hne (Nat.le_succ_of_le hlen)
      rw [n2] at this
      exact this
    · simp only [hok, Bool.false_eq_true, if_false]
      have he : pm2 minT La Lb = [] := by
        cases h : pm2 minT La Lb with
        | nil => rfl
        | cons x l => rw [n3, h] at hok; simp at hok
      refine ⟨n1, by rw [n2, he]; rfl, by simp [he]⟩
  exact {
    lower := hlow
    nextV := n1
    nextAbs := n2
    nextOk := n3
    seekV := fun t => (hseek t).1
    seekAbs := fun t => (hseek t).2.1
    seekOk := fun t => (hseek t).2.2
    fuel := by
      have h1 := ha.fuel _ ia.nextV
      have h2 := hb.fuel _ ib.nextV
      have h3 := pm2_length_le minT La Lb
      rw [ia.nextAbs] at h1; rw [ib.nextAbs] at h2
      simp only [nodeOps_fuel, nodeFuel, nodeNew]
      omega }

end node

/-! ### fresh list-like iterators as packages; the fold of `pm2` -/

/-- what `dedupSeries.Iterator` yields: the replicas folded from the left with `pm2` -/
def pmFold (r : List Sample) (rs : List (List Sample)) : List Sample := rs.foldl (pm2 minT) r

/-- the iterator is list-like and, being fresh, will yield `L` -/
def GoodL (i : AnyIt) (L : List Sample) : Prop :=
  ∃ (V : i.σ → Prop) (abs : i.σ → List Sample), ListLike i.ops V abs ∧ InitLike i.ops V abs i.st L

theorem drainN_spec {σ : Type} {o : Ops σ} {V : σ → Prop} {abs : σ → List Sample}
    (h : ListLike o V abs) : ∀ (n : Nat) (s : σ), V s → abs s ≠ [] →
      drainN o n s = (abs s).tail.take n := by
  intro n
  induction n with
  | zero => intro s _ _; simp [drainN]
  | succ n ih =>
    intro s hV hne
    unfold drainN
    simp only [h.nextOk s hV hne]
    cases htl : (abs s).tail with
    | nil => simp
    | cons x tl =>
      have hne' : abs (o.next s).1 ≠ [] := by rw [h.nextAbs s hV hne, htl]; simp
      simp only [List.isEmpty_cons, Bool.not_false, if_true]
      rw [h.atS _ (h.nextV s hV hne) hne', h.nextAbs s hV hne, htl]
      simp only [List.head?_cons, List.take_succ_cons]
      rw [ih _ (h.nextV s hV hne) hne', h.nextAbs s hV hne, htl]
      rfl

/-- the same with the `Next`-only laws -/
def GoodN (i : AnyIt) (L : List Sample) : Prop :=
  ∃ (V : i.σ → Prop) (abs : i.σ → List Sample), ListLike i.ops V abs ∧ InitNext i.ops V abs i.st L

theorem GoodL.toN {i : AnyIt} {L : List Sample} (h : GoodL i L) : GoodN i L := by
  obtain ⟨V, abs, hl, hi⟩ := h
  exact ⟨V, abs, hl, hi.toNext⟩

theorem drain_goodN {i : AnyIt} {L : List Sample} (h : GoodN i L) : drain i = L := by
  obtain ⟨V, abs, hl, hi⟩ := h
  show drainN i.ops (i.ops.fuel i.st + 1) i.st = L
  unfold drainN
  simp only [hi.nextOk]
  cases hL : L with
  | nil => simp
  | cons x tl =>
    have hne : abs (i.ops.next i.st).1 ≠ [] := by rw [hi.nextAbs, hL]; simp
    simp only [List.isEmpty_cons, Bool.not_false, if_true]
    rw [hl.atS _ hi.nextV hne, hi.nextAbs, hL]
    simp only [List.head?_cons]
    rw [drainN_spec hl _ _ hi.nextV hne, hi.nextAbs, hL]
    have := hi.fuel
    rw [hL] at this
    simp only [List.length_cons] at this
    simp only [List.tail_cons]
    rw [List.take_of_length_le (by omega)]

theorem drain_good {i : AnyIt} {L : List Sample} (h : GoodL i L) : drain i = L := by
  obtain ⟨V, abs, hl, hi⟩ := h
  show drainN i.ops (i.ops.fuel i.st + 1) i.st = L
  unfold drainN
  simp only [hi.nextOk]
  cases hL : L with
  | nil => simp
  | cons x tl =>
    have hne : abs (i.ops.next i.st).1 ≠ [] := by rw [hi.nextAbs, hL]; simp
    simp only [List.isEmpty_cons, Bool.not_false, if_true]
    rw [hl.atS _ hi.nextV hne, hi.nextAbs, hL]
    simp only [List.head?_cons]
    rw [drainN_spec hl _ _ hi.nextV hne, hi.nextAbs, hL]
    have := hi.fuel
    rw [hL] at this
    simp only [List.length_cons] at this
    simp only [List.tail_cons]
    rw [List.take_of_length_le (by omega)]

theorem pmFold_mem (rs : List (List Sample)) : ∀ (L : List Sample) (z : Sample),
    z ∈ rs.foldl (pm2 minT) L → z ∈ L ∨ ∃ q ∈ rs, z ∈ q := by
  induction rs with
  | nil => intro L z h; exact Or.inl h
  | cons r rs ih =>
    intro L z h
    rcases ih _ z h with h | ⟨q, hq, hz⟩
    · rcases pm2_mem h with h | h
      · exact Or.inl h
      · exact Or.inr ⟨r, by simp, h⟩
    · exact Or.inr ⟨q, by simp [hq], hz⟩

theorem pmFold_sorted (rs : List (List Sample)) : ∀ (L : List Sample), SSorted L →
    (∀ x ∈ L, minT < x.t) → (∀ q ∈ rs, ∀ x ∈ q, minT < x.t) →
    SSorted (rs.foldl (pm2 minT) L) := by
  induction rs with
  | nil => intro L h _ _; exact h
  | cons r rs ih =>
    intro L _ hL h
    have hr := h r (by simp)
    have := pm2_sorted (lastT := minT) (la := L) (lb := r)
      (fun x hx => hL x (List.mem_of_mem_head? hx)) (fun x hx => hr x (List.mem_of_mem_head? hx))
    exact ih _ this.1 this.2 (fun q hq => h q (by simp [hq]))

end Thanos.Dedup
