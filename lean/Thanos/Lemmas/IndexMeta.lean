import Thanos.Model.IndexHeader
import Thanos.Lemmas.Uvarint
/-
  C11 — label names, symbol lookups with the header's two caches, index format v1.
-/
namespace Thanos.IndexHeader

/-! ### LabelNames -/

theorem mem_labelNames (e : Option Nat) (l : List Nat) (x : Nat) :
    x ∈ labelNames e l ↔ x ∈ l ∧ some x ≠ e := by
  induction l with
  | nil => simp [labelNames]
  | cons a rest ih =>
    cases rest with
    | nil =>
      by_cases h : some a = e
      · simp only [labelNames, h, if_true, List.not_mem_nil, false_iff, List.mem_singleton]
        rintro ⟨rfl, hx⟩; exact hx h
      · simp only [labelNames, h, if_false, List.mem_singleton]
        constructor
        · rintro rfl; exact ⟨rfl, h⟩
        · exact fun hx => hx.1
    | cons b rest =>
      by_cases hab : a = b
      · subst hab
        simp only [labelNames, if_true, ih, List.mem_cons]
        constructor
        · rintro ⟨h, hx⟩; exact ⟨Or.inr h, hx⟩
        · rintro ⟨h | h, hx⟩
          · exact ⟨Or.inl h, hx⟩
          · exact ⟨h, hx⟩
      · simp only [labelNames, hab, if_false, List.mem_append, ih]
        by_cases h : some a = e
        · simp only [h, if_true, List.not_mem_nil, false_or]
          constructor
          · rintro ⟨hm, hx⟩; exact ⟨List.mem_cons_of_mem _ hm, hx⟩
          · rintro ⟨hm, hx⟩
            rcases List.mem_cons.mp hm with rfl | hm
            · exact absurd h hx
            · exact ⟨hm, hx⟩
        · simp only [h, if_false, List.mem_singleton]
          constructor
          · rintro (rfl | ⟨hm, hx⟩)
            · exact ⟨List.mem_cons_self, h⟩
            · exact ⟨List.mem_cons_of_mem _ hm, hx⟩
          · rintro ⟨hm, hx⟩
            rcases List.mem_cons.mp hm with rfl | hm
            · exact Or.inl rfl
            · exact Or.inr ⟨hm, hx⟩

theorem labelNames_strict (e : Option Nat) (l : List Nat) (h : l.Pairwise (· ≤ ·)) :
    (labelNames e l).Pairwise (· < ·) := by
  induction l with
  | nil => simp [labelNames]
  | cons a rest ih =>
    cases rest with
    | nil =>
      by_cases h : some a = e <;> simp [labelNames, h]
    | cons b rest =>
      have hrest := ih (List.Pairwise.of_cons h)
      by_cases hab : a = b
      · subst hab
        simpa [labelNames] using hrest
      · simp only [labelNames, hab, if_false]
        by_cases he : some a = e
        · simpa [he] using hrest
        · simp only [he, if_false, List.singleton_append]
          refine List.Pairwise.cons ?_ hrest
          intro y hy
          have hy' := ((mem_labelNames e (b :: rest) y).mp hy).1
          have hab' : a ≤ b := List.rel_of_pairwise_cons h List.mem_cons_self
          have hby : b ≤ y := by
            rcases List.mem_cons.mp hy' with rfl | hm
            · exact Nat.le_refl _
            · exact List.rel_of_pairwise_cons (List.Pairwise.of_cons h) hm
          omega

/-! ### symbols -/

/-- the reader's nameSymbols map agrees with the symbol table (it is filled with
    `symbols.ReverseLookup`, third party) -/
def NamesOK (table : Nat → Option (List Nat)) (names : List (Nat × List Nat)) : Prop :=
  ∀ o s, names.lookup o = some s → table o = some s

/-- every slot of the value-symbol cache that counts as filled holds a (reference, symbol) pair
    of the symbol table -/
def CacheOK (table : Nat → Option (List Nat)) (c : SymCache) : Prop :=
  ∀ slot, (c.get slot).2 ≠ [] → table (c.get slot).1 = some (c.get slot).2

theorem cacheOK_nil (table : Nat → Option (List Nat)) : CacheOK table [] := by
  intro slot h; simp [SymCache.get] at h

theorem get_cons (c : SymCache) (slot o : Nat) (s : List Nat) (slot' : Nat) :
    SymCache.get ((slot, o, s) :: c) slot' = if slot' = slot then (o, s) else c.get slot' := by
  unfold SymCache.get
  by_cases h : slot' = slot
  · subst h; simp [List.lookup]
  · have : (slot' == slot) = false := by simpa using h
    simp [List.lookup, this, h]

theorem lookupSymbol_ok (table : Nat → Option (List Nat)) (names : List (Nat × List Nat))
    (size shift o : Nat) (c : SymCache) (hn : NamesOK table names) (hc : CacheOK table c) :
    (lookupSymbol table names size shift o c).1 = table ((o + shift) % 4294967296) ∧
    CacheOK table (lookupSymbol table names size shift o c).2 := by
  unfold lookupSymbol
  simp only
  cases hnm : names.lookup ((o + shift) % 4294967296) with
  | some s => exact ⟨(hn _ _ hnm).symm, hc⟩
  | none =>
    simp only
    by_cases hhit : (c.get ((o + shift) % 4294967296 % size)).1 = (o + shift) % 4294967296 ∧
        (c.get ((o + shift) % 4294967296 % size)).2 ≠ []
    · rw [if_pos hhit]
      have := hc _ hhit.2
      rw [hhit.1] at this
      exact ⟨this.symm, hc⟩
    · rw [if_neg hhit]
      cases ht : table ((o + shift) % 4294967296) with
      | none => exact ⟨rfl, hc⟩
      | some s =>
        refine ⟨rfl, ?_⟩
        intro slot' hne
        rw [get_cons] at hne ⊢
        by_cases hs : slot' = (o + shift) % 4294967296 % size
        · simp only [hs, if_true] at hne ⊢; exact ht
        · simp only [hs, if_false] at hne ⊢; exact hc _ hne

theorem lookupSymbols_ok (table : Nat → Option (List Nat)) (names : List (Nat × List Nat))
    (size shift : Nat) (hn : NamesOK table names) (os : List Nat) :
    ∀ (c : SymCache), CacheOK table c →
      lookupSymbols table names size shift os c = os.map fun o => table ((o + shift) % 4294967296) := by
  induction os with
  | nil => intro c _; rfl
  | cons o os ih =>
    intro c hc
    have h := lookupSymbol_ok table names size shift o c hn hc
    simp only [lookupSymbols, List.map_cons]
    rw [ih _ h.2, h.1]

/-! ### index format v1 -/

theorem rangesV1_length_le (e lastEnd : Nat) (tbl : List EntryV1) :
    (rangesV1 e lastEnd tbl).length ≤ tbl.length := by
  induction tbl with
  | nil => simp [rangesV1]
  | cons a rest ih =>
    obtain ⟨n, v, off⟩ := a
    cases rest with
    | nil => by_cases h : n = e <;> simp [rangesV1, h]
    | cons b rest =>
      obtain ⟨n', v', off'⟩ := b
      simp only [rangesV1, List.length_cons] at ih ⊢
      omega

/-- what `init` stores for the i-th entry of a v1 table: its posting list starts 4 bytes after the
    entry's offset and ends 4 bytes before the next entry's offset -/
theorem rangesV1_inner (e lastEnd : Nat) (tbl : List EntryV1) (i : Nat) (a b : EntryV1)
    (ha : tbl[i]? = some a) (hb : tbl[i + 1]? = some b) :
    (rangesV1 e lastEnd tbl)[i]? = some ((a.1, a.2.1), ⟨(a.2.2 : Int) + 4, (b.2.2 : Int) - 4⟩) := by
  induction tbl generalizing i with
  | nil => simp at ha
  | cons x rest ih =>
    obtain ⟨n, v, off⟩ := x
    cases rest with
    | nil => simp at hb
    | cons y rest =>
      obtain ⟨n', v', off'⟩ := y
      cases i with
      | zero =>
        simp at ha hb
        subst ha; subst hb
        simp [rangesV1]
      | succ i =>
        simp only [rangesV1, List.getElem?_cons_succ] at ha hb ⊢
        exact ih i ha hb

/-- … and the very last entry's ends 4 bytes before the end of the postings section — unless its
    label name is the empty string, in which case it is not stored -/
theorem rangesV1_last (e lastEnd : Nat) (tbl : List EntryV1) (a : EntryV1)
    (ha : tbl.getLast? = some a) :
    (rangesV1 e lastEnd tbl)[tbl.length - 1]? =
      if a.1 = e then none else some ((a.1, a.2.1), ⟨(a.2.2 : Int) + 4, (lastEnd : Int) - 4⟩) := by
  induction tbl with
  | nil => simp at ha
  | cons x rest ih =>
    obtain ⟨n, v, off⟩ := x
    cases rest with
    | nil =>
      simp at ha; subst ha
      by_cases h : n = e <;> simp [rangesV1, h]
    | cons y rest =>
      obtain ⟨n', v', off'⟩ := y
      have ha' : ((n', v', off') :: rest).getLast? = some a := by
        simpa [List.getLast?_cons_cons] using ha
      have := ih ha'
      simp only [rangesV1, List.length_cons] at this ⊢
      simpa using this

/-- the code as it was answers like the repaired code as long as every requested value exists -/
theorem lookupV1_old_partial (e lastEnd : Nat) (tbl : List EntryV1) (name : Nat) (values : List Nat)
    (hall : ∀ v ∈ values, ((rangesV1 e lastEnd tbl).reverse.lookup (name, v)).isSome) :
    lookupV1 true e lastEnd tbl name values = lookupV1 false e lastEnd tbl name values := by
  unfold lookupV1
  by_cases hk : (!(tbl.any fun e => e.1 = name)) = true
  · simp [hk]
  · simp only [hk, if_false, Bool.false_eq_true, if_true]
    induction values with
    | nil => rfl
    | cons v vs ih =>
      have hv := hall v List.mem_cons_self
      cases hl : (rangesV1 e lastEnd tbl).reverse.lookup (name, v) with
      | none => simp [hl] at hv
      | some r =>
        simp only [List.filterMap_cons, hl, List.map_cons, Option.getD_some]
        rw [ih (fun w hw => hall w (List.mem_cons_of_mem _ hw))]

theorem lookupV1_length (e lastEnd : Nat) (tbl : List EntryV1) (name : Nat) (values : List Nat)
    (hk : (tbl.any fun e => e.1 = name) = true) :
    (lookupV1 false e lastEnd tbl name values).length = values.length := by
  unfold lookupV1
  simp [hk]

/-! ### bytes of a table entry -/

open Thanos.Uvarint

theorem decUvarint_uvarint (n : Nat) (rest : List Nat) (hn : n < 2 ^ 64) :
    decUvarint (uvarint n ++ rest) = (n, rest) := by
  unfold decUvarint
  rw [unuvarint_uvarint n rest hn]
  simp

theorem decUvarintBytes_bytes (bs rest : List Nat) (hn : bs.length < 2 ^ 64) :
    decUvarintBytes (uvarint bs.length ++ bs ++ rest) = (bs, rest) := by
  unfold decUvarintBytes
  rw [List.append_assoc, decUvarint_uvarint _ _ hn]
  simp

theorem uvarint_two : uvarint 2 = [2] := by rw [uvarint_eq]; simp

/-- the first entry visited: key count and name are decoded, what remains is value and offset, and
    the remembered length is the length of what was decoded -/
theorem skip_measure (name value : List Nat) (off : Nat) (rest : List Nat) (hn : name.length < 2 ^ 64) :
    skipNAndName (entryBytes name value off ++ rest) 0 =
      (uvarint value.length ++ value ++ uvarint off ++ rest, nameSkipLen name) := by
  unfold skipNAndName entryBytes
  simp only [if_true]
  have h1 : decUvarint (uvarint 2 ++ (uvarint name.length ++ name) ++ (uvarint value.length ++ value ++ uvarint off) ++ rest)
      = (2, uvarint name.length ++ name ++ ((uvarint value.length ++ value ++ uvarint off) ++ rest)) := by
    have := decUvarint_uvarint 2 (uvarint name.length ++ name ++ ((uvarint value.length ++ value ++ uvarint off) ++ rest)) (by decide)
    simpa [List.append_assoc] using this
  rw [h1]
  simp only
  rw [decUvarintBytes_bytes name _ hn]
  simp only [uvarint_two, nameSkipLen, List.length_append, List.length_cons, List.length_nil, Prod.mk.injEq]
  refine ⟨by simp [List.append_assoc], by omega⟩

/-- every further entry of the same label name: skipping the remembered length lands on the value -/
theorem skip_again (name value : List Nat) (off : Nat) (rest : List Nat) :
    skipNAndName (entryBytes name value off ++ rest) (nameSkipLen name) =
      (uvarint value.length ++ value ++ uvarint off ++ rest, nameSkipLen name) := by
  unfold skipNAndName
  have hpos : nameSkipLen name ≠ 0 := by unfold nameSkipLen; omega
  simp only [hpos, if_false, Prod.mk.injEq, and_true]
  unfold entryBytes nameSkipLen
  rw [uvarint_two]
  have : ([2] ++ (uvarint name.length ++ name) ++ (uvarint value.length ++ value ++ uvarint off) ++ rest)
      = ([2] ++ (uvarint name.length ++ name)) ++ (uvarint value.length ++ value ++ uvarint off ++ rest) := by
    simp [List.append_assoc]
  rw [this, List.drop_left' (by simp; omega)]

theorem uvarint_length_one_iff (n : Nat) : (uvarint n).length = 1 ↔ n < 128 := by
  rw [uvarint_eq]
  by_cases h : n < 128
  · simp [h]
  · simp only [h, if_false, List.length_cons, iff_false]
    have := uvarint_length_pos (n / 128)
    omega

end Thanos.IndexHeader
