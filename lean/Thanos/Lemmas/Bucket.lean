import Thanos.Model.Bucket
/-
  Helper lemmas for C28 / C35: finite-map laws of the bucket, the consistency invariant `Good`,
  the step relation `SafeOp` that preserves it, prefixes (= crash points) of op lists, and the
  interpreter `exec` as "apply a prefix of the mutating calls".
-/
namespace Thanos.Bucket

-- ---------------------------------------------------------------- finite map laws

theorem get_del (s : Bucket) (k k' : Key) : get (del s k) k' = if k' = k then none else get s k' := by
  induction s with
  | nil => simp [del, get]
  | cons p s ih =>
    obtain ⟨kp, o⟩ := p
    by_cases h : kp = k
    · subst h
      have : del ((kp, o) :: s) kp = del s kp := by simp [del, List.filter]
      rw [this, ih]
      by_cases h' : k' = kp
      · simp [h']
      · have : ¬ kp = k' := fun e => h' e.symm
        simp [h', get, this]
    · have : del ((kp, o) :: s) k = (kp, o) :: del s k := by simp [del, List.filter, h]
      rw [this]
      simp only [get]
      by_cases h' : kp = k'
      · subst h'
        simp [h]
      · simp [h', ih]

theorem get_put (s : Bucket) (k : Key) (o : Obj) (k' : Key) :
    get (put s k o) k' = if k' = k then some o else get s k' := by
  simp only [put, get]
  by_cases h : k = k'
  · subst h; simp
  · have : ¬ k' = k := fun e => h e.symm
    simp [h, this, get_del]

theorem applyAll_nil (s : Bucket) : applyAll s [] = s := rfl
theorem applyAll_cons (s : Bucket) (op : Op) (ops : List Op) :
    applyAll s (op :: ops) = applyAll (apply s op) ops := rfl
theorem applyAll_append (s : Bucket) (a b : List Op) :
    applyAll s (a ++ b) = applyAll (applyAll s a) b := by
  simp [applyAll, List.foldl_append]

-- ---------------------------------------------------------------- the world and the invariant

/-- names that are never data files of a block -/
def reserved : List String := [metaName, markName, noCompactName, dirMarkerChunks, dirMarkerBlock]

/-- a block directory is well formed: no two files share a name, and no chunk/index file is
    called like a meta file, a marker or a directory marker -/
def WFBlock (b : Block) : Prop :=
  (∀ f a c, (f, a) ∈ b.files → (f, c) ∈ b.files → a = c) ∧ (∀ f sz, (f, sz) ∈ b.files → f ∉ reserved)

def WF (w : Nat → Block) : Prop := ∀ n, WFBlock (w n)

theorem nodup_fst_unique : ∀ {l : List (String × Nat)}, (l.map (·.1)).Nodup →
    ∀ f a c, (f, a) ∈ l → (f, c) ∈ l → a = c
  | [], _, _, _, _, h, _ => by simp at h
  | p :: l, hn, f, a, c, h1, h2 => by
    simp only [List.map_cons, List.nodup_cons, List.mem_map, not_exists, not_and] at hn
    rcases List.mem_cons.mp h1 with e1 | h1' <;> rcases List.mem_cons.mp h2 with e2 | h2'
    · rw [← e1] at e2; exact (Prod.mk.inj e2).2.symm
    · exact absurd (by rw [← e1]) (hn.1 (f, c) h2')
    · exact absurd (by rw [← e2]) (hn.1 (f, a) h1')
    · exact nodup_fst_unique hn.2 f a c h1' h2'

/-- decidable sufficient condition for `WFBlock` (used for concrete examples) -/
theorem wfBlock_of_nodup (b : Block) (h1 : (b.files.map (·.1)).Nodup)
    (h2 : ∀ p ∈ b.files, p.1 ∉ reserved) : WFBlock b :=
  ⟨nodup_fst_unique h1, fun f sz h => h2 (f, sz) h⟩

def Visible (s : Bucket) (n : Nat) : Prop := (get s (n, metaName)).isSome = true

instance (s : Bucket) (n : Nat) : Decidable (Visible s n) := by unfold Visible; infer_instance

theorem mem_insertName (x a : String) : ∀ l : List String, x ∈ insertName a l ↔ x = a ∨ x ∈ l
  | [] => by simp [insertName]
  | y :: ys => by
    unfold insertName
    split
    · simp
    · simp only [List.mem_cons, mem_insertName x a ys]
      constructor
      · rintro (h | h | h)
        · exact Or.inr (Or.inl h)
        · exact Or.inl h
        · exact Or.inr (Or.inr h)
      · rintro (h | h | h)
        · exact Or.inr (Or.inl h)
        · exact Or.inl h
        · exact Or.inr (Or.inr h)

theorem mem_sortNames (x : String) : ∀ l : List String, x ∈ sortNames l ↔ x ∈ l
  | [] => by simp [sortNames]
  | y :: ys => by
    have ih := mem_sortNames x ys
    simp only [sortNames, List.foldr_cons] at ih ⊢
    rw [mem_insertName, ih]
    simp

/-- all the files the meta.json in the bucket lists are there with the recorded sizes -/
def Complete (s : Bucket) (n : Nat) : Prop :=
  ∃ r files, get s (n, metaName) = some (.metaJson r files) ∧
    ∀ f sz, (f, sz) ∈ files → get s (n, f) = some (.data sz)

/-- The invariant: (1) a chunk/index object has the size of the (immutable) local file,
    (2) a meta.json lists exactly the block's files, (3) visible ⇒ every file present. -/
structure Good (w : Nat → Block) (s : Bucket) : Prop where
  sizes : ∀ n f sz o, (f, sz) ∈ (w n).files → get s (n, f) = some o → o = .data sz
  metas : ∀ n o, get s (n, metaName) = some o → ∃ r, o = .metaJson r (w n).files
  present : ∀ n, Visible s n → ∀ f sz, (f, sz) ∈ (w n).files → (get s (n, f)).isSome = true

theorem Good.complete {w : Nat → Block} {s : Bucket} (h : Good w s) (n : Nat) (hv : Visible s n) :
    Complete s n := by
  unfold Visible at hv
  cases hm : get s (n, metaName) with
  | none => simp [hm] at hv
  | some o =>
    obtain ⟨r, rfl⟩ := h.metas n o hm
    refine ⟨r, (w n).files, hm, ?_⟩
    intro f sz hf
    have hp := h.present n (by simp [Visible, hm]) f sz hf
    cases hg : get s (n, f) with
    | none => simp [hg] at hp
    | some o' => rw [h.sizes n f sz o' hf hg]

theorem good_empty (w : Nat → Block) : Good w [] :=
  ⟨by intro n f sz o _ h; simp [get] at h, by intro n o h; simp [get] at h,
   by intro n hv; simp [Visible, get] at hv⟩

/-- the steps that keep `Good` -/
inductive SafeOp (w : Nat → Block) (s : Bucket) : Op → Prop where
  | putData (n : Nat) (f : String) (sz : Nat) : (f, sz) ∈ (w n).files → SafeOp w s (.put (n, f) (.data sz))
  | putOther (n : Nat) (f : String) (sz : Nat) : f ≠ metaName → (∀ z, (f, z) ∉ (w n).files) →
      SafeOp w s (.put (n, f) (.data sz))
  | putMeta (n : Nat) (r : Bool) : (∀ f sz, (f, sz) ∈ (w n).files → (get s (n, f)).isSome = true) →
      SafeOp w s (.put (n, metaName) (.metaJson r (w n).files))
  | delMeta (n : Nat) : SafeOp w s (.del (n, metaName))
  | delInvisible (n : Nat) (f : String) : ¬ Visible s n → SafeOp w s (.del (n, f))
  | delOther (n : Nat) (f : String) : (∀ z, (f, z) ∉ (w n).files) → SafeOp w s (.del (n, f))

theorem meta_not_file {w : Nat → Block} (hw : WF w) (n : Nat) (z : Nat) : (metaName, z) ∉ (w n).files := by
  intro h
  exact (hw n).2 metaName z h (by simp [reserved])

theorem good_apply {w : Nat → Block} (hw : WF w) {s : Bucket} (hs : Good w s) {op : Op}
    (hop : SafeOp w s op) : Good w (apply s op) := by
  cases hop with
  | putData n f sz hf =>
    have hfm : f ≠ metaName := by
      intro e; subst e; exact meta_not_file hw n sz hf
    refine ⟨?_, ?_, ?_⟩
    · intro n' f' sz' o hf' hg
      simp only [apply, get_put] at hg
      split at hg
      · rename_i e
        cases e
        cases hg
        rw [(hw n).1 f sz sz' hf hf']
      · exact hs.sizes n' f' sz' o hf' hg
    · intro n' o hg
      simp only [apply, get_put] at hg
      split at hg
      · rename_i e
        cases e
        exact absurd rfl hfm
      · exact hs.metas n' o hg
    · intro n' hv f' sz' hf'
      simp only [Visible, apply, get_put] at hv
      simp only [apply, get_put]
      split
      · rfl
      · split at hv
        · rename_i e
          cases e
          exact absurd rfl hfm
        · exact hs.present n' hv f' sz' hf'
  | putOther n f sz hfm hnf =>
    refine ⟨?_, ?_, ?_⟩
    · intro n' f' sz' o hf' hg
      simp only [apply, get_put] at hg
      split at hg
      · rename_i e
        cases e
        exact absurd hf' (hnf sz')
      · exact hs.sizes n' f' sz' o hf' hg
    · intro n' o hg
      simp only [apply, get_put] at hg
      split at hg
      · rename_i e
        cases e
        exact absurd rfl hfm
      · exact hs.metas n' o hg
    · intro n' hv f' sz' hf'
      simp only [Visible, apply, get_put] at hv
      simp only [apply, get_put]
      split
      · rfl
      · split at hv
        · rename_i e
          cases e
          exact absurd rfl hfm
        · exact hs.present n' hv f' sz' hf'
  | putMeta n r hall =>
    refine ⟨?_, ?_, ?_⟩
    · intro n' f' sz' o hf' hg
      simp only [apply, get_put] at hg
      split at hg
      · rename_i e
        cases e
        exact absurd hf' (meta_not_file hw n sz')
      · exact hs.sizes n' f' sz' o hf' hg
    · intro n' o hg
      simp only [apply, get_put] at hg
      split at hg
      · rename_i e
        cases e
        cases hg
        exact ⟨r, rfl⟩
      · exact hs.metas n' o hg
    · intro n' hv f' sz' hf'
      simp only [Visible, apply, get_put] at hv
      simp only [apply, get_put]
      split
      · rfl
      · split at hv
        · rename_i e
          cases e
          exact hall f' sz' hf'
        · exact hs.present n' hv f' sz' hf'
  | delMeta n =>
    refine ⟨?_, ?_, ?_⟩
    · intro n' f' sz' o hf' hg
      simp only [apply, get_del] at hg
      split at hg
      · cases hg
      · exact hs.sizes n' f' sz' o hf' hg
    · intro n' o hg
      simp only [apply, get_del] at hg
      split at hg
      · cases hg
      · exact hs.metas n' o hg
    · intro n' hv f' sz' hf'
      simp only [Visible, apply, get_del] at hv
      split at hv
      · cases hv
      · rename_i hne
        simp only [apply, get_del]
        split
        · rename_i e
          cases e
          exact absurd hf' (meta_not_file hw n sz')
        · exact hs.present n' hv f' sz' hf'
  | delInvisible n f hinv =>
    refine ⟨?_, ?_, ?_⟩
    · intro n' f' sz' o hf' hg
      simp only [apply, get_del] at hg
      split at hg
      · cases hg
      · exact hs.sizes n' f' sz' o hf' hg
    · intro n' o hg
      simp only [apply, get_del] at hg
      split at hg
      · cases hg
      · exact hs.metas n' o hg
    · intro n' hv f' sz' hf'
      simp only [Visible, apply, get_del] at hv
      split at hv
      · cases hv
      · simp only [apply, get_del]
        split
        · rename_i e
          cases e
          exact absurd hv hinv
        · exact hs.present n' hv f' sz' hf'
  | delOther n f hnf =>
    refine ⟨?_, ?_, ?_⟩
    · intro n' f' sz' o hf' hg
      simp only [apply, get_del] at hg
      split at hg
      · cases hg
      · exact hs.sizes n' f' sz' o hf' hg
    · intro n' o hg
      simp only [apply, get_del] at hg
      split at hg
      · cases hg
      · exact hs.metas n' o hg
    · intro n' hv f' sz' hf'
      simp only [Visible, apply, get_del] at hv
      split at hv
      · cases hv
      · simp only [apply, get_del]
        split
        · rename_i e
          cases e
          exact absurd hf' (hnf sz')
        · exact hs.present n' hv f' sz' hf'

/-- every op of the list is safe in the state it is applied in -/
def SafeRun (w : Nat → Block) : Bucket → List Op → Prop
  | _, [] => True
  | s, op :: ops => SafeOp w s op ∧ SafeRun w (apply s op) ops

theorem safeRun_append {w : Nat → Block} : ∀ (a b : List Op) (s : Bucket),
    SafeRun w s (a ++ b) ↔ SafeRun w s a ∧ SafeRun w (applyAll s a) b
  | [], b, s => by simp [SafeRun, applyAll]
  | op :: a, b, s => by
    simp only [List.cons_append, SafeRun, applyAll_cons, safeRun_append a b (apply s op), and_assoc]

/-- `Good` at every crash point (= after every prefix of the op list) -/
theorem good_prefix {w : Nat → Block} (hw : WF w) : ∀ (ops : List Op) (s : Bucket), Good w s →
    SafeRun w s ops → ∀ k, Good w (applyAll s (ops.take k))
  | [], s, hs, _, k => by simpa [applyAll] using hs
  | op :: ops, s, hs, hr, 0 => by simpa [applyAll] using hs
  | op :: ops, s, hs, hr, k + 1 => by
    simp only [List.take_succ_cons, applyAll_cons]
    exact good_prefix hw ops (apply s op) (good_apply hw hs hr.1) hr.2 k

theorem good_all {w : Nat → Block} (hw : WF w) (ops : List Op) (s : Bucket) (hs : Good w s)
    (hr : SafeRun w s ops) : Good w (applyAll s ops) := by
  have := good_prefix hw ops s hs hr ops.length
  simpa using this

-- ---------------------------------------------------------------- the interpreter = a prefix of the mutating calls

theorem exec_none : ∀ (sc : List Call) (s : Bucket),
    (exec none sc s).trace = muts sc ∧ (exec none sc s).bkt = applyAll s (muts sc) ∧ (exec none sc s).ok = true
  | [], s => by simp [exec, muts, applyAll]
  | .rd :: cs, s => by simpa [exec, muts, crashed] using exec_none cs s
  | .mu op :: cs, s => by
    have := exec_none cs (apply s op)
    simp [exec, muts, crashed, dec, applyAll_cons, this]
  | .muIgn op :: cs, s => by
    have := exec_none cs (apply s op)
    simp [exec, muts, crashed, dec, applyAll_cons, this]

theorem exec_some : ∀ (sc : List Call) (k : Nat) (s : Bucket),
    (exec (some k) sc s).trace = (muts sc).take k ∧
    (exec (some k) sc s).bkt = applyAll s ((muts sc).take k)
  | [], k, s => by simp [exec, muts, applyAll]
  | .rd :: cs, 0, s => by simp [exec, muts, crashed, applyAll]
  | .rd :: cs, k + 1, s => by simpa [exec, muts, crashed] using exec_some cs (k + 1) s
  | .mu op :: cs, 0, s => by simp [exec, muts, crashed, applyAll]
  | .mu op :: cs, k + 1, s => by
    have := exec_some cs k (apply s op)
    simp [exec, muts, crashed, dec, applyAll_cons, this]
  | .muIgn op :: cs, 0, s => by
    have := exec_some cs 0 s
    simpa [exec, muts, crashed, applyAll] using this
  | .muIgn op :: cs, k + 1, s => by
    have := exec_some cs k (apply s op)
    simp [exec, muts, crashed, dec, applyAll_cons, this]

/-- the bucket after a run with any crash budget is the bucket after a prefix of the mutating
    calls of the crash-free run — and every prefix is reached by some budget -/
theorem exec_bkt (b : Option Nat) (sc : List Call) (s : Bucket) :
    ∃ k, (exec b sc s).bkt = applyAll s ((muts sc).take k) := by
  cases b with
  | none => exact ⟨(muts sc).length, by simp [(exec_none sc s).2.1]⟩
  | some k => exact ⟨k, (exec_some sc k s).2⟩

theorem good_exec {w : Nat → Block} (hw : WF w) (b : Option Nat) (sc : List Call) (s : Bucket)
    (hs : Good w s) (hr : SafeRun w s (muts sc)) : Good w (exec b sc s).bkt := by
  obtain ⟨k, hk⟩ := exec_bkt b sc s
  rw [hk]
  exact good_prefix hw _ s hs hr k

-- ---------------------------------------------------------------- put-only and del-only lists

def IsPut : Op → Prop
  | .put _ _ => True
  | .del _ => False

theorem present_apply_put {s : Bucket} {op : Op} (hp : IsPut op) (k : Key) (h : (get s k).isSome = true) :
    (get (apply s op) k).isSome = true := by
  cases op with
  | put k' o => simp only [apply, get_put]; split <;> simp [h]
  | del _ => exact absurd hp (by simp [IsPut])

theorem present_applyAll_puts : ∀ (ops : List Op) (s : Bucket), (∀ op ∈ ops, IsPut op) → ∀ k,
    (get s k).isSome = true → (get (applyAll s ops) k).isSome = true
  | [], s, _, k, h => by simpa [applyAll] using h
  | op :: ops, s, hp, k, h => by
    rw [applyAll_cons]
    exact present_applyAll_puts ops _ (fun o ho => hp o (List.mem_cons_of_mem _ ho)) k
      (present_apply_put (hp op (by simp)) k h)

/-- after a put-only list every key it puts is present -/
theorem present_after_puts : ∀ (ops : List Op) (s : Bucket), (∀ op ∈ ops, IsPut op) → ∀ k o,
    Op.put k o ∈ ops → (get (applyAll s ops) k).isSome = true
  | [], _, _, _, _, h => by simp at h
  | op :: ops, s, hp, k, o, h => by
    rw [applyAll_cons]
    have hp' : ∀ o ∈ ops, IsPut o := fun o ho => hp o (List.mem_cons_of_mem _ ho)
    rcases List.mem_cons.mp h with e | h'
    · subst e
      exact present_applyAll_puts ops _ hp' k (by simp [apply, get_put])
    · exact present_after_puts ops _ hp' k o h'

/-- a list of world-data puts is safe in any state -/
theorem safeRun_dataPuts {w : Nat → Block} : ∀ (ops : List Op) (s : Bucket),
    (∀ op ∈ ops, ∃ n f sz, op = .put (n, f) (.data sz) ∧ (f, sz) ∈ (w n).files) → SafeRun w s ops
  | [], _, _ => trivial
  | op :: ops, s, h => by
    obtain ⟨n, f, sz, rfl, hf⟩ := h op (by simp)
    exact ⟨.putData n f sz hf, safeRun_dataPuts ops _ (fun o ho => h o (List.mem_cons_of_mem _ ho))⟩

/-- deleting keys of one block: afterwards a key of the list is gone, any other is untouched -/
theorem get_applyAll_dels (n : Nat) : ∀ (fs : List String) (s : Bucket) (k : Key),
    get (applyAll s (fs.map fun f => Op.del (n, f))) k =
      if k.1 = n ∧ k.2 ∈ fs then none else get s k
  | [], s, k => by simp [applyAll]
  | f :: fs, s, k => by
    simp only [List.map_cons, applyAll_cons, get_applyAll_dels n fs, apply, get_del]
    obtain ⟨a, c⟩ := k
    by_cases h1 : a = n
    · subst h1
      by_cases h2 : c ∈ fs
      · simp [h2]
      · by_cases h3 : c = f
        · simp [h3]
        · simp [h2, h3]
    · simp [h1]

/-- deletions on an invisible block are safe and keep it invisible -/
theorem safeRun_dels_invisible {w : Nat → Block} (n : Nat) : ∀ (fs : List String) (s : Bucket),
    ¬ Visible s n → SafeRun w s (fs.map fun f => Op.del (n, f))
  | [], _, _ => trivial
  | f :: fs, s, h => by
    refine ⟨.delInvisible n f h, safeRun_dels_invisible n fs _ ?_⟩
    simp only [Visible, apply, get_del]
    split
    · simp
    · exact h

end Thanos.Bucket
