import Thanos.Model.ChunkMerge
import Thanos.Lemmas.ListLike
/-
  C40 helper lemmas: the XOR chunk iterator is list-like; `toChunk` (repaired) over a list-like
  iterator cuts exactly the window `[mint, maxt]` out of the remaining samples.
-/
namespace Thanos.Dedup

/-! ### chunkenc.xorIterator is list-like -/

def xorAbs (s : XorIt) : List Sample := if s.done then [] else s.cur :: s.rest

def xorV (s : XorIt) : Prop := (s.started = true ∨ s.done = true) ∧ ∀ x ∈ xorAbs s, minT < x.t

theorem xorV_started {s : XorIt} (h : xorV s) (hd : s.done = false) : s.started = true := by
  rcases h.1 with h | h
  · exact h
  · rw [hd] at h; cases h

@[simp] theorem xorOps_next : xorOps.next = xorNext := rfl
@[simp] theorem xorOps_seek (t : Int) (s : XorIt) :
    xorOps.seek t s = xorSeekLoop t s.rest s.cur s.started s.done := rfl
@[simp] theorem xorOps_atS (s : XorIt) : xorOps.atS s = some s.cur := rfl
@[simp] theorem xorOps_atT (s : XorIt) : xorOps.atT s = some s.cur.t := rfl
@[simp] theorem xorOps_adjust (v : Int) (s : XorIt) : xorOps.adjust v s = s := rfl
@[simp] theorem xorOps_bad (s : XorIt) : xorOps.bad s = false := rfl
@[simp] theorem xorOps_fuel (s : XorIt) : xorOps.fuel s = s.rest.length + 1 := rfl

/-- the `Seek` loop of a started, not exhausted iterator -/
theorem xorSeekLoop_started (t : Int) : ∀ (rest : List Sample) (cur : Sample),
    (xorSeekLoop t rest cur true false).1.started = true ∧
    xorAbs (xorSeekLoop t rest cur true false).1 = dropLt t (cur :: rest) ∧
    (xorSeekLoop t rest cur true false).2 = !(dropLt t (cur :: rest)).isEmpty := by
  intro rest
  induction rest with
  | nil =>
    intro cur
    unfold xorSeekLoop
    by_cases h : t > cur.t
    · simp [h, xorAbs, dropLt_cons_lt (show cur.t < t by omega)]
    · simp [h, xorAbs, dropLt_cons_ge (show t ≤ cur.t by omega)]
  | cons x tl ih =>
    intro cur
    unfold xorSeekLoop
    by_cases h : t > cur.t
    · simp only [h, decide_true, Bool.not_true, Bool.or_false, if_true]
      rw [dropLt_cons_lt (show cur.t < t by omega)]
      exact ih x
    · simp [h, xorAbs, dropLt_cons_ge (show t ≤ cur.t by omega)]

theorem xor_listLike : ListLike xorOps xorV xorAbs where
  lower := fun s h => h.2
  atS := by
    intro s h hne
    unfold xorAbs at hne ⊢
    cases hd : s.done <;> simp [hd] at hne ⊢
  atT := by
    intro s h hne
    unfold xorAbs at hne ⊢
    cases hd : s.done <;> simp [hd] at hne ⊢
  seekV := by
    intro s t h hne
    have hd : s.done = false := by
      cases hd : s.done with
      | false => rfl
      | true => simp [xorAbs, hd] at hne
    obtain ⟨h1, h2, _⟩ := xorSeekLoop_started t s.rest s.cur
    simp only [xorOps_seek, xorV_started h hd, hd]
    refine ⟨Or.inl h1, ?_⟩
    rw [h2]
    intro x hx
    exact h.2 x (by simp only [xorAbs, hd]; exact mem_of_mem_dropLt hx)
  seekAbs := by
    intro s t h hne
    have hd : s.done = false := by
      cases hd : s.done with
      | false => rfl
      | true => simp [xorAbs, hd] at hne
    simp only [xorOps_seek, xorV_started h hd, hd]
    rw [(xorSeekLoop_started t s.rest s.cur).2.1]
    simp [xorAbs, hd]
  seekOk := by
    intro s t h hne
    have hd : s.done = false := by
      cases hd : s.done with
      | false => rfl
      | true => simp [xorAbs, hd] at hne
    simp only [xorOps_seek, xorV_started h hd, hd]
    rw [(xorSeekLoop_started t s.rest s.cur).2.2]
    simp [xorAbs, hd]
  nextV := by
    intro s h hne
    have hd : s.done = false := by
      cases hd : s.done with
      | false => rfl
      | true => simp [xorAbs, hd] at hne
    simp only [xorOps_next, xorNext]
    cases hr : s.rest with
    | nil => exact ⟨Or.inr rfl, by simp [xorAbs]⟩
    | cons x tl =>
      refine ⟨Or.inl rfl, ?_⟩
      intro y hy
      apply h.2 y
      simp only [xorAbs, hd, hr, Bool.false_eq_true, if_false] at hy ⊢
      exact List.mem_cons_of_mem _ hy
  nextAbs := by
    intro s h hne
    have hd : s.done = false := by
      cases hd : s.done with
      | false => rfl
      | true => simp [xorAbs, hd] at hne
    simp only [xorOps_next, xorNext]
    cases hr : s.rest <;> simp [xorAbs, hd, hr]
  nextOk := by
    intro s h hne
    have hd : s.done = false := by
      cases hd : s.done with
      | false => rfl
      | true => simp [xorAbs, hd] at hne
    simp only [xorOps_next, xorNext]
    cases hr : s.rest <;> simp [xorAbs, hd, hr]
  adjustV := fun s v h _ => h
  adjustAbs := fun s v _ _ => rfl
  bad := fun s _ => rfl
  fuel := by
    intro s _
    unfold xorAbs
    cases s.done <;> simp

theorem xor_initLike (l : List Sample) (h : ∀ x ∈ l, minT < x.t) :
    InitLike xorOps xorV xorAbs (XorIt.init l) l := by
  have hseek : ∀ t, ((xorSeekLoop t l ⟨0, 0⟩ false false).1.started = true ∨
        (xorSeekLoop t l ⟨0, 0⟩ false false).1.done = true) ∧
      xorAbs (xorSeekLoop t l ⟨0, 0⟩ false false).1 = dropLt t l ∧
      (xorSeekLoop t l ⟨0, 0⟩ false false).2 = !(dropLt t l).isEmpty := by
    intro t
    cases l with
    | nil => simp [xorSeekLoop, xorAbs]
    | cons x tl =>
      unfold xorSeekLoop
      simp only [Bool.not_false, Bool.or_true, if_true]
      exact ⟨Or.inl (xorSeekLoop_started t tl x).1, (xorSeekLoop_started t tl x).2⟩
  exact {
    lower := h
    nextV := by
      simp only [xorOps_next, xorNext, XorIt.init]
      cases l with
      | nil => exact ⟨Or.inr rfl, by simp [xorAbs]⟩
      | cons x tl => exact ⟨Or.inl rfl, by simpa [xorAbs] using h⟩
    nextAbs := by
      simp only [xorOps_next, xorNext, XorIt.init]
      cases l <;> simp [xorAbs]
    nextOk := by
      simp only [xorOps_next, xorNext, XorIt.init]
      cases l <;> simp
    seekV := by
      intro t
      simp only [xorOps_seek, XorIt.init]
      refine ⟨(hseek t).1, ?_⟩
      rw [(hseek t).2.1]
      exact fun x hx => h x (mem_of_mem_dropLt hx)
    seekAbs := fun t => (hseek t).2.1
    seekOk := fun t => (hseek t).2.2
    fuel := by simp only [xorOps_fuel, XorIt.init]; omega }

/-! ### `toChunk` over a list-like iterator -/

def takeLe (maxt : Int) (l : List Sample) : List Sample := l.takeWhile (fun s => decide (s.t ≤ maxt))
def dropLe (maxt : Int) (l : List Sample) : List Sample := l.dropWhile (fun s => decide (s.t ≤ maxt))

section toChunk
variable {σ : Type} {o : Ops σ} {V : σ → Prop} {abs : σ → List Sample}

/-- the `for it.Next() != ValNone` loop from a positioned state whose later samples all lie at
    or after `mint`: it appends the samples up to `maxt` and stops on the first one beyond -/
theorem toChunkLoop_spec (h : ListLike o V abs) (mint maxt : Int) :
    ∀ (n : Nat) (s : σ) (c : Sample) (rest : List Sample), V s → abs s = c :: rest →
      (∀ y ∈ rest, mint ≤ y.t) → rest.length + 1 ≤ n →
      ∃ s', toChunkLoop o mint maxt n s = some (s', takeLe maxt rest) ∧ V s' ∧
        abs s' = dropLe maxt rest := by
  intro n
  induction n with
  | zero => intro s c rest _ _ _ hn; omega
  | succ n ih =>
    intro s c rest hV habs hge hn
    have hne : abs s ≠ [] := by rw [habs]; simp
    have hV' := h.nextV s hV hne
    have habs' : abs (o.next s).1 = rest := by rw [h.nextAbs s hV hne, habs]; rfl
    have hok : (o.next s).2 = !rest.isEmpty := by rw [h.nextOk s hV hne, habs]; rfl
    unfold toChunkLoop bNext
    cases hr : rest with
    | nil =>
      rw [hr] at hok
      simp only [hok, List.isEmpty_nil, Bool.not_true, Bool.not_false, if_true]
      exact ⟨_, rfl, hV', by rw [habs', hr]; rfl⟩
    | cons x tl =>
      rw [hr] at hok habs'
      have hne' : abs (o.next s).1 ≠ [] := by rw [habs']; simp
      have hat : o.atT (o.next s).1 = some x.t := by rw [h.atT _ hV' hne', habs']; rfl
      have hxm : ¬ x.t < mint := by have := hge x (by rw [hr]; simp); omega
      simp only [hok, List.isEmpty_cons, Bool.not_false, Bool.not_true, Bool.false_eq_true, if_false,
        hat, hxm]
      by_cases hle : x.t ≤ maxt
      · simp only [hle, decide_true]
        rw [h.atS _ hV' hne', habs']
        simp only [List.head?_cons]
        obtain ⟨s', hs', hV'', habs''⟩ := ih (o.next s).1 x tl hV' habs'
          (fun y hy => hge y (by rw [hr]; simp [hy])) (by rw [hr] at hn; simp at hn; omega)
        refine ⟨s', ?_, hV'', ?_⟩
        · rw [hs']; simp [takeLe, hle]
        · rw [habs'']; simp [dropLe, hle]
      · simp only [hle, decide_false]
        refine ⟨_, ?_, hV', ?_⟩
        · simp [takeLe, hle]
        · rw [habs']; simp [dropLe, hle]

/-- the seek laws at a state, with the list `L` it still holds: a fresh state or a positioned one -/
structure Ready (o : Ops σ) (V : σ → Prop) (abs : σ → List Sample) (s : σ) (L : List Sample) : Prop where
  seekV : ∀ t, V (o.seek t s).1
  seekAbs : ∀ t, abs (o.seek t s).1 = dropLt t L
  seekOk : ∀ t, (o.seek t s).2 = !(dropLt t L).isEmpty

theorem ready_of_init {s : σ} {L : List Sample} (hi : InitLike o V abs s L) : Ready o V abs s L :=
  ⟨hi.seekV, hi.seekAbs, hi.seekOk⟩

theorem ready_of_V (h : ListLike o V abs) {s : σ} (hV : V s) (hne : abs s ≠ []) : Ready o V abs s (abs s) :=
  ⟨fun t => h.seekV s t hV hne, fun t => h.seekAbs s t hV hne, fun t => h.seekOk s t hV hne⟩

/-- the repaired `toChunk` loop on a time-sorted list: the window `[mint, maxt]` is cut out and
    the iterator is left on the first sample beyond it -/
theorem toChunkFixed_spec (h : ListLike o V abs) (mint maxt : Int) (hmm : mint ≤ maxt) {s : σ}
    {L : List Sample} (hr : Ready o V abs s L) (hs : SSorted L) :
    ∃ s', toChunkFixed o mint maxt s = some (s', takeLe maxt (dropLt mint L)) ∧ V s' ∧
      abs s' = dropLe maxt (dropLt mint L) := by
  unfold toChunkFixed bSeek
  have h1 : ¬ mint > maxt := by omega
  simp only [h1, if_false, Int.lt_irrefl, hr.seekOk mint]
  cases hD : dropLt mint L with
  | nil =>
    simp only [List.isEmpty_nil, Bool.not_true, Bool.not_false, if_true]
    exact ⟨_, rfl, hr.seekV mint, by rw [hr.seekAbs, hD]; rfl⟩
  | cons x rest =>
    have hV' := hr.seekV mint
    have habs' : abs (o.seek mint s).1 = x :: rest := by rw [hr.seekAbs, hD]
    have hne' : abs (o.seek mint s).1 ≠ [] := by rw [habs']; simp
    simp only [List.isEmpty_cons, Bool.not_false, Bool.not_true, Bool.false_eq_true, if_false]
    rw [h.atT _ hV' hne', h.atS _ hV' hne', habs']
    simp only [List.head?_cons, Option.map_some]
    have hsD : SSorted (x :: rest) := by rw [← hD]; exact ssorted_dropLt mint hs
    have hxm : mint ≤ x.t := head_dropLt_ge (by rw [hD]; rfl)
    by_cases hle : x.t ≤ maxt
    · simp only [hle, if_true]
      have hfuel := h.fuel _ hV'
      rw [habs'] at hfuel
      simp only [List.length_cons] at hfuel
      obtain ⟨s', hs', hV'', habs''⟩ := toChunkLoop_spec h mint maxt (o.fuel (o.seek mint s).1 + 2)
        (o.seek mint s).1 x rest hV' habs'
        (fun y hy => by have := (List.pairwise_cons.mp hsD).1 y hy; omega) (by omega)
      refine ⟨s', ?_, hV'', ?_⟩
      · rw [hs']; simp [takeLe, hle]
      · rw [habs'']; simp [dropLe, hle]
    · simp only [hle, if_false]
      refine ⟨_, ?_, hV', ?_⟩
      · simp [takeLe, hle]
      · rw [habs']; simp [dropLe, hle]

end toChunk

/-! ### cutting a sorted list into consecutive windows -/

theorem takeLe_append {l r : List Sample} {maxt : Int} (hl : ∀ x ∈ l, x.t ≤ maxt)
    (hr : ∀ x, r.head? = some x → maxt < x.t) : takeLe maxt (l ++ r) = l := by
  induction l with
  | nil =>
    cases r with
    | nil => rfl
    | cons y r =>
      have := hr y rfl
      have hny : ¬ y.t ≤ maxt := by omega
      simp [takeLe, hny]
  | cons a l ih =>
    have ha := hl a (by simp)
    simp only [List.cons_append, takeLe, List.takeWhile_cons, ha, decide_true, if_true]
    congr 1
    exact ih (fun x hx => hl x (by simp [hx]))

theorem dropLe_append {l r : List Sample} {maxt : Int} (hl : ∀ x ∈ l, x.t ≤ maxt)
    (hr : ∀ x, r.head? = some x → maxt < x.t) : dropLe maxt (l ++ r) = r := by
  induction l with
  | nil =>
    cases r with
    | nil => rfl
    | cons y r =>
      have := hr y rfl
      have hny : ¬ y.t ≤ maxt := by omega
      simp [dropLe, hny]
  | cons a l ih =>
    have ha := hl a (by simp)
    simp only [List.cons_append, dropLe, List.dropWhile_cons, ha, decide_true, if_true]
    exact ih (fun x hx => hl x (by simp [hx]))

/-- in a time-sorted list every element lies between the first and the last -/
theorem ssorted_bounds {l : List Sample} (hs : SSorted l) {a b : Sample} (ha : l.head? = some a)
    (hb : l.getLast? = some b) : ∀ x ∈ l, a.t ≤ x.t ∧ x.t ≤ b.t := by
  induction l generalizing a with
  | nil => simp at ha
  | cons c l ih =>
    simp at ha; subst ha
    intro x hx
    have hp := List.pairwise_cons.mp hs
    cases l with
    | nil =>
      simp at hb hx; subst hb; subst hx; omega
    | cons d l' =>
      have hb' : (d :: l').getLast? = some b := by simpa [List.getLast?_cons_cons] using hb
      rcases List.mem_cons.mp hx with rfl | hx
      · have h1 := ih hp.2 rfl hb' d (by simp)
        have h2 := hp.1 d (by simp)
        omega
      · have h1 := ih hp.2 rfl hb' x hx
        have h2 := hp.1 d (by simp)
        omega

section windows
variable {σ : Type} {o : Ops σ} {V : σ → Prop} {abs : σ → List Sample}

/-- what the repaired `toChunk` + the end of `toChunk` make of one window -/
def finishOf (isCounter : Bool) (l : List Sample) : Option (List Sample) :=
  match l.getLast? with
  | some x => some (if isCounter then l ++ [x] else l)
  | none => none

theorem finishChunk_eq {isCounter : Bool} {l : List Sample} (h : ∀ x ∈ l, 1 ≤ x.t) :
    finishChunk isCounter l = finishOf isCounter l := by
  unfold finishChunk finishOf
  cases hl : l.getLast? with
  | none => rfl
  | some x =>
    have := h x (List.mem_of_getLast? hl)
    have hne : ¬ (x.t = 0 ∧ x.v = 0) := by omega
    simp [hne]

/-- **The windows of one aggregate.**  Drawing the windows `ls` (consecutive, non-empty pieces of
    the time-sorted list the shared iterator still holds) one after the other with the repaired
    `toChunk` yields exactly those pieces. -/
theorem toChunksGo_spec (h : ListLike o V abs) (isCounter : Bool) :
    ∀ (ls : List (List Sample)) (s : σ), Ready o V abs s ls.flatten → SSorted ls.flatten →
      (∀ l ∈ ls, l ≠ []) → (∀ x ∈ ls.flatten, 1 ≤ x.t) →
      toChunksGo o true isCounter (ls.map windowBounds) s = some (ls.map (finishOf isCounter)) := by
  intro ls
  induction ls with
  | nil => intro s _ _ _ _; rfl
  | cons l ls ih =>
    intro s hr hs hne hpos
    have hlne := hne l (by simp)
    obtain ⟨a, ha⟩ : ∃ a, l.head? = some a := by
      cases l with
      | nil => exact absurd rfl hlne
      | cons a _ => exact ⟨a, rfl⟩
    obtain ⟨b, hb⟩ : ∃ b, l.getLast? = some b := by
      cases hgl : l.getLast? with
      | none => exact absurd (List.getLast?_eq_none_iff.mp hgl) hlne
      | some b => exact ⟨b, rfl⟩
    have hflat : (l :: ls).flatten = l ++ ls.flatten := by simp
    rw [hflat] at hr hs hpos
    have hsl : SSorted l := List.Pairwise.sublist (List.sublist_append_left _ _) hs
    have hsr : SSorted ls.flatten := List.Pairwise.sublist (List.sublist_append_right _ _) hs
    have hbd := ssorted_bounds hsl ha hb
    have hcross : ∀ x, ls.flatten.head? = some x → b.t < x.t := by
      intro x hx
      exact (List.pairwise_append.mp hs).2.2 b (List.mem_of_getLast? hb) x (List.mem_of_mem_head? hx)
    have hwb : windowBounds l = (a.t, b.t) := by simp [windowBounds, ha, hb]
    simp only [List.map_cons, hwb, toChunksGo, if_true]
    have hmm : a.t ≤ b.t := (hbd a (List.mem_of_mem_head? ha)).2
    obtain ⟨s', hs', hV', habs'⟩ := toChunkFixed_spec h a.t b.t hmm hr hs
    have hdl : dropLt a.t (l ++ ls.flatten) = l ++ ls.flatten := by
      apply dropLt_eq_self
      intro x hx
      cases l with
      | nil => exact absurd rfl hlne
      | cons c l' => simp at ha hx; subst ha; subst hx; exact Int.le_refl _
    rw [hdl, takeLe_append (fun x hx => (hbd x hx).2) hcross] at hs'
    rw [hdl, dropLe_append (fun x hx => (hbd x hx).2) hcross] at habs'
    rw [hs']
    simp only
    rw [finishChunk_eq (fun x hx => hpos x (List.mem_append_left _ hx))]
    cases hls : ls with
    | nil => simp [toChunksGo]
    | cons l2 ls2 =>
      have hne2 : ls.flatten ≠ [] := by
        rw [hls]
        have := hne l2 (by simp [hls])
        cases l2 with
        | nil => exact absurd rfl this
        | cons c l2' => simp
      have hr' : Ready o V abs s' ls.flatten := by
        have := ready_of_V h hV' (by rw [habs']; exact hne2)
        rw [habs'] at this
        exact this
      have := ih s' hr' hsr (fun l' hl' => hne l' (by simp [hl']))
        (fun x hx => hpos x (List.mem_append_right _ hx))
      rw [hls] at this
      rw [this]
      rfl

end windows

end Thanos.Dedup
