import Thanos.Model.ChunkMerge
import Thanos.Lemmas.ListLike
/-
  C40 helper lemmas: the XOR chunk iterator is list-like; `toChunk` (repaired) over a list-like
  iterator cuts exactly the window `[mint, maxt]` out of the remaining samples.
-/
namespace Thanos.Dedup

/-! ### chunkenc.xorIterator is list-like -/

def xorAbs (s : XorIt) : List Sample := if s.done then [] else s.cur :: s.rest

def xorV (s : XorIt) : Prop := (s.started = true ∨ s.done = true) ∧ ∀ x ∈ xorAbs s, minT < x.t

theorem xorV_started {s : XorIt} (h : xorV s) (hd : s.done = false) : s.started = true := by
  rcases h.1 with h | h
  · exact h
  · rw [hd] at h; cases h

@[simp] theorem xorOps_next : xorOps.next = xorNext := rfl
@[simp] theorem xorOps_seek (t : Int) (s : XorIt) :
    xorOps.seek t s = xorSeekLoop t s.rest s.cur s.started s.done := rfl
@[simp] theorem xorOps_atS (s : XorIt) : xorOps.atS s = some s.cur := rfl
@[simp] theorem xorOps_atT (s : XorIt) : xorOps.atT s = some s.cur.t := rfl
@[simp] theorem xorOps_adjust (v : Int) (s : XorIt) : xorOps.adjust v s = s := rfl
@[simp] theorem xorOps_bad (s : XorIt) : xorOps.bad s = false := rfl
@[simp] theorem xorOps_fuel (s : XorIt) : xorOps.fuel s = s.rest.length + 1 := rfl

/-- the `Seek` loop of a started, not exhausted iterator -/
theorem xorSeekLoop_started (t : Int) : ∀ (rest : List Sample) (cur : Sample),
    (xorSeekLoop t rest cur true false).1.started = true ∧
    xorAbs (xorSeekLoop t rest cur true false).1 = dropLt t (cur :: rest) ∧
    (xorSeekLoop t rest cur true false).2 = !(dropLt t (cur :: rest)).isEmpty := by
  intro rest
  induction rest with
  | nil =>
    intro cur
    unfold xorSeekLoop
    by_cases h : t > cur.t
    · simp [h, xorAbs, dropLt_cons_lt (show cur.t < t by omega)]
    · simp [h, xorAbs, dropLt_cons_ge (show t ≤ cur.t by omega)]
  | cons x tl ih =>
    intro cur
    unfold xorSeekLoop
    by_cases h : t > cur.t
    · simp only [h, decide_true, Bool.not_true, Bool.or_false, if_true]
      rw [dropLt_cons_lt (show cur.t < t by omega)]
      exact ih x
    · simp [h, xorAbs, dropLt_cons_ge (show t ≤ cur.t by omega)]

theorem xor_listLike : ListLike xorOps xorV xorAbs where
  lower := fun s h => h.2
  atS := by
    intro s h hne
    unfold xorAbs at hne ⊢
    cases hd : s.done <;> simp [hd] at hne ⊢
  atT := by
    intro s h hne
    unfold xorAbs at hne ⊢
    cases hd : s.done <;> simp [hd] at hne ⊢
  seekV := by
    intro s t h hne
    have hd : s.done = false := by
      cases hd : s.done with
      | false => rfl
      | true => simp [xorAbs, hd] at hne
    obtain ⟨h1, h2, _⟩ := xorSeekLoop_started t s.rest s.cur
    simp only [xorOps_seek, xorV_started h hd, hd]
    refine ⟨Or.inl h1, ?_⟩
    rw [h2]
    intro x hx
    exact h.2 x (by simp only [xorAbs, hd]; exact mem_of_mem_dropLt hx)
  seekAbs := by
    intro s t h hne
    have hd : s.done = false := by
      cases hd : s.done with
      | false => rfl
      | true => simp [xorAbs, hd] at hne
    simp only [xorOps_seek, xorV_started h hd, hd]
    rw [(xorSeekLoop_started t s.rest s.cur).2.1]
    simp [xorAbs, hd]
  seekOk := by
    intro s t h hne
    have hd : s.done = false := by
      cases hd : s.done with
      | false => rfl
      | true => simp [xorAbs, hd] at hne
    simp only [xorOps_seek, xorV_started h hd, hd]
    rw [(xorSeekLoop_started t s.rest s.cur).2.2]
    simp [xorAbs, hd]
  nextV := by
    intro s h hne
    have hd : s.done = false := by
      cases hd : s.done with
      | false => rfl
      | true => simp [xorAbs, hd] at hne
    simp only [xorOps_next, xorNext]
    cases hr : s.rest with
    | nil => exact ⟨Or.inr rfl, by simp [xorAbs]⟩
    | cons x tl =>
      refine ⟨Or.inl rfl, ?_⟩
      intro y hy
      apply h.2 y
      simp only [xorAbs, hd, hr, Bool.false_eq_true, if_false] at hy ⊢
      exact List.mem_cons_of_mem _ hy
  nextAbs := by
    intro s h hne
    have hd : s.done = false := by
      cases hd : s.done with
      | false => rfl
      | true => simp [xorAbs, hd] at hne
    simp only [xorOps_next, xorNext]
    cases hr : s.rest <;> simp [xorAbs, hd, hr]
  nextOk := by
    intro s h hne
    have hd : s.done = false := by
      cases hd : s.done with
      | false => rfl
      | true => simp [xorAbs, hd] at hne
    simp only [xorOps_next, xorNext]
    cases hr : s.rest <;> simp [xorAbs, hd, hr]
  adjustV := fun s v h _ => h
  adjustAbs := fun s v _ _ => rfl
  bad := fun s _ => rfl
  fuel := by
    intro s _
    unfold xorAbs
    cases s.done <;> simp

theorem xor_initLike (l : List Sample) (h : ∀ x ∈ l, minT < x.t) :
    InitLike xorOps xorV xorAbs (XorIt.init l) l := by
  have hseek : ∀ t, ((xorSeekLoop t l ⟨0, 0⟩ false false).1.started = true ∨
        (xorSeekLoop t l ⟨0, 0⟩ false false).1.done = true) ∧
      xorAbs (xorSeekLoop t l ⟨0, 0⟩ false false).1 = dropLt t l ∧
      (xorSeekLoop t l ⟨0, 0⟩ false false).2 = !(dropLt t l).isEmpty := by
    intro t
    cases l with
    | nil => simp [xorSeekLoop, xorAbs]
    | cons x tl =>
      unfold xorSeekLoop
      simp only [Bool.not_false, Bool.or_true, if_true]
      exact ⟨Or.inl (xorSeekLoop_started t tl x).1, (xorSeekLoop_started t tl x).2⟩
  exact {
    lower := h
    nextV := by
      simp only [xorOps_next, xorNext, XorIt.init]
      cases l with
      | nil => exact ⟨Or.inr rfl, by simp [xorAbs]⟩
      | cons x tl => exact ⟨Or.inl rfl, by simpa [xorAbs] using h⟩
    nextAbs := by
      simp only [xorOps_next, xorNext, XorIt.init]
      cases l <;> simp [xorAbs]
    nextOk := by
      simp only [xorOps_next, xorNext, XorIt.init]
      cases l <;> simp
    seekV := by
      intro t
      simp only [xorOps_seek, XorIt.init]
      refine ⟨(hseek t).1, ?_⟩
      rw [(hseek t).2.1]
      exact fun x hx => h x (mem_of_mem_dropLt hx)
    seekAbs := fun t => (hseek t).2.1
    seekOk := fun t => (hseek t).2.2
    fuel := by simp only [xorOps_fuel, XorIt.init]; omega }

/-! ### `toChunk` over a list-like iterator -/

def takeLe (maxt : Int) (l : List Sample) : List Sample := l.takeWhile (fun s => decide (s.t ≤ maxt))
def dropLe (maxt : Int) (l : List Sample) : List Sample := l.dropWhile (fun s => decide (s.t ≤ maxt))

section toChunk
variable {σ : Type} {o : Ops σ} {V : σ → Prop} {abs : σ → List Sample}

/-- the `for it.Next() != ValNone` loop from a positioned state whose later samples all lie at
    or after `mint`: it appends the samples up to `maxt` and stops on the first one beyond -/
theorem toChunkLoop_spec (h : ListLike o V abs) (mint maxt : Int) :
    ∀ (n : Nat) (s : σ) (c : Sample) (rest : List Sample), V s → abs s = c :: rest →
      (∀ y ∈ rest, mint ≤ y.t) → rest.length + 1 ≤ n →
      ∃ s', toChunkLoop o mint maxt n s = some (s', takeLe maxt rest) ∧ V s' ∧
        abs s' = dropLe maxt rest := by
  intro n
  induction n with
  | zero => intro s c rest _ _ _ hn; omega
  | succ n ih =>
    intro s c rest hV habs hge hn
    have hne : abs s ≠ [] := by rw [habs]; simp
    have hV' := h.nextV s hV hne
    have habs' : abs (o.next s).1 = rest := by rw [h.nextAbs s hV hne, habs]; rfl
    have hok : (o.next s).2 = !rest.isEmpty := by rw [h.nextOk s hV hne, habs]; rfl
    unfold toChunkLoop bNext
    cases hr : rest with
    | nil =>
      rw [hr] at hok
      simp only [hok, List.isEmpty_nil, Bool.not_true, Bool.not_false, if_true]
      exact ⟨_, rfl, hV', by rw [habs', hr]; rfl⟩
    | cons x tl =>
      rw [hr] at hok habs'
      have hne' : abs (o.next s).1 ≠ [] := by rw [habs']; simp
      have hat : o.atT (o.next s).1 = some x.t := by rw [h.atT _ hV' hne', habs']; rfl
      have hxm : ¬ x.t < mint := by have := hge x (by rw [hr]; simp); omega
      simp only [hok, List.isEmpty_cons, Bool.not_false, Bool.not_true, Bool.false_eq_true, if_false,
        hat, hxm]
      by_cases hle : x.t ≤ maxt
      · simp only [hle, decide_true]
        rw [h.atS _ hV' hne', habs']
        simp only [List.head?_cons]
        obtain ⟨s', hs', hV'', habs''⟩ := ih (o.next s).1 x tl hV' habs'
          (fun y hy => hge y (by rw [hr]; simp [hy])) (by rw [hr] at hn; simp at hn; omega)
        refine ⟨s', ?_, hV'', ?_⟩
        · rw [hs']; simp [takeLe, hle]
        · rw [habs'']; simp [dropLe, hle]
      · simp only [hle, decide_false]
        refine ⟨_, ?_, hV', ?_⟩
        · simp [takeLe, hle]
        · rw [habs']; simp [dropLe, hle]

/-- the seek laws at a state, with the list `L` it still holds: a fresh state or a positioned one -/
structure Ready (o : Ops σ) (V : σ → Prop) (abs : σ → List Sample) (s : σ) (L : List Sample) : Prop where
  seekV : ∀ t, V (o.seek t s).1
  seekAbs : ∀ t, abs (o.seek t s).1 = dropLt t L
  seekOk : ∀ t, (o.seek t s).2 = !(dropLt t L).isEmpty

theorem ready_of_init {s : σ} {L : List Sample} (hi : InitLike o V abs s L) : Ready o V abs s L :=
  ⟨hi.seekV, hi.seekAbs, hi.seekOk⟩

theorem ready_of_V (h : ListLike o V abs) {s : σ} (hV : V s) (hne : abs s ≠ []) : Ready o V abs s (abs s) :=
  ⟨fun t => h.seekV s t hV hne, fun t => h.seekAbs s t hV hne, fun t => h.seekOk s t hV hne⟩

/-- the repaired `toChunk` loop on a time-sorted list: the window `[mint, maxt]` is cut out and
    the iterator is left on the first sample beyond it -/
theorem toChunkFixed_spec (h : ListLike o V abs) (mint maxt : Int) (hmm : mint ≤ maxt) {s : σ}
    {L : List Sample} (hr : Ready o V abs s L) (hs : SSorted L) :
    ∃ s', toChunkFixed o mint maxt s = some (s', takeLe maxt (dropLt mint L)) ∧ V s' ∧
      abs s' = dropLe maxt (dropLt mint L) := by
  unfold toChunkFixed bSeek
  have h1 : ¬ mint > maxt := by omega
  simp only [h1, if_false, Int.lt_irrefl, hr.seekOk mint]
  cases hD : dropLt mint L with
  | nil =>
    simp only [List.isEmpty_nil, Bool.not_true, Bool.not_false, if_true]
    exact ⟨_, rfl, hr.seekV mint, by rw [hr.seekAbs, hD]; rfl⟩
  | cons x rest =>
    have hV' := hr.seekV mint
    have habs' : abs (o.seek mint s).1 = x :: rest := by rw [hr.seekAbs, hD]
    have hne' : abs (o.seek mint s).1 ≠ [] := by rw [habs']; simp
    simp only [List.isEmpty_cons, Bool.not_false, Bool.not_true, Bool.false_eq_true, if_false]
    rw [h.atT _ hV' hne', h.atS _ hV' hne', habs']
    simp only [List.head?_cons, Option.map_some]
    have hsD : SSorted (x :: rest) := by rw [← hD]; exact ssorted_dropLt mint hs
    have hxm : mint ≤ x.t := head_dropLt_ge (by rw [hD]; rfl)
    by_cases hle : x.t ≤ maxt
    · simp only [hle, if_true]
      have hfuel := h.fuel _ hV'
      rw [habs'] at hfuel
      simp only [List.length_cons] at hfuel
      obtain ⟨s', hs', hV'', habs''⟩ := toChunkLoop_spec h mint maxt (o.fuel (o.seek mint s).1 + 2)
        (o.seek mint s).1 x rest hV' habs'
        (fun y hy => by have := (List.pairwise_cons.mp hsD).1 y hy; omega) (by omega)
      refine ⟨s', ?_, hV'', ?_⟩
      · rw [hs']; simp [takeLe, hle]
      · rw [habs'']; simp [dropLe, hle]
    · simp only [hle, if_false]
      refine ⟨_, ?_, hV', ?_⟩
      · simp [takeLe, hle]
      · rw [habs']; simp [dropLe, hle]

end toChunk

/-! ### cutting a sorted list into consecutive windows -/

theorem takeLe_append {l r : List Sample} {maxt : Int} (hl : ∀ x ∈ l, x.t ≤ maxt)
    (hr : ∀ x, r.head? = some x → maxt < x.t) : takeLe maxt (l ++ r) = l := by
  induction l with
  | nil =>
    cases r with
    | nil => rfl
    | cons y r =>
      have := hr y rfl
      have hny : ¬ y.t ≤ maxt := by omega
      simp [takeLe, hny]
  | cons a l ih =>
    have ha := hl a (by simp)
    simp only [List.cons_append, takeLe, List.takeWhile_cons, ha, decide_true, if_true]
    congr 1
    exact ih (fun x hx => hl x (by simp [hx]))

theorem dropLe_append {l r : List Sample} {maxt : Int} (hl : ∀ x ∈ l, x.t ≤ maxt)
    (hr : ∀ x, r.head? = some x → maxt < x.t) : dropLe maxt (l ++ r) = r := by
  induction l with
  | nil =>
    cases r with
    | nil => rfl
    | cons y r =>
      have := hr y rfl
      have hny : ¬ y.t ≤ maxt := by omega
      simp [dropLe, hny]
  | cons a l ih =>
    have ha := hl a (by simp)
    simp only [List.cons_append, dropLe, List.dropWhile_cons, ha, decide_true, if_true]
    exact ih (fun x hx => hl x (by simp [hx]))

/-- in a time-sorted list every element lies between the first and the last -/
theorem ssorted_bounds {l : List Sample} (hs : SSorted l) {a b : Sample} (ha : l.head? = some a)
    (hb : l.getLast? = some b) : ∀ x ∈ l, a.t ≤ x.t ∧ x.t ≤ b.t := by
  induction l generalizing a with
  | nil => simp at ha
  | cons c l ih =>
    simp at ha; subst ha
    intro x hx
    have hp := List.pairwise_cons.mp hs
    cases l with
    | nil =>
      simp at hb hx; subst hb; subst hx; omega
    | cons d l' =>
      have hb' : (d :: l').getLast? = some b := by simpa [List.getLast?_cons_cons] using hb
      rcases List.mem_cons.mp hx with rfl | hx
      · have h1 := ih hp.2 rfl hb' d (by simp)
        have h2 := hp.1 d (by simp)
        omega
      · have h1 := ih hp.2 rfl hb' x hx
        have h2 := hp.1 d (by simp)
        omega

section windows
variable {σ : Type} {o : Ops σ} {V : σ → Prop} {abs : σ → List Sample}

/-- what the repaired `toChunk` + the end of `toChunk` make of one window -/
def finishOf (isCounter : Bool) (l : List Sample) : Option (List Sample) :=
  match l.getLast? with
  | some x => some (if isCounter then l ++ [x] else l)
  | none => none

theorem finishChunk_eq {isCounter : Bool} {l : List Sample} (h : ∀ x ∈ l, 1 ≤ x.t) :
    finishChunk isCounter l = finishOf isCounter l := by
  unfold finishChunk finishOf
  cases hl : l.getLast? with
  | none => rfl
  | some x =>
    have := h x (List.mem_of_getLast? hl)
    have hne : ¬ (x.t = 0 ∧ x.v = 0) := by omega
    simp [hne]

/-- **The windows of one aggregate.**  Drawing the windows `ls` (consecutive, non-empty pieces of
    the time-sorted list the shared iterator still holds) one after the other with the repaired
    `toChunk` yields exactly those pieces. -/
theorem toChunksGo_spec (h : ListLike o V abs) (isCounter : Bool) :
    ∀ (ls : List (List Sample)) (s : σ), Ready o V abs s ls.flatten → SSorted ls.flatten →
      (∀ l ∈ ls, l ≠ []) → (∀ x ∈ ls.flatten, 1 ≤ x.t) →
      toChunksGo o true isCounter (ls.map windowBounds) s = some (ls.map (finishOf isCounter)) := by
  intro ls
  induction ls with
  | nil => intro s _ _ _ _; rfl
  | cons l ls ih =>
    intro s hr hs hne hpos
    have hlne := hne l (by simp)
    obtain ⟨a, ha⟩ : ∃ a, l.head? = some a := by
      cases l with
      | nil => exact absurd rfl hlne
      | cons a _ => exact ⟨a, rfl⟩
    obtain ⟨b, hb⟩ : ∃ b, l.getLast? = some b := by
      cases hgl : l.getLast? with
      | none => exact absurd (List.getLast?_eq_none_iff.mp hgl) hlne
      | some b => exact ⟨b, rfl⟩
    have hflat : (l :: ls).flatten = l ++ ls.flatten := by simp
    rw [hflat] at hr hs hpos
    have hsl : SSorted l := List.Pairwise.sublist (List.sublist_append_left _ _) hs
    have hsr : SSorted ls.flatten := List.Pairwise.sublist (List.sublist_append_right _ _) hs
    have hbd := ssorted_bounds hsl ha hb
    have hcross : ∀ x, ls.flatten.head? = some x → b.t < x.t := by
      intro x hx
      exact (List.pairwise_append.mp hs).2.2 b (List.mem_of_getLast? hb) x (List.mem_of_mem_head? hx)
    have hwb : windowBounds l = (a.t, b.t) := by simp [windowBounds, ha, hb]
    simp only [List.map_cons, hwb, toChunksGo, if_true]
    have hmm : a.t ≤ b.t := (hbd a (List.mem_of_mem_head? ha)).2
    obtain ⟨s', hs', hV', habs'⟩ := toChunkFixed_spec h a.t b.t hmm hr hs
    have hdl : dropLt a.t (l ++ ls.flatten) = l ++ ls.flatten := by
      apply dropLt_eq_self
      intro x hx
      cases l with
      | nil => exact absurd rfl hlne
      | cons c l' => simp at ha hx; subst ha; subst hx; exact Int.le_refl _
    rw [hdl, takeLe_append (fun x hx => (hbd x hx).2) hcross] at hs'
    rw [hdl, dropLe_append (fun x hx => (hbd x hx).2) hcross] at habs'
    rw [hs']
    simp only
    rw [finishChunk_eq (fun x hx => hpos x (List.mem_append_left _ hx))]
    cases hls : ls with
    | nil => simp [toChunksGo]
    | cons l2 ls2 =>
      have hne2 : ls.flatten ≠ [] := by
        rw [hls]
        have := hne l2 (by simp [hls])
        cases l2 with
        | nil => exact absurd rfl this
        | cons c l2' => simp
      have hr' : Ready o V abs s' ls.flatten := by
        have := ready_of_V h hV' (by rw [habs']; exact hne2)
        rw [habs'] at this
        exact this
      have := ih s' hr' hsr (fun l' hl' => hne l' (by simp [hl']))
        (fun x hx => hpos x (List.mem_append_right _ hx))
      rw [hls] at this
      rw [this]
      rfl

end windows

/-! ### seriesToChunkEncoder's cut -/

theorem cutWindows_flatten {split : Nat} (hsp : 0 < split) : ∀ (n : Nat) (l : List Sample),
    l.length ≤ n → (cutWindows split n l).flatten = l := by
  intro n
  induction n with
  | zero =>
    intro l hl
    have : l = [] := List.length_eq_zero_iff.mp (Nat.le_zero.mp hl)
    subst this; rfl
  | succ n ih =>
    intro l hl
    unfold cutWindows
    cases l with
    | nil => simp
    | cons a l =>
      have hs0 : split ≠ 0 := by omega
      simp only [List.isEmpty_cons, hs0, decide_false, Bool.or_self, Bool.false_eq_true, if_false,
        List.flatten_cons]
      rw [ih _ (by
        simp only [List.length_drop, List.length_cons] at hl ⊢
        omega)]
      exact List.take_append_drop _ _

theorem cutWindows_ne {split : Nat} : ∀ (n : Nat) (l : List Sample),
    ∀ w ∈ cutWindows split n l, w ≠ [] := by
  intro n
  induction n with
  | zero => intro l w hw; simp [cutWindows] at hw
  | succ n ih =>
    intro l w hw
    unfold cutWindows at hw
    by_cases hc : (l.isEmpty || decide (split = 0)) = true
    · simp [hc] at hw
    · simp only [hc, Bool.false_eq_true, if_false, List.mem_cons] at hw
      simp only [Bool.or_eq_true, List.isEmpty_iff, decide_eq_true_eq, not_or] at hc
      rcases hw with rfl | hw
      · intro h
        rcases List.take_eq_nil_iff.mp h with h | h
        · exact hc.2 h
        · exact hc.1 h
      · exact ih _ w hw

/-- the cut only looks at positions: lists with the same timestamps are cut alike -/
theorem cutWindows_ts {split : Nat} : ∀ (n : Nat) (l l' : List Sample), tsOf l = tsOf l' →
    (cutWindows split n l).map tsOf = (cutWindows split n l').map tsOf := by
  intro n
  induction n with
  | zero => intro l l' _; rfl
  | succ n ih =>
    intro l l' h
    have hlen : l.length = l'.length := by
      have := congrArg List.length h
      simpa [tsOf] using this
    unfold cutWindows
    have he : l.isEmpty = l'.isEmpty := by
      cases l <;> cases l' <;> simp_all
    rw [he]
    by_cases hc : (l'.isEmpty || decide (split = 0)) = true
    · simp [hc]
    · simp only [hc, Bool.false_eq_true, if_false, List.map_cons]
      congr 1
      · simp only [tsOf]
        have := congrArg (List.take split) h
        simpa [tsOf] using this
      · apply ih
        simp only [tsOf]
        have := congrArg (List.drop split) h
        simpa [tsOf] using this

theorem windowBounds_ts {w w' : List Sample} (h : tsOf w = tsOf w') : windowBounds w = windowBounds w' := by
  have h1 : w.head?.map (·.t) = w'.head?.map (·.t) := by
    have := congrArg List.head? h
    simpa [tsOf, List.head?_map] using this
  have h2 : w.getLast?.map (·.t) = w'.getLast?.map (·.t) := by
    have := congrArg List.getLast? h
    simpa [tsOf, List.getLast?_map] using this
  unfold windowBounds
  cases hw : w.head? <;> cases hw' : w'.head? <;> cases hl : w.getLast? <;> cases hl' : w'.getLast? <;>
    simp_all

/-! ### `samplesMergeFunc` folded over the XOR iterators of one aggregate -/

theorem xorPkg_good (l : List Sample) (h : ∀ x ∈ l, minT < x.t) : GoodL (xorIt l) l :=
  ⟨xorV, xorAbs, xor_listLike, xor_initLike l h⟩

theorem mergeStep_good (acc : AnyIt) (L b : List Sample) (hacc : GoodL acc L) (h : ∀ x ∈ b, minT < x.t) :
    GoodL (mergeStep true acc b) (pm2 minT L b) := by
  obtain ⟨V, abs, hl, hi⟩ := hacc
  exact ⟨nodeV V xorV abs xorAbs, nodeAbs abs xorAbs, node_listLike hl xor_listLike true,
    node_initLike hl xor_listLike hi.toNext (xor_initLike b h).toNext⟩

theorem mergeFold_good (l : List Sample) (ls : List (List Sample))
    (h : ∀ q ∈ l :: ls, ∀ x ∈ q, minT < x.t) :
    ∃ it, mergeFold true (l :: ls) = some it ∧ GoodL it (ls.foldl (pm2 minT) l) := by
  refine ⟨_, rfl, ?_⟩
  have key : ∀ (ls : List (List Sample)) (acc : AnyIt) (L : List Sample), GoodL acc L →
      (∀ q ∈ ls, ∀ x ∈ q, minT < x.t) →
      GoodL (ls.foldl (mergeStep true) acc) (ls.foldl (pm2 minT) L) := by
    intro ls
    induction ls with
    | nil => intro acc L h _; exact h
    | cons b ls ih =>
      intro acc L hacc hq
      exact ih _ _ (mergeStep_good acc L b hacc (hq b (by simp))) (fun q hq' => hq q (by simp [hq']))
  exact key ls _ l (xorPkg_good l (h l (by simp))) (fun q hq => h q (by simp [hq]))

/-- folds of `pm2` over pointwise observationally equal inputs are observationally equal -/
theorem foldl_pm2_obsEq {γ : Type} (f g : γ → List Sample) : ∀ (cs : List γ) (L L' : List Sample),
    ObsEq L L' → (∀ c ∈ cs, ObsEq (f c) (g c)) →
    ObsEq ((cs.map f).foldl (pm2 minT) L) ((cs.map g).foldl (pm2 minT) L') := by
  intro cs
  induction cs with
  | nil => intro L L' h _; exact h
  | cons c cs ih =>
    intro L L' hL hfg
    simp only [List.map_cons, List.foldl_cons]
    exact ih _ _ (obsEq_of_tsOf (pm2_obsEq hL (hfg c (by simp)))) (fun c' hc' => hfg c' (by simp [hc']))

/-- … and, as soon as there is one merge, have the same timestamps -/
theorem foldl_pm2_ts {γ : Type} (f g : γ → List Sample) (c : γ) (cs : List γ) (L L' : List Sample)
    (hL : ObsEq L L') (hfg : ∀ c' ∈ c :: cs, ObsEq (f c') (g c')) :
    tsOf (((c :: cs).map f).foldl (pm2 minT) L) = tsOf (((c :: cs).map g).foldl (pm2 minT) L') := by
  induction cs generalizing c L L' with
  | nil =>
    simp only [List.map_cons, List.map_nil, List.foldl_cons, List.foldl_nil]
    exact pm2_obsEq hL (hfg c (by simp))
  | cons c2 cs ih =>
    simp only [List.map_cons, List.foldl_cons]
    have := ih c2 (pm2 minT L (f c)) (pm2 minT L' (g c))
      (obsEq_of_tsOf (pm2_obsEq hL (hfg c (by simp)))) (fun c' hc' => hfg c' (by simp [hc']))
    simpa using this

/-! ### well-formed downsampled chunks (the input domain of C40) and the property -/

/-- strictly increasing -/
def incr : List Int → Bool
  | a :: b :: rest => decide (a < b) && incr (b :: rest)
  | _ => true

/-- a well-formed downsampled chunk: all five aggregates, `sum/min/max` on the count's
    timestamps, the counter on the count's timestamps plus its last one repeated; count
    timestamps strictly increasing from `mint ≥ 1` to `maxt` -/
def chunkWF (c : AggrChk) : Bool :=
  match c.aggr with
  | [some cnt, some s, some mn, some mx, some ctr] =>
    incr (tsOf cnt) && (tsOf cnt).head? == some c.mint && (tsOf cnt).getLast? == some c.maxt &&
    decide (0 < c.mint) &&
    tsOf s == tsOf cnt && tsOf mn == tsOf cnt && tsOf mx == tsOf cnt && tsOf ctr == tsOf cnt ++ [c.maxt]
  | _ => false

/-- chunks of one series are ordered and disjoint -/
def chunksOrdered : List AggrChk → Bool
  | a :: b :: rest => decide (a.maxt < b.mint) && chunksOrdered (b :: rest)
  | _ => true

def seriesWF (s : List AggrChk) : Bool := !s.isEmpty && s.all chunkWF && chunksOrdered s

/-- the property on one output chunk: every aggregate has a sample at each timestamp at which
    the count aggregate has one -/
def chunkComplete (c : AggrChk) : Bool :=
  match c.aggr with
  | [some cnt, a1, a2, a3, a4] =>
    [a1, a2, a3, a4].all fun a =>
      match a with
      | some l => (tsOf cnt).all fun t => (tsOf l).contains t
      | none => false
  | _ => false

/-! ### the chunks `aggrChunkIterator` assembles are well formed -/

theorem incr_of_ssorted : ∀ {l : List Sample}, SSorted l → incr (tsOf l) = true
  | [], _ => rfl
  | [_], _ => rfl
  | a :: b :: l, h => by
    have hp := List.pairwise_cons.mp h
    have hab := hp.1 b (by simp)
    simp only [tsOf, List.map_cons, incr, hab, decide_true, Bool.true_and]
    exact incr_of_ssorted (l := b :: l) hp.2

theorem ssorted_of_incr : ∀ {l : List Sample}, incr (tsOf l) = true → SSorted l
  | [], _ => List.Pairwise.nil
  | [a], _ => by simp [SSorted]
  | a :: b :: l, h => by
    simp only [tsOf, List.map_cons, incr, Bool.and_eq_true, decide_eq_true_eq] at h
    have ih := ssorted_of_incr (l := b :: l) h.2
    refine List.pairwise_cons.mpr ⟨?_, ih⟩
    intro y hy
    rcases List.mem_cons.mp hy with rfl | hy
    · exact h.1
    · have := (List.pairwise_cons.mp ih).1 y hy; omega

theorem ssorted_of_ts {l l' : List Sample} (h : tsOf l = tsOf l') (hs : SSorted l) : SSorted l' :=
  ssorted_of_incr (by rw [← h]; exact incr_of_ssorted hs)

theorem tsOf_head? (l : List Sample) : (tsOf l).head? = l.head?.map (·.t) := by
  simp [tsOf, List.head?_map]

theorem tsOf_getLast? (l : List Sample) : (tsOf l).getLast? = l.getLast?.map (·.t) := by
  simp [tsOf, List.getLast?_map]

/-- one assembled chunk: the count window `w` and, for the other aggregates, windows with the
    same timestamps -/
theorem assembled_wf {w l1 l2 l3 l4 : List Sample} (hne : w ≠ []) (hs : SSorted w)
    (hpos : ∀ x ∈ w, 1 ≤ x.t) (h1 : tsOf l1 = tsOf w) (h2 : tsOf l2 = tsOf w) (h3 : tsOf l3 = tsOf w)
    (h4 : tsOf l4 = tsOf w) :
    chunkWF { mint := (windowBounds w).1, maxt := (windowBounds w).2,
              aggr := [some w, finishOf false l1, finishOf false l2, finishOf false l3, finishOf true l4] }
      = true := by
  obtain ⟨a, ha⟩ : ∃ a, w.head? = some a := by
    cases w with
    | nil => exact absurd rfl hne
    | cons a _ => exact ⟨a, rfl⟩
  obtain ⟨b, hb⟩ : ∃ b, w.getLast? = some b := by
    cases hgl : w.getLast? with
    | none => exact absurd (List.getLast?_eq_none_iff.mp hgl) hne
    | some b => exact ⟨b, rfl⟩
  have hwb : windowBounds w = (a.t, b.t) := by simp [windowBounds, ha, hb]
  have hlast : ∀ {l : List Sample}, tsOf l = tsOf w → ∃ x, l.getLast? = some x ∧ x.t = b.t := by
    intro l hl
    have := tsOf_getLast? l
    rw [hl, tsOf_getLast?, hb] at this
    cases hgl : l.getLast? with
    | none => rw [hgl] at this; simp at this
    | some x => rw [hgl] at this; simp at this; exact ⟨x, rfl, this.symm⟩
  obtain ⟨x1, hx1, _⟩ := hlast h1
  obtain ⟨x2, hx2, _⟩ := hlast h2
  obtain ⟨x3, hx3, _⟩ := hlast h3
  obtain ⟨x4, hx4, hx4t⟩ := hlast h4
  have hapos := hpos a (List.mem_of_mem_head? ha)
  simp only [finishOf, hx1, hx2, hx3, hx4, hwb, chunkWF, Bool.false_eq_true, if_false, if_true]
  simp only [Bool.and_eq_true, beq_iff_eq, decide_eq_true_eq]
  refine ⟨⟨⟨⟨⟨⟨⟨incr_of_ssorted hs, ?_⟩, ?_⟩, by omega⟩, h1⟩, h2⟩, h3⟩, ?_⟩
  · rw [tsOf_head?, ha]; rfl
  · rw [tsOf_getLast?, hb]; rfl
  · simp [tsOf, List.map_append, hx4t] at h4 ⊢
    exact h4

/-- all chunks `zip5` assembles from windows with pairwise equal timestamps are well formed -/
theorem zip5_wf : ∀ (ws w1 w2 w3 w4 : List (List Sample)),
    w1.map tsOf = ws.map tsOf → w2.map tsOf = ws.map tsOf → w3.map tsOf = ws.map tsOf →
    w4.map tsOf = ws.map tsOf → (∀ w ∈ ws, w ≠ [] ∧ SSorted w ∧ ∀ x ∈ w, 1 ≤ x.t) →
    ∀ c ∈ zip5 ws (w1.map (finishOf false)) (w2.map (finishOf false)) (w3.map (finishOf false))
      (w4.map (finishOf true)), chunkWF c = true := by
  intro ws
  induction ws with
  | nil => intro w1 w2 w3 w4 _ _ _ _ _ c hc; simp [zip5] at hc
  | cons w ws ih =>
    intro w1 w2 w3 w4 h1 h2 h3 h4 hw c hc
    cases w1 with
    | nil => simp at h1
    | cons l1 w1 =>
    cases w2 with
    | nil => simp at h2
    | cons l2 w2 =>
    cases w3 with
    | nil => simp at h3
    | cons l3 w3 =>
    cases w4 with
    | nil => simp at h4
    | cons l4 w4 =>
      simp only [List.map_cons, List.cons.injEq] at h1 h2 h3 h4
      simp only [List.map_cons, zip5, List.mem_cons] at hc
      obtain ⟨hwne, hws, hwpos⟩ := hw w (by simp)
      rcases hc with rfl | hc
      · exact assembled_wf hwne hws hwpos h1.1 h2.1 h3.1 h4.1
      · exact ih w1 w2 w3 w4 h1.2 h2.2 h3.2 h4.2 (fun w' hw' => hw w' (by simp [hw'])) c hc

/-! ### `om.iterator(base)` on well-formed chunks -/

/-- the sample list of aggregate `i` of a chunk (empty if absent) -/
def agg (i : Nat) (c : AggrChk) : List Sample := (c.get i).getD []

theorem chunkWF_shape {c : AggrChk} (h : chunkWF c = true) :
    ∃ cnt s mn mx ctr, c.aggr = [some cnt, some s, some mn, some mx, some ctr] ∧
      SSorted cnt ∧ (tsOf cnt).head? = some c.mint ∧ (tsOf cnt).getLast? = some c.maxt ∧ 0 < c.mint ∧
      tsOf s = tsOf cnt ∧ tsOf mn = tsOf cnt ∧ tsOf mx = tsOf cnt ∧ tsOf ctr = tsOf cnt ++ [c.maxt] := by
  unfold chunkWF at h
  split at h
  · rename_i cnt s mn mx ctr heq
    simp only [Bool.and_eq_true, beq_iff_eq, decide_eq_true_eq] at h
    obtain ⟨⟨⟨⟨⟨⟨⟨h1, h2⟩, h3⟩, h4⟩, h5⟩, h6⟩, h7⟩, h8⟩ := h
    exact ⟨cnt, s, mn, mx, ctr, heq, ssorted_of_incr h1, h2, h3, h4, h5, h6, h7, h8⟩
  · simp at h

/-- what the well-formedness of a chunk says about its five sample lists -/
theorem chunkWF_agg {c : AggrChk} (h : chunkWF c = true) :
    (∀ i, i < 5 → c.get i = some (agg i c)) ∧ SSorted (agg 0 c) ∧ agg 0 c ≠ [] ∧
    (∀ i, i < 5 → ∀ x ∈ agg i c, 1 ≤ x.t) ∧
    (∀ i, i < 5 → ObsEq (agg 0 c) (agg i c)) := by
  obtain ⟨cnt, s, mn, mx, ctr, heq, hs, hhd, hlast, hpos, e1, e2, e3, e4⟩ := chunkWF_shape h
  have hget : ∀ i, i < 5 → c.get i = some (agg i c) := by
    intro i hi
    unfold agg AggrChk.get
    rw [heq]
    match i, hi with
    | 0, _ => rfl
    | 1, _ => rfl
    | 2, _ => rfl
    | 3, _ => rfl
    | 4, _ => rfl
  have ha : ∀ i l, ([some cnt, some s, some mn, some mx, some ctr][i]?).join = some l → agg i c = l := by
    intro i l hl
    unfold agg AggrChk.get
    rw [heq, hl]; rfl
  have a0 : agg 0 c = cnt := ha 0 cnt rfl
  have a1 : agg 1 c = s := ha 1 s rfl
  have a2 : agg 2 c = mn := ha 2 mn rfl
  have a3 : agg 3 c = mx := ha 3 mx rfl
  have a4 : agg 4 c = ctr := ha 4 ctr rfl
  have hcne : cnt ≠ [] := by
    intro he; rw [he] at hhd; simp [tsOf] at hhd
  -- every count timestamp is ≥ mint ≥ 1
  have hcpos : ∀ x ∈ cnt, 1 ≤ x.t := by
    intro x hx
    obtain ⟨a, hA⟩ : ∃ a, cnt.head? = some a := by
      cases cnt with
      | nil => exact absurd rfl hcne
      | cons a _ => exact ⟨a, rfl⟩
    obtain ⟨b, hB⟩ : ∃ b, cnt.getLast? = some b := by
      cases hgl : cnt.getLast? with
      | none => exact absurd (List.getLast?_eq_none_iff.mp hgl) hcne
      | some b => exact ⟨b, rfl⟩
    have := (ssorted_bounds hs hA hB x hx).1
    rw [tsOf_head?, hA] at hhd
    simp at hhd
    omega
  have hmem_ts : ∀ {l : List Sample}, (∀ t ∈ tsOf l, 1 ≤ t) → ∀ x ∈ l, 1 ≤ x.t := by
    intro l hl x hx
    exact hl x.t (by simp only [tsOf, List.mem_map]; exact ⟨x, hx, rfl⟩)
  have hts_cnt : ∀ t ∈ tsOf cnt, 1 ≤ t := by
    intro t ht
    simp only [tsOf, List.mem_map] at ht
    obtain ⟨x, hx, rfl⟩ := ht
    exact hcpos x hx
  have hmaxt : 1 ≤ c.maxt := by
    have : c.maxt ∈ tsOf cnt := List.mem_of_getLast? hlast
    exact hts_cnt _ this
  refine ⟨hget, by rw [a0]; exact hs, by rw [a0]; exact hcne, ?_, ?_⟩
  · intro i hi x hx
    match i, hi with
    | 0, _ => rw [a0] at hx; exact hcpos x hx
    | 1, _ => rw [a1] at hx; exact hmem_ts (by rw [e1]; exact hts_cnt) x hx
    | 2, _ => rw [a2] at hx; exact hmem_ts (by rw [e2]; exact hts_cnt) x hx
    | 3, _ => rw [a3] at hx; exact hmem_ts (by rw [e3]; exact hts_cnt) x hx
    | 4, _ =>
      rw [a4] at hx
      refine hmem_ts ?_ x hx
      rw [e4]
      intro t ht
      rcases List.mem_append.mp ht with ht | ht
      · exact hts_cnt t ht
      · simp at ht; omega
  · intro i hi
    match i, hi with
    | 0, _ => exact ObsEq.refl _
    | 1, _ => rw [a0, a1]; exact obsEq_of_tsOf e1.symm
    | 2, _ => rw [a0, a2]; exact obsEq_of_tsOf e2.symm
    | 3, _ => rw [a0, a3]; exact obsEq_of_tsOf e3.symm
    | 4, _ =>
      rw [a0, a4]
      -- ctr = c' ++ [d] with tsOf c' = tsOf cnt and d.t = maxt = the last count timestamp
      have hcn : ctr ≠ [] := by intro he; rw [he] at e4; simp [tsOf] at e4
      have hsplit : ctr = ctr.dropLast ++ [ctr.getLast hcn] := (List.dropLast_concat_getLast hcn).symm
      have e4' : tsOf ctr.dropLast ++ [(ctr.getLast hcn).t] = tsOf cnt ++ [c.maxt] := by
        have := e4
        rw [hsplit] at this
        simpa [tsOf] using this
      have hd := List.append_inj' e4' rfl
      have h1 : ObsEq cnt ctr.dropLast := obsEq_of_tsOf hd.1.symm
      have h2 : ObsEq ctr.dropLast (ctr.dropLast ++ [ctr.getLast hcn]) := by
        apply obsEq_append_dup
        -- the last element of ctr.dropLast has timestamp maxt
        have hl : (tsOf ctr.dropLast).getLast? = some c.maxt := by rw [hd.1]; exact hlast
        rw [tsOf_getLast?] at hl
        cases hgl : ctr.dropLast.getLast? with
        | none => rw [hgl] at hl; simp at hl
        | some y =>
          rw [hgl] at hl
          simp at hl
          refine ⟨y, List.mem_of_getLast? hgl, ?_⟩
          have := hd.2
          simp at this
          omega
      rw [hsplit]
      exact h1.trans h2

/-- `windowBounds` as a function of the timestamps -/
def wbTs (ts : List Int) : Int × Int :=
  match ts.head?, ts.getLast? with
  | some a, some b => (a, b)
  | _, _ => (0, 0)

theorem windowBounds_eq_wbTs (w : List Sample) : windowBounds w = wbTs (tsOf w) := by
  unfold windowBounds wbTs
  rw [tsOf_head?, tsOf_getLast?]
  cases w.head? <;> cases w.getLast? <;> rfl

theorem map_windowBounds_of_ts {ws ws' : List (List Sample)} (h : ws.map tsOf = ws'.map tsOf) :
    ws.map windowBounds = ws'.map windowBounds := by
  have : ∀ (l : List (List Sample)), l.map windowBounds = (l.map tsOf).map wbTs := by
    intro l; simp [List.map_map, Function.comp_def, windowBounds_eq_wbTs]
  rw [this ws, this ws', h]

theorem aggrLists_eq (ovl : List AggrChk) (base : AggrChk)
    (h : ∀ c ∈ ovl ++ [base], chunkWF c = true) (i : Nat) (hi : i < 5) :
    aggrLists ovl base i = (ovl ++ [base]).map (agg i) := by
  unfold aggrLists
  have hb := (chunkWF_agg (h base (by simp))).1 i hi
  rw [hb, List.map_append]
  congr 1
  have : ∀ (l : List AggrChk), (∀ c ∈ l, chunkWF c = true) → l.filterMap (·.get i) = l.map (agg i) := by
    intro l
    induction l with
    | nil => intro _; rfl
    | cons c l ih =>
      intro hl
      rw [List.filterMap_cons, (chunkWF_agg (hl c (by simp))).1 i hi]
      simp only [List.map_cons]
      rw [ih (fun c' hc' => hl c' (by simp [hc']))]
  exact this ovl (fun c hc => h c (by simp [hc]))

/-- one aggregate's column: the windows of its own merged list, which has the count's timestamps -/
theorem column_spec {split : Nat} (hsp : 0 < split) (isCounter : Bool) {it : AnyIt} {L L0 : List Sample}
    (hg : GoodL it L) (hts : tsOf L = tsOf L0) (hs : SSorted L) (hpos : ∀ x ∈ L, 1 ≤ x.t) :
    toChunksCol true isCounter ((cutWindows split L0.length L0).map windowBounds) (some it) =
      some ((cutWindows split L0.length L).map (finishOf isCounter)) := by
  obtain ⟨V, abs, hl, hi⟩ := hg
  have hlen : L.length = L0.length := by
    have := congrArg List.length hts
    simpa [tsOf] using this
  have hb : (cutWindows split L0.length L0).map windowBounds =
      (cutWindows split L0.length L).map windowBounds :=
    map_windowBounds_of_ts (cutWindows_ts _ _ _ hts.symm)
  have hflat := cutWindows_flatten hsp L0.length L (by omega)
  unfold toChunksCol
  rw [hb]
  apply toChunksGo_spec hl isCounter
  · rw [hflat]; exact ready_of_init hi
  · rw [hflat]; exact hs
  · exact cutWindows_ne _ _
  · rw [hflat]; exact hpos

/-- count samples of a chunk -/
def cnt (c : AggrChk) : Nat := (agg 0 c).length

theorem zip5_cnt : ∀ (ws : List (List Sample)) (a b c d : List (Option (List Sample))),
    a.length = ws.length → b.length = ws.length → c.length = ws.length → d.length = ws.length →
    ((zip5 ws a b c d).map cnt).sum = (ws.map List.length).sum ∧ (ws ≠ [] → zip5 ws a b c d ≠ []) := by
  intro ws
  induction ws with
  | nil => intro a b c d _ _ _ _; simp [zip5]
  | cons w ws ih =>
    intro a b c d ha hb hc hd
    cases a with
    | nil => simp at ha
    | cons a0 a =>
    cases b with
    | nil => simp at hb
    | cons b0 b =>
    cases c with
    | nil => simp at hc
    | cons c0 c =>
    cases d with
    | nil => simp at hd
    | cons d0 d =>
      simp only [List.length_cons, Nat.add_right_cancel_iff] at ha hb hc hd
      obtain ⟨i1, _⟩ := ih a b c d ha hb hc hd
      simp only [zip5, List.map_cons, List.sum_cons, i1]
      exact ⟨by simp [cnt, agg, AggrChk.get], by simp⟩

theorem foldl_pm2_length : ∀ (ls : List (List Sample)) (l : List Sample),
    (ls.foldl (pm2 minT) l).length ≤ l.length + (ls.map List.length).sum := by
  intro ls
  induction ls with
  | nil => intro l; simp
  | cons b ls ih =>
    intro l
    have h1 := ih (pm2 minT l b)
    have h2 := pm2_length_le minT l b
    simp only [List.foldl_cons, List.map_cons, List.sum_cons]
    omega

theorem foldl_pm2_ne : ∀ (ls : List (List Sample)) (l : List Sample), l ≠ [] →
    ls.foldl (pm2 minT) l ≠ [] := by
  intro ls
  induction ls with
  | nil => intro l h; exact h
  | cons b ls ih =>
    intro l h
    simp only [List.foldl_cons]
    apply ih
    intro he
    cases l with
    | nil => exact h rfl
    | cons x ta =>
      cases b with
      | nil => rw [pm2] at he; simp at he
      | cons y tb => rw [pm2] at he; split at he <;> simp at he

theorem sum_length_flatten : ∀ (ws : List (List Sample)), (ws.map List.length).sum = ws.flatten.length := by
  intro ws
  induction ws with
  | nil => rfl
  | cons w ws ih =>
    simp only [List.map_cons, List.sum_cons, List.flatten_cons, List.length_append]
    omega

/-- **The merge of one group of overlapping well-formed chunks** (`om.iterator(base)` drained,
    with the repaired `toChunk`) consists of well-formed chunks: in every output chunk sum, min
    and max have exactly the count's timestamps and the counter has them plus its last one. -/
theorem aggrOut_wf {split : Nat} (hsp : 0 < split) (ovl : List AggrChk) (base : AggrChk)
    (hne : ovl ≠ []) (hwf : ∀ c ∈ ovl ++ [base], chunkWF c = true) :
    ∃ out, aggrOut true true split ovl base = some out ∧ (∀ c ∈ out, chunkWF c = true) ∧ out ≠ [] ∧
      (out.map cnt).sum ≤ ((ovl ++ [base]).map cnt).sum := by
  -- the chunk list has at least two elements
  obtain ⟨c0, ovl', rfl⟩ : ∃ c0 ovl', ovl = c0 :: ovl' := by
    cases ovl with
    | nil => exact absurd rfl hne
    | cons c0 ovl' => exact ⟨c0, ovl', rfl⟩
  obtain ⟨c1, T', hT⟩ : ∃ c1 T', ovl' ++ [base] = c1 :: T' := by
    cases ovl' with
    | nil => exact ⟨base, [], rfl⟩
    | cons c1 o => exact ⟨c1, o ++ [base], rfl⟩
  have hcs : (c0 :: ovl') ++ [base] = c0 :: c1 :: T' := by rw [List.cons_append, hT]
  have hwf' : ∀ c ∈ c0 :: c1 :: T', chunkWF c = true := by rw [← hcs]; exact hwf
  -- the merged list of aggregate i
  let L : Nat → List Sample := fun i => ((c1 :: T').map (agg i)).foldl (pm2 minT) (agg i c0)
  have hlow : ∀ i, i < 5 → ∀ q ∈ agg i c0 :: (c1 :: T').map (agg i), ∀ x ∈ q, minT < x.t := by
    intro i hi q hq x hx
    have hq' : ∃ c ∈ c0 :: c1 :: T', q = agg i c := by
      rcases List.mem_cons.mp hq with rfl | hq
      · exact ⟨c0, by simp, rfl⟩
      · obtain ⟨c, hc, rfl⟩ := List.mem_map.mp hq
        exact ⟨c, by simp only [List.mem_cons] at hc ⊢; exact Or.inr hc, rfl⟩
    obtain ⟨c, hc, rfl⟩ := hq'
    have := (chunkWF_agg (hwf' c hc)).2.2.2.1 i hi x hx
    simp only [minT]; omega
  have hF1 : ∀ i, i < 5 → ∃ it, mergeFold true (aggrLists (c0 :: ovl') base i) = some it ∧ GoodL it (L i) := by
    intro i hi
    rw [aggrLists_eq _ _ hwf i hi, hcs, List.map_cons]
    exact mergeFold_good _ _ (hlow i hi)
  have hF2 : ∀ i, i < 5 → tsOf (L i) = tsOf (L 0) := by
    intro i hi
    exact (foldl_pm2_ts (agg 0) (agg i) c1 T' _ _ ((chunkWF_agg (hwf' c0 (by simp))).2.2.2.2 i hi)
      (fun c hc => (chunkWF_agg (hwf' c (by simp only [List.mem_cons] at hc ⊢; exact Or.inr hc))).2.2.2.2 i hi)).symm
  have hS0 : SSorted (L 0) := by
    apply pmFold_sorted
    · exact (chunkWF_agg (hwf' c0 (by simp))).2.1
    · exact fun x hx => hlow 0 (by omega) _ (by simp) x hx
    · exact fun q hq x hx => hlow 0 (by omega) q (List.mem_cons_of_mem _ hq) x hx
  have hS : ∀ i, i < 5 → SSorted (L i) := fun i hi => ssorted_of_ts (hF2 i hi).symm hS0
  have hP : ∀ i, i < 5 → ∀ x ∈ L i, 1 ≤ x.t := by
    intro i hi x hx
    rcases pmFold_mem _ _ x hx with h | ⟨q, hq, hxq⟩
    · exact (chunkWF_agg (hwf' c0 (by simp))).2.2.2.1 i hi x h
    · obtain ⟨c, hc, rfl⟩ := List.mem_map.mp hq
      exact (chunkWF_agg (hwf' c (by simp only [List.mem_cons] at hc ⊢; exact Or.inr hc))).2.2.2.1 i hi x hxq
  obtain ⟨it0, hm0, hg0⟩ := hF1 0 (by omega)
  obtain ⟨it1, hm1, hg1⟩ := hF1 1 (by omega)
  obtain ⟨it2, hm2, hg2⟩ := hF1 2 (by omega)
  obtain ⟨it3, hm3, hg3⟩ := hF1 3 (by omega)
  obtain ⟨it4, hm4, hg4⟩ := hF1 4 (by omega)
  have hdrain : drain it0 = L 0 := drain_good hg0
  unfold aggrOut
  simp only [hm0, hm1, hm2, hm3, hm4, hdrain]
  rw [column_spec hsp false hg1 (hF2 1 (by omega)) (hS 1 (by omega)) (hP 1 (by omega)),
    column_spec hsp false hg2 (hF2 2 (by omega)) (hS 2 (by omega)) (hP 2 (by omega)),
    column_spec hsp false hg3 (hF2 3 (by omega)) (hS 3 (by omega)) (hP 3 (by omega)),
    column_spec hsp true hg4 (hF2 4 (by omega)) (hS 4 (by omega)) (hP 4 (by omega))]
  have hflat0 := cutWindows_flatten hsp (L 0).length (L 0) (Nat.le_refl _)
  have hlenw : ∀ i, i < 5 → (cutWindows split (L 0).length (L i)).length = (cutWindows split (L 0).length (L 0)).length := by
    intro i hi
    have := congrArg List.length (cutWindows_ts (split := split) (L 0).length (L i) (L 0) (hF2 i hi))
    simpa using this
  obtain ⟨hz1, hz2⟩ := zip5_cnt (cutWindows split (L 0).length (L 0))
    ((cutWindows split (L 0).length (L 1)).map (finishOf false))
    ((cutWindows split (L 0).length (L 2)).map (finishOf false))
    ((cutWindows split (L 0).length (L 3)).map (finishOf false))
    ((cutWindows split (L 0).length (L 4)).map (finishOf true))
    (by rw [List.length_map]; exact hlenw 1 (by omega)) (by rw [List.length_map]; exact hlenw 2 (by omega))
    (by rw [List.length_map]; exact hlenw 3 (by omega)) (by rw [List.length_map]; exact hlenw 4 (by omega))
  have hL0ne : L 0 ≠ [] := foldl_pm2_ne _ _ (chunkWF_agg (hwf' c0 (by simp))).2.2.1
  refine ⟨_, rfl, ?_, ?_, ?_⟩
  · apply zip5_wf
    · exact cutWindows_ts _ _ _ (hF2 1 (by omega))
    · exact cutWindows_ts _ _ _ (hF2 2 (by omega))
    · exact cutWindows_ts _ _ _ (hF2 3 (by omega))
    · exact cutWindows_ts _ _ _ (hF2 4 (by omega))
    · intro w hw
      have hsub : w.Sublist (L 0) := by rw [← hflat0]; exact List.sublist_flatten_of_mem hw
      exact ⟨cutWindows_ne _ _ w hw, List.Pairwise.sublist hsub hS0,
        fun x hx => hP 0 (by omega) x (hsub.subset hx)⟩
  · apply hz2
    intro he
    rw [he] at hflat0
    exact hL0ne hflat0.symm
  · rw [hz1, sum_length_flatten, hflat0, hcs]
    have := foldl_pm2_length ((c1 :: T').map (agg 0)) (agg 0 c0)
    simp only [List.map_cons, List.sum_cons, cnt, List.map_map, Function.comp_def] at this ⊢
    exact this

end Thanos.Dedup
