import Thanos.Lemmas.DownsampleCounter
/-
  Helper lemmas for C37: reading a sequence of counter sub-chunks, each written for a segment
  of the raw series (a batch at level 1, a group of chunks at level 2), yields the reset-adjusted
  raw counter.
-/
namespace Thanos.Downsample

/-- the counter sub-chunk written for the raw samples `vs` with emission timestamps `T`: first
    raw sample, the adjusted counter at every emission timestamp, last raw sample -/
def ctrChunk (vs : List Pt) (T : List Int) : List Pt :=
  match vs.head?, vs.getLast? with
  | some f, some l => f :: T.map (fun t => (t, adjAt vs t)) ++ [l]
  | _, _ => []

structure SegOK (vs : List Pt) (T : List Int) : Prop where
  sorted : Sorted vs
  ne : vs ≠ []
  nonneg : ∀ p ∈ vs, 0 ≤ p.2
  tne : T ≠ []
  tsorted : T.Pairwise (· < ·)
  tfirst : ∀ t ∈ T, ∀ f, vs.head? = some f → f.1 ≤ t
  tlast : ∀ l, vs.getLast? = some l → T.getLast? = some l.1

/-- in a time-ordered list the samples `≤ t` form a prefix -/
theorem sorted_filter_split : ∀ (l : List Pt) (t : Int), Sorted l →
    l = l.filter (fun p => p.1 ≤ t) ++ l.filter (fun p => t < p.1)
  | [], _, _ => rfl
  | x :: xs, t, hs => by
    have hs' := List.pairwise_cons.mp hs
    by_cases hx : x.1 ≤ t
    · have hx' : ¬ t < x.1 := by omega
      simp only [List.filter_cons, hx, hx', decide_true, decide_false, if_true, List.cons_append]
      congr 1
      exact sorted_filter_split xs t hs'.2
    · have hx' : t < x.1 := by omega
      have hnil : xs.filter (fun p => decide (p.1 ≤ t)) = [] :=
        List.filter_eq_nil_iff.mpr (fun p hp => by have := hs'.1 p hp; simp; omega)
      have hall : xs.filter (fun p => decide (t < p.1)) = xs :=
        List.filter_eq_self.mpr (fun p hp => by have := hs'.1 p hp; simp; omega)
      simp [List.filter_cons, hx, hx', hnil, hall]

theorem filter_le_mono (l : List Pt) (t t' : Int) (hs : Sorted l) (htt : t ≤ t') :
    ∃ ext, l.filter (fun p => p.1 ≤ t') = l.filter (fun p => p.1 ≤ t) ++ ext ∧ ∀ p ∈ ext, p ∈ l := by
  have h := sorted_filter_split l t hs
  refine ⟨(l.filter (fun p => t < p.1)).filter (fun p => p.1 ≤ t'), ?_, ?_⟩
  · conv => lhs; rw [h, List.filter_append]
    congr 1
    rw [List.filter_filter]
    apply List.filter_congr
    intro p _
    by_cases hp : p.1 ≤ t
    · have : p.1 ≤ t' := by omega
      simp [hp, this]
    · simp [hp]
  · intro p hp
    exact (List.mem_filter.mp (List.mem_filter.mp hp).1).1

/-- for a counter (values ≥ 0) the adjusted value never decreases with `t`, from the first sample on -/
theorem adjAt_mono (vs : List Pt) (hs : Sorted vs) (h0 : ∀ p ∈ vs, 0 ≤ p.2) (f : Pt) (hf : vs.head? = some f)
    (t t' : Int) (ht : f.1 ≤ t) (htt : t ≤ t') : adjAt vs t ≤ adjAt vs t' := by
  obtain ⟨ext, he, hext⟩ := filter_le_mono vs t t' hs htt
  simp only [adjAt, he, List.map_append]
  -- the prefix up to t is non-empty: it contains f
  have hfm : f ∈ vs.filter (fun p => p.1 ≤ t) := by
    refine List.mem_filter.mpr ⟨List.mem_of_mem_head? (by rw [hf]; rfl), by simpa using ht⟩
  cases hp : (vs.filter (fun p => p.1 ≤ t)).map (·.2) with
  | nil =>
    have := List.map_eq_nil_iff.mp hp
    rw [this] at hfm; simp at hfm
  | cons x xs =>
    apply adjusted_mono_append
    intro v hv
    rw [← hp, ← List.map_append] at hv
    obtain ⟨p, hpm, rfl⟩ := List.mem_map.mp hv
    apply h0
    rcases List.mem_append.mp hpm with h | h
    · exact (List.mem_filter.mp h).1
    · exact hext p h

theorem adjAt_head (vs : List Pt) (hs : Sorted vs) (t0 v0 : Int) (hf : vs.head? = some (t0, v0)) :
    adjAt vs t0 = v0 := by
  cases vs with
  | nil => simp at hf
  | cons x xs =>
    simp only [List.head?_cons, Option.some.injEq] at hf; subst hf
    have hs' := List.pairwise_cons.mp hs
    have hnil : xs.filter (fun p => decide (p.1 ≤ t0)) = [] :=
      List.filter_eq_nil_iff.mpr (fun p hp => by have := hs'.1 p hp; simp at this ⊢; omega)
    simp [adjAt, List.filter_cons, hnil, adjusted]

theorem seg_shape (vs : List Pt) (T : List Int) (ok : SegOK vs T) (t0 v0 lt lv : Int)
    (hf : vs.head? = some (t0, v0)) (hl : vs.getLast? = some (lt, lv)) :
    ctrChunk vs T = (t0, v0) :: T.map (fun t => (t, adjAt vs t)) ++ [(lt, lv)] ∧
    CtrShape t0 v0 (T.map (fun t => (t, adjAt vs t))) lt := by
  refine ⟨by simp [ctrChunk, hf, hl], ?_⟩
  have hT0 : ∀ t ∈ T, t0 ≤ t := fun t ht => ok.tfirst t ht _ hf
  refine ⟨?_, ?_, ?_, ?_, ?_, ?_, ?_⟩
  · intro hc; exact ok.tne (List.map_eq_nil_iff.mp hc)
  · simpa [List.map_map, Function.comp_def] using ok.tsorted
  · intro p hp
    obtain ⟨t, ht, rfl⟩ := List.mem_map.mp hp
    exact hT0 t ht
  · simpa [List.map_map, Function.comp_def] using ok.tlast _ hl
  · simp only [List.map_map, Function.comp_def]
    rw [List.pairwise_map]
    refine ok.tsorted.imp_of_mem ?_
    intro a b ha _ hab
    exact adjAt_mono vs ok.sorted ok.nonneg _ hf a b (hT0 a ha) (Int.le_of_lt hab)
  · intro p hp
    obtain ⟨t, ht, rfl⟩ := List.mem_map.mp hp
    have := adjAt_mono vs ok.sorted ok.nonneg _ hf t0 t (Int.le_refl _) (hT0 t ht)
    rw [adjAt_head vs ok.sorted t0 v0 hf] at this
    exact this
  · intro p hp hpt
    obtain ⟨t, ht, rfl⟩ := List.mem_map.mp hp
    simp only at hpt ⊢
    rw [hpt]
    exact adjAt_head vs ok.sorted t0 v0 hf

/-! ### reading the chunks of consecutive segments -/

/-- the running total right after the first sample `v0` of a segment that follows `pre` -/
def enterSpec (pre : List Pt) (v0 : Int) : Int :=
  match pre.getLast? with
  | none => v0
  | some lp => adjusted (pre.map (·.2)) + delta lp.2 v0

/-- **the adjusted counter over `pre ++ vs` from the adjusted counter over `vs` alone** -/
theorem adjAt_append (pre vs : List Pt) (t0 v0 : Int) (hf : vs.head? = some (t0, v0))
    (hpre : ∀ p ∈ pre, p.1 < t0) (t : Int) (ht : t0 ≤ t) :
    adjAt (pre ++ vs) t = enterSpec pre v0 + (adjAt vs t - v0) := by
  have hfp : pre.filter (fun p => decide (p.1 ≤ t)) = pre :=
    List.filter_eq_self.mpr (fun p hp => by have := hpre p hp; simp; omega)
  cases vs with
  | nil => simp at hf
  | cons x xs =>
    simp only [List.head?_cons, Option.some.injEq] at hf; subst hf
    have hx : decide (t0 ≤ t) = true := by simpa using ht
    simp only [adjAt, List.filter_append, hfp, List.filter_cons, hx, if_true, List.map_append, List.map_cons, enterSpec]
    cases hp : pre.map (·.2) with
    | nil =>
      have hpn : pre = [] := List.map_eq_nil_iff.mp hp
      simp [hpn]; omega
    | cons y ys =>
      have := adjusted_append y ys v0 ((xs.filter fun p => decide (p.1 ≤ t)).map (·.2))
      rw [this]
      cases hgl : pre.getLast? with
      | none => have := List.getLast?_eq_none_iff.mp hgl; rw [this] at hp; simp at hp
      | some lp =>
        have hlv : lastVal (y :: ys) = lp.2 := by
          rw [← hp]; simp [lastVal, List.getLast?_map, hgl]
        simp only [hlv]

def firstT (vs : List Pt) : Int := match vs.head? with | some f => f.1 | none => 0

/-- what the reader must return for the chunks of the segments `segs` that follow the raw
    samples `pre`: per segment its first timestamp and then its later emission timestamps, each
    with the reset-adjusted raw counter at that timestamp -/
def readSegs : List Pt → List (List Pt × List Int) → List Pt
  | _, [] => []
  | pre, (vs, T) :: rest =>
    ((firstT vs :: T.filter (fun t => firstT vs < t)).map fun t => (t, adjAt (pre ++ vs) t)) ++
      readSegs (pre ++ vs) rest

/-- the reader's state after the raw samples `pre` -/
def StateAfter (pre : List Pt) (s : CR) (fr : List Int) : Prop :=
  match pre.getLast? with
  | none => s.total = 0 ∧ fr = []
  | some lp => 0 < s.total ∧ s.totalV = adjusted (pre.map (·.2)) ∧ s.lastV = lp.2 ∧ s.lastT = lp.1 ∧ fr = [lp.1 + 1]

theorem crChunks_segs : ∀ (segs : List (List Pt × List Int)) (pre : List Pt) (s : CR) (fr : List Int),
    (∀ sg ∈ segs, SegOK sg.1 sg.2) → Sorted (pre ++ segs.flatMap (·.1)) → StateAfter pre s fr →
    (crChunks (segs.map fun sg => ctrChunk sg.1 sg.2) s fr).1 = readSegs pre segs ∧
    ∃ fr', StateAfter (pre ++ segs.flatMap (·.1)) (crChunks (segs.map fun sg => ctrChunk sg.1 sg.2) s fr).2 fr' := by
  intro segs
  induction segs with
  | nil =>
    intro pre s fr _ _ hst
    refine ⟨rfl, fr, ?_⟩
    simp only [List.flatMap_nil, List.append_nil, List.map_nil, crChunks]
    exact hst
  | cons sg rest ih =>
    intro pre s fr hok hsorted hst
    obtain ⟨vs, T⟩ := sg
    have ok := hok (vs, T) (by simp)
    simp only at ok
    -- head and last of the segment
    obtain ⟨⟨t0, v0⟩, hf⟩ : ∃ f, vs.head? = some f := by
      cases vs with
      | nil => exact absurd rfl ok.ne
      | cons x _ => exact ⟨x, rfl⟩
    obtain ⟨⟨lt, lv⟩, hl⟩ : ∃ l, vs.getLast? = some l := by
      cases h : vs.getLast? with
      | none => exact absurd (List.getLast?_eq_none_iff.mp h) ok.ne
      | some l => exact ⟨l, rfl⟩
    obtain ⟨hchunk, hshape⟩ := seg_shape vs T ok t0 v0 lt lv hf hl
    -- ordering facts
    simp only [List.flatMap_cons] at hsorted
    have hs1 := List.pairwise_append.mp hsorted
    have hpre_lt : ∀ p ∈ pre, p.1 < t0 := fun p hp =>
      hs1.2.2 p hp (t0, v0) (List.mem_append_left _ (List.mem_of_mem_head? (by rw [hf]; rfl)))
    -- the state on entry
    have hentry : (s.total = 0 ∨ s.lastT < t0) ∧ (∀ x ∈ fr, x ≤ t0) ∧ enterV s v0 = enterSpec pre v0 := by
      unfold StateAfter at hst
      cases hgl : pre.getLast? with
      | none =>
        rw [hgl] at hst
        obtain ⟨h1, h2⟩ := hst
        exact ⟨Or.inl h1, by rw [h2]; simp, by simp [enterV, enterSpec, h1, hgl]⟩
      | some lp =>
        rw [hgl] at hst
        obtain ⟨h1, h2, h3, h4, h5⟩ := hst
        have hlp := hpre_lt lp (List.mem_of_getLast? hgl)
        refine ⟨Or.inr (by omega), by rw [h5]; intro x hx; simp at hx; omega, ?_⟩
        have hne : s.total ≠ 0 := by omega
        simp only [enterV, enterSpec, hne, if_false, hgl, h2, h3, delta]
        congr 1
        by_cases hv : v0 < lp.2
        · have : ¬ v0 ≥ lp.2 := by omega
          simp [hv, this]
        · have : v0 ≥ lp.2 := by omega
          simp [hv, this]
    obtain ⟨n, hn, hcr⟩ := crChunk_shape t0 v0 _ lt lv hshape s fr hentry.1 hentry.2.1
    rw [← hchunk] at hcr
    -- values
    have hval : ∀ t, t0 ≤ t → enterV s v0 + (adjAt vs t - v0) = adjAt (pre ++ vs) t := by
      intro t ht
      rw [adjAt_append pre vs t0 v0 hf hpre_lt t ht, hentry.2.2]
    have hX : enterV s v0 = adjAt (pre ++ vs) t0 := by
      have := hval t0 (Int.le_refl _)
      rw [adjAt_head vs ok.sorted t0 v0 hf] at this
      omega
    -- the last emission timestamp is lt and everything of pre ++ vs is ≤ lt
    have hTlast := ok.tlast _ hl
    simp only at hTlast
    have hlt0 : t0 ≤ lt := ok.tfirst lt (List.mem_of_getLast? hTlast) _ hf
    have hlastval : lastVal ((T.map fun t => (t, adjAt vs t)).map (·.2)) = adjAt vs lt := by
      simp only [lastVal, List.map_map, Function.comp_def, List.getLast?_map, hTlast, Option.map_some]
    have hall : (pre ++ vs).filter (fun p => decide (p.1 ≤ lt)) = pre ++ vs := by
      apply List.filter_eq_self.mpr
      intro p hp
      rcases List.mem_append.mp hp with h | h
      · have := hpre_lt p h; simp; omega
      · obtain ⟨ys, hys⟩ := List.getLast?_eq_some_iff.mp hl
        have hsv := ok.sorted
        rw [hys] at h hsv
        rcases List.mem_append.mp h with h' | h'
        · have := (List.pairwise_append.mp hsv).2.2 p h' (lt, lv) (by simp)
          simp; omega
        · simp at h'; rw [h']; simp
    -- the state after this chunk
    obtain ⟨s', hcr', hs'1, hs'2, hs'3, hs'4raw⟩ : ∃ s' : CR, crChunk (ctrChunk vs T) s fr =
        ((t0, enterV s v0) :: (List.filter (fun p => decide (t0 < p.1)) (T.map fun t => (t, adjAt vs t))).map
          (fun p => (p.1, enterV s v0 + (p.2 - v0))), s', []) ∧ s'.total = n ∧ s'.lastT = lt ∧ s'.lastV = lv ∧
        s'.totalV = enterV s v0 + (lastVal ((T.map fun t => (t, adjAt vs t)).map (·.2)) - v0) :=
      ⟨_, hcr, rfl, rfl, rfl, rfl⟩
    have hs'4 : s'.totalV = adjusted ((pre ++ vs).map (·.2)) := by
      rw [hs'4raw, hlastval, hval lt hlt0]
      simp only [adjAt, hall]
    have hst' : StateAfter (pre ++ vs) s' [s'.lastT + 1] := by
      unfold StateAfter
      have hgl : (pre ++ vs).getLast? = some (lt, lv) := by
        rw [getLast?_append_ne' _ _ ok.ne, hl]
      rw [hgl]
      exact ⟨by omega, hs'4, hs'3, hs'2, by rw [hs'2]⟩
    simp only [List.map_cons, crChunks, hcr']
    have hrest := ih (pre ++ vs) s' [s'.lastT + 1] (fun sg hsg => hok sg (List.mem_cons_of_mem _ hsg))
      (by rw [List.append_assoc]; exact hsorted) hst'
    refine ⟨?_, ?_⟩
    · simp only [readSegs, firstT, hf]
      rw [hrest.1]
      congr 1
      simp only [List.map_cons, hX, List.filter_map, List.map_map, Function.comp_def]
      congr 1
      apply List.map_congr_left
      intro t ht
      have := (List.mem_filter.mp ht).2
      simp only [Function.comp_apply, decide_eq_true_eq] at this
      rw [← hX, hval t (by omega)]
    · obtain ⟨fr', hfr'⟩ := hrest.2
      refine ⟨fr', ?_⟩
      simp only [List.flatMap_cons]
      rw [← List.append_assoc]
      exact hfr'

theorem adjAt_append_later' (l suf : List Pt) (t : Int) (h : ∀ p ∈ suf, t < p.1) :
    adjAt (l ++ suf) t = adjAt l t := by
  have : suf.filter (fun p => decide (p.1 ≤ t)) = [] :=
    List.filter_eq_nil_iff.mpr (fun p hp => by have := h p hp; simp; omega)
  simp [adjAt, List.filter_append, this]

/-- the emission timestamps the reader returns for one segment -/
def segTs (vs : List Pt) (T : List Int) : List Int := firstT vs :: T.filter (fun t => firstT vs < t)

/-- `readSegs` with the adjusted counter taken over the whole series -/
theorem readSegs_global : ∀ (segs : List (List Pt × List Int)) (pre : List Pt),
    Sorted (pre ++ segs.flatMap (·.1)) → (∀ sg ∈ segs, SegOK sg.1 sg.2) →
    readSegs pre segs = segs.flatMap (fun sg => (segTs sg.1 sg.2).map fun t => (t, adjAt (pre ++ segs.flatMap (·.1)) t)) := by
  intro segs
  induction segs with
  | nil => intro _ _ _; rfl
  | cons sg rest ih =>
    intro pre hsorted hok
    obtain ⟨vs, T⟩ := sg
    have ok := hok (vs, T) (by simp)
    simp only at ok
    obtain ⟨⟨t0, v0⟩, hf⟩ : ∃ f, vs.head? = some f := by
      cases vs with
      | nil => exact absurd rfl ok.ne
      | cons x _ => exact ⟨x, rfl⟩
    obtain ⟨⟨lt, lv⟩, hl⟩ : ∃ l, vs.getLast? = some l := by
      cases h : vs.getLast? with
      | none => exact absurd (List.getLast?_eq_none_iff.mp h) ok.ne
      | some l => exact ⟨l, rfl⟩
    have hTlast := ok.tlast _ hl
    simp only at hTlast
    -- every emission timestamp of this segment is ≤ lt
    have hTle : ∀ t ∈ segTs vs T, t ≤ lt := by
      intro t ht
      simp only [segTs, firstT, hf, List.mem_cons] at ht
      obtain ⟨ys, hys⟩ := List.getLast?_eq_some_iff.mp hTlast
      have hT := ok.tsorted
      rw [hys] at hT
      have hle : ∀ u ∈ T, u ≤ lt := by
        intro u hu
        rw [hys] at hu
        rcases List.mem_append.mp hu with h | h
        · exact Int.le_of_lt ((List.pairwise_append.mp hT).2.2 u h lt (by simp))
        · simp at h; omega
      rcases ht with h | h
      · rw [h]; exact ok.tfirst lt (List.mem_of_getLast? hTlast) _ hf
      · exact hle t (List.mem_filter.mp h).1
    -- everything after this segment is later than lt
    simp only [List.flatMap_cons] at hsorted
    have hlater : ∀ p ∈ rest.flatMap (·.1), lt < p.1 := by
      intro p hp
      have h1 := (List.pairwise_append.mp hsorted).2.1
      exact (List.pairwise_append.mp h1).2.2 (lt, lv) (List.mem_of_getLast? hl) p hp
    simp only [readSegs, List.flatMap_cons]
    rw [ih (pre ++ vs) (by rw [List.append_assoc]; exact hsorted) (fun sg hsg => hok sg (List.mem_cons_of_mem _ hsg))]
    congr 1
    · apply List.map_congr_left
      intro t ht
      have hlt := hTle t (by simpa [segTs] using ht)
      have : adjAt (pre ++ (vs ++ rest.flatMap (·.1))) t = adjAt (pre ++ vs) t := by
        rw [← List.append_assoc]
        exact adjAt_append_later' (pre ++ vs) _ t (fun p hp => by have := hlater p hp; omega)
      rw [this]
    · simp only [List.append_assoc]

end Thanos.Downsample
